(* C17.PoolD: ThreadPool, drained clause: when JoinAll() has returned (the owner thread is finished) both workers
   have finished, the queue is empty and every closure handed to Execute has been run exactly once. *)
From Coq Require Import List Arith Bool Lia Permutation.
Import ListNotations.
From C17 Require Import Sem Progs Static Annot Owner Effects Conserve Pool.

Definition WI (s : state) (w : tid) : Prop :=
  (stat (thr s w) = Ready -> inl (pc (thr s w)) [11;12] = true -> que s 16 = []) /\
  ((stat (thr s w) = Ready /\ pc (thr s w) = 14) \/ pc (thr s w) = 15 -> que s 16 = [] /\ var s 16 = 1) /\
  (stat (thr s w) = Done -> pc (thr s w) = 15) /\
  (pc (thr s w) <=? 15) = true.

Definition XD (s : state) : Prop :=
  let p0 := pc (thr s 0) in let r0 := reg (thr s 0) in let c0 := cnt (thr s 0) in
  var s 16 = (if 24 <=? p0 then 1 else 0) /\
  (((13 <=? p0) && (p0 <=? 33)) = true -> var s 18 = 1) /\ (inl p0 [28;29] = true -> r0 = 1) /\
  (((6 <=? p0) && (p0 <=? 42)) = true -> var s 17 = 1) /\ (inl p0 [37;38] = true -> r0 = 1) /\
  (inl p0 [31;40] = true -> c0 = 0) /\
  ((32 <=? p0) = true -> stat (thr s 2) = Done) /\ ((41 <=? p0) = true -> stat (thr s 1) = Done) /\
  (stat (thr s 0) = Done -> p0 = 44) /\ (p0 <=? 44) = true /\
  WI s 1 /\ WI s 2.

Lemma evol_ready a b : stat_evol a b -> b = Ready -> a = Ready.
Proof. intros [->|[(x & y & _ & ->)|[_ ->]]] H; [exact H|discriminate H|discriminate H]. Qed.
Lemma evol_done_inv a b : stat_evol a b -> b = Done -> a = Done.
Proof. intros [->|[(x & y & _ & ->)|[_ ->]]] H; [exact H|discriminate H|discriminate H]. Qed.
Lemma evol_done a b : stat_evol a b -> a = Done -> b = Done.
Proof. intros [->|[(x & y & -> & _)|[-> _]]] H; [exact H|discriminate H|discriminate H]. Qed.

(* a worker's facts survive a step that leaves the queue alone *)
Lemma WI_keep s s' w : pc (thr s' w) = pc (thr s w) -> stat_evol (stat (thr s w)) (stat (thr s' w)) ->
  que s' 16 = que s 16 -> (var s' 16 = var s 16 \/ var s' 16 = 1) -> WI s w -> WI s' w.
Proof.
  intros Hp He Hq Hv (A & B & C & D). unfold WI. rewrite Hp, Hq. split; [|split; [|split; [|exact D]]].
  - intros X. apply A. exact (evol_ready _ _ He X).
  - intros X. assert (Y : (stat (thr s w) = Ready /\ pc (thr s w) = 14) \/ pc (thr s w) = 15).
    { destruct X as [[X1 X2]|X]; [left; split; [exact (evol_ready _ _ He X1)|exact X2]|right; exact X]. }
    destruct (B Y) as [B1 B2]. split; [exact B1|]. destruct Hv as [->| ->]; [exact B2|reflexivity].
  - intros X. apply C. exact (evol_done_inv _ _ He X).
Qed.

(* ... a push (by the owner): no worker can be past an empty-queue test at that moment *)
Lemma WI_push s s' w : pc (thr s' w) = pc (thr s w) -> stat_evol (stat (thr s w)) (stat (thr s' w)) ->
  var s' 16 = var s 16 -> var s 16 = 0 ->
  ~ (stat (thr s w) = Ready /\ inl (pc (thr s w)) [11;12] = true) -> WI s w -> WI s' w.
Proof.
  intros Hp He Hv H0 Hx (A & B & C & D). unfold WI. rewrite Hp. split; [|split; [|split; [|exact D]]].
  - intros X Y. exfalso. apply Hx. split; [exact (evol_ready _ _ He X)|exact Y].
  - intros X. exfalso. assert (Y : (stat (thr s w) = Ready /\ pc (thr s w) = 14) \/ pc (thr s w) = 15).
    { destruct X as [[X1 X2]|X]; [left; split; [exact (evol_ready _ _ He X1)|exact X2]|right; exact X]. }
    destruct (B Y) as [_ B2]. congruence.
  - intros X. apply C. exact (evol_done_inv _ _ He X).
Qed.

(* ... a pop (by the other worker): the queue was not empty, so this worker was not past an empty-queue test *)
Lemma WI_pop s s' w : pc (thr s' w) = pc (thr s w) -> stat_evol (stat (thr s w)) (stat (thr s' w)) ->
  que s 16 <> [] -> WI s w -> WI s' w.
Proof.
  intros Hp He Hn (A & B & C & D). unfold WI. rewrite Hp. split; [|split; [|split; [|exact D]]].
  - intros X Y. exfalso. apply Hn. apply A; [exact (evol_ready _ _ He X)|exact Y].
  - intros X. exfalso. apply Hn. assert (Y : (stat (thr s w) = Ready /\ pc (thr s w) = 14) \/ pc (thr s w) = 15).
    { destruct X as [[X1 X2]|X]; [left; split; [exact (evol_ready _ _ He X1)|exact X2]|right; exact X]. }
    exact (proj1 (B Y)).
  - intros X. apply C. exact (evol_done_inv _ _ He X).
Qed.

Lemma var_wake s u : var (wake s u) = var s.
Proof. unfold wake. destruct (stat (thr s u)); reflexivity. Qed.
Lemma var_wakes l : forall s, var (fold_left wake l s) = var s.
Proof. induction l as [|u l IH]; intros s; cbn [fold_left]; [reflexivity|]. rewrite IH. apply var_wake. Qed.

Lemma worker_not_at_test s w : Inv P An s -> (prog (thr s w) = 17 \/ prog (thr s w) = 18) -> w <> 0 ->
  own s 16 = Some 0 -> ~ (stat (thr s w) = Ready /\ inl (pc (thr s w)) [11;12] = true).
Proof.
  intros I Hp Hw Ho [Hs Hpc].
  assert (X : own s 16 = Some w).
  { apply (ready_owns P An s w 16 I Hs). unfold ann.
    unfold inl in Hpc. cbn in Hpc. rewrite !orb_true_iff, !Nat.eqb_eq in Hpc.
    destruct Hp as [-> | ->]; destruct Hpc as [-> |[-> |Y]]; try discriminate Y; reflexivity. }
  rewrite Ho in X. inversion X. congruence.
Qed.

Ltac nv := cbn; rewrite ?var_wake, ?var_wakes, ?que_wake, ?que_wakes; cbn; unfold upd; cbn.

Lemma XD_step_owner s k s' : Inv P An s -> PL s -> XD s -> exec P s (LStep 0 k) = Some s' -> XD s'.
Proof.
  intros HI (p0 & st0 & r0 & c0 & l0 & H0 & Hn & H1 & H2 & Hsub & Hs0 & Hc & Hwk & Hran) HX E.
  pose proof (step_effects P s 0 k s' E) as [Eo Ev En Er Es].
  destruct (only_stat_fields _ _ (Eo 1 ltac:(discriminate))) as (_ & P1 & _).
  destruct (only_stat_fields _ _ (Eo 2 ltac:(discriminate))) as (_ & P2 & _).
  pose proof (Ev 1 ltac:(discriminate)) as V1. pose proof (Ev 2 ltac:(discriminate)) as V2.
  clear Eo Ev En Er Es.
  unfold XD in HX. rewrite H0 in HX. cbn [pc reg cnt stat] in HX.
  destruct HX as (X1 & X2 & X3 & X4 & X5 & X6 & X7 & X8 & X9 & X10 & W1 & W2).
  assert (FIN : forall p0' st0' r0' c0' l0',
     thr s' 0 = mkT 16 p0' st0' r0' c0' l0' None ->
     var s' 16 = (if 24 <=? p0' then 1 else 0) ->
     (((13 <=? p0') && (p0' <=? 33)) = true -> var s' 18 = 1) -> (inl p0' [28;29] = true -> r0' = 1) ->
     (((6 <=? p0') && (p0' <=? 42)) = true -> var s' 17 = 1) -> (inl p0' [37;38] = true -> r0' = 1) ->
     (inl p0' [31;40] = true -> c0' = 0) ->
     ((32 <=? p0') = true -> stat (thr s 2) = Done) -> ((41 <=? p0') = true -> stat (thr s 1) = Done) ->
     (st0' = Done -> p0' = 44) -> (p0' <=? 44) = true -> WI s' 1 -> WI s' 2 -> XD s').
  { intros p0' st0' r0' c0' l0' A a1 a2 a3 a4 a5 a6 a7 a8 a9 a10 b1 b2. unfold XD. rewrite A. cbn [pc reg cnt stat].
    split; [exact a1|]. split; [exact a2|]. split; [exact a3|]. split; [exact a4|]. split; [exact a5|].
    split; [exact a6|]. split; [intros X; exact (evol_done _ _ V2 (a7 X))|].
    split; [intros X; exact (evol_done _ _ V1 (a8 X))|]. split; [exact a9|]. split; [exact a10|]. split; [exact b1|exact b2]. }
  unfold exec in E. destruct (fault s); [discriminate|]. rewrite Hn in E. cbn [Nat.ltb Nat.leb negb] in E.
  rewrite H0 in E. cbn [stat] in E.
  assert (KEEP : forall sx, que sx 16 = que s 16 -> (var sx 16 = var s 16 \/ var sx 16 = 1) ->
            pc (thr sx 1) = pc (thr s 1) -> stat_evol (stat (thr s 1)) (stat (thr sx 1)) ->
            pc (thr sx 2) = pc (thr s 2) -> stat_evol (stat (thr s 2)) (stat (thr sx 2)) -> WI sx 1 /\ WI sx 2).
  { intros sx q v a b c d. split; [eapply WI_keep; eauto|eapply WI_keep; eauto]. }
  destruct st0; try discriminate E.
  - (* Fresh *)
    inversion E; subst s'. destruct (KEEP _ eq_refl (or_introl eq_refl) P1 V1 P2 V2) as [K1 K2].
    eapply FIN; [cbn; unfold upd; cbn; reflexivity|exact X1|exact X2|exact X3|exact X4|exact X5|exact X6|exact X7|exact X8| |exact X10|exact K1|exact K2].
    intros X; discriminate X.
  - (* Ready *)
    destruct p0 as [|[|[|[|[|[|[|[|[|[|[|[|[|[|[|[|[|[|[|[|[|[|[|[|[|[|[|[|[|[|[|[|[|[|[|[|[|[|[|[|[|[|[|[|[|p0]]]]]]]]]]]]]]]]]]]]]]]]]]]]]]]]]]]]]]]]]]]]];
    cbn in E; try (destruct p0; cbn in E); unfold live, obj_of in E; cbn in E;
    repeat match type of E with
           | (if ?c then _ else _) = _ => destruct c eqn:?
           | match ?x with _ => _ end = _ => destruct x eqn:?
           end;
    try discriminate E; cbn in E; rewrite ?H0 in E; cbn in E; try discriminate E;
    repeat match type of E with
           | context [if ?c then _ else _] => destruct c eqn:?
           | context [match que s ?q with _ => _ end] => destruct (que s q) eqn:?
           | context [match wq s ?q with _ => _ end] => destruct (wq s q) eqn:?
           end;
    cbn in E; try discriminate E;
    (inversion E; subst s'; clear E);
    cbn in X1, X2, X3, X4, X5, X6, X7, X8, X10; try discriminate X10;
    (eapply FIN; [cbn; unfold upd; cbn;
                   rewrite ?wake_keep, ?wakes_keep by (cbn; rewrite ?H0; reflexivity);
                   cbn; rewrite ?H0; cbn; reflexivity | .. ]);
    try (nv; first [ exact X1 | reflexivity | assumption ]);
    try (intros XX; first [ discriminate XX | (nv; first [reflexivity | exact (X2 eq_refl) | exact (X4 eq_refl) | assumption])
                          | exact (X3 eq_refl) | exact (X5 eq_refl) | exact (X6 eq_refl) | reflexivity
                          | exact (X7 eq_refl) | exact (X8 eq_refl) | exact (X9 XX) ]).
    all: try reflexivity.
    all: try (intros _; nv; apply Nat.eqb_eq; assumption).
    all: try (exfalso; rewrite (X3 eq_refl) in *; discriminate).
    all: try (exfalso; rewrite (X5 eq_refl) in *; discriminate).
    all: try (intros _; match goal with Hj : stat (thr _ _) = Done |- _ => rewrite H0 in Hj; cbn in Hj; rewrite (X6 eq_refl) in Hj; exact Hj end).
    all: try (eapply WI_keep; [exact P1|exact V1|nv; reflexivity|nv; first [left; reflexivity|right; reflexivity]|exact W1]).
    all: try (eapply WI_keep; [exact P2|exact V2|nv; reflexivity|nv; first [left; reflexivity|right; reflexivity]|exact W2]).
    all: try (assert (OW : own s 16 = Some 0) by (apply (ready_owns P An s 0 16 HI); [rewrite H0; reflexivity|unfold ann; rewrite H0; reflexivity]);
              first [ (eapply WI_push; [exact P1|exact V1|nv; reflexivity|exact X1|apply (worker_not_at_test s 1 HI); [left; exact H1|discriminate|exact OW]|exact W1])
                    | (eapply WI_push; [exact P2|exact V2|nv; reflexivity|exact X1|apply (worker_not_at_test s 2 HI); [right; exact H2|discriminate|exact OW]|exact W2]) ]).
  - (* Asleep: not a timed wait *)
    destruct (fetch P {| prog := 16; pc := p0; stat := Asleep c m; reg := r0; cnt := c0; lim := l0; cur := None |}) eqn:EF;
      try discriminate E.
    exfalso. unfold fetch in EF. cbn [prog pc] in EF. revert EF.
    do 46 (destruct p0 as [|p0]; [discriminate|]). discriminate.
  - (* Woken: after the wait in Thread::Start *)
    cbn in Hwk.
    destruct (negb (live s m)).
    + inversion E; subst s'. destruct (KEEP _ eq_refl (or_introl eq_refl) P1 V1 P2 V2) as [K1 K2].
      eapply FIN; [cbn; rewrite H0; reflexivity|exact X1|exact X2|exact X3|exact X4|exact X5|exact X6|exact X7|exact X8| |exact X10|exact K1|exact K2].
      intros X; discriminate X.
    + destruct (own s m); [discriminate|]. inversion E; subst s'.
      destruct (KEEP _ eq_refl (or_introl eq_refl) P1 V1 P2 V2) as [K1 K2].
      unfold inl in Hwk. cbn in Hwk. rewrite !orb_true_iff, !Nat.eqb_eq in Hwk.
      destruct Hwk as [->|[->|X]]; [ | |discriminate X];
        cbn in X1, X2, X3, X4, X5, X6, X7, X8;
        (eapply FIN; [cbn; unfold upd; cbn; reflexivity|..]); try exact K1; try exact K2; cbn;
        try assumption; try reflexivity; try (intros XX; discriminate XX);
        try (intros XX; first [exact (X2 XX) | exact (X4 XX) | exact (X2 eq_refl) | exact (X4 eq_refl)]).
Qed.

