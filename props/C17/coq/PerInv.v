(* C17.PerInv: PeriodicThread (constructor = Thread::Start, Run with TimedWait, Stop): exact abstraction of
   every reachable state by the two program counters/statuses; time-outs of the timed wait, spurious
   wake-ups and every interleaving included. *)
From Coq Require Import List Arith Bool Lia.
Import ListNotations.
From C17 Require Import Sem Progs.

Definition inl (x : nat) (l : list nat) : bool := existsb (Nat.eqb x) l.
Definition is_ready (s : status) : bool := match s with Ready => true | _ => false end.
Definition is_asleep (s : status) : bool := match s with Asleep _ _ => true | _ => false end.
Definition is_ns (s : status) : bool := match s with NotStarted => true | _ => false end.
Definition is_done (s : status) : bool := match s with Done => true | _ => false end.
Definition norm0 (st : status) : status :=
  match st with Asleep _ _ => Asleep 1 1 | Woken _ => Woken 1 | x => x end.
Definition norm1 (st : status) : status :=
  match st with Asleep _ _ => Asleep 4 4 | Woken _ => Woken 4 | x => x end.

Definition o_ok (p0 : nat) (st0 : status) : bool :=
  match st0 with
  | NotStarted => false
  | Fresh => p0 =? 0
  | Ready => p0 <=? 20
  | Asleep _ _ => p0 =? 4
  | Woken _ => p0 =? 4
  | Done => p0 =? 20
  end.
Definition t_ok (p1 : nat) (st1 : status) : bool :=
  match st1 with
  | NotStarted => p1 =? 0
  | Fresh => p1 =? 0
  | Ready => p1 <=? 16
  | Asleep _ _ => p1 =? 7
  | Woken _ => p1 =? 7
  | Done => p1 =? 16
  end.
Definition oT (p0 : nat) (st0 : status) : bool := is_ready st0 && inl p0 [1;2;3;4;5;6;12;13;18;19].
Definition tT (p1 : nat) (st1 : status) : bool := is_ready st1 && inl p1 [1;2].
Definition oP (p0 : nat) (st0 : status) : bool := is_ready st0 && inl p0 [8;9].
Definition tP (p1 : nat) (st1 : status) : bool := is_ready st1 && inl p1 [6;7;8;9;10;12;15].
Definition cfun (p0 : nat) : nat := if p0 <=? 2 then 0 else if p0 =? 16 then 0 else 1.

Definition okp (p0 : nat) (st0 : status) (r0 c0 p1 : nat) (st1 : status) (r1 : nat) : bool :=
  o_ok p0 st0 && t_ok p1 st1 && (c0 =? cfun p0) &&
  Bool.eqb (is_ns st1) (p0 <=? 2) &&
  negb (oT p0 st0 && tT p1 st1) && negb (oP p0 st0 && tP p1 st1) &&
  implb (6 <=? p0) (2 <=? p1) && implb (is_asleep st0) (p1 <=? 3) && implb (is_ready st0 && (p0 =? 4)) (p1 <=? 1) &&
  implb (17 <=? p0) (is_done st1) &&
  implb (inl p0 [13;14]) (r0 =? 1) &&
  (* the wake-up invariant: the thread sleeps after terminate was set only while the signal is still pending *)
  implb (is_asleep st1 && (9 <=? p0)) (is_ready st0 && inl p0 [9;10]) &&
  implb (is_ready st1 && (p1 =? 7)) (p0 <=? 7) &&
  implb (15 <=? p1) (9 <=? p0) &&
  implb ((p1 <=? 4) || inl p1 [12;13]) (r1 =? 0) &&
  implb (is_asleep st1 || inl p1 [9;10;11]) (negb (r1 =? 0)).

Definition ownT (p0 : nat) (st0 : status) (p1 : nat) (st1 : status) : option tid :=
  if oT p0 st0 then Some 0 else if tT p1 st1 then Some 1 else None.
Definition ownP (p0 : nat) (st0 : status) (p1 : nat) (st1 : status) : option tid :=
  if oP p0 st0 then Some 0 else if tP p1 st1 then Some 1 else None.

(* how many more callback runs are possible without passing the m_terminate test again *)
Definition potf (p1 : nat) (st1 : status) (r1 : nat) : nat :=
  if p1 <=? 4 then 1
  else match st1 with
       | Asleep _ _ => 1
       | Woken _ => if r1 =? 0 then 1 else 0
       | Ready => if ((p1 =? 8) && (r1 =? 0)) || inl p1 [12;13] then 1 else 0
       | _ => 0
       end.
Definition pot (s : state) : nat := potf (pc (thr s 1)) (stat (thr s 1)) (reg (thr s 1)).

Definition Rp (s : state) : Prop :=
  exists p0 st0 r0 c0 l0 p1 st1 r1 c1 l1,
    thr s 0 = mkT 14 p0 st0 r0 c0 l0 None /\
    thr s 1 = mkT 15 p1 st1 r1 c1 l1 None /\
    nthr s = 2 /\ fault s = None /\ st0 = norm0 st0 /\ st1 = norm1 st1 /\
    okp p0 st0 r0 c0 p1 st1 r1 = true /\
    own s 1 = ownT p0 st0 p1 st1 /\
    own s 4 = ownP p0 st0 p1 st1 /\
    (forall r, r <> 1 -> r <> 4 -> own s r = None) /\
    wq s 1 = (if is_asleep st0 then [0] else []) /\
    wq s 4 = (if is_asleep st1 then [1] else []) /\
    (forall r, r <> 1 -> r <> 4 -> wq s r = []) /\
    var s 1 = (if (2 <=? p1) && (p0 <=? 18) then 1 else 0) /\
    var s 4 = (if 9 <=? p0 then 1 else 0) /\
    (forall o, alive s o = true) /\
    (forall e, In e (outs s) -> e = (1, OUT_CB, 0)).

Lemma Rp_init : Rp init_periodic.
Proof.
  unfold Rp. do 10 eexists. cbn.
  repeat split; try reflexivity; try solve [intros; discriminate]; try solve [intros; reflexivity]; try contradiction.
Qed.

Ltac simp_in E Ht0 Ht1 HoT HoP HownO Hw1 Hw4 HwqO Hv1 Hv4 Hal :=
  do 4 (unfold live, obj_of, TM, TC, PM, PC, TERM, RUNNING, OUT_CB, wake in E; cbn in E;
        rewrite ?Ht0, ?Ht1, ?HoT, ?HoP, ?Hw1, ?Hw4, ?Hv1, ?Hv4, ?Hal in E;
        repeat rewrite HownO in E by discriminate; repeat rewrite HwqO in E by discriminate).

Ltac ptwise :=
  let r := fresh "r" in let Hr := fresh "Hr" in let Hr2 := fresh "Hr2" in
  intros r Hr Hr2; cbn; unfold upd;
  try (destruct (Nat.eqb r 1) eqn:Er; [apply Nat.eqb_eq in Er; congruence|]);
  try (destruct (Nat.eqb r 4) eqn:Er4; [apply Nat.eqb_eq in Er4; congruence|]); auto.

Ltac outsg Houts :=
  let e := fresh "e" in let He := fresh "He" in
  intros e He; first [exact (Houts e He)
                     | (apply in_app_or in He; destruct He as [He|[He|[]]]; [exact (Houts e He)|subst e; reflexivity])].

Ltac enum Hok Hnm0 Hnm1 p0 st0 r0 c0 p1 st1 r1 :=
  destruct p0 as [|[|[|[|[|[|[|[|[|[|[|[|[|[|[|[|[|[|[|[|[|p0]]]]]]]]]]]]]]]]]]]]]; try (cbn in Hok; discriminate);
  destruct st0; try (cbn in Hok; discriminate); try (cbn in Hnm0; inversion Hnm0; subst);
  destruct p1 as [|[|[|[|[|[|[|[|[|[|[|[|[|[|[|[|[|p1]]]]]]]]]]]]]]]]]; try (cbn in Hok; discriminate);
  destruct st1; try (cbn in Hok; discriminate); try (cbn in Hnm1; inversion Hnm1; subst);
  destruct c0 as [|[|c0]]; try (cbn in Hok; discriminate);
  destruct r0 as [|[|r0]]; try (cbn in Hok; discriminate);
  destruct r1 as [|r1]; try (cbn in Hok; discriminate);
  cbn in Hok; cbn in *.
