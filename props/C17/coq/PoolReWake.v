(* C17.PoolReWake: ThreadPool with two-stage jobs (init_poolre n r), no lost wake-up and no deadlock of JoinAll(), every
   schedule, any n and r.  A "taker" is a worker that is neither asleep nor finished nor past the shutdown test: it will
   test the queue again.  Whenever a closure is queued the owner is at its Signal or some worker is a taker; once JoinAll()
   has broadcast the shutdown no worker sleeps. *)
From Coq Require Import List Arith Bool Lia Permutation.
Import ListNotations.
From C17 Require Import Sem Progs Static Annot Owner Effects Conserve WaitQ WaitQAll Pool PoolD PoolRe PoolReD PoolReW1 PoolReW2 PoolReFin PoolWake PoolWake2.

Definition tk (st : status) (pp : nat) : Prop :=
  match st with Asleep _ _ | Done => False | Ready => pp <> 19 /\ pp <> 20 | _ => True end.
Definition taker (s : state) (w : tid) : Prop := tk (stat (thr s w)) (pc (thr s w)).

Lemma tk_evol a b p : stat_evol a b -> tk a p -> tk b p.
Proof. intros [->|[(c & m & -> & ->)|[-> ->]]] H; [exact H|destruct H|exact I]. Qed.

Definition NR (s : state) : Prop := que s 16 <> [] -> pc (thr s 0) = 19 \/ taker s 1 \/ taker s 2.

Definition nosl17 (st : status) (pp : nat) : Prop := (forall c m, st <> Asleep c m) /\ ~ (st = Ready /\ pp = 17).
Definition SBR (s : state) : Prop :=
  (25 <=? pc (thr s 0)) = true -> forall w, w = 1 \/ w = 2 -> nosl17 (stat (thr s w)) (pc (thr s w)).
Lemma nosl17_evol a b p : stat_evol a b -> nosl17 a p -> nosl17 b p.
Proof.
  intros E [N1 N2]. split.
  - intros c m X. rewrite X in E. destruct E as [Y|[(c0 & m0 & _ & Y)|[_ Y]]]; try discriminate Y. exact (N1 c m (eq_sym Y)).
  - intros [X Y]. apply N2. split; [exact (evol_ready _ _ E X)|exact Y].
Qed.
Lemma SBR_keep s s' : ((25 <=? pc (thr s' 0)) = true -> (25 <=? pc (thr s 0)) = true) ->
  (forall w, w = 1 \/ w = 2 -> pc (thr s' w) = pc (thr s w) /\ stat_evol (stat (thr s w)) (stat (thr s' w))) -> SBR s -> SBR s'.
Proof.
  intros Hp Hw S H w Hww. destruct (Hw w Hww) as [P1 V1]. rewrite P1. exact (nosl17_evol _ _ _ V1 (S (Hp H) w Hww)).
Qed.

Lemma NR_step_w1 s k s' : Inv P An s -> PLR s -> XJ s -> NR s /\ SLC s -> exec P s (LStep 1 k) = Some s' -> NR s' /\ SLC s'.
Proof.
  intros HI (p0 & st0 & r0 & c0 & l0 & H0 & Hn & H1 & H2 & _) HX [HN HS] E.
  pose proof (step_effects P s 1 k s' E) as [Eo Ev En Er Es].
  destruct (only_stat_fields _ _ (Eo 0 ltac:(discriminate))) as (_ & Q0 & _).
  destruct (only_stat_fields _ _ (Eo 2 ltac:(discriminate))) as (_ & PO & _).
  pose proof (Ev 2 ltac:(discriminate)) as VO.
  clear Eo Ev En Er Es.
  destruct (thr s 1) as [pg pp stp rp cp lp cuw] eqn:Hw. cbn in H1. subst pg.
  destruct HX as (_ & _ & _ & _ & _ & _ & _ & _ & _ & _ & W1 & W2 & _).
  unfold WJ, EX in W1. rewrite Hw in W1. cbn [pc stat] in W1. destruct W1 as (A & B & C & D).
  assert (FIN : forall pp' stp' rp' cp' lp' cuw',
     thr s' 1 = mkT 30 pp' stp' rp' cp' lp' cuw' ->
     (tk stp' pp' \/ que s' 16 = [] \/ (que s' 16 = que s 16 /\ ~ tk stp pp)) ->
     (forall c m, stp' = Asleep c m -> c = 16) -> NR s' /\ SLC s').
  { intros pp' stp' rp' cp' lp' cuw' T a1 a2. split.
    - intros Hq. destruct a1 as [a|[a|[a b]]].
      + right; left; unfold taker; rewrite T; exact a.
      + contradiction.
      + rewrite a in Hq. destruct (HN Hq) as [X|[X|X]].
        * left. rewrite Q0. exact X.
        * unfold taker in X; rewrite Hw in X; cbn [stat pc] in X; exfalso; exact (b X).
        * right; right; unfold taker; rewrite PO; exact (tk_evol _ _ _ VO X).
    - intros w c m Hw' Hs'. destruct Hw' as [-> | ->].
      + rewrite T in Hs'; cbn in Hs'; exact (a2 c m Hs').
      + pose proof VO as V; rewrite Hs' in V; destruct V as [X|[(c0' & m0' & _ & X)|[_ X]]]; try discriminate X; exact (HS 2 c m ltac:(auto) (eq_sym X)). }
  unfold exec in E. destruct (fault s); [discriminate|]. rewrite Hn in E. cbn [Nat.ltb Nat.leb negb] in E.
  rewrite Hw in E. cbn [stat] in E.
  destruct stp; try discriminate E.
  - (* Fresh *)
    inversion E; subst s'.
    assert (Z : pp = 0).
    { pose proof (HI 1) as It. unfold habs in It. rewrite Hw in It. cbn in It. destruct It as (Z & _). exact Z. }
    subst pp.
    eapply FIN; [cbn; unfold upd; cbn; reflexivity|left; split; intros XX; discriminate XX|intros c9 m9 XX; discriminate XX].
  - (* Ready *)
    destruct pp as [|[|[|[|[|[|[|[|[|[|[|[|[|[|[|[|[|[|[|[|[|pp]]]]]]]]]]]]]]]]]]]]];
    cbn in E; try (destruct pp; cbn in E); unfold live, obj_of in E; cbn in E;
    repeat match type of E with
           | (if ?c then _ else _) = _ => destruct c eqn:?
           | match ?x with _ => _ end = _ => destruct x eqn:?
           end;
    try discriminate E; cbn in E; rewrite ?Hw in E; cbn in E; try discriminate E;
    repeat match type of E with
           | context [if ?c then _ else _] => destruct c eqn:?
           | context [match que s ?q with _ => _ end] => destruct (que s q) eqn:?
           | context [match wq s ?q with _ => _ end] => destruct (wq s q) eqn:?
           end;
    cbn in E; try discriminate E;
    (inversion E; subst s'; clear E);
    cbn in A, B, C, D; try discriminate D;
    (eapply FIN; [cbn; unfold upd; cbn;
                   rewrite ?wake_keep, ?wakes_keep by (cbn; rewrite ?Hw; reflexivity);
                   cbn; rewrite ?Hw; cbn; reflexivity
                 | first [ (left; cbn; first [exact I | (split; intros XX; discriminate XX)])
                         | (right; left; nv; first [(apply A; reflexivity) | assumption])
                         | (right; right; split; [nv; reflexivity | cbn; intros [XX YY]; first [exact (XX eq_refl) | exact (YY eq_refl)]]) ]
                 | intros c9 m9 XX; first [discriminate XX | (inversion XX; reflexivity)] ]).
  - (* Asleep *)
    assert (Hpp : pp = 17).
    { pose proof (HI 1) as It. unfold habs in It. rewrite Hw in It. cbn [stat] in It. destruct It as ((cc & It) & _).
      destruct pp as [|[|[|[|[|[|[|[|[|[|[|[|[|[|[|[|[|[|[|[|[|pp]]]]]]]]]]]]]]]]]]]]]; cbn in D; try discriminate D;
      cbn in It; destruct It as [It|It]; try discriminate It; reflexivity. }
    subst pp. cbn in E. discriminate E.
  - (* Woken *)
    assert (Hpp : pp = 17).
    { pose proof (HI 1) as It. unfold habs in It. rewrite Hw in It. cbn [stat] in It. destruct It as ((cc & It) & _).
      destruct pp as [|[|[|[|[|[|[|[|[|[|[|[|[|[|[|[|[|[|[|[|[|pp]]]]]]]]]]]]]]]]]]]]]; cbn in D; try discriminate D;
      cbn in It; destruct It as [It|It]; try discriminate It; reflexivity. }
    subst pp. cbn in E.
    destruct (negb (live s m)).
    + inversion E; subst s'; clear E.
      eapply FIN; [cbn; rewrite Hw; reflexivity|left; exact I|intros c9 m9 XX; discriminate XX].
    + destruct (own s m); [discriminate E|].
      inversion E; subst s'; clear E.
      eapply FIN; [cbn; unfold upd; cbn; reflexivity|left; split; intros XX; discriminate XX|intros c9 m9 XX; discriminate XX].
Qed.

Lemma SBR_step_w1 s k s' : Inv P An s -> PLR s -> XJ s -> SBR s -> exec P s (LStep 1 k) = Some s' -> SBR s'.
Proof.
  intros HI (p0 & st0 & r0 & c0 & l0 & H0 & Hn & H1 & H2 & _) HX HS E.
  pose proof (step_effects P s 1 k s' E) as [Eo Ev En Er Es].
  destruct (only_stat_fields _ _ (Eo 0 ltac:(discriminate))) as (_ & Q0 & _).
  destruct (only_stat_fields _ _ (Eo 2 ltac:(discriminate))) as (_ & PO & _).
  pose proof (Ev 2 ltac:(discriminate)) as VO.
  clear Eo Ev En Er Es.
  intros H25. rewrite Q0 in H25. pose proof (HS H25) as HS'.
  rewrite H0 in H25. cbn [pc] in H25.
  pose proof (HS' 1 ltac:(auto)) as N1. pose proof (HS' 2 ltac:(auto)) as N2.
  destruct (thr s 1) as [pg pp stp rp cp lp cuw] eqn:Hw. cbn in H1. subst pg. cbn [stat pc] in N1.
  destruct HX as (X1 & _ & _ & _ & _ & _ & _ & _ & _ & _ & W1 & W2 & _).
  rewrite H0 in X1. cbn [pc] in X1. rewrite (le25_24 _ H25) in X1. rename X1 into V1.
  unfold WJ in W1. rewrite Hw in W1. cbn [pc stat] in W1. destruct W1 as (_ & _ & _ & D).
  assert (FIN : forall pp' stp' rp' cp' lp' cuw',
     thr s' 1 = mkT 30 pp' stp' rp' cp' lp' cuw' -> nosl17 stp' pp' ->
     forall w, w = 1 \/ w = 2 -> nosl17 (stat (thr s' w)) (pc (thr s' w))).
  { intros pp' stp' rp' cp' lp' cuw' T a w Hww. destruct Hww as [-> | ->].
    - rewrite T. cbn [stat pc]. exact a.
    - rewrite PO. exact (nosl17_evol _ _ _ VO N2). }
  unfold exec in E. destruct (fault s); [discriminate|]. rewrite Hn in E. cbn [Nat.ltb Nat.leb negb] in E.
  rewrite Hw in E. cbn [stat] in E.
  destruct stp; try discriminate E.
  - (* Fresh *)
    inversion E; subst s'.
    assert (Z : pp = 0).
    { pose proof (HI 1) as It. unfold habs in It. rewrite Hw in It. cbn in It. destruct It as (Z & _). exact Z. }
    subst pp.
    eapply FIN; [cbn; unfold upd; cbn; reflexivity|split; [intros c9 m9 XX; discriminate XX | intros [XX YY]; first [discriminate XX | discriminate YY]]].
  - (* Ready *)
    destruct pp as [|[|[|[|[|[|[|[|[|[|[|[|[|[|[|[|[|[|[|[|[|pp]]]]]]]]]]]]]]]]]]]]];
    cbn in E; try (destruct pp; cbn in E); unfold live, obj_of in E; cbn in E;
    repeat match type of E with
           | (if ?c then _ else _) = _ => destruct c eqn:?
           | match ?x with _ => _ end = _ => destruct x eqn:?
           end;
    try discriminate E; cbn in E; rewrite ?Hw in E; cbn in E; try discriminate E;
    repeat match type of E with
           | context [if ?c then _ else _] => destruct c eqn:?
           | context [match que s ?q with _ => _ end] => destruct (que s q) eqn:?
           | context [match wq s ?q with _ => _ end] => destruct (wq s q) eqn:?
           end;
    cbn in E; try discriminate E;
    (inversion E; subst s'; clear E);
    cbn in D; try discriminate D;
    (eapply FIN; [cbn; unfold upd; cbn;
                   rewrite ?wake_keep, ?wakes_keep by (cbn; rewrite ?Hw; reflexivity);
                   cbn; rewrite ?Hw; cbn; reflexivity
                 | first [ (split; [intros c9 m9 XX; discriminate XX | intros [XX YY]; first [discriminate XX | discriminate YY]])
                         | (exfalso; apply (proj2 N1); split; reflexivity)
                         | (exfalso; match goal with Hb : (var s _ =? 1) = false |- _ => unfold PSHUT in Hb; rewrite V1 in Hb; discriminate Hb end) ] ]).
  - (* Asleep *)
    exfalso. exact (proj1 N1 c m eq_refl).
  - (* Woken *)
    assert (Hpp : pp = 17).
    { pose proof (HI 1) as It. unfold habs in It. rewrite Hw in It. cbn [stat] in It. destruct It as ((cc & It) & _).
      destruct pp as [|[|[|[|[|[|[|[|[|[|[|[|[|[|[|[|[|[|[|[|[|pp]]]]]]]]]]]]]]]]]]]]]; cbn in D; try discriminate D;
      cbn in It; destruct It as [It|It]; try discriminate It; reflexivity. }
    subst pp. cbn in E.
    destruct (negb (live s m)).
    + inversion E; subst s'; clear E.
      eapply FIN; [cbn; rewrite Hw; reflexivity|split; [intros c9 m9 XX; discriminate XX | intros [XX YY]; first [discriminate XX | discriminate YY]]].
    + destruct (own s m); [discriminate E|].
      inversion E; subst s'; clear E.
      eapply FIN; [cbn; unfold upd; cbn; reflexivity|split; [intros c9 m9 XX; discriminate XX | intros [XX YY]; first [discriminate XX | discriminate YY]]].
Qed.

Lemma NR_step_w2 s k s' : Inv P An s -> PLR s -> XJ s -> NR s /\ SLC s -> exec P s (LStep 2 k) = Some s' -> NR s' /\ SLC s'.
Proof.
  intros HI (p0 & st0 & r0 & c0 & l0 & H0 & Hn & H1 & H2 & _) HX [HN HS] E.
  pose proof (step_effects P s 2 k s' E) as [Eo Ev En Er Es].
  destruct (only_stat_fields _ _ (Eo 0 ltac:(discriminate))) as (_ & Q0 & _).
  destruct (only_stat_fields _ _ (Eo 1 ltac:(discriminate))) as (_ & PO & _).
  pose proof (Ev 1 ltac:(discriminate)) as VO.
  clear Eo Ev En Er Es.
  destruct (thr s 2) as [pg pp stp rp cp lp cuw] eqn:Hw. cbn in H2. subst pg.
  destruct HX as (_ & _ & _ & _ & _ & _ & _ & _ & _ & _ & W1 & W2 & _).
  unfold WJ, EX in W2. rewrite Hw in W2. cbn [pc stat] in W2. destruct W2 as (A & B & C & D).
  assert (FIN : forall pp' stp' rp' cp' lp' cuw',
     thr s' 2 = mkT 31 pp' stp' rp' cp' lp' cuw' ->
     (tk stp' pp' \/ que s' 16 = [] \/ (que s' 16 = que s 16 /\ ~ tk stp pp)) ->
     (forall c m, stp' = Asleep c m -> c = 16) -> NR s' /\ SLC s').
  { intros pp' stp' rp' cp' lp' cuw' T a1 a2. split.
    - intros Hq. destruct a1 as [a|[a|[a b]]].
      + right; right; unfold taker; rewrite T; exact a.
      + contradiction.
      + rewrite a in Hq. destruct (HN Hq) as [X|[X|X]].
        * left. rewrite Q0. exact X.
        * right; left; unfold taker; rewrite PO; exact (tk_evol _ _ _ VO X).
        * unfold taker in X; rewrite Hw in X; cbn [stat pc] in X; exfalso; exact (b X).
    - intros w c m Hw' Hs'. destruct Hw' as [-> | ->].
      + pose proof VO as V; rewrite Hs' in V; destruct V as [X|[(c0' & m0' & _ & X)|[_ X]]]; try discriminate X; exact (HS 1 c m ltac:(auto) (eq_sym X)).
      + rewrite T in Hs'; cbn in Hs'; exact (a2 c m Hs'). }
  unfold exec in E. destruct (fault s); [discriminate|]. rewrite Hn in E. cbn [Nat.ltb Nat.leb negb] in E.
  rewrite Hw in E. cbn [stat] in E.
  destruct stp; try discriminate E.
  - (* Fresh *)
    inversion E; subst s'.
    assert (Z : pp = 0).
    { pose proof (HI 2) as It. unfold habs in It. rewrite Hw in It. cbn in It. destruct It as (Z & _). exact Z. }
    subst pp.
    eapply FIN; [cbn; unfold upd; cbn; reflexivity|left; split; intros XX; discriminate XX|intros c9 m9 XX; discriminate XX].
  - (* Ready *)
    destruct pp as [|[|[|[|[|[|[|[|[|[|[|[|[|[|[|[|[|[|[|[|[|pp]]]]]]]]]]]]]]]]]]]]];
    cbn in E; try (destruct pp; cbn in E); unfold live, obj_of in E; cbn in E;
    repeat match type of E with
           | (if ?c then _ else _) = _ => destruct c eqn:?
           | match ?x with _ => _ end = _ => destruct x eqn:?
           end;
    try discriminate E; cbn in E; rewrite ?Hw in E; cbn in E; try discriminate E;
    repeat match type of E with
           | context [if ?c then _ else _] => destruct c eqn:?
           | context [match que s ?q with _ => _ end] => destruct (que s q) eqn:?
           | context [match wq s ?q with _ => _ end] => destruct (wq s q) eqn:?
           end;
    cbn in E; try discriminate E;
    (inversion E; subst s'; clear E);
    cbn in A, B, C, D; try discriminate D;
    (eapply FIN; [cbn; unfold upd; cbn;
                   rewrite ?wake_keep, ?wakes_keep by (cbn; rewrite ?Hw; reflexivity);
                   cbn; rewrite ?Hw; cbn; reflexivity
                 | first [ (left; cbn; first [exact I | (split; intros XX; discriminate XX)])
                         | (right; left; nv; first [(apply A; reflexivity) | assumption])
                         | (right; right; split; [nv; reflexivity | cbn; intros [XX YY]; first [exact (XX eq_refl) | exact (YY eq_refl)]]) ]
                 | intros c9 m9 XX; first [discriminate XX | (inversion XX; reflexivity)] ]).
  - (* Asleep *)
    assert (Hpp : pp = 17).
    { pose proof (HI 2) as It. unfold habs in It. rewrite Hw in It. cbn [stat] in It. destruct It as ((cc & It) & _).
      destruct pp as [|[|[|[|[|[|[|[|[|[|[|[|[|[|[|[|[|[|[|[|[|pp]]]]]]]]]]]]]]]]]]]]]; cbn in D; try discriminate D;
      cbn in It; destruct It as [It|It]; try discriminate It; reflexivity. }
    subst pp. cbn in E. discriminate E.
  - (* Woken *)
    assert (Hpp : pp = 17).
    { pose proof (HI 2) as It. unfold habs in It. rewrite Hw in It. cbn [stat] in It. destruct It as ((cc & It) & _).
      destruct pp as [|[|[|[|[|[|[|[|[|[|[|[|[|[|[|[|[|[|[|[|[|pp]]]]]]]]]]]]]]]]]]]]]; cbn in D; try discriminate D;
      cbn in It; destruct It as [It|It]; try discriminate It; reflexivity. }
    subst pp. cbn in E.
    destruct (negb (live s m)).
    + inversion E; subst s'; clear E.
      eapply FIN; [cbn; rewrite Hw; reflexivity|left; exact I|intros c9 m9 XX; discriminate XX].
    + destruct (own s m); [discriminate E|].
      inversion E; subst s'; clear E.
      eapply FIN; [cbn; unfold upd; cbn; reflexivity|left; split; intros XX; discriminate XX|intros c9 m9 XX; discriminate XX].
Qed.

Lemma SBR_step_w2 s k s' : Inv P An s -> PLR s -> XJ s -> SBR s -> exec P s (LStep 2 k) = Some s' -> SBR s'.
Proof.
  intros HI (p0 & st0 & r0 & c0 & l0 & H0 & Hn & H1 & H2 & _) HX HS E.
  pose proof (step_effects P s 2 k s' E) as [Eo Ev En Er Es].
  destruct (only_stat_fields _ _ (Eo 0 ltac:(discriminate))) as (_ & Q0 & _).
  destruct (only_stat_fields _ _ (Eo 1 ltac:(discriminate))) as (_ & PO & _).
  pose proof (Ev 1 ltac:(discriminate)) as VO.
  clear Eo Ev En Er Es.
  intros H25. rewrite Q0 in H25. pose proof (HS H25) as HS'.
  rewrite H0 in H25. cbn [pc] in H25.
  pose proof (HS' 2 ltac:(auto)) as N1. pose proof (HS' 1 ltac:(auto)) as N2.
  destruct (thr s 2) as [pg pp stp rp cp lp cuw] eqn:Hw. cbn in H2. subst pg. cbn [stat pc] in N1.
  destruct HX as (X1 & _ & _ & _ & _ & _ & _ & _ & _ & _ & W1 & W2 & _).
  rewrite H0 in X1. cbn [pc] in X1. rewrite (le25_24 _ H25) in X1. rename X1 into V1.
  unfold WJ in W2. rewrite Hw in W2. cbn [pc stat] in W2. destruct W2 as (_ & _ & _ & D).
  assert (FIN : forall pp' stp' rp' cp' lp' cuw',
     thr s' 2 = mkT 31 pp' stp' rp' cp' lp' cuw' -> nosl17 stp' pp' ->
     forall w, w = 1 \/ w = 2 -> nosl17 (stat (thr s' w)) (pc (thr s' w))).
  { intros pp' stp' rp' cp' lp' cuw' T a w Hww. destruct Hww as [-> | ->].
    - rewrite PO. exact (nosl17_evol _ _ _ VO N2).
    - rewrite T. cbn [stat pc]. exact a. }
  unfold exec in E. destruct (fault s); [discriminate|]. rewrite Hn in E. cbn [Nat.ltb Nat.leb negb] in E.
  rewrite Hw in E. cbn [stat] in E.
  destruct stp; try discriminate E.
  - (* Fresh *)
    inversion E; subst s'.
    assert (Z : pp = 0).
    { pose proof (HI 2) as It. unfold habs in It. rewrite Hw in It. cbn in It. destruct It as (Z & _). exact Z. }
    subst pp.
    eapply FIN; [cbn; unfold upd; cbn; reflexivity|split; [intros c9 m9 XX; discriminate XX | intros [XX YY]; first [discriminate XX | discriminate YY]]].
  - (* Ready *)
    destruct pp as [|[|[|[|[|[|[|[|[|[|[|[|[|[|[|[|[|[|[|[|[|pp]]]]]]]]]]]]]]]]]]]]];
    cbn in E; try (destruct pp; cbn in E); unfold live, obj_of in E; cbn in E;
    repeat match type of E with
           | (if ?c then _ else _) = _ => destruct c eqn:?
           | match ?x with _ => _ end = _ => destruct x eqn:?
           end;
    try discriminate E; cbn in E; rewrite ?Hw in E; cbn in E; try discriminate E;
    repeat match type of E with
           | context [if ?c then _ else _] => destruct c eqn:?
           | context [match que s ?q with _ => _ end] => destruct (que s q) eqn:?
           | context [match wq s ?q with _ => _ end] => destruct (wq s q) eqn:?
           end;
    cbn in E; try discriminate E;
    (inversion E; subst s'; clear E);
    cbn in D; try discriminate D;
    (eapply FIN; [cbn; unfold upd; cbn;
                   rewrite ?wake_keep, ?wakes_keep by (cbn; rewrite ?Hw; reflexivity);
                   cbn; rewrite ?Hw; cbn; reflexivity
                 | first [ (split; [intros c9 m9 XX; discriminate XX | intros [XX YY]; first [discriminate XX | discriminate YY]])
                         | (exfalso; apply (proj2 N1); split; reflexivity)
                         | (exfalso; match goal with Hb : (var s _ =? 1) = false |- _ => unfold PSHUT in Hb; rewrite V1 in Hb; discriminate Hb end) ] ]).
  - (* Asleep *)
    exfalso. exact (proj1 N1 c m eq_refl).
  - (* Woken *)
    assert (Hpp : pp = 17).
    { pose proof (HI 2) as It. unfold habs in It. rewrite Hw in It. cbn [stat] in It. destruct It as ((cc & It) & _).
      destruct pp as [|[|[|[|[|[|[|[|[|[|[|[|[|[|[|[|[|[|[|[|[|pp]]]]]]]]]]]]]]]]]]]]]; cbn in D; try discriminate D;
      cbn in It; destruct It as [It|It]; try discriminate It; reflexivity. }
    subst pp. cbn in E.
    destruct (negb (live s m)).
    + inversion E; subst s'; clear E.
      eapply FIN; [cbn; rewrite Hw; reflexivity|split; [intros c9 m9 XX; discriminate XX | intros [XX YY]; first [discriminate XX | discriminate YY]]].
    + destruct (own s m); [discriminate E|].
      inversion E; subst s'; clear E.
      eapply FIN; [cbn; unfold upd; cbn; reflexivity|split; [intros c9 m9 XX; discriminate XX | intros [XX YY]; first [discriminate XX | discriminate YY]]].
Qed.

Lemma woken_stat S u th0 c m : u <> 0 -> stat (thr S u) = Asleep c m -> stat (thr (set_thr (wake S u) 0 th0) u) = Woken m.
Proof.
  intros Hu Hs. unfold wake. rewrite Hs. cbn. unfold upd.
  destruct (Nat.eqb u 0) eqn:E; [apply Nat.eqb_eq in E; contradiction|]. rewrite Nat.eqb_refl. reflexivity.
Qed.

Lemma NR_step_spur s t s' : NR s /\ SLC s -> exec P s (LSpur t) = Some s' -> NR s' /\ SLC s'.
Proof.
  intros [HN HS] E. destruct (spur_effects P s t s' E) as (Eo & Ev & _).
  assert (Hq : que s' = que s).
  { unfold exec in E. destruct (fault s); [discriminate|]. destruct (negb (t <? nthr s)); [discriminate|].
    destruct (stat (thr s t)); try discriminate. inversion E; subst. rewrite que_wake. reflexivity. }
  destruct (only_stat_fields _ _ (Eo 0)) as (_ & Q0 & _).
  destruct (only_stat_fields _ _ (Eo 1)) as (_ & P1 & _). destruct (only_stat_fields _ _ (Eo 2)) as (_ & P2 & _).
  split; [|apply (SLC_evol s); [intros w _; apply Ev|exact HS]].
  intros Hne. rewrite Hq in Hne. rewrite Q0. destruct (HN Hne) as [X|[X|X]];
    [left; exact X|right; left; unfold taker; rewrite P1; exact (tk_evol _ _ _ (Ev 1) X)|right; right; unfold taker; rewrite P2; exact (tk_evol _ _ _ (Ev 2) X)].
Qed.

Lemma NR_step_owner s k s' : Inv P An s -> PLR s -> XJ s -> WQI s -> OTH s -> NR s /\ SLC s ->
  exec P s (LStep 0 k) = Some s' -> NR s' /\ SLC s'.
Proof.
  intros HI (p0 & st0 & r0 & c0 & l0 & H0 & Hn & H1 & H2 & Hwk) HX (WA & WB) HO [HN HS] E.
  pose proof (step_effects P s 0 k s' E) as [Eo Ev En Er Es].
  pose proof (Ev 1 ltac:(discriminate)) as V1. pose proof (Ev 2 ltac:(discriminate)) as V2.
  destruct (only_stat_fields _ _ (Eo 1 ltac:(discriminate))) as (_ & P1 & _).
  destruct (only_stat_fields _ _ (Eo 2 ltac:(discriminate))) as (_ & P2 & _).
  split; [|apply (SLC_evol s); [intros w [-> | ->]; apply Ev; discriminate|exact HS]].
  clear Eo Ev En Er Es.
  destruct HX as (X1 & _ & _ & _ & _ & _ & _ & _ & _ & _ & W1 & W2 & _). rewrite H0 in X1. cbn [pc] in X1.
  assert (KEEP : pc (thr s' 0) = 19 \/ (que s' 16 = que s 16 /\ pc (thr s 0) <> 19) -> NR s').
  { intros [H|[Hq Hne]] Hne'; [left; exact H|]. rewrite Hq in Hne'.
    destruct (HN Hne') as [X|[X|X]]; [contradiction|right; left; unfold taker; rewrite P1; exact (tk_evol _ _ _ V1 X)|right; right; unfold taker; rewrite P2; exact (tk_evol _ _ _ V2 X)]. }
  destruct (Nat.eq_dec p0 19) as [->|Hne].
  - (* the owner is at the Signal *)
    destruct st0.
    + unfold exec in E. destruct (fault s); [discriminate|]. rewrite Hn in E. cbn in E. rewrite H0 in E. discriminate E.
    + unfold exec in E. destruct (fault s); [discriminate|]. rewrite Hn in E. cbn in E. rewrite H0 in E. cbn in E.
      inversion E; subst s'. apply KEEP. left. cbn. unfold upd. cbn. rewrite ?H0. reflexivity.
    + (* Ready: the Signal itself *)
      assert (Hf : fault s = None) by (unfold exec in E; destruct (fault s); [discriminate E|reflexivity]).
      destruct (exec_signal P s 0 k 16 s' Hf) as [X|[[Hwq X]|(u0 & L' & Hin & X)]];
        [rewrite Hn; reflexivity|rewrite H0; reflexivity|unfold fetch; rewrite H0; reflexivity|exact E| | |].
      * subst s'. apply KEEP. left. cbn. rewrite H0. reflexivity.
      * (* nobody sleeps on the condition: both workers are awake *)
        subst s'. intros Hq. cbn in Hq. right. left. unfold taker. rewrite P1. apply (tk_evol _ _ _ V1).
        cbn in X1. destruct W1 as (_ & B & C & _). unfold EX in B.
        destruct (stat (thr s 1)) eqn:Hs1; try exact I.
        -- cbn. split; intros Z; [pose proof (B (or_introl (conj eq_refl Z))) as Y|pose proof (B (or_intror Z)) as Y]; rewrite X1 in Y; discriminate Y.
        -- exfalso. pose proof (HS 1 c m (or_introl eq_refl) Hs1) as ->.
           assert (Z : In 1 (wq s 16)) by (apply WA; exists m; exact Hs1). rewrite Hwq in Z. destruct Z.
        -- exfalso. pose proof (B (or_intror (C eq_refl))) as Y. rewrite X1 in Y. discriminate Y.
      * (* a sleeper is woken: it is a worker, and it is awake afterwards *)
        subst s'. intros _.
        destruct (proj2 (WA u0 16) Hin) as (m & Hsl).
        assert (Hu : u0 = 1 \/ u0 = 2).
        { destruct u0 as [|[|[|u0]]]; [rewrite H0 in Hsl; discriminate Hsl|left; reflexivity|right; reflexivity|].
          destruct (HO (S (S (S u0))) ltac:(lia)) as [Z|Z]; rewrite Z in Hsl; discriminate Hsl. }
        destruct Hu as [-> | ->]; [right; left|right; right]; unfold taker; (rewrite (woken_stat _ _ _ 16 m); [exact I|discriminate|exact Hsl]).
    + exfalso. cbn in Hwk. discriminate Hwk.
    + exfalso. cbn in Hwk. discriminate Hwk.
    + unfold exec in E. destruct (fault s); [discriminate|]. rewrite Hn in E. cbn in E. rewrite H0 in E. discriminate E.
  - (* any other owner step: the queue is unchanged, or it is the push and the owner moves to the Signal *)
    assert (FIN : forall p0' st0' r0' c0' l0',
       thr s' 0 = mkT 16 p0' st0' r0' c0' l0' None -> (p0' = 19 \/ que s' 16 = que s 16) -> NR s').
    { intros p0' st0' r0' c0' l0' T [a|a]; apply KEEP; [left; rewrite T; exact a|right; split; [exact a|rewrite H0; exact Hne]]. }
    unfold exec in E. destruct (fault s); [discriminate|]. rewrite Hn in E. cbn [Nat.ltb Nat.leb negb] in E.
    rewrite H0 in E. cbn [stat] in E.
    destruct st0; try discriminate E.
    + inversion E; subst s'. eapply FIN; [cbn; unfold upd; cbn; reflexivity|right; reflexivity].
    + destruct p0 as [|[|[|[|[|[|[|[|[|[|[|[|[|[|[|[|[|[|[|[|[|[|[|[|[|[|[|[|[|[|[|[|[|[|[|[|[|[|[|[|[|[|[|[|[|p0]]]]]]]]]]]]]]]]]]]]]]]]]]]]]]]]]]]]]]]]]]]]];
      try (exfalso; exact (Hne eq_refl));
      cbn in E; try (destruct p0; cbn in E); unfold live, obj_of in E; cbn in E;
      repeat match type of E with
             | (if ?c then _ else _) = _ => destruct c eqn:?
             | match ?x with _ => _ end = _ => destruct x eqn:?
             end;
      try discriminate E; cbn in E; rewrite ?H0 in E; cbn in E; try discriminate E;
      repeat match type of E with
             | context [if ?c then _ else _] => destruct c eqn:?
             | context [match que s ?q with _ => _ end] => destruct (que s q) eqn:?
             | context [match wq s ?q with _ => _ end] => destruct (wq s q) eqn:?
             end;
      cbn in E; try discriminate E;
      (inversion E; subst s'; clear E);
      (eapply FIN; [cbn; unfold upd; cbn;
                     rewrite ?wake_keep, ?wakes_keep by (cbn; rewrite ?H0; reflexivity);
                     cbn; rewrite ?H0; cbn; reflexivity
                   | first [left; reflexivity | (right; nv; reflexivity)] ]).
    + destruct (fetch P {| prog := 16; pc := p0; stat := Asleep c m; reg := r0; cnt := c0; lim := l0; cur := None |}) eqn:EF;
        try discriminate E.
      exfalso. unfold fetch in EF. cbn [prog pc] in EF. revert EF.
      do 46 (destruct p0 as [|p0]; [discriminate|]). discriminate.
    + destruct (negb (live s m)); [inversion E; subst s'; eapply FIN; [cbn; rewrite H0; reflexivity|right; reflexivity]|].
      destruct (own s m); [discriminate|]. inversion E; subst s'.
      eapply FIN; [cbn; unfold upd; cbn; reflexivity|right; reflexivity].
Qed.

Lemma SBR_step_spur s t s' : SBR s -> exec P s (LSpur t) = Some s' -> SBR s'.
Proof.
  intros HS E. destruct (spur_effects P s t s' E) as (Eo & Ev & _).
  destruct (only_stat_fields _ _ (Eo 0)) as (_ & Q0 & _).
  apply (SBR_keep s); [rewrite Q0; intros X; exact X| |exact HS].
  intros w _. destruct (only_stat_fields _ _ (Eo w)) as (_ & Pw & _). split; [exact Pw|apply Ev].
Qed.

Lemma SBR_step_owner s k s' : Inv P An s -> PLR s -> WQI s -> SLC s -> SBR s -> exec P s (LStep 0 k) = Some s' -> SBR s'.
Proof.
  intros HI (p0 & st0 & r0 & c0 & l0 & H0 & Hn & H1 & H2 & Hwk) (WA & WB) HC HS E.
  pose proof (step_effects P s 0 k s' E) as [Eo Ev En Er Es].
  assert (HW : forall w, w = 1 \/ w = 2 -> pc (thr s' w) = pc (thr s w) /\ stat_evol (stat (thr s w)) (stat (thr s' w))).
  { intros w Hw. assert (w <> 0) by (destruct Hw as [-> | ->]; discriminate).
    destruct (only_stat_fields _ _ (Eo w H)) as (_ & Pw & _). split; [exact Pw|apply Ev; exact H]. }
  clear Eo Ev En Er Es.
  destruct (Nat.eq_dec p0 24) as [->|Hne].
  - (* the owner is at the Broadcast of JoinAll *)
    destruct st0.
    + unfold exec in E. destruct (fault s); [discriminate|]. rewrite Hn in E. cbn in E. rewrite H0 in E. discriminate E.
    + unfold exec in E. destruct (fault s); [discriminate|]. rewrite Hn in E. cbn in E. rewrite H0 in E. cbn in E.
      inversion E; subst s'. intros X. cbn in X. unfold upd in X. cbn in X. discriminate X.
    + assert (Hf : fault s = None) by (unfold exec in E; destruct (fault s); [discriminate E|reflexivity]).
      destruct (exec_broadcast P s 0 k 16 s' Hf) as [X|X];
        [rewrite Hn; reflexivity|rewrite H0; reflexivity|unfold fetch; rewrite H0; reflexivity|exact E| |].
      * subst s'. intros X. cbn in X. rewrite H0 in X. discriminate X.
      * intros _ w Hw. assert (Hw0 : w <> 0) by (destruct Hw as [-> | ->]; discriminate).
        destruct (HW w Hw) as [Pw Vw]. split.
        -- intros c m Hs. subst s'.
           assert (Z : slp (fold_left wake (wq s 16) (set_wq s 16 [])) w c).
           { exists m. rewrite <- Hs. cbn. unfold upd. apply Nat.eqb_neq in Hw0. rewrite Hw0. reflexivity. }
           apply slp_wakes in Z. destruct Z as [(m' & Z) Z2]. cbn in Z.
           pose proof (HC w c m' Hw Z) as ->. apply Z2. apply WA. exists m'. exact Z.
        -- intros [Xr Xp]. rewrite Pw in Xp.
           assert (OW : own s 16 = Some 0) by (apply (ready_owns P An s 0 16 HI); [rewrite H0; reflexivity|unfold ann; rewrite H0; reflexivity]).
           apply (lock_excl s w 0 HI); [destruct Hw as [-> | ->]; [left; exact H1|right; exact H2]|exact Hw0|exact OW|].
           split; [exact (evol_ready _ _ Vw Xr)|rewrite Xp; reflexivity].
    + exfalso. cbn in Hwk. discriminate Hwk.
    + exfalso. cbn in Hwk. discriminate Hwk.
    + unfold exec in E. destruct (fault s); [discriminate|]. rewrite Hn in E. cbn in E. rewrite H0 in E. discriminate E.
  - assert (FIN : forall p0' st0' r0' c0' l0',
       thr s' 0 = mkT 16 p0' st0' r0' c0' l0' None -> ((25 <=? p0') = true -> (25 <=? p0) = true) -> SBR s').
    { intros p0' st0' r0' c0' l0' T a. apply (SBR_keep s); [rewrite T, H0; exact a|exact HW|exact HS]. }
    unfold exec in E. destruct (fault s); [discriminate|]. rewrite Hn in E. cbn [Nat.ltb Nat.leb negb] in E.
    rewrite H0 in E. cbn [stat] in E.
    destruct st0; try discriminate E.
    + inversion E; subst s'. eapply FIN; [cbn; unfold upd; cbn; reflexivity|intros X; exact X].
    + destruct p0 as [|[|[|[|[|[|[|[|[|[|[|[|[|[|[|[|[|[|[|[|[|[|[|[|[|[|[|[|[|[|[|[|[|[|[|[|[|[|[|[|[|[|[|[|[|p0]]]]]]]]]]]]]]]]]]]]]]]]]]]]]]]]]]]]]]]]]]]]];
      try (exfalso; exact (Hne eq_refl));
      cbn in E; try (destruct p0; cbn in E); unfold live, obj_of in E; cbn in E;
      repeat match type of E with
             | (if ?c then _ else _) = _ => destruct c eqn:?
             | match ?x with _ => _ end = _ => destruct x eqn:?
             end;
      try discriminate E; cbn in E; rewrite ?H0 in E; cbn in E; try discriminate E;
      repeat match type of E with
             | context [if ?c then _ else _] => destruct c eqn:?
             | context [match que s ?q with _ => _ end] => destruct (que s q) eqn:?
             | context [match wq s ?q with _ => _ end] => destruct (wq s q) eqn:?
             end;
      cbn in E; try discriminate E;
      (inversion E; subst s'; clear E);
      (eapply FIN; [cbn; unfold upd; cbn;
                     rewrite ?wake_keep, ?wakes_keep by (cbn; rewrite ?H0; reflexivity);
                     cbn; rewrite ?H0; cbn; reflexivity
                   | cbn; first [intros XX; discriminate XX | (intros _; reflexivity)] ]).
    + destruct (fetch P {| prog := 16; pc := p0; stat := Asleep c m; reg := r0; cnt := c0; lim := l0; cur := None |}) eqn:EF;
        try discriminate E.
      exfalso. unfold fetch in EF. cbn [prog pc] in EF. revert EF.
      do 46 (destruct p0 as [|p0]; [discriminate|]). discriminate.
    + destruct (negb (live s m)); [inversion E; subst s'; eapply FIN; [cbn; rewrite H0; reflexivity|intros X; exact X]|].
      destruct (own s m); [discriminate|]. inversion E; subst s'.
      cbn in Hwk. unfold inl in Hwk. cbn in Hwk. rewrite !orb_true_iff, !Nat.eqb_eq in Hwk.
      destruct Hwk as [->|[->|X]]; [ | |discriminate X];
        (eapply FIN; [cbn; unfold upd; cbn; reflexivity|cbn; intros XX; discriminate XX]).
Qed.


Lemma poolre_wk n r s : reach P (init_poolre n r) s -> NR s /\ SLC s /\ OTH s /\ SBR s.
Proof.
  intros R. induction R as [|s s' R IH [l E]].
  - split; [intros X; exfalso; apply X; reflexivity|]. split; [|split].
    + intros w c m [-> | ->] X; cbn in X; discriminate X.
    + intros u Hu. destruct u as [|[|[|u]]]; try lia. left. reflexivity.
    + intros X. cbn in X. discriminate X.
  - destruct IH as (HN & HS & HO & HB).
    destruct (poolre_xj n r s R) as (HP & HX). destruct (poolre_conserved n r s R) as (HI & _).
    pose proof (WQI_reach P _ s (initial_wqi _ (init_plr n r)) R) as HW.
    assert (Hn : nthr s = 3) by (destruct HP as (? & ? & ? & ? & ? & _ & Hn & _); exact Hn).
    assert (X : (NR s' /\ SLC s') /\ SBR s').
    { destruct l as [t k|t].
      + destruct t as [|[|[|t]]].
        * split; [exact (NR_step_owner s k s' HI HP HX HW HO (conj HN HS) E)|exact (SBR_step_owner s k s' HI HP HW HS HB E)].
        * split; [exact (NR_step_w1 s k s' HI HP HX (conj HN HS) E)|exact (SBR_step_w1 s k s' HI HP HX HB E)].
        * split; [exact (NR_step_w2 s k s' HI HP HX (conj HN HS) E)|exact (SBR_step_w2 s k s' HI HP HX HB E)].
        * exfalso. unfold exec in E. destruct (fault s); [discriminate|]. rewrite Hn in E. discriminate E.
      + split; [exact (NR_step_spur s t s' (conj HN HS) E)|exact (SBR_step_spur s t s' HB E)]. }
    destruct X as [[X1 X2] X3]. split; [exact X1|]. split; [exact X2|]. split; [exact (OTH_step s l s' Hn HO E)|exact X3].
Qed.

(* no lost wake-up: a queued closure (also a follow-up handed in by a running closure, also after shutdown began) always
   has the owner at its Signal or a worker that will test the queue again *)
Theorem poolre_wakeup n r s : reach P (init_poolre n r) s -> que s PQ <> [] ->
  pc (thr s 0) = 19 \/
  exists w, (w = 1 \/ w = 2) /\ (forall c m, stat (thr s w) <> Asleep c m) /\ stat (thr s w) <> Done /\
            ~ (stat (thr s w) = Ready /\ (pc (thr s w) = 19 \/ pc (thr s w) = 20)).
Proof.
  intros R Hq. destruct (poolre_wk n r s R) as (HN & _).
  assert (K : forall w, taker s w -> (forall c m, stat (thr s w) <> Asleep c m) /\ stat (thr s w) <> Done /\
            ~ (stat (thr s w) = Ready /\ (pc (thr s w) = 19 \/ pc (thr s w) = 20))).
  { intros w T. unfold taker in T. destruct (stat (thr s w)) eqn:Hs; cbn in T; try destruct T.
    all: split; [intros c0 m0 X; discriminate X|split; [intros X; discriminate X|]].
    all: try (intros [X _]; discriminate X).
    intros [_ [X|X]]; contradiction. }
  destruct (HN Hq) as [X|[X|X]]; [left; exact X|right; exists 1|right; exists 2]; (split; [auto|apply K; exact X]).
Qed.

Theorem poolre_no_sleeper_after_shutdown n r s : reach P (init_poolre n r) s -> (25 <=? pc (thr s 0)) = true ->
  forall w, w = 1 \/ w = 2 ->
  (forall c m, stat (thr s w) <> Asleep c m) /\ ~ (stat (thr s w) = Ready /\ pc (thr s w) = 17).
Proof. intros R H w Hw. destruct (poolre_wk n r s R) as (_ & _ & _ & HB). exact (HB H w Hw). Qed.

Theorem poolre_no_deadlock n r s : reach P (init_poolre n r) s -> (22 <=? pc (thr s 0)) = true ->
  (exists c m, stat (thr s 1) = Asleep c m) -> (exists c m, stat (thr s 2) = Asleep c m) ->
  que s PQ = [] /\ (pc (thr s 0) <=? 24) = true.
Proof.
  intros R H22 (c1 & m1 & S1) (c2 & m2 & S2). split.
  - destruct (que s PQ) eqn:Hq; [reflexivity|exfalso].
    destruct (poolre_wk n r s R) as (HN & _). unfold PQ in Hq.
    destruct HN as [X|[X|X]]; [rewrite Hq; discriminate|rewrite X in H22; discriminate H22| |];
      unfold taker in X; [rewrite S1 in X|rewrite S2 in X]; exact X.
  - destruct (25 <=? pc (thr s 0)) eqn:H25.
    + exfalso. exact (proj1 (poolre_no_sleeper_after_shutdown n r s R H25 1 (or_introl eq_refl)) c1 m1 S1).
    + apply Nat.leb_gt in H25. apply Nat.leb_le. lia.
Qed.
