(* C17.PoolN: ThreadPool (scenario init_pool n): when JoinAll() is entered -- and from then on -- exactly n closures have
   been handed to Execute; with the drained clause: exactly n closures have run when JoinAll() returns. *)
From Coq Require Import List Arith Bool Lia Permutation.
Import ListNotations.
From C17 Require Import Sem Progs Static Annot Owner Effects Conserve Pool PoolD PoolFin.

Lemma pars_wake s u : pars (wake s u) = pars s.
Proof. unfold wake. destruct (stat (thr s u)); reflexivity. Qed.
Lemma pars_wakes l : forall s, pars (fold_left wake l s) = pars s.
Proof. induction l as [|u l IH]; intros s; cbn [fold_left]; [reflexivity|]. rewrite IH. apply pars_wake. Qed.

(* the scenario parameters never change *)
Lemma exec_pars Pg s l s' : exec Pg s l = Some s' -> pars s' = pars s.
Proof.
  intros E. unfold exec in E. destruct (fault s); [discriminate|].
  destruct l as [t k|t].
  - destruct (negb (t <? nthr s)); [discriminate|].
    destruct (stat (thr s t)) eqn:Hs; try discriminate E.
    + inversion E; reflexivity.
    + unfold exec_instr in E.
      destruct (fetch Pg (thr s t));
      repeat match type of E with
             | (if ?c then _ else _) = _ => destruct c
             | match ?x with _ => _ end = _ => destruct x
             end;
      try discriminate E; inversion E; cbn; rewrite ?pars_wake, ?pars_wakes; reflexivity.
    + destruct (fetch Pg (thr s t)); try discriminate E. inversion E; reflexivity.
    + destruct (negb (live s m)); [inversion E; reflexivity|]. destruct (own s m); [discriminate|]. inversion E; reflexivity.
  - destruct (negb (t <? nthr s)); [discriminate|]. destruct (stat (thr s t)); try discriminate E.
    inversion E. rewrite pars_wake. reflexivity.
Qed.

Lemma reach_pars Pg s0 s : reach Pg s0 s -> pars s = pars s0.
Proof. intros R. induction R as [|s s' R IH [l E]]; [reflexivity|]. rewrite (exec_pars _ _ _ _ E). exact IH. Qed.

Definition XN (s : state) : Prop :=
  let p0 := pc (thr s 0) in let l0 := lim (thr s 0) in
  (((15 <=? p0) && (p0 <=? 21)) = true -> l0 = pars s 0) /\
  ((22 <=? p0) = true -> length (subm s) = pars s 0).

Lemma XN_init n : XN (init_pool n).
Proof. unfold XN. cbn. split; intros X; discriminate X. Qed.

Lemma XN_step_owner s k s' : PL s -> XN s -> exec P s (LStep 0 k) = Some s' -> XN s'.
Proof.
  intros (p0 & st0 & r0 & c0 & l0 & H0 & Hn & H1 & H2 & Hsub & Hs0 & Hc & Hwk & Hran) HX E.
  pose proof (exec_pars _ _ _ _ E) as Hpa.
  pose proof (step_effects P s 0 k s' E) as [_ _ _ _ Es].
  rewrite H0 in Es.
  unfold XN in HX. rewrite H0 in HX. cbn [pc lim] in HX. destruct HX as (A1 & A2).
  assert (FIN : forall p0' st0' r0' c0' l0',
     thr s' 0 = mkT 16 p0' st0' r0' c0' l0' None ->
     (((15 <=? p0') && (p0' <=? 21)) = true -> l0' = pars s 0) ->
     ((22 <=? p0') = true -> length (subm s') = pars s 0) -> XN s').
  { intros p0' st0' r0' c0' l0' T a1 a2. unfold XN. rewrite T, Hpa. cbn [pc lim]. split; assumption. }
  assert (SAME : (stat (mkT 16 p0 st0 r0 c0 l0 None) = Ready -> is_push (fetch P (mkT 16 p0 st0 r0 c0 l0 None)) = false) ->
                 subm s' = subm s).
  { intros Hnp. destruct Es as [X|(x & _ & Hst & Hp)]; [exact X|]. rewrite (Hnp Hst) in Hp. discriminate Hp. }
  clear Es.
  unfold exec in E. destruct (fault s); [discriminate|]. rewrite Hn in E. cbn [Nat.ltb Nat.leb negb] in E.
  rewrite H0 in E. cbn [stat] in E.
  destruct st0; try discriminate E.
  - (* Fresh *)
    inversion E; subst s'. eapply FIN; [cbn; unfold upd; cbn; rewrite ?H0; reflexivity|exact A1|].
    intros X. rewrite SAME; [exact (A2 X)|intros Y; discriminate Y].
  - (* Ready *)
    destruct p0 as [|[|[|[|[|[|[|[|[|[|[|[|[|[|[|[|[|[|[|[|[|[|[|[|[|[|[|[|[|[|[|[|[|[|[|[|[|[|[|[|[|[|[|[|[|p0]]]]]]]]]]]]]]]]]]]]]]]]]]]]]]]]]]]]]]]]]]]]];
    cbn in E; try (destruct p0; cbn in E); unfold live, obj_of in E; cbn in E;
    repeat match type of E with
           | (if ?c then _ else _) = _ => destruct c eqn:?
           | match ?x with _ => _ end = _ => destruct x eqn:?
           end;
    try discriminate E; cbn in E; rewrite ?H0 in E; cbn in E; try discriminate E;
    repeat match type of E with
           | context [if ?c then _ else _] => destruct c eqn:?
           | context [match que s ?q with _ => _ end] => destruct (que s q) eqn:?
           | context [match wq s ?q with _ => _ end] => destruct (wq s q) eqn:?
           end;
    cbn in E; try discriminate E;
    cbn in SAME, A1, A2, Hc;
    (eapply FIN; [inversion E; subst s'; cbn; unfold upd; cbn;
                   rewrite ?wake_keep, ?wakes_keep by (cbn; rewrite ?H0; reflexivity);
                   cbn; rewrite ?H0; cbn; reflexivity | .. ]);
    cbn;
    try (intros XX; discriminate XX);
    try (intros _; first [reflexivity | exact (A1 eq_refl)]);
    try (intros _; rewrite SAME by (intros _; reflexivity); first [exact (A2 eq_refl)|idtac]).
    all: idtac.
    all: match goal with Hb : (_ =? _) = true |- _ => apply Nat.eqb_eq in Hb; rewrite <- (Hc eq_refl), <- (A1 eq_refl); exact Hb end.
  - (* Asleep: not a timed wait *)
    destruct (fetch P {| prog := 16; pc := p0; stat := Asleep c m; reg := r0; cnt := c0; lim := l0; cur := None |}) eqn:EF;
      try discriminate E.
    exfalso. unfold fetch in EF. cbn [prog pc] in EF. revert EF.
    do 46 (destruct p0 as [|p0]; [discriminate|]). discriminate.
  - (* Woken *)
    cbn in Hwk. unfold inl in Hwk. cbn in Hwk. rewrite !orb_true_iff, !Nat.eqb_eq in Hwk.
    destruct (negb (live s m)).
    + inversion E; subst s'. eapply FIN; [cbn; rewrite H0; reflexivity|exact A1|].
      intros X. cbn. exact (A2 X).
    + destruct (own s m); [discriminate|]. inversion E; subst s'.
      destruct Hwk as [->|[->|X]]; [ | |discriminate X];
        (eapply FIN; [cbn; unfold upd; cbn; reflexivity|cbn; intros XX; discriminate XX|cbn; intros XX; discriminate XX]).
Qed.

Lemma XN_keep s s' st : thr s' 0 = with_stat (thr s 0) st -> subm s' = subm s -> pars s' = pars s -> XN s -> XN s'.
Proof.
  intros T Hs Hp (A1 & A2). unfold XN. rewrite T, Hs, Hp. destruct (thr s 0); cbn in *. split; assumption.
Qed.

Lemma XN_step s l s' : PL s -> XN s -> exec P s l = Some s' -> XN s'.
Proof.
  intros HP HX E. destruct l as [t k|t].
  - destruct t as [|t]; [eapply XN_step_owner; eauto|].
    pose proof HP as (p0 & st0 & r0 & c0 & l0 & H0 & Hn & H1 & H2 & _).
    pose proof (step_effects P s (S t) k s' E) as [Eo _ _ _ Es].
    assert (Hlt : S t < 3).
    { unfold exec in E. destruct (fault s); [discriminate|]. rewrite Hn in E.
      destruct (S t <? 3) eqn:X; [apply Nat.ltb_lt in X; exact X|discriminate]. }
    assert (Hw : prog (thr s (S t)) = 17 \/ prog (thr s (S t)) = 18) by (destruct t as [|[|t]]; [left; exact H1|right; exact H2|lia]).
    destruct (Eo 0 ltac:(discriminate)) as [st Hst].
    eapply XN_keep; [exact Hst| |exact (exec_pars _ _ _ _ E)|exact HX].
    destruct Es as [X|(x & _ & _ & Hp)]; [exact X|]. unfold fetch in Hp. rewrite (no_push_worker _ _ Hw) in Hp. discriminate Hp.
  - destruct (spur_effects P s t s' E) as (Eo & _ & _ & _ & Es). destruct (Eo 0) as [st Hst].
    eapply XN_keep; [exact Hst|exact Es|exact (exec_pars _ _ _ _ E)|exact HX].
Qed.

Lemma pool_xn n s : reach P (init_pool n) s -> XN s.
Proof.
  intros R. induction R as [|s s' R IH [l E]]; [apply XN_init|].
  destruct (pool_inv n s R) as (HP & _). eapply XN_step; eauto.
Qed.

(* from the moment JoinAll() is entered (owner pc >= 22) exactly n closures have been handed to Execute *)
Theorem pool_submitted n s : reach P (init_pool n) s -> (22 <=? pc (thr s 0)) = true -> length (subm s) = n.
Proof.
  intros R H. destruct (pool_xn n s R) as (_ & A2). rewrite (A2 H). rewrite (reach_pars _ _ _ R). reflexivity.
Qed.

(* JoinAll() has returned: exactly n closures have run, each of the n handed in exactly once *)
Theorem pool_drained_count n s : reach P (init_pool n) s -> stat (thr s 0) = Done ->
  length (subm s) = n /\ length (ran s) = n /\ que s PQ = [] /\
  Permutation (subm s) (map fst (ran s)) /\ NoDup (map fst (ran s)).
Proof.
  intros R HD. destruct (pool_drained n s R HD) as (_ & _ & Hq & _ & _ & HP & ND).
  assert (H22 : (22 <=? pc (thr s 0)) = true).
  { destruct (pool_xd n s R) as (_ & _ & _ & _ & _ & _ & _ & _ & X9 & _). rewrite (X9 HD). reflexivity. }
  pose proof (pool_submitted n s R H22) as Hn.
  split; [exact Hn|]. split; [|split; [exact Hq|split; [exact HP|exact ND]]].
  rewrite <- Hn. rewrite (Permutation_length HP). symmetry. apply map_length.
Qed.
