(* C17.Conserve: callbacks are conserved by EVERY step of the machine, for any program table that passed the static
   check, any number of threads: the callbacks queued so far (subm) are, as a multiset, exactly the callbacks already
   run (ran), those popped and in some thread's hand (cur), and those still in the queue.  Nothing is duplicated,
   nothing is dropped.  (For scenarios whose threads use a single callback queue q and never swap it.) *)
From Coq Require Import List Arith Bool Lia Permutation.
Import ListNotations.
From C17 Require Import Sem Progs Static.

Ltac bools := repeat match goal with
  | H : _ && _ = true |- _ => apply andb_true_iff in H; destruct H
  | H : negb _ = true |- _ => apply negb_true_iff in H
  end.

Definition ol (c : option cb) : list cb := match c with Some x => [x] | None => [] end.
Definition curs (s : state) : list cb := flat_map (fun t => ol (cur (thr s t))) (seq 0 (nthr s)).

Definition qonly (q : nat) (i : instr) : bool :=
  match i with
  | IPush q' | IBrEmpty q' _ | IPop q' | IPushR q' => Nat.eqb q' q
  | ISwap _ _ => false
  | _ => true
  end.

Definition CI (q : nat) (s : state) : Prop :=
  Permutation (subm s) (map fst (ran s) ++ curs s ++ que s q).

Lemma flat_map_ext_in {A B} (f g : A -> list B) l : (forall x, In x l -> f x = g x) -> flat_map f l = flat_map g l.
Proof.
  induction l as [|x l IH]; intros H; [reflexivity|]. cbn. rewrite (H x (or_introl eq_refl)). f_equal.
  apply IH. intros y Hy. apply H. right. exact Hy.
Qed.

Lemma flat_map_set (f g : nat -> list cb) (l : list nat) t c :
  NoDup l -> In t l -> f t = [] -> g t = [c] -> (forall u, u <> t -> g u = f u) ->
  Permutation (flat_map g l) (c :: flat_map f l).
Proof.
  induction l as [|x l IH]; intros Hn Hin Hf Hg Ho; [destruct Hin|].
  inversion Hn as [|y l' Hx Hn']; subst. cbn.
  destruct (Nat.eq_dec x t) as [->|Hne].
  - rewrite Hf, Hg. cbn. apply perm_skip.
    rewrite (flat_map_ext_in g f l); [apply Permutation_refl|].
    intros u Hu. apply Ho. intros ->. contradiction.
  - destruct Hin as [->|Hin]; [contradiction|].
    rewrite (Ho x Hne). eapply Permutation_trans; [apply Permutation_app_head; apply IH; assumption|].
    apply Permutation_sym. apply Permutation_middle.
Qed.

Lemma curs_frame s s' : nthr s' = nthr s -> (forall u, cur (thr s' u) = cur (thr s u)) -> curs s' = curs s.
Proof.
  intros Hn Hc. unfold curs. rewrite Hn. apply flat_map_ext_in. intros u _. rewrite Hc. reflexivity.
Qed.
Lemma curs_take s s' t c : nthr s' = nthr s -> t < nthr s -> cur (thr s t) = None -> cur (thr s' t) = Some c ->
  (forall u, u <> t -> cur (thr s' u) = cur (thr s u)) -> Permutation (curs s') (c :: curs s).
Proof.
  intros Hn Ht H0 H1 Ho. unfold curs. rewrite Hn.
  apply flat_map_set with (t := t); [apply seq_NoDup|apply in_seq; lia|rewrite H0; reflexivity|rewrite H1; reflexivity|].
  intros u Hu. rewrite (Ho u Hu). reflexivity.
Qed.
Lemma curs_give s s' t c : nthr s' = nthr s -> t < nthr s -> cur (thr s t) = Some c -> cur (thr s' t) = None ->
  (forall u, u <> t -> cur (thr s' u) = cur (thr s u)) -> Permutation (curs s) (c :: curs s').
Proof.
  intros Hn Ht H0 H1 Ho. unfold curs. rewrite Hn.
  apply flat_map_set with (t := t); [apply seq_NoDup|apply in_seq; lia|rewrite H1; reflexivity|rewrite H0; reflexivity|].
  intros u Hu. rewrite (Ho u Hu). reflexivity.
Qed.

Lemma cur_wake s u t : cur (thr (wake s u) t) = cur (thr s t).
Proof.
  unfold wake. destruct (stat (thr s u)) eqn:E; try reflexivity.
  cbn. unfold upd. destruct (Nat.eqb t u) eqn:Et; [|reflexivity]. apply Nat.eqb_eq in Et. subst. reflexivity.
Qed.
Lemma cur_wakes l : forall s t, cur (thr (fold_left wake l s) t) = cur (thr s t).
Proof. induction l as [|u l IH]; intros s t; cbn [fold_left]; [reflexivity|]. rewrite IH. apply cur_wake. Qed.
Lemma wake_fields s u : nthr (wake s u) = nthr s /\ subm (wake s u) = subm s /\ ran (wake s u) = ran s /\ que (wake s u) = que s.
Proof. unfold wake. destruct (stat (thr s u)); repeat split; reflexivity. Qed.
Lemma wakes_fields l : forall s, nthr (fold_left wake l s) = nthr s /\ subm (fold_left wake l s) = subm s /\
  ran (fold_left wake l s) = ran s /\ que (fold_left wake l s) = que s.
Proof.
  induction l as [|u l IH]; intros s; cbn [fold_left]; [repeat split; reflexivity|].
  destruct (IH (wake s u)) as (a & b & c & d). destruct (wake_fields s u) as (a' & b' & c' & d').
  repeat split; congruence.
Qed.

Lemma nthr_wake s u : nthr (wake s u) = nthr s. Proof. apply wake_fields. Qed.
Lemma subm_wake s u : subm (wake s u) = subm s. Proof. apply wake_fields. Qed.
Lemma ran_wake s u : ran (wake s u) = ran s. Proof. apply wake_fields. Qed.
Lemma que_wake s u : que (wake s u) = que s. Proof. apply wake_fields. Qed.
Lemma nthr_wakes l s : nthr (fold_left wake l s) = nthr s. Proof. apply wakes_fields. Qed.
Lemma subm_wakes l s : subm (fold_left wake l s) = subm s. Proof. apply wakes_fields. Qed.
Lemma ran_wakes l s : ran (fold_left wake l s) = ran s. Proof. apply wakes_fields. Qed.
Lemma que_wakes l s : que (fold_left wake l s) = que s. Proof. apply wakes_fields. Qed.

Lemma perm_run (S R C C' Q : list cb) c :
  Permutation S (R ++ C ++ Q) -> Permutation C (c :: C') -> Permutation S ((R ++ [c]) ++ C' ++ Q).
Proof.
  intros H HC. rewrite <- app_assoc. cbn. eapply Permutation_trans; [exact H|].
  apply Permutation_app_head. change (c :: C' ++ Q) with ((c :: C') ++ Q). apply Permutation_app_tail. exact HC.
Qed.
Lemma perm_pop (S R C C' Q' : list cb) c :
  Permutation S (R ++ C ++ c :: Q') -> Permutation C' (c :: C) -> Permutation S (R ++ C' ++ Q').
Proof.
  intros H HC. eapply Permutation_trans; [exact H|]. apply Permutation_app_head.
  eapply Permutation_trans; [apply Permutation_sym; apply Permutation_middle|].
  change (c :: C ++ Q') with ((c :: C) ++ Q'). apply Permutation_app_tail. apply Permutation_sym. exact HC.
Qed.
Lemma perm_push3 (S R C Q : list cb) x :
  Permutation S (R ++ C ++ Q) -> Permutation (S ++ [x]) (R ++ C ++ (Q ++ [x])).
Proof.
  intros H. rewrite !app_assoc. apply Permutation_app_tail. rewrite <- !app_assoc. exact H.
Qed.

Section G.
Variable A : annot.
Variable gv gq : nat -> option nat.
Hypothesis CHK : forall id, check_prog gv gq (P id) (A id) = true.
Variable q : nat.

Lemma ci_frame s s' : nthr s' = nthr s -> subm s' = subm s -> ran s' = ran s -> que s' q = que s q ->
  (forall u, cur (thr s' u) = cur (thr s u)) -> CI q s -> CI q s'.
Proof.
  intros Hn Hs Hr Hq Hc H. unfold CI in *. rewrite Hs, Hr, Hq, (curs_frame s s' Hn Hc). exact H.
Qed.

Lemma ci_push s s' x : nthr s' = nthr s -> subm s' = subm s ++ [x] -> ran s' = ran s ->
  que s' q = que s q ++ [x] -> (forall u, cur (thr s' u) = cur (thr s u)) -> CI q s -> CI q s'.
Proof.
  intros Hn Hs Hr Hq Hc H. unfold CI in *. rewrite Hs, Hr, Hq, (curs_frame s s' Hn Hc). apply perm_push3. exact H.
Qed.
Lemma ci_pop s s' t c r : nthr s' = nthr s -> subm s' = subm s -> ran s' = ran s -> t < nthr s ->
  que s q = c :: r -> que s' q = r -> cur (thr s t) = None -> cur (thr s' t) = Some c ->
  (forall u, u <> t -> cur (thr s' u) = cur (thr s u)) -> CI q s -> CI q s'.
Proof.
  intros Hn Hs Hr Ht Hq Hq' H0 H1 Ho H. unfold CI in *. rewrite Hs, Hr, Hq'. rewrite Hq in H.
  eapply perm_pop; [exact H|]. apply (curs_take s s' t c Hn Ht H0 H1 Ho).
Qed.
Lemma ci_run s s' t c : nthr s' = nthr s -> subm s' = subm s -> ran s' = ran s ++ [(c, t)] -> t < nthr s ->
  que s' q = que s q -> cur (thr s t) = Some c -> cur (thr s' t) = None ->
  (forall u, u <> t -> cur (thr s' u) = cur (thr s u)) -> CI q s -> CI q s'.
Proof.
  intros Hn Hs Hr Ht Hq H0 H1 Ho H. unfold CI in *. rewrite Hs, Hr, Hq, map_app. cbn.
  eapply perm_run; [exact H|]. apply (curs_give s s' t c Hn Ht H0 H1 Ho).
Qed.

Ltac othercur :=
  let u := fresh "u" in
  intros u; rewrite ?cur_wake, ?cur_wakes; cbn; unfold upd;
  repeat match goal with |- context [Nat.eqb ?a ?b] =>
    let E := fresh "E" in destruct (Nat.eqb a b) eqn:E; [apply Nat.eqb_eq in E; subst|] end;
  cbn; rewrite ?cur_wake, ?cur_wakes; cbn;
  repeat match goal with |- context [match ?x with | [] => _ | _ :: _ => _ end] => destruct x end;
  repeat match goal with |- context [if ?c then _ else _] => destruct c end;
  try reflexivity; try congruence.
Ltac frame t :=
  apply ci_frame; cbn;
  rewrite ?nthr_wake, ?nthr_wakes, ?subm_wake, ?subm_wakes, ?ran_wake, ?ran_wakes, ?que_wake, ?que_wakes; cbn;
  try reflexivity; try othercur.

Theorem ci_step s l s' :
  Inv P A s -> (forall t, t < nthr s -> forallb (qonly q) (P (prog (thr s t))) = true) ->
  CI q s -> exec P s l = Some s' -> CI q s'.
Proof.
  intros I Q H E. unfold exec in E. destruct (fault s); [discriminate|].
  destruct l as [t pick|t].
  - destruct (t <? nthr s) eqn:Elt; cbn [negb] in E; [|discriminate]. apply Nat.ltb_lt in Elt.
    destruct (stat (thr s t)) eqn:Est; try discriminate.
    + inversion E; subst. revert H. frame t.
    + (* one instruction *)
      assert (QI : qonly q (fetch P (thr s t)) = true).
      { specialize (Q t Elt). rewrite forallb_forall in Q. unfold fetch.
        destruct (lt_dec (pc (thr s t)) (length (P (prog (thr s t))))) as [Hl|Hl].
        - apply Q. apply nth_In. exact Hl.
        - rewrite nth_overflow by lia. reflexivity. }
      pose proof (I t) as It. unfold habs in It. rewrite Est in It. destruct It as [_ Hcur].
      pose proof (check_at P A gv gq CHK (thr s t)) as C. unfold check_instr in C.
      unfold exec_instr in E.
      destruct (fetch P (thr s t)) eqn:EI; cbn in QI; try discriminate QI;
      try (apply Nat.eqb_eq in QI; subst);
      repeat match type of E with
             | (if ?c then _ else _) = _ => destruct c eqn:?
             | match ?x with _ => _ end = _ => destruct x eqn:?
             end;
      try discriminate E; inversion E; subst; clear E;
      try (revert H; frame t; fail).
      (* IPush *)
      * revert H. apply ci_push with (x := (t, cnt (thr s t))); cbn; try reflexivity; [rewrite upd_same; reflexivity|othercur].
      (* IPop *)
      * revert H. match goal with Hq : que s q = ?c0 :: ?r0 |- _ =>
          apply ci_pop with (t := t) (c := c0) (r := r0); cbn; try reflexivity; try exact Hq; try exact Elt end.
        -- rewrite upd_same. reflexivity.
        -- bools. unfold iscur, ann in Hcur. destruct (cur (thr s t)); [|reflexivity].
           match goal with X : hascur _ = false |- _ => rewrite X in Hcur end. discriminate Hcur.
        -- rewrite upd_same. reflexivity.
        -- intros u Hu. rewrite upd_other by exact Hu. reflexivity.
      (* IRun *)
      * revert H. match goal with Hc : cur (thr s t) = Some ?c0 |- _ =>
          apply ci_run with (t := t) (c := c0); cbn; try reflexivity; try exact Hc; try exact Elt end.
        -- rewrite upd_same. reflexivity.
        -- intros u Hu. rewrite upd_other by exact Hu. reflexivity.
      (* IRunB *)
      * revert H. match goal with Hc : cur (thr s t) = Some ?c0 |- _ =>
          apply ci_run with (t := t) (c := c0); cbn; try reflexivity; try exact Hc; try exact Elt end.
        -- rewrite upd_same. repeat match goal with |- context [if ?b then _ else _] => destruct b end; reflexivity.
        -- intros u Hu. rewrite upd_other by exact Hu. reflexivity.
      (* IPushR *)
      * revert H. apply ci_push with (x := (t, reg (thr s t))); cbn; try reflexivity; [rewrite upd_same; reflexivity|othercur].
      (* IRunC *)
      * revert H. match goal with Hc : cur (thr s t) = Some ?c0 |- _ =>
          apply ci_run with (t := t) (c := c0); cbn; try reflexivity; try exact Hc; try exact Elt end.
        -- rewrite upd_same. repeat match goal with |- context [if ?b then _ else _] => destruct b end; reflexivity.
        -- intros u Hu. rewrite upd_other by exact Hu. reflexivity.
      (* IRunW x 3 *)
      * revert H. match goal with Hc : cur (thr s t) = Some ?c0 |- _ =>
          apply ci_run with (t := t) (c := c0); cbn; try reflexivity; try exact Hc; try exact Elt end.
        -- rewrite upd_same. reflexivity.
        -- intros u Hu. rewrite upd_other by exact Hu. reflexivity.
      * revert H. match goal with Hc : cur (thr s t) = Some ?c0 |- _ =>
          apply ci_run with (t := t) (c := c0); cbn; try reflexivity; try exact Hc; try exact Elt end.
        -- rewrite upd_same. reflexivity.
        -- intros u Hu. rewrite upd_other by exact Hu. reflexivity.
      * revert H. match goal with Hc : cur (thr s t) = Some ?c0 |- _ =>
          apply ci_run with (t := t) (c := c0); cbn; try reflexivity; try exact Hc; try exact Elt end.
        -- rewrite upd_same. reflexivity.
        -- intros u Hu. rewrite upd_other by exact Hu. reflexivity.
    + (* Asleep: time-out *)
      destruct (fetch P (thr s t)); try discriminate E. inversion E; subst. revert H. frame t.
    + (* Woken *)
      destruct (negb (live s m)); [inversion E; subst; revert H; frame t|].
      destruct (own s m); [discriminate|]. inversion E; subst. revert H. frame t.
  - destruct (negb (t <? nthr s)); [discriminate|].
    destruct (stat (thr s t)); try discriminate. inversion E; subst. revert H. frame t.
Qed.
End G.
