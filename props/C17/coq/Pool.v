(* C17.Pool: ThreadPool (two workers, any number of closures): every closure handed to Execute is run at most once,
   never by the submitting thread, and none is lost - for all schedules. *)
From Coq Require Import List Arith Bool Lia Permutation.
Import ListNotations.
From C17 Require Import Sem Progs Static Annot Owner Effects Conserve.

Definition inl (x : nat) (l : list nat) : bool := existsb (Nat.eqb x) l.


Definition wkok (st0 : status) (p0 : nat) : Prop :=
  match st0 with Asleep _ _ | Woken _ => inl p0 [4;11] = true | _ => True end.

Definition PL (s : state) : Prop :=
  exists p0 st0 r0 c0 l0,
    thr s 0 = mkT 16 p0 st0 r0 c0 l0 None /\
    nthr s = 3 /\ prog (thr s 1) = 17 /\ prog (thr s 2) = 18 /\
    subm s = map (pair 0) (seq 0 (length (subm s))) /\
    ((p0 <=? 14) = true -> subm s = []) /\
    (inl p0 [15;16;17;18;19;20;21] = true -> c0 = length (subm s)) /\
    wkok st0 p0 /\
    (forall c t, In (c, t) (ran s) -> t = 1 \/ t = 2).

Lemma PL_init n : PL (init_pool n).
Proof.
  unfold PL. exists 0, Fresh, 0, 0, 0. cbn. repeat split; try reflexivity; try (intros; discriminate).
  intros c t [].
Qed.

Lemma no_push_worker pcv p : (p = 17 \/ p = 18) -> is_push (nth pcv (P p) IEnd) = false.
Proof.
  intros [-> | ->]; (do 17 (destruct pcv as [|pcv]; [reflexivity|])); reflexivity.
Qed.
Lemma no_run_owner pcv : is_run (nth pcv (P 16) IEnd) = false.
Proof. do 46 (destruct pcv as [|pcv]; [reflexivity|]). reflexivity. Qed.

Lemma only_stat_fields a b : only_stat a b ->
  prog b = prog a /\ pc b = pc a /\ reg b = reg a /\ cnt b = cnt a /\ lim b = lim a /\ cur b = cur a.
Proof. intros [st ->]. destruct a; cbn; auto 10. Qed.

Lemma seq_push (l : list cb) n : l = map (pair 0) (seq 0 (length l)) -> n = length l ->
  l ++ [(0, n)] = map (pair 0) (seq 0 (length (l ++ [(0, n)]))).
Proof.
  intros H ->. rewrite app_length. cbn [length]. rewrite Nat.add_1_r, seq_S, map_app. cbn. rewrite <- H. reflexivity.
Qed.

Lemma wake_keep s v u : stat (thr s u) = Ready -> thr (wake s v) u = thr s u.
Proof.
  intros H. unfold wake. destruct (stat (thr s v)) eqn:E; try reflexivity.
  cbn. unfold upd. destruct (Nat.eqb u v) eqn:Eu; [|reflexivity]. apply Nat.eqb_eq in Eu. subst. congruence.
Qed.
Lemma wakes_keep l : forall s u, stat (thr s u) = Ready -> thr (fold_left wake l s) u = thr s u.
Proof.
  induction l as [|v l IH]; intros s u H; cbn [fold_left]; [reflexivity|].
  rewrite IH; [apply wake_keep; exact H|]. rewrite wake_keep by exact H. exact H.
Qed.

(* steps of the workers (and of anybody but the owner) *)
Lemma PL_step_other s t k s' : t <> 0 -> PL s -> exec P s (LStep t k) = Some s' -> PL s'.
Proof.
  intros Ht (p0 & st0 & r0 & c0 & l0 & H0 & Hn & H1 & H2 & Hsub & Hs0 & Hc & Hwk & Hran) E.
  pose proof (step_effects P s t k s' E) as [Eo Ev En Er Es].
  assert (Hlt : t < 3).
  { unfold exec in E. destruct (fault s); [discriminate|]. rewrite Hn in E.
    destruct (t <? 3) eqn:X; [apply Nat.ltb_lt in X; exact X|discriminate]. }
  assert (Hw : prog (thr s t) = 17 \/ prog (thr s t) = 18) by (destruct t as [|[|[|t]]]; [contradiction|left; exact H1|right; exact H2|lia]).
  assert (Hsm : subm s' = subm s).
  { destruct Es as [X|(x & _ & _ & Hp)]; [exact X|]. unfold fetch in Hp. rewrite (no_push_worker _ _ Hw) in Hp. discriminate Hp. }
  destruct (Eo 0 (fun X => Ht (eq_sym X))) as [st Hst].
  unfold PL. exists p0, st, r0, c0, l0. rewrite Hst, H0, Hsm, En.
  split; [reflexivity|]. split; [exact Hn|].
  assert (Hp : forall u, prog (thr s' u) = prog (thr s u)) by (intros u; exact (exec_prog P s (LStep t k) s' u E)).
  split; [rewrite Hp; exact H1|]. split; [rewrite Hp; exact H2|].
  split; [exact Hsub|]. split; [exact Hs0|]. split; [exact Hc|].
  split.
  { pose proof (Ev 0 (fun X => Ht (eq_sym X))) as Hev. rewrite Hst, H0 in Hev. cbn in Hev.
    destruct Hev as [->|[(x & y & -> & ->)|[-> ->]]]; [exact Hwk|exact Hwk|exact I]. }
  intros c u Hin. destruct Er as [X|(c1 & X & _)]; rewrite X in Hin; [exact (Hran c u Hin)|].
  apply in_app_or in Hin. destruct Hin as [Hin|[Hin|[]]]; [exact (Hran c u Hin)|].
  inversion Hin; subst. destruct u as [|[|[|u]]]; [contradiction|left; reflexivity|right; reflexivity|lia].
Qed.

Lemma PL_step_spur s t s' : PL s -> exec P s (LSpur t) = Some s' -> PL s'.
Proof.
  intros (p0 & st0 & r0 & c0 & l0 & H0 & Hn & H1 & H2 & Hsub & Hs0 & Hc & Hwk & Hran) E.
  destruct (spur_effects P s t s' E) as (Eo & Ev & En & Er & Es).
  destruct (Eo 0) as [st Hst].
  assert (Hp : forall u, prog (thr s' u) = prog (thr s u)) by (intros u; exact (exec_prog P s (LSpur t) s' u E)).
  assert (Hw' : wkok st p0).
  { pose proof (Ev 0) as Hev. rewrite Hst, H0 in Hev. cbn in Hev.
    destruct Hev as [->|[(x & y & -> & ->)|[-> ->]]]; [exact Hwk|exact Hwk|exact I]. }
  unfold PL. exists p0, st, r0, c0, l0. rewrite Hst, H0, Es, En, Er, !Hp. repeat split; assumption.
Qed.

(* steps of the owner: the submission counter *)
Lemma PL_step_owner s k s' : PL s -> exec P s (LStep 0 k) = Some s' -> PL s'.
Proof.
  intros (p0 & st0 & r0 & c0 & l0 & H0 & Hn & H1 & H2 & Hsub & Hs0 & Hc & Hwk & Hran) E.
  pose proof (step_effects P s 0 k s' E) as [Eo Ev En Er Es].
  assert (Hp : forall u, prog (thr s' u) = prog (thr s u)) by (intros u; exact (exec_prog P s (LStep 0 k) s' u E)).
  assert (Hr : ran s' = ran s).
  { destruct Er as [X|(c1 & _ & _ & X)]; [exact X|]. unfold fetch in X. rewrite H0 in X. cbn [prog pc] in X.
    rewrite no_run_owner in X. discriminate X. }
  assert (REST : forall p0' st0' r0' c0' l0',
            thr s' 0 = mkT 16 p0' st0' r0' c0' l0' None ->
            subm s' = map (pair 0) (seq 0 (length (subm s'))) ->
            ((p0' <=? 14) = true -> subm s' = []) ->
            (inl p0' [15;16;17;18;19;20;21] = true -> c0' = length (subm s')) -> wkok st0' p0' -> PL s').
  { intros p0' st0' r0' c0' l0' A B C D W. unfold PL. exists p0', st0', r0', c0', l0'.
    rewrite En, !Hp, Hr. repeat split; assumption. }
  clear Eo Ev Er Es.
  unfold exec in E. destruct (fault s); [discriminate|]. rewrite Hn in E. cbn [Nat.ltb Nat.leb negb] in E.
  rewrite H0 in E. cbn [stat] in E.
  destruct st0; try discriminate E.
  - (* Fresh *) inversion E; subst s'. eapply REST; [cbn; unfold upd; cbn; reflexivity|exact Hsub|exact Hs0|exact Hc|exact I].
  - (* Ready *)
    destruct p0 as [|[|[|[|[|[|[|[|[|[|[|[|[|[|[|[|[|[|[|[|[|[|[|[|[|[|[|[|[|[|[|[|[|[|[|[|[|[|[|[|[|[|[|[|[|p0]]]]]]]]]]]]]]]]]]]]]]]]]]]]]]]]]]]]]]]]]]]]];
    cbn in E; try (destruct p0; cbn in E); unfold live, obj_of in E; cbn in E;
    repeat match type of E with
           | (if ?c then _ else _) = _ => destruct c eqn:?
           | match ?x with _ => _ end = _ => destruct x eqn:?
           end;
    try discriminate E; cbn in E; rewrite ?H0 in E; cbn in E; try discriminate E;
    repeat match type of E with
           | context [if ?c then _ else _] => destruct c eqn:?
           | context [match que s ?q with _ => _ end] => destruct (que s q) eqn:?
           | context [match wq s ?q with _ => _ end] => destruct (wq s q) eqn:?
           end;
    cbn in E; try discriminate E;
    (inversion E; subst s'; clear E);
    (eapply REST; [cbn; unfold upd; cbn;
                   rewrite ?wake_keep, ?wakes_keep by (cbn; rewrite ?H0; reflexivity);
                   cbn; rewrite ?H0; cbn; reflexivity | | | | ]);
    cbn; rewrite ?(proj1 (proj2 (wake_ran _ _))), ?(proj1 (proj2 (wakes_ran _ _))); cbn;
    try exact I; try reflexivity;
    cbn in Hs0, Hc |- *;
    try exact Hsub; try exact Hs0; try exact Hc;
    try (intros X; discriminate X);
    try (rewrite (Hs0 eq_refl); reflexivity);
    try (intros _; rewrite (Hs0 eq_refl); reflexivity);
    try (apply seq_push; [exact Hsub|exact (Hc eq_refl)]);
    try (intros _; rewrite app_length, Nat.add_1_r; f_equal; exact (Hc eq_refl)).
  - (* Asleep: not a timed wait *)
    destruct (fetch P {| prog := 16; pc := p0; stat := Asleep c m; reg := r0; cnt := c0; lim := l0; cur := None |}) eqn:EF;
      try discriminate E.
    exfalso. unfold fetch in EF. cbn [prog pc] in EF. revert EF.
    do 46 (destruct p0 as [|p0]; [discriminate|]). discriminate.
  - (* Woken *)
    destruct (negb (live s m)); [inversion E; subst s'; eapply REST; [cbn; rewrite H0; reflexivity|exact Hsub|exact Hs0|exact Hc|exact Hwk]|].
    destruct (own s m); [discriminate|]. inversion E; subst s'.
    cbn in Hwk. unfold inl in Hwk. cbn in Hwk. rewrite !orb_true_iff, !Nat.eqb_eq in Hwk.
    destruct Hwk as [->|[->|X]]; [ | |discriminate X];
      (eapply REST; [cbn; unfold upd; cbn; reflexivity|exact Hsub| | |exact I]; cbn;
       [intros _; apply Hs0; reflexivity | intros X; discriminate X]).
Qed.

Theorem PL_step s l s' : PL s -> exec P s l = Some s' -> PL s'.
Proof.
  intros H E. destruct l as [t k|t].
  - destruct t as [|t]; [eapply PL_step_owner; eauto|eapply (PL_step_other s (S t)); eauto].
  - eapply PL_step_spur; eauto.
Qed.

Lemma pool_qonly s : PL s -> forall t, t < nthr s -> forallb (qonly PQ) (P (prog (thr s t))) = true.
Proof.
  intros (p0 & st0 & r0 & c0 & l0 & H0 & Hn & H1 & H2 & _) t Ht. rewrite Hn in Ht.
  destruct t as [|[|[|t]]]; [rewrite H0|rewrite H1|rewrite H2|lia]; vm_compute; reflexivity.
Qed.

Lemma pool_inv n s : reach P (init_pool n) s -> PL s /\ Inv P An s /\ CI PQ s.
Proof.
  intros R. induction R as [|s s' R IH [l E]].
  - split; [apply PL_init|]. split; [exact (proj1 (initial_inv _ (init_pl n)))|].
    unfold CI, curs. cbn. constructor.
  - destruct IH as (HP & HI & HC). split; [eapply PL_step; eauto|]. split.
    + eapply (inv_step P An gv gq check_all); eauto.
    + eapply (ci_step An gv gq check_all PQ); eauto. apply pool_qonly. exact HP.
Qed.

Lemma nodup_pairs k : NoDup (map (pair 0) (seq 0 k)).
Proof.
  apply FinFun.Injective_map_NoDup; [|apply seq_NoDup]. intros a b H. inversion H. reflexivity.
Qed.
Lemma nodup_app_l (a b : list cb) : NoDup (a ++ b) -> NoDup a.
Proof.
  induction a as [|x a IH]; intros H; [constructor|]. cbn in H. inversion H as [|y l Hn Hd]; subst.
  constructor; [|apply IH; exact Hd]. intros Hin. apply Hn. apply in_or_app. left. exact Hin.
Qed.

Theorem pool_exec_once n s : reach P (init_pool n) s ->
  Permutation (subm s) (map fst (ran s) ++ curs s ++ que s PQ) /\
  NoDup (subm s) /\ NoDup (map fst (ran s)) /\
  (forall c, In c (subm s) -> fst c = 0) /\
  (forall c t, In (c, t) (ran s) -> t = 1 \/ t = 2).
Proof.
  intros R. destruct (pool_inv n s R) as ((p0 & st0 & r0 & c0 & l0 & H0 & Hn & H1 & H2 & Hsub & Hs0 & Hc & Hwk & Hran) & HI & HC).
  assert (ND : NoDup (subm s)) by (rewrite Hsub; apply nodup_pairs).
  split; [exact HC|]. split; [exact ND|]. split; [|split].
  - apply (Permutation_NoDup HC) in ND. apply nodup_app_l in ND. exact ND.
  - intros c Hin. rewrite Hsub in Hin. apply in_map_iff in Hin. destruct Hin as (x & <- & _). reflexivity.
  - exact Hran.
Qed.
