(* C17.PoolFin: ThreadPool, the drained clause assembled: XD holds in every reachable state of the pool scenario, for every
   number of closures and every schedule; once both joins of JoinAll() have returned the workers are finished, the queue is
   empty, no closure is in flight and the closures run are exactly the closures handed to Execute, each once. *)
From Coq Require Import List Arith Bool Lia Permutation.
Import ListNotations.
From C17 Require Import Sem Progs Static Annot Owner Effects Conserve Pool PoolD PoolW1 PoolW2.

Lemma XD_init n : XD (init_pool n).
Proof.
  unfold XD, WI. cbn.
  repeat match goal with |- _ /\ _ => split end; try reflexivity; intros X; try discriminate X.
  all: try (intros Y; discriminate Y).
  all: destruct X as [[X _]|X]; discriminate X.
Qed.

Lemma XD_step_spur s t s' : XD s -> exec P s (LSpur t) = Some s' -> XD s'.
Proof.
  intros HX E.
  destruct (spur_effects P s t s' E) as (Eo & Ev & _).
  assert (Hv : var s' = var s /\ que s' = que s).
  { unfold exec in E. destruct (fault s); [discriminate|]. destruct (negb (t <? nthr s)); [discriminate|].
    destruct (stat (thr s t)); try discriminate. inversion E; subst. rewrite var_wake, que_wake. split; reflexivity. }
  destruct Hv as [Hv Hq].
  destruct (only_stat_fields _ _ (Eo 0)) as (_ & Q0 & Q1 & Q2 & _).
  destruct (only_stat_fields _ _ (Eo 1)) as (_ & P1 & _).
  destruct (only_stat_fields _ _ (Eo 2)) as (_ & P2 & _).
  destruct HX as (X1 & X2 & X3 & X4 & X5 & X6 & X7 & X8 & X9 & X10 & W1 & W2).
  unfold XD. rewrite Q0, Q1, Q2, Hv. cbn zeta.
  split; [exact X1|]. split; [exact X2|]. split; [exact X3|]. split; [exact X4|]. split; [exact X5|]. split; [exact X6|].
  split; [intros X; exact (evol_done _ _ (Ev 2) (X7 X))|]. split; [intros X; exact (evol_done _ _ (Ev 1) (X8 X))|].
  split; [intros X; exact (X9 (evol_done_inv _ _ (Ev 0) X))|]. split; [exact X10|].
  split; (eapply WI_keep; [eassumption|apply Ev|rewrite Hq; reflexivity|left; rewrite Hv; reflexivity|assumption]).
Qed.

Lemma XD_step s l s' : Inv P An s -> PL s -> XD s -> exec P s l = Some s' -> XD s'.
Proof.
  intros HI HP HX E. destruct l as [t k|t].
  - destruct t as [|[|[|t]]].
    + eapply XD_step_owner; eauto.
    + eapply XD_step_w1; eauto.
    + eapply XD_step_w2; eauto.
    + exfalso. destruct HP as (p0 & st0 & r0 & c0 & l0 & H0 & Hn & _).
      unfold exec in E. destruct (fault s); [discriminate|]. rewrite Hn in E. discriminate E.
  - eapply XD_step_spur; eauto.
Qed.

Lemma pool_xd n s : reach P (init_pool n) s -> XD s.
Proof.
  intros R. induction R as [|s s' R IH [l E]].
  - apply XD_init.
  - destruct (pool_inv n s R) as (HP & HI & _). eapply XD_step; eauto.
Qed.

Lemma done_cur s t : Inv P An s -> stat (thr s t) = Done -> cur (thr s t) = None.
Proof. intros HI H. pose proof (HI t) as It. unfold habs in It. rewrite H in It. exact (proj2 It). Qed.

(* both joins of JoinAll() have returned (owner pc >= 41: past pthread_join of the first thread, the second was joined before) *)
Theorem pool_joined n s : reach P (init_pool n) s -> (41 <=? pc (thr s 0)) = true ->
  stat (thr s 1) = Done /\ stat (thr s 2) = Done /\ que s PQ = [] /\ var s PSHUT = 1 /\ curs s = [] /\
  Permutation (subm s) (map fst (ran s)) /\ NoDup (map fst (ran s)).
Proof.
  intros R Hp. pose proof (pool_xd n s R) as HX.
  destruct (pool_exec_once n s R) as (HC & _ & ND & _).
  destruct (pool_inv n s R) as ((p0 & st0 & r0 & c0 & l0 & H0 & Hn & _) & HI & _).
  destruct HX as (X1 & _ & _ & _ & _ & _ & X7 & X8 & _ & _ & W1 & W2).
  assert (H32 : (32 <=? pc (thr s 0)) = true).
  { apply Nat.leb_le. apply Nat.leb_le in Hp. lia. }
  pose proof (X8 Hp) as D1. pose proof (X7 H32) as D2.
  destruct W1 as (_ & B1 & C1 & _). pose proof (C1 D1) as Hpc1. destruct (B1 (or_intror Hpc1)) as [Hq Hs].
  assert (Hc : curs s = []).
  { unfold curs. rewrite Hn. cbn. rewrite H0. cbn.
    rewrite (done_cur s 1 HI D1), (done_cur s 2 HI D2).
    pose proof (HI 0) as It. unfold habs in It. rewrite H0 in It. cbn in It.
    reflexivity. }
  split; [exact D1|]. split; [exact D2|]. split; [exact Hq|]. split; [exact Hs|]. split; [exact Hc|].
  split; [|exact ND].
  rewrite Hc in HC. unfold PQ in HC. rewrite Hq in HC. cbn in HC. rewrite app_nil_r in HC. exact HC.
Qed.

(* the owner thread has finished: JoinAll() has returned and the scenario is over *)
Theorem pool_drained n s : reach P (init_pool n) s -> stat (thr s 0) = Done ->
  stat (thr s 1) = Done /\ stat (thr s 2) = Done /\ que s PQ = [] /\ var s PSHUT = 1 /\ curs s = [] /\
  Permutation (subm s) (map fst (ran s)) /\ NoDup (map fst (ran s)).
Proof.
  intros R HD. apply (pool_joined n s R).
  destruct (pool_xd n s R) as (_ & _ & _ & _ & _ & _ & _ & _ & X9 & _). rewrite (X9 HD). reflexivity.
Qed.

(* a worker leaves its loop only when shutdown is set and the queue is empty *)
Theorem pool_worker_exit n s w : reach P (init_pool n) s -> w = 1 \/ w = 2 -> stat (thr s w) = Done ->
  que s PQ = [] /\ var s PSHUT = 1.
Proof.
  intros R Hw HD. destruct (pool_xd n s R) as (_ & _ & _ & _ & _ & _ & _ & _ & _ & _ & W1 & W2).
  destruct Hw as [-> | ->]; [destruct W1 as (_ & B & C & _)|destruct W2 as (_ & B & C & _)]; exact (B (or_intror (C HD))).
Qed.

(* a concrete schedule (lowest enabled thread first), used for the non-vacuity examples *)
Fixpoint greedy (fuel : nat) (s : state) : state :=
  match fuel with
  | 0 => s
  | S f =>
      match exec P s (LStep 0 0) with
      | Some s' => greedy f s'
      | None => match exec P s (LStep 1 0) with
                | Some s' => greedy f s'
                | None => match exec P s (LStep 2 0) with
                          | Some s' => greedy f s'
                          | None => s
                          end
                end
      end
  end.

Lemma greedy_reach s0 fuel : forall s, reach P s0 s -> reach P s0 (greedy fuel s).
Proof.
  induction fuel as [|f IH]; intros s R; cbn [greedy]; [exact R|].
  destruct (exec P s (LStep 0 0)) as [s'|] eqn:E0; [apply IH; eapply reach_step; [exact R|eexists; exact E0]|].
  destruct (exec P s (LStep 1 0)) as [s'|] eqn:E1; [apply IH; eapply reach_step; [exact R|eexists; exact E1]|].
  destruct (exec P s (LStep 2 0)) as [s'|] eqn:E2; [apply IH; eapply reach_step; [exact R|eexists; exact E2]|].
  exact R.
Qed.

Example pool_drained_reachable : exists s, reach P (init_pool 2) s /\ stat (thr s 0) = Done /\ length (ran s) = 2.
Proof.
  exists (greedy 200 (init_pool 2)). split; [apply greedy_reach; apply reach_refl|]. vm_compute. split; reflexivity.
Qed.
