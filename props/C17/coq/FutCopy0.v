(* C17.FutCopy0: FutureImpl with two reference holders (scenario init_fut_copy 0): the owner copies the
   Future for the setter thread (Ref), starts it, calls Get and drops its reference; the setter calls Set
   and drops its copy.  Whoever drops the last reference deletes the FutureImpl.  Exact abstraction of every
   reachable state by the two program counters/statuses and "whose DeRef saw zero". *)
From Coq Require Import List Arith Bool Lia.
Import ListNotations.
From C17 Require Import Sem Progs.

Definition inl (x : nat) (l : list nat) : bool := existsb (Nat.eqb x) l.
Definition is_ready (s : status) : bool := match s with Ready => true | _ => false end.
Definition is_asleep (s : status) : bool := match s with Asleep _ _ => true | _ => false end.
Definition is_ns (s : status) : bool := match s with NotStarted => true | _ => false end.
Definition norm0 (st : status) : status :=
  match st with Asleep _ _ => Asleep 8 8 | Woken _ => Woken 8 | x => x end.

Definition m_owns (p0 : nat) (st0 : status) : bool := is_ready st0 && inl p0 [3;4;8;9;10;11;12;15;16].
Definition s_owns (p1 : nat) (st1 : status) : bool := is_ready st1 && inl p1 [1;2;3;4;5;7;8].
Definition s0ok (p0 : nat) (st0 : status) : bool :=
  match st0 with
  | NotStarted => false
  | Fresh => p0 =? 0
  | Ready => p0 <=? 24
  | Asleep _ _ => p0 =? 9
  | Woken _ => p0 =? 9
  | Done => p0 =? 24
  end.
Definition s1ok (p1 : nat) (st1 : status) : bool :=
  match st1 with
  | NotStarted => p1 =? 0
  | Fresh => p1 =? 0
  | Ready => p1 <=? 12
  | Done => p1 =? 12
  | _ => false
  end.
Definition cok (p0 c0 : nat) : bool :=
  if p0 =? 0 then true else if inl p0 [1;21] then c0 <=? 1 else if inl p0 [2;3;4;5;22] then c0 =? 0 else c0 =? 1.
Definition created (p0 c0 : nat) : bool := (6 <=? p0) || ((p0 =? 1) && (c0 =? 1)).

Definition okc (p0 : nat) (st0 : status) (r0 c0 p1 : nat) (st1 : status) (r1 : nat) : bool :=
  let z0 := r0 =? 0 in let z1 := r1 =? 0 in
  s0ok p0 st0 && s1ok p1 st1 && cok p0 c0 && Bool.eqb (is_ns st1) (negb (created p0 c0)) &&
  negb (m_owns p0 st0 && s_owns p1 st1) &&
  implb (11 <=? p0) (3 <=? p1) &&
  implb ((16 <=? p0) && (p1 <=? 7)) (negb z0) && implb ((8 <=? p1) && (p0 <=? 15)) (negb z1) &&
  implb ((16 <=? p0) && (8 <=? p1)) (xorb z0 z1) &&
  implb ((8 <=? p1) && z1) (17 <=? p0) && implb ((16 <=? p0) && z0) (9 <=? p1) &&
  implb (p0 =? 18) (negb z0) && implb (p0 =? 19) z0 && implb (p1 =? 10) (negb z1) && implb (p1 =? 11) z1.

Definition regokc (p0 r0 l0 : nat) : Prop :=
  (inl p0 [12;13] = true -> r0 = THE_VALUE) /\ ((1 <=? p0) = true -> l0 = 1).

Definition ownfc (p0 : nat) (st0 : status) (p1 : nat) (st1 : status) : option tid :=
  if m_owns p0 st0 then Some 0 else if s_owns p1 st1 then Some 1 else None.
Definition reff (p0 c0 p1 : nat) : nat :=
  (if p0 <=? 15 then 1 else 0) +
  (if created p0 c0 then (if p1 <=? 7 then 1 else 0) else (if inl p0 [4;5] then 1 else 0)).
Definition alivef (p0 r0 p1 r1 : nat) : bool :=
  negb (((20 <=? p0) && (r0 =? 0)) || ((12 <=? p1) && (r1 =? 0))).

Definition Rc (s : state) : Prop :=
  exists p0 st0 r0 c0 l0 p1 st1 r1 c1 l1,
    thr s 0 = mkT 6 p0 st0 r0 c0 l0 None /\
    thr s 1 = mkT 7 p1 st1 r1 c1 l1 None /\
    nthr s = 2 /\ pars s 0 = 1 /\ fault s = None /\ st0 = norm0 st0 /\
    okc p0 st0 r0 c0 p1 st1 r1 = true /\ regokc p0 r0 l0 /\
    own s 8 = ownfc p0 st0 p1 st1 /\
    (forall r, r <> 8 -> own s r = None) /\
    wq s 8 = (if is_asleep st0 then [0] else []) /\
    (forall r, r <> 8 -> wq s r = []) /\
    var s 9 = (if 3 <=? p1 then 1 else 0) /\
    var s 10 = (if 4 <=? p1 then THE_VALUE else 0) /\
    var s 8 = reff p0 c0 p1 /\
    alive s 1 = alivef p0 r0 p1 r1 /\
    outs s = (if p0 <=? 13 then [] else [(0, OUT_GET, THE_VALUE)]).

Lemma Rc_init : Rc (init_fut_copy 0).
Proof.
  unfold Rc. do 10 eexists. cbn.
  repeat split; try reflexivity; try solve [intros; discriminate]; intros r Hr; reflexivity.
Qed.

Ltac simp_in E Ht0 Ht1 Hpa Hown HownO Hwq HwqO Hv9 Hv10 Hv8 Hal :=
  do 4 (unfold live, obj_of, FM, FC, REF, ISSET, VALUE, busy8, wake in E; cbn in E;
        rewrite ?Ht0, ?Ht1, ?Hpa, ?Hown, ?Hwq, ?Hv9, ?Hv10, ?Hv8, ?Hal in E;
        repeat rewrite HownO in E by discriminate; repeat rewrite HwqO in E by discriminate).

Ltac ptwise :=
  let r := fresh "r" in let Hr := fresh "Hr" in let Er := fresh "Er" in
  intros r Hr; cbn; unfold upd;
  try (destruct (Nat.eqb r 8) eqn:Er; [apply Nat.eqb_eq in Er; congruence|]); auto.

Ltac finish Ht0 Ht1 Hpa Hown HownO Hwq HwqO Hv9 Hv10 Hv8 Hal Houts :=
  unfold Rc; do 10 eexists; cbn;
  rewrite ?Ht0, ?Ht1; cbn;
  (split; [reflexivity|]); (split; [reflexivity|]);
  rewrite ?Hown, ?Hwq, ?Hv9, ?Hv10, ?Hv8, ?Hal, ?Houts, ?Hpa; cbn;
  repeat split; try reflexivity; try assumption; try solve [intros; discriminate]; try solve [intros; reflexivity]; try ptwise.

Ltac enum Hok Hreg Hnm p0 st0 r0 c0 p1 st1 r1 :=
  destruct p0 as [|[|[|[|[|[|[|[|[|[|[|[|[|[|[|[|[|[|[|[|[|[|[|[|[|p0]]]]]]]]]]]]]]]]]]]]]]]]]; try (cbn in Hok; discriminate);
  destruct st0; try (cbn in Hok; discriminate); try (cbn in Hnm; inversion Hnm; subst);
  destruct p1 as [|[|[|[|[|[|[|[|[|[|[|[|[|p1]]]]]]]]]]]]]; try (cbn in Hok; discriminate);
  destruct st1; try (cbn in Hok; discriminate);
  destruct c0 as [|[|c0]]; try (cbn in Hok; discriminate);
  destruct r0 as [|r0]; try (cbn in Hok; discriminate);
  destruct r1 as [|r1]; try (cbn in Hok; discriminate);
  cbn in Hok; cbn in Hreg; destruct Hreg as (Hr1 & Hr2); try (specialize (Hr1 eq_refl)); try (specialize (Hr2 eq_refl));
  try (match type of Hr1 with _ = _ => unfold THE_VALUE in Hr1; first [discriminate Hr1 | (injection Hr1 as Hr1; subst)] end); subst; cbn in *.

Lemma Rc_step s l s' : Rc s -> exec P s l = Some s' -> Rc s'.
Proof.
  intros (p0 & st0 & r0 & c0 & l0 & p1 & st1 & r1 & c1 & l1 & Ht0 & Ht1 & Hn & Hpa & Hf & Hnm & Hok & Hreg &
          Hown & HownO & Hwq & HwqO & Hv9 & Hv10 & Hv8 & Hal & Houts) E.
  unfold exec in E. rewrite Hf, Hn in E.
  destruct l as [t pick|t]; (destruct t as [|[|t]]; [| |cbn in E; discriminate]).
  - rewrite Ht0 in E. cbn [stat] in E.
    enum Hok Hreg Hnm p0 st0 r0 c0 p1 st1 r1;
    simp_in E Ht0 Ht1 Hpa Hown HownO Hwq HwqO Hv9 Hv10 Hv8 Hal;
    try discriminate;
    (inversion E; subst s'; clear E);
    finish Ht0 Ht1 Hpa Hown HownO Hwq HwqO Hv9 Hv10 Hv8 Hal Houts.
  - rewrite Ht1 in E. cbn [stat] in E.
    enum Hok Hreg Hnm p0 st0 r0 c0 p1 st1 r1;
    simp_in E Ht0 Ht1 Hpa Hown HownO Hwq HwqO Hv9 Hv10 Hv8 Hal;
    try discriminate;
    (inversion E; subst s'; clear E);
    finish Ht0 Ht1 Hpa Hown HownO Hwq HwqO Hv9 Hv10 Hv8 Hal Houts.
  - rewrite Ht0 in E. cbn [stat] in E.
    enum Hok Hreg Hnm p0 st0 r0 c0 p1 st1 r1;
    simp_in E Ht0 Ht1 Hpa Hown HownO Hwq HwqO Hv9 Hv10 Hv8 Hal;
    try discriminate;
    (inversion E; subst s'; clear E);
    finish Ht0 Ht1 Hpa Hown HownO Hwq HwqO Hv9 Hv10 Hv8 Hal Houts.
  - rewrite Ht1 in E. cbn [stat] in E.
    destruct st1; try (cbn in E; discriminate).
    unfold okc, s1ok in Hok. rewrite ?andb_false_r in Hok. cbn in Hok. discriminate.
Qed.

Theorem Rc_reach s : reach P (init_fut_copy 0) s -> Rc s.
Proof.
  intros R. induction R as [|s s' R IH [l E]]; [apply Rc_init|]. eapply Rc_step; eauto.
Qed.

Theorem fut_two_holders_safe s : reach P (init_fut_copy 0) s ->
  fault s = None /\
  (forall t k v, In (t, k, v) (outs s) -> k = OUT_GET -> v = THE_VALUE /\ var s 9 = 1).
Proof.
  intros R. apply Rc_reach in R.
  destruct R as (p0 & st0 & r0 & c0 & l0 & p1 & st1 & r1 & c1 & l1 & Ht0 & Ht1 & Hn & Hpa & Hf & Hnm & Hok & Hreg &
          Hown & HownO & Hwq & HwqO & Hv9 & Hv10 & Hv8 & Hal & Houts).
  split; [exact Hf|].
  intros t k v Hin _. rewrite Houts in Hin.
  destruct (p0 <=? 13) eqn:E13; [destruct Hin|].
  destruct Hin as [Hin|[]]. inversion Hin; subst. split; [reflexivity|].
  unfold okc in Hok. rewrite !andb_true_iff in Hok.
  destruct Hok as [[[[[[[[[[_ H11] _] _] _] _] _] _] _] _] _].
  apply Nat.leb_gt in E13.
  assert (X : (11 <=? p0) = true) by (apply Nat.leb_le; lia).
  rewrite Hv9. rewrite X in H11. revert H11. destruct (3 <=? p1); cbn; intros H11; [reflexivity|discriminate].
Qed.
