(* C17.Progs: the C++ code transcribed, one instruction per shared-state action.
   Resources: object 0 (never freed) = the ExecutorThread and its ConsumerThread;
   object 1 = one FutureImpl (resources 8..15).
   The programs are the code WITH the proposed fixes (fixes/01..04); the pre-fix programs are
   kept as P_old for the witness theorems. *)
From Coq Require Import List Arith Bool.
Import ListNotations.
From C17 Require Import Sem.

(* mutexes *)    Definition M := 0.  Definition TM := 1.  Definition FM := 8.
(* conditions *) Definition CV := 0. Definition TC := 1.  Definition FC := 8.
(* variables *)  Definition SHUTDOWN := 0. Definition RUNNING := 1.
                 Definition REF := 8. Definition ISSET := 9. Definition VALUE := 10.
(* queue *)      Definition Q := 0.
Definition THE_VALUE := 42.
Definition OUT_GET := 1.

(* ---- scenario "exec": thread 0 = owner of the ExecutorThread, 1 = its ConsumerThread,
        2.. = producers calling ExecutorThread::Execute lim times each. *)
Definition p_exec_main : list instr := [
  (* Thread::Start (common/thread/Thread.cpp), with fix 02: while (!m_running) Wait *)
  (* 0*) ILock TM;
  (* 1*) IBrVar RUNNING 1 6;
  (* 2*) ICreateI 1;                 (* FastStart: pthread_create *)
  (* 3*) IBrVar RUNNING 1 6;
  (* 4*) IWait TC TM;
  (* 5*) IJmp 3;
  (* 6*) IUnlock TM;
  (* harness: start the producers *)
  (* 7*) IRst 0;
  (* 8*) IBrDone 11;
  (* 9*) ICreateI 2;
  (*10*) IJmp 8;
  (* ExecutorThread::Stop: m_thread.IsRunning() *)
  (*11*) ILock TM;
  (*12*) ILd RUNNING;
  (*13*) IUnlock TM;
  (*14*) IBrReg 0 36;
  (*15*) ILock M;
  (*16*) IWr SHUTDOWN 1;
  (*17*) IUnlock M;
  (*18*) ISignal CV;
  (* Thread::Join, with fix 03: m_running = false under the lock *)
  (*19*) ILock TM;
  (*20*) ILd RUNNING;
  (*21*) IUnlock TM;
  (*22*) IBrReg 0 29;
  (*23*) IRst 1;
  (*24*) IJoinI 1;
  (*25*) ILock TM;
  (*26*) IWr RUNNING 0;
  (*27*) IUnlock TM;
  (*28*) IJmp 29;
  (* ExecutorThread::RunRemaining, with fix 04: callbacks run without the mutex *)
  (*29*) ILock M;
  (*30*) IBrEmpty Q 35;
  (*31*) IPop Q;
  (*32*) IUnlock M;
  (*33*) IRun;
  (*34*) IJmp 29;
  (*35*) IUnlock M;
  (* harness: join the producers *)
  (*36*) IRst 0;
  (*37*) IBrDone 40;
  (*38*) IJoinI 2;
  (*39*) IJmp 37;
  (* ~ExecutorThread: RunRemaining *)
  (*40*) ILock M;
  (*41*) IBrEmpty Q 46;
  (*42*) IPop Q;
  (*43*) IUnlock M;
  (*44*) IRun;
  (*45*) IJmp 40;
  (*46*) IUnlock M;
  (*47*) IEnd ].

Definition p_consumer : list instr := [
  (* Thread::_InternalRun *)
  (* 0*) ILock TM;
  (* 1*) IWr RUNNING 1;
  (* 2*) IUnlock TM;
  (* 3*) ISignal TC;
  (* ConsumerThread::Run / EmptyQueue *)
  (* 4*) ILock M;
  (* 5*) IBrEmpty Q 11;
  (* 6*) IPop Q;
  (* 7*) IUnlock M;
  (* 8*) IRun;
  (* 9*) ILock M;
  (*10*) IJmp 5;
  (*11*) IBrVar SHUTDOWN 1 14;
  (*12*) IWait CV M;
  (*13*) IJmp 5;
  (*14*) IUnlock M;
  (*15*) IEnd ].

Definition p_producer : list instr := [
  (* lim x ExecutorThread::Execute *)
  (* 0*) IBrDone 6;
  (* 1*) ILock M;
  (* 2*) IPush Q;
  (* 3*) IUnlock M;
  (* 4*) ISignal CV;
  (* 5*) IJmp 0;
  (* 6*) IEnd ].

(* ---- scenario "fut": FutureImpl<int>.  Get / Set / DeRef as in FuturePrivate.h with fix 01
        (Set broadcasts before releasing the mutex; Get re-tests m_is_set in a loop). *)
Definition get_deref (o : nat) : list instr := [
  (* FutureImpl::Get *)
  (* o+0*) ILock FM;
  (* o+1*) IBrVar ISSET 1 (o + 4);
  (* o+2*) IWait FC FM;
  (* o+3*) IJmp (o + 1);
  (* o+4*) ILd VALUE;
  (* o+5*) IUnlock FM;
  (* o+6*) IOut OUT_GET;
  (* ~Future: FutureImpl::DeRef *)
  (* o+7*) ILock FM;
  (* o+8*) IDec REF;
  (* o+9*) IUnlock FM;
  (*o+10*) IBrReg 0 (o + 12);
  (*o+11*) IJmp (o + 13);
  (*o+12*) IFree 1 ].          (* o+13 follows *)

Definition set_code : list instr := [
  (* FutureImpl::Set *)
  (* 0*) ILock FM;
  (* 1*) IBrVar ISSET 1 5;
  (* 2*) IWr ISSET 1;
  (* 3*) IWr VALUE THE_VALUE;
  (* 4*) IBroadcast FC;
  (* 5*) IUnlock FM ].

(* raw-pointer pattern of ExecutorThread::DrainCallbacks: the setter has no reference *)
Definition p_fut_main_raw : list instr :=
  [ (* 0*) ICreateI 1 ] ++ get_deref 1 ++ [ (*14*) IRst 1; (*15*) IJoinI 1; (*16*) IEnd ].
Definition p_fut_setter_raw : list instr := set_code ++ [ IEnd ].

(* every thread holds its own Future copy: thread 1 sets, threads 2..G and main get *)
Definition p_fut_main_copy : list instr := [
  (* 0*) IRst 0;
  (* 1*) IBrDone 7;
  (* 2*) ILock FM;          (* Future copy constructor: FutureImpl::Ref *)
  (* 3*) IInc REF;
  (* 4*) IUnlock FM;
  (* 5*) ICreateI 1;
  (* 6*) IJmp 1 ] ++ get_deref 7 ++ [
  (*20*) IRst 0;
  (*21*) IBrDone 24;
  (*22*) IJoinI 1;
  (*23*) IJmp 21;
  (*24*) IEnd ].
Definition p_fut_setter_copy : list instr := set_code ++ [
  (* 6*) ILock FM;
  (* 7*) IDec REF;
  (* 8*) IUnlock FM;
  (* 9*) IBrReg 0 11;
  (*10*) IJmp 12;
  (*11*) IFree 1;
  (*12*) IEnd ].
Definition p_fut_getter : list instr := get_deref 0 ++ [ IEnd ].

(* ---- scenario "ss": the event loop's cross-thread executor (common/io/SelectServer.cpp).
   Thread 0 owns the SelectServer: starts the producers, calls RunOnce() K times (zero timeout), joins
   the producers and destroys the SelectServer (DrainCallbacks).  Threads 1.. call Execute lim times.
   A callback (p,i) with i < rs_p calls Execute again when it is run (re-submission from a callback).
   Mutex 2 = m_incoming_mutex, queue 2 = m_incoming_callbacks, queue 3 = the local callbacks_to_run,
   variable 2 = number of bytes in the wake-up pipe (m_incoming_descriptor). *)
Definition IM := 2.  Definition INQ := 2.  Definition LOC := 3.  Definition PIPE := 2.
Definition p_ss_main : list instr := [
  (* 0*) IRst 0;
  (* 1*) IBrDone 4;
  (* 2*) ICreateI 1;
  (* 3*) IJmp 1;
  (* K x RunOnce(): Poll with zero timeout; the wake pipe is readable iff it holds a byte *)
  (* 4*) IRst 1;
  (* 5*) IBrDone 20;
  (* 6*) ICnt;
  (* 7*) IPoll PIPE INQ 5;          (* select(): sleeps while the wake-up pipe is empty; may time out *)
  (* DrainAndExecute *)
  (* 8*) IWr PIPE 0;               (* read the pipe empty *)
  (* 9*) ILock IM;
  (*10*) ISwap INQ LOC;
  (*11*) IUnlock IM;
  (* RunCallbacks *)
  (*12*) IBrEmpty LOC 5;
  (*13*) IPop LOC;
  (*14*) IRunB 12;
  (* the callback calls SelectServer::Execute *)
  (*15*) ILock IM;
  (*16*) IPushR INQ;
  (*17*) IUnlock IM;
  (*18*) IInc PIPE;
  (*19*) IJmp 12;
  (* join the producers *)
  (*20*) IRst 0;
  (*21*) IBrDone 24;
  (*22*) IJoinI 1;
  (*23*) IJmp 21;
  (* ~SelectServer: DrainCallbacks *)
  (*24*) ILock IM;
  (*25*) IBrEmpty INQ 36;
  (*26*) ISwap INQ LOC;
  (*27*) IUnlock IM;
  (*28*) IBrEmpty LOC 24;
  (*29*) IPop LOC;
  (*30*) IRunB 28;
  (*31*) ILock IM;
  (*32*) IPushR INQ;
  (*33*) IUnlock IM;
  (*34*) IInc PIPE;
  (*35*) IJmp 28;
  (*36*) IUnlock IM;
  (*37*) IEnd ].
Definition p_ss_producer : list instr := [
  (* lim x SelectServer::Execute *)
  (* 0*) IBrDone 6;
  (* 1*) ILock IM;
  (* 2*) IPush INQ;
  (* 3*) IUnlock IM;
  (* 4*) IInc PIPE;               (* m_incoming_descriptor.Send *)
  (* 5*) IJmp 0;
  (* 6*) IEnd ].

(* ---- scenario "execre": the ExecutorThread scenario where the first rs_p callbacks of producer p call
   Execute again from inside the callback (the case fix 04 is about: RunRemaining must not hold m_mutex).
   Same code as p_exec_main / p_consumer with cb->Run() followed by the nested Execute; var 5 is a constant 0
   used to reset the child sequence number.  Correspondence and lockset only (no all-schedules invariant). *)
Definition p_exec_main_re : list instr := [
  (* 0*) ILock TM;
  (* 1*) IBrVar RUNNING 1 6;
  (* 2*) ICreateI 1;
  (* 3*) IBrVar RUNNING 1 6;
  (* 4*) IWait TC TM;
  (* 5*) IJmp 3;
  (* 6*) IUnlock TM;
  (* 7*) IRst 0;
  (* 8*) IBrDone 11;
  (* 9*) ICreateI 2;
  (*10*) IJmp 8;
  (*11*) ILock TM;
  (*12*) ILd RUNNING;
  (*13*) IUnlock TM;
  (*14*) IBrReg 0 40;
  (*15*) ILock M;
  (*16*) IWr SHUTDOWN 1;
  (*17*) IUnlock M;
  (*18*) ISignal CV;
  (*19*) ILock TM;
  (*20*) ILd RUNNING;
  (*21*) IUnlock TM;
  (*22*) IBrReg 0 28;
  (*23*) IRst 1;
  (*24*) IJoinI 1;
  (*25*) ILock TM;
  (*26*) IWr RUNNING 0;
  (*27*) IUnlock TM;
  (*28*) ILd 5;
  (*29*) ILock M;
  (*30*) IBrEmpty Q 39;
  (*31*) IPop Q;
  (*32*) IUnlock M;
  (*33*) IRunB 29;
  (*34*) ILock M;
  (*35*) IPushR Q;
  (*36*) IUnlock M;
  (*37*) ISignal CV;
  (*38*) IJmp 29;
  (*39*) IUnlock M;
  (*40*) IRst 0;
  (*41*) IBrDone 44;
  (*42*) IJoinI 2;
  (*43*) IJmp 41;
  (*44*) ILock M;
  (*45*) IBrEmpty Q 54;
  (*46*) IPop Q;
  (*47*) IUnlock M;
  (*48*) IRunB 44;
  (*49*) ILock M;
  (*50*) IPushR Q;
  (*51*) IUnlock M;
  (*52*) ISignal CV;
  (*53*) IJmp 44;
  (*54*) IUnlock M;
  (*55*) IEnd ].
Definition p_consumer_re : list instr := [
  (* 0*) ILock TM;
  (* 1*) IWr RUNNING 1;
  (* 2*) IUnlock TM;
  (* 3*) ISignal TC;
  (* 4*) ILock M;
  (* 5*) IBrEmpty Q 15;
  (* 6*) IPop Q;
  (* 7*) IUnlock M;
  (* 8*) IRunB 13;
  (* 9*) ILock M;
  (*10*) IPushR Q;
  (*11*) IUnlock M;
  (*12*) ISignal CV;
  (*13*) ILock M;
  (*14*) IJmp 5;
  (*15*) IBrVar SHUTDOWN 1 18;
  (*16*) IWait CV M;
  (*17*) IJmp 5;
  (*18*) IUnlock M;
  (*19*) IEnd ].

(* ---- scenario "periodic": thread 0 constructs a PeriodicThread (the constructor calls Thread::Start) and
   then calls PeriodicThread::Stop(); thread 1 is the periodic thread (Thread::_InternalRun, then
   PeriodicThread::Run: the callback (observation OUT_CB), then lock / test m_terminate / TimedWait / ...).
   Mutex 4 = PeriodicThread::m_mutex, condition 4 = PeriodicThread::m_condition, variable 4 = m_terminate;
   Thread::m_mutex / m_condition / m_running are mutex 1, condition 1, variable 1 as before. *)
Definition PM := 4.  Definition PC := 4.  Definition TERM := 4.  Definition OUT_CB := 2.
Definition p_per_owner : list instr := [
  (* 0*) ILock TM;
  (* 1*) IBrVar RUNNING 1 6;
  (* 2*) ICreateI 1;
  (* 3*) IBrVar RUNNING 1 6;
  (* 4*) IWait TC TM;
  (* 5*) IJmp 3;
  (* 6*) IUnlock TM;
  (* 7*) ILock PM;
  (* 8*) IWr TERM 1;
  (* 9*) IUnlock PM;
  (*10*) ISignal PC;
  (*11*) ILock TM;
  (*12*) ILd RUNNING;
  (*13*) IUnlock TM;
  (*14*) IBrReg 0 20;
  (*15*) IRst 1;
  (*16*) IJoinI 1;
  (*17*) ILock TM;
  (*18*) IWr RUNNING 0;
  (*19*) IUnlock TM;
  (*20*) IEnd ].
Definition p_per_thread : list instr := [
  (* 0*) ILock TM;
  (* 1*) IWr RUNNING 1;
  (* 2*) IUnlock TM;
  (* 3*) ISignal TC;
  (* 4*) IOut OUT_CB;
  (* 5*) ILock PM;
  (* 6*) IBrVar TERM 1 15;
  (* 7*) ITimedWait PC PM;
  (* 8*) IBrReg 0 12;
  (* 9*) IBrVar TERM 1 15;
  (*10*) IUnlock PM;
  (*11*) IJmp 5;
  (*12*) IUnlock PM;
  (*13*) IOut OUT_CB;
  (*14*) IJmp 5;
  (*15*) IUnlock PM;
  (*16*) IEnd ].

(* ---- scenario "pool": ThreadPool with two workers (common/thread/ThreadPool.cpp).  Thread 0: Init() (starts the
   two ConsumerThreads with Thread::Start), lim x Execute (lock, push, Signal, unlock), JoinAll() (shutdown,
   Broadcast, join the workers, last started first).  Threads 1, 2: ConsumerThread::Run on the shared
   queue 16 / mutex 16 / condition 16 / m_shutdown = variable 16; each worker's Thread::m_mutex/m_condition/m_running
   are mutex/condition/variable 17 (worker A) and 18 (worker B). *)
Definition PLM := 16.  Definition PLC := 16.  Definition PQ := 16.  Definition PSHUT := 16.
Definition TMA := 17.  Definition TCA := 17.  Definition RUNA := 17.
Definition TMB := 18.  Definition TCB := 18.  Definition RUNB := 18.
Definition p_pool_owner : list instr := [
  (* 0*) ILock TMA;
  (* 1*) IBrVar RUNA 1 6;
  (* 2*) ICreateI 1;
  (* 3*) IBrVar RUNA 1 6;
  (* 4*) IWait TCA TMA;
  (* 5*) IJmp 3;
  (* 6*) IUnlock TMA;
  (* 7*) ILock TMB;
  (* 8*) IBrVar RUNB 1 13;
  (* 9*) ICreateI 1;
  (*10*) IBrVar RUNB 1 13;
  (*11*) IWait TCB TMB;
  (*12*) IJmp 10;
  (*13*) IUnlock TMB;
  (*14*) IRst 0;
  (*15*) IBrDone 22;
  (*16*) ILock PLM;
  (*17*) IBrVar PSHUT 1 18;
  (*18*) IPush PQ;
  (*19*) ISignal PLC;
  (*20*) IUnlock PLM;
  (*21*) IJmp 15;
  (*22*) ILock PLM;
  (*23*) IWr PSHUT 1;
  (*24*) IBroadcast PLC;
  (*25*) IUnlock PLM;
  (*26*) ILock TMB;
  (*27*) ILd RUNB;
  (*28*) IUnlock TMB;
  (*29*) IBrReg 0 35;
  (*30*) IRst 1;
  (*31*) IJoinI 2;
  (*32*) ILock TMB;
  (*33*) IWr RUNB 0;
  (*34*) IUnlock TMB;
  (*35*) ILock TMA;
  (*36*) ILd RUNA;
  (*37*) IUnlock TMA;
  (*38*) IBrReg 0 44;
  (*39*) IRst 1;
  (*40*) IJoinI 1;
  (*41*) ILock TMA;
  (*42*) IWr RUNA 0;
  (*43*) IUnlock TMA;
  (*44*) IEnd ].
Definition p_pool_worker_a : list instr := [
  (* 0*) ILock TMA;
  (* 1*) IWr RUNA 1;
  (* 2*) IUnlock TMA;
  (* 3*) ISignal TCA;
  (* 4*) ILock PLM;
  (* 5*) IBrEmpty PQ 11;
  (* 6*) IPop PQ;
  (* 7*) IUnlock PLM;
  (* 8*) IRun;
  (* 9*) ILock PLM;
  (*10*) IJmp 5;
  (*11*) IBrVar PSHUT 1 14;
  (*12*) IWait PLC PLM;
  (*13*) IJmp 5;
  (*14*) IUnlock PLM;
  (*15*) IEnd ].
Definition p_pool_worker_b : list instr := [
  (* 0*) ILock TMB;
  (* 1*) IWr RUNB 1;
  (* 2*) IUnlock TMB;
  (* 3*) ISignal TCB;
  (* 4*) ILock PLM;
  (* 5*) IBrEmpty PQ 11;
  (* 6*) IPop PQ;
  (* 7*) IUnlock PLM;
  (* 8*) IRun;
  (* 9*) ILock PLM;
  (*10*) IJmp 5;
  (*11*) IBrVar PSHUT 1 14;
  (*12*) IWait PLC PLM;
  (*13*) IJmp 5;
  (*14*) IUnlock PLM;
  (*15*) IEnd ].

(* ---- round 7 scenarios (generated by gen_progs_r7.py).
   "locker": MutexLocker with an early Release(): thread 0 locks mutex 24 through a MutexLocker, calls Release(),
   enters and leaves an inner scope on mutex 25 and leaves the outer scope (the destructor must do nothing more);
   threads 1 and 2 contend for mutex 24.
   "ssd": the SelectServer scenario "ss" where callback (1,0) queues a callback and then calls DrainCallbacks()
   itself (nested drain from inside a callback; queue 4 = the nested call's local vector).
   "prefs": the preference-saver hand-off.  Thread 0 (owner of the FileBackedPreferences, mutex 32 = ownership
   token of the owner-only map, variable 38): Start the saver thread, SetValue (38 := 2), Save() = copy the map
   and Execute(closure owning the copy) on the saver's SelectServer (mutex/queue 34, run batch 35, pipe 34),
   SetValue (38 := 3), Synchronize() (mutex/condition/flag 37), read the file (variable 39), Join() (Terminate +
   Thread::Join), ~SelectServer.  Thread 1 = FilePreferenceSaverThread::Run = SelectServer::Run. *)
Definition LX := 24.  Definition LY := 25.  Definition LOC2 := 4.
Definition OWN := 32.  Definition TM2 := 33.  Definition TC2 := 33.  Definition RUN2 := 33.
Definition IMS := 34.  Definition INQS := 34.  Definition PIPES := 34.  Definition LOCS := 35.
Definition ISRUN := 35.  Definition TERMV := 36.
Definition SM := 37.  Definition SC := 37.  Definition COMPLETE := 37.
Definition PREF := 38.  Definition FILEV := 39.  Definition ZEROV := 40.  Definition ONEV := 41.
Definition p_lock_owner : list instr := [
  (* 0*) ICreateI 1;
  (* 1*) ICreateI 1;
  (* 2*) ILock LX;
  (* 3*) IUnlock LX;
  (* 4*) ILock LY;
  (* 5*) IUnlock LY;
  (* 6*) IRst 9;
  (* 7*) IJoinI 1;
  (* 8*) IJoinI 1;
  (* 9*) IEnd ].
Definition p_lock_cont : list instr := [
  (* 0*) ILock LX;
  (* 1*) IUnlock LX;
  (* 2*) ILock LX;
  (* 3*) IUnlock LX;
  (* 4*) IEnd ].
Definition p_ssd_main : list instr := [
  (* 0*) IRst 0;
  (* 1*) IBrDone 4;
  (* 2*) ICreateI 1;
  (* 3*) IJmp 1;
  (* 4*) IRst 1;
  (* 5*) IBrDone 38;
  (* 6*) ICnt;
  (* 7*) IPoll PIPE INQ 5;
  (* 8*) IWr PIPE 0;
  (* 9*) ILock IM;
  (*10*) ISwap INQ LOC;
  (*11*) IUnlock IM;
  (*12*) IBrEmpty LOC 5;
  (*13*) IPop LOC;
  (*14*) IRunC 12 20;
  (*15*) ILock IM;
  (*16*) IPushR INQ;
  (*17*) IUnlock IM;
  (*18*) IInc PIPE;
  (*19*) IJmp 12;
  (*20*) ILock IM;
  (*21*) IPushR INQ;
  (*22*) IUnlock IM;
  (*23*) IInc PIPE;
  (*24*) ILock IM;
  (*25*) IBrEmpty INQ 36;
  (*26*) ISwap INQ LOC2;
  (*27*) IUnlock IM;
  (*28*) IBrEmpty LOC2 24;
  (*29*) IPop LOC2;
  (*30*) IRunB 28;
  (*31*) ILock IM;
  (*32*) IPushR INQ;
  (*33*) IUnlock IM;
  (*34*) IInc PIPE;
  (*35*) IJmp 28;
  (*36*) IUnlock IM;
  (*37*) IJmp 12;
  (*38*) IRst 0;
  (*39*) IBrDone 42;
  (*40*) IJoinI 1;
  (*41*) IJmp 39;
  (*42*) ILock IM;
  (*43*) IBrEmpty INQ 72;
  (*44*) ISwap INQ LOC;
  (*45*) IUnlock IM;
  (*46*) IBrEmpty LOC 42;
  (*47*) IPop LOC;
  (*48*) IRunC 46 54;
  (*49*) ILock IM;
  (*50*) IPushR INQ;
  (*51*) IUnlock IM;
  (*52*) IInc PIPE;
  (*53*) IJmp 46;
  (*54*) ILock IM;
  (*55*) IPushR INQ;
  (*56*) IUnlock IM;
  (*57*) IInc PIPE;
  (*58*) ILock IM;
  (*59*) IBrEmpty INQ 70;
  (*60*) ISwap INQ LOC2;
  (*61*) IUnlock IM;
  (*62*) IBrEmpty LOC2 58;
  (*63*) IPop LOC2;
  (*64*) IRunB 62;
  (*65*) ILock IM;
  (*66*) IPushR INQ;
  (*67*) IUnlock IM;
  (*68*) IInc PIPE;
  (*69*) IJmp 62;
  (*70*) IUnlock IM;
  (*71*) IJmp 46;
  (*72*) IUnlock IM;
  (*73*) IEnd ].
Definition SM2 := 42.  Definition SC2 := 42.  Definition COMPLETE2 := 42.
Definition C5 := 45.  Definition C6 := 46.  Definition C2 := 52.  Definition C3 := 53.  Definition C4 := 54.
Definition p_pref_owner : list instr := [
  (* 0*) ILock OWN;
  (* 1*) ILock TM2;
  (* 2*) IBrVar RUN2 1 7;
  (* 3*) ICreateI 1;
  (* 4*) IBrVar RUN2 1 7;
  (* 5*) IWait TC2 TM2;
  (* 6*) IJmp 4;
  (* 7*) IUnlock TM2;
  (* 8*) IWr PREF 2;
  (* 9*) ILd PREF;
  (*10*) ILock IMS;
  (*11*) IPushR INQS;
  (*12*) IUnlock IMS;
  (*13*) IInc PIPES;
  (*14*) IWr PREF 3;
  (*15*) ILock SM;
  (*16*) ILd ZEROV;
  (*17*) ILock IMS;
  (*18*) IPushR INQS;
  (*19*) IUnlock IMS;
  (*20*) IInc PIPES;
  (*21*) IBrVar COMPLETE 1 24;
  (*22*) IWait SC SM;
  (*23*) IJmp 21;
  (*24*) IUnlock SM;
  (*25*) ILd FILEV;
  (*26*) IOut 3;
  (*27*) ILd C5;
  (*28*) ILock IMS;
  (*29*) IPushR INQS;
  (*30*) IUnlock IMS;
  (*31*) IInc PIPES;
  (*32*) ILock TM2;
  (*33*) ILd RUN2;
  (*34*) IUnlock TM2;
  (*35*) IBrReg 0 41;
  (*36*) IRst 9;
  (*37*) IJoinI 1;
  (*38*) ILock TM2;
  (*39*) IWr RUN2 0;
  (*40*) IUnlock TM2;
  (*41*) ILock IMS;
  (*42*) IBrEmpty INQS 43;
  (*43*) IUnlock IMS;
  (*44*) IUnlock OWN;
  (*45*) IEnd ].
Definition p_pref_saver : list instr := [
  (* 0*) ILock TM2;
  (* 1*) IWr RUN2 1;
  (* 2*) IUnlock TM2;
  (* 3*) ISignal TC2;
  (* 4*) IWr ISRUN 1;
  (* 5*) IWr TERMV 0;
  (* 6*) IBrVar TERMV 1 37;
  (* 7*) IPoll PIPES INQS 6;
  (* 8*) IWr PIPES 0;
  (* 9*) ILock IMS;
  (*10*) ISwap INQS LOCS;
  (*11*) IUnlock IMS;
  (*12*) IBrEmpty LOCS 6;
  (*13*) IPop LOCS;
  (*14*) IRunW FILEV 18 35;
  (*15*) IBrVar FILEV 5 28;
  (*16*) IBrVar FILEV 6 23;
  (*17*) IJmp 12;
  (*18*) ILock SM;
  (*19*) IWr COMPLETE 1;
  (*20*) ISignal SC;
  (*21*) IUnlock SM;
  (*22*) IJmp 12;
  (*23*) ILock SM2;
  (*24*) IWr COMPLETE2 1;
  (*25*) ISignal SC2;
  (*26*) IUnlock SM2;
  (*27*) IJmp 12;
  (*28*) IBrVar ISRUN 0 12;
  (*29*) ILd ONEV;
  (*30*) ILock IMS;
  (*31*) IPushR INQS;
  (*32*) IUnlock IMS;
  (*33*) IInc PIPES;
  (*34*) IJmp 12;
  (*35*) IWr TERMV 1;
  (*36*) IJmp 12;
  (*37*) IWr ISRUN 0;
  (*38*) IEnd ].

(* ---- round 8 (generated by gen_progs_r8.py).  FilePreferenceSaverThread::Join now queues a callback (payload 5) that
   calls SelectServer::Terminate() on the saver thread (fix 05); "prefs2": a second thread (2) calls Synchronize()
   concurrently with the owner (its local mutex/condition/flag are 42, its completion callback has payload 6);
   "prefsj": Start() immediately followed by Join(); "term": SelectServer::Run()/Terminate(): thread 0 queues a callback
   that starts producer 1 and calls Run(); producer 1: Execute(2), Terminate(), Execute(3), Execute(4); after Run()
   returns the owner joins it, queues a callback that starts producer 2 (Execute(2), Terminate()), calls Run() again,
   joins, and destroys the SelectServer.  The saver/loop distinguish callbacks by payload: 0 = completion / start a
   producer, 1 = SetTerminate, others plain (variables 45, 46, 52-54 hold the constants 5, 6, 2-4). *)
Definition ISRUNA := 60.  Definition TERMA := 61.  Definition LASTV := 62.
Definition p_term_owner : list instr := [
  (* 0*) ILd ZEROV;
  (* 1*) ILock IM;
  (* 2*) IPushR INQ;
  (* 3*) IUnlock IM;
  (* 4*) IInc PIPE;
  (* 5*) IWr ISRUNA 1;
  (* 6*) IWr TERMA 0;
  (* 7*) IBrVar TERMA 1 21;
  (* 8*) IPoll PIPE INQ 7;
  (* 9*) IWr PIPE 0;
  (*10*) ILock IM;
  (*11*) ISwap INQ LOC;
  (*12*) IUnlock IM;
  (*13*) IBrEmpty LOC 7;
  (*14*) IPop LOC;
  (*15*) IRunW LASTV 17 19;
  (*16*) IJmp 13;
  (*17*) ICreateI 1;
  (*18*) IJmp 13;
  (*19*) IWr TERMA 1;
  (*20*) IJmp 13;
  (*21*) IWr ISRUNA 0;
  (*22*) IRst 9;
  (*23*) IJoinI 1;
  (*24*) ILd ZEROV;
  (*25*) ILock IM;
  (*26*) IPushR INQ;
  (*27*) IUnlock IM;
  (*28*) IInc PIPE;
  (*29*) IWr ISRUNA 1;
  (*30*) IWr TERMA 0;
  (*31*) IBrVar TERMA 1 45;
  (*32*) IPoll PIPE INQ 31;
  (*33*) IWr PIPE 0;
  (*34*) ILock IM;
  (*35*) ISwap INQ LOC;
  (*36*) IUnlock IM;
  (*37*) IBrEmpty LOC 31;
  (*38*) IPop LOC;
  (*39*) IRunW LASTV 41 43;
  (*40*) IJmp 37;
  (*41*) ICreateI 1;
  (*42*) IJmp 37;
  (*43*) IWr TERMA 1;
  (*44*) IJmp 37;
  (*45*) IWr ISRUNA 0;
  (*46*) IRst 9;
  (*47*) IJoinI 2;
  (*48*) ILock IM;
  (*49*) IBrEmpty INQ 56;
  (*50*) ISwap INQ LOC;
  (*51*) IUnlock IM;
  (*52*) IBrEmpty LOC 48;
  (*53*) IPop LOC;
  (*54*) IRunW LASTV 52 52;
  (*55*) IJmp 52;
  (*56*) IUnlock IM;
  (*57*) IEnd ].
Definition p_term_p1 : list instr := [
  (* 0*) ILd C2;
  (* 1*) ILock IM;
  (* 2*) IPushR INQ;
  (* 3*) IUnlock IM;
  (* 4*) IInc PIPE;
  (* 5*) IBrVar ISRUNA 0 11;
  (* 6*) ILd ONEV;
  (* 7*) ILock IM;
  (* 8*) IPushR INQ;
  (* 9*) IUnlock IM;
  (*10*) IInc PIPE;
  (*11*) ILd C3;
  (*12*) ILock IM;
  (*13*) IPushR INQ;
  (*14*) IUnlock IM;
  (*15*) IInc PIPE;
  (*16*) ILd C4;
  (*17*) ILock IM;
  (*18*) IPushR INQ;
  (*19*) IUnlock IM;
  (*20*) IInc PIPE;
  (*21*) IEnd ].
Definition p_term_p2 : list instr := [
  (* 0*) ILd C2;
  (* 1*) ILock IM;
  (* 2*) IPushR INQ;
  (* 3*) IUnlock IM;
  (* 4*) IInc PIPE;
  (* 5*) IBrVar ISRUNA 0 11;
  (* 6*) ILd ONEV;
  (* 7*) ILock IM;
  (* 8*) IPushR INQ;
  (* 9*) IUnlock IM;
  (*10*) IInc PIPE;
  (*11*) IEnd ].
Definition p_pref2_owner : list instr := [
  (* 0*) ILock OWN;
  (* 1*) ILock TM2;
  (* 2*) IBrVar RUN2 1 7;
  (* 3*) ICreateI 1;
  (* 4*) IBrVar RUN2 1 7;
  (* 5*) IWait TC2 TM2;
  (* 6*) IJmp 4;
  (* 7*) IUnlock TM2;
  (* 8*) ICreateI 1;
  (* 9*) ILock SM;
  (*10*) ILd ZEROV;
  (*11*) ILock IMS;
  (*12*) IPushR INQS;
  (*13*) IUnlock IMS;
  (*14*) IInc PIPES;
  (*15*) IBrVar COMPLETE 1 18;
  (*16*) IWait SC SM;
  (*17*) IJmp 15;
  (*18*) IUnlock SM;
  (*19*) IRst 9;
  (*20*) IJoinI 2;
  (*21*) ILd C5;
  (*22*) ILock IMS;
  (*23*) IPushR INQS;
  (*24*) IUnlock IMS;
  (*25*) IInc PIPES;
  (*26*) ILock TM2;
  (*27*) ILd RUN2;
  (*28*) IUnlock TM2;
  (*29*) IBrReg 0 35;
  (*30*) IRst 9;
  (*31*) IJoinI 1;
  (*32*) ILock TM2;
  (*33*) IWr RUN2 0;
  (*34*) IUnlock TM2;
  (*35*) ILock IMS;
  (*36*) IBrEmpty INQS 37;
  (*37*) IUnlock IMS;
  (*38*) IUnlock OWN;
  (*39*) IEnd ].
Definition p_pref2_helper : list instr := [
  (* 0*) ILock SM2;
  (* 1*) ILd C6;
  (* 2*) ILock IMS;
  (* 3*) IPushR INQS;
  (* 4*) IUnlock IMS;
  (* 5*) IInc PIPES;
  (* 6*) IBrVar COMPLETE2 1 9;
  (* 7*) IWait SC2 SM2;
  (* 8*) IJmp 6;
  (* 9*) IUnlock SM2;
  (*10*) IEnd ].
Definition p_prefj_owner : list instr := [
  (* 0*) ILock OWN;
  (* 1*) ILock TM2;
  (* 2*) IBrVar RUN2 1 7;
  (* 3*) ICreateI 1;
  (* 4*) IBrVar RUN2 1 7;
  (* 5*) IWait TC2 TM2;
  (* 6*) IJmp 4;
  (* 7*) IUnlock TM2;
  (* 8*) ILd C5;
  (* 9*) ILock IMS;
  (*10*) IPushR INQS;
  (*11*) IUnlock IMS;
  (*12*) IInc PIPES;
  (*13*) ILock TM2;
  (*14*) ILd RUN2;
  (*15*) IUnlock TM2;
  (*16*) IBrReg 0 22;
  (*17*) IRst 9;
  (*18*) IJoinI 1;
  (*19*) ILock TM2;
  (*20*) IWr RUN2 0;
  (*21*) IUnlock TM2;
  (*22*) ILock IMS;
  (*23*) IBrEmpty INQS 24;
  (*24*) IUnlock IMS;
  (*25*) IUnlock OWN;
  (*26*) IEnd ].

(* ---- wave 7.  "poolre": the ThreadPool scenario where the first r closures handed in by the owner are two-stage jobs:
   when run on a worker they call Execute() on the same pool (ThreadPool::Execute: lock, test m_shutdown (warning only),
   push, Signal, unlock) -- possibly after JoinAll() has set m_shutdown; the follow-up must still be run exactly once
   before JoinAll() returns.  The follow-up closure is (worker id, per-worker counter).
   "futasg": language-level operations on Future handles by the owner thread, with a setter thread holding a copy:
   f = f (self-assignment of a sole owner: no operation at all); Future g(f); g = f (distinct handles, same state);
   Future h; h = f (assign over a live sole-owner state: that state, object 3, is freed); std::swap(g, h)
   (copy, two assignments, destructor); copy for the setter; Get(); ~h ~g ~f; the last DeRef frees object 1. *)
Definition FM3 := 24.  Definition REF3 := 24.
Definition p_poolre_worker_a : list instr := [
  (* 0*) ILock TMA;
  (* 1*) IWr RUNA 1;
  (* 2*) IUnlock TMA;
  (* 3*) ISignal TCA;
  (* 4*) ILock PLM;
  (* 5*) IBrEmpty PQ 16;
  (* 6*) IPop PQ;
  (* 7*) IUnlock PLM;
  (* 8*) IRunB 14;
  (* 9*) ILock PLM;
  (*10*) IBrVar PSHUT 1 11;
  (*11*) IPushR PQ;
  (*12*) ISignal PLC;
  (*13*) IUnlock PLM;
  (*14*) ILock PLM;
  (*15*) IJmp 5;
  (*16*) IBrVar PSHUT 1 19;
  (*17*) IWait PLC PLM;
  (*18*) IJmp 5;
  (*19*) IUnlock PLM;
  (*20*) IEnd ].
Definition p_poolre_worker_b : list instr := [
  (* 0*) ILock TMB;
  (* 1*) IWr RUNB 1;
  (* 2*) IUnlock TMB;
  (* 3*) ISignal TCB;
  (* 4*) ILock PLM;
  (* 5*) IBrEmpty PQ 16;
  (* 6*) IPop PQ;
  (* 7*) IUnlock PLM;
  (* 8*) IRunB 14;
  (* 9*) ILock PLM;
  (*10*) IBrVar PSHUT 1 11;
  (*11*) IPushR PQ;
  (*12*) ISignal PLC;
  (*13*) IUnlock PLM;
  (*14*) ILock PLM;
  (*15*) IJmp 5;
  (*16*) IBrVar PSHUT 1 19;
  (*17*) IWait PLC PLM;
  (*18*) IJmp 5;
  (*19*) IUnlock PLM;
  (*20*) IEnd ].
Definition p_fut_asg : list instr := [
  (* 0*) ILock FM;
  (* 1*) IInc REF;
  (* 2*) IUnlock FM;
  (* 3*) ILock FM;
  (* 4*) IDec REF;
  (* 5*) IUnlock FM;
  (* 6*) IBrReg 0 8;
  (* 7*) IJmp 9;
  (* 8*) IFree 1;
  (* 9*) ILock FM;
  (*10*) IInc REF;
  (*11*) IUnlock FM;
  (*12*) ILock FM3;
  (*13*) IDec REF3;
  (*14*) IUnlock FM3;
  (*15*) IBrReg 0 17;
  (*16*) IJmp 18;
  (*17*) IFree 3;
  (*18*) ILock FM;
  (*19*) IInc REF;
  (*20*) IUnlock FM;
  (*21*) ILock FM;
  (*22*) IInc REF;
  (*23*) IUnlock FM;
  (*24*) ILock FM;
  (*25*) IDec REF;
  (*26*) IUnlock FM;
  (*27*) IBrReg 0 29;
  (*28*) IJmp 30;
  (*29*) IFree 1;
  (*30*) ILock FM;
  (*31*) IInc REF;
  (*32*) IUnlock FM;
  (*33*) ILock FM;
  (*34*) IDec REF;
  (*35*) IUnlock FM;
  (*36*) IBrReg 0 38;
  (*37*) IJmp 39;
  (*38*) IFree 1;
  (*39*) ILock FM;
  (*40*) IInc REF;
  (*41*) IUnlock FM;
  (*42*) ILock FM;
  (*43*) IDec REF;
  (*44*) IUnlock FM;
  (*45*) IBrReg 0 47;
  (*46*) IJmp 48;
  (*47*) IFree 1;
  (*48*) ILock FM;
  (*49*) IInc REF;
  (*50*) IUnlock FM;
  (*51*) ICreateI 1;
  (*52*) ILock FM;
  (*53*) IBrVar ISSET 1 56;
  (*54*) IWait FC FM;
  (*55*) IJmp 53;
  (*56*) ILd VALUE;
  (*57*) IUnlock FM;
  (*58*) IOut OUT_GET;
  (*59*) ILock FM;
  (*60*) IDec REF;
  (*61*) IUnlock FM;
  (*62*) IBrReg 0 64;
  (*63*) IJmp 65;
  (*64*) IFree 1;
  (*65*) ILock FM;
  (*66*) IDec REF;
  (*67*) IUnlock FM;
  (*68*) IBrReg 0 70;
  (*69*) IJmp 71;
  (*70*) IFree 1;
  (*71*) ILock FM;
  (*72*) IDec REF;
  (*73*) IUnlock FM;
  (*74*) IBrReg 0 76;
  (*75*) IJmp 77;
  (*76*) IFree 1;
  (*77*) IRst 1;
  (*78*) IJoinI 1;
  (*79*) IEnd ].

Definition P : programs := fun id =>
  match id with
  | 0 => p_exec_main | 1 => p_consumer | 2 => p_producer
  | 4 => p_fut_main_raw | 5 => p_fut_setter_raw
  | 6 => p_fut_main_copy | 7 => p_fut_setter_copy | 8 => p_fut_getter
  | 10 => p_ss_main | 11 => p_ss_producer
  | 12 => p_exec_main_re | 13 => p_consumer_re
  | 14 => p_per_owner | 15 => p_per_thread
  | 16 => p_pool_owner | 17 => p_pool_worker_a | 18 => p_pool_worker_b
  | 19 => p_lock_owner | 20 => p_lock_cont | 21 => p_ssd_main | 22 => p_pref_owner | 23 => p_pref_saver
  | 24 => p_term_owner | 25 => p_term_p1 | 26 => p_term_p2 | 27 => p_pref2_owner | 28 => p_pref2_helper | 29 => p_prefj_owner
  | 30 => p_poolre_worker_a | 31 => p_poolre_worker_b | 32 => p_fut_asg
  | _ => []
  end.

(* ---- the code before the fixes (for the witness schedules) *)
Definition p_exec_main_old : list instr := [
  ILock TM; IBrVar RUNNING 1 4; ICreateI 1; IWait TC TM; (*4*) IUnlock TM;
  (*5*) IRst 0; (*6*) IBrDone 9; ICreateI 2; IJmp 6;
  (*9*) ILock TM; ILd RUNNING; IUnlock TM; (*12*) IBrReg 0 30;
  (*13*) ILock M; IWr SHUTDOWN 1; IUnlock M; ISignal CV;
  (*17*) ILock TM; ILd RUNNING; IUnlock TM; (*20*) IBrReg 0 24;
  (*21*) IRst 1; IJoinI 1; (*23*) IWr RUNNING 0;
  (*24*) ILock M; (*25*) IBrEmpty Q 29; IPop Q; IRun; IJmp 25; (*29*) IUnlock M;
  (*30*) IRst 0; (*31*) IBrDone 34; IJoinI 2; IJmp 31;
  (*34*) ILock M; (*35*) IBrEmpty Q 39; IPop Q; IRun; IJmp 35; (*39*) IUnlock M;
  (*40*) IEnd ].

Definition get_deref_old (o : nat) : list instr := [
  ILock FM; IBrVar ISSET 1 (o + 3); IWait FC FM; (*o+3*) ILd VALUE; IUnlock FM; IOut OUT_GET;
  (*o+6*) ILock FM; IDec REF; IUnlock FM; (*o+9*) IBrReg 0 (o + 11); IJmp (o + 12); (*o+11*) IFree 1 ].
Definition set_code_old : list instr := [
  ILock FM; IBrVar ISSET 1 4; IWr ISSET 1; IWr VALUE THE_VALUE; (*4*) IUnlock FM; (*5*) IBroadcast FC ].
(* note: in the old code the early return of a double Set skips the Broadcast; index 4 = unlock
   then falls into the broadcast, which over-approximates by one harmless broadcast only on the
   double-Set path (never taken in the scenarios). *)

Definition P_old : programs := fun id =>
  match id with
  | 0 => p_exec_main_old | 1 => p_consumer | 2 => p_producer
  | 4 => [ ICreateI 1 ] ++ get_deref_old 1 ++ [ IRst 1; IJoinI 1; IEnd ]
  | 5 => set_code_old ++ [ IEnd ]
  | _ => []
  end.

(* ---- initial states *)
Definition mk_thread (p : nat) (st : status) (l : nat) : thread := mkT p 0 st 0 0 l None.
Definition dummy : thread := mk_thread 99 NotStarted 0.

Definition base_state (n : nat) (th : tid -> thread) (v : nat -> nat) (pa : nat -> nat) : state :=
  mkS th n (fun _ => None) (fun _ => []) v (fun _ => []) (fun _ => true) [] [] [] pa None.

(* lims = callbacks per producer *)
Definition init_exec (lims : list nat) : state :=
  base_state (2 + length lims)
    (fun t => match t with
              | 0 => mk_thread 0 Fresh 0
              | 1 => mk_thread 1 NotStarted 0
              | S (S i) => if i <? length lims then mk_thread 2 NotStarted (nth i lims 0) else dummy
              end)
    (fun _ => 0)
    (fun k => match k with 0 => length lims | _ => 0 end).

Definition init_fut_raw : state :=
  base_state 2
    (fun t => match t with 0 => mk_thread 4 Fresh 0 | 1 => mk_thread 5 NotStarted 0 | _ => dummy end)
    (fun x => if Nat.eqb x REF then 1 else 0)
    (fun _ => 0).

(* g = number of extra getter threads *)
Definition init_fut_copy (g : nat) : state :=
  base_state (2 + g)
    (fun t => match t with
              | 0 => mk_thread 6 Fresh 0
              | 1 => mk_thread 7 NotStarted 0
              | S (S i) => if i <? g then mk_thread 8 NotStarted 0 else dummy
              end)
    (fun x => if Nat.eqb x REF then 1 else 0)
    (fun k => match k with 0 => 1 + g | _ => 0 end).

(* lims = callbacks per producer, rs = how many of each producer's first callbacks re-submit, k = RunOnce calls *)
Definition init_ss (lims rs : list nat) (k : nat) : state :=
  base_state (1 + length lims)
    (fun t => match t with
              | 0 => mk_thread 10 Fresh 0
              | S i => if i <? length lims then mk_thread 11 NotStarted (nth i lims 0) else dummy
              end)
    (fun _ => 0)
    (fun x => match x with
              | 0 => length lims
              | 1 => k
              | _ => if (101 <=? x) && (x <? 101 + length lims) then nth (x - 101) rs 0 else 0
              end).

Definition init_execre (lims rs : list nat) : state :=
  base_state (2 + length lims)
    (fun t => match t with
              | 0 => mk_thread 12 Fresh 0
              | 1 => mk_thread 13 NotStarted 0
              | S (S i) => if i <? length lims then mk_thread 2 NotStarted (nth i lims 0) else dummy
              end)
    (fun _ => 0)
    (fun x => match x with
              | 0 => length lims
              | _ => if (102 <=? x) && (x <? 102 + length lims) then nth (x - 102) rs 0 else 0
              end).

Definition init_periodic : state :=
  base_state 2
    (fun t => match t with 0 => mk_thread 14 Fresh 0 | 1 => mk_thread 15 NotStarted 0 | _ => dummy end)
    (fun _ => 0)
    (fun _ => 0).

(* n = number of closures handed to ThreadPool::Execute *)
Definition init_pool (n : nat) : state :=
  base_state 3
    (fun t => match t with 0 => mk_thread 16 Fresh 0 | 1 => mk_thread 17 NotStarted 0
                         | 2 => mk_thread 18 NotStarted 0 | _ => dummy end)
    (fun _ => 0)
    (fun k => match k with 0 => n | _ => 0 end).

(* n closures from the owner, the first r of them re-submit a follow-up to the pool when they are run *)
Definition init_poolre (n r : nat) : state :=
  base_state 3
    (fun t => match t with 0 => mk_thread 16 Fresh 0 | 1 => mk_thread 30 NotStarted 0
                         | 2 => mk_thread 31 NotStarted 0 | _ => dummy end)
    (fun _ => 0)
    (fun k => match k with 0 => n | 100 => r | _ => 0 end).

Definition init_fut_asg : state :=
  base_state 2
    (fun t => match t with 0 => mk_thread 32 Fresh 0 | 1 => mk_thread 7 NotStarted 0 | _ => dummy end)
    (fun x => if Nat.eqb x REF then 1 else if Nat.eqb x REF3 then 1 else 0)
    (fun _ => 0).

Definition init_locker : state :=
  base_state 3
    (fun t => match t with 0 => mk_thread 19 Fresh 0 | 1 => mk_thread 20 NotStarted 0
                         | 2 => mk_thread 20 NotStarted 0 | _ => dummy end)
    (fun _ => 0) (fun _ => 0).

Definition init_ssd (lims rs : list nat) (k : nat) : state :=
  base_state (1 + length lims)
    (fun t => match t with
              | 0 => mk_thread 21 Fresh 0
              | S i => if i <? length lims then mk_thread 11 NotStarted (nth i lims 0) else dummy
              end)
    (fun _ => 0)
    (fun x => match x with
              | 0 => length lims
              | 1 => k
              | 98 => 1
              | _ => if (101 <=? x) && (x <? 101 + length lims) then nth (x - 101) rs 0 else 0
              end).

Definition cvars (x : nat) : nat :=
  if Nat.eqb x ONEV then 1 else if Nat.eqb x C5 then 5 else if Nat.eqb x C6 then 6
  else if Nat.eqb x C2 then 2 else if Nat.eqb x C3 then 3 else if Nat.eqb x C4 then 4 else 0.

Definition init_prefs : state :=
  base_state 2
    (fun t => match t with 0 => mk_thread 22 Fresh 0 | 1 => mk_thread 23 NotStarted 0 | _ => dummy end)
    cvars (fun _ => 0).

Definition init_prefs2 : state :=
  base_state 3
    (fun t => match t with 0 => mk_thread 27 Fresh 0 | 1 => mk_thread 23 NotStarted 0
                         | 2 => mk_thread 28 NotStarted 0 | _ => dummy end)
    cvars (fun _ => 0).
Definition init_prefsj : state :=
  base_state 2
    (fun t => match t with 0 => mk_thread 29 Fresh 0 | 1 => mk_thread 23 NotStarted 0 | _ => dummy end)
    cvars (fun _ => 0).
Definition init_term : state :=
  base_state 3
    (fun t => match t with 0 => mk_thread 24 Fresh 0 | 1 => mk_thread 25 NotStarted 0
                         | 2 => mk_thread 26 NotStarted 0 | _ => dummy end)
    cvars (fun _ => 0).
