(* C17.Progs: the C++ code transcribed, one instruction per shared-state action.
   Resources: object 0 (never freed) = the ExecutorThread and its ConsumerThread;
   object 1 = one FutureImpl (resources 8..15).
   The programs are the code WITH the proposed fixes (fixes/01..04); the pre-fix programs are
   kept as P_old for the witness theorems. *)
From Coq Require Import List Arith Bool.
Import ListNotations.
From C17 Require Import Sem.

(* mutexes *)    Definition M := 0.  Definition TM := 1.  Definition FM := 8.
(* conditions *) Definition CV := 0. Definition TC := 1.  Definition FC := 8.
(* variables *)  Definition SHUTDOWN := 0. Definition RUNNING := 1.
                 Definition REF := 8. Definition ISSET := 9. Definition VALUE := 10.
(* queue *)      Definition Q := 0.
Definition THE_VALUE := 42.
Definition OUT_GET := 1.

(* ---- scenario "exec": thread 0 = owner of the ExecutorThread, 1 = its ConsumerThread,
        2.. = producers calling ExecutorThread::Execute lim times each. *)
Definition p_exec_main : list instr := [
  (* Thread::Start (common/thread/Thread.cpp), with fix 02: while (!m_running) Wait *)
  (* 0*) ILock TM;
  (* 1*) IBrVar RUNNING 1 6;
  (* 2*) ICreateI 1;                 (* FastStart: pthread_create *)
  (* 3*) IBrVar RUNNING 1 6;
  (* 4*) IWait TC TM;
  (* 5*) IJmp 3;
  (* 6*) IUnlock TM;
  (* harness: start the producers *)
  (* 7*) IRst 0;
  (* 8*) IBrDone 11;
  (* 9*) ICreateI 2;
  (*10*) IJmp 8;
  (* ExecutorThread::Stop: m_thread.IsRunning() *)
  (*11*) ILock TM;
  (*12*) ILd RUNNING;
  (*13*) IUnlock TM;
  (*14*) IBrReg 0 36;
  (*15*) ILock M;
  (*16*) IWr SHUTDOWN 1;
  (*17*) IUnlock M;
  (*18*) ISignal CV;
  (* Thread::Join, with fix 03: m_running = false under the lock *)
  (*19*) ILock TM;
  (*20*) ILd RUNNING;
  (*21*) IUnlock TM;
  (*22*) IBrReg 0 29;
  (*23*) IRst 1;
  (*24*) IJoinI 1;
  (*25*) ILock TM;
  (*26*) IWr RUNNING 0;
  (*27*) IUnlock TM;
  (*28*) IJmp 29;
  (* ExecutorThread::RunRemaining, with fix 04: callbacks run without the mutex *)
  (*29*) ILock M;
  (*30*) IBrEmpty Q 35;
  (*31*) IPop Q;
  (*32*) IUnlock M;
  (*33*) IRun;
  (*34*) IJmp 29;
  (*35*) IUnlock M;
  (* harness: join the producers *)
  (*36*) IRst 0;
  (*37*) IBrDone 40;
  (*38*) IJoinI 2;
  (*39*) IJmp 37;
  (* ~ExecutorThread: RunRemaining *)
  (*40*) ILock M;
  (*41*) IBrEmpty Q 46;
  (*42*) IPop Q;
  (*43*) IUnlock M;
  (*44*) IRun;
  (*45*) IJmp 40;
  (*46*) IUnlock M;
  (*47*) IEnd ].

Definition p_consumer : list instr := [
  (* Thread::_InternalRun *)
  (* 0*) ILock TM;
  (* 1*) IWr RUNNING 1;
  (* 2*) IUnlock TM;
  (* 3*) ISignal TC;
  (* ConsumerThread::Run / EmptyQueue *)
  (* 4*) ILock M;
  (* 5*) IBrEmpty Q 11;
  (* 6*) IPop Q;
  (* 7*) IUnlock M;
  (* 8*) IRun;
  (* 9*) ILock M;
  (*10*) IJmp 5;
  (*11*) IBrVar SHUTDOWN 1 14;
  (*12*) IWait CV M;
  (*13*) IJmp 5;
  (*14*) IUnlock M;
  (*15*) IEnd ].

Definition p_producer : list instr := [
  (* lim x ExecutorThread::Execute *)
  (* 0*) IBrDone 6;
  (* 1*) ILock M;
  (* 2*) IPush Q;
  (* 3*) IUnlock M;
  (* 4*) ISignal CV;
  (* 5*) IJmp 0;
  (* 6*) IEnd ].

(* ---- scenario "fut": FutureImpl<int>.  Get / Set / DeRef as in FuturePrivate.h with fix 01
        (Set broadcasts before releasing the mutex; Get re-tests m_is_set in a loop). *)
Definition get_deref (o : nat) : list instr := [
  (* FutureImpl::Get *)
  (* o+0*) ILock FM;
  (* o+1*) IBrVar ISSET 1 (o + 4);
  (* o+2*) IWait FC FM;
  (* o+3*) IJmp (o + 1);
  (* o+4*) ILd VALUE;
  (* o+5*) IUnlock FM;
  (* o+6*) IOut OUT_GET;
  (* ~Future: FutureImpl::DeRef *)
  (* o+7*) ILock FM;
  (* o+8*) IDec REF;
  (* o+9*) IUnlock FM;
  (*o+10*) IBrReg 0 (o + 12);
  (*o+11*) IJmp (o + 13);
  (*o+12*) IFree 1 ].          (* o+13 follows *)

Definition set_code : list instr := [
  (* FutureImpl::Set *)
  (* 0*) ILock FM;
  (* 1*) IBrVar ISSET 1 5;
  (* 2*) IWr ISSET 1;
  (* 3*) IWr VALUE THE_VALUE;
  (* 4*) IBroadcast FC;
  (* 5*) IUnlock FM ].

(* raw-pointer pattern of ExecutorThread::DrainCallbacks: the setter has no reference *)
Definition p_fut_main_raw : list instr :=
  [ (* 0*) ICreateI 1 ] ++ get_deref 1 ++ [ (*14*) IRst 1; (*15*) IJoinI 1; (*16*) IEnd ].
Definition p_fut_setter_raw : list instr := set_code ++ [ IEnd ].

(* every thread holds its own Future copy: thread 1 sets, threads 2..G and main get *)
Definition p_fut_main_copy : list instr := [
  (* 0*) IRst 0;
  (* 1*) IBrDone 7;
  (* 2*) ILock FM;          (* Future copy constructor: FutureImpl::Ref *)
  (* 3*) IInc REF;
  (* 4*) IUnlock FM;
  (* 5*) ICreateI 1;
  (* 6*) IJmp 1 ] ++ get_deref 7 ++ [
  (*20*) IRst 0;
  (*21*) IBrDone 24;
  (*22*) IJoinI 1;
  (*23*) IJmp 21;
  (*24*) IEnd ].
Definition p_fut_setter_copy : list instr := set_code ++ [
  (* 6*) ILock FM;
  (* 7*) IDec REF;
  (* 8*) IUnlock FM;
  (* 9*) IBrReg 0 11;
  (*10*) IJmp 12;
  (*11*) IFree 1;
  (*12*) IEnd ].
Definition p_fut_getter : list instr := get_deref 0 ++ [ IEnd ].

Definition P : programs := fun id =>
  match id with
  | 0 => p_exec_main | 1 => p_consumer | 2 => p_producer
  | 4 => p_fut_main_raw | 5 => p_fut_setter_raw
  | 6 => p_fut_main_copy | 7 => p_fut_setter_copy | 8 => p_fut_getter
  | _ => []
  end.

(* ---- the code before the fixes (for the witness schedules) *)
Definition p_exec_main_old : list instr := [
  ILock TM; IBrVar RUNNING 1 4; ICreateI 1; IWait TC TM; (*4*) IUnlock TM;
  (*5*) IRst 0; (*6*) IBrDone 9; ICreateI 2; IJmp 6;
  (*9*) ILock TM; ILd RUNNING; IUnlock TM; (*12*) IBrReg 0 30;
  (*13*) ILock M; IWr SHUTDOWN 1; IUnlock M; ISignal CV;
  (*17*) ILock TM; ILd RUNNING; IUnlock TM; (*20*) IBrReg 0 24;
  (*21*) IRst 1; IJoinI 1; (*23*) IWr RUNNING 0;
  (*24*) ILock M; (*25*) IBrEmpty Q 29; IPop Q; IRun; IJmp 25; (*29*) IUnlock M;
  (*30*) IRst 0; (*31*) IBrDone 34; IJoinI 2; IJmp 31;
  (*34*) ILock M; (*35*) IBrEmpty Q 39; IPop Q; IRun; IJmp 35; (*39*) IUnlock M;
  (*40*) IEnd ].

Definition get_deref_old (o : nat) : list instr := [
  ILock FM; IBrVar ISSET 1 (o + 3); IWait FC FM; (*o+3*) ILd VALUE; IUnlock FM; IOut OUT_GET;
  (*o+6*) ILock FM; IDec REF; IUnlock FM; (*o+9*) IBrReg 0 (o + 11); IJmp (o + 12); (*o+11*) IFree 1 ].
Definition set_code_old : list instr := [
  ILock FM; IBrVar ISSET 1 4; IWr ISSET 1; IWr VALUE THE_VALUE; (*4*) IUnlock FM; (*5*) IBroadcast FC ].
(* note: in the old code the early return of a double Set skips the Broadcast; index 4 = unlock
   then falls into the broadcast, which over-approximates by one harmless broadcast only on the
   double-Set path (never taken in the scenarios). *)

Definition P_old : programs := fun id =>
  match id with
  | 0 => p_exec_main_old | 1 => p_consumer | 2 => p_producer
  | 4 => [ ICreateI 1 ] ++ get_deref_old 1 ++ [ IRst 1; IJoinI 1; IEnd ]
  | 5 => set_code_old ++ [ IEnd ]
  | _ => []
  end.

(* ---- initial states *)
Definition mk_thread (p : nat) (st : status) (l : nat) : thread := mkT p 0 st 0 0 l None.
Definition dummy : thread := mk_thread 99 NotStarted 0.

Definition base_state (n : nat) (th : tid -> thread) (v : nat -> nat) (pa : nat -> nat) : state :=
  mkS th n (fun _ => None) (fun _ => []) v (fun _ => []) (fun _ => true) [] [] [] pa None.

(* lims = callbacks per producer *)
Definition init_exec (lims : list nat) : state :=
  base_state (2 + length lims)
    (fun t => match t with
              | 0 => mk_thread 0 Fresh 0
              | 1 => mk_thread 1 NotStarted 0
              | S (S i) => if i <? length lims then mk_thread 2 NotStarted (nth i lims 0) else dummy
              end)
    (fun _ => 0)
    (fun k => match k with 0 => length lims | _ => 0 end).

Definition init_fut_raw : state :=
  base_state 2
    (fun t => match t with 0 => mk_thread 4 Fresh 0 | 1 => mk_thread 5 NotStarted 0 | _ => dummy end)
    (fun x => if Nat.eqb x REF then 1 else 0)
    (fun _ => 0).

(* g = number of extra getter threads *)
Definition init_fut_copy (g : nat) : state :=
  base_state (2 + g)
    (fun t => match t with
              | 0 => mk_thread 6 Fresh 0
              | 1 => mk_thread 7 NotStarted 0
              | S (S i) => if i <? g then mk_thread 8 NotStarted 0 else dummy
              end)
    (fun x => if Nat.eqb x REF then 1 else 0)
    (fun k => match k with 0 => 1 + g | _ => 0 end).
