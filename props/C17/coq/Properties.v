(* C17 property theorems.  P = the transcribed programs (Progs.v, code with fixes 01-04);
   reach P s0 s = s is reachable from s0 by ANY sequence of labels (any schedule, any choice of the
   waiter a signal wakes, spurious wake-ups at any time); initial = the three scenario families,
   for any number of producers / callbacks per producer / getter threads. *)
From Coq Require Import List Arith Bool.
Import ListNotations.
From C17 Require Import Sem Progs Static Annot FutRaw.
From C17 Require Exec ExecLive Ss FutCopy0 Per Owner Sd WitnessR8 Conserve Pool ConserveAll PoolD PoolFin PoolRe PoolN PoolReD PoolReFin WaitQ WaitQAll FutPoll PoolWake PoolWake2 PoolReWake PoolReUq.
From Coq Require Import Permutation.

(* Data-race freedom of the model: whenever a thread is about to execute an instruction that reads
   or writes a shared variable or the callback queue, it owns the mutex that protects it
   (m_shutdown and the queue: ExecutorThread::m_mutex; m_running: Thread::m_mutex;
    m_ref_count, m_is_set, m_value: FutureImpl::m_mutex). *)
Theorem c17_lockset : forall s0 s, initial s0 -> reach P s0 s ->
  forall t, stat (thr s t) = Ready ->
  (forall x m, acc_var (fetch P (thr s t)) = Some x -> gv x = Some m -> own s m = Some t) /\
  (forall q m, acc_que (fetch P (thr s t)) = Some q -> gq q = Some m -> own s m = Some t).
Proof.
  intros s0 s H0 R. exact (lockset_sound P An gv gq check_all s0 s (proj1 (initial_inv s0 H0)) R).
Qed.
Print Assumptions c17_lockset.

(* Mutual exclusion and lock discipline in every reachable state: the set of mutexes a running thread
   owns is exactly the set annotated at its program counter, it holds a popped callback exactly where
   the annotation says (so no callback is overwritten or run twice from the same pop), a thread
   blocked in cond_wait owns everything but the waited mutex, finished threads own nothing. *)
Theorem c17_lock_discipline : forall s0 s, initial s0 -> reach P s0 s -> Inv P An s.
Proof.
  intros s0 s H0 R. exact (inv_reach P An gv gq check_all s0 s (proj1 (initial_inv s0 H0)) R).
Qed.
Print Assumptions c17_lock_discipline.

(* No schedule makes a thread unlock (or cond_wait with) a mutex it does not own. *)
Theorem c17_no_bad_unlock : forall s0 s, initial s0 -> reach P s0 s -> fault s <> Some BadUnlock.
Proof.
  intros s0 s H0 R.
  exact (no_bad_unlock P An gv gq check_all s0 s (proj1 (initial_inv s0 H0)) (proj2 (initial_inv s0 H0)) R).
Qed.
Print Assumptions c17_no_bad_unlock.

(* The statically checked annotation is what makes the three theorems above hold; it is a
   computation on the finite program text. *)
Theorem c17_annotation_checked : forall id, check_prog gv gq (P id) (An id) = true.
Proof. exact check_all. Qed.
Print Assumptions c17_annotation_checked.

(* the hypotheses are satisfiable, and the machine really runs the scenarios to completion *)
Example ex_initial : initial (init_exec [2; 1]).
Proof. constructor. Qed.
Example ex_run_done : snd (run P 4000 (init_exec [2; 1]) [] 0 [] []) = Finished.
Proof. vm_compute. reflexivity. Qed.
Example ex_run_all_callbacks : map fst (ran (fst (fst (run P 4000 (init_exec [2; 1]) [1; 3; 0; 2; 2; 1] 0 [] [])))) =
                               subm (fst (fst (run P 4000 (init_exec [2; 1]) [1; 3; 0; 2; 2; 1] 0 [] []))).
Proof. vm_compute. reflexivity. Qed.

(* ---- the code BEFORE fixes 01/02 (P_old), same machine: witness schedules.
   500 = keep running the same thread, k < 500 = switch to the k-th enabled thread,
   1000 = spurious wake-up of the first sleeper. *)
(* FutureImpl::Set broadcast after unlocking: the getter returns, drops the last reference and the
   setter's Broadcast touches the freed FutureImpl (no spurious wake-up needed). *)
Theorem c17_future_uaf_before_fix :
  snd (run P_old 4000 init_fut_raw [500; 500; 1; 500; 500; 0] 0 [] []) = Faulted UseAfterFree /\
  snd (run P 4000 init_fut_raw [500; 500; 1; 500; 500; 0] 0 [] []) = Finished.
Proof. split; vm_compute; reflexivity. Qed.
Print Assumptions c17_future_uaf_before_fix.

(* FutureImpl::Get waited once: a spurious wake-up makes Get return 0 before Set(42). *)
Theorem c17_future_early_get_before_fix :
  outs (fst (fst (run P_old 4000 init_fut_raw [500; 500; 500; 500; 1000] 0 [] []))) = [(0, OUT_GET, 0)] /\
  outs (fst (fst (run P 4000 init_fut_raw [500; 500; 500; 500; 1000] 0 [] []))) = [(0, OUT_GET, THE_VALUE)].
Proof. split; vm_compute; reflexivity. Qed.
Print Assumptions c17_future_early_get_before_fix.

(* Thread::Start waited once: after a spurious wake-up Start returns with m_running still false, Stop
   does not join, and the consumer thread is left blocked for ever. *)
Theorem c17_start_spurious_before_fix :
  snd (run P_old 4000 (init_exec [1]) [500; 500; 500; 500; 1000] 0 [] []) = Deadlock /\
  snd (run P 4000 (init_exec [1]) [500; 500; 500; 500; 1000] 0 [] []) = Finished.
Proof. split; vm_compute; reflexivity. Qed.
Print Assumptions c17_start_spurious_before_fix.

(* ---- FutureImpl, raw-pointer pattern of ExecutorThread::DrainCallbacks (scenario init_fut_raw:
   the owner thread has the Future on its stack, calls Get and destroys it; the setter thread only has
   a pointer and calls Set), with fix 01, under EVERY schedule including spurious wake-ups:
   no hazard at all is reachable (in particular no step touches the freed FutureImpl, the object is
   not destroyed while its mutex is held or a thread waits on its condition), and a Get that has
   returned returned the value passed to Set, after Set (m_is_set is 1). *)
Theorem c17_future_raw : forall s, reach P init_fut_raw s ->
  fault s = None /\
  (forall t k v, In (t, k, v) (outs s) -> k = OUT_GET -> v = THE_VALUE /\ var s ISSET = 1).
Proof. exact FutRaw.fut_raw_safe. Qed.
Print Assumptions c17_future_raw.

(* ---- ExecutorThread with any number of producers and callbacks (scenario init_exec lims: thread 0 owns
   the ExecutorThread: Start, start the producers, Stop, join the producers, destructor; thread 1 is its
   ConsumerThread; thread 2+i calls Execute (nth i lims) times), with fixes 02-04, under EVERY
   schedule including spurious wake-ups.  subm = callbacks in the order Execute queued them,
   ran = (callback, executing thread) in the order they were run.
   1. no hazard is reachable (no pop from an empty queue, no run without a callback, no bad unlock, ...);
   2. no callback id is queued twice, and ran is a PREFIX of subm: every callback is run at most once and
      callbacks are run in exactly the order they were queued (hence in submission order per producer);
   3. a callback is run only by thread 1 (the consumer) or thread 0 (the owner, whose only Run instructions are
      in RunRemaining, i.e. in Stop()/~ExecutorThread) - never by the thread that submitted it (never inside Execute);
   4. each producer's callbacks are queued with sequence numbers 0,1,2,...;
   5. once the owner has finished (Stop and the destructor returned) every thread has finished, the queue
      is empty and ran = subm: every submitted callback has run exactly once. *)
Theorem c17_exec_once : forall lims s, reach P (init_exec lims) s ->
  fault s = None /\
  NoDup (subm s) /\
  (exists rest, subm s = map fst (ran s) ++ rest) /\
  (forall c t, In (c, t) (ran s) -> t <= 1 /\ 2 <= fst c /\ t <> fst c) /\
  (forall i, i < length lims -> exists n, map snd (filter (fun c => fst c =? 2 + i) (subm s)) = seq 0 n) /\
  (stat (thr s 0) = Done -> que s 0 = [] /\ map fst (ran s) = subm s /\
                            forall t, t < nthr s -> stat (thr s t) = Done).
Proof. exact Exec.exec_once. Qed.
Print Assumptions c17_exec_once.

(* ---- no lost wake-up / no deadlock, same scenario, every schedule.
   The wake-up invariant: whenever the consumer sleeps on the condition variable, either the queue is empty
   and no shutdown has been requested, or somebody is about to signal it: the owner between setting
   m_shutdown and Signal (pc 17/18 of Stop), or a producer between its push and Signal (pc 3/4 of Execute). *)
Theorem c17_wakeup_invariant : forall lims s, reach P (init_exec lims) s ->
  ExecInv.is_asleep (stat (thr s 1)) = true ->
  (que s 0 = [] /\ var s SHUTDOWN = 0) \/
  (stat (thr s 0) = Ready /\ ExecInv.inl (pc (thr s 0)) [17;18] = true) \/
  (exists i, i < length lims /\ stat (thr s (2 + i)) = Ready /\ ExecInv.inl (pc (thr s (2 + i))) [3;4] = true).
Proof. exact ExecLive.wakeup_inv. Qed.
Print Assumptions c17_wakeup_invariant.

(* Deadlock freedom as an invariant: in every reachable state in which the owner thread has not finished
   (by c17_exec_once, clause 5, the owner finishing is exactly the terminal state: every thread has finished),
   some thread can take a real step - not a spurious wake-up.  So no reachable non-terminal state has every
   thread blocked on a mutex, a condition variable or a join. *)
Theorem c17_no_lost_wakeup : forall lims s, reach P (init_exec lims) s -> stat (thr s 0) <> Done ->
  exists t pick s', exec P s (LStep t pick) = Some s'.
Proof. exact ExecLive.no_deadlock. Qed.
Print Assumptions c17_no_lost_wakeup.

(* ---- the event loop's cross-thread executor (scenario init_ss lims rs k: thread 0 owns a SelectServer,
   starts the producers, calls RunOnce() k times, joins the producers and destroys the SelectServer;
   thread 1+i calls SelectServer::Execute (nth i lims) times; the first (nth i rs) callbacks of producer
   1+i call Execute AGAIN from inside the callback - their children are submitted by thread 0 with
   sequence numbers 0,1,2,...), for every number of producers/callbacks/re-submissions/RunOnce calls and
   EVERY schedule.  subm = callbacks in the order Execute queued them, ran = (callback, thread) in run order.
   1. no hazard is reachable;
   2. no callback id is queued twice and ran is a PREFIX of subm: each callback is run at most once, in
      exactly the order queued (hence per submitting thread in submission order) - in particular a callback
      submitted from inside a callback is queued, not run inside that Execute call;
   3. callbacks are run by the loop thread only (never by a producer inside its Execute);
   4. every submitter's callbacks are queued with sequence numbers 0,1,2,...;
   5. when the owner has finished (~SelectServer returned) every thread has finished, the incoming queue is
      empty and ran = subm: everything pending at destruction, including callbacks queued by callbacks run
      during destruction, has been run exactly once. *)
Theorem c17_ss_exec_once : forall lims rs k s, reach P (init_ss lims rs k) s ->
  fault s = None /\
  NoDup (subm s) /\
  (exists rest, subm s = map fst (ran s) ++ rest) /\
  (forall c t, In (c, t) (ran s) -> t = 0) /\
  (forall j, j < 1 + length lims -> exists n, map snd (filter (fun c => fst c =? j) (subm s)) = seq 0 n) /\
  (stat (thr s 0) = Done -> que s INQ = [] /\ map fst (ran s) = subm s /\
                            forall t, t < nthr s -> stat (thr s t) = Done).
Proof. exact Ss.ss_exec_once. Qed.
Print Assumptions c17_ss_exec_once.

(* ---- FutureImpl with TWO reference holders (scenario init_fut_copy 0: the owner copies its Future for the
   setter thread (FutureImpl::Ref), starts it, calls Get and drops its reference; the setter calls Set and
   drops its copy; whoever drops the last reference deletes the FutureImpl), every schedule including
   spurious wake-ups: no hazard is reachable (no step touches the FutureImpl after it was deleted, it is
   deleted exactly once and never while its mutex is held or a thread waits on it), and a returned Get
   returned the value set, after Set.  The variant with further getter threads (init_fut_copy g, g > 0) is
   NOT proved for all schedules. *)
Theorem c17_future_two_holders : forall s, reach P (init_fut_copy 0) s ->
  fault s = None /\
  (forall t k v, In (t, k, v) (outs s) -> k = OUT_GET -> v = THE_VALUE /\ var s ISSET = 1).
Proof. exact FutCopy0.fut_two_holders_safe. Qed.
Print Assumptions c17_future_two_holders.

(* ---- PeriodicThread (scenario init_periodic: thread 0 constructs a PeriodicThread - the constructor calls
   Thread::Start - and then calls Stop(); thread 1 is the periodic thread: Thread::_InternalRun, then
   PeriodicThread::Run = callback, then lock / test m_terminate / TimedWait / re-test / unlock / callback ...).
   A timed wait may time out at ANY moment (a step of the sleeping thread), spurious wake-ups are possible,
   all interleavings.  outs = the callback runs.
   1. no hazard is reachable, and from ANY reachable state in which Stop() has set m_terminate, in every
      continuation of every schedule the callback runs at most once more (m_terminate stays set). *)
Theorem c17_periodic_stop : forall s, reach P init_periodic s ->
  fault s = None /\
  (var s TERM = 1 -> forall s2, reach P s s2 -> var s2 TERM = 1 /\ length (outs s2) <= length (outs s) + 1).
Proof.
  intros s R. split; [exact (proj1 (Per.periodic_safe s R))|].
  intros T s2 R2. exact (Per.periodic_stop_bound s R T s2 R2).
Qed.
Print Assumptions c17_periodic_stop.

(* 2. no lost wake-up: in every reachable state in which Stop() has not returned, some thread can take a real
      step - a step of a thread that is NOT asleep, i.e. not merely a time-out of the timed wait.  So there is no
      reachable state where Stop is blocked (e.g. in join) while the periodic thread can only loop on time-outs
      or every thread is blocked. *)
Theorem c17_periodic_no_deadlock : forall s, reach P init_periodic s -> stat (thr s 0) <> Done ->
  exists t pick s', PerInv.is_asleep (stat (thr s t)) = false /\ exec P s (LStep t pick) = Some s'.
Proof. exact Per.periodic_no_deadlock. Qed.
Print Assumptions c17_periodic_no_deadlock.

(* ---- no lost wake-up in the event loop (scenario init_ss, where the loop thread now BLOCKS in poll(): the
   instruction at pc 7 of the loop thread sleeps while the wake-up pipe is empty and may time out), every schedule:
   whenever callbacks are queued in m_incoming_callbacks, either the wake-up pipe holds a byte, or the loop thread
   is at a point from which it looks at the queue without sleeping in poll() first (between a successful poll
   and the swap - DrainAndExecute drains the pipe BEFORE it swaps -, between its own push and pipe write, or in
   the destructor's drain), or some producer is between its push and its pipe write. *)
Theorem c17_ss_no_lost_wakeup : forall lims rs k s, reach P (init_ss lims rs k) s -> que s INQ <> [] ->
  var s PIPE <> 0 \/ SsInv.safe0 (pc (thr s 0)) = true \/
  (exists i, i < length lims /\ stat (thr s (1 + i)) = Ready /\ ExecInv.inl (pc (thr s (1 + i))) [3;4] = true).
Proof. exact Ss.ss_no_lost_wakeup. Qed.
Print Assumptions c17_ss_no_lost_wakeup.

(* so the loop thread never sleeps in poll() with an empty pipe and a non-empty queue unless a producer's
   wake-up byte is still on its way *)
Theorem c17_ss_poll_not_lost : forall lims rs k s, reach P (init_ss lims rs k) s ->
  que s INQ <> [] -> var s PIPE = 0 -> pc (thr s 0) = 7 ->
  exists i, i < length lims /\ stat (thr s (1 + i)) = Ready /\ ExecInv.inl (pc (thr s (1 + i))) [3;4] = true.
Proof. exact Ss.ss_poll_not_lost. Qed.
Print Assumptions c17_ss_poll_not_lost.

(* ---- MutexLocker with an early Release() (scenario init_locker: thread 0 takes mutex 24 through a MutexLocker,
   calls Release(), enters and leaves an inner scope on mutex 25 and leaves the outer scope; threads 1 and 2
   contend for mutex 24): under every schedule nobody ever unlocks a mutex it does not own - in the model the
   destructor of a released locker does nothing.  (Instance of c17_no_bad_unlock, stated for the scenario.) *)
Theorem c17_locker_no_bad_unlock : forall s, reach P init_locker s -> fault s <> Some BadUnlock.
Proof. intros s R. exact (c17_no_bad_unlock init_locker s init_lk R). Qed.
Print Assumptions c17_locker_no_bad_unlock.

(* ---- the preference-saver hand-off (scenario init_prefs): the preference map (variable PREF) is owner-only data.
   1. every access to it happens with the owner's token (mutex OWN, held by thread 0 for its whole life) held -
      this is c17_lockset with gv PREF = Some OWN;
   2. the saver thread (thread 1) never reads or writes it, in any reachable state of any schedule: it works on
      the copy carried by the closure. *)
Theorem c17_prefs_owner_only : forall s, reach P init_prefs s ->
  forall y, acc_var (fetch P (thr s 1)) = Some y -> y <> PREF.
Proof. exact Owner.saver_never_touches_pref_map. Qed.
Print Assumptions c17_prefs_owner_only.

(* ---- the event loop's executor where a callback calls DrainCallbacks() itself (scenario init_ssd lims rs k = the
   scenario init_ss in which callback (1,0) - the first callback of producer 1 - queues a callback and then calls
   ss.DrainCallbacks() from inside the callback, the pattern ExecutorInterface.h recommends for destructors; the
   nested drain runs in its own local vector; other callbacks may still call Execute; the loop blocks in poll),
   any number of producers/callbacks/RunOnce calls, EVERY schedule:
   1. no hazard; 2. no callback id is queued twice and NO CALLBACK IS RUN TWICE; 3. the callbacks run so far are a
   sub-multiset of the queued ones (ran ++ rest is a permutation of subm: a nested drain legitimately runs newer
   callbacks before the rest of the interrupted batch, so queue order is not claimed here); 4. callbacks run on the
   loop thread only; 5. when the owner has finished, every thread has finished, the incoming queue is empty and the
   callbacks run are exactly (a permutation of) the callbacks queued: each ran exactly once. *)
Theorem c17_ss_nested_drain_exec_once : forall lims rs k s, reach P (init_ssd lims rs k) s ->
  fault s = None /\
  NoDup (subm s) /\
  NoDup (map fst (ran s)) /\
  (exists rest, Permutation (subm s) (map fst (ran s) ++ rest)) /\
  (forall c t, In (c, t) (ran s) -> t = 0) /\
  (stat (thr s 0) = Done -> que s INQ = [] /\ Permutation (map fst (ran s)) (subm s) /\
                            forall t, t < nthr s -> stat (thr s t) = Done).
Proof. exact Sd.sd_exec_once. Qed.
Print Assumptions c17_ss_nested_drain_exec_once.

(* ---- FilePreferenceSaverThread::Start() immediately followed by Join() (scenario init_prefsj), the code BEFORE
   fix 05 (WitnessR8.P8: Join() calls m_ss.Terminate() on the caller's thread, which does nothing while the saver
   thread has not yet set m_is_running): under the schedule below the owner returns from Start() and calls Join()
   before the saver thread has entered SelectServer::Run(); the terminate request is lost, the owner blocks in
   pthread_join (pc 19) and the saver thread can only time out in poll() - after 300 scheduling steps the run is
   still going, the saver has not finished.  With fix 05 (Join() queues a callback that calls Terminate() on the
   saver thread) the same schedule finishes. *)
Theorem c17_saver_join_hang_before_fix :
  snd (run WitnessR8.P8 300 init_prefsj WitnessR8.hang_schedule 0 [] []) = OutOfFuel /\
  stat (thr (fst (fst (run WitnessR8.P8 300 init_prefsj WitnessR8.hang_schedule 0 [] []))) 1) <> Done /\
  pc (thr (fst (fst (run WitnessR8.P8 300 init_prefsj WitnessR8.hang_schedule 0 [] []))) 0) = 19 /\
  snd (run P 300 init_prefsj WitnessR8.hang_schedule 0 [] []) = Finished.
Proof. exact WitnessR8.saver_join_hangs_before_fix. Qed.
Print Assumptions c17_saver_join_hang_before_fix.

(* ---- conservation of callbacks, for EVERY program of the checked table, any number of threads, every step of every
   schedule (scenarios whose threads use one callback queue q and never swap it): if the callbacks queued so far
   are, as a multiset, exactly those already run, those popped and in some thread's hand, and those still queued,
   then this still holds after the step.  Nothing is ever duplicated or dropped by the machine's executors. *)
Theorem c17_conservation_step : forall q s l s',
  Inv P An s ->
  (forall t, t < nthr s -> forallb (Conserve.qonly q) (P (prog (thr s t))) = true) ->
  Permutation (subm s) (map fst (ran s) ++ Conserve.curs s ++ que s q) ->
  exec P s l = Some s' ->
  Permutation (subm s') (map fst (ran s') ++ Conserve.curs s' ++ que s' q).
Proof. intros q s l s'. exact (Conserve.ci_step An gv gq check_all q s l s'). Qed.
Print Assumptions c17_conservation_step.

(* ---- ThreadPool (scenario init_pool n: Init() with two workers, n x Execute, JoinAll()), every schedule, any n:
   the closures queued so far are exactly (as a multiset) those run, those in a worker's hand and those still queued;
   no closure id is queued twice and no closure is run twice; closures are run by the worker threads only, never
   by the thread that called Execute.  (The drained clause is c17_pool_drained below; the pool's wake-up invariant
   is not proved; the model has exactly two workers.) *)
Theorem c17_pool_exec_once_partial : forall n s, reach P (init_pool n) s ->
  Permutation (subm s) (map fst (ran s) ++ Conserve.curs s ++ que s PQ) /\
  NoDup (subm s) /\ NoDup (map fst (ran s)) /\
  (forall c, In c (subm s) -> fst c = 0) /\
  (forall c t, In (c, t) (ran s) -> t = 1 \/ t = 2).
Proof. exact Pool.pool_exec_once. Qed.
Print Assumptions c17_pool_exec_once_partial.

(* ---- ThreadPool, the drained clause, every schedule, any n.  Once both pthread_join calls of JoinAll() have returned
   (owner pc >= 41) -- in particular once the owner thread has finished -- both workers have finished, the queue is
   empty, the shutdown flag is set, no closure is in a worker's hand, and the closures run are exactly (as a multiset,
   and without repetition) the closures handed to Execute: every closure has run exactly once. *)
Theorem c17_pool_joined : forall n s, reach P (init_pool n) s -> (41 <=? pc (thr s 0)) = true ->
  stat (thr s 1) = Done /\ stat (thr s 2) = Done /\ que s PQ = [] /\ var s PSHUT = 1 /\ Conserve.curs s = [] /\
  Permutation (subm s) (map fst (ran s)) /\ NoDup (map fst (ran s)).
Proof. exact PoolFin.pool_joined. Qed.
Print Assumptions c17_pool_joined.

Theorem c17_pool_drained : forall n s, reach P (init_pool n) s -> stat (thr s 0) = Done ->
  stat (thr s 1) = Done /\ stat (thr s 2) = Done /\ que s PQ = [] /\ var s PSHUT = 1 /\ Conserve.curs s = [] /\
  Permutation (subm s) (map fst (ran s)) /\ NoDup (map fst (ran s)).
Proof. exact PoolFin.pool_drained. Qed.
Print Assumptions c17_pool_drained.

(* a worker leaves its loop only with the shutdown flag set and the queue empty (it never abandons queued work) *)
Theorem c17_pool_worker_exit : forall n s w, reach P (init_pool n) s -> w = 1 \/ w = 2 -> stat (thr s w) = Done ->
  que s PQ = [] /\ var s PSHUT = 1.
Proof. exact PoolFin.pool_worker_exit. Qed.
Print Assumptions c17_pool_worker_exit.

(* the invariant behind them: flags owned by the thread that calls Init/JoinAll, per-worker "past the empty-queue test
   => queue empty (and, past the shutdown test, shutdown set)" *)
Theorem c17_pool_invariant : forall n s, reach P (init_pool n) s -> PoolD.XD s.
Proof. exact PoolFin.pool_xd. Qed.
Print Assumptions c17_pool_invariant.

(* ---- ThreadPool with two-stage jobs (scenario init_poolre n r: as init_pool, but the first r closures call
   ThreadPool::Execute on the same pool when a worker runs them -- possibly after JoinAll() has set m_shutdown: Execute
   queues and signals regardless of m_shutdown), every schedule, any n and r: lock discipline, and conservation:
   closures handed in (by the owner or by a running closure) are exactly those run, in a worker's hand, or still
   queued; in particular none is dropped.  (The drained clause is c17_poolre_drained below; ex_poolre_late_followup shows
   the owner-first schedule, where the follow-up is handed in after shutdown began.) *)
Theorem c17_poolre_conserved : forall n r s, reach P (init_poolre n r) s ->
  Inv P An s /\ Permutation (subm s) (map fst (ran s) ++ Conserve.curs s ++ que s PQ).
Proof. exact PoolRe.poolre_conserved. Qed.
Print Assumptions c17_poolre_conserved.

(* ---- ThreadPool (init_pool n), the number of closures: from the moment JoinAll() is entered (owner pc >= 22) exactly n
   closures have been handed to Execute; when JoinAll() has returned exactly n closures have run, each of the n once. *)
Theorem c17_pool_submitted : forall n s, reach P (init_pool n) s -> (22 <=? pc (thr s 0)) = true -> length (subm s) = n.
Proof. exact PoolN.pool_submitted. Qed.
Print Assumptions c17_pool_submitted.

Theorem c17_pool_drained_count : forall n s, reach P (init_pool n) s -> stat (thr s 0) = Done ->
  length (subm s) = n /\ length (ran s) = n /\ que s PQ = [] /\
  Permutation (subm s) (map fst (ran s)) /\ NoDup (map fst (ran s)).
Proof. exact PoolN.pool_drained_count. Qed.
Print Assumptions c17_pool_drained_count.

(* ---- ThreadPool with two-stage jobs (init_poolre n r), the drained clause, every schedule, any n and r: once both joins
   of JoinAll() have returned (in particular once the owner has finished) both workers have finished, the queue is empty,
   m_shutdown is set, nothing is in a worker's hand, and the closures run are exactly -- as a multiset -- the closures
   handed in by the owner or by a running closure, including follow-ups handed in after m_shutdown was set.  A single
   finished worker does not imply an empty queue here; the invariant is "both workers past the shutdown test => queue
   empty" (c17_poolre_invariant).  With the uniqueness of the ids: c17_poolre_exactly_once below. *)
Theorem c17_poolre_joined : forall n r s, reach P (init_poolre n r) s -> (41 <=? pc (thr s 0)) = true ->
  stat (thr s 1) = Done /\ stat (thr s 2) = Done /\ que s PQ = [] /\ var s PSHUT = 1 /\ Conserve.curs s = [] /\
  Permutation (subm s) (map fst (ran s)).
Proof. exact PoolReFin.poolre_joined. Qed.
Print Assumptions c17_poolre_joined.

Theorem c17_poolre_drained : forall n r s, reach P (init_poolre n r) s -> stat (thr s 0) = Done ->
  stat (thr s 1) = Done /\ stat (thr s 2) = Done /\ que s PQ = [] /\ var s PSHUT = 1 /\ Conserve.curs s = [] /\
  Permutation (subm s) (map fst (ran s)).
Proof. exact PoolReFin.poolre_drained. Qed.
Print Assumptions c17_poolre_drained.

Theorem c17_poolre_invariant : forall n r s, reach P (init_poolre n r) s -> PoolReD.PLR s /\ PoolReD.XJ s.
Proof. exact PoolReFin.poolre_xj. Qed.
Print Assumptions c17_poolre_invariant.

(* ---- The wait queues are exact, for EVERY scenario and every schedule (and, in WaitQ.WQI_step, for every program): a
   thread is asleep on condition c iff it is in c's wait queue, and no wait queue holds a thread twice.  So a Signal on
   a condition with a sleeper always finds a non-empty queue and wakes a thread that really sleeps on that condition
   (ground work for the wake-up invariants, used by c17_pool_wakeup). *)
Theorem c17_waitq_exact : forall s0 s, initial s0 -> reach P s0 s ->
  (forall u c, (exists m, stat (thr s u) = Asleep c m) <-> In u (wq s c)) /\ (forall c, NoDup (wq s c)).
Proof. exact WaitQAll.waitq_exact. Qed.
Print Assumptions c17_waitq_exact.

Theorem c17_waitq_step : forall Pg s l s', WaitQ.WQI s -> exec Pg s l = Some s' -> WaitQ.WQI s'.
Proof. exact WaitQ.WQI_step. Qed.
Print Assumptions c17_waitq_step.

Theorem c17_sleeper_in_queue : forall s0 s u c m, initial s0 -> reach P s0 s ->
  stat (thr s u) = Asleep c m -> wq s c <> [].
Proof. exact WaitQAll.sleeper_in_queue. Qed.
Print Assumptions c17_sleeper_in_queue.

(* ---- A Future polled with IsComplete() by one thread while another thread calls Set() (scenario init_fut_poll k over
   the program table FutPoll.P2: the poller calls IsComplete() up to k times, then Get(); generic class and void
   specialisation have the same transcription), every schedule, any k: every access to m_ref_count / m_is_set / m_value
   -- in particular the read in IsComplete() -- is made by a thread that owns FutureImpl::m_mutex; lock discipline
   and exact wait queues.  The variant of IsComplete() that reads m_is_set without the mutex is rejected by the
   checker (c17_futpoll_unlocked_read_rejected).  NOT proved here: absence of use-after-free for this scenario
   (checked per enumerated schedule). *)
Theorem c17_futpoll_lockset : forall k s, reach FutPoll.P2 (FutPoll.init_fut_poll k) s ->
  forall t, stat (thr s t) = Ready ->
  (forall x m, acc_var (fetch FutPoll.P2 (thr s t)) = Some x -> gv x = Some m -> own s m = Some t) /\
  (forall q m, acc_que (fetch FutPoll.P2 (thr s t)) = Some q -> gq q = Some m -> own s m = Some t).
Proof. exact FutPoll.fpoll_lockset. Qed.
Print Assumptions c17_futpoll_lockset.

Theorem c17_futpoll_discipline : forall k s, reach FutPoll.P2 (FutPoll.init_fut_poll k) s ->
  Inv FutPoll.P2 FutPoll.An2 s /\ WaitQ.WQI s.
Proof. exact FutPoll.fpoll_discipline. Qed.
Print Assumptions c17_futpoll_discipline.

Theorem c17_futpoll_unlocked_read_rejected :
  check_prog gv gq FutPoll.p_fpoll_poller_unlocked ([n_; n_; n_; n_; n_; n_] ++ skipn 8 FutPoll.a_fpoll_poller) = false /\
  check_prog gv gq FutPoll.p_fpoll_poller_unlocked ([n_; n_; f_; n_; n_; n_] ++ skipn 8 FutPoll.a_fpoll_poller) = false /\
  acc_var (nth 2 FutPoll.p_fpoll_poller_unlocked IEnd) = Some ISSET /\ gv ISSET = Some FM.
Proof. exact FutPoll.unlocked_read_rejected. Qed.
Print Assumptions c17_futpoll_unlocked_read_rejected.

(* ---- ThreadPool (init_pool n), no lost wake-up and no deadlock of JoinAll(), every schedule, any n.
   c17_pool_wakeup: whenever a closure is queued, the owner is at the Signal that announces it (pc 19) or some worker is
   neither asleep nor finished -- a queued closure always has somebody who will take it (a finished worker or one past
   the shutdown test implies an empty queue by c17_pool_invariant).  It rests on the exact wait queues (c17_waitq_exact):
   the Signal wakes a thread that really sleeps on the pool's condition, and that thread is a worker.
   c17_pool_no_sleeper_after_shutdown: once JoinAll() has broadcast the shutdown (owner pc >= 25) no worker is asleep
   and none is between the shutdown test and the wait.  c17_pool_no_deadlock: the owner inside JoinAll() with both
   workers asleep is possible only before the broadcast (pc <= 24) and only with an empty queue; c17_pool_join_not_stuck:
   at the two pthread_join calls no worker sleeps.  (Termination itself -- fairness -- is not stated.) *)
Theorem c17_pool_wakeup : forall n s, reach P (init_pool n) s -> que s PQ <> [] ->
  pc (thr s 0) = 19 \/
  exists w, (w = 1 \/ w = 2) /\ (forall c m, stat (thr s w) <> Asleep c m) /\ stat (thr s w) <> Done.
Proof. exact PoolWake.pool_wakeup. Qed.
Print Assumptions c17_pool_wakeup.

Theorem c17_pool_no_sleeper_after_shutdown : forall n s, reach P (init_pool n) s -> (25 <=? pc (thr s 0)) = true ->
  forall w, w = 1 \/ w = 2 ->
  (forall c m, stat (thr s w) <> Asleep c m) /\ ~ (stat (thr s w) = Ready /\ pc (thr s w) = 12).
Proof. exact PoolWake2.pool_no_sleeper_after_shutdown. Qed.
Print Assumptions c17_pool_no_sleeper_after_shutdown.

Theorem c17_pool_no_deadlock : forall n s, reach P (init_pool n) s -> (22 <=? pc (thr s 0)) = true ->
  (exists c m, stat (thr s 1) = Asleep c m) -> (exists c m, stat (thr s 2) = Asleep c m) ->
  que s PQ = [] /\ (pc (thr s 0) <=? 24) = true.
Proof. exact PoolWake2.pool_no_deadlock. Qed.
Print Assumptions c17_pool_no_deadlock.

Theorem c17_pool_join_not_stuck : forall n s, reach P (init_pool n) s -> pc (thr s 0) = 31 \/ pc (thr s 0) = 40 ->
  forall w, w = 1 \/ w = 2 -> forall c m, stat (thr s w) <> Asleep c m.
Proof. exact PoolWake2.pool_join_not_stuck. Qed.
Print Assumptions c17_pool_join_not_stuck.

(* ---- The same for the ThreadPool with two-stage jobs (init_poolre n r), every schedule, any n and r: whenever a closure
   is queued -- also a follow-up handed in by a running closure, also after shutdown began -- the owner is at its Signal
   or some worker will test the queue again (it is not asleep, not finished and not past the shutdown test); after the
   shutdown broadcast no worker sleeps; the owner inside JoinAll() with both workers asleep: only before the broadcast
   and only with an empty queue. *)
Theorem c17_poolre_wakeup : forall n r s, reach P (init_poolre n r) s -> que s PQ <> [] ->
  pc (thr s 0) = 19 \/
  exists w, (w = 1 \/ w = 2) /\ (forall c m, stat (thr s w) <> Asleep c m) /\ stat (thr s w) <> Done /\
            ~ (stat (thr s w) = Ready /\ (pc (thr s w) = 19 \/ pc (thr s w) = 20)).
Proof. exact PoolReWake.poolre_wakeup. Qed.
Print Assumptions c17_poolre_wakeup.

Theorem c17_poolre_no_sleeper_after_shutdown : forall n r s, reach P (init_poolre n r) s ->
  (25 <=? pc (thr s 0)) = true -> forall w, w = 1 \/ w = 2 ->
  (forall c m, stat (thr s w) <> Asleep c m) /\ ~ (stat (thr s w) = Ready /\ pc (thr s w) = 17).
Proof. exact PoolReWake.poolre_no_sleeper_after_shutdown. Qed.
Print Assumptions c17_poolre_no_sleeper_after_shutdown.

Theorem c17_poolre_no_deadlock : forall n r s, reach P (init_poolre n r) s -> (22 <=? pc (thr s 0)) = true ->
  (exists c m, stat (thr s 1) = Asleep c m) -> (exists c m, stat (thr s 2) = Asleep c m) ->
  que s PQ = [] /\ (pc (thr s 0) <=? 24) = true.
Proof. exact PoolReWake.poolre_no_deadlock. Qed.
Print Assumptions c17_poolre_no_deadlock.

(* ---- ThreadPool with two-stage jobs: the closure ids are unique (owner ids = its counter values, follow-up ids = (worker
   id, that worker's own counter)), in every reachable state of every schedule; hence nothing is run twice, and when
   JoinAll() has returned every closure handed in -- by the owner or by a running closure, also after shutdown began --
   has run exactly once. *)
Theorem c17_poolre_nodup : forall n r s, reach P (init_poolre n r) s -> NoDup (subm s) /\ NoDup (map fst (ran s)).
Proof. exact PoolReUq.poolre_nodup. Qed.
Print Assumptions c17_poolre_nodup.

Theorem c17_poolre_exactly_once : forall n r s, reach P (init_poolre n r) s -> stat (thr s 0) = Done ->
  que s PQ = [] /\ Conserve.curs s = [] /\ NoDup (subm s) /\ NoDup (map fst (ran s)) /\
  (forall c, In c (subm s) <-> In c (map fst (ran s))) /\ length (ran s) = length (subm s).
Proof. exact PoolReUq.poolre_exactly_once. Qed.
Print Assumptions c17_poolre_exactly_once.

(* ---- ExecutorThread where callbacks call Execute again from inside the callback (scenario init_execre), every
   schedule, any number of producers / callbacks / re-submissions: callbacks are conserved (none duplicated, none
   lost).  PARTIAL: uniqueness of the ids and the drained-at-destruction clause are not proved for this scenario. *)
Theorem c17_execre_conserved_partial : forall lims rs s, reach P (init_execre lims rs) s ->
  Permutation (subm s) (map fst (ran s) ++ Conserve.curs s ++ que s Q).
Proof. exact ConserveAll.execre_conserved. Qed.
Print Assumptions c17_execre_conserved_partial.

Example ex_pool_state : exists s, reach P (init_pool 2) s /\ pc (thr s 0) = 3 /\ stat (thr s 1) = Fresh.
Proof.
  destruct (run_labels P (init_pool 2) [LStep 0 0; LStep 0 0; LStep 0 0; LStep 0 0]) as [s|] eqn:E; [|vm_compute in E; discriminate E].
  exists s. split; [exact (run_labels_reach P (init_pool 2) _ (init_pool 2) s (reach_refl P (init_pool 2)) E)|].
  vm_compute in E. inversion E; subst. split; reflexivity.
Qed.

(* the drained state is reachable: the hypothesis of c17_pool_drained is not vacuous *)
Example ex_pool_drained : exists s, reach P (init_pool 2) s /\ stat (thr s 0) = Done /\ length (ran s) = 2.
Proof. exact PoolFin.pool_drained_reachable. Qed.

(* a follow-up handed to the pool after JoinAll() set m_shutdown is still run exactly once (owner-first schedule) *)
Example ex_poolre_late_followup : exists s, reach P (init_poolre 1 1) s /\
  stat (thr s 0) = Done /\ stat (thr s 1) = Done /\ stat (thr s 2) = Done /\
  que s PQ = [] /\ subm s = [(0, 0); (1, 0)] /\ map fst (ran s) = [(0, 0); (1, 0)] /\ fault s = None.
Proof. exact PoolRe.poolre_late_followup_runs. Qed.

(* Future handle operations (scenario init_fut_asg): self-assignment is no operation; after g(f), g = f, h = f (which
   frees the state h owned, object 3), swap(g, h) and the copy for the setter the shared state has four holders; the run
   ends with both states freed and no use-after-free.  Witnesses by computation; all schedules are covered by
   c17_lockset / c17_lock_discipline (initial includes init_fut_asg) and per enumerated schedule by the check. *)
Example ex_futasg_refcount : exists s, reach P init_fut_asg s /\ pc (thr s 0) = 51 /\
  var s REF = 4 /\ alive s 1 = true /\ alive s 3 = false /\ fault s = None.
Proof. exact PoolRe.futasg_refcount. Qed.
Example ex_futasg_finishes : exists s, reach P init_fut_asg s /\
  stat (thr s 0) = Done /\ stat (thr s 1) = Done /\ alive s 1 = false /\ alive s 3 = false /\
  outs s = [(0, OUT_GET, THE_VALUE)] /\ fault s = None.
Proof. exact PoolRe.futasg_finishes. Qed.

Example ex_futpoll_finishes : exists s, reach FutPoll.P2 (FutPoll.init_fut_poll 3) s /\
  stat (thr s 0) = Done /\ stat (thr s 1) = Done /\ alive s 1 = false /\ outs s = [(1, OUT_GET, THE_VALUE)] /\ fault s = None.
Proof. exact FutPoll.fpoll_finishes. Qed.
