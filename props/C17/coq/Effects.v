(* C17.Effects: what one step of thread t can change, for any program table. *)
From Coq Require Import List Arith Bool Lia.
Import ListNotations.
From C17 Require Import Sem Progs.

Lemma with_stat_id th : with_stat th (stat th) = th.
Proof. destruct th; reflexivity. Qed.

Definition only_stat (a b : thread) : Prop := exists st, b = with_stat a st.
Lemma only_stat_refl a : only_stat a a.
Proof. exists (stat a). symmetry. apply with_stat_id. Qed.
Lemma only_stat_trans a b c : only_stat a b -> only_stat b c -> only_stat a c.
Proof. intros [x ->] [y ->]. exists y. destruct a; reflexivity. Qed.

Lemma wake_only s v u : only_stat (thr s u) (thr (wake s v) u).
Proof.
  unfold wake. destruct (stat (thr s v)) eqn:E; try apply only_stat_refl.
  cbn. unfold upd. destruct (Nat.eqb u v) eqn:Eu; [|apply only_stat_refl].
  apply Nat.eqb_eq in Eu. subst. eexists. reflexivity.
Qed.
Lemma wakes_only l : forall s u, only_stat (thr s u) (thr (fold_left wake l s) u).
Proof.
  induction l as [|v l IH]; intros s u; cbn [fold_left]; [apply only_stat_refl|].
  eapply only_stat_trans; [apply wake_only|apply IH].
Qed.
Lemma wake_ran s v : ran (wake s v) = ran s /\ subm (wake s v) = subm s /\ nthr (wake s v) = nthr s.
Proof. unfold wake. destruct (stat (thr s v)); repeat split; reflexivity. Qed.
Lemma wakes_ran l : forall s, ran (fold_left wake l s) = ran s /\ subm (fold_left wake l s) = subm s /\
  nthr (fold_left wake l s) = nthr s.
Proof.
  induction l as [|v l IH]; intros s; cbn [fold_left]; [repeat split; reflexivity|].
  destruct (IH (wake s v)) as (a & b & c). destruct (wake_ran s v) as (a' & b' & c'). repeat split; congruence.
Qed.

(* how a step of another thread can change a thread's status *)
Definition stat_evol (a b : status) : Prop :=
  b = a \/ (exists c m, a = Asleep c m /\ b = Woken m) \/ (a = NotStarted /\ b = Fresh).
Lemma stat_evol_refl a : stat_evol a a. Proof. left; reflexivity. Qed.
Lemma stat_evol_trans a b c : stat_evol a b -> stat_evol b c -> stat_evol a c.
Proof.
  intros [->|[(x & y & -> & ->)|[-> ->]]] H; [exact H| |].
  - destruct H as [->|[(x' & y' & X & _)|[X _]]]; [right; left; eauto|discriminate X|discriminate X].
  - destruct H as [->|[(x' & y' & X & _)|[X _]]]; [right; right; auto|discriminate X|discriminate X].
Qed.
Lemma wake_evol s v u : stat_evol (stat (thr s u)) (stat (thr (wake s v) u)).
Proof.
  unfold wake. destruct (stat (thr s v)) eqn:E; try apply stat_evol_refl.
  cbn. unfold upd. destruct (Nat.eqb u v) eqn:Eu; [|apply stat_evol_refl].
  apply Nat.eqb_eq in Eu. subst. cbn. rewrite E. right. left. eauto.
Qed.
Lemma wakes_evol l : forall s u, stat_evol (stat (thr s u)) (stat (thr (fold_left wake l s) u)).
Proof.
  induction l as [|v l IH]; intros s u; cbn [fold_left]; [apply stat_evol_refl|].
  eapply stat_evol_trans; [apply wake_evol|apply IH].
Qed.

Definition is_push (i : instr) : bool := match i with IPush _ | IPushR _ => true | _ => false end.
Definition is_run (i : instr) : bool := match i with IRun | IRunB _ | IRunC _ _ | IRunW _ _ _ => true | _ => false end.

Record effects (P : programs) (s s' : state) (t : tid) : Prop := mkEff {
  e_other : forall u, u <> t -> only_stat (thr s u) (thr s' u);
  e_stat : forall u, u <> t -> stat_evol (stat (thr s u)) (stat (thr s' u));
  e_nthr : nthr s' = nthr s;
  e_ran : ran s' = ran s \/ (exists c, ran s' = ran s ++ [(c, t)] /\ stat (thr s t) = Ready /\ is_run (fetch P (thr s t)) = true);
  e_subm : subm s' = subm s \/ (exists x, subm s' = subm s ++ [(t, x)] /\ stat (thr s t) = Ready /\ is_push (fetch P (thr s t)) = true)
}.

Ltac others t :=
  let u := fresh "u" in let Hu := fresh "Hu" in
  intros u Hu; cbn; unfold upd;
  repeat match goal with |- context [Nat.eqb ?a ?b] =>
    let E := fresh "E" in destruct (Nat.eqb a b) eqn:E; [apply Nat.eqb_eq in E; subst|] end;
  try contradiction; try congruence;
  first [ apply only_stat_refl
        | (eexists; reflexivity)
        | (eapply only_stat_trans; [|apply wake_only]; first [apply only_stat_refl | (eexists; reflexivity)])
        | apply wake_only | apply wakes_only
        | (eapply only_stat_trans; [|apply wakes_only]; first [apply only_stat_refl | (eexists; reflexivity)]) ].

Ltac evols t :=
  let u := fresh "u" in let Hu := fresh "Hu" in
  intros u Hu; cbn; unfold upd;
  repeat match goal with |- context [Nat.eqb ?a ?b] =>
    let E := fresh "E" in destruct (Nat.eqb a b) eqn:E; [apply Nat.eqb_eq in E; subst|] end;
  try contradiction; try congruence; cbn;
  first [ apply stat_evol_refl
        | apply wake_evol | apply wakes_evol
        | (right; right; split; [assumption|reflexivity])
        | (eapply stat_evol_trans; [|apply wake_evol]; apply stat_evol_refl)
        | (eapply stat_evol_trans; [|apply wakes_evol]; apply stat_evol_refl) ].

Lemma step_effects P s t k s' : exec P s (LStep t k) = Some s' -> effects P s s' t.
Proof.
  intros E. unfold exec in E. destruct (fault s); [discriminate|].
  destruct (negb (t <? nthr s)); [discriminate|].
  destruct (stat (thr s t)) eqn:Est; try discriminate.
  - inversion E; subst. constructor; [others t|evols t|reflexivity|left; reflexivity|left; reflexivity].
  - unfold exec_instr in E.
    destruct (fetch P (thr s t)) eqn:EI;
    repeat match type of E with
           | (if ?c then _ else _) = _ => destruct c eqn:?
           | match ?x with _ => _ end = _ => destruct x eqn:?
           end;
    try discriminate E; inversion E; subst; clear E;
    (constructor;
     [ others t
     | evols t
     | cbn; rewrite ?(proj2 (proj2 (wake_ran _ _))), ?(proj2 (proj2 (wakes_ran _ _))); reflexivity
     | cbn; rewrite ?(proj1 (wake_ran _ _)), ?(proj1 (wakes_ran _ _)); cbn;
       first [left; reflexivity | (right; eexists; split; [reflexivity|split; [exact Est|rewrite EI; reflexivity]])]
     | cbn; rewrite ?(proj1 (proj2 (wake_ran _ _))), ?(proj1 (proj2 (wakes_ran _ _))); cbn;
       first [left; reflexivity | (right; eexists; split; [reflexivity|split; [exact Est|rewrite EI; reflexivity]])] ]).
  - destruct (fetch P (thr s t)); try discriminate E. inversion E; subst.
    constructor; [others t|evols t|reflexivity|left; reflexivity|left; reflexivity].
  - destruct (negb (live s m)); [inversion E; subst; constructor; [others t|evols t|reflexivity|left; reflexivity|left; reflexivity]|].
    destruct (own s m); [discriminate|]. inversion E; subst.
    constructor; [others t|evols t|reflexivity|left; reflexivity|left; reflexivity].
Qed.

Lemma spur_effects P s t s' : exec P s (LSpur t) = Some s' ->
  (forall u, only_stat (thr s u) (thr s' u)) /\ (forall u, stat_evol (stat (thr s u)) (stat (thr s' u))) /\
  nthr s' = nthr s /\ ran s' = ran s /\ subm s' = subm s.
Proof.
  intros E. unfold exec in E. destruct (fault s); [discriminate|].
  destruct (negb (t <? nthr s)); [discriminate|].
  destruct (stat (thr s t)); try discriminate. inversion E; subst.
  destruct (wake_ran (set_wq s c (filter (fun u : nat => negb (u =? t)) (wq s c))) t) as (a & b & d).
  repeat split; [intros u; exact (wake_only (set_wq s c (filter (fun u0 : nat => negb (u0 =? t)) (wq s c))) t u)
               |intros u; exact (wake_evol (set_wq s c (filter (fun u0 : nat => negb (u0 =? t)) (wq s c))) t u)|exact d|exact a|exact b].
Qed.
