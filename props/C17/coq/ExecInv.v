(* C17.ExecInv: the ExecutorThread scenario (owner thread 0, ConsumerThread 1, N producers 2..N+1, any
   number of callbacks each): an invariant that describes every reachable state by the program
   counters/statuses of the owner and the consumer plus a local clause per producer. *)
From Coq Require Import List Arith Bool Lia.
Import ListNotations.
From C17 Require Import Sem Progs.

Definition inl (x : nat) (l : list nat) : bool := existsb (Nat.eqb x) l.
Definition is_ready (s : status) : bool := match s with Ready => true | _ => false end.
Definition is_asleep (s : status) : bool := match s with Asleep _ _ => true | _ => false end.
Definition is_ns (s : status) : bool := match s with NotStarted => true | _ => false end.
Definition is_done (s : status) : bool := match s with Done => true | _ => false end.
Definition ol (c : option cb) : list cb := match c with Some x => [x] | None => [] end.
Definition iscu (c : option cb) : bool := match c with Some _ => true | None => false end.

Definition norm0 (st : status) : status :=
  match st with Asleep _ _ => Asleep 1 1 | Woken _ => Woken 1 | x => x end.
Definition norm1 (st : status) : status :=
  match st with Asleep _ _ => Asleep 0 0 | Woken _ => Woken 0 | x => x end.

Definition st0_ok (p0 : nat) (st0 : status) : bool :=
  match st0 with
  | NotStarted => false
  | Fresh => p0 =? 0
  | Ready => p0 <=? 47
  | Asleep _ _ => p0 =? 4
  | Woken _ => p0 =? 4
  | Done => p0 =? 47
  end.
Definition st1_ok (p1 : nat) (st1 : status) : bool :=
  match st1 with
  | NotStarted => p1 =? 0
  | Fresh => p1 =? 0
  | Ready => p1 <=? 15
  | Asleep _ _ => p1 =? 12
  | Woken _ => p1 =? 12
  | Done => p1 =? 15
  end.
Definition mM (p0 : nat) (st0 : status) : bool := is_ready st0 && inl p0 [16;17;30;31;32;35;41;42;43;46].
Definition cM (p1 : nat) (st1 : status) : bool := is_ready st1 && inl p1 [5;6;7;10;11;12;13;14].
Definition mT (p0 : nat) (st0 : status) : bool := is_ready st0 && inl p0 [1;2;3;4;5;6;12;13;20;21;26;27].
Definition cT (p1 : nat) (st1 : status) : bool := is_ready st1 && inl p1 [1;2].
Definition cross (p0 : nat) (st0 : status) (p1 : nat) (st1 : status) : bool :=
  Bool.eqb (is_ns st1) (p0 <=? 2) && negb (mM p0 st0 && cM p1 st1) && negb (mT p0 st0 && cT p1 st1) &&
  implb (6 <=? p0) (2 <=? p1) && implb (25 <=? p0) (is_done st1) && implb (14 <=? p1) (17 <=? p0) &&
  implb (is_ready st1 && inl p1 [12]) (p0 <=? 15) &&
  implb (is_asleep st0) (p1 <=? 3) && implb (is_ready st0 && inl p0 [4]) (p1 <=? 1).
Definition ownT (p0 : nat) (st0 : status) (p1 : nat) (st1 : status) : option tid :=
  if mT p0 st0 then Some 0 else if cT p1 st1 then Some 1 else None.
Definition prodok (pp : nat) (stp : status) : bool :=
  match stp with
  | NotStarted | Fresh => pp =? 0
  | Ready => pp <=? 6
  | Done => pp =? 6
  | _ => false
  end.
Definition powns (pp : nat) (stp : status) : bool := is_ready stp && inl pp [2;3].
Definition created (p0 c0 i : nat) : bool :=
  if p0 <=? 7 then false else if p0 <=? 10 then i <? c0 else true.
Definition joined (p0 c0 i : nat) : bool :=
  if p0 <=? 36 then false else if p0 <=? 39 then i <? c0 else true.

Section Ex.
Variable lims : list nat.
Definition NP := length lims.

Definition regok (p0 r0 c0 l0 : nat) : Prop :=
  (inl p0 [13;14;21;22] = true -> r0 = 1) /\
  (inl p0 [8;9;10;37;38;39] = true -> l0 = NP /\ c0 <= NP) /\
  (inl p0 [9;38] = true -> c0 < NP) /\
  (inl p0 [0;1;2;24] = true -> c0 = 0).

Definition omok (om : option tid) (p0 : nat) (st0 : status) (p1 : nat) (st1 : status) : Prop :=
  (mM p0 st0 = true <-> om = Some 0) /\ (cM p1 st1 = true <-> om = Some 1).

Definition PRi (s : state) (p0 c0 : nat) (om : option tid) (i : nat) : Prop :=
  exists pp stp rp cp,
    thr s (2 + i) = mkT 2 pp stp rp cp (nth i lims 0) None /\
    prodok pp stp = true /\
    is_ns stp = negb (created p0 c0 i) /\
    (joined p0 c0 i = true -> stp = Done) /\
    (om = Some (2 + i) <-> powns pp stp = true) /\
    map snd (filter (fun c => fst c =? 2 + i) (subm s)) = seq 0 cp.

Definition qfacts (s : state) (p0 p1 : nat) (st1 : status) : Prop :=
  (p1 = 6 -> que s 0 <> []) /\ (inl p0 [31;42] = true -> que s 0 <> []) /\
  (inl p0 [46;47] = true -> que s 0 = []) /\
  (is_ready st1 && inl p1 [11;12] = true -> que s 0 = []).

(* the wake-up invariant: a consumer sleeping on the condition variable has nothing to do, or somebody
   is about to signal it *)
Definition pendp (s : state) (i : nat) : Prop :=
  stat (thr s (2 + i)) = Ready /\ inl (pc (thr s (2 + i))) [3;4] = true.
Definition wakeinv (s : state) (p0 : nat) (st0 st1 : status) : Prop :=
  is_asleep st1 = true ->
  (que s 0 = [] /\ (17 <=? p0) = false) \/ (is_ready st0 && inl p0 [17;18] = true) \/
  (exists i, i < NP /\ pendp s i).

Definition Rex (s : state) : Prop :=
  exists p0 st0 r0 c0 l0 cu0 p1 st1 r1 c1 l1 cu1 om,
    thr s 0 = mkT 0 p0 st0 r0 c0 l0 cu0 /\
    thr s 1 = mkT 1 p1 st1 r1 c1 l1 cu1 /\
    own s 0 = om /\
    nthr s = 2 + NP /\ pars s 0 = NP /\ fault s = None /\
    st0 = norm0 st0 /\ st1 = norm1 st1 /\
    st0_ok p0 st0 = true /\ st1_ok p1 st1 = true /\ cross p0 st0 p1 st1 = true /\
    regok p0 r0 c0 l0 /\
    iscu cu0 = inl p0 [32;33;43;44] /\ iscu cu1 = inl p1 [7;8] /\
    omok om p0 st0 p1 st1 /\
    (forall t, om = Some t -> t < 2 + NP) /\
    own s 1 = ownT p0 st0 p1 st1 /\
    (forall r, 2 <= r -> own s r = None) /\
    wq s 0 = (if is_asleep st1 then [1] else []) /\
    wq s 1 = (if is_asleep st0 then [0] else []) /\
    (forall r, 2 <= r -> wq s r = []) /\
    var s 0 = (if 17 <=? p0 then 1 else 0) /\
    var s 1 = (if (2 <=? p1) && (p0 <=? 26) then 1 else 0) /\
    (forall o, alive s o = true) /\
    qfacts s p0 p1 st1 /\ wakeinv s p0 st0 st1 /\
    subm s = map fst (ran s) ++ ol cu1 ++ ol cu0 ++ que s 0 /\
    (forall c t, In (c, t) (ran s) -> t <= 1) /\
    (forall c, In c (subm s) -> 2 <= fst c < 2 + NP) /\
    (forall i, i < NP -> PRi s p0 c0 om i).

Lemma Rex_init : Rex (init_exec lims).
Proof.
  unfold Rex. exists 0, Fresh, 0, 0, 0, None, 0, NotStarted, 0, 0, 0, None, None. cbn.
  repeat split; try reflexivity; try solve [intros; discriminate]; try solve [intros; reflexivity];
    try solve [intros ? ? []]; try solve [intros ? []]; try contradiction.
  - intros i Hi. unfold PRi. exists 0, NotStarted, 0, 0.
    apply Nat.ltb_lt in Hi. unfold NP in Hi.
    unfold init_exec, base_state. cbn [thr subm Nat.add]. rewrite Hi. cbn.
    repeat split; try reflexivity; intros; discriminate.
Qed.
End Ex.
