(* C17.ExecLive: deadlock freedom of the ExecutorThread scenario: in every reachable state in which the
   owner has not finished, some thread can take a (non-spurious) step. *)
From Coq Require Import List Arith Bool Lia.
Import ListNotations.
From C17 Require Import Sem Progs ExecInv ExecTac Exec.

Section L.
Variable lims : list nat.

Lemma prod_can_step s i : Rex lims s -> i < NP lims ->
  (stat (thr s (2 + i)) = Fresh \/ stat (thr s (2 + i)) = Ready) ->
  (pc (thr s (2 + i)) = 1 -> own s 0 = None) ->
  exists t pick s', exec P s (LStep t pick) = Some s'.
Proof.
  intros (p0 & st0 & r0 & c0 & l0 & cu0 & p1 & st1 & r1 & c1 & l1 & cu1 & om & Ht0 & Ht1 & HOM & Hn & Hpa & Hf &
          Hnm0 & Hnm1 & Hok0 & Hok1 & Hx & Hreg & Hc0 & Hc1 & Homok & Homlt & HOT & HownO & Hwq0 & Hwq1 & HwqO &
          Hv0 & Hv1 & Hal & Hq & HW & HG & Hran & Hsub & HPR) Hi Hst Hpc.
  exists (2 + i), 0.
  destruct (HPR i Hi) as (pp & stp & rp & cp & Hth & Hpk & _).
  unfold exec. rewrite Hf, Hn.
  assert (Hlt : (2 + i <? 2 + NP lims) = true) by (apply Nat.ltb_lt; lia).
  rewrite Hlt. cbn [negb]. rewrite Hth in *. cbn [stat pc] in *.
  destruct Hst as [Hst|Hst]; subst stp.
  - eexists. reflexivity.
  - cbn in Hpk.
    destruct pp as [|[|[|[|[|[|[|pp]]]]]]]; try discriminate Hpk; cbn;
      unfold live, obj_of, M, CV, Q; cbn; rewrite ?Hal; cbn; rewrite ?Hth; cbn.
    + eexists. reflexivity.
    + rewrite (Hpc eq_refl). eexists. reflexivity.
    + eexists. reflexivity.
    + destruct (own s 0) as [o|]; [destruct (o =? S (S i))|]; eexists; reflexivity.
    + destruct (wq s 0); eexists; reflexivity.
    + eexists. reflexivity.
    + eexists. reflexivity.
Qed.

Lemma owner_prod_steps s i : Rex lims s -> own s 0 = Some (S (S i)) ->
  exists t pick s', exec P s (LStep t pick) = Some s'.
Proof.
  intros HR EO. pose proof HR as HR'.
  destruct HR' as (p0 & st0 & r0 & c0 & l0 & cu0 & p1 & st1 & r1 & c1 & l1 & cu1 & om & Ht0 & Ht1 & HOM & Hn & Hpa & Hf &
          Hnm0 & Hnm1 & Hok0 & Hok1 & Hx & Hreg & Hc0 & Hc1 & Homok & Homlt & HOT & HownO & Hwq0 & Hwq1 & HwqO &
          Hv0 & Hv1 & Hal & Hq & HW & HG & Hran & Hsub & HPR).
  rewrite HOM in EO. pose proof (Homlt _ EO) as Hlt. assert (Hi : i < NP lims) by lia.
  destruct (HPR i Hi) as (pp & stp & rp & cp & Hth & Hpk & _ & _ & Hom & _).
  assert (Hp : powns pp stp = true) by (apply Hom; exact EO).
  unfold powns in Hp. apply andb_true_iff in Hp. destruct Hp as [Hp1 Hp2].
  destruct stp; try discriminate Hp1.
  apply (prod_can_step s i HR Hi).
  - right. rewrite Hth. reflexivity.
  - rewrite Hth. cbn. intros X. subst pp. discriminate Hp2.
Qed.

Lemma pending_steps s i : Rex lims s -> i < NP lims -> pendp s i ->
  exists t pick s', exec P s (LStep t pick) = Some s'.
Proof.
  intros HR Hi [Hs Hp]. apply (prod_can_step s i HR Hi).
  - right. exact Hs.
  - intros X. rewrite X in Hp. discriminate Hp.
Qed.

Lemma target_steps s i : Rex lims s -> i < NP lims ->
  (stat (thr s (2 + i)) = Fresh \/ stat (thr s (2 + i)) = Ready) ->
  (forall x, own s 0 = Some x -> 2 <= x) ->
  exists t pick s', exec P s (LStep t pick) = Some s'.
Proof.
  intros HR Hi Hst Hge. destruct (own s 0) as [x|] eqn:EO.
  - pose proof (Hge x eq_refl) as H2. destruct x as [|[|j]]; try lia. apply (owner_prod_steps s j HR EO).
  - apply (prod_can_step s i HR Hi Hst). intros _. exact EO.
Qed.

Theorem no_deadlock s : reach P (init_exec lims) s -> stat (thr s 0) <> Done ->
  exists t pick s', exec P s (LStep t pick) = Some s'.
Proof.
  intros R Hnd. apply Rex_reach in R. pose proof R as HR.
  destruct R as (p0 & st0 & r0 & c0 & l0 & cu0 & p1 & st1 & r1 & c1 & l1 & cu1 & om & Ht0 & Ht1 & HOM & Hn & Hpa & Hf &
          Hnm0 & Hnm1 & Hok0 & Hok1 & Hx & Hreg & Hc0 & Hc1 & Homok & Homlt & HOT & HownO & Hwq0 & Hwq1 & HwqO &
          Hv0 & Hv1 & Hal & Hq & HW & HG & Hran & Hsub & HPR).
  destruct (exec P s (LStep 0 0)) as [sa|] eqn:E0; [exists 0, 0, sa; exact E0|].
  destruct (exec P s (LStep 1 0)) as [sb|] eqn:E1; [exists 1, 0, sb; exact E1|].
  rewrite Ht0 in Hnd. cbn [stat] in Hnd.
  enum0 Hok0 p0 st0 Hnm0; try (exfalso; apply Hnd; reflexivity);
  enum1 Hok1 p1 st1 Hnm1; cbn in Hx; try discriminate Hx;
  cbn in Hreg, Homok, HOT, Hwq0, Hwq1, Hv0, Hv1; unfold wakeinv in HW; cbn in HW;
  destruct Hreg as (Hr1 & Hr2 & Hr3 & Hr4); destruct Homok as (Hm1 & Hm2);
  try (specialize (Hr3 eq_refl)); try (specialize (Hr4 eq_refl)); subst;
  try (assert (Xom : own s 0 = Some 0) by (apply Hm1; reflexivity));
  try (assert (Xom : own s 0 = Some 1) by (apply Hm2; reflexivity));
  unfold exec in E0; do 5 (unfold wake, live, obj_of, M, TM, CV, TC, SHUTDOWN, RUNNING, Q in E0; cbn in E0; rewrite ?Hf, ?Hn, ?Ht0, ?Ht1, ?Xom, ?HOT, ?Hwq0, ?Hwq1, ?Hv0, ?Hv1, ?Hal, ?Hpa in E0; repeat rewrite HownO in E0 by lia; repeat rewrite HwqO in E0 by lia); try discriminate E0; unfold exec in E1; do 5 (unfold wake, live, obj_of, M, TM, CV, TC, SHUTDOWN, RUNNING, Q in E1; cbn in E1; rewrite ?Hf, ?Hn, ?Ht0, ?Ht1, ?Xom, ?HOT, ?Hwq0, ?Hwq1, ?Hv0, ?Hv1, ?Hal, ?Hpa in E1; repeat rewrite HownO in E1 by lia; repeat rewrite HwqO in E1 by lia); try discriminate E1;
  try (match type of E0 with context [thr s (S (S ?k))] =>
         destruct (HPR k Hr3) as (ppc & stpc & rpc & cpc & Hthc & Hpkc & Hnsc & _);
         cbn in Hthc; unfold created in Hnsc; cbn in Hnsc; rewrite Hthc in E0; cbn in E0;
         destruct stpc; try discriminate E0; try discriminate Hnsc; try discriminate Hpkc end).
  all: try (match type of E1 with context [que ?ss 0] => destruct (que ss 0); discriminate E1 end).
  all: try (match type of E0 with context [que ?ss 0] => destruct (que ss 0); discriminate E0 end).
  all: try (match type of E0 with context [if ?c then _ else _] => destruct c; discriminate E0 end).
  all: try (match type of E1 with context [if ?c then _ else _] => destruct c; discriminate E1 end).
  all: try (destruct cu1; discriminate E1).
  all: try (destruct cu0; discriminate E0).
  all: first
    [ (destruct (own s 0) as [x|] eqn:EO; [|first [discriminate E0 | discriminate E1]];
       destruct x as [|[|ix]];
       [ destruct Hm1 as [_ Hc]; discriminate (Hc eq_refl)
       | destruct Hm2 as [_ Hc]; discriminate (Hc eq_refl)
       | exact (owner_prod_steps s ix HR EO) ])
    | (destruct (HW eq_refl) as [[_ HWv]|[HWp|[iw [HWi HWpd]]]];
       [ discriminate HWv | discriminate HWp | exact (pending_steps s iw HR HWi HWpd) ])
    | (apply (target_steps s c0 HR Hr3);
       [ cbn; rewrite Hthc; cbn; first [left; reflexivity | right; reflexivity]
       | intros x EO; destruct x as [|[|ix]]; [ destruct Hm1 as [_ Hc]; discriminate (Hc EO)
                                              | destruct Hm2 as [_ Hc]; discriminate (Hc EO) | lia ] ]) ].
Qed.
Theorem wakeup_inv s : reach P (init_exec lims) s -> is_asleep (stat (thr s 1)) = true ->
  (que s 0 = [] /\ var s 0 = 0) \/
  (stat (thr s 0) = Ready /\ inl (pc (thr s 0)) [17;18] = true) \/
  (exists i, i < length lims /\ pendp s i).
Proof.
  intros R Ha. apply Rex_reach in R.
  destruct R as (p0 & st0 & r0 & c0 & l0 & cu0 & p1 & st1 & r1 & c1 & l1 & cu1 & om & Ht0 & Ht1 & HOM & Hn & Hpa & Hf &
          Hnm0 & Hnm1 & Hok0 & Hok1 & Hx & Hreg & Hc0 & Hc1 & Homok & Homlt & HOT & HownO & Hwq0 & Hwq1 & HwqO &
          Hv0 & Hv1 & Hal & Hq & HW & HG & Hran & Hsub & HPR).
  rewrite Ht1 in Ha. cbn [stat] in Ha. rewrite Ht0. cbn [stat pc].
  destruct (HW Ha) as [[HWq HWv]|[HWp|HWe]].
  - left. split; [exact HWq|]. rewrite Hv0, HWv. reflexivity.
  - right. left. apply andb_true_iff in HWp. destruct HWp as [H1 H2].
    destruct st0; try discriminate H1. split; [reflexivity|exact H2].
  - right. right. exact HWe.
Qed.
End L.
