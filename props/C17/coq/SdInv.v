(* C17.SdInv: the SelectServer executor where one callback queues a callback and then calls DrainCallbacks()
   itself (program 21): invariant; the ghost relation is a PERMUTATION because a nested drain legitimately runs
   newer callbacks before the rest of the interrupted batch. *)
From Coq Require Import List Arith Bool Lia Permutation.
Import ListNotations.
From C17 Require Import Sem Progs ExecInv SsInv.

Definition d0_ok (p0 : nat) (st0 : status) : bool :=
  match st0 with
  | Fresh => p0 =? 0
  | Ready => p0 <=? 73
  | Done => p0 =? 73
  | _ => false
  end.
Definition dI (p0 : nat) (st0 : status) : bool :=
  is_ready st0 && inl p0 [10;11;16;17;21;22;25;26;27;32;33;36;43;44;45;50;51;55;56;59;60;61;66;67;70;72].
Definition djoined (p0 c0 i : nat) : bool :=
  if p0 <=? 38 then false else if p0 <=? 41 then i <? c0 else true.

Lemma perm_push (S A B C D E : list cb) x :
  Permutation S (A ++ B ++ C ++ D ++ E) -> Permutation (S ++ [x]) (A ++ B ++ C ++ D ++ (E ++ [x])).
Proof.
  intros H. replace (A ++ B ++ C ++ D ++ E ++ [x]) with ((A ++ B ++ C ++ D ++ E) ++ [x]).
  - apply Permutation_app_tail. exact H.
  - rewrite <- !app_assoc. reflexivity.
Qed.
Lemma perm_swap (S A B C D : list cb) :
  Permutation S (A ++ B ++ [] ++ C ++ D) -> Permutation S (A ++ B ++ D ++ C ++ []).
Proof.
  intros H. rewrite app_nil_r. cbn in H. eapply Permutation_trans; [exact H|].
  apply Permutation_app_head. apply Permutation_app_head. apply Permutation_app_comm.
Qed.

Section S.
Variable lims rs : list nat.
Variable kk : nat.

Definition dregok (p0 c0 l0 : nat) : Prop :=
  (inl p0 [1;2;3;39;40;41] = true -> l0 = (NS lims) /\ c0 <= (NS lims)) /\
  (inl p0 [2;40] = true -> c0 < (NS lims)).

Definition dPRi (s : state) (p0 c0 : nat) (om : option tid) (i : nat) : Prop :=
  exists pp stp rp cp,
    thr s (1 + i) = mkT 11 pp stp rp cp (nth i lims 0) None /\
    prodok pp stp = true /\
    is_ns stp = negb (screated p0 c0 i) /\
    (djoined p0 c0 i = true -> stp = Done) /\
    (om = Some (1 + i) <-> powns pp stp = true) /\
    map snd (filter (fun c => fst c =? 1 + i) (subm s)) = seq 0 cp.

Definition dqfacts (s : state) (p0 : nat) : Prop :=
  (inl p0 [0;1;2;3;4;5;6;7;8;9;10;38;39;40;41;42;43;44;72;73] = true -> que s 3 = []) /\
  (inl p0 [13;47] = true -> que s 3 <> []) /\
  (inl p0 [0;1;2;3;4;5;6;7;8;9;10;11;12;13;14;15;16;17;18;19;20;21;22;23;24;25;26;36;37;38;39;40;41;42;43;44;45;46;47;48;49;50;51;52;53;54;55;56;57;58;59;60;70;71;72;73] = true -> que s 4 = []) /\
  (inl p0 [29;63] = true -> que s 4 <> []) /\
  (inl p0 [72;73] = true -> que s 2 = []).

Definition Rsd (s : state) : Prop :=
  exists p0 st0 r0 c0 l0 cu0 om,
    thr s 0 = mkT 21 p0 st0 r0 c0 l0 cu0 /\
    own s 2 = om /\
    nthr s = 1 + (NS lims) /\ pars s 0 = (NS lims) /\ fault s = None /\
    d0_ok p0 st0 = true /\
    dregok p0 c0 l0 /\
    iscu cu0 = inl p0 [14;30;48;64] /\
    (dI p0 st0 = true <-> om = Some 0) /\
    (forall t, om = Some t -> t < 1 + (NS lims)) /\
    (forall r, r <> 2 -> own s r = None) /\
    (forall o, alive s o = true) /\
    pars s 98 = 1 /\ dqfacts s p0 /\
    Permutation (subm s) (map fst (ran s) ++ ol cu0 ++ que s 4 ++ que s 3 ++ que s 2) /\
    (forall c t, In (c, t) (ran s) -> t = 0) /\
    (forall c, In c (subm s) -> fst c < 1 + (NS lims)) /\
    map snd (filter (fun c => fst c =? 0) (subm s)) = seq 0 r0 /\
    (forall i, i < (NS lims) -> dPRi s p0 c0 om i).

Lemma Rsd_init : Rsd (init_ssd lims rs kk).
Proof.
  unfold Rsd. exists 0, Fresh, 0, 0, 0, None, None. cbn.
  repeat split; try reflexivity; try solve [intros; discriminate]; try solve [intros; reflexivity];
    try solve [intros ? ? []]; try solve [intros ? []]; try contradiction;
    try solve [intros XX; exfalso; apply XX; reflexivity]; try apply perm_nil.
  intros i Hi. unfold dPRi. exists 0, NotStarted, 0, 0.
  apply Nat.ltb_lt in Hi. unfold NS in Hi.
  unfold init_ssd, base_state. cbn [thr subm Nat.add]. rewrite Hi. cbn.
  repeat split; try reflexivity; intros; discriminate.
Qed.
End S.
