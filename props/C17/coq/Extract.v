From Coq Require Extraction.
From Coq Require Import ExtrOcamlBasic.
From OlaBase Require Import Bytes.
From C17 Require Import Sem Progs FutPoll.
Extraction Language OCaml.
Extraction "model.ml" io_witness N.div_eucl run P P_old init_exec init_fut_raw init_fut_copy init_ss init_execre init_periodic init_pool init_locker init_ssd init_prefs init_prefs2 init_prefsj init_term init_poolre init_fut_asg P2 init_fut_poll.
