(* C17.Ss: Rss is inductive over every label, hence holds in every reachable state of the SelectServer
   executor scenario; consequences (exactly once, order, drained at destruction, no deadlock). *)
From Coq Require Import List Arith Bool Lia.
Import ListNotations.
From C17 Require Import Sem Progs ExecInv ExecTac Exec SsInv SsMain SsProd.

Section E.
Variable lims rs : list nat.
Variable kk : nat.

Lemma ss_step_spur s t s' : Rss lims s -> exec P s (LSpur t) = Some s' -> Rss lims s'.
Proof.
  intros (p0 & st0 & r0 & c0 & l0 & cu0 & om & Ht0 & HOM & Hn & Hpa & Hf & Hok0 & Hreg & Hc0 & Hm1 & Homlt &
          HownO & Hal & Hq & HW & HG & Hran & Hsub & Hch & HPR) E.
  unfold exec in E. rewrite Hf, Hn in E.
  destruct (t <? 1 + NS lims) eqn:Elt; cbn [negb] in E; [|discriminate E].
  apply Nat.ltb_lt in Elt. destruct t as [|i].
  - rewrite Ht0 in E. cbn [stat] in E. destruct st0; try discriminate E; discriminate Hok0.
  - assert (Hi : i < NS lims) by lia.
    destruct (HPR i Hi) as (pp & stp & rp & cp & Hth & Hpk & _).
    cbn [Nat.add] in Hth. rewrite Hth in E. cbn [stat] in E.
    destruct stp; try discriminate E. cbn in Hpk. discriminate Hpk.
Qed.

Theorem Rss_step s l s' : Rss lims s -> exec P s l = Some s' -> Rss lims s'.
Proof.
  intros R E. destruct l as [t pick|t].
  - destruct t as [|i]; [eapply ss_step_main; eauto|eapply ss_step_prod; eauto].
  - eapply ss_step_spur; eauto.
Qed.

Theorem Rss_reach s : reach P (init_ss lims rs kk) s -> Rss lims s.
Proof.
  intros R. induction R as [|s s' R IH [l E]]; [apply Rss_init|]. eapply Rss_step; eauto.
Qed.

Theorem ss_exec_once s : reach P (init_ss lims rs kk) s ->
  fault s = None /\
  NoDup (subm s) /\
  (exists rest, subm s = map fst (ran s) ++ rest) /\
  (forall c t, In (c, t) (ran s) -> t = 0) /\
  (forall k, k < 1 + length lims -> exists n, map snd (filter (fun c => fst c =? k) (subm s)) = seq 0 n) /\
  (stat (thr s 0) = Done -> que s 2 = [] /\ map fst (ran s) = subm s /\
                            forall t, t < nthr s -> stat (thr s t) = Done).
Proof.
  intros R. apply Rss_reach in R.
  destruct R as (p0 & st0 & r0 & c0 & l0 & cu0 & om & Ht0 & HOM & Hn & Hpa & Hf & Hok0 & Hreg & Hc0 & Hm1 & Homlt &
          HownO & Hal & Hq & HW & HG & Hran & Hsub & Hch & HPR).
  assert (KEY : forall k, k < 1 + NS lims -> exists n, map snd (filter (fun c => fst c =? k) (subm s)) = seq 0 n).
  { intros k Hk. destruct k as [|i]; [eexists; exact Hch|].
    assert (Hi : i < NS lims) by lia.
    destruct (HPR i Hi) as (pp & stp & rp & cp & _ & _ & _ & _ & _ & Hsu). eexists. exact Hsu. }
  split; [exact Hf|]. split; [|split; [|split; [|split]]].
  - apply nodup_by_key. intros k.
    destruct (lt_dec k (1 + NS lims)) as [Hk|Hk].
    + destruct (KEY k Hk) as [n Hn']. rewrite Hn'. apply seq_NoDup.
    + rewrite filter_none; [constructor|]. intros c Hc. apply Hsub in Hc. lia.
  - eexists. exact HG.
  - exact Hran.
  - exact KEY.
  - intros Hd. rewrite Ht0 in Hd. cbn in Hd. subst st0.
    cbn in Hok0. apply Nat.eqb_eq in Hok0. subst p0.
    destruct Hq as (Hq1 & _ & Hq3). specialize (Hq1 eq_refl). specialize (Hq3 eq_refl).
    cbn in Hc0. destruct cu0; [discriminate Hc0|].
    split; [exact Hq3|]. split.
    + rewrite HG, Hq1, Hq3. cbn. rewrite app_nil_r. reflexivity.
    + intros t Ht. rewrite Hn in Ht. destruct t as [|i].
      * rewrite Ht0. reflexivity.
      * assert (Hi : i < NS lims) by lia.
        destruct (HPR i Hi) as (pp & stp & rp & cp & Hth & _ & _ & Hjn & _).
        cbn [Nat.add] in Hth. rewrite Hth. cbn. apply Hjn. reflexivity.
Qed.
(* no lost wake-up: queued callbacks are always announced or about to be looked at / announced *)
Theorem ss_no_lost_wakeup s : reach P (init_ss lims rs kk) s -> que s 2 <> [] ->
  var s 2 <> 0 \/ safe0 (pc (thr s 0)) = true \/ (exists i, i < length lims /\ spend s i).
Proof.
  intros R Hq0. apply Rss_reach in R.
  destruct R as (p0 & st0 & r0 & c0 & l0 & cu0 & om & Ht0 & HOM & Hn & Hpa & Hf & Hok0 & Hreg & Hc0 & Hm1 & Homlt &
          HownO & Hal & Hq & HW & HG & Hran & Hsub & Hch & HPR).
  rewrite Ht0. cbn [pc]. exact (HW Hq0).
Qed.

(* in particular: whenever the loop thread is about to sleep in poll() (pc 7) with an empty pipe while callbacks
   are queued, some producer is between its push and its pipe write, i.e. the wake-up is still on its way *)
Corollary ss_poll_not_lost s : reach P (init_ss lims rs kk) s -> que s 2 <> [] -> var s 2 = 0 ->
  pc (thr s 0) = 7 -> exists i, i < length lims /\ spend s i.
Proof.
  intros R Hq0 Hv Hp. destruct (ss_no_lost_wakeup s R Hq0) as [X|[X|X]]; [contradiction| |exact X].
  rewrite Hp in X. discriminate X.
Qed.
End E.
