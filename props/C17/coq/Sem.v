(* C17.Sem: a small machine whose schedules are explicit data.
   Global state: mutex owners, condition-variable wait queues, shared variables, callback
   queues, object liveness, per-thread pc/status/locals, ghost logs.  One atomic step per
   instruction; a step is chosen by a label (which thread, which waiter a signal wakes, or a
   SPURIOUS wake-up, which POSIX allows for pthread_cond_wait). *)
From Coq Require Import List Arith Bool Lia.
Import ListNotations.

Definition tid := nat.
Definition cb := (nat * nat)%type.          (* callback id = (submitting thread, sequence number) *)

Inductive instr :=
| ILock (m : nat)                 (* pthread_mutex_lock *)
| IUnlock (m : nat)               (* pthread_mutex_unlock *)
| IWait (c m : nat)               (* pthread_cond_wait: unlock m + sleep on c; after wake: relock m *)
| ISignal (c : nat)               (* pthread_cond_signal *)
| IBroadcast (c : nat)            (* pthread_cond_broadcast *)
| ICreateI (base : nat)           (* pthread_create of thread base+cnt; cnt++ *)
| IJoinI (base : nat)             (* pthread_join of thread base+cnt; cnt++ *)
| IWr (x v : nat)                 (* shared x := v *)
| IInc (x : nat)                  (* ++x *)
| IDec (x : nat)                  (* reg := --x *)
| ILd (x : nat)                   (* reg := x *)
| IBrVar (x v tgt : nat)          (* if (x == v) goto tgt *)
| IBrReg (v tgt : nat)            (* if (reg == v) goto tgt *)
| IPush (q : nat)                 (* queue.push(callback (self,cnt)); cnt++ *)
| IBrEmpty (q tgt : nat)          (* if (queue.empty()) goto tgt *)
| IPop (q : nat)                  (* cur = queue.front(); queue.pop() *)
| IRun                            (* cur->Run() *)
| IBrDone (tgt : nat)             (* if (cnt == lim) goto tgt *)
| IRst (l : nat)                  (* cnt := 0; lim := l-th scenario parameter (fixed at start) *)
| IJmp (tgt : nat)
| IFree (o : nat)                 (* delete object o (its mutexes/conds/vars are 8o..8o+7) *)
| IOut (k : nat)                  (* observation: the call k returned reg *)
| IEnd
(* added for the event loop's executor (SelectServer) *)
| ISwap (a b : nat)               (* std::vector::swap of two callback queues *)
| IRunB (tgt : nat)               (* cur->Run(); if the callback itself calls Execute() continue, else goto tgt *)
| IPushR (q : nat)                (* queue.push(callback (self,reg)); reg++   (Execute called from inside a callback) *)
| ICnt                            (* cnt++ *)
| ITimedWait (c m : nat)          (* pthread_cond_timedwait: as IWait, reg := 1 (signalled) / 0 (timed out) *)
| IPoll (x q tgt : nat)          (* select()/poll() on the wake-up pipe x: blocks while x = 0; may time out (goto tgt).
                                     q = the queue the pipe announces (used by the runner to flag a lost wake-up) *)
| IRunC (t1 t2 : nat)             (* cur->Run(); a callback that calls DrainCallbacks(): goto t2; one that calls Execute(): next; else goto t1 *)
| IRunW (x t0 t1 : nat).          (* cur->Run() on the preference saver: payload 0 = CompleteSynchronization (goto t0), 1 = SetTerminate
                                     (goto t1), v >= 2 = SavePreferencesToFile of the closure's own copy: x := v *)

Inductive status := NotStarted | Fresh | Ready | Asleep (c m : nat) | Woken (m : nat) | Done.

Record thread := mkT {
  prog : nat; pc : nat; stat : status; reg : nat; cnt : nat; lim : nat; cur : option cb }.

Inductive hazard := UseAfterFree | BadUnlock | BadCreate | DestroyBusy | NoCallback.

Record state := mkS {
  thr : tid -> thread;
  nthr : nat;
  own : nat -> option tid;
  wq : nat -> list tid;
  var : nat -> nat;
  que : nat -> list cb;
  alive : nat -> bool;
  ran : list (cb * tid);           (* ghost: callbacks run so far, oldest first *)
  subm : list cb;                  (* ghost: callbacks submitted so far, oldest first *)
  outs : list (tid * nat * nat);   (* ghost: observations *)
  pars : nat -> nat;               (* scenario parameters (read-only) *)
  fault : option hazard }.

Definition upd {A} (f : nat -> A) (k : nat) (v : A) : nat -> A :=
  fun x => if Nat.eqb x k then v else f x.

Definition obj_of (r : nat) : nat := r / 8.
Definition live (s : state) (r : nat) : bool := alive s (obj_of r).

Definition set_thr (s : state) (t : tid) (th : thread) : state :=
  mkS (upd (thr s) t th) (nthr s) (own s) (wq s) (var s) (que s) (alive s) (ran s) (subm s) (outs s) (pars s) (fault s).
Definition set_own (s : state) (m : nat) (o : option tid) : state :=
  mkS (thr s) (nthr s) (upd (own s) m o) (wq s) (var s) (que s) (alive s) (ran s) (subm s) (outs s) (pars s) (fault s).
Definition set_wq (s : state) (c : nat) (l : list tid) : state :=
  mkS (thr s) (nthr s) (own s) (upd (wq s) c l) (var s) (que s) (alive s) (ran s) (subm s) (outs s) (pars s) (fault s).
Definition set_var (s : state) (x v : nat) : state :=
  mkS (thr s) (nthr s) (own s) (wq s) (upd (var s) x v) (que s) (alive s) (ran s) (subm s) (outs s) (pars s) (fault s).
Definition set_que (s : state) (q : nat) (l : list cb) : state :=
  mkS (thr s) (nthr s) (own s) (wq s) (var s) (upd (que s) q l) (alive s) (ran s) (subm s) (outs s) (pars s) (fault s).
Definition set_alive (s : state) (o : nat) (b : bool) : state :=
  mkS (thr s) (nthr s) (own s) (wq s) (var s) (que s) (upd (alive s) o b) (ran s) (subm s) (outs s) (pars s) (fault s).
Definition add_ran (s : state) (e : cb * tid) : state :=
  mkS (thr s) (nthr s) (own s) (wq s) (var s) (que s) (alive s) (ran s ++ [e]) (subm s) (outs s) (pars s) (fault s).
Definition add_subm (s : state) (e : cb) : state :=
  mkS (thr s) (nthr s) (own s) (wq s) (var s) (que s) (alive s) (ran s) (subm s ++ [e]) (outs s) (pars s) (fault s).
Definition add_out (s : state) (e : tid * nat * nat) : state :=
  mkS (thr s) (nthr s) (own s) (wq s) (var s) (que s) (alive s) (ran s) (subm s) (outs s ++ [e]) (pars s) (fault s).
Definition set_fault (s : state) (h : hazard) : state :=
  mkS (thr s) (nthr s) (own s) (wq s) (var s) (que s) (alive s) (ran s) (subm s) (outs s) (pars s) (Some h).

Definition with_pc (th : thread) (p : nat) : thread :=
  mkT (prog th) p (stat th) (reg th) (cnt th) (lim th) (cur th).
Definition with_stat (th : thread) (st : status) : thread :=
  mkT (prog th) (pc th) st (reg th) (cnt th) (lim th) (cur th).
Definition with_reg (th : thread) (r : nat) : thread :=
  mkT (prog th) (pc th) (stat th) r (cnt th) (lim th) (cur th).
Definition with_cnt (th : thread) (c : nat) : thread :=
  mkT (prog th) (pc th) (stat th) (reg th) c (lim th) (cur th).
Definition with_cl (th : thread) (c l : nat) : thread :=
  mkT (prog th) (pc th) (stat th) (reg th) c l (cur th).
Definition with_cur (th : thread) (c : option cb) : thread :=
  mkT (prog th) (pc th) (stat th) (reg th) (cnt th) (lim th) c.
Definition next (th : thread) : thread := with_pc th (S (pc th)).

Definition programs := nat -> list instr.
Definition fetch (P : programs) (th : thread) : instr := nth (pc th) (P (prog th)) IEnd.

Fixpoint remove_nth {A} (n : nat) (l : list A) : list A :=
  match l, n with
  | [], _ => []
  | _ :: r, 0 => r
  | x :: r, S k => x :: remove_nth k r
  end.

(* wake thread u (asleep on some condition with mutex m): it must re-acquire m *)
Definition wake (s : state) (u : tid) : state :=
  match stat (thr s u) with
  | Asleep _ m => set_thr s u (with_stat (thr s u) (Woken m))
  | _ => s
  end.

Definition busy8 (s : state) (o : nat) : bool :=
  existsb (fun r => match own s r with Some _ => true | None => false end
                    || negb (match wq s r with [] => true | _ => false end))
          (map (fun i => 8 * o + i) (seq 0 8)).

(* does callback c call Execute() again when it is run? (scenario parameter 100 + submitter) *)
Definition resub (s : state) (c : cb) : bool := snd c <? pars s (100 + fst c).

(* is c the (single) callback that queues a callback and then calls DrainCallbacks() itself? *)
Definition isdrain (s : state) (c : cb) : bool :=
  Nat.eqb (pars s 98) 1 && Nat.eqb (fst c) 1 && Nat.eqb (snd c) 0.

(* one instruction of a Ready thread t; pick = which waiter a signal wakes *)
Definition exec_instr (s : state) (t : tid) (pick : nat) (i : instr) : option state :=
  let th := thr s t in
  let adv s' := Some (set_thr s' t (next (thr s' t))) in
  let uaf := Some (set_fault s UseAfterFree) in
  match i with
  | ILock m =>
      if negb (live s m) then uaf else
      match own s m with
      | None => adv (set_own s m (Some t))
      | Some _ => None                                 (* blocked (also when t itself owns m) *)
      end
  | IUnlock m =>
      if negb (live s m) then uaf else
      match own s m with
      | Some o => if Nat.eqb o t then adv (set_own s m None) else Some (set_fault s BadUnlock)
      | None => Some (set_fault s BadUnlock)
      end
  | IWait c m =>
      if negb (live s c && live s m) then uaf else
      match own s m with
      | Some o => if Nat.eqb o t
                  then Some (set_thr (set_wq (set_own s m None) c (wq s c ++ [t])) t
                                     (with_stat th (Asleep c m)))
                  else Some (set_fault s BadUnlock)
      | None => Some (set_fault s BadUnlock)
      end
  | ISignal c =>
      if negb (live s c) then uaf else
      match wq s c with
      | [] => adv s
      | l => let k := pick mod length l in
             adv (wake (set_wq s c (remove_nth k l)) (nth k l 0))
      end
  | IBroadcast c =>
      if negb (live s c) then uaf else
      adv (fold_left wake (wq s c) (set_wq s c []))
  | ICreateI base =>
      let u := base + cnt th in
      match stat (thr s u) with
      | NotStarted =>
          let s1 := set_thr s u (with_stat (thr s u) Fresh) in
          Some (set_thr s1 t (next (with_cnt (thr s1 t) (S (cnt th)))))
      | _ => Some (set_fault s BadCreate)
      end
  | IJoinI base =>
      let u := base + cnt th in
      match stat (thr s u) with
      | Done => Some (set_thr s t (next (with_cnt th (S (cnt th)))))
      | _ => None
      end
  | IWr x v => if negb (live s x) then uaf else adv (set_var s x v)
  | IInc x => if negb (live s x) then uaf else adv (set_var s x (S (var s x)))
  | IDec x => if negb (live s x) then uaf else
      let v := pred (var s x) in
      Some (set_thr (set_var s x v) t (next (with_reg th v)))
  | ILd x => if negb (live s x) then uaf else Some (set_thr s t (next (with_reg th (var s x))))
  | IBrVar x v tgt => if negb (live s x) then uaf else
      Some (set_thr s t (if Nat.eqb (var s x) v then with_pc th tgt else next th))
  | IBrReg v tgt => Some (set_thr s t (if Nat.eqb (reg th) v then with_pc th tgt else next th))
  | IPush q => if negb (live s q) then uaf else
      let c := (t, cnt th) in
      Some (set_thr (add_subm (set_que s q (que s q ++ [c])) c) t (next (with_cnt th (S (cnt th)))))
  | IBrEmpty q tgt => if negb (live s q) then uaf else
      Some (set_thr s t (match que s q with [] => with_pc th tgt | _ => next th end))
  | IPop q => if negb (live s q) then uaf else
      match que s q with
      | [] => Some (set_fault s NoCallback)
      | c :: r => Some (set_thr (set_que s q r) t (next (with_cur th (Some c))))
      end
  | IRun =>
      match cur th with
      | None => Some (set_fault s NoCallback)
      | Some c => Some (set_thr (add_ran s (c, t)) t (next (with_cur th None)))
      end
  | IBrDone tgt => Some (set_thr s t (if Nat.eqb (cnt th) (lim th) then with_pc th tgt else next th))
  | IRst l => Some (set_thr s t (next (with_cl th 0 (pars s l))))
  | IJmp tgt => Some (set_thr s t (with_pc th tgt))
  | IFree o =>
      if negb (alive s o) then uaf else
      if busy8 s o then Some (set_fault s DestroyBusy) else adv (set_alive s o false)
  | IOut k => adv (add_out s (t, k, reg th))
  | IEnd => Some (set_thr s t (with_stat th Done))
  | ISwap a b => if negb (live s a && live s b) then uaf else
      adv (set_que (set_que s a (que s b)) b (que s a))
  | IRunB tgt =>
      match cur th with
      | None => Some (set_fault s NoCallback)
      | Some c => Some (set_thr (add_ran s (c, t)) t
                          (if resub s c then next (with_cur th None) else with_pc (with_cur th None) tgt))
      end
  | IPushR q => if negb (live s q) then uaf else
      let c := (t, reg th) in
      Some (set_thr (add_subm (set_que s q (que s q ++ [c])) c) t (next (with_reg th (S (reg th)))))
  | ICnt => Some (set_thr s t (next (with_cnt th (S (cnt th)))))
  | ITimedWait c m =>
      if negb (live s c && live s m) then uaf else
      match own s m with
      | Some o => if Nat.eqb o t
                  then Some (set_thr (set_wq (set_own s m None) c (wq s c ++ [t])) t
                                     (with_reg (with_stat th (Asleep c m)) 1))
                  else Some (set_fault s BadUnlock)
      | None => Some (set_fault s BadUnlock)
      end
  | IRunC t1 t2 =>
      match cur th with
      | None => Some (set_fault s NoCallback)
      | Some c => Some (set_thr (add_ran s (c, t)) t
                          (if isdrain s c then with_pc (with_cur th None) t2
                           else if resub s c then next (with_cur th None) else with_pc (with_cur th None) t1))
      end
  | IRunW x t0 t1 =>
      if negb (live s x) then uaf else
      match cur th with
      | None => Some (set_fault s NoCallback)
      | Some c =>
          match snd c with
          | 0 => Some (set_thr (add_ran s (c, t)) t (with_pc (with_cur th None) t0))
          | 1 => Some (set_thr (add_ran s (c, t)) t (with_pc (with_cur th None) t1))
          | v => Some (set_thr (add_ran (set_var s x v) (c, t)) t (next (with_cur th None)))
          end
      end
  | IPoll x q tgt =>
      if negb (live s x) then uaf else
      if Nat.eqb (var s x) 0
      then (if Nat.eqb pick 0 then None else Some (set_thr s t (with_pc th tgt)))
      else adv s
  end.

Inductive label := LStep (t : tid) (pick : nat) | LSpur (t : tid).

Definition exec (P : programs) (s : state) (l : label) : option state :=
  match fault s with Some _ => None | None =>
  match l with
  | LStep t pick =>
      if negb (t <? nthr s) then None else
      let th := thr s t in
      match stat th with
      | Fresh => Some (set_thr s t (with_stat th Ready))
      | Ready => exec_instr s t pick (fetch P th)
      | Woken m =>
          if negb (live s m) then Some (set_fault s UseAfterFree) else
          match own s m with
          | None => Some (set_thr (set_own s m (Some t)) t (next (with_stat th Ready)))
          | Some _ => None
          end
      | Asleep c m =>
          (* a timed wait may time out at any moment: the thread leaves the wait queue with reg = 0 *)
          match fetch P th with
          | ITimedWait _ _ =>
              Some (set_thr (set_wq s c (filter (fun u => negb (Nat.eqb u t)) (wq s c))) t
                            (with_reg (with_stat th (Woken m)) 0))
          | _ => None
          end
      | _ => None
      end
  | LSpur t =>
      if negb (t <? nthr s) then None else
      match stat (thr s t) with
      | Asleep c m => Some (wake (set_wq s c (filter (fun u => negb (Nat.eqb u t)) (wq s c))) t)
      | _ => None
      end
  end end.

(* the transition relation and reachability: ALL schedules *)
Definition step (P : programs) (s s' : state) : Prop := exists l, exec P s l = Some s'.

Inductive reach (P : programs) (s0 : state) : state -> Prop :=
| reach_refl : reach P s0 s0
| reach_step s s' : reach P s0 s -> step P s s' -> reach P s0 s'.

Fixpoint run_labels (P : programs) (s : state) (ls : list label) : option state :=
  match ls with
  | [] => Some s
  | l :: r => match exec P s l with Some s' => run_labels P s' r | None => None end
  end.

Lemma run_labels_reach P s0 ls : forall s s', reach P s0 s -> run_labels P s ls = Some s' -> reach P s0 s'.
Proof.
  induction ls as [|l r IH]; cbn [run_labels]; intros s s' R H.
  - inversion H; subst; exact R.
  - destruct (exec P s l) eqn:E; [|discriminate].
    eapply IH; [|exact H]. eapply reach_step; [exact R|]. exists l; exact E.
Qed.

(* ------------------------------------------------------------------ deterministic runner
   (used by the correspondence check): scheduling points are the synchronisation
   operations only, exactly as in the cooperative scheduler of the harness. *)
Definition is_sync (i : instr) : bool :=
  match i with
  | ILock _ | IUnlock _ | IWait _ _ | ISignal _ | IBroadcast _ | ICreateI _ | IJoinI _ | ITimedWait _ _ | IPoll _ _ _ => true
  | _ => false
  end.

Definition can_run (P : programs) (s : state) (t : tid) : bool :=
  let th := thr s t in
  match stat th with
  | Fresh => true
  | Woken m => match own s m with None => true | Some _ => false end
  | Ready =>
      match fetch P th with
      | ILock m => match own s m with None => true | Some _ => negb (live s m) end
      | IJoinI base => match stat (thr s (base + cnt th)) with Done => true | _ => false end
      | IPoll x _ _ => negb (Nat.eqb (var s x) 0)
      | _ => true
      end
  | _ => false
  end.

Definition enabled (P : programs) (s : state) : list tid := filter (can_run P s) (seq 0 (nthr s)).
Definition sleepers (s : state) : list tid :=
  filter (fun t => match stat (thr s t) with Asleep _ _ => true | _ => false end) (seq 0 (nthr s)).
Definition all_done (s : state) : bool :=
  forallb (fun t => match stat (thr s t) with Done | NotStarted => true | _ => false end) (seq 0 (nthr s)).

(* run the thread-local (non-synchronising) instructions of t up to its next sync operation *)
Fixpoint silent (P : programs) (fuel : nat) (s : state) (t : tid) : state :=
  match fuel with
  | 0 => s
  | S f =>
      match fault s, stat (thr s t) with
      | None, Ready =>
          let i := fetch P (thr s t) in
          if is_sync i then s else
          match exec_instr s t 0 i with
          | Some s' => silent P f s' t
          | None => s
          end
      | _, _ => s
      end
  end.

(* event: (thread, kind, a, b); kinds: 0 G(begin) 1 L 2 U 3 W 4 R(relock after wake) 5 S 6 B 7 C 8 J 9 Z(spurious) *)
Definition event := (tid * nat * nat * nat)%type.

Definition event_of (P : programs) (s : state) (t : tid) : event :=
  let th := thr s t in
  match stat th with
  | Fresh => (t, 0, 0, 0)
  | Woken m => (t, 4, m, 0)
  | Asleep _ _ => (t, 13, 0, 0)
  | _ =>
      match fetch P th with
      | ILock m => (t, 1, m, 0)
      | IUnlock m => (t, 2, m, 0)
      | IWait c m => (t, 3, c, m)
      | ISignal c => (t, 5, c, 0)
      | IBroadcast c => (t, 6, c, 0)
      | ICreateI b => (t, 7, b + cnt th, 0)
      | IJoinI b => (t, 8, b + cnt th, 0)
      | ITimedWait c m => (t, 12, c, m)
      | IPoll x _ _ => if Nat.eqb (var s x) 0 then (t, 15, 0, 0) else (t, 14, 0, 0)
      | _ => (t, 10, 0, 0)
      end
  end.

Inductive outcome := Finished | Deadlock | Faulted (h : hazard) | OutOfFuel | LostWakeup.

(* Scheduling points of the runner = of the cooperative scheduler in the harness: before every
   synchronisation operation, and once more right AFTER every unlock (event Y), so that another thread can run
   between an unlock and whatever the unlocking thread does next.  yl = threads that owe that Y step.
   A thread asleep in a timed wait is always schedulable (time-out, event T); such threads come after the
   really enabled ones.
   schedule entry c: c < 500: run the (c mod n)-th schedulable thread, a signal wakes waiter c / n;
   500 <= c < 1000: keep running the thread that ran last if it is really enabled, otherwise the
   ((c-500) mod n1)-th really enabled one, otherwise the first time-out; c >= 1000: spurious wake-up of a
   sleeper.  An exhausted schedule continues with 500. *)
Definition tmo_able (P : programs) (s : state) (t : tid) : bool :=
  match stat (thr s t) with
  | Asleep _ _ => match fetch P (thr s t) with ITimedWait _ _ => true | _ => false end
  | Ready => match fetch P (thr s t) with IPoll x _ _ => Nat.eqb (var s x) 0 | _ => false end
  | _ => false
  end.
(* the loop thread sleeps in poll() with an empty wake-up pipe although callbacks are queued *)
Definition poll_lost (P : programs) (s : state) (t : tid) : bool :=
  match stat (thr s t) with
  | Ready => match fetch P (thr s t) with
             | IPoll x q _ => Nat.eqb (var s x) 0 && negb (match que s q with [] => true | _ => false end)
             | _ => false
             end
  | _ => false
  end.
Definition inb (t : tid) (l : list tid) : bool := existsb (Nat.eqb t) l.

Fixpoint run (P : programs) (fuel : nat) (s : state) (sched : list nat) (last : tid) (yl : list tid)
  (acc : list event) : state * list event * outcome :=
  match fuel with
  | 0 => (s, rev acc, OutOfFuel)
  | S f =>
      match fault s with
      | Some h => (s, rev acc, Faulted h)
      | None =>
          let c := hd 500 sched in
          let rest := tl sched in
          if 1000 <=? c then
            match sleepers s with
            | [] => run P f s rest last yl acc
            | sl => let t := nth ((c - 1000) mod length sl) sl 0 in
                    match exec P s (LSpur t) with
                    | Some s' => run P f s' rest last yl ((t, 9, 0, 0) :: acc)
                    | None => (s, rev acc, OutOfFuel)
                    end
            end
          else
            let en1 := filter (fun t => inb t yl || can_run P s t) (seq 0 (nthr s)) in
            let en2 := filter (tmo_able P s) (seq 0 (nthr s)) in
            match en1 ++ en2 with
            | [] => (s, rev acc, if all_done s then Finished else Deadlock)
            | en =>
                if (match en1 with [] => true | _ => false end) && existsb (poll_lost P s) en2
                then (s, rev acc, LostWakeup) else
                    let n := length en in
                    let t := if 500 <=? c
                             then (if inb last en1 then last
                                   else match en1 with
                                        | [] => hd 0 en2
                                        | _ => nth ((c - 500) mod length en1) en1 0
                                        end)
                             else nth (c mod n) en 0 in
                    let pick := if tmo_able P s t then 1 else if 500 <=? c then 0 else c / n in
                    if inb t yl then
                      run P f (silent P 200 s t) rest t (filter (fun u => negb (Nat.eqb u t)) yl) ((t, 11, 0, 0) :: acc)
                    else
                      let ev := event_of P s t in
                      match exec P s (LStep t pick) with
                      | Some s' =>
                          match ev with
                          | (_, 2, _, _) => run P f s' rest t (t :: yl) (ev :: acc)
                          | _ => run P f (silent P 200 s' t) rest t yl (ev :: acc)
                          end
                      | None => (s, rev acc, OutOfFuel)
                      end
            end
      end
  end.
