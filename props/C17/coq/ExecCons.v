From Coq Require Import List Arith Bool Lia.
Import ListNotations.
From C17 Require Import Sem Progs ExecInv ExecTac.

Section M.
Variable lims : list nat.

Ltac prA HPR :=
  let i := fresh "i" in let Hi := fresh "Hi" in
  intros i Hi;
  try match goal with EBR : (_ =? _) = true |- _ => apply Nat.eqb_eq in EBR end;
  try match goal with EBR : (_ =? _) = false |- _ => apply Nat.eqb_neq in EBR end;
  destruct (HPR i Hi) as (pp & stp & rp & cp & Hth & Hpk & Hns & Hjn & Hom & Hsu);
  unfold created, joined in Hns, Hjn;
  cbn -[Nat.ltb] in Hth, Hns, Hjn, Hom;
  unfold PRi, created, joined; cbn -[Nat.ltb]; unfold upd; cbn -[Nat.ltb];
  try (match goal with Hc : thr _ (S (S ?k)) = _ |- _ =>
         tryif constr_eq k i then fail else
         (let Eik := fresh "Eik" in
          destruct (Nat.eq_dec i k) as [Eik|Eik];
          [subst i; rewrite ?Nat.eqb_refl | rewrite ?(proj2 (Nat.eqb_neq i k) Eik)]) end);
  try (match goal with Hc : thr ?ss ?x = _ , Hh : thr ?ss ?x = _ |- _ => rewrite Hc in Hh; inversion Hh; subst end);
  cbn -[Nat.ltb] in Hom;
  try (match goal with Xo : own _ 0 = Some _ |- _ => rewrite Xo in Hom; try rewrite Xo end);
  repeat (match goal with Hc : thr ?ss ?x = _ |- context [thr ?ss ?x] => rewrite Hc end); cbn -[Nat.ltb];
  do 4 eexists; (split; [reflexivity|]).
Ltac prB :=
  (split; [first [assumption | reflexivity | match goal with H : prodok ?a _ = true |- prodok ?a _ = true => exact H end]|]).
Ltac prC :=
  (split; [match goal with Hns : is_ns _ = _ |- _ => first [exact Hns | reflexivity
                 | (rewrite Hns; f_equal; symmetry; apply Nat.ltb_lt; lia)
                 | (rewrite Hns; f_equal; apply Nat.ltb_ge; lia)
                 | (rewrite Hns; apply negb_false_iff; apply Nat.ltb_lt; lia)
                 | (rewrite Hns; apply negb_true_iff; apply Nat.ltb_ge; lia)
                 | (symmetry; apply negb_true_iff; apply Nat.ltb_ge; lia)
                 | (symmetry; apply negb_false_iff; apply Nat.ltb_lt; lia)
                 | (rewrite Hns; f_equal; apply ltb_S_ne; assumption) ] end|]).
Ltac prD :=
  (split; [first [(intros X; discriminate X) | (intros _; reflexivity) | match goal with Hjn : _ -> _ = Done |- _ => first [exact Hjn 
                 | (intros X; apply Hjn; apply Nat.ltb_lt; lia)
                 | (intros X; apply Hjn; apply Nat.ltb_lt; apply Nat.ltb_lt in X; lia)
                 | (intros X; apply Nat.ltb_lt in X; lia) ] end]|]).
Ltac prE :=
  (split; [match goal with Hom : _ = Some _ <-> _ |- _ => omfix Hom end | assumption]).

Lemma step_cons s pick s' : Rex lims s -> exec P s (LStep 1 pick) = Some s' -> Rex lims s'.
Proof.
  intros  (p0 & st0 & r0 & c0 & l0 & cu0 & p1 & st1 & r1 & c1 & l1 & cu1 & om & Ht0 & Ht1 & HOM & Hn & Hpa & Hf &
          Hnm0 & Hnm1 & Hok0 & Hok1 & Hx & Hreg & Hc0 & Hc1 & Homok & Homlt & HOT & HownO & Hwq0 & Hwq1 & HwqO &
          Hv0 & Hv1 & Hal & Hq & HW & HG & Hran & Hsub & HPR) E.
  unfold exec in E. rewrite Hf, Hn in E. cbn [Nat.ltb Nat.leb Nat.add negb] in E.
  rewrite Ht1 in E. cbn [stat] in E.
  enum0 Hok0 p0 st0 Hnm0;
  enum1 Hok1 p1 st1 Hnm1;
  cbn in Hx; try discriminate Hx; try discriminate E;
  cbn in Hreg, Hc0, Hc1, Homok, HOT, Hwq0, Hwq1, Hv0, Hv1, Hq; unfold wakeinv in HW; cbn in HW;
  destruct Hreg as (Hr1 & Hr2 & Hr3 & Hr4); destruct Homok as (Hm1 & Hm2); destruct Hq as (Hq1 & Hq2 & Hq3 & Hq4);
  try (specialize (Hr1 eq_refl)); try (destruct (Hr2 eq_refl) as [Hr2a Hr2b]); try (specialize (Hr3 eq_refl));
  try (specialize (Hr4 eq_refl)); try (specialize (Hq1 eq_refl)); try (specialize (Hq2 eq_refl)); try (specialize (Hq3 eq_refl)); try (specialize (Hq4 eq_refl));
  subst;
  (destruct cu0; try discriminate Hc0); (destruct cu1; try discriminate Hc1);
  try (assert (Xom : own s 0 = Some 0) by (apply Hm1; reflexivity));
  try (assert (Xom : own s 0 = Some 1) by (apply Hm2; reflexivity));
  do 4 (unfold wake, live, obj_of, M, TM, CV, TC, SHUTDOWN, RUNNING, Q in E; cbn in E; rewrite ?Ht0, ?Ht1, ?Xom, ?HOT, ?Hwq0, ?Hwq1, ?Hv0, ?Hv1, ?Hal, ?Hpa in E;
        repeat rewrite HownO in E by lia; repeat rewrite HwqO in E by lia);
  try (match type of E with context [thr s (S (S ?k))] =>
         let Hk := fresh "Hk" in assert (Hk : k < NP lims) by lia;
         destruct (HPR k Hk) as (ppc & stpc & rpc & cpc & Hthc & Hpkc & Hnsc & Hjnc & Homc & Hsubc);
         cbn in Hthc; unfold created in Hnsc; cbn [Nat.leb] in Hnsc; rewrite ?Nat.ltb_irrefl in Hnsc; cbn in Hnsc; rewrite Hthc in E; cbn in E;
         destruct stpc; try discriminate Hnsc; try discriminate E end);
  try discriminate E;
  try (destruct (own s 0) eqn:EOM; [discriminate E|]);
  try (match type of E with context [que s 0] => destruct (que s 0) as [|cq rq] eqn:EQ; [try discriminate E; try congruence|] end);
  try (match type of E with context [if ?c then _ else _] => destruct c eqn:EBR end);
  try discriminate E.
  all: inversion E; subst s'; clear E.
  all: unfold Rex; do 13 eexists; do 3 (cbn; unfold wake, upd; cbn; rewrite ?Ht0, ?Ht1); cbn.
  all: (split; [reflexivity|]); (split; [reflexivity|]); (split; [try reflexivity|]).
  all: (split; [exact Hn|]); (split; [exact Hpa|]); (split; [exact Hf|]); (split; [reflexivity|]); (split; [reflexivity|]).
  all: (split; [reflexivity|]); (split; [reflexivity|]); (split; [reflexivity|]).
  all: (split; [ unfold regok; cbn; (split; [|split; [|split]]); intros XX; try discriminate XX; try split; try reflexivity; try assumption;
                 try (apply Nat.eqb_neq in EBR); try (apply Nat.eqb_eq in EBR); try lia |]).
  all: (split; [reflexivity|]); (split; [reflexivity|]).
  all: (split; [ unfold omok; cbn; split; [omfix Hm1 | omfix Hm2] |]).
  all: (split; [ first [exact Homlt | (intros tt Xt; cbn in Xt; first [discriminate Xt | (inversion Xt; lia)])] |]).
  all: (split; [ cbn; rewrite ?HOT; reflexivity |]).
  all: (split; [ intros rr Hrr; destruct rr as [|[|rr]]; try lia; cbn; apply HownO; lia |]).
  all: (split; [ cbn; rewrite ?Hwq0, ?Hwq1; reflexivity |]).
  all: (split; [ cbn; rewrite ?Hwq0, ?Hwq1; reflexivity |]).
  all: (split; [ intros rr Hrr; destruct rr as [|[|rr]]; try lia; cbn; apply HwqO; lia |]).
  all: (split; [ cbn; rewrite ?Hv0, ?Hv1; reflexivity |]).
  all: (split; [ cbn; rewrite ?Hv0, ?Hv1; reflexivity |]).
  all: (split; [ exact Hal |]).
  all: (split; [ unfold qfacts; cbn; rewrite ?EQ; (split; [|split; [|split]]); intros XX; try discriminate XX; try assumption; try reflexivity; try congruence |]).
  all: (split; [ unfold wakeinv; cbn;
                 first [ (intros XX; discriminate XX)
                       | (intros _; right; left; reflexivity)
                       | (intros _; left; split; [first [assumption | reflexivity | (rewrite ?EQ; reflexivity)] | reflexivity])
                       | (intros _; destruct (HW eq_refl) as [[HWq HWv]|[HWp|[iw [HWi [HWs HWpc]]]]];
                          [ first [discriminate HWv | (left; split; [exact HWq | reflexivity])]
                          | first [discriminate HWp | (right; left; reflexivity)]
                          | right; right; exists iw; split; [exact HWi|]; unfold pendp; cbn; unfold upd; cbn;
                            try (match goal with Hc : thr _ (S (S ?k)) = _ |- context [Nat.eqb iw ?k] =>
                                   let EW := fresh "EW" in destruct (Nat.eqb iw k) eqn:EW;
                                   [apply Nat.eqb_eq in EW; subst iw; cbn in HWs; rewrite Hc in HWs; discriminate HWs|] end);
                            split; [exact HWs|exact HWpc] ]) ] |]).
  all: (split; [ cbn; rewrite ?map_app; cbn; rewrite ?EQ in *; rewrite HG; cbn; rewrite <- ?app_assoc; reflexivity |]).
  all: (split; [ first [exact Hran | (intros cc tt Hin; apply in_app_or in Hin; destruct Hin as [Hin|[Hin|[]]]; [eapply Hran; exact Hin | inversion Hin; lia])] |]).
  all: refine (conj Hsub _).
  all: prA HPR.
  all: prB.
  all: prC.
  all: prD.
  all: prE.
Qed.
End M.
