From Coq Require Import List Arith Bool Lia.
Import ListNotations.
From C17 Require Import Sem Progs PerInv.

Ltac finish Ht0 Ht1 HoT HoP HownO Hw1 Hw4 HwqO Hv1 Hv4 Hal Houts :=
  unfold Rp; do 10 eexists; cbn;
  rewrite ?Ht0, ?Ht1; cbn;
  (split; [reflexivity|]); (split; [reflexivity|]);
  rewrite ?HoT, ?HoP, ?Hw1, ?Hw4, ?Hv1, ?Hv4; cbn;
  repeat split; try reflexivity; try assumption; try solve [intros; discriminate]; try solve [intros; reflexivity];
  try ptwise; try (outsg Houts).

Lemma per_spur0 s  s' : Rp s -> exec P s (LSpur 0) = Some s' ->
  Rp s' /\ (var s 4 = 1 -> var s' 4 = 1 /\ length (outs s') + pot s' <= length (outs s) + pot s).
Proof.
  intros (p0 & st0 & r0 & c0 & l0 & p1 & st1 & r1 & c1 & l1 & Ht0 & Ht1 & Hn & Hf & Hnm0 & Hnm1 & Hok &
          HoT & HoP & HownO & Hw1 & Hw4 & HwqO & Hv1 & Hv4 & Hal & Houts) E.
  unfold pot. rewrite Ht1. cbn [pc stat reg].
  unfold exec in E. rewrite Hf, Hn in E. cbn [Nat.ltb Nat.leb negb] in E.
  rewrite Ht0 in E. cbn [stat] in E.
  enum Hok Hnm0 Hnm1 p0 st0 r0 c0 p1 st1 r1;
  simp_in E Ht0 Ht1 HoT HoP HownO Hw1 Hw4 HwqO Hv1 Hv4 Hal;
  try discriminate;
  (inversion E; subst s'; clear E);
  (split; [finish Ht0 Ht1 HoT HoP HownO Hw1 Hw4 HwqO Hv1 Hv4 Hal Houts
          | cbn; unfold upd; cbn; rewrite ?Ht1, ?Hv4; cbn; intros X; try discriminate X; (split; [reflexivity|rewrite ?app_length; cbn; lia])]).
Qed.
