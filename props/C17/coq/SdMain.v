From Coq Require Import List Arith Bool Lia Permutation.
Import ListNotations.
From C17 Require Import Sem Progs ExecInv ExecTac SsInv SdInv.

Section M.
Variable lims rs : list nat.
Variable kk : nat.

Ltac prA HPR :=
  let i := fresh "i" in let Hi := fresh "Hi" in
  intros i Hi;
  try match goal with EBR : (_ =? _) = true |- _ => apply Nat.eqb_eq in EBR end;
  try match goal with EBR : (_ =? _) = false |- _ => apply Nat.eqb_neq in EBR end;
  destruct (HPR i Hi) as (pp & stp & rp & cp & Hth & Hpk & Hns & Hjn & Hom & Hsu);
  unfold screated, djoined in Hns, Hjn;
  cbn -[Nat.ltb] in Hth, Hns, Hjn, Hom;
  unfold dPRi, screated, djoined; cbn -[Nat.ltb]; unfold upd; cbn -[Nat.ltb];
  try (match goal with Hc : thr _ (S ?k) = _ |- _ =>
         tryif constr_eq k i then fail else
         (let Eik := fresh "Eik" in
          destruct (Nat.eq_dec i k) as [Eik|Eik];
          [subst i; rewrite ?Nat.eqb_refl | rewrite ?(proj2 (Nat.eqb_neq i k) Eik)]) end);
  try (match goal with Hc : thr ?ss ?x = _ , Hh : thr ?ss ?x = _ |- _ => rewrite Hc in Hh; inversion Hh; subst end);
  cbn -[Nat.ltb] in Hom;
  try (match goal with Xo : own _ 2 = Some _ |- _ => rewrite Xo in Hom; try rewrite Xo end);
  repeat (match goal with Hc : thr ?ss ?x = _ |- context [thr ?ss ?x] => rewrite Hc end); cbn -[Nat.ltb];
  do 4 eexists; (split; [reflexivity|]).
Ltac prB :=
  (split; [first [assumption | reflexivity | match goal with H : prodok ?a _ = true |- prodok ?a _ = true => exact H end]|]).
Ltac prC :=
  (split; [match goal with Hns : is_ns _ = _ |- _ => first [exact Hns | reflexivity
                 | (rewrite Hns; f_equal; symmetry; apply Nat.ltb_lt; lia)
                 | (rewrite Hns; f_equal; apply Nat.ltb_ge; lia)
                 | (rewrite Hns; apply negb_false_iff; apply Nat.ltb_lt; lia)
                 | (rewrite Hns; apply negb_true_iff; apply Nat.ltb_ge; lia)
                 | (symmetry; apply negb_true_iff; apply Nat.ltb_ge; lia)
                 | (symmetry; apply negb_false_iff; apply Nat.ltb_lt; lia)
                 | (rewrite Hns; f_equal; apply ltb_S_ne; assumption) ] end|]).
Ltac prD :=
  (split; [first [(intros X; discriminate X) | (intros _; reflexivity) | match goal with Hjn : _ -> _ = Done |- _ => first [exact Hjn
                 | (intros X; apply Hjn; apply Nat.ltb_lt; lia)
                 | (intros X; apply Hjn; apply Nat.ltb_lt; apply Nat.ltb_lt in X; lia)
                 | (intros X; apply Nat.ltb_lt in X; lia) ] end]|]).
Ltac prE :=
  (split; [match goal with Hom : _ = Some _ <-> _ |- _ => omfix Hom end
          | first [assumption | (rewrite filt_push_other by lia; assumption)]]).

Lemma sd_step_main s pick s' : Rsd lims s -> exec P s (LStep 0 pick) = Some s' -> Rsd lims s'.
Proof.
  intros (p0 & st0 & r0 & c0 & l0 & cu0 & om & Ht0 & HOM & Hn & Hpa & Hf & Hok0 & Hreg & Hc0 & Hm1 & Homlt &
          HownO & Hal & Hp98 & Hq & HG & Hran & Hsub & Hch & HPR) E.
  unfold exec in E. rewrite Hf, Hn in E. cbn [Nat.ltb Nat.leb Nat.add negb] in E.
  rewrite Ht0 in E. cbn [stat] in E.
  unfold d0_ok in Hok0; destruct st0; try discriminate Hok0;
  [ apply Nat.eqb_eq in Hok0; subst p0
  | destruct p0 as [|[|[|[|[|[|[|[|[|[|[|[|[|[|[|[|[|[|[|[|[|[|[|[|[|[|[|[|[|[|[|[|[|[|[|[|[|[|[|[|[|[|[|[|[|[|[|[|[|[|[|[|[|[|[|[|[|[|[|[|[|[|[|[|[|[|[|[|[|[|[|[|[|[|p0]]]]]]]]]]]]]]]]]]]]]]]]]]]]]]]]]]]]]]]]]]]]]]]]]]]]]]]]]]]]]]]]]]]]]]]]]]; try (cbn in Hok0; discriminate Hok0)
  | apply Nat.eqb_eq in Hok0; subst p0 ];
  try discriminate E;
  cbn in Hreg, Hc0, Hm1, Hq;
  destruct Hreg as (Hr2 & Hr3); destruct Hq as (Hq1 & Hq2 & Hq3 & Hq4 & Hq5);
  try (destruct (Hr2 eq_refl) as [Hr2a Hr2b]); try (specialize (Hr3 eq_refl));
  try (specialize (Hq1 eq_refl)); try (specialize (Hq2 eq_refl)); try (specialize (Hq3 eq_refl)); try (specialize (Hq4 eq_refl)); try (specialize (Hq5 eq_refl));
  subst;
  (destruct cu0; try discriminate Hc0);
  try (assert (Xom : own s 2 = Some 0) by (apply Hm1; reflexivity));
  do 4 (unfold live, obj_of, IM, INQ, LOC, LOC2, PIPE, isdrain in E; cbn in E; rewrite ?Ht0, ?Xom, ?Hal, ?Hpa, ?Hp98 in E; try (rewrite Hq1 in E by fail); try (rewrite Hq3 in E by fail); try (rewrite Hq5 in E by fail);
        repeat rewrite HownO in E by lia);
  try (match type of E with context [thr s (S ?k)] =>
         let Hk := fresh "Hk" in assert (Hk : k < NS lims) by lia;
         destruct (HPR k Hk) as (ppc & stpc & rpc & cpc & Hthc & Hpkc & Hnsc & Hjnc & Homc & Hsubc);
         cbn in Hthc; unfold screated in Hnsc; cbn [Nat.leb] in Hnsc; rewrite ?Nat.ltb_irrefl in Hnsc; cbn in Hnsc; rewrite Hthc in E; cbn in E;
         destruct stpc; try discriminate Hnsc; try discriminate E end);
  try discriminate E;
  try (destruct (own s 2) eqn:EOM; [discriminate E|]);
  try (match type of E with context [match que s 3 with _ => _ end] => destruct (que s 3) as [|cq rq] eqn:EQ; [try discriminate E; try congruence|] end);
  try (match type of E with context [match que s 4 with _ => _ end] => destruct (que s 4) as [|cq4 rq4] eqn:EQ4; [try discriminate E; try congruence|] end);
  try (match type of E with context [match que s 2 with _ => _ end] => destruct (que s 2) as [|cq2 rq2] eqn:EQ2 end);
  try (match type of E with context [if ?c then _ else _] => destruct c eqn:EBR end);
  try (match type of E with context [if ?c then _ else _] => destruct c eqn:EBR2 end);
  try discriminate E.
  all: inversion E; subst s'; clear E.
  all: unfold Rsd; do 7 eexists; do 3 (cbn; unfold upd; cbn; rewrite ?Ht0); cbn.
  all: (split; [reflexivity|]); (split; [try reflexivity|]).
  all: (split; [exact Hn|]); (split; [exact Hpa|]); (split; [exact Hf|]); (split; [reflexivity|]).
  all: (split; [ unfold dregok; cbn; split; intros XX; try discriminate XX; try split; try reflexivity; try assumption;
                 try (apply Nat.eqb_neq in EBR); try (apply Nat.eqb_eq in EBR); try lia |]).
  all: (split; [reflexivity|]).
  all: (split; [ cbn; omfix Hm1 |]).
  all: (split; [ first [exact Homlt | (intros tt Xt; cbn in Xt; first [discriminate Xt | (inversion Xt; lia)])] |]).
  all: (split; [ intros rr Hrr; destruct rr as [|[|[|rr]]]; try lia; cbn; apply HownO; lia |]).
  all: (split; [ exact Hal |]).
  all: (split; [ exact Hp98 |]).
  all: (split; [ unfold dqfacts; cbn; rewrite ?EQ, ?EQ2, ?EQ4; try (rewrite Hq1 by fail); try (rewrite Hq3 by fail); try (rewrite Hq5 by fail);
                 (split; [|split; [|split; [|split]]]); intros XX; try discriminate XX; try assumption; try reflexivity; try congruence |]).
  all: (split; [ cbn; rewrite ?map_app; cbn; rewrite ?EQ, ?EQ2, ?EQ4 in *;
                 try (rewrite Hq1 in * by fail); try (rewrite Hq3 in * by fail); try (rewrite Hq5 in * by fail); cbn in HG; cbn;
                 first [ exact HG
                       | (rewrite <- ?app_assoc; cbn; exact HG)
                       | (rewrite ?app_nil_r; exact HG)
                       | (rewrite !app_assoc; apply Permutation_app_tail; rewrite <- !app_assoc; exact HG)
                       | (apply perm_swap; exact HG)
                       | (apply (perm_swap _ (map fst (ran s)) []); exact HG) ] |]).
  all: (split; [ first [exact Hran | (intros cc tt Hin; apply in_app_or in Hin; destruct Hin as [Hin|[Hin|[]]]; [eapply Hran; exact Hin | inversion Hin; reflexivity])] |]).
  all: (split; [ first [exact Hsub | (intros cc Hin; apply in_app_or in Hin; destruct Hin as [Hin|[Hin|[]]]; [apply Hsub; exact Hin | subst cc; cbn; lia])] |]).
  all: (split; [ first [exact Hch | (apply filt_push; exact Hch)] |]).
  all: prA HPR.
  all: prB.
  all: prC.
  all: prD.
  all: prE.
Qed.
End M.
