From Coq Require Import List Arith Bool Lia.
Import ListNotations.
From C17 Require Import Sem Progs ExecInv ExecTac.

Section Pr.
Variable lims : list nat.

Ltac sp := match goal with |- _ /\ _ => split; [|sp] | _ => idtac end.

Lemma inl4647 p0 c0 i : inl p0 [46;47] = true -> joined p0 c0 i = true.
Proof.
  unfold inl. cbn. rewrite !orb_true_iff, !Nat.eqb_eq. intros [X|[X|X]]; try discriminate; subst; reflexivity.
Qed.

Lemma filt_push k (l : list cb) n :
  map snd (filter (fun c => fst c =? k) l) = seq 0 n ->
  map snd (filter (fun c => fst c =? k) (l ++ [(k, n)])) = seq 0 (S n).
Proof.
  intros H. rewrite seq_S, filter_app, map_app. f_equal; [exact H|]. cbn. rewrite Nat.eqb_refl. reflexivity.
Qed.
Lemma filt_push_other k k' (l : list cb) x : k' <> k ->
  map snd (filter (fun c => fst c =? k) (l ++ [(k', x)])) = map snd (filter (fun c => fst c =? k) l).
Proof.
  intros H. rewrite filter_app, map_app. cbn. apply Nat.eqb_neq in H. rewrite H. cbn. apply app_nil_r.
Qed.

Lemma cross_woken p0 st0 p1 c m m' : cross p0 st0 p1 (Asleep c m) = cross p0 st0 p1 (Woken m').
Proof. reflexivity. Qed.

Ltac wframe HW Hth i :=
  let X := fresh "X" in
  intros X; destruct (HW X) as [HWa|[HWb|[jw [HWj [HWs HWp]]]]];
  [ left; exact HWa | right; left; exact HWb
  | right; right; exists jw; split; [exact HWj|]; unfold pendp; cbn; unfold upd; cbn;
    destruct (Nat.eqb jw i) eqn:EW;
    [ apply Nat.eqb_eq in EW; subst jw; cbn in HWp, HWs; rewrite Hth in HWp, HWs; cbn in HWp, HWs; first [discriminate HWs | discriminate HWp]
    | split; [exact HWs|exact HWp] ] ].
Ltac wnew Hi i :=
  intros _; right; right; exists i; split; [exact Hi|]; unfold pendp; cbn; unfold upd; cbn;
  rewrite Nat.eqb_refl; cbn; split; reflexivity.

Lemma c1112 p1 st1 : is_ready st1 && inl p1 [11;12] = true -> cM p1 st1 = true.
Proof.
  unfold cM. destruct (is_ready st1); [|discriminate]. cbn [andb]. intros H.
  unfold inl in H. cbn in H. rewrite !orb_true_iff, !Nat.eqb_eq in H.
  destruct H as [X|[X|X]]; try discriminate; subst; reflexivity.
Qed.

Lemma step_prod s i pick s' : Rex lims s -> exec P s (LStep (S (S i)) pick) = Some s' -> Rex lims s'.
Proof.
  intros (p0 & st0 & r0 & c0 & l0 & cu0 & p1 & st1 & r1 & c1 & l1 & cu1 & om & Ht0 & Ht1 & HOM & Hn & Hpa & Hf &
          Hnm0 & Hnm1 & Hok0 & Hok1 & Hx & Hreg & Hc0 & Hc1 & Homok & Homlt & HOT & HownO & Hwq0 & Hwq1 & HwqO &
          Hv0 & Hv1 & Hal & Hq & HW & HG & Hran & Hsub & HPR) E.
  unfold exec in E. rewrite Hf, Hn in E.
  destruct (S (S i) <? 2 + NP lims) eqn:Elt; cbn [negb] in E; [|discriminate E].
  apply Nat.ltb_lt in Elt. assert (Hi : i < NP lims) by lia.
  destruct (HPR i Hi) as (pp & stp & rp & cp & Hth & Hpk & Hns & Hjn & Hom & Hsu).
  cbn [Nat.add] in Hth. rewrite Hth in E. cbn [stat] in E.
  destruct Homok as (Hm1 & Hm2). destruct Hq as (Hq1 & Hq2 & Hq3 & Hq4).
  assert (OTH : forall om', (om' = om \/ (om = None /\ om' = Some (S (S i))) \/ (om = Some (S (S i)) /\ om' = None)) ->
                forall j, j < NP lims -> j <> i -> forall sx, thr sx (2 + j) = thr s (2 + j) -> subm sx = subm s ->
                PRi lims sx p0 c0 om' j).
  { intros om' Hom' j Hj Hji sx Hsx Hsm. destruct (HPR j Hj) as (ppj & stpj & rpj & cpj & Hthj & Hpkj & Hnsj & Hjnj & Homj & Hsuj).
    exists ppj, stpj, rpj, cpj. rewrite Hsx, Hsm. sp; auto.
    destruct Hom' as [->|[[-> ->]|[-> ->]]]; [exact Homj| |].
    - split; intro X; [inversion X; lia|apply Homj in X; discriminate X].
    - split; intro X; [discriminate X|apply Homj in X; inversion X; lia]. }
  destruct stp; try discriminate E; try (cbn in Hpk; discriminate Hpk).
  - (* Fresh -> Ready *)
    inversion E; subst s'; clear E.
    unfold Rex. exists p0, st0, r0, c0, l0, cu0, p1, st1, r1, c1, l1, cu1, om. cbn. unfold upd. cbn.
    sp; auto; try (wframe HW Hth i).
    + split; assumption.
    + split; [|split; [|split]]; assumption.
    + intros j Hj. destruct (Nat.eq_dec j i) as [->|Hji].
      * exists pp, Ready, rp, cp. cbn. unfold upd. cbn. rewrite ?Nat.eqb_refl. cbn in Hpk. apply Nat.eqb_eq in Hpk. subst pp.
        sp; auto; try exact Hns; try (intros X; apply Hjn in X; discriminate X);
          try (split; intro X; [apply Hom in X; discriminate X|discriminate X]).
      * apply (OTH om (or_introl eq_refl) j Hj Hji); [|reflexivity].
        cbn. unfold upd. cbn. destruct (Nat.eqb j i) eqn:EE; [apply Nat.eqb_eq in EE; lia|reflexivity].
  - (* Ready: one instruction *)
    cbn in Hpk.
    destruct pp as [|[|[|[|[|[|[|pp]]]]]]]; try discriminate Hpk; cbn in E;
      unfold live, obj_of, M, CV, Q in E; cbn in E; rewrite ?Hal in E; cbn in E; rewrite ?Hth in E; cbn in E.
    + (* 0: IBrDone 6 *)
      match type of E with context [if ?c then _ else _] => destruct c eqn:EB end;
      inversion E; subst s'; clear E.
      all: unfold Rex; exists p0, st0, r0, c0, l0, cu0, p1, st1, r1, c1, l1, cu1, om; cbn; unfold upd; cbn;
           sp; auto; try (split; assumption); try (split; [|split; [|split]]; assumption); try (intros X; discriminate X); try (wframe HW Hth i).
      all: intros j Hj; destruct (Nat.eq_dec j i) as [Eji|Hji]; [subst j|].
      all: try (apply (OTH om (or_introl eq_refl) j Hj Hji); [|reflexivity];
                cbn; unfold upd; cbn; destruct (Nat.eqb j i) eqn:EE; [apply Nat.eqb_eq in EE; lia|reflexivity]).
      all: do 4 eexists; cbn; unfold upd; cbn; rewrite ?Nat.eqb_refl; cbn; rewrite ?Hth; cbn; sp; try reflexivity; auto.
      all: split; intro X; [apply Hom in X; discriminate X|discriminate X].
    + (* 1: ILock M *)
      rewrite HOM in E. destruct om as [o|] eqn:Eom; [discriminate E|].
      inversion E; subst s'; clear E.
      unfold Rex. exists p0, st0, r0, c0, l0, cu0, p1, st1, r1, c1, l1, cu1, (Some (S (S i))). cbn. unfold upd. cbn.
      sp; auto; try (wframe HW Hth i).
      * split; (split; intro X; [|discriminate X]); [apply Hm1 in X|apply Hm2 in X]; discriminate X.
      * intros t Xt. inversion Xt. lia.
      * intros r Hr. destruct r as [|[|r]]; try lia. cbn. apply HownO. lia.
      * split; [|split; [|split]]; assumption.
      * intros j Hj. destruct (Nat.eq_dec j i) as [->|Hji].
        -- exists 2, Ready, rp, cp. cbn. unfold upd. cbn. rewrite ?Nat.eqb_refl. cbn. sp; auto. split; reflexivity.
        -- apply (OTH (Some (S (S i))) (or_intror (or_introl (conj eq_refl eq_refl))) j Hj Hji); [|reflexivity].
           cbn. unfold upd. cbn. destruct (Nat.eqb j i) eqn:EE; [apply Nat.eqb_eq in EE; lia|reflexivity].
    + (* 2: IPush Q *)
      inversion E; subst s'; clear E.
      unfold Rex. exists p0, st0, r0, c0, l0, cu0, p1, st1, r1, c1, l1, cu1, om. cbn. unfold upd. cbn.
      sp; auto; try (wnew Hi i).
      * split; assumption.
      * split; [|split; [|split]].
        -- intros _ X. apply app_eq_nil in X. destruct X as [_ X]. discriminate X.
        -- intros _ X. apply app_eq_nil in X. destruct X as [_ X]. discriminate X.
        -- intros X. apply (inl4647 p0 c0 i) in X. apply Hjn in X. discriminate X.
        -- intros X. exfalso. apply c1112 in X. apply Hm2 in X.
           assert (Y : om = Some (2 + i)) by (apply Hom; reflexivity). rewrite X in Y. discriminate Y.
      * rewrite HG. rewrite <- !app_assoc. reflexivity.
      * intros c Hc. apply in_app_or in Hc. destruct Hc as [Hc|[Hc|[]]]; [apply Hsub; exact Hc|subst c; cbn; lia].
      * intros j Hj. destruct (Nat.eq_dec j i) as [->|Hji].
        -- exists 3, Ready, rp, (S cp). cbn. unfold upd. cbn. rewrite ?Nat.eqb_refl. cbn. sp; auto.
           apply filt_push. exact Hsu.
        -- destruct (HPR j Hj) as (ppj & stpj & rpj & cpj & Hthj & Hpkj & Hnsj & Hjnj & Homj & Hsuj).
           exists ppj, stpj, rpj, cpj. cbn. unfold upd. cbn. destruct (Nat.eqb j i) eqn:EE; [apply Nat.eqb_eq in EE; lia|].
           cbn in Hthj. sp; auto.
           rewrite filt_push_other by lia. exact Hsuj.
    + (* 3: IUnlock M *)
      assert (Xo : om = Some (S (S i))) by (apply Hom; reflexivity).
      rewrite HOM, Xo in E. rewrite Nat.eqb_refl in E.
      inversion E; subst s'; clear E.
      unfold Rex. exists p0, st0, r0, c0, l0, cu0, p1, st1, r1, c1, l1, cu1, None. cbn. unfold upd. cbn.
      sp; auto; try (wnew Hi i).
      * split; (split; intro X; [|discriminate X]); [apply Hm1 in X|apply Hm2 in X]; rewrite Xo in X; discriminate X.
      * intros t Xt. discriminate Xt.
      * intros r Hr. destruct r as [|[|r]]; try lia. cbn. apply HownO. lia.
      * split; [|split; [|split]]; assumption.
      * intros j Hj. destruct (Nat.eq_dec j i) as [->|Hji].
        -- exists 4, Ready, rp, cp. cbn. unfold upd. cbn. rewrite ?Nat.eqb_refl. cbn. sp; auto. split; intro X; discriminate X.
        -- apply (OTH None (or_intror (or_intror (conj Xo eq_refl))) j Hj Hji); [|reflexivity].
           cbn. unfold upd. cbn. destruct (Nat.eqb j i) eqn:EE; [apply Nat.eqb_eq in EE; lia|reflexivity].
    + (* 4: ISignal CV *)
      rewrite Hwq0 in E. destruct (is_asleep st1) eqn:EA.
      * destruct st1 as [| | |ca ma|mw|]; try discriminate EA. cbn in Hnm1. injection Hnm1 as Hca Hma. subst ca ma.
        cbn in E. unfold wake in E. cbn in E. rewrite Ht1 in E. cbn in E.
        inversion E; subst s'; clear E.
        unfold Rex. exists p0, st0, r0, c0, l0, cu0, p1, (Woken 0), r1, c1, l1, cu1, om. cbn. unfold upd. cbn. rewrite ?Ht1. cbn.
        sp; auto; try (split; assumption); try (split; [|split; [|split]]; assumption); try (intros X; discriminate X); try (wframe HW Hth i).
        all: try (intros r Hr; destruct r as [|[|r]]; try lia; cbn; apply HwqO; lia).
        all: intros j Hj; destruct (Nat.eq_dec j i) as [Eji|Hji]; [subst j|].
        all: try (apply (OTH om (or_introl eq_refl) j Hj Hji); [|reflexivity];
                  cbn; unfold upd; cbn; destruct (Nat.eqb j i) eqn:EE; [apply Nat.eqb_eq in EE; lia|reflexivity]).
        all: do 4 eexists; cbn; unfold upd; cbn; rewrite ?Nat.eqb_refl; cbn; rewrite ?Hth; cbn; sp; try reflexivity; auto.
        all: split; intro X; [apply Hom in X; discriminate X|discriminate X].
      * cbn in E. inversion E; subst s'; clear E.
        unfold Rex. exists p0, st0, r0, c0, l0, cu0, p1, st1, r1, c1, l1, cu1, om. cbn. unfold upd. cbn. rewrite ?EA.
        sp; auto; try (split; assumption); try (split; [|split; [|split]]; assumption); try (intros X; discriminate X);
          try (intros X; rewrite EA in X; discriminate X).
        all: intros j Hj; destruct (Nat.eq_dec j i) as [Eji|Hji]; [subst j|].
        all: try (apply (OTH om (or_introl eq_refl) j Hj Hji); [|reflexivity];
                  cbn; unfold upd; cbn; destruct (Nat.eqb j i) eqn:EE; [apply Nat.eqb_eq in EE; lia|reflexivity]).
        all: do 4 eexists; cbn; unfold upd; cbn; rewrite ?Nat.eqb_refl; cbn; rewrite ?Hth; cbn; sp; try reflexivity; auto.
        all: split; intro X; [apply Hom in X; discriminate X|discriminate X].
    + (* 5: IJmp 0 *)
      inversion E; subst s'; clear E.
      unfold Rex. exists p0, st0, r0, c0, l0, cu0, p1, st1, r1, c1, l1, cu1, om. cbn. unfold upd. cbn.
      sp; auto; try (split; assumption); try (split; [|split; [|split]]; assumption); try (intros X; discriminate X); try (wframe HW Hth i).
      all: intros j Hj; destruct (Nat.eq_dec j i) as [Eji|Hji]; [subst j|].
      all: try (apply (OTH om (or_introl eq_refl) j Hj Hji); [|reflexivity];
                cbn; unfold upd; cbn; destruct (Nat.eqb j i) eqn:EE; [apply Nat.eqb_eq in EE; lia|reflexivity]).
      all: do 4 eexists; cbn; unfold upd; cbn; rewrite ?Nat.eqb_refl; cbn; rewrite ?Hth; cbn; sp; try reflexivity; auto.
      all: split; intro X; [apply Hom in X; discriminate X|discriminate X].
    + (* 6: IEnd *)
      inversion E; subst s'; clear E.
      unfold Rex. exists p0, st0, r0, c0, l0, cu0, p1, st1, r1, c1, l1, cu1, om. cbn. unfold upd. cbn.
      sp; auto; try (split; assumption); try (split; [|split; [|split]]; assumption); try (intros X; discriminate X); try (wframe HW Hth i).
      all: intros j Hj; destruct (Nat.eq_dec j i) as [Eji|Hji]; [subst j|].
      all: try (apply (OTH om (or_introl eq_refl) j Hj Hji); [|reflexivity];
                cbn; unfold upd; cbn; destruct (Nat.eqb j i) eqn:EE; [apply Nat.eqb_eq in EE; lia|reflexivity]).
      all: do 4 eexists; cbn; unfold upd; cbn; rewrite ?Nat.eqb_refl; cbn; rewrite ?Hth; cbn; sp; try reflexivity; auto.
      all: try (intros _; reflexivity).
      all: split; intro X; [apply Hom in X; discriminate X|discriminate X].
Qed.
End Pr.
