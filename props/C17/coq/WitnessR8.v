(* C17.WitnessR8: FilePreferenceSaverThread::Start() immediately followed by Join().
   P8 = the programs with the owner's Join as it was BEFORE fix 05: Join() calls m_ss.Terminate() itself, which is a
   no-op while the saver thread has not yet marked its loop as running. *)
From Coq Require Import List Arith Bool.
Import ListNotations.
From C17 Require Import Sem Progs.

Definition p_prefj_owner_old : list instr := [
  (* 0*) ILock OWN;
  (* 1*) ILock TM2; (* 2*) IBrVar RUN2 1 7; (* 3*) ICreateI 1; (* 4*) IBrVar RUN2 1 7; (* 5*) IWait TC2 TM2; (* 6*) IJmp 4;
  (* 7*) IUnlock TM2;
  (* Join: m_ss.Terminate() on the caller's thread: if (m_is_running) Execute(SetTerminate) *)
  (* 8*) IBrVar ISRUN 0 14; (* 9*) ILd ONEV; (*10*) ILock IMS; (*11*) IPushR INQS; (*12*) IUnlock IMS; (*13*) IInc PIPES;
  (*14*) ILock TM2; (*15*) ILd RUN2; (*16*) IUnlock TM2; (*17*) IBrReg 0 23; (*18*) IRst 9; (*19*) IJoinI 1;
  (*20*) ILock TM2; (*21*) IWr RUN2 0; (*22*) IUnlock TM2;
  (*23*) ILock IMS; (*24*) IBrEmpty INQS 25; (*25*) IUnlock IMS;
  (*26*) IUnlock OWN; (*27*) IEnd ].
Definition P8 : programs := fun id => match id with 29 => p_prefj_owner_old | _ => P id end.

(* the schedule: the saver thread has set Thread::m_running and released Thread::m_mutex; the owner wakes up (here
   spuriously; a preemption of the saver right after its Signal has the same effect), finds m_running set, returns
   from Start() and calls Join() before the saver has entered SelectServer::Run() *)
Definition hang_schedule : list nat := [500; 500; 500; 500; 500; 500; 500; 500; 500; 1002; 0].

Theorem saver_join_hangs_before_fix :
  snd (run P8 300 init_prefsj hang_schedule 0 [] []) = OutOfFuel /\
  stat (thr (fst (fst (run P8 300 init_prefsj hang_schedule 0 [] []))) 1) <> Done /\
  pc (thr (fst (fst (run P8 300 init_prefsj hang_schedule 0 [] []))) 0) = 19 /\
  snd (run P 300 init_prefsj hang_schedule 0 [] []) = Finished.
Proof.
  split; [vm_compute; reflexivity|]. split; [vm_compute; discriminate|]. split; vm_compute; reflexivity.
Qed.
