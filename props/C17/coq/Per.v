(* C17.Per: consequences of the PeriodicThread abstraction. *)
From Coq Require Import List Arith Bool Lia.
Import ListNotations.
From C17 Require Import Sem Progs PerInv PerStep0 PerStep1 PerSpur0 PerSpur1.

Lemma Rp_step s l s' : Rp s -> exec P s l = Some s' ->
  Rp s' /\ (var s 4 = 1 -> var s' 4 = 1 /\ length (outs s') + pot s' <= length (outs s) + pot s).
Proof.
  intros R E. destruct l as [t pick|t]; destruct t as [|[|t]].
  - eapply per_step0; eauto.
  - eapply per_step1; eauto.
  - destruct R as (p0 & st0 & r0 & c0 & l0 & p1 & st1 & r1 & c1 & l1 & Ht0 & Ht1 & Hn & Hf & _).
    unfold exec in E. rewrite Hf, Hn in E. cbn in E. discriminate E.
  - eapply per_spur0; eauto.
  - eapply per_spur1; eauto.
  - destruct R as (p0 & st0 & r0 & c0 & l0 & p1 & st1 & r1 & c1 & l1 & Ht0 & Ht1 & Hn & Hf & _).
    unfold exec in E. rewrite Hf, Hn in E. cbn in E. discriminate E.
Qed.

Theorem Rp_reach s : reach P init_periodic s -> Rp s.
Proof.
  intros R. induction R as [|s s' R IH [l E]]; [apply Rp_init|]. eapply Rp_step; eauto.
Qed.

Lemma pot_le1 s : pot s <= 1.
Proof.
  unfold pot, potf. destruct (pc (thr s 1) <=? 4); [lia|].
  destruct (stat (thr s 1)); try lia; repeat match goal with |- context [if ?c then _ else _] => destruct c end; lia.
Qed.

(* once m_terminate is set, the callback runs at most once more, in every continuation of every schedule *)
Theorem periodic_stop_bound s : reach P init_periodic s -> var s 4 = 1 ->
  forall s2, reach P s s2 -> var s2 4 = 1 /\ length (outs s2) <= length (outs s) + 1.
Proof.
  intros R T s2 R2.
  assert (H : Rp s2 /\ var s2 4 = 1 /\ length (outs s2) + pot s2 <= length (outs s) + pot s).
  { induction R2 as [|sa sb Ra IH [l E]].
    - split; [apply Rp_reach; exact R|]. split; [exact T|lia].
    - destruct IH as (Ra' & Ta & La). destruct (Rp_step sa l sb Ra' E) as (Rb & Hb).
      destruct (Hb Ta) as (Tb & Lb). split; [exact Rb|]. split; [exact Tb|lia]. }
  destruct H as (_ & T2 & L2). split; [exact T2|]. pose proof (pot_le1 s). lia.
Qed.

Theorem periodic_safe s : reach P init_periodic s ->
  fault s = None /\ (forall e, In e (outs s) -> e = (1, OUT_CB, 0)).
Proof.
  intros R. apply Rp_reach in R.
  destruct R as (p0 & st0 & r0 & c0 & l0 & p1 & st1 & r1 & c1 & l1 & Ht0 & Ht1 & Hn & Hf & Hnm0 & Hnm1 & Hok &
          HoT & HoP & HownO & Hw1 & Hw4 & HwqO & Hv1 & Hv4 & Hal & Houts).
  split; assumption.
Qed.

(* no reachable state in which Stop has not returned and every thread is blocked or can only time out *)
Theorem periodic_no_deadlock s : reach P init_periodic s -> stat (thr s 0) <> Done ->
  exists t pick s', is_asleep (stat (thr s t)) = false /\ exec P s (LStep t pick) = Some s'.
Proof.
  intros R Hnd. apply Rp_reach in R.
  destruct R as (p0 & st0 & r0 & c0 & l0 & p1 & st1 & r1 & c1 & l1 & Ht0 & Ht1 & Hn & Hf & Hnm0 & Hnm1 & Hok &
          HoT & HoP & HownO & Hw1 & Hw4 & HwqO & Hv1 & Hv4 & Hal & Houts).
  rewrite Ht0 in Hnd. cbn [stat] in Hnd.
  enum Hok Hnm0 Hnm1 p0 st0 r0 c0 p1 st1 r1; try (exfalso; apply Hnd; reflexivity);
  first
  [ (exists 0, 0; eexists; split; [rewrite Ht0; reflexivity|];
     unfold exec; rewrite Hf, Hn; cbn;
     do 4 (unfold live, obj_of, TM, TC, PM, PC, TERM, RUNNING, OUT_CB, wake; cbn;
           rewrite ?Ht0, ?Ht1, ?HoT, ?HoP, ?Hw1, ?Hw4, ?Hv1, ?Hv4, ?Hal;
           repeat rewrite HownO by discriminate; repeat rewrite HwqO by discriminate);
     reflexivity)
  | (exists 1, 0; eexists; split; [rewrite Ht1; reflexivity|];
     unfold exec; rewrite Hf, Hn; cbn;
     do 4 (unfold live, obj_of, TM, TC, PM, PC, TERM, RUNNING, OUT_CB, wake; cbn;
           rewrite ?Ht0, ?Ht1, ?HoT, ?HoP, ?Hw1, ?Hw4, ?Hv1, ?Hv4, ?Hal;
           repeat rewrite HownO by discriminate; repeat rewrite HwqO by discriminate);
     reflexivity) ].
Qed.
