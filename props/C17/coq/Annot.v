(* C17.Annot: the annotation (locks held / callback in hand at every program counter) of the
   transcribed programs, checked by computation on the finite program text, and the initial states. *)
From Coq Require Import List Arith Bool Lia.
Import ListNotations.
From C17 Require Import Sem Progs Static.

(* protecting mutex of each shared variable and queue, as documented in the headers:
   ExecutorThread::m_mutex protects the queue and m_shutdown; Thread::m_mutex protects m_running;
   FutureImpl::m_mutex protects m_ref_count, m_is_set, m_value *)
Definition gv (x : nat) : option nat :=
  match x with
  | 0 => Some M | 1 => Some TM | 4 => Some PM | 8 => Some FM | 9 => Some FM | 10 => Some FM | 16 => Some PLM | 17 => Some TMA | 18 => Some TMB
  | 33 => Some TM2 | 37 => Some SM | 38 => Some OWN | 42 => Some SM2 | _ => None
  end.
Definition gq (q : nat) : option nat := match q with 0 => Some M | 2 => Some IM | 16 => Some PLM | 34 => Some IMS | _ => None end.

Definition n_ := mkA [] false.
Definition t_ := mkA [TM] false.
Definition m_ := mkA [M] false.
Definition mc := mkA [M] true.
Definition nc := mkA [] true.
Definition f_ := mkA [FM] false.
Definition i_ := mkA [IM] false.
Definition p_ := mkA [PM] false.

Definition a_exec_main : list abs :=
  [ n_; t_; t_; t_; t_; t_; t_;  n_; n_; n_; n_;  n_; t_; t_; n_; n_; m_; m_; n_;
    n_; t_; t_; n_; n_; n_; n_; t_; t_; n_;  n_; m_; m_; mc; nc; n_; m_;  n_; n_; n_; n_;
    n_; m_; m_; mc; nc; n_; m_; n_ ].
Definition a_consumer : list abs :=
  [ n_; t_; t_; n_;  n_; m_; m_; mc; nc; n_; m_; m_; m_; m_; m_; n_ ].
Definition a_producer : list abs := [ n_; n_; m_; m_; n_; n_; n_ ].
Definition a_gd : list abs := [ n_; f_; f_; f_; f_; f_; n_; n_; f_; f_; n_; n_; n_ ].
Definition a_set : list abs := [ n_; f_; f_; f_; f_; f_ ].

Definition An : annot := fun id =>
  match id with
  | 0 => a_exec_main | 1 => a_consumer | 2 => a_producer
  | 4 => [n_] ++ a_gd ++ [n_; n_; n_]
  | 5 => a_set ++ [n_]
  | 6 => [n_; n_; n_; f_; f_; n_; n_] ++ a_gd ++ [n_; n_; n_; n_; n_]
  | 7 => a_set ++ [n_; f_; f_; n_; n_; n_; n_]
  | 8 => a_gd ++ [n_]
  | 10 => [ n_; n_; n_; n_;  n_; n_; n_; n_;  n_; n_; i_; i_;  n_; n_; nc;  n_; i_; i_; n_; n_;
            n_; n_; n_; n_;  n_; i_; i_; i_;  n_; n_; nc;  n_; i_; i_; n_; n_;  i_; n_ ]
  | 11 => [ n_; n_; i_; i_; n_; n_; n_ ]
  | 12 => [ n_; t_; t_; t_; t_; t_; t_; n_; n_; n_; n_; n_; t_; t_; n_; n_; m_; m_; n_; n_; t_; t_; n_; n_; n_; n_; t_; t_; n_; n_; m_; m_; mc; nc; n_; m_; m_; n_; n_; m_; n_; n_; n_; n_; n_; m_; m_; mc; nc; n_; m_; m_; n_; n_; m_; n_ ]
  | 13 => [ n_; t_; t_; n_; n_; m_; m_; mc; nc; n_; m_; m_; n_; n_; m_; m_; m_; m_; m_; n_ ]
  | 14 => [ n_; t_; t_; t_; t_; t_; t_; n_; p_; p_; n_; n_; t_; t_; n_; n_; n_; n_; t_; t_; n_ ]
  | 15 => [ n_; t_; t_; n_; n_; n_; p_; p_; p_; p_; p_; n_; p_; n_; n_; p_; n_ ]
  | 16 => [ (mkA [] false); (mkA [TMA] false); (mkA [TMA] false); (mkA [TMA] false); (mkA [TMA] false); (mkA [TMA] false); (mkA [TMA] false); (mkA [] false); (mkA [TMB] false); (mkA [TMB] false); (mkA [TMB] false); (mkA [TMB] false); (mkA [TMB] false); (mkA [TMB] false); (mkA [] false); (mkA [] false); (mkA [] false); (mkA [PLM] false); (mkA [PLM] false); (mkA [PLM] false); (mkA [PLM] false); (mkA [] false); (mkA [] false); (mkA [PLM] false); (mkA [PLM] false); (mkA [PLM] false); (mkA [] false); (mkA [TMB] false); (mkA [TMB] false); (mkA [] false); (mkA [] false); (mkA [] false); (mkA [] false); (mkA [TMB] false); (mkA [TMB] false); (mkA [] false); (mkA [TMA] false); (mkA [TMA] false); (mkA [] false); (mkA [] false); (mkA [] false); (mkA [] false); (mkA [TMA] false); (mkA [TMA] false); (mkA [] false) ]
  | 17 => [ (mkA [] false); (mkA [TMA] false); (mkA [TMA] false); (mkA [] false); (mkA [] false); (mkA [PLM] false); (mkA [PLM] false); (mkA [PLM] true); (mkA [] true); (mkA [] false); (mkA [PLM] false); (mkA [PLM] false); (mkA [PLM] false); (mkA [PLM] false); (mkA [PLM] false); (mkA [] false) ]
  | 18 => [ (mkA [] false); (mkA [TMB] false); (mkA [TMB] false); (mkA [] false); (mkA [] false); (mkA [PLM] false); (mkA [PLM] false); (mkA [PLM] true); (mkA [] true); (mkA [] false); (mkA [PLM] false); (mkA [PLM] false); (mkA [PLM] false); (mkA [PLM] false); (mkA [PLM] false); (mkA [] false) ]
  | 19 => [ (mkA [] false); (mkA [] false); (mkA [] false); (mkA [LX] false); (mkA [] false); (mkA [LY] false); (mkA [] false); (mkA [] false); (mkA [] false); (mkA [] false) ]
  | 20 => [ (mkA [] false); (mkA [LX] false); (mkA [] false); (mkA [LX] false); (mkA [] false) ]
  | 21 => [ (mkA [] false); (mkA [] false); (mkA [] false); (mkA [] false); (mkA [] false); (mkA [] false); (mkA [] false); (mkA [] false); (mkA [] false); (mkA [] false); (mkA [IM] false); (mkA [IM] false); (mkA [] false); (mkA [] false); (mkA [] true); (mkA [] false); (mkA [IM] false); (mkA [IM] false); (mkA [] false); (mkA [] false); (mkA [] false); (mkA [IM] false); (mkA [IM] false); (mkA [] false); (mkA [] false); (mkA [IM] false); (mkA [IM] false); (mkA [IM] false); (mkA [] false); (mkA [] false); (mkA [] true); (mkA [] false); (mkA [IM] false); (mkA [IM] false); (mkA [] false); (mkA [] false); (mkA [IM] false); (mkA [] false); (mkA [] false); (mkA [] false); (mkA [] false); (mkA [] false); (mkA [] false); (mkA [IM] false); (mkA [IM] false); (mkA [IM] false); (mkA [] false); (mkA [] false); (mkA [] true); (mkA [] false); (mkA [IM] false); (mkA [IM] false); (mkA [] false); (mkA [] false); (mkA [] false); (mkA [IM] false); (mkA [IM] false); (mkA [] false); (mkA [] false); (mkA [IM] false); (mkA [IM] false); (mkA [IM] false); (mkA [] false); (mkA [] false); (mkA [] true); (mkA [] false); (mkA [IM] false); (mkA [IM] false); (mkA [] false); (mkA [] false); (mkA [IM] false); (mkA [] false); (mkA [IM] false); (mkA [] false) ]
  | 22 => [ (mkA [] false); (mkA [OWN] false); (mkA [OWN; TM2] false); (mkA [OWN; TM2] false); (mkA [OWN; TM2] false); (mkA [OWN; TM2] false); (mkA [OWN; TM2] false); (mkA [OWN; TM2] false); (mkA [OWN] false); (mkA [OWN] false); (mkA [OWN] false); (mkA [IMS; OWN] false); (mkA [IMS; OWN] false); (mkA [OWN] false); (mkA [OWN] false); (mkA [OWN] false); (mkA [OWN; SM] false); (mkA [OWN; SM] false); (mkA [IMS; OWN; SM] false); (mkA [IMS; OWN; SM] false); (mkA [OWN; SM] false); (mkA [OWN; SM] false); (mkA [OWN; SM] false); (mkA [OWN; SM] false); (mkA [OWN; SM] false); (mkA [OWN] false); (mkA [OWN] false); (mkA [OWN] false); (mkA [OWN] false); (mkA [IMS; OWN] false); (mkA [IMS; OWN] false); (mkA [OWN] false); (mkA [OWN] false); (mkA [OWN; TM2] false); (mkA [OWN; TM2] false); (mkA [OWN] false); (mkA [OWN] false); (mkA [OWN] false); (mkA [OWN] false); (mkA [OWN; TM2] false); (mkA [OWN; TM2] false); (mkA [OWN] false); (mkA [IMS; OWN] false); (mkA [IMS; OWN] false); (mkA [OWN] false); (mkA [] false) ]
  | 23 => [ (mkA [] false); (mkA [TM2] false); (mkA [TM2] false); (mkA [] false); (mkA [] false); (mkA [] false); (mkA [] false); (mkA [] false); (mkA [] false); (mkA [] false); (mkA [IMS] false); (mkA [IMS] false); (mkA [] false); (mkA [] false); (mkA [] true); (mkA [] false); (mkA [] false); (mkA [] false); (mkA [] false); (mkA [SM] false); (mkA [SM] false); (mkA [SM] false); (mkA [] false); (mkA [] false); (mkA [SM2] false); (mkA [SM2] false); (mkA [SM2] false); (mkA [] false); (mkA [] false); (mkA [] false); (mkA [] false); (mkA [IMS] false); (mkA [IMS] false); (mkA [] false); (mkA [] false); (mkA [] false); (mkA [] false); (mkA [] false); (mkA [] false) ]
  | 24 => [ (mkA [] false); (mkA [] false); (mkA [IM] false); (mkA [IM] false); (mkA [] false); (mkA [] false); (mkA [] false); (mkA [] false); (mkA [] false); (mkA [] false); (mkA [] false); (mkA [IM] false); (mkA [IM] false); (mkA [] false); (mkA [] false); (mkA [] true); (mkA [] false); (mkA [] false); (mkA [] false); (mkA [] false); (mkA [] false); (mkA [] false); (mkA [] false); (mkA [] false); (mkA [] false); (mkA [] false); (mkA [IM] false); (mkA [IM] false); (mkA [] false); (mkA [] false); (mkA [] false); (mkA [] false); (mkA [] false); (mkA [] false); (mkA [] false); (mkA [IM] false); (mkA [IM] false); (mkA [] false); (mkA [] false); (mkA [] true); (mkA [] false); (mkA [] false); (mkA [] false); (mkA [] false); (mkA [] false); (mkA [] false); (mkA [] false); (mkA [] false); (mkA [] false); (mkA [IM] false); (mkA [IM] false); (mkA [IM] false); (mkA [] false); (mkA [] false); (mkA [] true); (mkA [] false); (mkA [IM] false); (mkA [] false) ]
  | 25 => [ (mkA [] false); (mkA [] false); (mkA [IM] false); (mkA [IM] false); (mkA [] false); (mkA [] false); (mkA [] false); (mkA [] false); (mkA [IM] false); (mkA [IM] false); (mkA [] false); (mkA [] false); (mkA [] false); (mkA [IM] false); (mkA [IM] false); (mkA [] false); (mkA [] false); (mkA [] false); (mkA [IM] false); (mkA [IM] false); (mkA [] false); (mkA [] false) ]
  | 26 => [ (mkA [] false); (mkA [] false); (mkA [IM] false); (mkA [IM] false); (mkA [] false); (mkA [] false); (mkA [] false); (mkA [] false); (mkA [IM] false); (mkA [IM] false); (mkA [] false); (mkA [] false) ]
  | 27 => [ (mkA [] false); (mkA [OWN] false); (mkA [OWN; TM2] false); (mkA [OWN; TM2] false); (mkA [OWN; TM2] false); (mkA [OWN; TM2] false); (mkA [OWN; TM2] false); (mkA [OWN; TM2] false); (mkA [OWN] false); (mkA [OWN] false); (mkA [OWN; SM] false); (mkA [OWN; SM] false); (mkA [IMS; OWN; SM] false); (mkA [IMS; OWN; SM] false); (mkA [OWN; SM] false); (mkA [OWN; SM] false); (mkA [OWN; SM] false); (mkA [OWN; SM] false); (mkA [OWN; SM] false); (mkA [OWN] false); (mkA [OWN] false); (mkA [OWN] false); (mkA [OWN] false); (mkA [IMS; OWN] false); (mkA [IMS; OWN] false); (mkA [OWN] false); (mkA [OWN] false); (mkA [OWN; TM2] false); (mkA [OWN; TM2] false); (mkA [OWN] false); (mkA [OWN] false); (mkA [OWN] false); (mkA [OWN] false); (mkA [OWN; TM2] false); (mkA [OWN; TM2] false); (mkA [OWN] false); (mkA [IMS; OWN] false); (mkA [IMS; OWN] false); (mkA [OWN] false); (mkA [] false) ]
  | 28 => [ (mkA [] false); (mkA [SM2] false); (mkA [SM2] false); (mkA [IMS; SM2] false); (mkA [IMS; SM2] false); (mkA [SM2] false); (mkA [SM2] false); (mkA [SM2] false); (mkA [SM2] false); (mkA [SM2] false); (mkA [] false) ]
  | 29 => [ (mkA [] false); (mkA [OWN] false); (mkA [OWN; TM2] false); (mkA [OWN; TM2] false); (mkA [OWN; TM2] false); (mkA [OWN; TM2] false); (mkA [OWN; TM2] false); (mkA [OWN; TM2] false); (mkA [OWN] false); (mkA [OWN] false); (mkA [IMS; OWN] false); (mkA [IMS; OWN] false); (mkA [OWN] false); (mkA [OWN] false); (mkA [OWN; TM2] false); (mkA [OWN; TM2] false); (mkA [OWN] false); (mkA [OWN] false); (mkA [OWN] false); (mkA [OWN] false); (mkA [OWN; TM2] false); (mkA [OWN; TM2] false); (mkA [OWN] false); (mkA [IMS; OWN] false); (mkA [IMS; OWN] false); (mkA [OWN] false); (mkA [] false) ]
  | 30 => [ (mkA [] false); (mkA [TMA] false); (mkA [TMA] false); (mkA [] false); (mkA [] false); (mkA [PLM] false); (mkA [PLM] false); (mkA [PLM] true); (mkA [] true); (mkA [] false); (mkA [PLM] false); (mkA [PLM] false); (mkA [PLM] false); (mkA [PLM] false); (mkA [] false); (mkA [PLM] false); (mkA [PLM] false); (mkA [PLM] false); (mkA [PLM] false); (mkA [PLM] false); (mkA [] false) ]
  | 31 => [ (mkA [] false); (mkA [TMB] false); (mkA [TMB] false); (mkA [] false); (mkA [] false); (mkA [PLM] false); (mkA [PLM] false); (mkA [PLM] true); (mkA [] true); (mkA [] false); (mkA [PLM] false); (mkA [PLM] false); (mkA [PLM] false); (mkA [PLM] false); (mkA [] false); (mkA [PLM] false); (mkA [PLM] false); (mkA [PLM] false); (mkA [PLM] false); (mkA [PLM] false); (mkA [] false) ]
  | 32 => [ (mkA [] false); (mkA [FM] false); (mkA [FM] false); (mkA [] false); (mkA [FM] false); (mkA [FM] false); (mkA [] false); (mkA [] false); (mkA [] false); (mkA [] false); (mkA [FM] false); (mkA [FM] false); (mkA [] false); (mkA [FM3] false); (mkA [FM3] false); (mkA [] false); (mkA [] false); (mkA [] false); (mkA [] false); (mkA [FM] false); (mkA [FM] false); (mkA [] false); (mkA [FM] false); (mkA [FM] false); (mkA [] false); (mkA [FM] false); (mkA [FM] false); (mkA [] false); (mkA [] false); (mkA [] false); (mkA [] false); (mkA [FM] false); (mkA [FM] false); (mkA [] false); (mkA [FM] false); (mkA [FM] false); (mkA [] false); (mkA [] false); (mkA [] false); (mkA [] false); (mkA [FM] false); (mkA [FM] false); (mkA [] false); (mkA [FM] false); (mkA [FM] false); (mkA [] false); (mkA [] false); (mkA [] false); (mkA [] false); (mkA [FM] false); (mkA [FM] false); (mkA [] false); (mkA [] false); (mkA [FM] false); (mkA [FM] false); (mkA [FM] false); (mkA [FM] false); (mkA [FM] false); (mkA [] false); (mkA [] false); (mkA [FM] false); (mkA [FM] false); (mkA [] false); (mkA [] false); (mkA [] false); (mkA [] false); (mkA [FM] false); (mkA [FM] false); (mkA [] false); (mkA [] false); (mkA [] false); (mkA [] false); (mkA [FM] false); (mkA [FM] false); (mkA [] false); (mkA [] false); (mkA [] false); (mkA [] false); (mkA [] false); (mkA [] false) ]
  | _ => []
  end.

Lemma check_all : forall id, check_prog gv gq (P id) (An id) = true.
Proof.
  intros id. do 33 (destruct id as [|id]; [vm_compute; reflexivity|]). reflexivity.
Qed.

(* the pre-fix code does not pass: Thread::Join wrote m_running without Thread::m_mutex *)
Lemma old_join_unguarded :
  exists pc x, nth pc (P_old 0) IEnd = IWr x 0 /\ gv x = Some TM /\
               nth pc (P_old 0) IEnd = IWr RUNNING 0 /\ nth (pc - 1) (P_old 0) IEnd = IJoinI 1.
Proof. exists 23, RUNNING. repeat split. Qed.

Inductive initial : state -> Prop :=
| init_e lims : initial (init_exec lims)
| init_fr : initial init_fut_raw
| init_fc g : initial (init_fut_copy g)
| init_s lims rs k : initial (init_ss lims rs k)
| init_er lims rs : initial (init_execre lims rs)
| init_p : initial init_periodic
| init_pl n : initial (init_pool n)
| init_lk : initial init_locker
| init_sd lims rs k : initial (init_ssd lims rs k)
| init_pf : initial init_prefs
| init_pf2 : initial init_prefs2
| init_pfj : initial init_prefsj
| init_tm : initial init_term
| init_plr n r : initial (init_poolre n r)
| init_fa : initial init_fut_asg.

Lemma initial_inv s0 : initial s0 -> Inv P An s0 /\ fault s0 = None.
Proof.
  intros H. split; [|destruct H; reflexivity].
  intros t. unfold habs, owns.
  assert (X : forall (u : tid), ~ (@None tid = Some u)) by (intros u Hu; discriminate).
  destruct H.
  - destruct t as [|[|i]]; cbn; auto.
    match goal with |- context [if ?c then _ else _] => destruct c end; cbn; auto.
  - destruct t as [|[|i]]; cbn; auto.
  - destruct t as [|[|i]]; cbn; auto.
    match goal with |- context [if ?c then _ else _] => destruct c end; cbn; auto.
  - destruct t as [|i]; cbn; auto.
    match goal with |- context [if ?c then _ else _] => destruct c end; cbn; auto.
  - destruct t as [|[|i]]; cbn; auto.
    match goal with |- context [if ?c then _ else _] => destruct c end; cbn; auto.
  - destruct t as [|[|i]]; cbn; auto.
  - destruct t as [|[|[|i]]]; cbn; auto.
  - destruct t as [|[|[|i]]]; cbn; auto.
  - destruct t as [|i]; cbn; auto.
    match goal with |- context [if ?c then _ else _] => destruct c end; cbn; auto.
  - destruct t as [|[|i]]; cbn; auto.
  - destruct t as [|[|[|i]]]; cbn; auto.
  - destruct t as [|[|i]]; cbn; auto.
  - destruct t as [|[|[|i]]]; cbn; auto.
  - destruct t as [|[|[|i]]]; cbn; auto.
  - destruct t as [|[|i]]; cbn; auto.
Qed.
