(* C17.PoolReFin: ThreadPool with two-stage jobs, the drained clause assembled: once both joins of JoinAll() have returned
   both workers are finished, the queue is empty, nothing is in a worker's hand, and the closures run are exactly (as a
   multiset) the closures handed in by the owner or by a running closure -- also those handed in after m_shutdown was set. *)
From Coq Require Import List Arith Bool Lia Permutation.
Import ListNotations.
From C17 Require Import Sem Progs Static Annot Owner Effects Conserve Pool PoolD PoolFin PoolRe PoolReD PoolReW1 PoolReW2.

Lemma XJ_init n r : XJ (init_poolre n r).
Proof.
  unfold XJ, WJ, JJ, EX. cbn.
  repeat match goal with |- _ /\ _ => split end; try reflexivity; intros X; try discriminate X.
  all: try (intros Y; discriminate Y).
  all: destruct X as [[X _]|X]; discriminate X.
Qed.

Lemma XJ_step_spur s t s' : XJ s -> exec P s (LSpur t) = Some s' -> XJ s'.
Proof.
  intros HX E.
  destruct (spur_effects P s t s' E) as (Eo & Ev & _).
  assert (Hv : var s' = var s /\ que s' = que s).
  { unfold exec in E. destruct (fault s); [discriminate|]. destruct (negb (t <? nthr s)); [discriminate|].
    destruct (stat (thr s t)); try discriminate. inversion E; subst. rewrite var_wake, que_wake. split; reflexivity. }
  destruct Hv as [Hv Hq].
  destruct (only_stat_fields _ _ (Eo 0)) as (_ & Q0 & Q1 & Q2 & _).
  destruct (only_stat_fields _ _ (Eo 1)) as (_ & P1 & _).
  destruct (only_stat_fields _ _ (Eo 2)) as (_ & P2 & _).
  destruct HX as (X1 & X2 & X3 & X4 & X5 & X6 & X7 & X8 & X9 & X10 & W1 & W2 & J0).
  unfold XJ. rewrite Q0, Q1, Q2, Hv. cbn zeta.
  split; [exact X1|]. split; [exact X2|]. split; [exact X3|]. split; [exact X4|]. split; [exact X5|]. split; [exact X6|].
  split; [intros X; exact (evol_done _ _ (Ev 2) (X7 X))|]. split; [intros X; exact (evol_done _ _ (Ev 1) (X8 X))|].
  split; [intros X; exact (X9 (evol_done_inv _ _ (Ev 0) X))|]. split; [exact X10|].
  split; [|split].
  - eapply WJ_keep; [exact P1|apply Ev|rewrite Hq; reflexivity|left; rewrite Hv; reflexivity|exact W1].
  - eapply WJ_keep; [exact P2|apply Ev|rewrite Hq; reflexivity|left; rewrite Hv; reflexivity|exact W2].
  - eapply JJ_keep; [exact P1|apply Ev|exact P2|apply Ev|rewrite Hq; reflexivity|exact J0].
Qed.

Lemma XJ_step s l s' : Inv P An s -> PLR s -> XJ s -> exec P s l = Some s' -> XJ s'.
Proof.
  intros HI HP HX E. destruct l as [t k|t].
  - destruct t as [|[|[|t]]].
    + eapply XJ_step_owner; eauto.
    + eapply XJ_step_w1; eauto.
    + eapply XJ_step_w2; eauto.
    + exfalso. destruct HP as (p0 & st0 & r0 & c0 & l0 & H0 & Hn & _).
      unfold exec in E. destruct (fault s); [discriminate|]. rewrite Hn in E. discriminate E.
  - eapply XJ_step_spur; eauto.
Qed.

Lemma poolre_xj n r s : reach P (init_poolre n r) s -> PLR s /\ XJ s.
Proof.
  intros R. induction R as [|s s' R IH [l E]].
  - split; [apply PLR_init|apply XJ_init].
  - destruct IH as (HP & HX). destruct (poolre_conserved n r s R) as (HI & _).
    split; [eapply PLR_step; eauto|eapply XJ_step; eauto].
Qed.

Theorem poolre_joined n r s : reach P (init_poolre n r) s -> (41 <=? pc (thr s 0)) = true ->
  stat (thr s 1) = Done /\ stat (thr s 2) = Done /\ que s PQ = [] /\ var s PSHUT = 1 /\ curs s = [] /\
  Permutation (subm s) (map fst (ran s)).
Proof.
  intros R Hp. destruct (poolre_xj n r s R) as ((p0 & st0 & r0 & c0 & l0 & H0 & Hn & _) & HX).
  destruct (poolre_conserved n r s R) as (HI & HC).
  destruct HX as (X1 & _ & _ & _ & _ & _ & X7 & X8 & _ & _ & W1 & W2 & J0).
  assert (H32 : (32 <=? pc (thr s 0)) = true).
  { apply Nat.leb_le. apply Nat.leb_le in Hp. lia. }
  pose proof (X8 Hp) as D1. pose proof (X7 H32) as D2.
  destruct W1 as (_ & B1 & C1 & _). destruct W2 as (_ & _ & C2 & _).
  assert (E1 : EX s 1) by (right; exact (C1 D1)).
  assert (E2 : EX s 2) by (right; exact (C2 D2)).
  pose proof (J0 E1 E2) as Hq. pose proof (B1 E1) as Hs.
  assert (Hc : curs s = []).
  { unfold curs. rewrite Hn. cbn. rewrite H0. cbn.
    rewrite (done_cur s 1 HI D1), (done_cur s 2 HI D2). reflexivity. }
  split; [exact D1|]. split; [exact D2|]. split; [exact Hq|]. split; [exact Hs|]. split; [exact Hc|].
  rewrite Hc in HC. unfold PQ in HC. rewrite Hq in HC. cbn in HC. rewrite app_nil_r in HC. exact HC.
Qed.

Theorem poolre_drained n r s : reach P (init_poolre n r) s -> stat (thr s 0) = Done ->
  stat (thr s 1) = Done /\ stat (thr s 2) = Done /\ que s PQ = [] /\ var s PSHUT = 1 /\ curs s = [] /\
  Permutation (subm s) (map fst (ran s)).
Proof.
  intros R HD. apply (poolre_joined n r s R).
  destruct (poolre_xj n r s R) as (_ & (_ & _ & _ & _ & _ & _ & _ & _ & X9 & _)). rewrite (X9 HD). reflexivity.
Qed.
