(* C17.Sd: the nested-drain SelectServer scenario: Rsd is inductive; consequences. *)
From Coq Require Import List Arith Bool Lia Permutation.
Import ListNotations.
From C17 Require Import Sem Progs ExecInv ExecTac Exec SsInv SdInv SdMain SdProd.

Section E.
Variable lims rs : list nat.
Variable kk : nat.

Lemma sd_step_spur s t s' : Rsd lims s -> exec P s (LSpur t) = Some s' -> Rsd lims s'.
Proof.
  intros (p0 & st0 & r0 & c0 & l0 & cu0 & om & Ht0 & HOM & Hn & Hpa & Hf & Hok0 & Hreg & Hc0 & Hm1 & Homlt &
          HownO & Hal & Hp98 & Hq & HG & Hran & Hsub & Hch & HPR) E.
  unfold exec in E. rewrite Hf, Hn in E.
  destruct (t <? 1 + NS lims) eqn:Elt; cbn [negb] in E; [|discriminate E].
  apply Nat.ltb_lt in Elt. destruct t as [|i].
  - rewrite Ht0 in E. cbn [stat] in E. destruct st0; try discriminate E; discriminate Hok0.
  - assert (Hi : i < NS lims) by lia.
    destruct (HPR i Hi) as (pp & stp & rp & cp & Hth & Hpk & _).
    cbn [Nat.add] in Hth. rewrite Hth in E. cbn [stat] in E.
    destruct stp; try discriminate E. cbn in Hpk. discriminate Hpk.
Qed.

Theorem Rsd_step s l s' : Rsd lims s -> exec P s l = Some s' -> Rsd lims s'.
Proof.
  intros R E. destruct l as [t pick|t].
  - destruct t as [|i]; [eapply sd_step_main; eauto|eapply sd_step_prod; eauto].
  - eapply sd_step_spur; eauto.
Qed.

Theorem Rsd_reach s : reach P (init_ssd lims rs kk) s -> Rsd lims s.
Proof.
  intros R. induction R as [|s s' R IH [l E]]; [apply Rsd_init|]. eapply Rsd_step; eauto.
Qed.

Lemma nodup_app_l (a b : list cb) : NoDup (a ++ b) -> NoDup a.
Proof.
  induction a as [|x a IH]; intros H; [constructor|]. cbn in H. inversion H as [|y l Hn Hd]; subst.
  constructor; [|apply IH; exact Hd]. intros Hin. apply Hn. apply in_or_app. left. exact Hin.
Qed.
Lemma nodup_perm_prefix (l a b : list cb) : Permutation l (a ++ b) -> NoDup l -> NoDup a.
Proof.
  intros Hp Hn. apply (Permutation_NoDup Hp) in Hn. apply nodup_app_l in Hn. exact Hn.
Qed.

Theorem sd_exec_once s : reach P (init_ssd lims rs kk) s ->
  fault s = None /\
  NoDup (subm s) /\
  NoDup (map fst (ran s)) /\
  (exists rest, Permutation (subm s) (map fst (ran s) ++ rest)) /\
  (forall c t, In (c, t) (ran s) -> t = 0) /\
  (stat (thr s 0) = Done -> que s 2 = [] /\ Permutation (map fst (ran s)) (subm s) /\
                            forall t, t < nthr s -> stat (thr s t) = Done).
Proof.
  intros R. apply Rsd_reach in R.
  destruct R as (p0 & st0 & r0 & c0 & l0 & cu0 & om & Ht0 & HOM & Hn & Hpa & Hf & Hok0 & Hreg & Hc0 & Hm1 & Homlt &
          HownO & Hal & Hp98 & Hq & HG & Hran & Hsub & Hch & HPR).
  assert (ND : NoDup (subm s)).
  { apply nodup_by_key. intros k.
    destruct (lt_dec k (1 + NS lims)) as [Hk|Hk].
    - destruct k as [|i]; [rewrite Hch; apply seq_NoDup|].
      assert (Hi : i < NS lims) by lia.
      destruct (HPR i Hi) as (pp & stp & rp & cp & _ & _ & _ & _ & _ & Hsu). cbn [Nat.add] in Hsu. rewrite Hsu. apply seq_NoDup.
    - rewrite filter_none; [constructor|]. intros c Hc. apply Hsub in Hc. lia. }
  split; [exact Hf|]. split; [exact ND|]. split; [|split; [|split]].
  - eapply nodup_perm_prefix; [exact HG|exact ND].
  - eexists. exact HG.
  - exact Hran.
  - intros Hd. rewrite Ht0 in Hd. cbn in Hd. subst st0.
    cbn in Hok0. apply Nat.eqb_eq in Hok0. subst p0.
    destruct Hq as (Hq1 & _ & Hq3 & _ & Hq5). specialize (Hq1 eq_refl). specialize (Hq3 eq_refl). specialize (Hq5 eq_refl).
    cbn in Hc0. destruct cu0; [discriminate Hc0|].
    split; [exact Hq5|]. split.
    + rewrite Hq1, Hq3, Hq5 in HG. cbn in HG. rewrite app_nil_r in HG. apply Permutation_sym. exact HG.
    + intros t Ht. rewrite Hn in Ht. destruct t as [|i].
      * rewrite Ht0. reflexivity.
      * assert (Hi : i < NS lims) by lia.
        destruct (HPR i Hi) as (pp & stp & rp & cp & Hth & _ & _ & Hjn & _).
        cbn [Nat.add] in Hth. rewrite Hth. cbn. apply Hjn. reflexivity.
Qed.
End E.
