(* C17.PoolReUq: ThreadPool with two-stage jobs (init_poolre n r): the closure ids are unique -- the owner's ids are its
   counter values, a follow-up's id is (worker id, that worker's own counter) -- so NoDup (subm s) in every reachable state,
   and with the drained clause: every closure handed in has run exactly once when JoinAll() has returned. *)
From Coq Require Import List Arith Bool Lia Permutation.
Import ListNotations.
From C17 Require Import Sem Progs Static Annot Owner Effects Conserve Pool PoolD PoolRe PoolReD PoolReFin.

Definition UQ (s : state) : Prop :=
  NoDup (subm s) /\
  ((pc (thr s 0) <=? 14) = true -> forall k, ~ In (0, k) (subm s)) /\
  (inl (pc (thr s 0)) [15;16;17;18;19;20;21] = true -> forall k, In (0, k) (subm s) -> k < cnt (thr s 0)) /\
  (forall k, In (1, k) (subm s) -> k < reg (thr s 1)) /\
  (forall k, In (2, k) (subm s) -> k < reg (thr s 2)).

Lemma UQ_init n r : UQ (init_poolre n r).
Proof. unfold UQ. cbn. split; [constructor|]. repeat split; intros; try contradiction; intros []. Qed.

Lemma nodup_snoc (l : list cb) x : NoDup l -> ~ In x l -> NoDup (l ++ [x]).
Proof.
  intros H N. induction l as [|a l IH]; cbn; [constructor; [intros []|constructor]|].
  inversion H; subst. constructor.
  - intros Y. apply in_app_or in Y. destruct Y as [Y|[Y|[]]]; [contradiction|]. apply N. left. symmetry. exact Y.
  - apply IH; [assumption|intros Y; apply N; right; exact Y].
Qed.
Lemma in_snoc_ne (l : list cb) (a b : cb) : In a (l ++ [b]) -> fst a <> fst b -> In a l.
Proof. intros H N. apply in_app_or in H. destruct H as [H|[H|[]]]; [exact H|]. subst. contradiction. Qed.

Lemma UQ_step_w1 s k s' : Inv P An s -> PLR s -> UQ s -> exec P s (LStep 1 k) = Some s' -> UQ s'.
Proof.
  intros HI (p0 & st0 & r0 & c0 & l0 & H0 & Hn & H1 & H2 & _) (U0 & U1 & U2 & U3 & U4) E.
  pose proof (step_effects P s 1 k s' E) as [Eo Ev En Er Es].
  destruct (only_stat_fields _ _ (Eo 0 ltac:(discriminate))) as (_ & Q0 & _ & Q2 & _).
  destruct (only_stat_fields _ _ (Eo 2 ltac:(discriminate))) as (_ & _ & RO & _).
  clear Eo Ev En Er Es.
  destruct (thr s 1) as [pg pp stp rp cp lp cuw] eqn:Hw. cbn in H1. subst pg. cbn [reg] in U3.
  assert (FIN : forall pp' stp' rp' cp' lp' cuw',
     thr s' 1 = mkT 30 pp' stp' rp' cp' lp' cuw' ->
     (subm s' = subm s /\ rp' = rp) \/ (subm s' = subm s ++ [(1, rp)] /\ rp' = S rp) -> UQ s').
  { intros pp' stp' rp' cp' lp' cuw' T [[a b]|[a b]]; unfold UQ; rewrite a, Q0, Q2, RO, T; cbn [reg]; subst rp'.
    - split; [exact U0|]. split; [exact U1|]. split; [exact U2|]. split; assumption.
    - split; [apply nodup_snoc; [exact U0|intros X; apply U3 in X; lia]|].
      split; [intros X k0 Y; apply (U1 X k0); apply (in_snoc_ne _ _ _ Y); cbn; discriminate|].
      split; [intros X k0 Y; apply (U2 X k0); apply (in_snoc_ne _ _ _ Y); cbn; discriminate|].
      split; intros k0 Y.
      + apply in_app_or in Y. destruct Y as [Y|[Y|[]]]; [apply U3 in Y; lia|inversion Y; lia].
      + apply U4. apply (in_snoc_ne _ _ _ Y). cbn. discriminate. }
  unfold exec in E. destruct (fault s); [discriminate|]. rewrite Hn in E. cbn [Nat.ltb Nat.leb negb] in E.
  rewrite Hw in E. cbn [stat] in E.
  destruct stp; try discriminate E.
  - inversion E; subst s'. eapply FIN; [cbn; unfold upd; cbn; reflexivity|left; split; reflexivity].
  - destruct pp as [|[|[|[|[|[|[|[|[|[|[|[|[|[|[|[|[|[|[|[|[|pp]]]]]]]]]]]]]]]]]]]]];
    cbn in E; try (destruct pp; cbn in E); unfold live, obj_of in E; cbn in E;
    repeat match type of E with
           | (if ?c then _ else _) = _ => destruct c eqn:?
           | match ?x with _ => _ end = _ => destruct x eqn:?
           end;
    try discriminate E; cbn in E; rewrite ?Hw in E; cbn in E; try discriminate E;
    repeat match type of E with
           | context [if ?c then _ else _] => destruct c eqn:?
           | context [match que s ?q with _ => _ end] => destruct (que s q) eqn:?
           | context [match wq s ?q with _ => _ end] => destruct (wq s q) eqn:?
           end;
    cbn in E; try discriminate E;
    (inversion E; subst s'; clear E);
    (eapply FIN; [cbn; unfold upd; cbn;
                   rewrite ?wake_keep, ?wakes_keep by (cbn; rewrite ?Hw; reflexivity);
                   cbn; rewrite ?Hw; cbn; reflexivity
                 | cbn; rewrite ?(proj1 (proj2 (wake_ran _ _))), ?(proj1 (proj2 (wakes_ran _ _))); cbn;
                   first [left; split; reflexivity | right; split; reflexivity] ]).
  - destruct (fetch P {| prog := 30; pc := pp; stat := Asleep c m; reg := rp; cnt := cp; lim := lp; cur := cuw |}) eqn:EF;
      try discriminate E.
    exfalso. unfold fetch in EF. cbn [prog pc] in EF. revert EF.
    do 22 (destruct pp as [|pp]; [discriminate|]). discriminate.
  - destruct (negb (live s m)); [inversion E; subst s'; eapply FIN; [cbn; rewrite Hw; reflexivity|left; split; reflexivity]|].
    destruct (own s m); [discriminate|]. inversion E; subst s'.
    eapply FIN; [cbn; unfold upd; cbn; reflexivity|left; split; reflexivity].
Qed.

Lemma UQ_step_w2 s k s' : Inv P An s -> PLR s -> UQ s -> exec P s (LStep 2 k) = Some s' -> UQ s'.
Proof.
  intros HI (p0 & st0 & r0 & c0 & l0 & H0 & Hn & H1 & H2 & _) (U0 & U1 & U2 & U3 & U4) E.
  pose proof (step_effects P s 2 k s' E) as [Eo Ev En Er Es].
  destruct (only_stat_fields _ _ (Eo 0 ltac:(discriminate))) as (_ & Q0 & _ & Q2 & _).
  destruct (only_stat_fields _ _ (Eo 1 ltac:(discriminate))) as (_ & _ & RO & _).
  clear Eo Ev En Er Es.
  destruct (thr s 2) as [pg pp stp rp cp lp cuw] eqn:Hw. cbn in H2. subst pg. cbn [reg] in U4.
  assert (FIN : forall pp' stp' rp' cp' lp' cuw',
     thr s' 2 = mkT 31 pp' stp' rp' cp' lp' cuw' ->
     (subm s' = subm s /\ rp' = rp) \/ (subm s' = subm s ++ [(2, rp)] /\ rp' = S rp) -> UQ s').
  { intros pp' stp' rp' cp' lp' cuw' T [[a b]|[a b]]; unfold UQ; rewrite a, Q0, Q2, RO, T; cbn [reg]; subst rp'.
    - split; [exact U0|]. split; [exact U1|]. split; [exact U2|]. split; assumption.
    - split; [apply nodup_snoc; [exact U0|intros X; apply U4 in X; lia]|].
      split; [intros X k0 Y; apply (U1 X k0); apply (in_snoc_ne _ _ _ Y); cbn; discriminate|].
      split; [intros X k0 Y; apply (U2 X k0); apply (in_snoc_ne _ _ _ Y); cbn; discriminate|].
      split; intros k0 Y.
      + apply U3. apply (in_snoc_ne _ _ _ Y). cbn. discriminate.
      + apply in_app_or in Y. destruct Y as [Y|[Y|[]]]; [apply U4 in Y; lia|inversion Y; lia]. }
  unfold exec in E. destruct (fault s); [discriminate|]. rewrite Hn in E. cbn [Nat.ltb Nat.leb negb] in E.
  rewrite Hw in E. cbn [stat] in E.
  destruct stp; try discriminate E.
  - inversion E; subst s'. eapply FIN; [cbn; unfold upd; cbn; reflexivity|left; split; reflexivity].
  - destruct pp as [|[|[|[|[|[|[|[|[|[|[|[|[|[|[|[|[|[|[|[|[|pp]]]]]]]]]]]]]]]]]]]]];
    cbn in E; try (destruct pp; cbn in E); unfold live, obj_of in E; cbn in E;
    repeat match type of E with
           | (if ?c then _ else _) = _ => destruct c eqn:?
           | match ?x with _ => _ end = _ => destruct x eqn:?
           end;
    try discriminate E; cbn in E; rewrite ?Hw in E; cbn in E; try discriminate E;
    repeat match type of E with
           | context [if ?c then _ else _] => destruct c eqn:?
           | context [match que s ?q with _ => _ end] => destruct (que s q) eqn:?
           | context [match wq s ?q with _ => _ end] => destruct (wq s q) eqn:?
           end;
    cbn in E; try discriminate E;
    (inversion E; subst s'; clear E);
    (eapply FIN; [cbn; unfold upd; cbn;
                   rewrite ?wake_keep, ?wakes_keep by (cbn; rewrite ?Hw; reflexivity);
                   cbn; rewrite ?Hw; cbn; reflexivity
                 | cbn; rewrite ?(proj1 (proj2 (wake_ran _ _))), ?(proj1 (proj2 (wakes_ran _ _))); cbn;
                   first [left; split; reflexivity | right; split; reflexivity] ]).
  - destruct (fetch P {| prog := 31; pc := pp; stat := Asleep c m; reg := rp; cnt := cp; lim := lp; cur := cuw |}) eqn:EF;
      try discriminate E.
    exfalso. unfold fetch in EF. cbn [prog pc] in EF. revert EF.
    do 22 (destruct pp as [|pp]; [discriminate|]). discriminate.
  - destruct (negb (live s m)); [inversion E; subst s'; eapply FIN; [cbn; rewrite Hw; reflexivity|left; split; reflexivity]|].
    destruct (own s m); [discriminate|]. inversion E; subst s'.
    eapply FIN; [cbn; unfold upd; cbn; reflexivity|left; split; reflexivity].
Qed.

Lemma UQ_step_spur s t s' : UQ s -> exec P s (LSpur t) = Some s' -> UQ s'.
Proof.
  intros (U0 & U1 & U2 & U3 & U4) E. destruct (spur_effects P s t s' E) as (Eo & _ & _ & _ & Es).
  destruct (only_stat_fields _ _ (Eo 0)) as (_ & Q0 & _ & Q2 & _).
  destruct (only_stat_fields _ _ (Eo 1)) as (_ & _ & R1 & _).
  destruct (only_stat_fields _ _ (Eo 2)) as (_ & _ & R2 & _).
  unfold UQ. rewrite Es, Q0, Q2, R1, R2. repeat split; assumption.
Qed.

Lemma UQ_step_owner s k s' : PLR s -> UQ s -> exec P s (LStep 0 k) = Some s' -> UQ s'.
Proof.
  intros (p0 & st0 & r0 & c0 & l0 & H0 & Hn & H1 & H2 & Hwk) (U0 & U1 & U2 & U3 & U4) E.
  pose proof (step_effects P s 0 k s' E) as [Eo Ev En Er Es].
  destruct (only_stat_fields _ _ (Eo 1 ltac:(discriminate))) as (_ & _ & R1 & _).
  destruct (only_stat_fields _ _ (Eo 2 ltac:(discriminate))) as (_ & _ & R2 & _).
  clear Eo Ev En Er Es.
  rewrite H0 in U1, U2. cbn [pc cnt] in U1, U2.
  assert (FIN : forall p0' st0' r0' c0' l0',
     thr s' 0 = mkT 16 p0' st0' r0' c0' l0' None ->
     (subm s' = subm s /\ ((p0' <=? 14) = true -> (p0 <=? 14) = true) /\
      (inl p0' [15;16;17;18;19;20;21] = true ->
         (inl p0 [15;16;17;18;19;20;21] = true /\ c0' = c0) \/ ((p0 <=? 14) = true)))
     \/ (subm s' = subm s ++ [(0, c0)] /\ p0 = 18 /\ p0' = 19 /\ c0' = S c0) -> UQ s').
  { intros p0' st0' r0' c0' l0' T [(a & b & c)|(a & -> & -> & ->)]; unfold UQ; rewrite a, R1, R2, T; cbn [pc cnt].
    - split; [exact U0|]. split; [intros X; exact (U1 (b X))|]. split; [|split; assumption].
      intros X k0 Y. destruct (c X) as [[c1 ->]|c1]; [exact (U2 c1 k0 Y)|exfalso; exact (U1 c1 k0 Y)].
    - split; [apply nodup_snoc; [exact U0|intros X; apply (U2 eq_refl) in X; lia]|].
      split; [intros X; discriminate X|]. split; [|split; intros k0 Y; [apply U3|apply U4]; apply (in_snoc_ne _ _ _ Y); cbn; discriminate].
      intros _ k0 Y. apply in_app_or in Y. destruct Y as [Y|[Y|[]]]; [apply (U2 eq_refl) in Y; lia|inversion Y; lia]. }
  unfold exec in E. destruct (fault s); [discriminate|]. rewrite Hn in E. cbn [Nat.ltb Nat.leb negb] in E.
  rewrite H0 in E. cbn [stat] in E.
  destruct st0; try discriminate E.
  - inversion E; subst s'. eapply FIN; [cbn; unfold upd; cbn; reflexivity|left; split; [reflexivity|split; [intros X; exact X|intros X; left; split; [exact X|reflexivity]]]].
  - destruct p0 as [|[|[|[|[|[|[|[|[|[|[|[|[|[|[|[|[|[|[|[|[|[|[|[|[|[|[|[|[|[|[|[|[|[|[|[|[|[|[|[|[|[|[|[|[|p0]]]]]]]]]]]]]]]]]]]]]]]]]]]]]]]]]]]]]]]]]]]]];
    cbn in E; try (destruct p0; cbn in E); unfold live, obj_of in E; cbn in E;
    repeat match type of E with
           | (if ?c then _ else _) = _ => destruct c eqn:?
           | match ?x with _ => _ end = _ => destruct x eqn:?
           end;
    try discriminate E; cbn in E; rewrite ?H0 in E; cbn in E; try discriminate E;
    repeat match type of E with
           | context [if ?c then _ else _] => destruct c eqn:?
           | context [match que s ?q with _ => _ end] => destruct (que s q) eqn:?
           | context [match wq s ?q with _ => _ end] => destruct (wq s q) eqn:?
           end;
    cbn in E; try discriminate E;
    (inversion E; subst s'; clear E);
    (eapply FIN; [cbn; unfold upd; cbn;
                   rewrite ?wake_keep, ?wakes_keep by (cbn; rewrite ?H0; reflexivity);
                   cbn; rewrite ?H0; cbn; reflexivity
                 | cbn; rewrite ?(proj1 (proj2 (wake_ran _ _))), ?(proj1 (proj2 (wakes_ran _ _))); cbn;
                   first [ (right; repeat split; reflexivity)
                         | (left; split; [reflexivity|split; [first [intros XX; discriminate XX | (intros _; reflexivity)]
                                                            | first [intros XX; discriminate XX | (intros _; left; split; reflexivity) | (intros _; right; reflexivity)]]]) ] ]).
  - destruct (fetch P {| prog := 16; pc := p0; stat := Asleep c m; reg := r0; cnt := c0; lim := l0; cur := None |}) eqn:EF;
      try discriminate E.
    exfalso. unfold fetch in EF. cbn [prog pc] in EF. revert EF.
    do 46 (destruct p0 as [|p0]; [discriminate|]). discriminate.
  - destruct (negb (live s m)); [inversion E; subst s'; eapply FIN; [cbn; rewrite H0; reflexivity|left; split; [reflexivity|split; [intros X; exact X|intros X; left; split; [exact X|reflexivity]]]]|].
    destruct (own s m); [discriminate|]. inversion E; subst s'.
    cbn in Hwk. unfold inl in Hwk. cbn in Hwk. rewrite !orb_true_iff, !Nat.eqb_eq in Hwk.
    destruct Hwk as [->|[->|X]]; [ | |discriminate X];
      (eapply FIN; [cbn; unfold upd; cbn; reflexivity|left; split; [reflexivity|split; [intros _; reflexivity|intros XX; discriminate XX]]]).
Qed.

Lemma poolre_uq n r s : reach P (init_poolre n r) s -> UQ s.
Proof.
  intros R. induction R as [|s s' R IH [l E]]; [apply UQ_init|].
  destruct (poolre_xj n r s R) as (HP & _). destruct (poolre_conserved n r s R) as (HI & _).
  assert (Hn : nthr s = 3) by (destruct HP as (? & ? & ? & ? & ? & _ & Hn & _); exact Hn).
  destruct l as [t k|t].
  - destruct t as [|[|[|t]]].
    + exact (UQ_step_owner s k s' HP IH E).
    + exact (UQ_step_w1 s k s' HI HP IH E).
    + exact (UQ_step_w2 s k s' HI HP IH E).
    + exfalso. unfold exec in E. destruct (fault s); [discriminate|]. rewrite Hn in E. discriminate E.
  - exact (UQ_step_spur s t s' IH E).
Qed.

Theorem poolre_nodup n r s : reach P (init_poolre n r) s -> NoDup (subm s) /\ NoDup (map fst (ran s)).
Proof.
  intros R. destruct (poolre_uq n r s R) as (U0 & _). split; [exact U0|].
  destruct (poolre_conserved n r s R) as (_ & HC). apply (Permutation_NoDup HC) in U0. exact (nodup_app_l _ _ U0).
Qed.

(* JoinAll() has returned: every closure handed in -- by the owner or by a running closure, also after shutdown began --
   has run exactly once *)
Theorem poolre_exactly_once n r s : reach P (init_poolre n r) s -> stat (thr s 0) = Done ->
  que s PQ = [] /\ curs s = [] /\ NoDup (subm s) /\ NoDup (map fst (ran s)) /\
  (forall c, In c (subm s) <-> In c (map fst (ran s))) /\ length (ran s) = length (subm s).
Proof.
  intros R HD. destruct (poolre_drained n r s R HD) as (_ & _ & Hq & _ & Hc & HP).
  destruct (poolre_nodup n r s R) as (N1 & N2).
  split; [exact Hq|]. split; [exact Hc|]. split; [exact N1|]. split; [exact N2|]. split.
  - intros c. split; intros X; [exact (Permutation_in c HP X)|exact (Permutation_in c (Permutation_sym HP) X)].
  - rewrite (Permutation_length HP). symmetry. apply map_length.
Qed.
