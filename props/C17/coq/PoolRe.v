(* C17.PoolRe: the ThreadPool scenario with two-stage jobs (closures that hand a follow-up to the same pool when they are
   run, possibly after JoinAll() has set m_shutdown): conservation for all schedules, any n and r; and the Future
   assignment scenario: the reference count after the owner's handle operations (witness by computation). *)
From Coq Require Import List Arith Bool Lia Permutation.
Import ListNotations.
From C17 Require Import Sem Progs Static Annot Owner Conserve.

Lemma poolre_qonly n r s : reach P (init_poolre n r) s ->
  forall t, t < nthr s -> forallb (qonly PQ) (P (prog (thr s t))) = true.
Proof.
  intros R t _. rewrite (reach_prog P _ s t R). unfold init_poolre, base_state. cbn [thr].
  destruct t as [|[|[|t]]]; vm_compute; reflexivity.
Qed.

Theorem poolre_conserved n r s : reach P (init_poolre n r) s ->
  Inv P An s /\ Permutation (subm s) (map fst (ran s) ++ curs s ++ que s PQ).
Proof.
  intros R. induction R as [|s s' R IH [l E]].
  - split; [exact (proj1 (initial_inv _ (init_plr n r)))|]. unfold curs. cbn. constructor.
  - destruct IH as (HI & HC). split; [eapply (inv_step P An gv gq check_all); eauto|].
    eapply (ci_step An gv gq check_all PQ); eauto. apply (poolre_qonly n r). exact R.
Qed.

(* nothing is run twice from one pop, and a worker that is finished holds no closure *)
Theorem poolre_done_empty_hand n r s t : reach P (init_poolre n r) s -> stat (thr s t) = Done -> cur (thr s t) = None.
Proof.
  intros R H. destruct (poolre_conserved n r s R) as [HI _]. pose proof (HI t) as It. unfold habs in It. rewrite H in It. exact (proj2 It).
Qed.

(* lowest enabled thread first *)
Fixpoint greedy2 (fuel : nat) (s : state) : state :=
  match fuel with
  | 0 => s
  | S f =>
      match exec P s (LStep 0 0) with
      | Some s' => greedy2 f s'
      | None => match exec P s (LStep 1 0) with
                | Some s' => greedy2 f s'
                | None => match exec P s (LStep 2 0) with
                          | Some s' => greedy2 f s'
                          | None => s
                          end
                end
      end
  end.
Lemma greedy2_reach s0 fuel : forall s, reach P s0 s -> reach P s0 (greedy2 fuel s).
Proof.
  induction fuel as [|f IH]; intros s R; cbn [greedy2]; [exact R|].
  destruct (exec P s (LStep 0 0)) as [s'|] eqn:E0; [apply IH; eapply reach_step; [exact R|eexists; exact E0]|].
  destruct (exec P s (LStep 1 0)) as [s'|] eqn:E1; [apply IH; eapply reach_step; [exact R|eexists; exact E1]|].
  destruct (exec P s (LStep 2 0)) as [s'|] eqn:E2; [apply IH; eapply reach_step; [exact R|eexists; exact E2]|].
  exact R.
Qed.

(* the owner-first schedule: every closure is queued and m_shutdown is set before a worker runs anything, so the
   follow-up of the two-stage job is handed in after shutdown began -- and is still run, exactly once *)
Example poolre_late_followup_runs : exists s, reach P (init_poolre 1 1) s /\
  stat (thr s 0) = Done /\ stat (thr s 1) = Done /\ stat (thr s 2) = Done /\
  que s PQ = [] /\ subm s = [(0, 0); (1, 0)] /\ map fst (ran s) = [(0, 0); (1, 0)] /\ fault s = None.
Proof.
  exists (greedy2 260 (init_poolre 1 1)). split; [apply greedy2_reach; apply reach_refl|]. vm_compute. repeat split.
Qed.

(* the Future handle operations: after f = f, Future g(f), g = f, Future h, h = f, swap(g, h) and the copy for the
   setter there are four holders of the shared state (object 1) and the state h first owned (object 3) has been freed;
   under the owner-first schedule the run ends with both states freed exactly once and no fault *)
Example futasg_refcount : exists s, reach P init_fut_asg s /\ pc (thr s 0) = 51 /\
  var s REF = 4 /\ alive s 1 = true /\ alive s 3 = false /\ fault s = None.
Proof.
  exists (greedy2 47 init_fut_asg). split; [apply greedy2_reach; apply reach_refl|]. vm_compute. repeat split.
Qed.
Example futasg_finishes : exists s, reach P init_fut_asg s /\
  stat (thr s 0) = Done /\ stat (thr s 1) = Done /\ alive s 1 = false /\ alive s 3 = false /\
  outs s = [(0, OUT_GET, THE_VALUE)] /\ fault s = None.
Proof.
  exists (greedy2 200 init_fut_asg). split; [apply greedy2_reach; apply reach_refl|]. vm_compute. repeat split.
Qed.
