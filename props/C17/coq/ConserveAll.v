(* C17.ConserveAll: the conservation theorem instantiated for the ExecutorThread scenarios, including callbacks that
   call Execute again (execre): all schedules, any number of producers / callbacks / re-submissions. *)
From Coq Require Import List Arith Bool Lia Permutation.
Import ListNotations.
From C17 Require Import Sem Progs Static Annot Owner Conserve.

Lemma flat_map_all_nil {A B} (f : A -> list B) l : (forall x, f x = []) -> flat_map f l = [].
Proof. intros H. induction l as [|x l IH]; [reflexivity|]. cbn. rewrite H, IH. reflexivity. Qed.

Lemma execre_qonly lims rs s : reach P (init_execre lims rs) s ->
  forall t, t < nthr s -> forallb (qonly Q) (P (prog (thr s t))) = true.
Proof.
  intros R t _. rewrite (reach_prog P _ s t R). unfold init_execre, base_state. cbn [thr].
  destruct t as [|[|i]]; [vm_compute; reflexivity|vm_compute; reflexivity|].
  destruct (i <? length lims); vm_compute; reflexivity.
Qed.

Theorem execre_conserved lims rs s : reach P (init_execre lims rs) s ->
  Permutation (subm s) (map fst (ran s) ++ curs s ++ que s Q).
Proof.
  intros R.
  assert (H : Inv P An s /\ CI Q s).
  { induction R as [|s s' R IH [l E]].
    - split; [exact (proj1 (initial_inv _ (init_er lims rs)))|]. unfold CI, curs. cbn.
      rewrite flat_map_all_nil; [constructor|]. intros t. destruct t as [|[|i]]; try reflexivity.
      match goal with |- context [if ?c then _ else _] => destruct c end; reflexivity.
    - destruct IH as (HI & HC). split; [eapply (inv_step P An gv gq check_all); eauto|].
      eapply (ci_step An gv gq check_all Q); eauto. apply (execre_qonly lims rs). exact R. }
  exact (proj2 H).
Qed.
