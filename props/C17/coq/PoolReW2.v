From Coq Require Import List Arith Bool Lia Permutation.
Import ListNotations.
From C17 Require Import Sem Progs Static Annot Owner Effects Conserve Pool PoolD PoolReD.

Lemma XJ_step_w2 s k s' : Inv P An s -> PLR s -> XJ s -> exec P s (LStep 2 k) = Some s' -> XJ s'.
Proof.
  intros HI (p0 & st0 & r0 & c0 & l0 & H0 & Hn & H1 & H2 & Hwk) HX E.
  pose proof (step_effects P s 2 k s' E) as [Eo Ev En Er Es].
  destruct (only_stat_fields _ _ (Eo 0 ltac:(discriminate))) as (_ & Q0 & Q1 & Q2 & _).
  destruct (only_stat_fields _ _ (Eo 1 ltac:(discriminate))) as (_ & PO & _).
  pose proof (Ev 0 ltac:(discriminate)) as V0. pose proof (Ev 1 ltac:(discriminate)) as VO.
  clear Eo Ev En Er Es.
  destruct (thr s 2) as [pg pp stp rp cp lp cuw] eqn:Hw. cbn in H2. subst pg.
  unfold XJ in HX. rewrite H0 in HX. rewrite ?Hw in HX. cbn [pc reg cnt stat] in HX.
  destruct HX as (X1 & X2 & X3 & X4 & X5 & X6 & X7 & X8 & X9 & X10 & W1 & W2 & J0).
  unfold WJ, EX in W2. rewrite Hw in W2. cbn [pc stat] in W2. destruct W2 as (A & B & C & D).
  assert (J1 : (stp = Ready /\ pp = 19) \/ pp = 20 -> EX s 1 -> que s 16 = []).
  { intros Y Z. apply J0; [exact Z|]. unfold EX. rewrite Hw. exact Y. }
  rewrite H0 in V0, Q0, Q1, Q2. cbn [pc reg cnt stat] in V0, Q0, Q1, Q2.
  assert (FIN : forall pp' stp' rp' cp' lp' cuw',
     thr s' 2 = mkT 31 pp' stp' rp' cp' lp' cuw' ->
     var s' 16 = var s 16 -> var s' 17 = var s 17 -> (var s' 18 = var s 18 \/ var s' 18 = 1) ->
     ((32 <=? p0) = true -> stp' = Done) ->
     WJ s' 1 ->
     (stp' = Ready -> inl pp' [16;17] = true -> que s' 16 = []) ->
     ((stp' = Ready /\ pp' = 19) \/ pp' = 20 -> var s' 16 = 1) ->
     (stp' = Done -> pp' = 20) -> (pp' <=? 20) = true ->
     ((stp' = Ready /\ pp' = 19) \/ pp' = 20 -> EX s' 1 -> que s' 16 = []) -> XJ s').
  { intros pp' stp' rp' cp' lp' cuw' T a16 aO aW aD wO b1 b2 b3 b4 b5.
    unfold XJ. rewrite Q0, Q1, Q2. cbn zeta.
    split; [rewrite a16; exact X1|].
    split; [intros X; destruct aW as [-> | ->]; [exact (X2 X)|reflexivity]|]. split; [exact X3|]. split; [intros X; rewrite aO; exact (X4 X)|]. split; [exact X5|]. split; [exact X6|].
    split; [intros X; rewrite T; cbn; exact (aD X)|]. split; [intros X; exact (evol_done _ _ VO (X8 X))|].
    split; [intros X; exact (X9 (evol_done_inv _ _ V0 X))|]. split; [exact X10|].
    split; [exact wO|split; [|]].
    { unfold WJ, EX. rewrite T. cbn [pc stat]. split; [exact b1|]. split; [exact b2|]. split; [exact b3|exact b4]. }
    unfold JJ. intros Y1 Y2. apply b5; [|exact Y1]. unfold EX in Y2. rewrite T in Y2. exact Y2. }
  unfold exec in E. destruct (fault s); [discriminate|]. rewrite Hn in E. cbn [Nat.ltb Nat.leb negb] in E.
  rewrite Hw in E. cbn [stat] in E.
  destruct stp; try discriminate E.
  - (* Fresh *)
    inversion E; subst s'.
    assert (Z : pp = 0).
    { pose proof (HI 2) as It. unfold habs in It. rewrite Hw in It. cbn in It. destruct It as (Z & _). exact Z. }
    subst pp.
    eapply FIN; [cbn; unfold upd; cbn; reflexivity|reflexivity|reflexivity|left; reflexivity|cbn in X7; intros X; discriminate (X7 X)
                |eapply WJ_keep; [exact PO|exact VO|reflexivity|left; reflexivity|exact W1]| | | |reflexivity|].
    + intros _ X. discriminate X.
    + intros [[_ X]|X]; discriminate X.
    + intros X. discriminate X.
    + intros [[_ X]|X]; discriminate X.
  - (* Ready *)
    destruct pp as [|[|[|[|[|[|[|[|[|[|[|[|[|[|[|[|[|[|[|[|[|pp]]]]]]]]]]]]]]]]]]]]];
    cbn in E; try (destruct pp; cbn in E); unfold live, obj_of in E; cbn in E;
    repeat match type of E with
           | (if ?c then _ else _) = _ => destruct c eqn:?
           | match ?x with _ => _ end = _ => destruct x eqn:?
           end;
    try discriminate E; cbn in E; rewrite ?Hw in E; cbn in E; try discriminate E;
    repeat match type of E with
           | context [if ?c then _ else _] => destruct c eqn:?
           | context [match que s ?q with _ => _ end] => destruct (que s q) eqn:?
           | context [match wq s ?q with _ => _ end] => destruct (wq s q) eqn:?
           end;
    cbn in E; try discriminate E;
    (inversion E; subst s'; clear E);
    cbn in A, B, C, D, J1; try discriminate D;
    (eapply FIN; [cbn; unfold upd; cbn;
                   rewrite ?wake_keep, ?wakes_keep by (cbn; rewrite ?Hw; reflexivity);
                   cbn; rewrite ?Hw; cbn; reflexivity | .. ]);
    try (nv; reflexivity);
    try (left; nv; reflexivity); try (right; nv; reflexivity);
    try (cbn in X7; intros X; discriminate (X7 X));
    try (eapply WJ_keep; [exact PO|exact VO|nv; reflexivity|left; nv; reflexivity|exact W1]);
    try (assert (OW : own s 16 = Some 2) by (apply (ready_owns P An s 2 16 HI); [rewrite Hw; reflexivity|unfold ann; rewrite Hw; reflexivity]);
         eapply WJ_other; [exact PO|exact VO|nv; reflexivity|apply (lock_excl s 1 2 HI); [left; exact H1|discriminate|exact OW]|exact W1]).
    all: cbn.
    all: try reflexivity.
    all: try (intros XX; discriminate XX).
    all: try (intros _ XX; discriminate XX).
    all: try (intros [[_ XX]|XX]; discriminate XX).
    all: try (intros _ _; nv; first [assumption | (apply A; reflexivity)]).
    all: try (intros _; nv; first [(apply Nat.eqb_eq; assumption) | (apply B; left; split; reflexivity) | (apply B; right; reflexivity)]).
    all: try (intros _ Y2; nv; apply J1; [first [left; split; reflexivity | right; reflexivity] | exact (EX_back _ _ _ PO VO Y2)]).
    all: idtac.
  - (* Asleep *)
    assert (Hpp : pp = 17).
    { pose proof (HI 2) as It. unfold habs in It. rewrite Hw in It. cbn [stat] in It. destruct It as ((cc & It) & _).
      destruct pp as [|[|[|[|[|[|[|[|[|[|[|[|[|[|[|[|[|[|[|[|[|pp]]]]]]]]]]]]]]]]]]]]]; cbn in D; try discriminate D;
      cbn in It; destruct It as [It|It]; try discriminate It; reflexivity. }
    subst pp. cbn in E. discriminate E.
  - (* Woken *)
    assert (Hpp : pp = 17).
    { pose proof (HI 2) as It. unfold habs in It. rewrite Hw in It. cbn [stat] in It. destruct It as ((cc & It) & _).
      destruct pp as [|[|[|[|[|[|[|[|[|[|[|[|[|[|[|[|[|[|[|[|[|pp]]]]]]]]]]]]]]]]]]]]]; cbn in D; try discriminate D;
      cbn in It; destruct It as [It|It]; try discriminate It; reflexivity. }
    subst pp. cbn in E.
    destruct (negb (live s m)).
    + inversion E; subst s'; clear E.
      eapply FIN; [cbn; rewrite Hw; reflexivity|reflexivity|reflexivity|left; reflexivity|exact X7
                  |eapply WJ_keep; [exact PO|exact VO|reflexivity|left; reflexivity|exact W1]|exact A|exact B|exact C|exact D|].
      intros Y Y2. apply J1; [exact Y|exact (EX_back _ _ _ PO VO Y2)].
    + destruct (own s m); [discriminate E|].
      inversion E; subst s'; clear E.
      eapply FIN; [cbn; unfold upd; cbn; reflexivity|reflexivity|reflexivity|left; reflexivity|cbn in X7; intros X; discriminate (X7 X)
                  |eapply WJ_keep; [exact PO|exact VO|reflexivity|left; reflexivity|exact W1]| | | |reflexivity|].
      * intros _ X. discriminate X.
      * intros [[_ X]|X]; discriminate X.
      * intros X; discriminate X.
      * intros [[_ X]|X]; discriminate X.
Qed.
