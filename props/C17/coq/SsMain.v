From Coq Require Import List Arith Bool Lia.
Import ListNotations.
From C17 Require Import Sem Progs ExecInv ExecTac SsInv.

Section M.
Variable lims rs : list nat.
Variable kk : nat.

Ltac prA HPR :=
  let i := fresh "i" in let Hi := fresh "Hi" in
  intros i Hi;
  try match goal with EBR : (_ =? _) = true |- _ => apply Nat.eqb_eq in EBR end;
  try match goal with EBR : (_ =? _) = false |- _ => apply Nat.eqb_neq in EBR end;
  destruct (HPR i Hi) as (pp & stp & rp & cp & Hth & Hpk & Hns & Hjn & Hom & Hsu);
  unfold screated, sjoined in Hns, Hjn;
  cbn -[Nat.ltb] in Hth, Hns, Hjn, Hom;
  unfold sPRi, screated, sjoined; cbn -[Nat.ltb]; unfold upd; cbn -[Nat.ltb];
  try (match goal with Hc : thr _ (S ?k) = _ |- _ =>
         tryif constr_eq k i then fail else
         (let Eik := fresh "Eik" in
          destruct (Nat.eq_dec i k) as [Eik|Eik];
          [subst i; rewrite ?Nat.eqb_refl | rewrite ?(proj2 (Nat.eqb_neq i k) Eik)]) end);
  try (match goal with Hc : thr ?ss ?x = _ , Hh : thr ?ss ?x = _ |- _ => rewrite Hc in Hh; inversion Hh; subst end);
  cbn -[Nat.ltb] in Hom;
  try (match goal with Xo : own _ 2 = Some _ |- _ => rewrite Xo in Hom; try rewrite Xo end);
  repeat (match goal with Hc : thr ?ss ?x = _ |- context [thr ?ss ?x] => rewrite Hc end); cbn -[Nat.ltb];
  do 4 eexists; (split; [reflexivity|]).
Ltac prB :=
  (split; [first [assumption | reflexivity | match goal with H : prodok ?a _ = true |- prodok ?a _ = true => exact H end]|]).
Ltac prC :=
  (split; [match goal with Hns : is_ns _ = _ |- _ => first [exact Hns | reflexivity
                 | (rewrite Hns; f_equal; symmetry; apply Nat.ltb_lt; lia)
                 | (rewrite Hns; f_equal; apply Nat.ltb_ge; lia)
                 | (rewrite Hns; apply negb_false_iff; apply Nat.ltb_lt; lia)
                 | (rewrite Hns; apply negb_true_iff; apply Nat.ltb_ge; lia)
                 | (symmetry; apply negb_true_iff; apply Nat.ltb_ge; lia)
                 | (symmetry; apply negb_false_iff; apply Nat.ltb_lt; lia)
                 | (rewrite Hns; f_equal; apply ltb_S_ne; assumption) ] end|]).
Ltac prD :=
  (split; [first [(intros X; discriminate X) | (intros _; reflexivity) | match goal with Hjn : _ -> _ = Done |- _ => first [exact Hjn
                 | (intros X; apply Hjn; apply Nat.ltb_lt; lia)
                 | (intros X; apply Hjn; apply Nat.ltb_lt; apply Nat.ltb_lt in X; lia)
                 | (intros X; apply Nat.ltb_lt in X; lia) ] end]|]).
Ltac prE :=
  (split; [match goal with Hom : _ = Some _ <-> _ |- _ => omfix Hom end
          | first [assumption | (rewrite filt_push_other by lia; assumption)]]).

Lemma ss_step_main s pick s' : Rss lims s -> exec P s (LStep 0 pick) = Some s' -> Rss lims s'.
Proof.
  intros (p0 & st0 & r0 & c0 & l0 & cu0 & om & Ht0 & HOM & Hn & Hpa & Hf & Hok0 & Hreg & Hc0 & Hm1 & Homlt &
          HownO & Hal & Hq & HW & HG & Hran & Hsub & Hch & HPR) E.
  unfold exec in E. rewrite Hf, Hn in E. cbn [Nat.ltb Nat.leb Nat.add negb] in E.
  rewrite Ht0 in E. cbn [stat] in E.
  unfold s0_ok in Hok0; destruct st0; try discriminate Hok0;
  [ apply Nat.eqb_eq in Hok0; subst p0
  | destruct p0 as [|[|[|[|[|[|[|[|[|[|[|[|[|[|[|[|[|[|[|[|[|[|[|[|[|[|[|[|[|[|[|[|[|[|[|[|[|[|p0]]]]]]]]]]]]]]]]]]]]]]]]]]]]]]]]]]]]]]; try (cbn in Hok0; discriminate Hok0)
  | apply Nat.eqb_eq in Hok0; subst p0 ];
  try discriminate E;
  cbn in Hreg, Hc0, Hm1, Hq;
  destruct Hreg as (Hr2 & Hr3); destruct Hq as (Hq1 & Hq2 & Hq3);
  try (destruct (Hr2 eq_refl) as [Hr2a Hr2b]); try (specialize (Hr3 eq_refl));
  try (specialize (Hq1 eq_refl)); try (specialize (Hq2 eq_refl)); try (specialize (Hq3 eq_refl));
  subst;
  (destruct cu0; try discriminate Hc0);
  try (assert (Xom : own s 2 = Some 0) by (apply Hm1; reflexivity));
  do 4 (unfold live, obj_of, IM, INQ, LOC, PIPE in E; cbn in E; rewrite ?Ht0, ?Xom, ?Hal, ?Hpa in E; try (rewrite Hq1 in E by fail); try (rewrite Hq3 in E by fail);
        repeat rewrite HownO in E by lia);
  try (match type of E with context [thr s (S ?k)] =>
         let Hk := fresh "Hk" in assert (Hk : k < NS lims) by lia;
         destruct (HPR k Hk) as (ppc & stpc & rpc & cpc & Hthc & Hpkc & Hnsc & Hjnc & Homc & Hsubc);
         cbn in Hthc; unfold screated in Hnsc; cbn [Nat.leb] in Hnsc; rewrite ?Nat.ltb_irrefl in Hnsc; cbn in Hnsc; rewrite Hthc in E; cbn in E;
         destruct stpc; try discriminate Hnsc; try discriminate E end);
  try discriminate E;
  try (destruct (own s 2) eqn:EOM; [discriminate E|]);
  try (match type of E with context [que s 3] => destruct (que s 3) as [|cq rq] eqn:EQ; [try discriminate E; try congruence|] end);
  try (match type of E with context [match que s 2 with _ => _ end] => destruct (que s 2) as [|cq2 rq2] eqn:EQ2 end);
  try (match type of E with context [if ?c then _ else _] => destruct c eqn:EBR end);
  try (match type of E with context [if ?c then _ else _] => destruct c eqn:EBR2 end);
  try discriminate E.
  all: inversion E; subst s'; clear E.
  all: unfold Rss; do 7 eexists; do 3 (cbn; unfold upd; cbn; rewrite ?Ht0); cbn.
  all: (split; [reflexivity|]); (split; [try reflexivity|]).
  all: (split; [exact Hn|]); (split; [exact Hpa|]); (split; [exact Hf|]); (split; [reflexivity|]).
  all: (split; [ unfold sregok; cbn; split; intros XX; try discriminate XX; try split; try reflexivity; try assumption;
                 try (apply Nat.eqb_neq in EBR); try (apply Nat.eqb_eq in EBR); try lia |]).
  all: (split; [reflexivity|]).
  all: (split; [ cbn; omfix Hm1 |]).
  all: (split; [ first [exact Homlt | (intros tt Xt; cbn in Xt; first [discriminate Xt | (inversion Xt; lia)])] |]).
  all: (split; [ intros rr Hrr; destruct rr as [|[|[|rr]]]; try lia; cbn; apply HownO; lia |]).
  all: (split; [ exact Hal |]).
  all: (split; [ unfold sqfacts; cbn; rewrite ?EQ, ?EQ2; try (rewrite Hq1 by fail); try (rewrite Hq3 by fail); (split; [|split]); intros XX; try discriminate XX; try assumption; try reflexivity; try congruence |]).
  all: (split; [ unfold swk, safe0; cbn; rewrite ?EQ, ?EQ2; try (rewrite Hq1 by fail);
                 first [ (intros XX; exfalso; apply XX; reflexivity)
                       | (intros _; right; left; reflexivity)
                       | (intros _; left; discriminate)
                       | (intros XX; unfold swk, safe0 in HW; cbn in HW; rewrite ?EQ, ?EQ2 in HW;
                          destruct (HW XX) as [HWv|[HWs|[iw [HWi [HWst HWpc]]]]];
                          [ left; exact HWv
                          | discriminate HWs
                          | right; right; exists iw; split; [exact HWi|]; unfold spend; cbn; unfold upd; cbn;
                            try (match goal with Hc : thr _ (S ?k) = _ |- context [Nat.eqb iw ?k] =>
                                   let EW := fresh "EW" in destruct (Nat.eqb iw k) eqn:EW;
                                   [apply Nat.eqb_eq in EW; subst iw; cbn in HWst; rewrite Hc in HWst; discriminate HWst|] end);
                            split; [exact HWst|exact HWpc] ]) ] |]).
  all: (split; [ cbn; rewrite ?map_app; cbn; rewrite ?EQ, ?EQ2 in *; rewrite HG; cbn; try (rewrite Hq1 by fail); try (rewrite Hq3 by fail); cbn; rewrite ?app_nil_r, <- ?app_assoc; reflexivity |]).
  all: (split; [ first [exact Hran | (intros cc tt Hin; apply in_app_or in Hin; destruct Hin as [Hin|[Hin|[]]]; [eapply Hran; exact Hin | inversion Hin; reflexivity])] |]).
  all: (split; [ first [exact Hsub | (intros cc Hin; apply in_app_or in Hin; destruct Hin as [Hin|[Hin|[]]]; [apply Hsub; exact Hin | subst cc; cbn; lia])] |]).
  all: (split; [ first [exact Hch | (apply filt_push; exact Hch)] |]).
  all: prA HPR.
  all: prB.
  all: prC.
  all: prD.
  all: prE.
Qed.
End M.
