(* C17.Static: a per-program-counter annotation (locks held, "holds a popped callback") checked
   statically on the finite program text, and the generic theorem that the annotation is sound in
   EVERY reachable state of EVERY schedule (induction on the step relation), for any number of
   threads.  Consequences: mutual exclusion, lockset discipline, no unlock of a mutex not held. *)
From Coq Require Import List Arith Bool Lia.
Import ListNotations.
From C17 Require Import Sem.

Record abs := mkA { locks : list nat; hascur : bool }.
Definition dflt := mkA [] false.
Definition annot := nat -> list abs.

Definition mem (m : nat) (l : list nat) : bool := existsb (Nat.eqb m) l.
Definition rem (m : nat) (l : list nat) : list nat := filter (fun x => negb (Nat.eqb x m)) l.
Definition sub (a b : list nat) : bool := forallb (fun x => mem x b) a.
Definition eqs (a b : list nat) : bool := sub a b && sub b a.
Definition eqa (a b : abs) : bool := eqs (locks a) (locks b) && Bool.eqb (hascur a) (hascur b).
Definition guarded (g : option nat) (H : list nat) : bool :=
  match g with Some m => mem m H | None => true end.

Section Checker.
Variable gv gq : nat -> option nat.     (* protecting mutex of each shared variable / queue *)

Definition check_instr (a : list abs) (i : nat) (ins : instr) : bool :=
  let H := nth i a dflt in
  let nx := nth (S i) a dflt in
  let at_ := fun k => nth k a dflt in
  match ins with
  | ILock m => negb (mem m (locks H)) && eqa nx (mkA (m :: locks H) (hascur H))
  | IUnlock m => mem m (locks H) && eqa nx (mkA (rem m (locks H)) (hascur H))
  | IWait c m => mem m (locks H) && eqa nx H
  | ITimedWait c m => mem m (locks H) && eqa nx H
  | IPoll x _ tgt => guarded (gv x) (locks H) && eqa nx H && eqa (at_ tgt) H
  | IRunC t1 t2 => hascur H && eqa nx (mkA (locks H) false) && eqa (at_ t1) (mkA (locks H) false) &&
                   eqa (at_ t2) (mkA (locks H) false)
  | IRunW x t0 t1 => guarded (gv x) (locks H) && hascur H && eqa nx (mkA (locks H) false) &&
                     eqa (at_ t0) (mkA (locks H) false) && eqa (at_ t1) (mkA (locks H) false)
  | IWr x _ => guarded (gv x) (locks H) && eqa nx H
  | IInc x => guarded (gv x) (locks H) && eqa nx H
  | IDec x => guarded (gv x) (locks H) && eqa nx H
  | ILd x => guarded (gv x) (locks H) && eqa nx H
  | IBrVar x _ tgt => guarded (gv x) (locks H) && eqa nx H && eqa (at_ tgt) H
  | IBrReg _ tgt => eqa nx H && eqa (at_ tgt) H
  | IBrDone tgt => eqa nx H && eqa (at_ tgt) H
  | IPush q => guarded (gq q) (locks H) && eqa nx H
  | IBrEmpty q tgt => guarded (gq q) (locks H) && eqa nx H && eqa (at_ tgt) H
  | IPop q => guarded (gq q) (locks H) && negb (hascur H) && eqa nx (mkA (locks H) true)
  | IRun => hascur H && eqa nx (mkA (locks H) false)
  | IJmp tgt => eqa (at_ tgt) H
  | IEnd => eqa H dflt
  | ISwap qa qb => guarded (gq qa) (locks H) && guarded (gq qb) (locks H) && eqa nx H
  | IRunB tgt => hascur H && eqa nx (mkA (locks H) false) && eqa (at_ tgt) (mkA (locks H) false)
  | IPushR q => guarded (gq q) (locks H) && eqa nx H
  | _ => eqa nx H
  end.

Definition check_prog (p : list instr) (a : list abs) : bool :=
  Nat.eqb (length a) (length p) && eqa (nth 0 a dflt) dflt &&
  forallb (fun i => check_instr a i (nth i p IEnd)) (seq 0 (length p)).
End Checker.

(* ------------------------------------------------------------------ set lemmas *)
Lemma mem_In m l : mem m l = true <-> In m l.
Proof.
  unfold mem. rewrite existsb_exists. split.
  - intros [x [Hx E]]. apply Nat.eqb_eq in E. subst. exact Hx.
  - intros H. exists m. split; [exact H|apply Nat.eqb_refl].
Qed.
Lemma rem_In m x l : In x (rem m l) <-> In x l /\ x <> m.
Proof.
  unfold rem. rewrite filter_In. rewrite negb_true_iff, Nat.eqb_neq. tauto.
Qed.
Lemma sub_In a b : sub a b = true -> forall x, In x a -> In x b.
Proof.
  unfold sub. rewrite forallb_forall. intros H x Hx. apply mem_In. apply H. exact Hx.
Qed.
Lemma eqs_In a b : eqs a b = true -> forall x, In x a <-> In x b.
Proof.
  unfold eqs. rewrite andb_true_iff. intros [H1 H2] x. split; apply sub_In; assumption.
Qed.
Lemma eqa_spec a b : eqa a b = true -> (forall x, In x (locks a) <-> In x (locks b)) /\ hascur a = hascur b.
Proof.
  unfold eqa. rewrite andb_true_iff. intros [H1 H2]. split; [apply eqs_In; exact H1|apply eqb_prop; exact H2].
Qed.

(* ------------------------------------------------------------------ the invariant *)
Section Sound.
Variable P : programs.
Variable A : annot.
Variable gv gq : nat -> option nat.
Hypothesis CHK : forall id, check_prog gv gq (P id) (A id) = true.

Definition ann (th : thread) : abs := nth (pc th) (A (prog th)) dflt.
Definition iscur (th : thread) : bool := match cur th with Some _ => true | None => false end.

Lemma check_at th : check_instr gv gq (A (prog th)) (pc th) (fetch P th) = true.
Proof.
  unfold fetch. specialize (CHK (prog th)). unfold check_prog in CHK.
  rewrite !andb_true_iff in CHK. destruct CHK as [[HL H0] HF].
  apply Nat.eqb_eq in HL.
  destruct (lt_dec (pc th) (length (P (prog th)))) as [Hlt|Hge].
  - rewrite forallb_forall in HF. apply HF. apply in_seq. lia.
  - rewrite (nth_overflow (P (prog th))) by lia.
    unfold check_instr. rewrite (nth_overflow (A (prog th))) by lia. reflexivity.
Qed.
Lemma check_0 th : pc th = 0 -> eqa (ann th) dflt = true.
Proof.
  intros H0. unfold ann. rewrite H0. specialize (CHK (prog th)). unfold check_prog in CHK.
  rewrite !andb_true_iff in CHK. tauto.
Qed.

(* thread th, where o m means "th owns mutex m" *)
Definition habs (th : thread) (o : nat -> Prop) : Prop :=
  match stat th with
  | NotStarted | Fresh => pc th = 0 /\ cur th = None /\ (forall m, ~ o m)
  | Ready => (forall m, o m <-> In m (locks (ann th))) /\ iscur th = hascur (ann th)
  | Asleep _ m | Woken m =>
      (exists c, fetch P th = IWait c m \/ fetch P th = ITimedWait c m) /\
      (forall m', o m' <-> In m' (rem m (locks (ann th)))) /\ iscur th = hascur (ann th)
  | Done => (forall m, ~ o m) /\ cur th = None
  end.

Definition owns (s : state) (t : tid) (m : nat) : Prop := own s m = Some t.
Definition Inv (s : state) : Prop := forall t, habs (thr s t) (owns s t).

Definition same_or_woken (th th' : thread) : Prop :=
  th' = th \/ exists c m, stat th = Asleep c m /\ th' = with_stat th (Woken m).

Lemma habs_ext th o o' : (forall m, o m <-> o' m) -> habs th o -> habs th o'.
Proof.
  intros E. unfold habs. destruct (stat th) as [| | |c0 m0|m0|]; intros H.
  - destruct H as (x & y & z). repeat split; auto. intros m Hm. apply (z m). apply E. exact Hm.
  - destruct H as (x & y & z). repeat split; auto. intros m Hm. apply (z m). apply E. exact Hm.
  - destruct H as (x & y). split; auto. intros m. rewrite <- E. apply x.
  - destruct H as (x & y & z). split; [exact x|]. split; [|exact z]. intros m'. rewrite <- E. apply y.
  - destruct H as (x & y & z). split; [exact x|]. split; [|exact z]. intros m'. rewrite <- E. apply y.
  - destruct H as (x & y). split; auto. intros m Hm. apply (x m). apply E. exact Hm.
Qed.

Lemma habs_woken th th' o : same_or_woken th th' -> habs th o -> habs th' o.
Proof.
  intros [E|(c & m & Hs & E)]; subst; [auto|].
  unfold habs. rewrite Hs. cbn. auto.
Qed.

Lemma wake_thr s u v : same_or_woken (thr s v) (thr (wake s u) v).
Proof.
  unfold wake. destruct (stat (thr s u)) eqn:E; try (left; reflexivity).
  cbn. unfold upd. destruct (Nat.eqb v u) eqn:Ev; [|left; reflexivity].
  apply Nat.eqb_eq in Ev. subst. right. eauto.
Qed.
Lemma wake_own s u : own (wake s u) = own s.
Proof. unfold wake. destruct (stat (thr s u)); reflexivity. Qed.

Lemma sow_trans a b c : same_or_woken a b -> same_or_woken b c -> same_or_woken a c.
Proof.
  intros [E1|(c1 & m1 & H1 & E1)] [E2|(c2 & m2 & H2 & E2)]; subst.
  - left; reflexivity.
  - right; eauto.
  - right; eauto.
  - cbn in H2. discriminate.
Qed.

Lemma wakes_thr l : forall s v, same_or_woken (thr s v) (thr (fold_left wake l s) v).
Proof.
  induction l as [|u l IH]; intros s v; cbn [fold_left].
  - left; reflexivity.
  - eapply sow_trans; [apply wake_thr|apply IH].
Qed.
Lemma wakes_own l : forall s, own (fold_left wake l s) = own s.
Proof.
  induction l as [|u l IH]; intros s; cbn [fold_left]; [reflexivity|]. rewrite IH. apply wake_own.
Qed.

(* A step of thread t: description of the new state that is enough to re-establish Inv. *)
Lemma inv_frame s s' t th' :
  Inv s ->
  (forall u, u <> t -> same_or_woken (thr s u) (thr s' u)) ->
  thr s' t = th' ->
  (forall u m, u <> t -> (own s' m = Some u <-> own s m = Some u)) ->
  habs th' (owns s' t) ->
  Inv s'.
Proof.
  intros I Hthr Ht Hown Hh u.
  destruct (Nat.eq_dec u t) as [->|Hne].
  - rewrite Ht. exact Hh.
  - eapply habs_woken; [apply Hthr; exact Hne|].
    eapply habs_ext; [|apply I]. intros m. unfold owns. symmetry. apply Hown. exact Hne.
Qed.

Lemma upd_same {X} (f : nat -> X) k v : upd f k v k = v.
Proof. unfold upd. rewrite Nat.eqb_refl. reflexivity. Qed.
Lemma upd_other {X} (f : nat -> X) k v x : x <> k -> upd f k v x = f x.
Proof. unfold upd. intros H. apply Nat.eqb_neq in H. rewrite H. reflexivity. Qed.

(* the stepping thread becomes Ready at a pc whose annotation equals the expected abstract state *)
Lemma ready_intro th' (o : nat -> Prop) aexp :
  stat th' = Ready -> eqa (ann th') aexp = true ->
  (forall m, o m <-> In m (locks aexp)) -> iscur th' = hascur aexp -> habs th' o.
Proof.
  intros Hs He Ho Hc. apply eqa_spec in He. destruct He as [HL HC].
  unfold habs. rewrite Hs. split.
  - intros m. rewrite Ho. symmetry. apply HL.
  - rewrite HC. exact Hc.
Qed.

Ltac bools := repeat match goal with
  | H : _ && _ = true |- _ => apply andb_true_iff in H; destruct H
  | H : negb _ = true |- _ => apply negb_true_iff in H
  end.

Theorem inv_step s l s' : Inv s -> exec P s l = Some s' -> Inv s'.
Proof.
  intros I E. unfold exec in E. destruct (fault s) eqn:EF; [discriminate|].
  destruct l as [t pick|t].
  - destruct (t <? nthr s); cbn [negb] in E; [|discriminate].
    pose proof (I t) as It. unfold habs in It.
    destruct (stat (thr s t)) eqn:Est; try discriminate.
    + (* Fresh -> Ready *)
      inversion E; subst s'; clear E. destruct It as (Hpc & Hcur & Hno).
      eapply inv_frame with (t := t); [exact I| | reflexivity | |].
      * intros u Hu. cbn. rewrite upd_other by exact Hu. left; reflexivity.
      * intros; cbn; tauto.
      * cbn. rewrite upd_same. apply ready_intro with (aexp := dflt).
        -- reflexivity.
        -- apply check_0. exact Hpc.
        -- intros m. cbn. split; [intros Hm; exact (Hno m Hm)|tauto].
        -- unfold iscur. cbn. rewrite Hcur. reflexivity.
    + (* Ready: one instruction *)
      destruct It as (Hown & Hcur).
      pose proof (check_at (thr s t)) as C. unfold check_instr in C.
      fold (ann (thr s t)) in C.
      set (H := ann (thr s t)) in *.
      assert (Hnx : forall th', prog th' = prog (thr s t) -> pc th' = S (pc (thr s t)) ->
                    ann th' = nth (S (pc (thr s t))) (A (prog (thr s t))) dflt).
      { intros th' Hp Hq. unfold ann. rewrite Hp, Hq. reflexivity. }
      assert (Hat : forall th' k, prog th' = prog (thr s t) -> pc th' = k ->
                    ann th' = nth k (A (prog (thr s t))) dflt).
      { intros th' k Hp Hq. unfold ann. rewrite Hp, Hq. reflexivity. }
      unfold exec_instr in E.
      destruct (fetch P (thr s t)) eqn:EI; bools.
      all: try match type of E with
           | (if ?c then _ else _) = _ => destruct c; [inversion E; subst s'; exact I|]
           end.
      all: try (inversion E; subst s'; exact I).
      all: try solve [
        inversion E; subst s'; clear E;
        eapply inv_frame with (t := t); [exact I| |reflexivity| |];
        [ intros u Hu; cbn; rewrite upd_other by exact Hu; left; reflexivity
        | intros; cbn; tauto
        | cbn; rewrite upd_same;
          first [ eapply ready_intro; [exact Est| unfold ann at 1; cbn; eassumption | intros m0; apply Hown | exact Hcur ]
                | match goal with |- context [if ?c then _ else _] => destruct c end;
                  (eapply ready_intro; [exact Est| unfold ann at 1; cbn; eassumption | intros m0; apply Hown | exact Hcur ]) ] ] ].
      (* ILock *)
      * destruct (own s m) eqn:Eo; [discriminate|]. inversion E; subst s'; clear E.
        eapply inv_frame with (t := t); [exact I| |reflexivity| |].
        -- intros u Hu. cbn. rewrite upd_other by exact Hu. left; reflexivity.
        -- intros u m0 Hu. cbn. unfold upd. destruct (Nat.eqb m0 m) eqn:Em; [|tauto].
           apply Nat.eqb_eq in Em. subst m0. rewrite Eo. split; intros X; [inversion X; congruence|discriminate].
        -- cbn. rewrite upd_same. eapply ready_intro; [exact Est| unfold ann at 1; cbn; eassumption | |].
           ++ intros m0. unfold owns. cbn. unfold upd. destruct (Nat.eqb m0 m) eqn:Em.
              ** apply Nat.eqb_eq in Em. subst. split; [left; reflexivity|reflexivity].
              ** apply Nat.eqb_neq in Em. rewrite (Hown m0). split; [right; assumption|].
                 intros [X|X]; [congruence|exact X].
           ++ cbn. exact Hcur.
      (* IUnlock *)
      * destruct (own s m) as [o|] eqn:Eo; [|inversion E; subst s'; exact I].
        destruct (Nat.eqb o t) eqn:Eot; [|inversion E; subst s'; exact I].
        apply Nat.eqb_eq in Eot. subst o. inversion E; subst s'; clear E.
        eapply inv_frame with (t := t); [exact I| |reflexivity| |].
        -- intros u Hu. cbn. rewrite upd_other by exact Hu. left; reflexivity.
        -- intros u m0 Hu. cbn. unfold upd. destruct (Nat.eqb m0 m) eqn:Em; [|tauto].
           apply Nat.eqb_eq in Em. subst m0. rewrite Eo. split; intros X; [discriminate|inversion X; congruence].
        -- cbn. rewrite upd_same. eapply ready_intro; [exact Est| unfold ann at 1; cbn; eassumption | |].
           ++ intros m0. unfold owns. cbn. rewrite rem_In. unfold upd. destruct (Nat.eqb m0 m) eqn:Em.
              ** apply Nat.eqb_eq in Em. subst. split; [discriminate|intros [_ X]; congruence].
              ** apply Nat.eqb_neq in Em. rewrite (Hown m0). tauto.
           ++ cbn. exact Hcur.
      (* IWait *)
      * destruct (own s m) as [o|] eqn:Eo; [|inversion E; subst s'; exact I].
        destruct (Nat.eqb o t) eqn:Eot; [|inversion E; subst s'; exact I].
        apply Nat.eqb_eq in Eot. subst o. inversion E; subst s'; clear E.
        eapply inv_frame with (t := t); [exact I| |reflexivity| |].
        -- intros u Hu. cbn. rewrite upd_other by exact Hu. left; reflexivity.
        -- intros u m0 Hu. cbn. unfold upd. destruct (Nat.eqb m0 m) eqn:Em; [|tauto].
           apply Nat.eqb_eq in Em. subst m0. rewrite Eo. split; intros X; [discriminate|inversion X; congruence].
        -- cbn. rewrite upd_same. unfold habs. cbn. split; [exists c; left; exact EI|]. split.
           ++ intros m0. unfold owns. cbn. rewrite rem_In. unfold upd. destruct (Nat.eqb m0 m) eqn:Em.
              ** apply Nat.eqb_eq in Em. subst. split; [discriminate|intros [_ X]; congruence].
              ** apply Nat.eqb_neq in Em. fold H. rewrite (Hown m0). tauto.
           ++ exact Hcur.
      (* ISignal *)
      * destruct (wq s c) as [|w ws] eqn:Ew.
        -- inversion E; subst s'; clear E.
           eapply inv_frame with (t := t); [exact I| |reflexivity| |].
           ++ intros u Hu. cbn. rewrite upd_other by exact Hu. left; reflexivity.
           ++ intros; cbn; tauto.
           ++ cbn. rewrite upd_same. eapply ready_intro; [exact Est| unfold ann at 1; cbn; eassumption | |].
              ** intros m0. apply Hown.
              ** exact Hcur.
        -- inversion E; subst s'; clear E.
           set (s1 := wake _ _).
           assert (Et : stat (thr s1 t) = Ready /\ prog (thr s1 t) = prog (thr s t) /\ pc (thr s1 t) = pc (thr s t)
                        /\ cur (thr s1 t) = cur (thr s t)).
           { unfold s1. match goal with |- context [wake ?a ?b] => destruct (wake_thr a b t) as [X|(c0 & m0 & X & _)] end.
             - rewrite X. cbn. auto.
             - cbn in X. congruence. }
           destruct Et as (Et1 & Et2 & Et3 & Et4).
           eapply inv_frame with (t := t); [exact I| |reflexivity| |].
           ++ intros u Hu. cbn. rewrite upd_other by exact Hu. apply (wake_thr (set_wq s c _) _ u).
           ++ intros u m0 Hu. cbn. unfold s1. rewrite wake_own. cbn. tauto.
           ++ cbn. rewrite upd_same. eapply ready_intro.
              ** cbn. exact Et1.
              ** unfold ann at 1. cbn. rewrite Et2, Et3. eassumption.
              ** intros m0. unfold owns. cbn. unfold s1. rewrite wake_own. cbn. apply Hown.
              ** unfold iscur. cbn. rewrite Et4. exact Hcur.
      (* IBroadcast *)
      * inversion E; subst s'; clear E.
        set (s1 := fold_left wake _ _).
        assert (Et : stat (thr s1 t) = Ready /\ prog (thr s1 t) = prog (thr s t) /\ pc (thr s1 t) = pc (thr s t)
                     /\ cur (thr s1 t) = cur (thr s t)).
        { unfold s1. destruct (wakes_thr (wq s c) (set_wq s c []) t) as [X|(c0 & m0 & X & _)].
          - rewrite X. cbn. auto.
          - cbn in X. congruence. }
        destruct Et as (Et1 & Et2 & Et3 & Et4).
        eapply inv_frame with (t := t); [exact I| |reflexivity| |].
        -- intros u Hu. cbn. rewrite upd_other by exact Hu. apply (wakes_thr (wq s c) (set_wq s c []) u).
        -- intros u m0 Hu. cbn. unfold s1. rewrite wakes_own. cbn. tauto.
        -- cbn. rewrite upd_same. eapply ready_intro.
           ++ cbn. exact Et1.
           ++ unfold ann at 1. cbn. rewrite Et2, Et3. eassumption.
           ++ intros m0. unfold owns. cbn. unfold s1. rewrite wakes_own. cbn. apply Hown.
           ++ unfold iscur. cbn. rewrite Et4. exact Hcur.
      (* ICreateI *)
      * destruct (stat (thr s (base + cnt (thr s t)))) eqn:Eu; try (inversion E; subst s'; exact I).
        inversion E; subst s'; clear E.
        set (u0 := base + cnt (thr s t)) in *.
        assert (Hut : u0 <> t) by (intros X; rewrite X in Eu; congruence).
        pose proof (I u0) as Iu. unfold habs in Iu. rewrite Eu in Iu.
        eapply inv_frame with (t := t); [| |reflexivity| |].
        -- (* first the intermediate state where u0 is Fresh *)
           instantiate (1 := set_thr s u0 (with_stat (thr s u0) Fresh)).
           eapply inv_frame with (t := u0); [exact I| |reflexivity| |].
           ++ intros u Hu. cbn. rewrite upd_other by exact Hu. left; reflexivity.
           ++ intros; cbn; tauto.
           ++ cbn. rewrite upd_same. unfold habs. cbn. exact Iu.
        -- intros u Hu. cbn. rewrite (upd_other _ t) by exact Hu. left; reflexivity.
        -- intros; cbn; tauto.
        -- cbn. rewrite upd_same. rewrite upd_other by (intros X; apply Hut; symmetry; exact X).
           eapply ready_intro; [exact Est| unfold ann at 1; cbn; eassumption | |].
           ++ intros m0. apply Hown.
           ++ exact Hcur.
      (* IJoinI *)
      * destruct (stat (thr s (base + cnt (thr s t)))); try discriminate.
        inversion E; subst s'; clear E.
        eapply inv_frame with (t := t); [exact I| |reflexivity| |].
        -- intros u Hu. cbn. rewrite upd_other by exact Hu. left; reflexivity.
        -- intros; cbn; tauto.
        -- cbn. rewrite upd_same. eapply ready_intro; [exact Est| unfold ann at 1; cbn; eassumption | |].
           ++ intros m0. apply Hown.
           ++ exact Hcur.
      (* IPop *)
      * destruct (que s q) as [|c0 r]; [inversion E; subst s'; exact I|].
        inversion E; subst s'; clear E.
        eapply inv_frame with (t := t); [exact I| |reflexivity| |].
        -- intros u Hu. cbn. rewrite upd_other by exact Hu. left; reflexivity.
        -- intros; cbn; tauto.
        -- cbn. rewrite upd_same. eapply ready_intro; [exact Est| unfold ann at 1; cbn; eassumption | intros m0; apply Hown | reflexivity ].
      (* IRun *)
      * destruct (cur (thr s t)) eqn:Ec; [|inversion E; subst s'; exact I].
        inversion E; subst s'; clear E.
        eapply inv_frame with (t := t); [exact I| |reflexivity| |].
        -- intros u Hu. cbn. rewrite upd_other by exact Hu. left; reflexivity.
        -- intros; cbn; tauto.
        -- cbn. rewrite upd_same. eapply ready_intro; [exact Est| unfold ann at 1; cbn; eassumption | intros m0; apply Hown | reflexivity ].
      (* IFree *)
      * destruct (busy8 s o); [inversion E; subst s'; exact I|].
        inversion E; subst s'; clear E.
        eapply inv_frame with (t := t); [exact I| |reflexivity| |].
        -- intros u Hu. cbn. rewrite upd_other by exact Hu. left; reflexivity.
        -- intros; cbn; tauto.
        -- cbn. rewrite upd_same. eapply ready_intro; [exact Est| unfold ann at 1; cbn; eassumption | intros m0; apply Hown | exact Hcur ].
      (* IEnd *)
      * inversion E; subst s'; clear E.
        match goal with X : eqa H dflt = true |- _ => apply eqa_spec in X; destruct X as [XL XC] end.
        eapply inv_frame with (t := t); [exact I| |reflexivity| |].
        -- intros u Hu. cbn. rewrite upd_other by exact Hu. left; reflexivity.
        -- intros; cbn; tauto.
        -- cbn. rewrite upd_same. unfold habs. cbn. split.
           ++ intros m0 Hm. apply Hown in Hm. apply XL in Hm. exact Hm.
           ++ unfold iscur in Hcur. rewrite XC in Hcur. cbn in Hcur. destruct (cur (thr s t)); [discriminate|reflexivity].
      (* IRunB *)
      * destruct (cur (thr s t)) eqn:Ec; [|inversion E; subst s'; exact I].
        destruct (resub s c) eqn:ER; inversion E; subst s'; clear E;
        (eapply inv_frame with (t := t); [exact I| |reflexivity| |];
         [ intros u Hu; cbn; rewrite upd_other by exact Hu; left; reflexivity
         | intros; cbn; tauto
         | cbn; rewrite upd_same;
           eapply ready_intro; [exact Est| unfold ann at 1; cbn; eassumption | intros m0; apply Hown | reflexivity ] ]).
      (* ITimedWait *)
      * destruct (own s m) as [o|] eqn:Eo; [|inversion E; subst s'; exact I].
        destruct (Nat.eqb o t) eqn:Eot; [|inversion E; subst s'; exact I].
        apply Nat.eqb_eq in Eot. subst o. inversion E; subst s'; clear E.
        eapply inv_frame with (t := t); [exact I| |reflexivity| |].
        -- intros u Hu. cbn. rewrite upd_other by exact Hu. left; reflexivity.
        -- intros u m0 Hu. cbn. unfold upd. destruct (Nat.eqb m0 m) eqn:Em; [|tauto].
           apply Nat.eqb_eq in Em. subst m0. rewrite Eo. split; intros X; [discriminate|inversion X; congruence].
        -- cbn. rewrite upd_same. unfold habs. cbn. split; [exists c; right; exact EI|]. split.
           ++ intros m0. unfold owns. cbn. rewrite rem_In. unfold upd. destruct (Nat.eqb m0 m) eqn:Em.
              ** apply Nat.eqb_eq in Em. subst. split; [discriminate|intros [_ X]; congruence].
              ** apply Nat.eqb_neq in Em. fold H. rewrite (Hown m0). tauto.
           ++ exact Hcur.
      (* IPoll *)
      * destruct (Nat.eqb (var s x) 0); [destruct (Nat.eqb pick 0); [discriminate E|]|]; inversion E; subst s'; clear E;
        (eapply inv_frame with (t := t); [exact I| |reflexivity| |];
         [ intros u Hu; cbn; rewrite upd_other by exact Hu; left; reflexivity
         | intros; cbn; tauto
         | cbn; rewrite upd_same; eapply ready_intro; [exact Est| unfold ann at 1; cbn; eassumption | intros m0; apply Hown | exact Hcur ] ]).
      (* IRunC *)
      * destruct (cur (thr s t)) eqn:Ec; [|inversion E; subst s'; exact I].
        destruct (isdrain s c) eqn:ED; [|destruct (resub s c) eqn:ER]; inversion E; subst s'; clear E;
        (eapply inv_frame with (t := t); [exact I| |reflexivity| |];
         [ intros u Hu; cbn; rewrite upd_other by exact Hu; left; reflexivity
         | intros; cbn; tauto
         | cbn; rewrite upd_same;
           eapply ready_intro; [exact Est| unfold ann at 1; cbn; eassumption | intros m0; apply Hown | reflexivity ] ]).
      (* IRunW *)
      * destruct (cur (thr s t)) eqn:Ec; [|inversion E; subst s'; exact I].
        destruct (snd c) as [|[|v]]; inversion E; subst s'; clear E;
        (eapply inv_frame with (t := t); [exact I| |reflexivity| |];
         [ intros u Hu; cbn; rewrite upd_other by exact Hu; left; reflexivity
         | intros; cbn; tauto
         | cbn; rewrite upd_same;
           eapply ready_intro; [exact Est| unfold ann at 1; cbn; eassumption | intros m0; apply Hown | reflexivity ] ]).
    + (* Asleep in a timed wait: time-out *)
      destruct (fetch P (thr s t)) eqn:EIa; try discriminate E.
      inversion E; subst s'; clear E.
      destruct It as (Hf & Hown & Hcur).
      eapply inv_frame with (t := t); [exact I| |reflexivity| |].
      * intros u Hu. cbn. rewrite upd_other by exact Hu. left; reflexivity.
      * intros; cbn; tauto.
      * cbn. rewrite upd_same. unfold habs. cbn. split; [|split].
        -- destruct Hf as (c1 & Hf). exists c1. rewrite <- EIa in Hf. exact Hf.
        -- exact Hown.
        -- exact Hcur.
    + (* Woken m: re-acquire *)
      destruct (negb (live s m)); [inversion E; subst s'; exact I|].
      destruct (own s m) eqn:Eo; [discriminate|]. inversion E; subst s'; clear E.
      destruct It as ((c & EI) & Hown & Hcur).
      pose proof (check_at (thr s t)) as C. unfold check_instr in C.
      destruct EI as [EI|EI]; rewrite EI in C;
      fold (ann (thr s t)) in C; bools.
      1: {
      eapply inv_frame with (t := t); [exact I| |reflexivity| |].
      * intros u Hu. cbn. rewrite upd_other by exact Hu. left; reflexivity.
      * intros u m0 Hu. cbn. unfold upd. destruct (Nat.eqb m0 m) eqn:Em; [|tauto].
        apply Nat.eqb_eq in Em. subst m0. rewrite Eo. split; intros X; [inversion X; congruence|discriminate].
      * cbn. rewrite upd_same. eapply ready_intro.
        -- reflexivity.
        -- unfold ann at 1. cbn. eassumption.
        -- intros m0. unfold owns. cbn. unfold upd. destruct (Nat.eqb m0 m) eqn:Em.
           ++ apply Nat.eqb_eq in Em. subst. split; [intros _; apply mem_In; assumption|reflexivity].
           ++ apply Nat.eqb_neq in Em. rewrite (Hown m0). rewrite rem_In. tauto.
        -- exact Hcur.
      }
      {
      eapply inv_frame with (t := t); [exact I| |reflexivity| |].
      * intros u Hu. cbn. rewrite upd_other by exact Hu. left; reflexivity.
      * intros u m0 Hu. cbn. unfold upd. destruct (Nat.eqb m0 m) eqn:Em; [|tauto].
        apply Nat.eqb_eq in Em. subst m0. rewrite Eo. split; intros X; [inversion X; congruence|discriminate].
      * cbn. rewrite upd_same. eapply ready_intro.
        -- reflexivity.
        -- unfold ann at 1. cbn. eassumption.
        -- intros m0. unfold owns. cbn. unfold upd. destruct (Nat.eqb m0 m) eqn:Em.
           ++ apply Nat.eqb_eq in Em. subst. split; [intros _; apply mem_In; assumption|reflexivity].
           ++ apply Nat.eqb_neq in Em. rewrite (Hown m0). rewrite rem_In. tauto.
        -- exact Hcur.
      }
  - (* spurious wake-up *)
    destruct (t <? nthr s); cbn [negb] in E; [|discriminate].
    destruct (stat (thr s t)) eqn:Est; try discriminate.
    inversion E; subst s'; clear E.
    intros u. eapply habs_woken; [apply (wake_thr (set_wq s c _) t u)|].
    eapply habs_ext; [|apply (I u)]. intros m0. unfold owns. rewrite wake_own. cbn. tauto.
Qed.

Theorem inv_reach s0 s : Inv s0 -> reach P s0 s -> Inv s.
Proof.
  intros I0 R. induction R as [|s s' R IH [l E]]; [exact I0|]. eapply inv_step; eauto.
Qed.

(* ---- consequences used by the property theorems *)
Definition acc_var (i : instr) : option nat :=
  match i with
  | IWr x _ | IInc x | IDec x | ILd x | IBrVar x _ _ | IPoll x _ _ | IRunW x _ _ => Some x
  | _ => None
  end.
Definition acc_que (i : instr) : option nat :=
  match i with
  | IPush q | IBrEmpty q _ | IPop q | IPushR q | ISwap q _ => Some q
  | _ => None
  end.

Lemma ready_owns s t m : Inv s -> stat (thr s t) = Ready ->
  mem m (locks (ann (thr s t))) = true -> own s m = Some t.
Proof.
  intros I Hs Hm. pose proof (I t) as It. unfold habs in It. rewrite Hs in It.
  destruct It as [Ho _]. apply Ho. apply mem_In. exact Hm.
Qed.

Lemma owner_holds s t m : Inv s -> own s m = Some t -> stat (thr s t) = Ready ->
  In m (locks (ann (thr s t))).
Proof.
  intros I Ho Hs. pose proof (I t) as It. unfold habs in It. rewrite Hs in It.
  destruct It as [H _]. apply H. exact Ho.
Qed.

Lemma access_var_guarded th x m : acc_var (fetch P th) = Some x -> gv x = Some m ->
  mem m (locks (ann th)) = true.
Proof.
  intros Ha Hg. pose proof (check_at th) as C. unfold check_instr in C. fold (ann th) in C.
  destruct (fetch P th); cbn in Ha; inversion Ha; subst; bools;
    match goal with X : guarded _ _ = true |- _ => unfold guarded in X; rewrite Hg in X; exact X end.
Qed.
Lemma access_que_guarded th q m : acc_que (fetch P th) = Some q -> gq q = Some m ->
  mem m (locks (ann th)) = true.
Proof.
  intros Ha Hg. pose proof (check_at th) as C. unfold check_instr in C. fold (ann th) in C.
  destruct (fetch P th); cbn in Ha; inversion Ha; subst; bools;
    match goal with X : guarded _ _ = true |- _ => unfold guarded in X; rewrite Hg in X; exact X end.
Qed.

Theorem lockset_sound s0 s : Inv s0 -> reach P s0 s -> forall t, stat (thr s t) = Ready ->
  (forall x m, acc_var (fetch P (thr s t)) = Some x -> gv x = Some m -> own s m = Some t) /\
  (forall q m, acc_que (fetch P (thr s t)) = Some q -> gq q = Some m -> own s m = Some t).
Proof.
  intros I0 R t Hs. pose proof (inv_reach s0 s I0 R) as I. split; intros y m Ha Hg.
  - eapply ready_owns; eauto. eapply access_var_guarded; eauto.
  - eapply ready_owns; eauto. eapply access_que_guarded; eauto.
Qed.

(* an unlock / wait is only ever executed by the owner; a pop/run never lacks its callback *)
Lemma fault_wake s u : fault (wake s u) = fault s.
Proof. unfold wake. destruct (stat (thr s u)); reflexivity. Qed.
Lemma fault_wakes l : forall s, fault (fold_left wake l s) = fault s.
Proof. induction l as [|u l IH]; intros s; cbn [fold_left]; [reflexivity|]. rewrite IH. apply fault_wake. Qed.

Lemma step_fault s l s' : Inv s -> exec P s l = Some s' ->
  fault s' <> Some BadUnlock.
Proof.
  intros I E. unfold exec in E. destruct (fault s) eqn:EF; [discriminate|].
  destruct l as [t pick|t].
  - destruct (t <? nthr s); cbn [negb] in E; [|discriminate].
    destruct (stat (thr s t)) eqn:Est; try discriminate.
    + inversion E; subst; cbn; congruence.
    + pose proof (check_at (thr s t)) as C. unfold check_instr in C. fold (ann (thr s t)) in C.
      unfold exec_instr in E.
      destruct (fetch P (thr s t)) eqn:EI; bools;
      try (match goal with X : mem ?m (locks _) = true |- _ =>
             pose proof (ready_owns s t m I Est X) as OW; rewrite OW in E; rewrite Nat.eqb_refl in E end);
      repeat match type of E with
             | (if ?c then _ else _) = _ => destruct c
             | match ?x with _ => _ end = _ => destruct x
             end;
      inversion E; subst; cbn; rewrite ?fault_wake, ?fault_wakes; cbn; congruence.
    + destruct (fetch P (thr s t)); try discriminate E. inversion E; subst; cbn; congruence.
    + destruct (negb (live s m)); [inversion E; subst; cbn; congruence|].
      destruct (own s m); [discriminate|]. inversion E; subst; cbn; congruence.
  - destruct (t <? nthr s); cbn [negb] in E; [|discriminate].
    destruct (stat (thr s t)); try discriminate. inversion E; subst. rewrite fault_wake. cbn. congruence.
Qed.

Theorem no_bad_unlock s0 s : Inv s0 -> fault s0 = None -> reach P s0 s -> fault s <> Some BadUnlock.
Proof.
  intros I0 F0 R. induction R as [|s s' R IH [l E]]; [congruence|].
  eapply step_fault; [|exact E]. eapply inv_reach; eauto.
Qed.
End Sound.
