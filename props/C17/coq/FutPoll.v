(* C17.FutPoll: a Future polled with IsComplete() by one thread while another thread calls Set() (wave 8).
   The programs live in their own table P2 (= P plus programs 33/34) so that the large developments over P are untouched.
   Thread 0: copy the Future for the poller (Ref), start it, Set(), ~Future (DeRef), join.
   Thread 1: up to K times IsComplete() = lock, read m_is_set, unlock (FuturePrivate.h: MutexLocker, for the generic class
   AND the void specialisation); then Get(), ~Future (DeRef). *)
From Coq Require Import List Arith Bool Lia.
Import ListNotations.
From C17 Require Import Sem Progs Static Annot WaitQ.

Definition p_fpoll_main : list instr := [
  (* 0*) ILock FM; (* 1*) IInc REF; (* 2*) IUnlock FM;          (* copy for the poller: FutureImpl::Ref *)
  (* 3*) ICreateI 1;
  (* 4*) ILock FM; (* 5*) IBrVar ISSET 1 9; (* 6*) IWr ISSET 1; (* 7*) IWr VALUE THE_VALUE; (* 8*) IBroadcast FC; (* 9*) IUnlock FM;
  (*10*) ILock FM; (*11*) IDec REF; (*12*) IUnlock FM; (*13*) IBrReg 0 15; (*14*) IJmp 16; (*15*) IFree 1;
  (*16*) IRst 1; (*17*) IJoinI 1; (*18*) IEnd ].

Definition p_fpoll_poller : list instr := [
  (* 0*) IRst 0;
  (* 1*) IBrDone 8;
  (* 2*) ILock FM; (* 3*) ILd ISSET; (* 4*) IUnlock FM;          (* IsComplete() *)
  (* 5*) IBrReg 1 8; (* 6*) ICnt; (* 7*) IJmp 1;
  (* 8*) ILock FM; (* 9*) IBrVar ISSET 1 12; (*10*) IWait FC FM; (*11*) IJmp 9; (*12*) ILd VALUE; (*13*) IUnlock FM; (*14*) IOut OUT_GET;
  (*15*) ILock FM; (*16*) IDec REF; (*17*) IUnlock FM; (*18*) IBrReg 0 20; (*19*) IJmp 21; (*20*) IFree 1;
  (*21*) IEnd ].

(* the seeded variant of IsComplete(): the read of m_is_set without the mutex *)
Definition p_fpoll_poller_unlocked : list instr := [
  IRst 0; IBrDone 4; ILd ISSET; IBrReg 1 6; ICnt; IJmp 1 ] ++ skipn 8 p_fpoll_poller.

Definition P2 : programs := fun id => match id with 33 => p_fpoll_main | 34 => p_fpoll_poller | _ => P id end.

Definition a_fpoll_main : list abs :=
  [ n_; f_; f_; n_;  n_; f_; f_; f_; f_; f_;  n_; f_; f_; n_; n_; n_;  n_; n_; n_ ].
Definition a_fpoll_poller : list abs :=
  [ n_; n_; n_; f_; f_; n_; n_; n_;  n_; f_; f_; f_; f_; f_; n_;  n_; f_; f_; n_; n_; n_; n_ ].
Definition An2 : annot := fun id => match id with 33 => a_fpoll_main | 34 => a_fpoll_poller | _ => An id end.

Lemma check_all2 : forall id, check_prog gv gq (P2 id) (An2 id) = true.
Proof.
  intros id. do 35 (destruct id as [|id]; [vm_compute; reflexivity|]). reflexivity.
Qed.

(* k = how many times the poller calls IsComplete() at most before it blocks in Get() *)
Definition init_fut_poll (k : nat) : state :=
  base_state 2
    (fun t => match t with 0 => mk_thread 33 Fresh 0 | 1 => mk_thread 34 NotStarted 0 | _ => dummy end)
    (fun x => if Nat.eqb x REF then 1 else 0)
    (fun i => match i with 0 => k | _ => 0 end).

Lemma fpoll_init_inv k : Inv P2 An2 (init_fut_poll k).
Proof.
  intros t. unfold habs, owns.
  assert (X : forall (u : tid), ~ (@None tid = Some u)) by (intros u Hu; discriminate).
  destruct t as [|[|i]]; cbn; auto.
Qed.

(* every access to m_ref_count, m_is_set, m_value -- in particular the read in IsComplete() -- happens under the mutex *)
Theorem fpoll_lockset k s : reach P2 (init_fut_poll k) s ->
  forall t, stat (thr s t) = Ready ->
  (forall x m, acc_var (fetch P2 (thr s t)) = Some x -> gv x = Some m -> own s m = Some t) /\
  (forall q m, acc_que (fetch P2 (thr s t)) = Some q -> gq q = Some m -> own s m = Some t).
Proof. intros R. exact (lockset_sound P2 An2 gv gq check_all2 _ s (fpoll_init_inv k) R). Qed.

Theorem fpoll_discipline k s : reach P2 (init_fut_poll k) s -> Inv P2 An2 s /\ WQI s.
Proof.
  intros R. split; [exact (inv_reach P2 An2 gv gq check_all2 _ s (fpoll_init_inv k) R)|].
  apply (WQI_reach P2 (init_fut_poll k) s); [|exact R].
  apply WQI_base. intros t c m X. destruct t as [|[|t]]; cbn in X; discriminate X.
Qed.

(* the lockset check rejects the variant that reads m_is_set without the mutex (with the annotation "no lock held" there;
   any annotation claiming the mutex at that pc is rejected because nothing locked it) *)
Lemma unlocked_read_rejected :
  check_prog gv gq p_fpoll_poller_unlocked ([n_; n_; n_; n_; n_; n_] ++ skipn 8 a_fpoll_poller) = false /\
  check_prog gv gq p_fpoll_poller_unlocked ([n_; n_; f_; n_; n_; n_] ++ skipn 8 a_fpoll_poller) = false /\
  acc_var (nth 2 p_fpoll_poller_unlocked IEnd) = Some ISSET /\ gv ISSET = Some FM.
Proof. repeat split; vm_compute; reflexivity. Qed.

(* owner-first schedule: Set() happens before the first poll *)
Fixpoint greedy_p2 (fuel : nat) (s : state) : state :=
  match fuel with
  | 0 => s
  | S f => match exec P2 s (LStep 0 0) with
           | Some s' => greedy_p2 f s'
           | None => match exec P2 s (LStep 1 0) with Some s' => greedy_p2 f s' | None => s end
           end
  end.
Lemma greedy_p2_reach s0 fuel : forall s, reach P2 s0 s -> reach P2 s0 (greedy_p2 fuel s).
Proof.
  induction fuel as [|f IH]; intros s R; cbn [greedy_p2]; [exact R|].
  destruct (exec P2 s (LStep 0 0)) as [s'|] eqn:E0; [apply IH; eapply reach_step; [exact R|eexists; exact E0]|].
  destruct (exec P2 s (LStep 1 0)) as [s'|] eqn:E1; [apply IH; eapply reach_step; [exact R|eexists; exact E1]|].
  exact R.
Qed.
Example fpoll_finishes : exists s, reach P2 (init_fut_poll 3) s /\
  stat (thr s 0) = Done /\ stat (thr s 1) = Done /\ alive s 1 = false /\ outs s = [(1, OUT_GET, THE_VALUE)] /\ fault s = None.
Proof.
  exists (greedy_p2 120 (init_fut_poll 3)). split; [apply greedy_p2_reach; apply reach_refl|]. vm_compute. repeat split.
Qed.
