(* C17.WaitQAll: the wait queues are exact in every reachable state of every scenario. *)
From Coq Require Import List Arith Bool Lia.
Import ListNotations.
From C17 Require Import Sem Progs Static Annot WaitQ.

Lemma initial_wqi s0 : initial s0 -> WQI s0.
Proof.
  intros H. destruct H; apply WQI_base; intros t c m X; cbn in X;
  repeat (first [ discriminate X
                | match type of X with context [if ?b then _ else _] => destruct b end
                | match type of X with context [match ?t with _ => _ end] => is_var t; destruct t; cbn in X end ]).
Qed.

Theorem waitq_exact s0 s : initial s0 -> reach P s0 s ->
  (forall u c, (exists m, stat (thr s u) = Asleep c m) <-> In u (wq s c)) /\ (forall c, NoDup (wq s c)).
Proof. intros H R. exact (WQI_reach P s0 s (initial_wqi s0 H) R). Qed.

(* a signal on a condition somebody sleeps on finds a non-empty wait queue, and whoever it picks is asleep on it *)
Corollary sleeper_in_queue s0 s u c m : initial s0 -> reach P s0 s -> stat (thr s u) = Asleep c m -> wq s c <> [].
Proof.
  intros H R Hs. destruct (waitq_exact s0 s H R) as (A & _). intros E.
  assert (X : In u (wq s c)) by (apply A; exists m; exact Hs). rewrite E in X. destruct X.
Qed.
