(* C17.Owner: a thread never changes its program, hence "program p contains no access to variable x" is an
   ownership statement that holds in every reachable state; applied to the preference-saver hand-off:
   the saver thread never touches the owner-only preference map. *)
From Coq Require Import List Arith Bool Lia.
Import ListNotations.
From C17 Require Import Sem Progs Static.

Lemma prog_wake s u t : prog (thr (wake s u) t) = prog (thr s t).
Proof.
  unfold wake. destruct (stat (thr s u)) eqn:E; try reflexivity.
  cbn. unfold upd. destruct (Nat.eqb t u) eqn:Et; [|reflexivity]. apply Nat.eqb_eq in Et. subst. reflexivity.
Qed.
Lemma prog_wakes l : forall s t, prog (thr (fold_left wake l s) t) = prog (thr s t).
Proof.
  induction l as [|u l IH]; intros s t; cbn [fold_left]; [reflexivity|]. rewrite IH. apply prog_wake.
Qed.

Ltac pfin t t0 :=
  cbn; unfold upd; rewrite ?prog_wake, ?prog_wakes; cbn; unfold upd;
  repeat match goal with |- context [Nat.eqb ?a ?b] =>
    let E := fresh "E" in destruct (Nat.eqb a b) eqn:E; [apply Nat.eqb_eq in E; subst|] end;
  cbn; rewrite ?prog_wake, ?prog_wakes; cbn; try reflexivity; try congruence;
  try (repeat match goal with |- context [match ?x with | [] => _ | _ :: _ => _ end] => destruct x end; reflexivity);
  try (repeat match goal with |- context [if ?c then _ else _] => destruct c end; reflexivity).

Lemma exec_prog P s l s' t : exec P s l = Some s' -> prog (thr s' t) = prog (thr s t).
Proof.
  intros E. unfold exec in E. destruct (fault s); [discriminate|].
  destruct l as [t0 pick|t0].
  - destruct (negb (t0 <? nthr s)); [discriminate|].
    destruct (stat (thr s t0)) eqn:Est; try discriminate.
    + inversion E; subst. pfin t t0.
    + unfold exec_instr in E.
      destruct (fetch P (thr s t0));
      repeat match type of E with
             | (if ?c then _ else _) = _ => destruct c
             | match ?x with _ => _ end = _ => destruct x eqn:?
             end;
      try discriminate E; inversion E; subst; pfin t t0.
    + destruct (fetch P (thr s t0)); try discriminate E. inversion E; subst. pfin t t0.
    + destruct (negb (live s m)); [inversion E; subst; reflexivity|].
      destruct (own s m); [discriminate|]. inversion E; subst. pfin t t0.
  - destruct (negb (t0 <? nthr s)); [discriminate|].
    destruct (stat (thr s t0)); try discriminate. inversion E; subst. pfin t t0.
Qed.

Lemma reach_prog P s0 s t : reach P s0 s -> prog (thr s t) = prog (thr s0 t).
Proof.
  intros R. induction R as [|s s' R IH [l E]]; [reflexivity|]. rewrite (exec_prog P s l s' t E). exact IH.
Qed.

(* a program that never accesses variable x *)
Definition no_access (x : nat) (p : list instr) : bool :=
  forallb (fun i => match acc_var i with Some y => negb (Nat.eqb y x) | None => true end) p.

Lemma no_access_fetch x p pcv : no_access x p = true ->
  forall y, acc_var (nth pcv p IEnd) = Some y -> y <> x.
Proof.
  intros H y Hy. destruct (lt_dec pcv (length p)) as [Hl|Hl].
  - unfold no_access in H. rewrite forallb_forall in H. specialize (H (nth pcv p IEnd) (nth_In p IEnd Hl)).
    rewrite Hy in H. apply negb_true_iff, Nat.eqb_neq in H. exact H.
  - rewrite nth_overflow in Hy by lia. discriminate Hy.
Qed.

Theorem saver_never_touches_pref_map s : reach P init_prefs s ->
  forall y, acc_var (fetch P (thr s 1)) = Some y -> y <> PREF.
Proof.
  intros R y Hy. unfold fetch in Hy. rewrite (reach_prog P init_prefs s 1 R) in Hy. cbn [init_prefs base_state thr mk_thread prog] in Hy.
  eapply (no_access_fetch PREF (P 23)); [vm_compute; reflexivity|exact Hy].
Qed.
