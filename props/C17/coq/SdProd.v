From Coq Require Import List Arith Bool Lia Permutation.
Import ListNotations.
From C17 Require Import Sem Progs ExecInv ExecTac SsInv SdInv.

Section Pr.
Variable lims rs : list nat.
Variable kk : nat.

Ltac sp := match goal with |- _ /\ _ => split; [|sp] | _ => idtac end.

Lemma inl3637 p0 c0 i : inl p0 [72;73] = true -> djoined p0 c0 i = true.
Proof.
  unfold inl. cbn. rewrite !orb_true_iff, !Nat.eqb_eq. intros [X|[X|X]]; try discriminate; subst; reflexivity.
Qed.

Ltac prtail OTH om' jt i :=
  let j := fresh "j" in let Hj := fresh "Hj" in let Eji := fresh "Eji" in let Hji := fresh "Hji" in
  intros j Hj; destruct (Nat.eq_dec j i) as [Eji|Hji]; [subst j|];
  [ | apply (OTH om'); [ jt | exact Hj | exact Hji
                       | cbn; unfold upd; cbn; destruct (Nat.eqb j i) eqn:EE; [apply Nat.eqb_eq in EE; lia|reflexivity]
                       | reflexivity ] ].

Ltac wframe HW Hth i :=
  let X := fresh "X" in
  intros X; destruct (HW X) as [HWa|[HWb|[jw [HWj [HWs HWp]]]]];
  [ left; exact HWa | right; left; exact HWb
  | right; right; exists jw; split; [exact HWj|]; unfold spend; cbn; unfold upd; cbn;
    destruct (Nat.eqb jw i) eqn:EW;
    [ apply Nat.eqb_eq in EW; subst jw; cbn in HWp, HWs; rewrite Hth in HWp, HWs; cbn in HWp, HWs; first [discriminate HWs | discriminate HWp]
    | split; [exact HWs|exact HWp] ] ].
Ltac wnew Hi i :=
  intros _; right; right; exists i; split; [exact Hi|]; unfold spend; cbn; unfold upd; cbn;
  rewrite Nat.eqb_refl; cbn; split; reflexivity.

Lemma sd_step_prod s i pick s' : Rsd lims s -> exec P s (LStep (S i) pick) = Some s' -> Rsd lims s'.
Proof.
  intros (p0 & st0 & r0 & c0 & l0 & cu0 & om & Ht0 & HOM & Hn & Hpa & Hf & Hok0 & Hreg & Hc0 & Hm1 & Homlt &
          HownO & Hal & Hp98 & Hq & HG & Hran & Hsub & Hch & HPR) E.
  unfold exec in E. rewrite Hf, Hn in E.
  destruct (S i <? 1 + NS lims) eqn:Elt; cbn [negb] in E; [|discriminate E].
  apply Nat.ltb_lt in Elt. assert (Hi : i < NS lims) by lia.
  destruct (HPR i Hi) as (pp & stp & rp & cp & Hth & Hpk & Hns & Hjn & Hom & Hsu).
  cbn [Nat.add] in Hth. rewrite Hth in E. cbn [stat] in E.
  destruct Hq as (Hq1 & Hq2 & Hq3 & Hq4 & Hq5).
  assert (OTH : forall om', (om' = om \/ (om = None /\ om' = Some (S i)) \/ (om = Some (S i) /\ om' = None)) ->
                forall j, j < NS lims -> j <> i -> forall sx, thr sx (1 + j) = thr s (1 + j) -> subm sx = subm s ->
                dPRi lims sx p0 c0 om' j).
  { intros om' Hom' j Hj Hji sx Hsx Hsm. destruct (HPR j Hj) as (ppj & stpj & rpj & cpj & Hthj & Hpkj & Hnsj & Hjnj & Homj & Hsuj).
    exists ppj, stpj, rpj, cpj. rewrite Hsx, Hsm. sp; auto.
    destruct Hom' as [->|[[-> ->]|[-> ->]]]; [exact Homj| |].
    - split; intro X; [inversion X; lia|apply Homj in X; discriminate X].
    - split; intro X; [discriminate X|apply Homj in X; inversion X; lia]. }
  destruct stp; try discriminate E; try (cbn in Hpk; discriminate Hpk).
  - (* Fresh -> Ready *)
    inversion E; subst s'; clear E.
    unfold Rsd. exists p0, st0, r0, c0, l0, cu0, om. cbn. unfold upd. cbn.
    sp; auto; try (split; [|split; [|split; [|split]]]; assumption).
    prtail OTH om ltac:(left; reflexivity) i.
    cbn in Hpk. apply Nat.eqb_eq in Hpk. subst pp.
    do 4 eexists; cbn; unfold upd; cbn; rewrite ?Nat.eqb_refl; cbn; rewrite ?Hth; cbn; sp; try reflexivity; auto.
    all: try exact Hns; try (intros X; apply Hjn in X; discriminate X);
         try (split; intro X; [apply Hom in X; discriminate X|discriminate X]).
  - (* Ready: one instruction *)
    cbn in Hpk.
    destruct pp as [|[|[|[|[|[|[|pp]]]]]]]; try discriminate Hpk; cbn in E;
      unfold live, obj_of, IM, INQ, PIPE in E; cbn in E; rewrite ?Hal in E; cbn in E; rewrite ?Hth in E; cbn in E.
    + (* 0: IBrDone 6 *)
      match type of E with context [if ?c then _ else _] => destruct c eqn:EB end;
      inversion E; subst s'; clear E.
      all: unfold Rsd; exists p0, st0, r0, c0, l0, cu0, om; cbn; unfold upd; cbn;
           sp; auto; try (split; [|split; [|split; [|split]]]; assumption).
      all: prtail OTH om ltac:(left; reflexivity) i.
      all: do 4 eexists; cbn; unfold upd; cbn; rewrite ?Nat.eqb_refl; cbn; rewrite ?Hth; cbn; sp; try reflexivity; auto.
      all: split; intro X; [apply Hom in X; discriminate X|discriminate X].
    + (* 1: ILock IM *)
      rewrite HOM in E. destruct om as [o|] eqn:Eom; [discriminate E|].
      inversion E; subst s'; clear E.
      unfold Rsd. exists p0, st0, r0, c0, l0, cu0, (Some (S i)). cbn. unfold upd. cbn.
      sp; auto; try (split; [|split; [|split; [|split]]]; assumption).
      * split; intro X; [apply Hm1 in X; discriminate X|discriminate X].
      * intros t Xt. inversion Xt. lia.
      * intros r Hr. destruct r as [|[|[|r]]]; try lia; cbn; apply HownO; lia.
      * prtail OTH (Some (S i)) ltac:(right; left; split; reflexivity) i.
        do 4 eexists; cbn; unfold upd; cbn; rewrite ?Nat.eqb_refl; cbn; rewrite ?Hth; cbn; sp; try reflexivity; auto.
        split; reflexivity.
    + (* 2: IPush INQ *)
      inversion E; subst s'; clear E.
      unfold Rsd. exists p0, st0, r0, c0, l0, cu0, om. cbn. unfold upd. cbn.
      sp; auto.
      * split; [|split; [|split; [|split]]]; try assumption.
        intros X. apply (inl3637 p0 c0 i) in X. apply Hjn in X. discriminate X.
      * rewrite !app_assoc. apply Permutation_app_tail. rewrite <- !app_assoc. exact HG.
      * intros c Hc. apply in_app_or in Hc. destruct Hc as [Hc|[Hc|[]]]; [apply Hsub; exact Hc|subst c; cbn; lia].
      * rewrite filt_push_other by lia. exact Hch.
      * intros j Hj. destruct (Nat.eq_dec j i) as [->|Hji].
        -- exists 3, Ready, rp, (S cp). cbn. unfold upd. cbn. rewrite ?Nat.eqb_refl. cbn. sp; auto.
           apply filt_push. exact Hsu.
        -- destruct (HPR j Hj) as (ppj & stpj & rpj & cpj & Hthj & Hpkj & Hnsj & Hjnj & Homj & Hsuj).
           exists ppj, stpj, rpj, cpj. cbn. unfold upd. cbn. destruct (Nat.eqb j i) eqn:EE; [apply Nat.eqb_eq in EE; lia|].
           cbn in Hthj. sp; auto.
           rewrite filt_push_other by lia. exact Hsuj.
    + (* 3: IUnlock IM *)
      assert (Xo : om = Some (S i)) by (apply Hom; reflexivity).
      rewrite HOM, Xo in E. rewrite Nat.eqb_refl in E.
      inversion E; subst s'; clear E.
      unfold Rsd. exists p0, st0, r0, c0, l0, cu0, None. cbn. unfold upd. cbn.
      sp; auto; try (split; [|split; [|split; [|split]]]; assumption).
      * split; intro X; [apply Hm1 in X; rewrite Xo in X; discriminate X|discriminate X].
      * intros t Xt. discriminate Xt.
      * intros r Hr. destruct r as [|[|[|r]]]; try lia; cbn; apply HownO; lia.
      * prtail OTH (@None tid) ltac:(right; right; split; [exact Xo|reflexivity]) i.
        do 4 eexists; cbn; unfold upd; cbn; rewrite ?Nat.eqb_refl; cbn; rewrite ?Hth; cbn; sp; try reflexivity; auto.
        split; intro X; discriminate X.
    + (* 4: IInc PIPE *)
      inversion E; subst s'; clear E.
      unfold Rsd. exists p0, st0, r0, c0, l0, cu0, om. cbn. unfold upd. cbn.
      sp; auto; try (split; [|split; [|split; [|split]]]; assumption); idtac.
      prtail OTH om ltac:(left; reflexivity) i.
      do 4 eexists; cbn; unfold upd; cbn; rewrite ?Nat.eqb_refl; cbn; rewrite ?Hth; cbn; sp; try reflexivity; auto.
      all: try (split; intro X; [apply Hom in X; discriminate X|discriminate X]).
    + (* 5: IJmp 0 *)
      inversion E; subst s'; clear E.
      unfold Rsd. exists p0, st0, r0, c0, l0, cu0, om. cbn. unfold upd. cbn.
      sp; auto; try (split; [|split; [|split; [|split]]]; assumption).
      prtail OTH om ltac:(left; reflexivity) i.
      do 4 eexists; cbn; unfold upd; cbn; rewrite ?Nat.eqb_refl; cbn; rewrite ?Hth; cbn; sp; try reflexivity; auto.
      all: try (split; intro X; [apply Hom in X; discriminate X|discriminate X]).
    + (* 6: IEnd *)
      inversion E; subst s'; clear E.
      unfold Rsd. exists p0, st0, r0, c0, l0, cu0, om. cbn. unfold upd. cbn.
      sp; auto; try (split; [|split; [|split; [|split]]]; assumption).
      prtail OTH om ltac:(left; reflexivity) i.
      do 4 eexists; cbn; unfold upd; cbn; rewrite ?Nat.eqb_refl; cbn; rewrite ?Hth; cbn; sp; try reflexivity; auto.
      all: try (intros _; reflexivity).
      all: try (split; intro X; [apply Hom in X; discriminate X|discriminate X]).
Qed.
End Pr.
