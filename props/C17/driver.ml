(* C17 model driver.  payload:
     exec <lims,comma> <schedule,comma|->
     futraw <schedule>
     futcopy <g> <schedule>
   A schedule entry c < 1000 picks the (c mod n)-th enabled thread (n = number of enabled threads,
   ordered by thread id) and, for a signal, the (c / n)-th waiter; c >= 1000 injects a spurious
   wake-up of the ((c-1000) mod k)-th sleeping thread (skipped when nobody sleeps). *)
let ints s = if s = "-" || s = "" then [] else List.map ios (String.split_on_char ',' s)
let rec nat_list l = match l with [] -> [] | x :: r -> nat_of_int x :: nat_list r

let fmt_events (evs : (((nat * nat) * nat) * nat) list) : string =
  let mt = Hashtbl.create 8 and ct = Hashtbl.create 8 in
  let name tbl pre k =
    match Hashtbl.find_opt tbl k with
    | Some n -> n
    | None -> let n = Printf.sprintf "%s%d" pre (Hashtbl.length tbl) in Hashtbl.add tbl k n; n in
  let one (((t, k), a), b) =
    let t = int_of_nat t and k = int_of_nat k and a = int_of_nat a and b = int_of_nat b in
    match k with
    | 0 -> Printf.sprintf "%dG" t
    | 1 -> Printf.sprintf "%dL.%s" t (name mt "m" a)
    | 2 -> Printf.sprintf "%dU.%s" t (name mt "m" a)
    | 3 -> let c = name ct "c" a in Printf.sprintf "%dW.%s.%s" t c (name mt "m" b)
    | 4 -> Printf.sprintf "%dR.%s" t (name mt "m" a)
    | 5 -> Printf.sprintf "%dS.%s" t (name ct "c" a)
    | 6 -> Printf.sprintf "%dB.%s" t (name ct "c" a)
    | 7 -> Printf.sprintf "%dC.%d" t a
    | 8 -> Printf.sprintf "%dJ.%d" t a
    | 9 -> Printf.sprintf "%dZ" t
    | 11 -> Printf.sprintf "%dY" t
    | 12 -> let c = name ct "c" a in Printf.sprintf "%dTW.%s.%s" t c (name mt "m" b)
    | 13 -> Printf.sprintf "%dT" t
    | 14 -> Printf.sprintf "%dP" t
    | 15 -> Printf.sprintf "%dPT" t
    | _ -> Printf.sprintf "%d?" t in
  if evs = [] then "-" else String.concat "," (List.map one evs)

let hz = function
  | UseAfterFree -> "uaf" | BadUnlock -> "badunlock" | BadCreate -> "badcreate"
  | DestroyBusy -> "destroybusy" | NoCallback -> "nocallback"

let result ?(undrained=false) scen (st, evs, oc) nspur =
  let e = match oc with
    | Finished -> if undrained then "undrained" else "done" | Deadlock -> "deadlock" | Faulted h -> hz h | OutOfFuel -> "fuel" | LostWakeup -> "lost-wakeup" in
  let ran = String.concat "," (List.map (fun ((p, i), t) ->
      Printf.sprintf "%d.%d@%d" (int_of_nat p) (int_of_nat i) (int_of_nat t)) st.ran) in
  let outs = String.concat "," (List.map (fun ((t, k), v) ->
      Printf.sprintf "%d:%d:%d" (int_of_nat t) (int_of_nat k) (int_of_nat v)) st.outs) in
  Printf.sprintf "tr=%s;end=%s;ran=%s;outs=%s;class=%s:%s:%s" (fmt_events evs) e
    (if ran = "" then "-" else ran) (if outs = "" then "-" else outs) scen e
    (if nspur > 0 then "spurious" else "nospur")

let fuel = nat_of_int 4000
let handle (pl : string) : string =
  match split pl with
  | ["exec"; lims; sched] ->
    let l = ints lims and sc = ints sched in
    let ns = List.length (List.filter (fun c -> c >= 1000) sc) in
    result (Printf.sprintf "exec%d" (List.length l))
      (let ((st, evs), oc) = run p fuel (init_exec (nat_list l)) (nat_list sc) O [] [] in (st, evs, oc)) ns
  | ["futraw"; sched] ->
    let sc = ints sched in
    let ns = List.length (List.filter (fun c -> c >= 1000) sc) in
    result "futraw" (let ((st, evs), oc) = run p fuel init_fut_raw (nat_list sc) O [] [] in (st, evs, oc)) ns
  | ["futcopy"; g; sched] ->
    let sc = ints sched in
    let ns = List.length (List.filter (fun c -> c >= 1000) sc) in
    result ("futcopy" ^ g)
      (let ((st, evs), oc) = run p fuel (init_fut_copy (nat_of_int (ios g))) (nat_list sc) O [] [] in (st, evs, oc)) ns
  | ["locker"; sched] ->
    let sc = ints sched in
    let ns = List.length (List.filter (fun c -> c >= 1000) sc) in
    result "locker" (let ((st, evs), oc) = run p fuel init_locker (nat_list sc) O [] [] in (st, evs, oc)) ns
  | ["prefs"; sched] ->
    let sc = ints sched in
    let ns = List.length (List.filter (fun c -> c >= 1000) sc) in
    (* the real saver callbacks cannot report to the harness: their effect is observed through the file (outs) *)
    result "prefs" (let ((st, evs), oc) = run p fuel init_prefs (nat_list sc) O [] [] in ({st with ran = []}, evs, oc)) ns
  | ["prefs2"; sched] ->
    let sc = ints sched in
    let ns = List.length (List.filter (fun c -> c >= 1000) sc) in
    result "prefs2" (let ((st, evs), oc) = run p fuel init_prefs2 (nat_list sc) O [] [] in ({st with ran = []}, evs, oc)) ns
  | ["prefsj"; sched] ->
    let sc = ints sched in
    let ns = List.length (List.filter (fun c -> c >= 1000) sc) in
    result "prefsj" (let ((st, evs), oc) = run p fuel init_prefsj (nat_list sc) O [] [] in ({st with ran = []}, evs, oc)) ns
  | ["term"; sched] ->
    let sc = ints sched in
    let ns = List.length (List.filter (fun c -> c >= 1000) sc) in
    (* the SetTerminate callbacks (payload 1) are internal to SelectServer: not reported by the harness *)
    result "term" (let ((st, evs), oc) = run p fuel init_term (nat_list sc) O [] [] in
                   ({st with ran = List.filter (fun ((_, i), _) -> int_of_nat i <> 1) st.ran}, evs, oc)) ns
  | ["ssd"; lims; rs; k; sched] ->
    let l = ints lims and r = ints rs and sc = ints sched in
    let ns = List.length (List.filter (fun c -> c >= 1000) sc) in
    result (Printf.sprintf "ssd%d:k%s:re%d" (List.length l) k (List.fold_left (+) 0 r))
      (let ((st, evs), oc) = run p fuel (init_ssd (nat_list l) (nat_list r) (nat_of_int (ios k))) (nat_list sc) O [] [] in (st, evs, oc)) ns
  | ["pool"; n; sched] ->
    let sc = ints sched in
    let ns = List.length (List.filter (fun c -> c >= 1000) sc) in
    result ("pool" ^ n) (let ((st, evs), oc) = run p fuel (init_pool (nat_of_int (ios n))) (nat_list sc) O [] [] in (st, evs, oc)) ns
  | ["poolre"; n; r; sched] ->
    let sc = ints sched in
    let ns = List.length (List.filter (fun c -> c >= 1000) sc) in
    let ((st, evs), oc) = run p fuel (init_poolre (nat_of_int (ios n)) (nat_of_int (ios r))) (nat_list sc) O [] [] in
    (* JoinAll() returned: everything handed to the pool (also by running closures, also after shutdown began) has run once *)
    let key (a, b) = (int_of_nat a, int_of_nat b) in
    let drained = List.sort compare (List.map key st.subm) = List.sort compare (List.map (fun (c, _) -> key c) st.ran)
                  && List.length st.subm = ios n + min (ios n) (ios r) in
    result ~undrained:(not drained) ("poolre" ^ n ^ ":re" ^ r) (st, evs, oc) ns
  | ["futasg"; ty; sched] when ty = "int" || ty = "void" ->
    let sc = ints sched in
    let ns = List.length (List.filter (fun c -> c >= 1000) sc) in
    result ("futasg" ^ ty) (let ((st, evs), oc) = run p fuel init_fut_asg (nat_list sc) O [] [] in (st, evs, oc)) ns
  | ["futpoll"; ty; k; sched] when ty = "int" || ty = "void" ->
    let sc = ints sched in
    let ns = List.length (List.filter (fun c -> c >= 1000) sc) in
    result ("futpoll" ^ ty ^ ":k" ^ k) (let ((st, evs), oc) = run p2 fuel (init_fut_poll (nat_of_int (ios k))) (nat_list sc) O [] [] in (st, evs, oc)) ns
  | ["periodic"; sched] ->
    let sc = ints sched in
    let ns = List.length (List.filter (fun c -> c >= 1000) sc) in
    result "periodic" (let ((st, evs), oc) = run p fuel init_periodic (nat_list sc) O [] [] in (st, evs, oc)) ns
  | ["execre"; lims; rs; sched] ->
    let l = ints lims and r = ints rs and sc = ints sched in
    let ns = List.length (List.filter (fun c -> c >= 1000) sc) in
    result (Printf.sprintf "execre%d:re%d" (List.length l) (List.fold_left (+) 0 r))
      (let ((st, evs), oc) = run p fuel (init_execre (nat_list l) (nat_list r)) (nat_list sc) O [] [] in (st, evs, oc)) ns
  | ["ss"; lims; rs; k; sched] ->
    let l = ints lims and r = ints rs and sc = ints sched in
    let ns = List.length (List.filter (fun c -> c >= 1000) sc) in
    result (Printf.sprintf "ss%d:k%s:re%d" (List.length l) k (List.fold_left (+) 0 r))
      (let ((st, evs), oc) = run p fuel (init_ss (nat_list l) (nat_list r) (nat_of_int (ios k))) (nat_list sc) O [] [] in (st, evs, oc)) ns
  (* the pre-fix programs, for experiments only (not generated by prop.py) *)
  | ["oldexec"; lims; sched] ->
    let l = ints lims and sc = ints sched in
    result "oldexec" (let ((st, evs), oc) = run p_old fuel (init_exec (nat_list l)) (nat_list sc) O [] [] in (st, evs, oc)) 0
  | ["oldfutraw"; sched] ->
    let sc = ints sched in
    result "oldfutraw" (let ((st, evs), oc) = run p_old fuel init_fut_raw (nat_list sc) O [] [] in (st, evs, oc)) 0
  | _ -> "bad-op"
let () = vh_run handle
