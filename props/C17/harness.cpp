// C17 correspondence harness: the real ola::thread classes under a cooperative scheduler.
// Every pthread synchronisation entry point used by /repo is wrapped at link time
// (ld --wrap); mutexes and condition variables are emulated so that exactly one thread runs at
// a time and the schedule (which enabled thread goes next, which waiter a signal wakes, where a
// spurious wake-up happens) is the case payload.  The sequence of synchronisation operations, the
// callbacks run (id, thread, order), observed return values and the way the run ends must equal
// what the extracted Coq machine produces for the same schedule.
#include <pthread.h>
#include <semaphore.h>
#include <sys/wait.h>
#include <deque>
#include <map>
#include <set>
#include <string>
#include <vector>
#include <sys/select.h>
#include <algorithm>
#include <memory>
#include <queue>
#include <set>
#include <sstream>
#include <iostream>
#include "ola/Callback.h"
#include "ola/Clock.h"
#include "ola/ExportMap.h"
#include "ola/io/Descriptor.h"
#include "ola/thread/Mutex.h"
#define private public
#include "ola/io/SelectServer.h"
#undef private
#include "ola/thread/ThreadPool.h"
#include "ola/base/Flags.h"
#include "olad/Preferences.h"
#include <sys/stat.h>
DECLARE_bool(use_epoll);
#include "ola/Logging.h"
#include "ola/thread/ExecutorThread.h"
#include "ola/thread/Future.h"
#include "ola/thread/PeriodicThread.h"
#include "ola/Clock.h"
#include <errno.h>
#include "ola/thread/Thread.h"
#include "vh.h"

extern "C" {
int __real_pthread_mutex_lock(pthread_mutex_t *m);
int __real_pthread_mutex_unlock(pthread_mutex_t *m);
int __real_pthread_mutex_init(pthread_mutex_t *m, const pthread_mutexattr_t *a);
int __real_pthread_mutex_destroy(pthread_mutex_t *m);
int __real_pthread_cond_init(pthread_cond_t *c, const pthread_condattr_t *a);
int __real_pthread_cond_destroy(pthread_cond_t *c);
int __real_pthread_cond_wait(pthread_cond_t *c, pthread_mutex_t *m);
int __real_pthread_cond_timedwait(pthread_cond_t *c, pthread_mutex_t *m, const struct timespec *ts);
int __real_pthread_cond_signal(pthread_cond_t *c);
int __real_pthread_cond_broadcast(pthread_cond_t *c);
int __real_pthread_create(pthread_t *t, const pthread_attr_t *a, void *(*fn)(void *), void *arg);
int __real_pthread_join(pthread_t t, void **ret);
int __real_select(int n, fd_set *r, fd_set *w, fd_set *e, struct timeval *tv);
}

namespace sch {
enum Op { OP_NONE, OP_BEGIN, OP_LOCK, OP_UNLOCK, OP_WAIT, OP_RELOCK, OP_SIGNAL, OP_BCAST, OP_CREATE, OP_JOIN,
          OP_YIELD, OP_TWAIT, OP_POLL };
enum St { ST_PARKED, ST_ASLEEP, ST_DONE };
struct Th {
  int id; sem_t sem; Op op; const void *a; const void *b; St st;
  pthread_t real; void *(*fn)(void *); void *arg; int join_target;
  bool timed; bool timedout;
  int nfds; fd_set *rf; fd_set *wf;
};
static bool active = false;
static std::vector<Th*> ths;
static __thread Th *self = NULL;
static std::map<const void*, int> owner;
static std::map<const void*, std::deque<int> > wq;
static std::set<const void*> dead;
static std::map<const void*, std::string> mname, cname;
static std::vector<int> sched;
static size_t pos = 0;
static unsigned steps = 0;
static int last_run = 0;
static std::string trace, ran, outs, outcome;
static int result_fd = -1;
static ola::io::SelectServer *g_ss = NULL;

// is any descriptor of a parked select() ready right now?
static bool poll_ready(int nfds, fd_set *rf, fd_set *wf) {
  fd_set r, w; FD_ZERO(&r); FD_ZERO(&w);
  if (rf) r = *rf;
  if (wf) w = *wf;
  struct timeval tv = {0, 0};
  return __real_select(nfds, rf ? &r : NULL, wf ? &w : NULL, NULL, &tv) > 0;
}

static std::string nm(std::map<const void*, std::string> *tbl, const char *pre, const void *p) {
  std::map<const void*, std::string>::iterator it = tbl->find(p);
  if (it != tbl->end()) return it->second;
  std::string n = pre + vh::str(tbl->size());
  (*tbl)[p] = n;
  return n;
}
static void ev(const std::string &e) { if (!trace.empty()) trace += ","; trace += e; }

static void finish() {
  std::string r = "tr=" + (trace.empty() ? std::string("-") : trace) + ";end=" + outcome +
                  ";ran=" + (ran.empty() ? std::string("-") : ran) +
                  ";outs=" + (outs.empty() ? std::string("-") : outs);
  (void) !write(result_fd, r.data(), r.size());
  _exit(0);
}

static bool can_run(Th *t) {
  if (t->st != ST_PARKED) return false;
  switch (t->op) {
    case OP_LOCK: return owner.find(t->a) == owner.end() || dead.count(t->a);
    case OP_RELOCK: return owner.find(t->a) == owner.end();
    case OP_JOIN: return t->join_target >= 0 && ths[t->join_target]->st == ST_DONE;
    case OP_NONE: return false;
    case OP_POLL: return poll_ready(t->nfds, t->rf, t->wf);
    default: return true;
  }
}

// Pick and perform scheduling steps until some thread has been released to run.
static void dispatch() {
  while (true) {
    if (++steps > 4000) { outcome = "fuel"; finish(); }
    int c = pos < sched.size() ? sched[pos] : 500;
    if (pos < sched.size()) pos++;
    if (c >= 1000) {
      std::vector<Th*> sl;
      for (size_t i = 0; i < ths.size(); i++) if (ths[i]->st == ST_ASLEEP) sl.push_back(ths[i]);
      if (sl.empty()) continue;
      Th *t = sl[(c - 1000) % sl.size()];
      std::deque<int> &q = wq[t->a];
      for (std::deque<int>::iterator it = q.begin(); it != q.end(); ++it)
        if (*it == t->id) { q.erase(it); break; }
      t->st = ST_PARKED; t->op = OP_RELOCK; t->a = t->b;
      ev(vh::str(t->id) + "Z");
      continue;
    }
    // really enabled threads first, then threads asleep in a timed wait (they can always time out)
    std::vector<Th*> en1, en2;
    bool all_done = true;
    for (size_t i = 0; i < ths.size(); i++) {
      if (can_run(ths[i])) en1.push_back(ths[i]);
      if (ths[i]->st == ST_ASLEEP && ths[i]->timed) en2.push_back(ths[i]);
      if (ths[i]->st == ST_PARKED && ths[i]->op == OP_POLL && !poll_ready(ths[i]->nfds, ths[i]->rf, ths[i]->wf))
        en2.push_back(ths[i]);
      if (ths[i]->st != ST_DONE) all_done = false;
    }
    std::vector<Th*> en(en1);
    en.insert(en.end(), en2.begin(), en2.end());
    if (en.empty()) { outcome = all_done ? "done" : "deadlock"; finish(); }
    if (en1.empty() && g_ss) {
      // the loop thread sleeps in select() with an empty wake-up pipe although callbacks are queued
      for (size_t i = 0; i < en2.size(); i++)
        if (en2[i]->op == OP_POLL && !g_ss->m_incoming_callbacks.empty()) { outcome = "lost-wakeup"; finish(); }
    }
    Th *t = en[c % en.size()];
    unsigned pick = c / en.size();
    if (c >= 500) {
      pick = 0;
      t = NULL;
      for (size_t i = 0; i < en1.size(); i++) if (en1[i]->id == last_run) t = en1[i];
      if (!t) t = en1.empty() ? en2[0] : en1[(c - 500) % en1.size()];
    }
    last_run = t->id;
    if (t->st == ST_PARKED && t->op == OP_POLL) {
      bool ready = poll_ready(t->nfds, t->rf, t->wf);
      ev(vh::str(t->id) + (ready ? "P" : "PT"));
      t->timedout = !ready;
      t->op = OP_NONE;
      sem_post(&t->sem);
      return;
    }
    if (t->st == ST_ASLEEP) {     // time-out of a timed wait
      std::deque<int> &q = wq[t->a];
      for (std::deque<int>::iterator it = q.begin(); it != q.end(); ++it)
        if (*it == t->id) { q.erase(it); break; }
      t->st = ST_PARKED; t->op = OP_RELOCK; t->a = t->b; t->timedout = true;
      ev(vh::str(t->id) + "T");
      continue;
    }
    std::string id = vh::str(t->id);
    bool run_it = true;
    switch (t->op) {
      case OP_BEGIN: ev(id + "G"); break;
      case OP_LOCK:
        ev(id + "L." + nm(&mname, "m", t->a));
        if (dead.count(t->a)) { outcome = "uaf"; finish(); }
        owner[t->a] = t->id;
        break;
      case OP_RELOCK:
        ev(id + "R." + nm(&mname, "m", t->a));
        if (dead.count(t->a)) { outcome = "uaf"; finish(); }
        owner[t->a] = t->id;
        break;
      case OP_UNLOCK:
        ev(id + "U." + nm(&mname, "m", t->a));
        if (dead.count(t->a)) { outcome = "uaf"; finish(); }
        if (owner.find(t->a) == owner.end() || owner[t->a] != t->id) { outcome = "badunlock"; finish(); }
        owner.erase(t->a);
        break;
      case OP_YIELD: ev(id + "Y"); break;
      case OP_WAIT:
      case OP_TWAIT: {
        std::string cn = nm(&cname, "c", t->a);
        ev(id + (t->op == OP_TWAIT ? "TW." : "W.") + cn + "." + nm(&mname, "m", t->b));
        t->timed = (t->op == OP_TWAIT); t->timedout = false;
        if (dead.count(t->a) || dead.count(t->b)) { outcome = "uaf"; finish(); }
        if (owner.find(t->b) == owner.end() || owner[t->b] != t->id) { outcome = "badunlock"; finish(); }
        owner.erase(t->b);
        wq[t->a].push_back(t->id);
        t->st = ST_ASLEEP;
        run_it = false;
        break;
      }
      case OP_SIGNAL: {
        ev(id + "S." + nm(&cname, "c", t->a));
        if (dead.count(t->a)) { outcome = "uaf"; finish(); }
        std::deque<int> &q = wq[t->a];
        if (!q.empty()) {
          size_t k = pick % q.size();
          Th *u = ths[q[k]];
          q.erase(q.begin() + k);
          u->st = ST_PARKED; u->op = OP_RELOCK; u->a = u->b;
        }
        break;
      }
      case OP_BCAST: {
        ev(id + "B." + nm(&cname, "c", t->a));
        if (dead.count(t->a)) { outcome = "uaf"; finish(); }
        std::deque<int> &q = wq[t->a];
        while (!q.empty()) {
          Th *u = ths[q.front()];
          q.pop_front();
          u->st = ST_PARKED; u->op = OP_RELOCK; u->a = u->b;
        }
        break;
      }
      case OP_CREATE: ev(id + "C." + vh::str(ths.size())); break;
      case OP_JOIN: ev(id + "J." + vh::str(t->join_target)); break;
      default: break;
    }
    if (!run_it) continue;
    t->op = OP_NONE;
    sem_post(&t->sem);
    return;
  }
}

static void park(Op op, const void *a, const void *b) {
  self->op = op; self->a = a; self->b = b; self->st = ST_PARKED;
  dispatch();
  sem_wait(&self->sem);
}

static Th *new_thread() {
  Th *t = new Th();
  t->id = ths.size(); sem_init(&t->sem, 0, 0); t->op = OP_BEGIN; t->a = t->b = NULL; t->st = ST_PARKED;
  t->join_target = -1; t->fn = NULL; t->arg = NULL; t->timed = false; t->timedout = false;
  ths.push_back(t);
  return t;
}

static void *trampoline(void *p) {
  Th *t = static_cast<Th*>(p);
  self = t;
  sem_wait(&t->sem);          // parked with OP_BEGIN by the creator
  void *r = t->fn(t->arg);
  t->st = ST_DONE;
  dispatch();
  return r;
}

static void destroyed(const void *p, bool busy) {
  if (!active || !self) return;
  if (busy) { outcome = "destroybusy"; finish(); }
  if (dead.count(p)) { outcome = "uaf"; finish(); }     // destroyed twice
  dead.insert(p);
}
}  // namespace sch

extern "C" {
int __wrap_pthread_mutex_init(pthread_mutex_t *m, const pthread_mutexattr_t *a) {
  if (sch::active) { sch::dead.erase(m); sch::owner.erase(m); }
  return __real_pthread_mutex_init(m, a);
}
int __wrap_pthread_cond_init(pthread_cond_t *c, const pthread_condattr_t *a) {
  if (sch::active) { sch::dead.erase(c); sch::wq.erase(c); }
  return __real_pthread_cond_init(c, a);
}
int __wrap_pthread_mutex_destroy(pthread_mutex_t *m) {
  sch::destroyed(m, sch::owner.find(m) != sch::owner.end());
  return __real_pthread_mutex_destroy(m);
}
int __wrap_pthread_cond_destroy(pthread_cond_t *c) {
  sch::destroyed(c, sch::wq.find(c) != sch::wq.end() && !sch::wq[c].empty());
  return __real_pthread_cond_destroy(c);
}
int __wrap_pthread_mutex_lock(pthread_mutex_t *m) {
  if (!sch::active || !sch::self) return __real_pthread_mutex_lock(m);
  sch::park(sch::OP_LOCK, m, NULL);
  return 0;
}
int __wrap_pthread_mutex_unlock(pthread_mutex_t *m) {
  if (!sch::active || !sch::self) return __real_pthread_mutex_unlock(m);
  sch::park(sch::OP_UNLOCK, m, NULL);
  // a scheduling point right after the unlock: another thread may run before the caller continues
  sch::park(sch::OP_YIELD, NULL, NULL);
  return 0;
}
int __wrap_pthread_cond_wait(pthread_cond_t *c, pthread_mutex_t *m) {
  if (!sch::active || !sch::self) return __real_pthread_cond_wait(c, m);
  sch::park(sch::OP_WAIT, c, m);   // returns after wake-up + re-acquisition
  return 0;
}
int __wrap_pthread_cond_timedwait(pthread_cond_t *c, pthread_mutex_t *m, const struct timespec *ts) {
  if (!sch::active || !sch::self) return __real_pthread_cond_timedwait(c, m, ts);
  sch::park(sch::OP_TWAIT, c, m);   // returns after wake-up or (schedule-driven) time-out + re-acquisition
  return sch::self->timedout ? ETIMEDOUT : 0;
}
int __wrap_select(int n, fd_set *r, fd_set *w, fd_set *e, struct timeval *tv) {
  if (!sch::active || !sch::self) return __real_select(n, r, w, e, tv);
  sch::self->nfds = n; sch::self->rf = r; sch::self->wf = w;
  sch::park(sch::OP_POLL, NULL, NULL);
  if (sch::self->timedout) {      // schedule-driven time-out
    if (r) FD_ZERO(r);
    if (w) FD_ZERO(w);
    if (e) FD_ZERO(e);
    return 0;
  }
  struct timeval zero = {0, 0};
  return __real_select(n, r, w, e, &zero);
}
int __wrap_pthread_cond_signal(pthread_cond_t *c) {
  if (!sch::active || !sch::self) return __real_pthread_cond_signal(c);
  sch::park(sch::OP_SIGNAL, c, NULL);
  return 0;
}
int __wrap_pthread_cond_broadcast(pthread_cond_t *c) {
  if (!sch::active || !sch::self) return __real_pthread_cond_broadcast(c);
  sch::park(sch::OP_BCAST, c, NULL);
  return 0;
}
int __wrap_pthread_create(pthread_t *t, const pthread_attr_t *a, void *(*fn)(void *), void *arg) {
  if (!sch::active || !sch::self) return __real_pthread_create(t, a, fn, arg);
  sch::park(sch::OP_CREATE, NULL, NULL);
  sch::Th *n = sch::new_thread();
  n->fn = fn; n->arg = arg;
  int r = __real_pthread_create(t, a, sch::trampoline, n);
  n->real = *t;
  return r;
}
int __wrap_pthread_join(pthread_t t, void **ret) {
  if (!sch::active || !sch::self) return __real_pthread_join(t, ret);
  sch::self->join_target = -1;
  for (size_t i = 0; i < sch::ths.size(); i++)
    if (sch::ths[i] != sch::self && sch::ths[i]->fn && pthread_equal(sch::ths[i]->real, t))
      sch::self->join_target = i;
  sch::park(sch::OP_JOIN, NULL, NULL);
  return __real_pthread_join(t, ret);
}
}

// ---------------------------------------------------------------------------- scenarios
using ola::thread::ExecutorThread;
using ola::thread::Future;
using ola::thread::Thread;

static void record(int producer, int seq) {
  if (!sch::ran.empty()) sch::ran += ",";
  sch::ran += vh::str(producer) + "." + vh::str(seq) + "@" + vh::str(sch::self->id);
}
static void out(int k, int v) {
  if (!sch::outs.empty()) sch::outs += ",";
  sch::outs += vh::str(sch::self->id) + ":" + vh::str(k) + ":" + vh::str(v);
}

struct ProdArg { ExecutorThread *ex; int n; };
static void *producer(void *p) {
  ProdArg *a = static_cast<ProdArg*>(p);
  for (int j = 0; j < a->n; j++)
    a->ex->Execute(ola::NewSingleCallback(record, sch::self->id, j));
  return NULL;
}

static void scen_exec(const std::vector<int> &lims) {
  std::vector<ProdArg> args(lims.size());
  std::vector<pthread_t> tids(lims.size());
  {
    ExecutorThread ex((Thread::Options()));
    ex.Start();
    for (size_t i = 0; i < lims.size(); i++) {
      args[i].ex = &ex; args[i].n = lims[i];
      pthread_create(&tids[i], NULL, producer, &args[i]);
    }
    ex.Stop();
    for (size_t i = 0; i < lims.size(); i++) pthread_join(tids[i], NULL);
  }  // ~ExecutorThread
}

static void *setter_raw(void *p) {
  static_cast<Future<int>*>(p)->Set(42);
  return NULL;
}
static void scen_futraw() {
  pthread_t t;
  {
    Future<int> f;
    pthread_create(&t, NULL, setter_raw, &f);
    int v = f.Get();
    out(1, v);
  }  // ~Future: DeRef, frees the FutureImpl
  pthread_join(t, NULL);
}

static void *setter_copy(void *p) {
  Future<int> *f = static_cast<Future<int>*>(p);
  f->Set(42);
  delete f;
  return NULL;
}
static void *getter_copy(void *p) {
  Future<int> *f = static_cast<Future<int>*>(p);
  int v = f->Get();
  out(1, v);
  delete f;
  return NULL;
}
static void scen_futcopy(int g) {
  std::vector<pthread_t> tids(1 + g);
  {
    Future<int> f;
    for (int i = 0; i < 1 + g; i++) {
      Future<int> *c = new Future<int>(f);
      pthread_create(&tids[i], NULL, i == 0 ? setter_copy : getter_copy, c);
    }
    int v = f.Get();
    out(1, v);
  }
  for (int i = 0; i < 1 + g; i++) pthread_join(tids[i], NULL);
}

// ---- MutexLocker with an early Release()
static ola::thread::Mutex *lk_x = NULL;
static void *lk_contender(void *) {
  { ola::thread::MutexLocker l(lk_x); }
  { ola::thread::MutexLocker l(lk_x); }
  return NULL;
}
static void scen_locker() {
  ola::thread::Mutex mx, my;
  lk_x = &mx;
  pthread_t t1, t2;
  pthread_create(&t1, NULL, lk_contender, NULL);
  pthread_create(&t2, NULL, lk_contender, NULL);
  {
    ola::thread::MutexLocker l(&mx);
    l.Release();
    { ola::thread::MutexLocker k(&my); }
  }  // ~MutexLocker of a released locker: must not touch the mutex again
  pthread_join(t1, NULL);
  pthread_join(t2, NULL);
}

// ---- the preference saver hand-off: real FileBackedPreferences + FilePreferenceSaverThread
static void scen_prefs() {
  char dir[64];
  snprintf(dir, sizeof(dir), "/tmp/C17_prefs_%d", static_cast<int>(getpid()));
  mkdir(dir, 0700);
  std::string file = std::string(dir) + "/ola-c17.conf";
  {
    ola::thread::Mutex own;          // ownership token of the owner-only preference map
    own.Lock();
    {
      ola::FilePreferenceSaverThread saver;
      ola::FileBackedPreferences prefs(dir, "c17", &saver);
      saver.Start();
      prefs.SetValue("k", "2");
      prefs.Save();
      prefs.SetValue("k", "3");
      saver.Synchronize();
      int v = -1;
      std::ifstream in(file.c_str());
      std::string line;
      while (std::getline(in, line)) {
        size_t p = line.find("k = ");
        if (p != std::string::npos) v = atoi(line.c_str() + p + 4);
      }
      out(3, v);
      saver.Join();
    }
    own.Unlock();
  }
  unlink(file.c_str());
  rmdir(dir);
}

// ---- two threads in FilePreferenceSaverThread::Synchronize() at the same time
static void *pf2_helper(void *p) {
  static_cast<ola::FilePreferenceSaverThread*>(p)->Synchronize();
  return NULL;
}
static void scen_prefs2() {
  ola::thread::Mutex own;
  own.Lock();
  {
    ola::FilePreferenceSaverThread saver;
    saver.Start();
    pthread_t h;
    pthread_create(&h, NULL, pf2_helper, &saver);
    saver.Synchronize();
    pthread_join(h, NULL);
    saver.Join();
  }
  own.Unlock();
}
// ---- Start() immediately followed by Join()
static void scen_prefsj() {
  ola::thread::Mutex own;
  own.Lock();
  {
    ola::FilePreferenceSaverThread saver;
    saver.Start();
    saver.Join();
  }
  own.Unlock();
}
// ---- SelectServer::Run() / Terminate() / Run() again
static ola::io::SelectServer *tm_ss = NULL;
static void *tm_p1(void *) {
  tm_ss->Execute(ola::NewSingleCallback(record, sch::self->id, 2));
  tm_ss->Terminate();
  tm_ss->Execute(ola::NewSingleCallback(record, sch::self->id, 3));
  tm_ss->Execute(ola::NewSingleCallback(record, sch::self->id, 4));
  return NULL;
}
static void *tm_p2(void *) {
  tm_ss->Execute(ola::NewSingleCallback(record, sch::self->id, 2));
  tm_ss->Terminate();
  return NULL;
}
static pthread_t tm_t[2];
static void tm_start(int which) {
  record(0, 0);
  pthread_create(&tm_t[which], NULL, which == 0 ? tm_p1 : tm_p2, NULL);
}
static void scen_term() {
  ola::io::SelectServer::Options opt;
  opt.force_select = true;
  ola::io::SelectServer ss(opt);
  tm_ss = &ss;
  sch::g_ss = &ss;
  ss.Execute(ola::NewSingleCallback(tm_start, 0));
  ss.Run();
  pthread_join(tm_t[0], NULL);
  ss.Execute(ola::NewSingleCallback(tm_start, 1));
  ss.Run();
  pthread_join(tm_t[1], NULL);
  sch::g_ss = NULL;
}

// ---- ThreadPool with two workers
static void scen_pool(int n) {
  ola::thread::ThreadPool pool(2);
  pool.Init();
  for (int i = 0; i < n; i++) pool.Execute(ola::NewSingleCallback(record, 0, i));
  pool.JoinAll();
}

// ---- ThreadPool where the first r closures are two-stage jobs: when run they hand a follow-up to the same pool
static int plr_children[16];
static void plr_stage1(ola::thread::ThreadPool *pool, int seq, int resubmit) {
  record(0, seq);
  if (resubmit) {
    int w = sch::self->id;
    int k = plr_children[w & 15]++;
    pool->Execute(ola::NewSingleCallback(record, w, k));
  }
}
static void scen_poolre(int n, int r) {
  ola::thread::ThreadPool pool(2);
  pool.Init();
  for (int i = 0; i < n; i++) pool.Execute(ola::NewSingleCallback(plr_stage1, &pool, i, i < r ? 1 : 0));
  pool.JoinAll();
}

// ---- language-level operations on Future handles (copy-assignment incl. self-assignment and assignment over a live
//      state, std::swap, destruction order), for Future<T> and Future<void>; a setter thread holds a copy
static void fa_set(Future<int> *f) { f->Set(42); }
static void fa_set(Future<void> *f) { f->Set(); }
static int fa_get(Future<int> *f) { return f->Get(); }
static int fa_get(Future<void> *f) { f->Get(); return 42; }
template <typename F>
static void *fa_setter(void *p) {
  F *f = static_cast<F*>(p);
  fa_set(f);
  delete f;
  return NULL;
}
template <typename F>
static void scen_futasg() {
  pthread_t t;
  {
    F f;
    F *alias = &f;
    f = *alias;                 // self-assignment of a sole owner: must not touch the shared state
    F g(f);
    g = f;                      // distinct handles that already share the state
    F h;
    h = f;                      // over a live state of which h is the sole owner: that state is freed
    std::swap(g, h);
    F *c = new F(f);
    pthread_create(&t, NULL, fa_setter<F>, c);
    int v = fa_get(&f);
    out(1, v);
  }  // ~h ~g ~f
  pthread_join(t, NULL);
}

// ---- a Future polled with IsComplete() by one thread while another thread calls Set(), Future<T> and Future<void>
static int fp_k = 0;
template <typename F>
static void *fp_poller(void *p) {
  F *f = static_cast<F*>(p);
  for (int i = 0; i < fp_k; i++)
    if (f->IsComplete()) break;
  int v = fa_get(f);
  out(1, v);
  delete f;
  return NULL;
}
template <typename F>
static void scen_futpoll(int k) {
  pthread_t t;
  fp_k = k;
  {
    F f;
    F *c = new F(f);
    pthread_create(&t, NULL, fp_poller<F>, c);
    fa_set(&f);
  }  // ~f
  pthread_join(t, NULL);
}

// ---- PeriodicThread: constructor starts the thread, Stop() terminates and joins it
static bool per_cb() { out(2, 0); return true; }
static void scen_periodic() {
  ola::thread::PeriodicThread pt(ola::TimeInterval(3600, 0), ola::NewCallback(per_cb));
  pt.Stop();
}

// ---- ExecutorThread with callbacks that call Execute again
static int er_children[64];
static void er_cb(ExecutorThread *ex, int producer, int seq, int resubmit) {
  record(producer, seq);
  if (resubmit) {
    int me = sch::self->id;
    int k = er_children[me]++;
    ex->Execute(ola::NewSingleCallback(record, me, k));
  }
}
struct ErArg { ExecutorThread *ex; int n; int re; };
static void *er_producer(void *p) {
  ErArg *a = static_cast<ErArg*>(p);
  for (int j = 0; j < a->n; j++)
    a->ex->Execute(ola::NewSingleCallback(er_cb, a->ex, sch::self->id, j, j < a->re ? 1 : 0));
  return NULL;
}
static void scen_execre(const std::vector<int> &lims, const std::vector<int> &rs) {
  std::vector<ErArg> args(lims.size());
  std::vector<pthread_t> tids(lims.size());
  {
    ExecutorThread ex((Thread::Options()));
    ex.Start();
    for (size_t i = 0; i < lims.size(); i++) {
      args[i].ex = &ex; args[i].n = lims[i]; args[i].re = i < rs.size() ? rs[i] : 0;
      pthread_create(&tids[i], NULL, er_producer, &args[i]);
    }
    ex.Stop();
    for (size_t i = 0; i < lims.size(); i++) pthread_join(tids[i], NULL);
  }  // ~ExecutorThread
}

// ---- the event loop's executor: a real SelectServer, driven by RunOnce() with a zero timeout
static int ss_children = 0;
static bool ss_drainer = false;
static void ss_cb(ola::io::SelectServer *ss, int producer, int seq, int resubmit) {
  record(producer, seq);
  if (ss_drainer && producer == 1 && seq == 0) {
    // queue a callback, then drain: the pattern ExecutorInterface.h recommends for destructors
    int k = ss_children++;
    ss->Execute(ola::NewSingleCallback(record, sch::self->id, k));
    ss->DrainCallbacks();
  } else if (resubmit) {
    int k = ss_children++;
    ss->Execute(ola::NewSingleCallback(record, sch::self->id, k));
  }
}
struct SsArg { ola::io::SelectServer *ss; int n; int re; };
static void *ss_producer(void *p) {
  SsArg *a = static_cast<SsArg*>(p);
  for (int j = 0; j < a->n; j++)
    a->ss->Execute(ola::NewSingleCallback(ss_cb, a->ss, sch::self->id, j, j < a->re ? 1 : 0));
  return NULL;
}
static void scen_ss(const std::vector<int> &lims, const std::vector<int> &rs, int k) {
  std::vector<SsArg> args(lims.size());
  std::vector<pthread_t> tids(lims.size());
  {
    ola::io::SelectServer::Options opt;
    opt.force_select = true;
    ola::io::SelectServer ss(opt);
    sch::g_ss = &ss;
    for (size_t i = 0; i < lims.size(); i++) {
      args[i].ss = &ss; args[i].n = lims[i]; args[i].re = i < rs.size() ? rs[i] : 0;
      pthread_create(&tids[i], NULL, ss_producer, &args[i]);
    }
    for (int j = 0; j < k; j++) ss.RunOnce(ola::TimeInterval(3600, 0));
    for (size_t i = 0; i < lims.size(); i++) pthread_join(tids[i], NULL);
    sch::g_ss = NULL;
  }  // ~SelectServer: DrainCallbacks
}

static std::vector<int> ints(const std::string &s) {
  std::vector<int> v;
  if (s == "-" || s.empty()) return v;
  std::vector<std::string> p = vh::split(s, ',');
  for (size_t i = 0; i < p.size(); i++) v.push_back(atoi(p[i].c_str()));
  return v;
}

static void child(const std::vector<std::string> &a) {
  alarm(15);
  sch::Th *m = sch::new_thread();
  sch::self = m;
  sch::sched = ints(a.back());
  sch::active = true;
  sch::park(sch::OP_BEGIN, NULL, NULL);
  if (a[0] == "exec") scen_exec(ints(a[1]));
  else if (a[0] == "futraw") scen_futraw();
  else if (a[0] == "futcopy") scen_futcopy(atoi(a[1].c_str()));
  else if (a[0] == "periodic") scen_periodic();
  else if (a[0] == "pool") scen_pool(atoi(a[1].c_str()));
  else if (a[0] == "poolre") scen_poolre(atoi(a[1].c_str()), atoi(a[2].c_str()));
  else if (a[0] == "futasg" && a[1] == "int") scen_futasg<Future<int> >();
  else if (a[0] == "futasg") scen_futasg<Future<void> >();
  else if (a[0] == "futpoll" && a[1] == "int") scen_futpoll<Future<int> >(atoi(a[2].c_str()));
  else if (a[0] == "futpoll") scen_futpoll<Future<void> >(atoi(a[2].c_str()));
  else if (a[0] == "locker") scen_locker();
  else if (a[0] == "prefs") scen_prefs();
  else if (a[0] == "prefs2") scen_prefs2();
  else if (a[0] == "prefsj") scen_prefsj();
  else if (a[0] == "term") scen_term();
  else if (a[0] == "ssd") { ss_drainer = true; scen_ss(ints(a[1]), ints(a[2]), atoi(a[3].c_str())); }
  else if (a[0] == "execre") scen_execre(ints(a[1]), ints(a[2]));
  else if (a[0] == "ss") scen_ss(ints(a[1]), ints(a[2]), atoi(a[3].c_str()));
  m->st = sch::ST_DONE;
  sch::dispatch();
  // other threads are still running: the thread that ends the run reports
  while (true) pause();
}

static std::string handle(const std::string &p) {
  std::vector<std::string> a = vh::split(p);
  if (!(a[0] == "exec" && a.size() == 3) && !(a[0] == "futraw" && a.size() == 2) &&
      !(a[0] == "futcopy" && a.size() == 3) && !(a[0] == "ss" && a.size() == 5) &&
      !(a[0] == "execre" && a.size() == 4) && !(a[0] == "periodic" && a.size() == 2) &&
      !(a[0] == "pool" && a.size() == 3) && !(a[0] == "poolre" && a.size() == 4) &&
      !(a[0] == "futasg" && a.size() == 3 && (a[1] == "int" || a[1] == "void")) &&
      !(a[0] == "futpoll" && a.size() == 4 && (a[1] == "int" || a[1] == "void")) && !(a[0] == "locker" && a.size() == 2) &&
      !(a[0] == "prefs" && a.size() == 2) && !(a[0] == "prefs2" && a.size() == 2) &&
      !(a[0] == "prefsj" && a.size() == 2) && !(a[0] == "term" && a.size() == 2) && !(a[0] == "ssd" && a.size() == 5))
    return "bad-op";
  int fds[2];
  if (pipe(fds)) return "end=pipe-failed";
  fflush(stdout);
  pid_t pid = fork();
  if (pid == 0) {
    close(fds[0]);
    sch::result_fd = fds[1];
    child(a);
    _exit(3);
  }
  close(fds[1]);
  std::string r;
  char buf[4096];
  ssize_t n;
  while ((n = read(fds[0], buf, sizeof(buf))) > 0) r.append(buf, n);
  close(fds[0]);
  int status = 0;
  waitpid(pid, &status, 0);
  if (r.empty()) {
    if (WIFSIGNALED(status)) return "end=crash-signal" + vh::str(WTERMSIG(status));
    return "end=crash-exit" + vh::str(WEXITSTATUS(status));
  }
  return r;
}

int main(int argc, char **argv) {
  ola::InitLogging(ola::OLA_LOG_NONE, ola::OLA_LOG_NULL);
  FLAGS_use_epoll = false;      // every SelectServer uses select(), which is wrapped
  return vh::run(argc, argv, handle, 30);
}
