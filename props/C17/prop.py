ID = 'C17'
GROUPS = ['common']
CXX_SOURCES = ['olad/plugin_api/Preferences.cpp']
WRAP = ['pthread_mutex_lock', 'pthread_mutex_unlock', 'pthread_mutex_init', 'pthread_mutex_destroy',
        'pthread_cond_init', 'pthread_cond_destroy', 'pthread_cond_wait', 'pthread_cond_timedwait', 'pthread_cond_signal',
        'pthread_cond_broadcast', 'pthread_create', 'pthread_join', 'select']
SPEC_KEYS = ['tr', 'end', 'ran', 'outs']
PROC_TIMEOUT = 1500

RULE = ('schedules of the cooperative scheduler (scheduling points = wrapped pthread calls): for each scenario '
        '(ExecutorThread with 0-3 producers x 0-3 callbacks; FutureImpl raw-pointer pattern; FutureImpl with 0-2 '
        'extra getter copies; ExecutorThread with callbacks that call Execute again; SelectServer::Execute from 1-3 threads with callbacks that call Execute again, 0-3 RunOnce '
        'iterations, rest drained by the destructor; PeriodicThread constructor + Stop with schedulable time-outs of the timed wait; ThreadPool with two workers and 1-3 closures; ThreadPool where the first r closures are two-stage jobs that hand a follow-up to the same pool when run (also after JoinAll set m_shutdown); Future<int> and Future<void> handle operations (self-assignment of a sole owner, assignment between handles sharing a state, assignment over a live state, std::swap, destruction order) with a setter thread holding a copy; Future<int>/Future<void> polled with IsComplete() up to k times (then Get()) by one thread while another calls Set(); MutexLocker with early Release and two contenders; real FileBackedPreferences + FilePreferenceSaverThread (SetValue, Save, SetValue, Synchronize, read file, Join; two concurrent Synchronize callers; Start immediately followed by Join); SelectServer::Run with Execute/Terminate/Execute/Execute from another thread, Run again after Terminate; SelectServer with a callback that calls DrainCallbacks(); the event loop blocks in select() (wrapped) and a sleeping loop with queued callbacks and an empty pipe is reported as lost-wakeup) the non-preemptive run, every single preemption (position x thread), pairs of '
        'preemptions (all in thorough, sampled in quick except for the two small Future scenarios, where all pairs run in quick), injected spurious wake-ups at every position (alone and '
        'combined with a preemption), and random schedules; non-trivial = the run has >= 1 wait/wake or >= 1 callback '
        'run and ends normally; distinct = distinct model output line (trace of synchronisation operations)')
ASSUMPTIONS = ['the wrapped pthread entry points are the only synchronisation in the modelled classes',
               'lock operations are sequentially consistent; real memory-model races are not exercised by the '
               'cooperative scheduler (they are covered by the lockset theorem on the model only)',
               'callbacks themselves perform no synchronisation (plain counters)']
TRUSTED = ['modelled rather than verified: ExecutorThread::{Execute,Start,Stop,RunRemaining,~ExecutorThread}, '
           'ConsumerThread::{Run,EmptyQueue}, Thread::{Start,FastStart,Join,IsRunning,_InternalRun}, '
           'FutureImpl<T>/FutureImpl<void>::{Get,Set,IsComplete,Ref,DeRef}, Future<T>/Future<void> copy/operator=/destructor, SelectServer::{Execute,DrainAndExecute,RunCallbacks,'
           'DrainCallbacks,~SelectServer} with the wake pipe as a counter, PeriodicThread::{PeriodicThread,Run,Stop}, ThreadPool::{Init,Execute,JoinAll,~ThreadPool} with two workers, MutexLocker, FilePreferenceSaverThread::{SavePreferences,Synchronize,CompleteSynchronization,Join,Run}, SelectServer::{Run,Terminate} in the saver (hand transcription into the '
           'instruction lists of coq/Progs.v, validated per schedule by trace equality)',
           'props/C17/harness.cpp cooperative scheduler and pthread emulation (ld --wrap)']


def sj(l):
    return ','.join(str(x) for x in l) if l else '-'


SCENARIOS_Q = [('exec -', 30, 2), ('exec 1', 45, 3), ('exec 2', 55, 3), ('exec 1,1', 70, 4), ('exec 2,1', 80, 4),
               ('exec 0,3', 80, 4), ('futraw', 16, 2), ('futcopy 0', 26, 2), ('periodic', 30, 2), ('locker', 30, 3), ('prefs', 70, 2), ('prefs2', 70, 3), ('prefsj', 40, 2), ('term', 90, 3), ('ssd 2 0 1', 50, 2), ('ssd 2 1 0', 50, 2), ('ssd 2,1 0,0 2', 70, 3), ('pool 1', 70, 3), ('pool 2', 85, 3), ('pool 3', 100, 3), ('poolre 1 1', 95, 3), ('poolre 2 1', 110, 3), ('futasg int', 75, 2), ('futasg void', 75, 2), ('futpoll int 2', 40, 2), ('futpoll void 2', 40, 2), ('futcopy 1', 40, 3), ('futcopy 2', 50, 4),
               ('execre 1 1', 60, 3), ('execre 2 1', 75, 3), ('execre 1,1 1,1', 90, 4),
               ('ss 2 0 2', 25, 2), ('ss 1 1 0', 25, 2), ('ss 2 1 1', 40, 2), ('ss 3 2 0', 40, 2), ('ss 1,1 0,0 1', 40, 3), ('ss 2,1 1,1 2', 60, 3)]
SCENARIOS_T = SCENARIOS_Q + [('futpoll int 3', 48, 2), ('futpoll void 3', 48, 2), ('futpoll void 1', 34, 2), ('poolre 2 2', 125, 3), ('poolre 3 1', 125, 3), ('execre 2,1 2,0', 100, 4), ('ss 2,2 2,1 3', 90, 3), ('ss 1,1,1 1,0,1 2', 80, 4), ('exec 3', 65, 3), ('exec 1,1,1', 95, 5), ('exec 2,2', 90, 4), ('exec 3,0,2', 110, 5)]


def gen_cases(rng, tier):
    quick = tier == 'quick'
    scen = SCENARIOS_Q if quick else SCENARIOS_T
    for name, L, nt in scen:
        L = L + L // 2          # scheduling points after every unlock make the runs longer
        small = name in ('futraw', 'futcopy 0', 'ss 2 0 2')
        yield '%s -' % name
        # one preemption: every position x every choice
        for i in range(L):
            for k in range(nt):
                yield '%s %s' % (name, sj([500] * i + [k]))
        # one spurious wake-up at every position, alone and followed by a preemption
        for i in range(L):
            yield '%s %s' % (name, sj([500] * i + [1000]))
            yield '%s %s' % (name, sj([500] * i + [1000 + rng.randrange(3), rng.randrange(nt)]))
            yield '%s %s' % (name, sj([500] * i + [rng.randrange(nt), 1000 + rng.randrange(3)] +
                                      [500] * rng.randrange(4) + [1000]))
        # two preemptions
        pairs = [(i, j, k1, k2) for i in range(L) for j in range(i + 1, L) for k1 in range(nt) for k2 in range(nt)]
        if quick and not small:
            pairs = rng.sample(pairs, min(len(pairs), 600 if name == 'periodic' else 120))
        elif len(pairs) > 6000:
            pairs = rng.sample(pairs, 6000)
        for i, j, k1, k2 in pairs:
            yield '%s %s' % (name, sj([500] * i + [k1] + [500] * (j - i - 1) + [k2]))
        # random schedules: thread choices, waiter picks (c / n), some spurious wake-ups
        for _ in range(60 if quick else 1500):
            n = rng.randrange(5, L + 20)
            mode = rng.randrange(3)
            s = []
            for _ in range(n):
                r = rng.random()
                if mode == 0:
                    s.append(rng.randrange(0, 2 * nt))
                elif r < 0.1:
                    s.append(1000 + rng.randrange(4))
                elif r < 0.5:
                    s.append(500 + rng.randrange(nt))
                else:
                    s.append(rng.randrange(0, 3 * nt))
            yield '%s %s' % (name, sj(s))


def nontrivial(payload, md):
    tr = md.get('tr', '')
    return md.get('end') == 'done' and (('W.' in tr) or md.get('ran', '-') != '-')


LEVEL_TEXT = ('Coq theorems over ALL schedules (induction on the step relation of an explicit-schedule machine with '
              'spurious wake-ups and time-outs of timed waits / poll). ExecutorThread with any number of producers/'
              'callbacks: exactly once, queued order, never by the submitter, drained when the owner finishes; wake-up '
              'invariant and deadlock freedom (c17_exec_once, c17_wakeup_invariant, c17_no_lost_wakeup). SelectServer::'
              'Execute/DrainAndExecute/RunCallbacks/~SelectServer with a BLOCKING poll on the wake-up pipe and callbacks that '
              'call Execute again: same exactly-once statement, and no lost wake-up: queued callbacks are always announced '
              'by a byte in the pipe, or the loop is past a successful poll / in the destructor drain, or a producer is '
              'between push and pipe write (c17_ss_exec_once, c17_ss_no_lost_wakeup, c17_ss_poll_not_lost). PeriodicThread: '
              'callback at most once more after Stop set m_terminate, never only time-outs left (c17_periodic_stop, '
              'c17_periodic_no_deadlock). Locksets and lock/popped-callback discipline for all transcribed programs '
              'including ThreadPool (c17_lockset, c17_lock_discipline, c17_no_bad_unlock). FutureImpl raw-pointer and '
              'two-holder patterns (c17_future_raw, c17_future_two_holders). A callback that calls DrainCallbacks() itself: '
              'nothing runs twice, everything queued has run exactly once when the owner finishes '
              '(c17_ss_nested_drain_exec_once; queue order is not claimed there). MutexLocker with early Release(): no unlock '
              'by a non-owner (c17_locker_no_bad_unlock). Preference-saver hand-off: the owner-only map is accessed only '
              'under the owner token and never by the saver thread (c17_lockset, c17_prefs_owner_only); witness schedule for the '
              'Start();Join() hang of the saver before fix 05 (c17_saver_join_hang_before_fix). '
              'NOT proved for all schedules, only checked per enumerated schedule (scheduling points before every wrapped '
              'pthread call / select() and after every unlock; ASan in the harness child) by trace equality with the real '
              'classes: ThreadPool: proved for all schedules and any number of closures (two workers): closures conserved, no '
              'closure run twice, run by workers only, never by the caller of Execute (c17_pool_exec_once_partial); once both '
              'joins of JoinAll have returned the workers are finished, the queue is empty, shutdown is set, nothing is in a '
              "worker's hand and the closures run are exactly those handed to Execute, each once (c17_pool_joined, "
              'c17_pool_drained, c17_pool_worker_exit, c17_pool_invariant), exactly n closures handed in and run '
              '(c17_pool_submitted, c17_pool_drained_count); wait queues exact in every scenario (c17_waitq_exact: asleep on c '
              'iff in the queue of c, no duplicates); no lost wake-up and no deadlock of JoinAll for the pool, with and without two-stage jobs (c17_pool_wakeup, '
              'c17_pool_no_sleeper_after_shutdown, c17_pool_no_deadlock, c17_pool_join_not_stuck, c17_poolre_wakeup, '
              'c17_poolre_no_sleeper_after_shutdown, c17_poolre_no_deadlock; termination under fairness is not stated); NOT proved: '
              'more than two workers; ThreadPool with two-stage jobs (closures that hand a follow-up to the same '
              'pool, also after m_shutdown is set): conservation, lock discipline and the drained clause are proved for all '
              'schedules (c17_poolre_conserved, c17_poolre_joined, c17_poolre_drained; ids unique, every closure run exactly once: '
              'c17_poolre_nodup, c17_poolre_exactly_once; also checked per schedule: end=undrained); Future<T>/Future<void> copy-assignment (self, shared, '
              'over a live state), std::swap and destruction order: modelled (init_fut_asg), lockset/lock discipline proved, '
              'absence of use-after-free only per enumerated schedule plus witnesses (ex_futasg_refcount, ex_futasg_finishes); '
              'IsComplete() polled concurrently with Set() (init_fut_poll over FutPoll.P2): lockset, lock discipline and exact wait '
              'queues proved for all schedules (c17_futpoll_lockset, c17_futpoll_discipline), the unlocked read is rejected by the '
              'checker (c17_futpoll_unlocked_read_rejected), use-after-free freedom only per enumerated schedule; '
              'FutureImpl with more than two holders; ExecutorThread with callbacks that call Execute again '
              '(execre); deadlock freedom of the SelectServer scenario beyond the wake-up invariant. NOT modelled: closures '
              'that block on a Future inside the pool, SelectServer::Terminate (unlocked m_is_running read), timeouts/other '
              'descriptors of the poller, FilePreferenceSaverThread::Synchronize, ExecutorThread::DrainCallbacks itself, '
              'a PeriodicThread callback that returns false.')
LEVEL_NOTE = ('Trusted: Coq kernel, extraction (ExtrOcamlBasic), OCaml/C++ glue, the hand transcription of the C++ '
              'methods into instruction lists (validated by per-schedule trace equality, not proved), the pthread '
              'emulation in the harness (ld --wrap; one thread runs at a time, so real memory-model races are not '
              'exercised), sequentially consistent lock operations, callbacks that do not synchronise.')
TECHNIQUE = 'Coq proof over all schedules of an explicit-schedule machine + per-schedule trace equality with the real classes under a cooperative scheduler'
DESIGN_REF = 'DESIGN.md §4 C17'
