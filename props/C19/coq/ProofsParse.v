(* C19: the parser model is total: with fuel 2*length+2 it never runs out of fuel and never
   enters a ParseArray/ParseObject frame with more than MAX_DEPTH containers open. *)
From Coq Require Import List NArith ZArith Bool Lia.
From C19 Require Import Gen Model.
Import ListNotations.
Local Open Scope N_scope.

Definition hazard {A : Type} (r : pres A) : bool :=
  match r with PFuel | PDeep => true | _ => false end.

(* no hazard, and a successful parse consumed something: the rest is shorter than n *)
Definition good {A : Type} (r : pres A) (n : nat) : Prop :=
  hazard r = false /\ forall v rest, r = POk v rest -> (length rest < n)%nat.

Lemma good_err : forall A e n, @good A (PErr e) n.
Proof. intros. split; [reflexivity|]. intros v rest H. discriminate. Qed.
Lemma good_ok : forall A (v : A) r n, (length r < n)%nat -> good (POk v r) n.
Proof. intros. split; [reflexivity|]. intros v0 rest H0. inversion H0; subst. assumption. Qed.
Lemma good_mono : forall A (r : pres A) n m, good r n -> (n <= m)%nat -> good r m.
Proof. intros A r n m [H1 H2] Hle. split; [assumption|]. intros v rest E. specialize (H2 v rest E). lia. Qed.

Lemma trim_len : forall l, (length (trim l) <= length l)%nat.
Proof. induction l as [|c r IH]; simpl; [lia|]. destruct (is_ws c); simpl; lia. Qed.
Lemma tl_len : forall l : list N, (length (tl l) <= length l)%nat.
Proof. destruct l; simpl; lia. Qed.
Lemma drop_len : forall k l, (length (drop k l) <= length l)%nat.
Proof. induction k as [|k IH]; intro l; simpl; [lia|]. destruct l; simpl; [lia|]. specialize (IH l). lia. Qed.

(* ---- ParseString ---- *)
Lemma parse_str_good_n : forall n l acc, (length l <= n)%nat -> good (parse_str l acc) (length l).
Proof.
  induction n as [|n IH]; intros l acc Hn.
  - destruct l; [|simpl in Hn; lia]. simpl. apply good_err.
  - destruct l as [|c r]; [simpl; apply good_err|].
    cbn [parse_str]. destruct (c =? 34).
    + apply good_ok. simpl. lia.
    + destruct (c =? 92).
      * destruct r as [|e r']; [apply good_err|].
        destruct (unescape_char e); [|apply good_err].
        eapply good_mono; [apply IH; simpl in Hn |- *; lia|]. simpl. lia.
      * eapply good_mono; [apply IH; simpl in Hn; lia|]. simpl. lia.
Qed.
Lemma parse_str_good : forall l acc, good (parse_str l acc) (length l).
Proof. intros. apply (parse_str_good_n (length l)). lia. Qed.

(* ---- ExtractDigits ---- *)
Lemma ext_digits_len : forall l a s z, (length (snd (ext_digits l a s z)) <= length l)%nat.
Proof.
  induction l as [|c r IH]; intros a s z; simpl; [lia|].
  destruct (is_digit c); simpl; [|lia]. eapply Nat.le_trans; [apply IH|lia].
Qed.
Lemma ext_digits_len_digit : forall c r a s z, is_digit c = true ->
  (length (snd (ext_digits (c :: r) a s z)) <= length r)%nat.
Proof. intros c r a s z H. cbn [ext_digits]. rewrite H. apply ext_digits_len. Qed.

(* ---- ParseNumber ---- *)
Ltac ed :=
  match goal with
  | |- context[ext_digits ?x ?a ?b ?c] =>
      let H := fresh "Hed" in
      pose proof (ext_digits_len x a b c) as H;
      destruct (ext_digits x a b c) as [[? ?] ?]; cbn [snd] in H
  end.

Lemma parse_number_good : forall l, good (parse_number l) (length l).
Proof.
  intro l. unfold parse_number.
  assert (Hmain : forall (neg : bool) (l1 : list N), (length l1 <= length l)%nat ->
    (neg = true -> (length l1 < length l)%nat) ->
    good (match l1 with
          | [] => PErr 0
          | c :: r1 =>
            if negb (is_digit c) then PErr 0 else
            let '(full, l2) := if c =? 48 then (0, r1)
                               else let '(v, _, r) := ext_digits l1 0 true 0 in (v, r) in
            let '(has_frac, frac, lz, l3) :=
                if hd0 l2 =? 46 then let '(v, z, r) := ext_digits (tl l2) 0 true 0 in (true, v, z, r)
                else (false, 0, 0, l2) in
            let mk_int (rest : list N) :=
                if neg then
                  let value := i64_of_u64 (u64 (18446744073709551616 - full)) in
                  if ((value <? -2147483648) || (2147483647 <? value))%Z
                  then POk (JInt64 value) rest else POk (JInt value) rest
                else if 4294967295 <? full then POk (JUInt64 full) rest else POk (JUInt full) rest in
            if (hd0 l3 =? 101) || (hd0 l3 =? 69) then
              let l4 := tl l3 in
              let nege := hd0 l4 =? 45 in
              let l5 := if nege || (hd0 l4 =? 43) then tl l4 else l4 in
              match l5 with
              | [] => PErr 0
              | d :: _ =>
                if negb (is_digit d) then PErr 0 else
                let '(e, _, l6) := ext_digits l5 0 true 0 in
                let se := i32_of_u32 (u32 (if nege then u64 (18446744073709551616 - e) else e)) in
                POk (JDbl neg full lz frac se) l6
              end
            else if has_frac then POk (JDbl neg full lz frac 0%Z) l3
            else mk_int l3
          end) (length l)).
  { intros neg l1 Hle Hneg. destruct l1 as [|c r1]; [apply good_err|].
    destruct (is_digit c) eqn:Edc; cbn [negb]; [|apply good_err].
    assert (Hr1 : (length r1 < length l)%nat) by (simpl in Hle; lia).
    (* stage 1: full, l2 with |l2| <= |r1| *)
    assert (Hst : forall full l2, (length l2 <= length r1)%nat ->
      good (let '(has_frac, frac, lz, l3) :=
                if hd0 l2 =? 46 then let '(v, z, r) := ext_digits (tl l2) 0 true 0 in (true, v, z, r)
                else (false, 0, 0, l2) in
            let mk_int (rest : list N) :=
                if neg then
                  let value := i64_of_u64 (u64 (18446744073709551616 - full)) in
                  if ((value <? -2147483648) || (2147483647 <? value))%Z
                  then POk (JInt64 value) rest else POk (JInt value) rest
                else if 4294967295 <? full then POk (JUInt64 full) rest else POk (JUInt full) rest in
            if (hd0 l3 =? 101) || (hd0 l3 =? 69) then
              let l4 := tl l3 in
              let nege := hd0 l4 =? 45 in
              let l5 := if nege || (hd0 l4 =? 43) then tl l4 else l4 in
              match l5 with
              | [] => PErr 0
              | d :: _ =>
                if negb (is_digit d) then PErr 0 else
                let '(e, _, l6) := ext_digits l5 0 true 0 in
                let se := i32_of_u32 (u32 (if nege then u64 (18446744073709551616 - e) else e)) in
                POk (JDbl neg full lz frac se) l6
              end
            else if has_frac then POk (JDbl neg full lz frac 0%Z) l3
            else mk_int l3) (length l)).
    { intros full l2 Hl2.
      assert (Hst2 : forall (has_frac : bool) frac lz l3, (length l3 <= length l2)%nat ->
        good (let mk_int (rest : list N) :=
                if neg then
                  let value := i64_of_u64 (u64 (18446744073709551616 - full)) in
                  if ((value <? -2147483648) || (2147483647 <? value))%Z
                  then POk (JInt64 value) rest else POk (JInt value) rest
                else if 4294967295 <? full then POk (JUInt64 full) rest else POk (JUInt full) rest in
            if (hd0 l3 =? 101) || (hd0 l3 =? 69) then
              let l4 := tl l3 in
              let nege := hd0 l4 =? 45 in
              let l5 := if nege || (hd0 l4 =? 43) then tl l4 else l4 in
              match l5 with
              | [] => PErr 0
              | d :: _ =>
                if negb (is_digit d) then PErr 0 else
                let '(e, _, l6) := ext_digits l5 0 true 0 in
                let se := i32_of_u32 (u32 (if nege then u64 (18446744073709551616 - e) else e)) in
                POk (JDbl neg full lz frac se) l6
              end
            else if has_frac then POk (JDbl neg full lz frac 0%Z) l3
            else mk_int l3) (length l)).
      { intros has_frac frac lz l3 Hl3. cbv zeta.
        destruct ((hd0 l3 =? 101) || (hd0 l3 =? 69)).
        - pose proof (tl_len l3) as Ht3. pose proof (tl_len (tl l3)) as Ht4.
          destruct ((hd0 (tl l3) =? 45) || (hd0 (tl l3) =? 43)).
          + destruct (tl (tl l3)) as [|d l5']; [apply good_err|].
            destruct (is_digit d); cbn [negb]; [|apply good_err].
            ed. apply good_ok. lia.
          + destruct (tl l3) as [|d l5']; [apply good_err|].
            destruct (is_digit d); cbn [negb]; [|apply good_err].
            ed. apply good_ok. lia.
        - destruct has_frac; [apply good_ok; lia|].
          destruct neg.
          + destruct ((i64_of_u64 (u64 (18446744073709551616 - full)) <? -2147483648)%Z
                      || (2147483647 <? i64_of_u64 (u64 (18446744073709551616 - full)))%Z);
              apply good_ok; lia.
          + destruct (4294967295 <? full); apply good_ok; lia. }
      destruct (hd0 l2 =? 46).
      - pose proof (tl_len l2) as Htl. pose proof (ext_digits_len (tl l2) 0 true 0) as Hed.
        destruct (ext_digits (tl l2) 0 true 0) as [[v z] r]. cbn [snd] in Hed.
        exact (Hst2 true v z r ltac:(lia)).
      - exact (Hst2 false 0 0 l2 ltac:(lia)). }
    destruct (c =? 48).
    - exact (Hst 0 r1 ltac:(lia)).
    - pose proof (ext_digits_len_digit c r1 0 true 0 Edc) as Hd.
      destruct (ext_digits (c :: r1) 0 true 0) as [[v z0] r]. cbn [snd] in Hd. exact (Hst v r Hd). }
  destruct (hd0 l =? 45) eqn:Eneg.
  - destruct l as [|c0 l0]; [discriminate|].
    destruct l0 as [|c r1]; [apply good_err|].
    exact (Hmain true (c :: r1) ltac:(simpl; lia) ltac:(intros _; simpl; lia)).
  - exact (Hmain false l ltac:(lia) ltac:(intro; discriminate)).
Qed.

(* ---- the three mutually recursive functions ---- *)
Lemma good_hazard_false : forall A (r : pres A) n, good r n -> r <> PFuel /\ r <> PDeep.
Proof. intros A r n [H _]. split; intro E; subst; discriminate. Qed.

Section WithPut.
Variable put : N -> list N -> jv -> list (list N * jv) -> list (list N * jv).
Local Notation parse_value := (parse_value_g put).
Local Notation parse_elems := (parse_elems_g put).
Local Notation parse_members := (parse_members_g put).
Local Notation parse_text_fuel := (parse_text_fuel_g put).
Local Notation parse_text := (parse_text_g put).

Lemma pv_step : forall f depth l, parse_value (S f) depth l =
  match l with
  | [] => PErr 11
  | c :: r =>
    if c =? 34 then
      match parse_str r [] with POk s rest => POk (JStr s) rest | PErr e => PErr e | PFuel => PFuel | PDeep => PDeep end
    else if starts_with [116;114;117;101] l then POk (JBool true) (drop 4 l)
    else if starts_with [102;97;108;115;101] l then POk (JBool false) (drop 5 l)
    else if starts_with [110;117;108;108] l then POk JNull (drop 4 l)
    else if (c =? 45) || is_digit c then parse_number l
    else if c =? 91 then
      if MAX_DEPTH <=? depth then PErr 12 else
      match trim r with
      | [] => PErr 4
      | c1 :: r1 => if c1 =? 93 then POk (JArr []) r1 else parse_elems f (depth + 1) (trim r) []
      end
    else if c =? 123 then
      if MAX_DEPTH <=? depth then PErr 12 else
      match trim r with
      | [] => PErr 6
      | c1 :: r1 => if c1 =? 125 then POk (JObj []) r1 else parse_members f (depth + 1) (trim r) []
      end
    else PErr 11
  end.
Proof. reflexivity. Qed.
Lemma pe_step : forall f d l acc, parse_elems (S f) d l acc =
  if MAX_DEPTH <? d then PDeep else
  match trim l with
  | [] => PErr 4
  | c1 :: r1 =>
    match parse_value f d (c1 :: r1) with
    | PFuel => PFuel | PDeep => PDeep | PErr e => PErr e
    | POk v rr =>
      match trim rr with
      | [] => PErr 4
      | c2 :: r2 => if c2 =? 93 then POk (JArr (lrev (v :: acc))) r2
                    else if c2 =? 44 then parse_elems f d r2 (v :: acc)
                    else PErr 5
      end
    end
  end.
Proof. reflexivity. Qed.
Lemma pm_step : forall f d l acc, parse_members (S f) d l acc =
  if MAX_DEPTH <? d then PDeep else
  match trim l with
  | [] => PErr 6
  | c :: r =>
    if negb (c =? 34) then PErr 7 else
    match parse_str r [] with
    | PFuel => PFuel | PDeep => PDeep | PErr e => PErr e
    | POk key r1 =>
      match trim r1 with
      | [] => PErr 8
      | c2 :: r2 =>
        if negb (c2 =? 58) then PErr 9 else
        match trim r2 with
        | [] => PErr 6
        | c3 :: r3 =>
          match parse_value f d (c3 :: r3) with
          | PFuel => PFuel | PDeep => PDeep | PErr e => PErr e
          | POk v r4 =>
            match trim r4 with
            | [] => PErr 6
            | c5 :: r5 => if c5 =? 125 then POk (JObj (put d key v acc)) r5
                          else if c5 =? 44 then parse_members f d r5 (put d key v acc)
                          else PErr 10
            end
          end
        end
      end
    end
  end.
Proof. reflexivity. Qed.

Lemma parse_total_aux : forall fuel,
  (forall d l, d <= MAX_DEPTH -> (2 * length l + 1 <= fuel)%nat -> good (parse_value fuel d l) (length l)) /\
  (forall d l acc, d <= MAX_DEPTH -> (2 * length l + 2 <= fuel)%nat ->
     good (parse_elems fuel d l acc) (length l)) /\
  (forall d l acc, d <= MAX_DEPTH -> (2 * length l + 2 <= fuel)%nat ->
     good (parse_members fuel d l acc) (length l)).
Proof.
  induction fuel as [|f [IHv [IHe IHm]]].
  - repeat split; intros; lia.
  - split; [|split].
    + (* ParseTrimmedInput *)
      intros d l Hd Hf. rewrite pv_step.
      destruct l as [|c r]; [apply good_err|].
      destruct (c =? 34).
      { pose proof (parse_str_good r []) as [Hh Hl].
        destruct (parse_str r []) as [s rest|e| |]; try discriminate.
        - apply good_ok. specialize (Hl s rest eq_refl). simpl. lia.
        - apply good_err. }
      destruct (starts_with [116; 114; 117; 101] (c :: r)).
      { apply good_ok. pose proof (drop_len 3 r). simpl in *. lia. }
      destruct (starts_with [102; 97; 108; 115; 101] (c :: r)).
      { apply good_ok. pose proof (drop_len 4 r). simpl in *. lia. }
      destruct (starts_with [110; 117; 108; 108] (c :: r)).
      { apply good_ok. pose proof (drop_len 3 r). simpl in *. lia. }
      destruct ((c =? 45) || is_digit c); [apply parse_number_good|].
      destruct (c =? 91).
      { destruct (MAX_DEPTH <=? d) eqn:Ed; [apply good_err|]. apply N.leb_gt in Ed.
        pose proof (trim_len r) as Ht.
        destruct (trim r) as [|c1 r1]; [apply good_err|].
        destruct (c1 =? 93); [apply good_ok; simpl in *; lia|].
        eapply good_mono; [apply IHe; [lia|simpl in *; lia]|simpl in *; lia]. }
      destruct (c =? 123).
      { destruct (MAX_DEPTH <=? d) eqn:Ed; [apply good_err|]. apply N.leb_gt in Ed.
        pose proof (trim_len r) as Ht.
        destruct (trim r) as [|c1 r1]; [apply good_err|].
        destruct (c1 =? 125); [apply good_ok; simpl in *; lia|].
        eapply good_mono; [apply IHm; [lia|simpl in *; lia]|simpl in *; lia]. }
      apply good_err.
    + (* ParseArray loop *)
      intros d l acc Hd Hf. rewrite pe_step.
      destruct (MAX_DEPTH <? d) eqn:Ed; [apply N.ltb_lt in Ed; lia|].
      pose proof (trim_len l) as Ht.
      destruct (trim l) as [|c1 r1]; [apply good_err|].
      assert (Hv : good (parse_value f d (c1 :: r1)) (length (c1 :: r1))) by (apply IHv; [assumption|lia]).
      destruct Hv as [Hh Hl].
      destruct (parse_value f d (c1 :: r1)) as [v rr|e| |]; try discriminate; [|apply good_err].
      specialize (Hl v rr eq_refl).
      pose proof (trim_len rr) as Ht2.
      destruct (trim rr) as [|c2 r2]; [apply good_err|].
      destruct (c2 =? 93); [apply good_ok; simpl in *; lia|].
      destruct (c2 =? 44); [|apply good_err].
      eapply good_mono; [apply IHe; [assumption|simpl in *; lia]|simpl in *; lia].
    + (* ParseObject loop *)
      intros d l acc Hd Hf. rewrite pm_step.
      destruct (MAX_DEPTH <? d) eqn:Ed; [apply N.ltb_lt in Ed; lia|].
      pose proof (trim_len l) as Ht.
      destruct (trim l) as [|c r]; [apply good_err|].
      destruct (c =? 34); cbn [negb]; [|apply good_err].
      pose proof (parse_str_good r []) as [Hh Hl].
      destruct (parse_str r []) as [key r1|e| |]; try discriminate; [|apply good_err].
      specialize (Hl key r1 eq_refl).
      pose proof (trim_len r1) as Ht1.
      destruct (trim r1) as [|c2 r2]; [apply good_err|].
      destruct (c2 =? 58); cbn [negb]; [|apply good_err].
      pose proof (trim_len r2) as Ht2.
      destruct (trim r2) as [|c3 r3]; [apply good_err|].
      assert (Hv : good (parse_value f d (c3 :: r3)) (length (c3 :: r3)))
        by (apply IHv; [assumption|simpl in *; lia]).
      destruct Hv as [Hh2 Hl2].
      destruct (parse_value f d (c3 :: r3)) as [v r4|e| |]; try discriminate; [|apply good_err].
      specialize (Hl2 v r4 eq_refl).
      pose proof (trim_len r4) as Ht4.
      destruct (trim r4) as [|c5 r5]; [apply good_err|].
      destruct (c5 =? 125); [apply good_ok; simpl in *; lia|].
      destruct (c5 =? 44); [|apply good_err].
      eapply good_mono; [apply IHm; [assumption|simpl in *; lia]|simpl in *; lia].
Qed.

(* JsonParser::Parse on any byte string: an error or a value, never a hazard *)
Lemma parse_text_total : forall text,
  (exists e, parse_text text = PErr e) \/ (exists v, parse_text text = POk v []).
Proof.
  intro text. unfold parse_text_g, parse_text_fuel_g.
  pose proof (trim_len (cstr text)) as Ht.
  destruct (trim (cstr text)) as [|c r] eqn:Et; [left; eexists; reflexivity|].
  destruct (parse_total_aux (parse_fuel (cstr text))) as [Hv _].
  assert (Hg : good (parse_value (parse_fuel (cstr text)) 0 (c :: r)) (length (c :: r))).
  { apply Hv; [unfold MAX_DEPTH; lia|]. unfold parse_fuel. lia. }
  destruct Hg as [Hh _].
  destruct (parse_value (parse_fuel (cstr text)) 0 (c :: r)) as [v rest|e| |]; try discriminate.
  - destruct (trim rest); [right; eexists; reflexivity|left; eexists; reflexivity].
  - left. eexists. reflexivity.
Qed.

Lemma parse_text_no_hazard : forall text, parse_text text <> PFuel /\ parse_text text <> PDeep.
Proof.
  intro text. destruct (parse_text_total text) as [[e H]|[v H]]; rewrite H; split; discriminate.
Qed.

End WithPut.
