(* C19 round trip, part 2: strings (EncodeString, Escape, ParseString), whitespace, NUL-freeness *)
From Coq Require Import List NArith ZArith Bool Lia.
From OlaBase Require Import Bytes.
From C19 Require Import Gen Model Spec.
Import ListNotations.
Local Open Scope N_scope.

Definition printable (c : N) : bool := (32 <=? c) && (c <=? 126).

Lemma encode_printable : forall s, forallb printable s = true -> encode_str s = s.
Proof.
  induction s as [|c r IH]; intro H; [reflexivity|].
  cbn [forallb] in H. apply andb_true_iff in H. destruct H as [H1 H2].
  cbn [encode_str]. unfold printable in H1. rewrite H1. rewrite IH by assumption. reflexivity.
Qed.

Lemma lrev_rev : forall (A : Type) (l : list A), lrev l = rev l.
Proof. intros. unfold lrev. rewrite rev_append_rev. apply app_nil_r. Qed.

(* ParseString undoes Escape, for every byte string *)
Lemma parse_str_escape : forall k rest acc,
  parse_str (escape_str k ++ 34 :: rest) acc = POk (rev acc ++ k) rest.
Proof.
  induction k as [|c r IH]; intros rest acc.
  - cbn [escape_str app parse_str N.eqb Pos.eqb]. rewrite lrev_rev, app_nil_r. reflexivity.
  - assert (Hstep : forall x, rev (x :: acc) ++ r = rev acc ++ x :: r).
    { intro x. cbn [rev]. rewrite <- app_assoc. reflexivity. }
    cbn [escape_str].
    destruct ((c =? 34) || (c =? 92) || (c =? 47)) eqn:E1.
    + assert (c = 34 \/ c = 92 \/ c = 47) as Hc.
      { apply orb_true_iff in E1. destruct E1 as [E1|E1].
        - apply orb_true_iff in E1. destruct E1 as [E1|E1]; apply N.eqb_eq in E1; auto.
        - apply N.eqb_eq in E1; auto. }
      destruct Hc as [Hc|[Hc|Hc]]; subst c; cbn [app parse_str N.eqb Pos.eqb unescape_char orb];
        rewrite IH, Hstep; reflexivity.
    + apply orb_false_iff in E1. destruct E1 as [E1 E47]. apply orb_false_iff in E1. destruct E1 as [E34 E92].
      destruct (c =? 8) eqn:E8; [apply N.eqb_eq in E8; subst c;
        cbn [app parse_str N.eqb Pos.eqb unescape_char orb]; rewrite IH, Hstep; reflexivity|].
      destruct (c =? 12) eqn:E12; [apply N.eqb_eq in E12; subst c;
        cbn [app parse_str N.eqb Pos.eqb unescape_char orb]; rewrite IH, Hstep; reflexivity|].
      destruct (c =? 10) eqn:E10; [apply N.eqb_eq in E10; subst c;
        cbn [app parse_str N.eqb Pos.eqb unescape_char orb]; rewrite IH, Hstep; reflexivity|].
      destruct (c =? 13) eqn:E13; [apply N.eqb_eq in E13; subst c;
        cbn [app parse_str N.eqb Pos.eqb unescape_char orb]; rewrite IH, Hstep; reflexivity|].
      destruct (c =? 9) eqn:E9; [apply N.eqb_eq in E9; subst c;
        cbn [app parse_str N.eqb Pos.eqb unescape_char orb]; rewrite IH, Hstep; reflexivity|].
      cbn [app parse_str]. rewrite E34, E92. rewrite IH, Hstep. reflexivity.
Qed.

(* ---- whitespace ---- *)
Definition all_ws (l : list N) : bool := forallb is_ws l.

Lemma trim_ws_app : forall w x, all_ws w = true -> trim (w ++ x) = trim x.
Proof.
  induction w as [|c r IH]; intros x H; [reflexivity|].
  cbn [all_ws forallb] in H. apply andb_true_iff in H. destruct H as [H1 H2].
  cbn [app trim]. rewrite H1. apply IH. exact H2.
Qed.
Lemma trim_nonws : forall c r, is_ws c = false -> trim (c :: r) = c :: r.
Proof. intros c r H. cbn [trim]. rewrite H. reflexivity. Qed.
Lemma all_ws_spaces : forall n, all_ws (spaces n) = true.
Proof. induction n as [|n IH]; [reflexivity|]. cbn [spaces all_ws forallb]. exact IH. Qed.
Lemma all_ws_nl_spaces : forall n, all_ws (10 :: spaces n) = true.
Proof. intro n. cbn [all_ws forallb]. apply all_ws_spaces. Qed.

(* ---- NUL-free texts are not truncated by the strncpy in JsonLexer::Parse ---- *)
Definition nonul (l : list N) : bool := forallb (fun c => negb (c =? 0)) l.

Lemma cstr_nonul : forall l, nonul l = true -> cstr l = l.
Proof.
  induction l as [|c r IH]; intro H; [reflexivity|].
  cbn [nonul forallb] in H. apply andb_true_iff in H. destruct H as [H1 H2].
  cbn [cstr]. apply negb_true_iff in H1. rewrite H1. rewrite IH by exact H2. reflexivity.
Qed.
Lemma nonul_app : forall a b, nonul (a ++ b) = nonul a && nonul b.
Proof. intros. apply forallb_app. Qed.
Lemma nonul_spaces : forall n, nonul (spaces n) = true.
Proof. induction n as [|n IH]; [reflexivity|]. cbn [spaces nonul forallb]. exact IH. Qed.
Lemma nonul_impl : forall (p : N -> bool) l, (forall c, p c = true -> c <> 0) -> forallb p l = true -> nonul l = true.
Proof.
  intros p l Hp. induction l as [|c r IH]; intro H; [reflexivity|].
  cbn [forallb] in H. apply andb_true_iff in H. destruct H as [H1 H2].
  cbn [nonul forallb]. apply andb_true_iff. split; [|apply IH; exact H2].
  apply negb_true_iff. apply N.eqb_neq. apply Hp. exact H1.
Qed.
Lemma nonul_digits : forall l, forallb is_digit l = true -> nonul l = true.
Proof.
  intro l. apply (nonul_impl is_digit). intros c H. unfold is_digit in H. apply andb_true_iff in H. destruct H as [Ha _].
  apply N.leb_le in Ha. lia.
Qed.
Lemma nonul_escape : forall k, forallb printable k = true -> nonul (escape_str k) = true.
Proof.
  induction k as [|c r IH]; intro H; [reflexivity|].
  cbn [forallb] in H. apply andb_true_iff in H. destruct H as [H1 H2].
  cbn [escape_str]. rewrite nonul_app, (IH H2), andb_true_r.
  assert (negb (c =? 0) = true) as Hc.
  { unfold printable in H1. apply andb_true_iff in H1. destruct H1 as [Ha _]. apply N.leb_le in Ha.
    apply negb_true_iff. apply N.eqb_neq. lia. }
  destruct ((c =? 34) || (c =? 92) || (c =? 47)); [cbn [nonul forallb N.eqb negb andb]; rewrite Hc; reflexivity|].
  destruct (c =? 8); [reflexivity|]. destruct (c =? 12); [reflexivity|]. destruct (c =? 10); [reflexivity|].
  destruct (c =? 13); [reflexivity|]. destruct (c =? 9); [reflexivity|].
  cbn [nonul forallb]. rewrite Hc. reflexivity.
Qed.
