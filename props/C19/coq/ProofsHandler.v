(* C19: the handler stack machine of JsonParser (Model.h_step), fed with the events of a value in the
   order the lexer issues them, builds that value.  Proved here for values without objects
   (scalars and arrays, any nesting); objects need the sortedness invariant of the frames and the
   m_key bookkeeping and are not covered. *)
From Coq Require Import List NArith ZArith Bool Lia.
From C19 Require Import Gen Model RTDefs.
Import ListNotations.
Local Open Scope N_scope.

(* the calls JsonLexer makes for a value: containers are opened, filled left to right, closed *)
Fixpoint events_of (v : jv) : list hevent :=
  match v with
  | JArr l => EOpenArr :: flat_map events_of l ++ [ECloseArr]
  | JObj m => EOpenObj :: flat_map (fun p => EKey (fst p) :: events_of (snd p)) m ++ [ECloseObj]
  | _ => [EValue v]
  end.

Definition h_run (s : hstate) (es : list hevent) : hstate := fold_left h_step es s.

Fixpoint noobj (v : jv) : bool :=
  match v with
  | JArr l => forallb noobj l
  | JObj _ => false
  | _ => true
  end.

(* where a value may arrive: at the start (no root yet) or inside an open array *)
Definition arr_ctx (s : hstate) : Prop :=
  match h_stack s with
  | [] => h_root s = None
  | (FArr _, _) :: _ => True
  | _ => False
  end.

Lemma h_run_app : forall s a b, h_run s (a ++ b) = h_run (h_run s a) b.
Proof. intros. unfold h_run. apply fold_left_app. Qed.

Definition EV (v : jv) : Prop :=
  noobj v = true -> forall s, arr_ctx s -> h_run s (events_of v) = h_step s (EValue v).

Lemma children_run : forall l, Forall EV l -> forallb noobj l = true ->
  forall e ro k items a r,
    h_run {| h_err := e; h_root := ro; h_key := k; h_stack := (FArr items, a) :: r |} (flat_map events_of l) =
    {| h_err := e; h_root := ro; h_key := k; h_stack := (FArr (items ++ l), a) :: r |}.
Proof.
  intros l HF. induction HF as [|x l Hx HF IH]; intros Hn e ro k items a r.
  - cbn [flat_map h_run fold_left]. rewrite app_nil_r. reflexivity.
  - cbn [forallb] in Hn. apply andb_true_iff in Hn. destruct Hn as [Hnx Hnl].
    cbn [flat_map]. rewrite h_run_app. rewrite (Hx Hnx) by exact I.
    cbn [h_step h_stack h_err h_root h_key]. rewrite (IH Hnl). rewrite <- app_assoc. reflexivity.
Qed.

Lemma events_build : forall v, EV v.
Proof.
  apply jv_ind2; unfold EV; try (intros; reflexivity).
  - (* array *)
    intros l HF Hn s Hs. cbn [noobj] in Hn.
    change (events_of (JArr l)) with (EOpenArr :: flat_map events_of l ++ [ECloseArr]).
    destruct s as [e ro k st]. unfold arr_ctx in Hs. cbn [h_stack h_root] in Hs.
    destruct st as [|[f a] r].
    + subst ro. cbn [h_run fold_left]. fold (h_run (h_step {| h_err := e; h_root := None; h_key := k; h_stack := [] |} EOpenArr)
                                              (flat_map events_of l ++ [ECloseArr])).
      cbn [h_step h_stack h_err h_root h_key]. rewrite h_run_app.
      rewrite (children_run l HF Hn). reflexivity.
    + destruct f as [items|m]; [|contradiction].
      cbn [h_run fold_left].
      fold (h_run (h_step {| h_err := e; h_root := ro; h_key := k; h_stack := (FArr items, a) :: r |} EOpenArr)
                  (flat_map events_of l ++ [ECloseArr])).
      cbn [h_step h_stack h_err h_root h_key]. rewrite h_run_app.
      rewrite (children_run l HF Hn). reflexivity.
  - (* object: excluded *)
    intros m HF Hn. discriminate.
Qed.

(* from a fresh JsonParser (or after Begin) the events of an object-free value build exactly it *)
Lemma handler_builds : forall v, noobj v = true ->
  h_run (h_step h_init EBegin) (events_of v) =
  {| h_err := 0; h_root := Some v; h_key := []; h_stack := [] |} /\
  h_tree (h_run (h_step h_init EBegin) (events_of v)) = Some v.
Proof.
  intros v Hn. assert (H : h_run (h_step h_init EBegin) (events_of v) = h_step h_init (EValue v)).
  { apply events_build; [exact Hn|reflexivity]. }
  rewrite H. split; reflexivity.
Qed.
