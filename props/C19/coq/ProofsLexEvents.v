(* C19: the lexer emitting the handler calls itself.  [lex_value/lex_elems/lex_members] follow
   JsonLexer.cpp exactly like Model.parse_value_g but return the sequence of JsonParserInterface
   calls instead of a tree.  That sequence is [events_of] of the document-order tree (members kept in
   the order and multiplicity of the text, put_raw), for every text. *)
From Coq Require Import List NArith ZArith Bool Lia.
From OlaBase Require Import Bytes.
From C19 Require Import Gen Model ProofsPtr ProofsParse RTNum ProofsDouble RTStr RTDefs RTMain RTFinal RTDouble ProofsHandler ProofsHandlerObj.
Import ListNotations.
Local Open Scope N_scope.

Definition put_raw (depth : N) (k : list N) (v : jv) (m : list (list N * jv)) : list (list N * jv) := m ++ [(k, v)].

Definition lift {A B : Type} (r : pres A) (f : A -> list N -> pres B) : pres B :=
  match r with POk a rest => f a rest | PErr e => PErr e | PFuel => PFuel | PDeep => PDeep end.

Fixpoint lex_value (fuel : nat) (depth : N) (l : list N) {struct fuel} : pres (list hevent) :=
  match fuel with O => PFuel | S f =>
  match l with
  | [] => PErr 11
  | c :: r =>
    if c =? 34 then lift (parse_str r []) (fun s rest => POk [EValue (JStr s)] rest)
    else if starts_with [116;114;117;101] l then POk [EValue (JBool true)] (drop 4 l)
    else if starts_with [102;97;108;115;101] l then POk [EValue (JBool false)] (drop 5 l)
    else if starts_with [110;117;108;108] l then POk [EValue JNull] (drop 4 l)
    else if (c =? 45) || is_digit c then lift (parse_number l) (fun v rest => POk [EValue v] rest)
    else if c =? 91 then
      if MAX_DEPTH <=? depth then PErr 12 else
      match trim r with
      | [] => PErr 4
      | c1 :: r1 => if c1 =? 93 then POk [EOpenArr; ECloseArr] r1
                    else lift (lex_elems f (depth + 1) (c1 :: r1)) (fun es rest => POk (EOpenArr :: es) rest)
      end
    else if c =? 123 then
      if MAX_DEPTH <=? depth then PErr 12 else
      match trim r with
      | [] => PErr 6
      | c1 :: r1 => if c1 =? 125 then POk [EOpenObj; ECloseObj] r1
                    else lift (lex_members f (depth + 1) (c1 :: r1)) (fun es rest => POk (EOpenObj :: es) rest)
      end
    else PErr 11
  end end
with lex_elems (fuel : nat) (depth : N) (l : list N) {struct fuel} : pres (list hevent) :=
  match fuel with O => PFuel | S f =>
  if MAX_DEPTH <? depth then PDeep else
  match trim l with
  | [] => PErr 4
  | c1 :: r1 =>
    lift (lex_value f depth (c1 :: r1)) (fun es rr =>
      match trim rr with
      | [] => PErr 4
      | c2 :: r2 => if c2 =? 93 then POk (es ++ [ECloseArr]) r2
                    else if c2 =? 44 then lift (lex_elems f depth r2) (fun es2 rest => POk (es ++ es2) rest)
                    else PErr 5
      end)
  end end
with lex_members (fuel : nat) (depth : N) (l : list N) {struct fuel} : pres (list hevent) :=
  match fuel with O => PFuel | S f =>
  if MAX_DEPTH <? depth then PDeep else
  match trim l with
  | [] => PErr 6
  | c :: r =>
    if negb (c =? 34) then PErr 7 else
    lift (parse_str r []) (fun key r1 =>
      match trim r1 with
      | [] => PErr 8
      | c2 :: r2 =>
        if negb (c2 =? 58) then PErr 9 else
        match trim r2 with
        | [] => PErr 6
        | c3 :: r3 =>
          lift (lex_value f depth (c3 :: r3)) (fun es r4 =>
            match trim r4 with
            | [] => PErr 6
            | c5 :: r5 => if c5 =? 125 then POk (EKey key :: es ++ [ECloseObj]) r5
                          else if c5 =? 44 then lift (lex_members f depth r5)
                                                     (fun es2 rest => POk (EKey key :: es ++ es2) rest)
                          else PErr 10
            end)
        end
      end)
  end end.

(* JsonLexer::Parse: the calls between Begin() and End() *)
Definition lex_events (text : list N) : pres (list hevent) :=
  match trim (cstr text) with
  | [] => PErr 1
  | c :: r => lift (lex_value (parse_fuel (cstr text)) 0 (c :: r))
                   (fun es rest => match trim rest with [] => POk es [] | _ => PErr 0 end)
  end.

Lemma number_events : forall l v r, parse_number l = POk v r -> events_of v = [EValue v].
Proof.
  intros l v r H. pose proof (parse_number_value l v r H) as Hv.
  destruct v; cbn [number_value] in Hv; try contradiction; reflexivity.
Qed.

Definition mev (p : list N * jv) : list hevent := EKey (fst p) :: events_of (snd p).

Lemma lex_agrees : forall fuel,
  (forall d l v r, parse_value_g put_raw fuel d l = POk v r -> lex_value fuel d l = POk (events_of v) r) /\
  (forall d l acc w r, parse_elems_g put_raw fuel d l acc = POk w r ->
     exists items, w = JArr (rev acc ++ items) /\
                   lex_elems fuel d l = POk (flat_map events_of items ++ [ECloseArr]) r) /\
  (forall d l acc w r, parse_members_g put_raw fuel d l acc = POk w r ->
     exists ms, w = JObj (acc ++ ms) /\
                lex_members fuel d l = POk (flat_map mev ms ++ [ECloseObj]) r).
Proof.
  induction fuel as [|f [IHv [IHe IHm]]].
  - repeat split; intros; discriminate.
  - split; [|split].
    + intros d l v r0 H. rewrite (pv_step put_raw) in H. cbn [lex_value].
      destruct l as [|c r]; [discriminate|].
      destruct (c =? 34).
      { destruct (parse_str r []) as [s rest|e| |]; try discriminate. inversion H; subst. reflexivity. }
      destruct (starts_with [116; 114; 117; 101] (c :: r)); [inversion H; subst; reflexivity|].
      destruct (starts_with [102; 97; 108; 115; 101] (c :: r)); [inversion H; subst; reflexivity|].
      destruct (starts_with [110; 117; 108; 108] (c :: r)); [inversion H; subst; reflexivity|].
      destruct ((c =? 45) || is_digit c).
      { rewrite H. cbn [lift]. rewrite (number_events _ _ _ H). reflexivity. }
      destruct (c =? 91).
      { destruct (MAX_DEPTH <=? d); [discriminate|].
        destruct (trim r) as [|c1 r1]; [discriminate|].
        destruct (c1 =? 93); [inversion H; subst; reflexivity|].
        destruct (IHe _ _ _ _ _ H) as [items [Hw Hl]]. rewrite Hl. subst v. reflexivity. }
      destruct (c =? 123); [|discriminate].
      destruct (MAX_DEPTH <=? d); [discriminate|].
      destruct (trim r) as [|c1 r1]; [discriminate|].
      destruct (c1 =? 125); [inversion H; subst; reflexivity|].
      destruct (IHm _ _ _ _ _ H) as [ms [Hw Hl]]. rewrite Hl. subst v. reflexivity.
    + intros d l acc w r0 H. rewrite (pe_step put_raw) in H. cbn [lex_elems].
      destruct (MAX_DEPTH <? d); [discriminate|].
      destruct (trim l) as [|c1 r1]; [discriminate|].
      destruct (parse_value_g put_raw f d (c1 :: r1)) as [v rr|e| |] eqn:Ev; try discriminate.
      rewrite (IHv _ _ _ _ Ev). cbn [lift].
      destruct (trim rr) as [|c2 r2]; [discriminate|].
      destruct (c2 =? 93).
      { inversion H; subst. exists [v]. rewrite lrev_rev. cbn [rev flat_map]. rewrite app_nil_r. split; reflexivity. }
      destruct (c2 =? 44); [|discriminate].
      destruct (IHe _ _ _ _ _ H) as [items [Hw Hl]]. rewrite Hl. cbn [lift].
      exists (v :: items). subst w. cbn [rev flat_map]. rewrite <- !app_assoc. split; reflexivity.
    + intros d l acc w r0 H. rewrite (pm_step put_raw) in H. cbn [lex_members].
      destruct (MAX_DEPTH <? d); [discriminate|].
      destruct (trim l) as [|c r]; [discriminate|].
      destruct (negb (c =? 34)); [discriminate|].
      destruct (parse_str r []) as [key r1|e| |]; try discriminate. cbn [lift].
      destruct (trim r1) as [|c2 r2]; [discriminate|].
      destruct (negb (c2 =? 58)); [discriminate|].
      destruct (trim r2) as [|c3 r3]; [discriminate|].
      destruct (parse_value_g put_raw f d (c3 :: r3)) as [v r4|e| |] eqn:Ev; try discriminate.
      rewrite (IHv _ _ _ _ Ev). cbn [lift].
      destruct (trim r4) as [|c5 r5]; [discriminate|].
      unfold put_raw in H.
      destruct (c5 =? 125).
      { inversion H; subst. exists [(key, v)]. unfold mev. cbn [flat_map fst snd]. rewrite app_nil_r.
        split; reflexivity. }
      destruct (c5 =? 44); [|discriminate].
      destruct (IHm _ _ _ _ _ H) as [ms [Hw Hl]]. rewrite Hl. cbn [lift].
      exists ((key, v) :: ms). subst w. unfold mev at 2. cbn [flat_map fst snd]. rewrite <- !app_assoc.
      split; reflexivity.
Qed.

(* the calls the lexer makes for a text are the events of its document-order tree *)
Lemma lex_events_raw : forall text v rest,
  parse_text_g put_raw text = POk v rest -> lex_events text = POk (events_of v) [].
Proof.
  intros text v rest H. unfold parse_text_g, parse_text_fuel_g in H. unfold lex_events.
  destruct (trim (cstr text)) as [|c r]; [discriminate|].
  destruct (parse_value_g put_raw (parse_fuel (cstr text)) 0 (c :: r)) as [v0 rest0|e| |] eqn:E; try discriminate.
  destruct (lex_agrees (parse_fuel (cstr text))) as [Hv _]. rewrite (Hv _ _ _ _ E). cbn [lift].
  destruct (trim rest0); [|discriminate]. inversion H; subst. reflexivity.
Qed.

(* ... hence, for a document whose members already are in std::map order without duplicates (its
   document-order tree is the tree JsonParser builds), the lexer's calls are the events of the parsed
   value, and the handler machine fed with them builds that value *)
Lemma lex_events_sorted : forall text v r1 r2,
  parse_text text = POk v r1 -> parse_text_g put_raw text = POk v r2 ->
  lex_events text = POk (events_of v) [] /\
  (sorted_tree v = true -> h_tree (h_run (h_step h_init EBegin) (events_of v)) = Some v).
Proof.
  intros text v r1 r2 _ H2. split; [exact (lex_events_raw text v r2 H2)|].
  intro Hs. exact (proj2 (handler_builds_o v Hs)).
Qed.

Lemma put_raw_ok : forall d k v acc,
  Forall (fun q => key_cmp k (fst q) = Gt) acc -> put_raw d k v acc = acc ++ [(k, v)].
Proof. reflexivity. Qed.

(* every text JsonWriter produces for a tree inside the round-trip guard is such a document *)
Lemma lex_events_written : forall v, wfb (N.to_nat MAX_DEPTH) v = true ->
  parse_text (write cx_parsed 0 v) = POk (canon v) [] /\
  lex_events (write cx_parsed 0 v) = POk (events_of (canon v)) [].
Proof.
  intros v H. destruct (roundtrip put_std put_std_ok v H) as [H1 _].
  destruct (roundtrip put_raw put_raw_ok v H) as [H2 _].
  split; [exact H1|]. exact (lex_events_raw _ _ _ H2).
Qed.
