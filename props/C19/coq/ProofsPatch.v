From Coq Require Import List NArith ZArith Bool Lia.
From C19 Require Import Gen Model Spec ProofsPtr.
Import ListNotations.
Local Open Scope N_scope.

(* ---------------- atomicity (clone, apply, commit or discard) ---------------- *)
Lemma data_apply_atomic : forall ops d,
  (fst (data_apply ops d) = false -> snd (data_apply ops d) = d) /\
  (fst (data_apply ops d) = true -> set_apply ops d = Some (snd (data_apply ops d))) /\
  (fst (data_apply ops d) = false <-> set_apply ops d = None).
Proof.
  intros ops d. unfold data_apply. destruct (set_apply ops d) as [d'|]; simpl; repeat split; intros; congruence.
Qed.

(* ---------------- array index: TokenToIndex = RFC 6901 array-index ---------------- *)
Lemma digits_val_dec : forall l acc v, digits_val l acc = Some v -> forallb is_digit l = true /\ v = dec_value l acc.
Proof.
  induction l as [|c r IH]; intros acc v H; simpl in *.
  - inversion H. auto.
  - destruct (is_digit c) eqn:E; [|discriminate]. apply IH in H. simpl. tauto.
Qed.
Lemma digits_val_all : forall l acc, forallb is_digit l = true -> digits_val l acc = Some (dec_value l acc).
Proof.
  induction l as [|c r IH]; intros acc H; simpl in *; [reflexivity|].
  apply andb_true_iff in H. destruct H as [H1 H2]. rewrite H1. apply IH. exact H2.
Qed.
Lemma digits_val_none : forall l acc, digits_val l acc = None -> forallb is_digit l = false.
Proof.
  induction l as [|c r IH]; intros acc H; simpl in *; [discriminate|].
  destruct (is_digit c); simpl; [eauto|reflexivity].
Qed.
Lemma dec_value_ge : forall l acc, acc * 10 ^ N.of_nat (length l) <= dec_value l acc.
Proof.
  induction l as [|c r IH]; intro acc.
  - simpl. lia.
  - cbn [dec_value length]. rewrite Nat2N.inj_succ, N.pow_succ_r'.
    eapply N.le_trans; [|apply IH]. rewrite N.mul_assoc. apply N.mul_le_mono_r. lia.
Qed.
Lemma tok_index_rfc : forall t, tok_index t = rfc_index t.
Proof.
  intro t. destruct t as [|c r]; [reflexivity|].
  unfold tok_index.
  destruct (10 <? N.of_nat (length (c :: r))) eqn:Elen.
  - (* more than 10 characters *)
    apply N.ltb_lt in Elen.
    destruct r as [|c2 r2]; [simpl in Elen; lia|].
    cbn [rfc_index].
    destruct ((49 <=? c) && (c <=? 57) && forallb is_digit (c2 :: r2)) eqn:E; [|reflexivity].
    apply andb_true_iff in E. destruct E as [E1 E2]. apply andb_true_iff in E1. destruct E1 as [Ea Eb].
    apply N.leb_le in Ea.
    assert (Hge : c - 48 >= 1) by lia.
    pose proof (dec_value_ge (c2 :: r2) (10 * 0 + (c - 48))) as Hd.
    change (dec_value (c :: c2 :: r2) 0) with (dec_value (c2 :: r2) (10 * 0 + (c - 48))).
    assert (10 ^ 10 <= 10 ^ N.of_nat (length (c2 :: r2))) as Hp.
    { apply N.pow_le_mono_r; [lia|]. cbn [length] in *. rewrite !Nat2N.inj_succ in *. lia. }
    assert (1 * 10 ^ N.of_nat (length (c2 :: r2)) <= (10 * 0 + (c - 48)) * 10 ^ N.of_nat (length (c2 :: r2))) as Hm.
    { apply N.mul_le_mono_r. lia. }
    change (10 ^ 10) with 10000000000 in Hp.
    destruct (dec_value (c2 :: r2) (10 * 0 + (c - 48)) <? 4294967296) eqn:El; [|reflexivity].
    apply N.ltb_lt in El. lia.
  - destruct r as [|c2 r2].
    + (* single character *)
      cbn [negb andb]. rewrite andb_false_r. cbn [digits_val rfc_index].
      destruct (is_digit c) eqn:Ed; [|reflexivity].
      unfold is_digit in Ed. apply andb_true_iff in Ed. destruct Ed as [Ea Eb].
      apply N.leb_le in Ea, Eb.
      destruct (4294967295 <? 10 * 0 + (c - 48)) eqn:E4; [apply N.ltb_lt in E4; lia|reflexivity].
    + cbn [negb andb]. rewrite andb_true_r. cbn [rfc_index].
      destruct (c =? 48) eqn:E0.
      * apply N.eqb_eq in E0. subst c. reflexivity.
      * apply N.eqb_neq in E0.
        destruct (digits_val (c :: c2 :: r2) 0) as [v|] eqn:Ed.
        -- apply digits_val_dec in Ed. destruct Ed as [Hall Hv].
           cbn [forallb] in Hall. apply andb_true_iff in Hall. destruct Hall as [Hc Hr].
           assert ((49 <=? c) && (c <=? 57) = true) as H19.
           { unfold is_digit in Hc. apply andb_true_iff in Hc. destruct Hc as [Ha Hb].
             apply N.leb_le in Ha, Hb. apply andb_true_iff. split; apply N.leb_le; lia. }
           cbn [forallb]. rewrite H19, Hr. cbn [andb]. rewrite <- Hv.
           destruct (4294967295 <? v) eqn:E4.
           ++ apply N.ltb_lt in E4. destruct (v <? 4294967296) eqn:E5; [apply N.ltb_lt in E5; lia|reflexivity].
           ++ apply N.ltb_ge in E4. destruct (v <? 4294967296) eqn:E5; [reflexivity|apply N.ltb_ge in E5; lia].
        -- apply digits_val_none in Ed. cbn [forallb] in Ed.
           destruct ((49 <=? c) && (c <=? 57)) eqn:H19; [|reflexivity].
           assert (is_digit c = true) as Hc.
           { apply andb_true_iff in H19. destruct H19 as [Ha Hb]. apply N.leb_le in Ha, Hb.
             unfold is_digit. apply andb_true_iff. split; apply N.leb_le; lia. }
           rewrite Hc in Ed. cbn [andb] in Ed. cbn [forallb]. rewrite Ed. reflexivity.
Qed.

(* ---------------- pointer evaluation ---------------- *)
Lemma lookup_rfc : forall p v, lookup v p = rfc_get v p.
Proof.
  induction p as [|t r IH]; intro v; [reflexivity|].
  cbn [lookup rfc_get]. rewrite tok_index_rfc.
  destruct v; try reflexivity.
  - destruct (rfc_index t); [|reflexivity]. destruct (nth_N l n); [apply IH|reflexivity].
  - destruct (obj_get t m); [apply IH|reflexivity].
Qed.

Lemma prefix_rfc : forall a b, is_prefix_of a b = proper_prefix a b.
Proof.
  induction a as [|x a IH]; intro b; destruct b as [|y b]; try reflexivity.
  all: cbn [is_prefix_of proper_prefix]; destruct (leqb x y); [apply IH|reflexivity].
Qed.

(* ---------------- descending one token ---------------- *)
Lemma take_action_cons : forall a v t t2 q,
  take_action a v (t :: t2 :: q) =
  match rfc_get v [t] with
  | Some c => match take_action a c (t2 :: q) with Some c' => rfc_put_child v t c' | None => None end
  | None => None
  end.
Proof.
  intros a v t t2 q. unfold take_action.
  change (removelast (t :: t2 :: q)) with (t :: removelast (t2 :: q)).
  change (last (t :: t2 :: q) []) with (last (t2 :: q) []).
  cbn [modify rfc_get]. rewrite tok_index_rfc.
  destruct v; try reflexivity.
  - unfold rfc_put_child. destruct (rfc_index t); [|reflexivity]. destruct (nth_N l n); reflexivity.
  - destruct (obj_get t m); reflexivity.
Qed.

Lemma parent_of_cons : forall v t t2 q,
  parent_of v (t :: t2 :: q) = match rfc_get v [t] with Some c => parent_of c (t2 :: q) | None => None end.
Proof.
  intros. unfold parent_of.
  change (removelast (t :: t2 :: q)) with (t :: removelast (t2 :: q)).
  cbn [lookup rfc_get]. rewrite tok_index_rfc.
  destruct v; try reflexivity.
  - destruct (rfc_index t); [|reflexivity]. destruct (nth_N l n); reflexivity.
  - destruct (obj_get t m); reflexivity.
Qed.

Lemma dash_quirk_cons : forall v t t2 q,
  dash_quirk v (t :: t2 :: q) = match rfc_get v [t] with Some c => dash_quirk c (t2 :: q) | None => false end.
Proof.
  intros. unfold dash_quirk. rewrite parent_of_cons.
  change (last (t :: t2 :: q) []) with (last (t2 :: q) []).
  destruct (rfc_get v [t]); reflexivity.
Qed.
Lemma addlen_quirk_cons : forall v t t2 q,
  addlen_quirk v (t :: t2 :: q) = match rfc_get v [t] with Some c => addlen_quirk c (t2 :: q) | None => false end.
Proof.
  intros. unfold addlen_quirk. rewrite parent_of_cons.
  change (last (t :: t2 :: q) []) with (last (t2 :: q) []).
  destruct (rfc_get v [t]); reflexivity.
Qed.

Lemma rfc_index_dash : rfc_index DASH = None.
Proof. reflexivity. Qed.

(* ---------------- the three container actions ---------------- *)
Lemma remove_rfc : forall p v, p <> [] -> dash_quirk v p = false ->
  match take_action ARemove v p with Some r => Some r | None => None end = rfc_remove v p.
Proof.
  induction p as [|t q IH]; intros v Hne Hq; [congruence|].
  destruct q as [|t2 q].
  - unfold take_action. cbn [removelast last modify rfc_remove act_on].
    unfold dash_quirk, parent_of in Hq. cbn [removelast lookup last] in Hq.
    destruct v; try reflexivity; cbn [act_on].
    + destruct (leqb t DASH) eqn:Ed.
      * apply leqb_eq in Ed. subst t. rewrite rfc_index_dash.
        destruct l; [reflexivity|discriminate].
      * rewrite tok_index_rfc. destruct (rfc_index t); [|reflexivity].
        destruct (n <? N.of_nat (length l)); reflexivity.
    + destruct (obj_get t m); reflexivity.
  - rewrite take_action_cons. rewrite dash_quirk_cons in Hq.
    change (rfc_remove v (t :: t2 :: q)) with
      (match rfc_get v [t] with
       | Some c => match rfc_remove c (t2 :: q) with Some c' => rfc_put_child v t c' | None => None end
       | None => None end).
    destruct (rfc_get v [t]) as [c|]; [|reflexivity].
    rewrite <- (IH c) by (congruence || assumption).
    destruct (take_action ARemove c (t2 :: q)); [|reflexivity].
    destruct (rfc_put_child v t j); reflexivity.
Qed.

Lemma replace_rfc : forall p v x, p <> [] -> dash_quirk v p = false ->
  match take_action (AReplace x) v p with Some r => Some r | None => None end = rfc_replace v p x.
Proof.
  induction p as [|t q IH]; intros v x Hne Hq; [congruence|].
  destruct q as [|t2 q].
  - unfold take_action. cbn [removelast last modify rfc_replace act_on].
    unfold dash_quirk, parent_of in Hq. cbn [removelast lookup last] in Hq.
    destruct v; try reflexivity; cbn [act_on].
    + destruct (leqb t DASH) eqn:Ed.
      * apply leqb_eq in Ed. subst t. rewrite rfc_index_dash.
        destruct l; [reflexivity|discriminate].
      * rewrite tok_index_rfc. destruct (rfc_index t); [|reflexivity].
        destruct (n <? N.of_nat (length l)); reflexivity.
    + destruct (obj_get t m); reflexivity.
  - rewrite take_action_cons. rewrite dash_quirk_cons in Hq.
    change (rfc_replace v (t :: t2 :: q) x) with
      (match rfc_get v [t] with
       | Some c => match rfc_replace c (t2 :: q) x with Some c' => rfc_put_child v t c' | None => None end
       | None => None end).
    destruct (rfc_get v [t]) as [c|]; [|reflexivity].
    rewrite <- (IH c x) by (congruence || assumption).
    destruct (take_action (AReplace x) c (t2 :: q)); [|reflexivity].
    destruct (rfc_put_child v t j); reflexivity.
Qed.

Lemma add_rfc : forall p v x, p <> [] -> addlen_quirk v p = false ->
  match take_action (AAdd x) v p with Some r => Some r | None => None end = rfc_add v p x.
Proof.
  induction p as [|t q IH]; intros v x Hne Hq; [congruence|].
  destruct q as [|t2 q].
  - unfold take_action. cbn [removelast last modify rfc_add act_on].
    unfold addlen_quirk, parent_of in Hq. cbn [removelast lookup last] in Hq.
    destruct v; try reflexivity; cbn [act_on].
    destruct (leqb t DASH) eqn:Ed; [reflexivity|].
    rewrite tok_index_rfc. destruct (rfc_index t) as [i|]; [|reflexivity].
    destruct (i <? N.of_nat (length l)) eqn:E1.
    + apply N.ltb_lt in E1. destruct (i <=? N.of_nat (length l)) eqn:E2; [reflexivity|].
      apply N.leb_gt in E2. lia.
    + apply N.ltb_ge in E1. apply N.eqb_neq in Hq.
      destruct (i <=? N.of_nat (length l)) eqn:E2; [|reflexivity].
      apply N.leb_le in E2. lia.
  - rewrite take_action_cons. rewrite addlen_quirk_cons in Hq.
    change (rfc_add v (t :: t2 :: q) x) with
      (match rfc_get v [t] with
       | Some c => match rfc_add c (t2 :: q) x with Some c' => rfc_put_child v t c' | None => None end
       | None => None end).
    destruct (rfc_get v [t]) as [c|]; [|reflexivity].
    rewrite <- (IH c x) by (congruence || assumption).
    destruct (take_action (AAdd x) c (t2 :: q)); [|reflexivity].
    destruct (rfc_put_child v t j); reflexivity.
Qed.

Lemma opt_eta : forall (A : Type) (o : option A), match o with Some r => Some r | None => None end = o.
Proof. destruct o; reflexivity. Qed.

Lemma add_op_rfc : forall to v x, addlen_quirk v to = false ->
  add_op to (Some v) x = option_map Some (rfc_add v to x).
Proof.
  intros to v x Hq. destruct to as [|t q]; [reflexivity|].
  unfold add_op. rewrite <- (add_rfc (t :: q) v x) by (congruence || assumption).
  destruct (take_action (AAdd x) v (t :: q)); reflexivity.
Qed.

Lemma tok_index_dash : tok_index DASH = None.
Proof. reflexivity. Qed.

(* a location that resolves is never the '-' position of an array *)
Lemma lookup_no_dash : forall p v s, p <> [] -> lookup v p = Some s -> dash_quirk v p = false.
Proof.
  induction p as [|t q IH]; intros v s Hne H; [congruence|].
  destruct q as [|t2 q].
  - unfold dash_quirk, parent_of. cbn [removelast lookup last].
    destruct v; try reflexivity. destruct l as [|a l']; [reflexivity|].
    destruct (leqb t DASH) eqn:Ed; [|reflexivity].
    apply leqb_eq in Ed. subst t. cbn [lookup] in H. rewrite tok_index_dash in H. discriminate.
  - rewrite dash_quirk_cons. rewrite lookup_rfc in H.
    assert (Hg : rfc_get v (t :: t2 :: q) =
                 match rfc_get v [t] with Some c => rfc_get c (t2 :: q) | None => None end).
    { cbn [rfc_get]. destruct v; try reflexivity.
      - destruct (rfc_index t); [|reflexivity]. destruct (nth_N l n); reflexivity.
      - destruct (obj_get t m); reflexivity. }
    rewrite Hg in H. destruct (rfc_get v [t]) as [c|]; [|reflexivity].
    apply (IH c s); [discriminate|]. rewrite lookup_rfc. exact H.
Qed.

(* ---------------- one operation ---------------- *)
Lemma apply_op_rfc : forall o d, quirk_step o d = false -> apply_op o d = rfc_op o d.
Proof.
  intros o d Hq. unfold quirk_step in Hq. apply negb_false_iff in Hq. apply N.eqb_eq in Hq.
  destruct o as [p x|p|p x|from to|from to|p x].
  - (* add *)
    destruct p as [p|]; [|destruct d; reflexivity].
    destruct p as [|t q]; [destruct d; reflexivity|].
    destruct d as [v|]; [|reflexivity].
    cbn [quirk_kind] in Hq. destruct (addlen_quirk v (t :: q)) eqn:E; [discriminate|].
    cbn [apply_op rfc_op]. apply add_op_rfc. exact E.
  - (* remove *)
    destruct p as [p|]; [|destruct d; reflexivity].
    destruct p as [|t q].
    + destruct d; [reflexivity|discriminate].
    + destruct d as [v|]; [|reflexivity].
      cbn [quirk_kind] in Hq. destruct (dash_quirk v (t :: q)) eqn:E; [discriminate|].
      cbn [apply_op rfc_op]. rewrite <- (remove_rfc (t :: q) v) by (congruence || assumption).
      destruct (take_action ARemove v (t :: q)); reflexivity.
  - (* replace *)
    destruct p as [p|]; [|destruct d; reflexivity].
    destruct p as [|t q].
    + destruct d; [reflexivity|discriminate].
    + destruct d as [v|]; [|reflexivity].
      cbn [quirk_kind] in Hq. destruct (dash_quirk v (t :: q)) eqn:E; [discriminate|].
      cbn [apply_op rfc_op]. rewrite <- (replace_rfc (t :: q) v x) by (congruence || assumption).
      destruct (take_action (AReplace x) v (t :: q)); reflexivity.
  - (* move *)
    destruct from as [from|]; [|destruct d; reflexivity].
    destruct to as [to|]; [|destruct d; reflexivity].
    destruct d as [v|].
    + cbn [quirk_kind] in Hq. cbn [apply_op rfc_op].
      rewrite prefix_rfc in *. rewrite lookup_rfc in *.
      destruct (toks_eqb from to) eqn:Eeq.
      * destruct (rfc_get v from); [reflexivity|discriminate].
      * destruct (proper_prefix from to) eqn:Epre.
        -- destruct (rfc_get v from); reflexivity.
        -- destruct (rfc_get v from) as [src|] eqn:El; [|reflexivity].
           assert (from <> []) as Hne.
           { intro; subst from. destruct to; simpl in *; discriminate. }
           rewrite <- lookup_rfc in El.
           pose proof (lookup_no_dash from v src Hne El) as Edq.
           rewrite <- (remove_rfc from v Hne Edq).
           destruct (take_action ARemove v from) as [v'|]; [|reflexivity].
           destruct (addlen_quirk v' to) eqn:Eaq; [discriminate|].
           apply add_op_rfc. exact Eaq.
    + cbn [quirk_kind] in Hq. cbn [apply_op rfc_op].
      destruct (toks_eqb from to); [discriminate|].
      destruct (is_prefix_of from to); reflexivity.
  - (* copy *)
    destruct from as [from|]; [|destruct d; reflexivity].
    destruct to as [to|]; [|destruct d; reflexivity].
    destruct d as [v|].
    + cbn [quirk_kind] in Hq. cbn [apply_op rfc_op]. rewrite lookup_rfc in *.
      destruct (toks_eqb from to) eqn:Eeq.
      * destruct from as [|t q]; [|discriminate].
        apply toks_eqb_eq in Eeq. subst to. reflexivity.
      * destruct (rfc_get v from) as [src|]; [|reflexivity].
        destruct (addlen_quirk v to) eqn:Eaq; [discriminate|].
        apply add_op_rfc. exact Eaq.
    + cbn [quirk_kind] in Hq. cbn [apply_op rfc_op].
      destruct (toks_eqb from to); [discriminate|reflexivity].
  - (* test *)
    destruct p as [p|]; [|destruct d; reflexivity].
    destruct d as [v|]; [|reflexivity].
    cbn [apply_op rfc_op]. rewrite lookup_rfc. reflexivity.
Qed.

Lemma set_apply_rfc : forall ops d, quirk_free ops d = true -> set_apply ops d = rfc_seq ops d.
Proof.
  induction ops as [|o r IH]; intros d H; [reflexivity|].
  cbn [quirk_free] in H. apply andb_true_iff in H. destruct H as [H1 H2].
  apply negb_true_iff in H1.
  cbn [set_apply rfc_seq]. rewrite <- (apply_op_rfc o d H1).
  destruct (apply_op o d) as [d'|]; [apply IH; exact H2|reflexivity].
Qed.

Lemma patch_rfc_partial : forall ops d, quirk_free ops d = true -> data_apply ops d = rfc_patch ops d.
Proof.
  intros ops d H. unfold data_apply, rfc_patch. rewrite (set_apply_rfc ops d H). reflexivity.
Qed.

(* the unguarded statement is false: remove of "/-" on [1,2,3] removes the last element, RFC 6902 fails *)
Lemma patch_rfc_refuted : exists ops d, data_apply ops d <> rfc_patch ops d.
Proof.
  exists [PRemove (Some [DASH])], (Some (JArr [JUInt 1; JUInt 2; JUInt 3])).
  vm_compute. discriminate.
Qed.
