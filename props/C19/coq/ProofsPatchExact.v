(* C19: the guard of c19_patch_rfc_partial is exact: a step flagged by Spec.quirk_kind really departs
   from RFC 6902 (except the one documented coincidence of an identity copy) *)
From Coq Require Import List NArith ZArith Bool Lia.
From C19 Require Import Gen Model Spec ProofsPtr ProofsPatch.
Import ListNotations.
Local Open Scope N_scope.

Lemma put_child_some : forall v t c c', rfc_get v [t] = Some c -> exists r, rfc_put_child v t c' = Some r.
Proof.
  intros v t c c' H. destruct v; cbn [rfc_get] in H; try discriminate; cbn [rfc_put_child].
  - destruct (rfc_index t); [eexists; reflexivity|discriminate].
  - eexists; reflexivity.
Qed.

(* Q2: add at index = length: the library fails, the RFC appends *)
Lemma addlen_departs : forall p v x, addlen_quirk v p = true ->
  take_action (AAdd x) v p = None /\ exists r, rfc_add v p x = Some r.
Proof.
  induction p as [|t q IH]; intros v x H; [discriminate|].
  destruct q as [|t2 q].
  - unfold addlen_quirk, parent_of in H. cbn [removelast lookup last] in H.
    destruct v; try discriminate.
    destruct (rfc_index t) as [i|] eqn:Ei; [|discriminate]. apply N.eqb_eq in H.
    assert (leqb t DASH = false) as Ed.
    { destruct (leqb t DASH) eqn:E; [|reflexivity]. apply leqb_eq in E. subst t. discriminate. }
    unfold take_action. cbn [removelast last modify act_on rfc_add]. rewrite Ed, tok_index_rfc, Ei.
    subst i. rewrite N.ltb_irrefl, N.leb_refl. split; [reflexivity|eexists; reflexivity].
  - rewrite addlen_quirk_cons in H. destruct (rfc_get v [t]) as [c|] eqn:Eg; [|discriminate].
    destruct (IH c x H) as [H1 [r H2]].
    rewrite take_action_cons, Eg, H1. split; [reflexivity|].
    change (rfc_add v (t :: t2 :: q) x) with
      (match rfc_get v [t] with
       | Some c => match rfc_add c (t2 :: q) x with Some c' => rfc_put_child v t c' | None => None end
       | None => None end).
    rewrite Eg, H2. exact (put_child_some v t c r Eg).
Qed.

(* Q1: remove / replace of '-' in a non-empty array: the library acts on the last element, the RFC fails *)
Lemma dash_departs : forall p v (a : action), (a = ARemove \/ exists x, a = AReplace x) ->
  dash_quirk v p = true ->
  (exists r, take_action a v p = Some r) /\
  rfc_remove v p = None /\ (forall x, rfc_replace v p x = None).
Proof.
  induction p as [|t q IH]; intros v a Ha H; [discriminate|].
  destruct q as [|t2 q].
  - unfold dash_quirk, parent_of in H. cbn [removelast lookup last] in H.
    destruct v; try discriminate. destruct l as [|e l']; [discriminate|].
    apply leqb_eq in H. subst t.
    unfold take_action. cbn [removelast last modify act_on rfc_remove rfc_replace].
    change (leqb DASH DASH) with true. cbn iota.
    split; [destruct Ha as [->|[x ->]]; eexists; reflexivity|]. split; [reflexivity|intro; reflexivity].
  - rewrite dash_quirk_cons in H. destruct (rfc_get v [t]) as [c|] eqn:Eg; [|discriminate].
    destruct (IH c a Ha H) as [[r H1] [H2 H3]].
    rewrite take_action_cons, Eg, H1. split; [exact (put_child_some v t c r Eg)|].
    split.
    + change (rfc_remove v (t :: t2 :: q)) with
        (match rfc_get v [t] with
         | Some c => match rfc_remove c (t2 :: q) with Some c' => rfc_put_child v t c' | None => None end
         | None => None end).
      rewrite Eg, H2. reflexivity.
    + intro x.
      change (rfc_replace v (t :: t2 :: q) x) with
        (match rfc_get v [t] with
         | Some c => match rfc_replace c (t2 :: q) x with Some c' => rfc_put_child v t c' | None => None end
         | None => None end).
      rewrite Eg, H3. reflexivity.
Qed.

Lemma kind_ne0 : forall (b : bool) (k : N), (if b then k else 0) <> 0 -> b = true.
Proof. intros b k H. destruct b; [reflexivity|congruence]. Qed.

(* a flagged step really departs from the RFC *)
Lemma quirk_departs : forall o d,
  quirk_kind o d <> 0 -> copy_coincidence o d = false -> apply_op o d <> rfc_op o d.
Proof.
  intros o d Hq Hc.
  destruct o as [p x|p|p x|from to|from to|p x].
  - (* add *)
    destruct p as [p|]; [|destruct d; cbn in Hq; congruence].
    destruct d as [v|]; [|destruct p; cbn in Hq; congruence].
    destruct p as [|t q]; [cbn in Hq; congruence|].
    cbn [quirk_kind] in Hq. apply kind_ne0 in Hq.
    destruct (addlen_departs (t :: q) v x Hq) as [H1 [r H2]].
    cbn [apply_op add_op rfc_op]. rewrite H1, H2. cbn. discriminate.
  - (* remove *)
    destruct p as [p|]; [|destruct d; cbn in Hq; congruence].
    destruct p as [|t q].
    + destruct d; [cbn in Hq; congruence|]. cbn. discriminate.
    + destruct d as [v|]; [|cbn in Hq; congruence].
      cbn [quirk_kind] in Hq. apply kind_ne0 in Hq.
      destruct (dash_departs (t :: q) v ARemove (or_introl eq_refl) Hq) as [[r H1] [H2 _]].
      cbn [apply_op rfc_op]. rewrite H1, H2. cbn. discriminate.
  - (* replace *)
    destruct p as [p|]; [|destruct d; cbn in Hq; congruence].
    destruct p as [|t q].
    + destruct d; [cbn in Hq; congruence|]. cbn. discriminate.
    + destruct d as [v|]; [|cbn in Hq; congruence].
      cbn [quirk_kind] in Hq. apply kind_ne0 in Hq.
      destruct (dash_departs (t :: q) v (AReplace x) (or_intror (ex_intro _ x eq_refl)) Hq) as [[r H1] [_ H3]].
      cbn [apply_op rfc_op]. rewrite H1, (H3 x). cbn. discriminate.
  - (* move *)
    destruct from as [from|]; [|destruct d; cbn in Hq; congruence].
    destruct to as [to|]; [|destruct d; cbn in Hq; congruence].
    destruct d as [v|].
    + cbn [quirk_kind] in Hq. cbn [apply_op rfc_op].
      rewrite prefix_rfc in *. rewrite lookup_rfc in *.
      destruct (toks_eqb from to) eqn:Eeq.
      * destruct (rfc_get v from); [congruence|discriminate].
      * destruct (proper_prefix from to) eqn:Epre; [congruence|].
        destruct (rfc_get v from) as [src|] eqn:El; [|congruence].
        assert (from <> []) as Hne.
        { intro; subst from. destruct to; cbn in Eeq, Epre; discriminate. }
        rewrite <- lookup_rfc in El.
        pose proof (lookup_no_dash from v src Hne El) as Edq.
        rewrite <- (remove_rfc from v Hne Edq).
        destruct (take_action ARemove v from) as [v'|]; [|congruence].
        apply kind_ne0 in Hq.
        destruct (addlen_departs to v' src Hq) as [H1 [r H2]].
        assert (to <> []) as Hto by (intro; subst to; discriminate).
        destruct to as [|t q]; [congruence|].
        cbn [add_op]. rewrite H1, H2. cbn. discriminate.
    + cbn [quirk_kind] in Hq. cbn [apply_op rfc_op].
      destruct (toks_eqb from to); [discriminate|congruence].
  - (* copy *)
    destruct from as [from|]; [|destruct d; cbn in Hq; congruence].
    destruct to as [to|]; [|destruct d; cbn in Hq; congruence].
    destruct d as [v|].
    + cbn [quirk_kind] in Hq. cbn [copy_coincidence] in Hc. cbn [apply_op rfc_op].
      rewrite lookup_rfc in *.
      destruct (toks_eqb from to) eqn:Eeq.
      * cbn [andb] in Hc. destruct (rfc_get v from); [discriminate|discriminate].
      * destruct (rfc_get v from) as [src|]; [|congruence].
        apply kind_ne0 in Hq.
        destruct (addlen_departs to v src Hq) as [H1 [r H2]].
        destruct to as [|t q]; [discriminate|].
        cbn [add_op]. rewrite H1, H2. cbn. discriminate.
    + cbn [quirk_kind] in Hq. cbn [apply_op rfc_op].
      destruct (toks_eqb from to); [discriminate|congruence].
  - (* test *)
    destruct p as [p|]; destruct d; cbn in Hq; congruence.
Qed.

(* exactness, per step *)
Lemma quirk_exact : forall o d, copy_coincidence o d = false ->
  (apply_op o d = rfc_op o d <-> quirk_kind o d = 0).
Proof.
  intros o d Hc. split.
  - intro H. destruct (N.eq_dec (quirk_kind o d) 0) as [E|E]; [exact E|].
    exfalso. exact (quirk_departs o d E Hc H).
  - intro H. apply apply_op_rfc. unfold quirk_step. rewrite H. reflexivity.
Qed.

(* the remaining corner, as an exact side condition: a copy with from = path that resolves gives the
   RFC result exactly when the RFC's add of the value onto itself leaves the document as it is *)
Lemma copy_identity_exact : forall from to v src,
  toks_eqb from to = true -> rfc_get v from = Some src ->
  (apply_op (PCopy (Some from) (Some to)) (Some v) = rfc_op (PCopy (Some from) (Some to)) (Some v)
   <-> rfc_add v to src = Some v).
Proof.
  intros from to v src He Hg. cbn [apply_op rfc_op]. rewrite He, Hg.
  destruct (rfc_add v to src) as [r|]; cbn [option_map]; split; intro H;
    try discriminate; try (inversion H; subst; reflexivity).
Qed.
