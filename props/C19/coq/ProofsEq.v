(* C19: value-tree equality (JsonValue::operator==) is structural *)
From Coq Require Import List NArith ZArith Bool Lia.
From C19 Require Import Gen Model ProofsPtr.
Import ListNotations.
Local Open Scope N_scope.

Lemma jv_eqb_arr : forall a b,
  jv_eqb (JArr a) (JArr b) = true <-> Forall2 (fun x y => jv_eqb x y = true) a b.
Proof.
  induction a as [|x a IH]; intro b; destruct b as [|y b]; cbn [jv_eqb]; split; intro H;
    try discriminate; try constructor; try (inversion H; fail).
  - apply andb_true_iff in H. tauto.
  - apply andb_true_iff in H. apply IH. cbn [jv_eqb]. tauto.
  - inversion H; subst. apply andb_true_iff. split; [assumption|].
    apply (proj2 (IH b)) in H5. cbn [jv_eqb] in H5. exact H5.
Qed.

Definition member_eq (p q : list N * jv) : Prop := fst p = fst q /\ jv_eqb (snd p) (snd q) = true.

Lemma jv_eqb_obj : forall a b,
  jv_eqb (JObj a) (JObj b) = true <-> Forall2 member_eq a b.
Proof.
  induction a as [|[k x] a IH]; intro b; destruct b as [|[k2 y] b]; cbn [jv_eqb]; split; intro H;
    try discriminate; try constructor; try (inversion H; fail).
  - apply andb_true_iff in H. destruct H as [H _]. apply andb_true_iff in H. destruct H as [Hk Hv].
    apply leqb_eq in Hk. split; assumption.
  - apply andb_true_iff in H. destruct H as [_ H]. apply IH. cbn [jv_eqb]. exact H.
  - inversion H as [|? ? ? ? [Hk Hv] Hr]; subst. cbn [fst snd] in *. subst k2.
    rewrite leqb_refl, Hv. cbn [andb]. apply (proj2 (IH b)) in Hr. cbn [jv_eqb] in Hr. exact Hr.
Qed.

(* equal objects have the same member names, in the same (std::map) order *)
Lemma jv_eqb_obj_keys : forall a b, jv_eqb (JObj a) (JObj b) = true -> map fst a = map fst b.
Proof.
  intros a b H. apply jv_eqb_obj in H. induction H as [|p q a b [Hk _] _ IH]; [reflexivity|].
  cbn [map]. rewrite Hk, IH. reflexivity.
Qed.

(* different kinds of container / container vs leaf are never equal *)
Lemma jv_eqb_kinds : forall a m v,
  jv_eqb (JArr a) (JObj m) = false /\ jv_eqb (JObj m) (JArr a) = false /\
  (is_container v = false -> jv_eqb (JArr a) v = false /\ jv_eqb v (JArr a) = false /\
                              jv_eqb (JObj m) v = false /\ jv_eqb v (JObj m) = false).
Proof.
  intros a m v. split; [reflexivity|]. split; [reflexivity|].
  intro H. destruct v; try discriminate; repeat split; reflexivity.
Qed.

(* what the MODEL does on two JsonDouble leaves: equality of the stored representation.  (The C++
   compares the double values computed by AsDouble; see prop.py TRUSTED.) *)
Lemma jv_eqb_dbl : forall n1 f1 l1 r1 e1 n2 f2 l2 r2 e2,
  jv_eqb (JDbl n1 f1 l1 r1 e1) (JDbl n2 f2 l2 r2 e2) = true <->
  n1 = n2 /\ f1 = f2 /\ l1 = l2 /\ r1 = r2 /\ e1 = e2.
Proof.
  intros. cbn [jv_eqb]. split.
  - intro H. repeat (apply andb_true_iff in H; destruct H as [H ?]).
    repeat match goal with
      | Hx : Bool.eqb _ _ = true |- _ => apply Bool.eqb_prop in Hx
      | Hx : (_ =? _)%Z = true |- _ => apply Z.eqb_eq in Hx
      | Hx : (_ =? _) = true |- _ => apply N.eqb_eq in Hx
      end. subst. repeat split; reflexivity.
  - intros [-> [-> [-> [-> ->]]]]. rewrite Bool.eqb_reflx, !N.eqb_refl, Z.eqb_refl. reflexivity.
Qed.
Lemma jv_eqb_dbl_other : forall n f l r e v,
  match v with JDbl _ _ _ _ _ => False | _ => True end ->
  jv_eqb (JDbl n f l r e) v = false /\ jv_eqb v (JDbl n f l r e) = false.
Proof. intros n f l r e v H. destruct v; try contradiction; split; reflexivity. Qed.
