(* C19 round trip, part 4: parse (write v) = canon v *)
From Coq Require Import List NArith ZArith Bool Lia.
From OlaBase Require Import Bytes.
From C19 Require Import Gen Model Spec ProofsPtr ProofsParse RTNum RTStr RTDefs.
Import ListNotations.
Local Open Scope N_scope.

Notation W := (write cx_parsed).

(* ---- first character of a written value ---- *)
Lemma write_head : forall k v ind, wfb k v = true ->
  exists c r, W ind v = c :: r /\ is_ws c = false /\ c <> 93 /\ c <> 125.
Proof.
  intros k v ind H. destruct v; cbn [wfb] in H; try discriminate.
  - cbn [write]. eexists. eexists. split; [reflexivity|]. repeat split; discriminate.
  - cbn [write]. destruct (dec_N_head n) as [c [r [E Hd]]]. rewrite E. exists c, r.
    unfold is_digit in Hd. apply andb_true_iff in Hd. destruct Hd as [Ha Hb]. apply N.leb_le in Ha, Hb.
    split; [reflexivity|]. repeat split; try lia.
    unfold is_ws. repeat (apply orb_false_iff; split); apply N.eqb_neq; lia.
  - cbn [write]. destruct (dec_Z_head z) as [c [r [E Hd]]]. rewrite E. exists c, r.
    split; [reflexivity|]. destruct Hd as [Hd|Hd]; [subst c; repeat split; discriminate|].
    unfold is_digit in Hd. apply andb_true_iff in Hd. destruct Hd as [Ha Hb]. apply N.leb_le in Ha, Hb.
    repeat split; try lia.
    unfold is_ws. repeat (apply orb_false_iff; split); apply N.eqb_neq; lia.
  - cbn [write]. destruct (dec_N_head n) as [c [r [E Hd]]]. rewrite E. exists c, r.
    unfold is_digit in Hd. apply andb_true_iff in Hd. destruct Hd as [Ha Hb]. apply N.leb_le in Ha, Hb.
    split; [reflexivity|]. repeat split; try lia.
    unfold is_ws. repeat (apply orb_false_iff; split); apply N.eqb_neq; lia.
  - cbn [write]. destruct (dec_Z_head z) as [c [r [E Hd]]]. rewrite E. exists c, r.
    split; [reflexivity|]. destruct Hd as [Hd|Hd]; [subst c; repeat split; discriminate|].
    unfold is_digit in Hd. apply andb_true_iff in Hd. destruct Hd as [Ha Hb]. apply N.leb_le in Ha, Hb.
    repeat split; try lia.
    unfold is_ws. repeat (apply orb_false_iff; split); apply N.eqb_neq; lia.
  - cbn [write]. destruct b; eexists; eexists; (split; [reflexivity|]); repeat split; discriminate.
  - cbn [write]. eexists; eexists; (split; [reflexivity|]); repeat split; discriminate.
  - rewrite write_arr. eexists; eexists; (split; [reflexivity|]); repeat split; discriminate.
  - rewrite write_obj. destruct m; eexists; eexists; (split; [reflexivity|]); repeat split; discriminate.
Qed.

Lemma follow_ws_app : forall w c r, all_ws w = true -> c = 44 \/ c = 93 \/ c = 125 -> follow (w ++ c :: r).
Proof.
  intros w c r Hw Hc. destruct w as [|x w']; cbn [app follow].
  - right. exact Hc.
  - left. cbn [all_ws forallb] in Hw. apply andb_true_iff in Hw. tauto.
Qed.

Ltac lens := repeat (progress (rewrite ?app_length in *; cbn [length app] in *)).

Section WithPut.
Variable put : N -> list N -> jv -> list (list N * jv) -> list (list N * jv).
Local Notation parse_value := (parse_value_g put).
Local Notation parse_elems := (parse_elems_g put).
Local Notation parse_members := (parse_members_g put).
Local Notation parse_text_fuel := (parse_text_fuel_g put).
Local Notation parse_text := (parse_text_g put).

Hypothesis Hput : forall d k v acc,
  Forall (fun q => key_cmp k (fst q) = Gt) acc -> put d k v acc = acc ++ [(k, v)].

(* ---- one-step equations of ParseTrimmedInput on the writer's first characters ---- *)
Lemma pv_arr : forall f d r, parse_value (S f) d (91 :: r) =
  if MAX_DEPTH <=? d then PErr 12 else
  match trim r with
  | [] => PErr 4
  | c1 :: r1 => if c1 =? 93 then POk (JArr []) r1 else parse_elems f (d + 1) (trim r) []
  end.
Proof. reflexivity. Qed.
Lemma pv_obj : forall f d r, parse_value (S f) d (123 :: r) =
  if MAX_DEPTH <=? d then PErr 12 else
  match trim r with
  | [] => PErr 6
  | c1 :: r1 => if c1 =? 125 then POk (JObj []) r1 else parse_members f (d + 1) (trim r) []
  end.
Proof. reflexivity. Qed.
Lemma pv_str : forall f d r, parse_value (S f) d (34 :: r) =
  match parse_str r [] with POk s rest => POk (JStr s) rest | PErr e => PErr e | PFuel => PFuel | PDeep => PDeep end.
Proof. reflexivity. Qed.

Definition fuel_ok (txt : list N) (extra fuel : nat) : Prop := (2 * length txt + extra <= fuel)%nat.

(* the property proved by induction on the tree *)
Definition RT (v : jv) : Prop :=
  forall k d ind rest fuel,
    wfb k v = true -> N.of_nat k + d <= MAX_DEPTH -> follow rest ->
    fuel_ok (W ind v ++ rest) 1 fuel ->
    parse_value fuel d (W ind v ++ rest) = POk (canon v) rest.

(* ---- array elements ---- *)
Fixpoint wtail_k (inner : nat) (pad : list N) (x : list jv) (k : list N) : list N :=
  match x with
  | [] => k
  | e :: x' => 44 :: pad ++ W inner e ++ wtail_k inner pad x' k
  end.
Lemma wtail_k_eq : forall inner pad x k, wtail inner (44 :: pad) x ++ k = wtail_k inner pad x k.
Proof.
  intros inner pad. induction x as [|e x IH]; intro k; [reflexivity|].
  cbn [wtail flat_map wtail_k]. norm. rewrite <- (IH k). reflexivity.
Qed.

Lemma elems_rt : forall kk inner pad pc rest d x,
  Forall RT x -> forallb (wfb kk) x = true ->
  N.of_nat kk + d <= MAX_DEPTH -> all_ws pad = true -> all_ws pc = true ->
  forall e acc pre fuel,
    RT e -> wfb kk e = true -> all_ws pre = true ->
    fuel_ok (pre ++ W inner e ++ wtail_k inner pad x (pc ++ 93 :: rest)) 2 fuel ->
    parse_elems fuel d (pre ++ W inner e ++ wtail_k inner pad x (pc ++ 93 :: rest)) acc =
    POk (JArr (rev acc ++ canon e :: map canon x)) rest.
Proof.
  intros kk inner pad pc rest d x HF. induction HF as [|e2 x' He2 HF IH];
    intros Hwf Hd Hpad Hpc e acc pre fuel He Hwe Hpre Hfuel; unfold fuel_ok in Hfuel.
  - (* last element *)
    destruct fuel as [|f]; [lia|]. rewrite pe_step.
    assert ((MAX_DEPTH <? d) = false) as Ed by (apply N.ltb_ge; lia). rewrite Ed.
    rewrite trim_ws_app by exact Hpre.
    destruct (write_head kk e inner Hwe) as [c [r0 [Ew [Hws _]]]].
    cbn [wtail_k] in *. rewrite Ew in *. cbn [app]. rewrite trim_nonws by exact Hws.
    change (c :: r0 ++ pc ++ 93 :: rest) with ((c :: r0) ++ pc ++ 93 :: rest). rewrite <- Ew.
    rewrite (He kk d inner (pc ++ 93 :: rest) f Hwe Hd).
    + rewrite trim_ws_app by exact Hpc. rewrite trim_nonws by reflexivity.
      cbn [N.eqb Pos.eqb]. rewrite lrev_rev. cbn [rev map]. try rewrite <- app_assoc. reflexivity.
    + apply follow_ws_app; [exact Hpc|auto].
    + unfold fuel_ok. rewrite Ew. lens. lia.
  - (* an element followed by ", next" *)
    cbn [forallb] in Hwf. apply andb_true_iff in Hwf. destruct Hwf as [Hw2 Hwx].
    destruct fuel as [|f]; [lia|]. rewrite pe_step.
    assert ((MAX_DEPTH <? d) = false) as Ed by (apply N.ltb_ge; lia). rewrite Ed.
    rewrite trim_ws_app by exact Hpre.
    destruct (write_head kk e inner Hwe) as [c [r0 [Ew [Hws _]]]].
    cbn [wtail_k] in *.
    set (tail := 44 :: pad ++ W inner e2 ++ wtail_k inner pad x' (pc ++ 93 :: rest)) in *.
    rewrite Ew in *. cbn [app]. rewrite trim_nonws by exact Hws.
    change (c :: r0 ++ tail) with ((c :: r0) ++ tail). rewrite <- Ew.
    rewrite (He kk d inner tail f Hwe Hd).
    + unfold tail at 1. rewrite trim_nonws by reflexivity. cbn [N.eqb Pos.eqb].
      rewrite (IH Hwx Hd Hpad Hpc e2 (canon e :: acc) pad f He2 Hw2 Hpad).
      * cbn [rev map]. try rewrite <- app_assoc. reflexivity.
      * unfold fuel_ok. unfold tail in Hfuel. lens. lia.
    + unfold tail. cbn [follow]. right. left. reflexivity.
    + unfold fuel_ok. rewrite Ew. unfold tail in *. lens. lia.
Qed.

(* ---- object members ---- *)
Definition cm (p : list N * jv) : list N * jv := (fst p, canon (snd p)).

Fixpoint wmtail_k (inner : nat) (x : list (list N * jv)) (k : list N) : list N :=
  match x with
  | [] => k
  | p :: x' => 44 :: 10 :: spaces inner ++ 34 :: escape_str (fst p) ++ 34 :: 58 :: 32 ::
               W inner (snd p) ++ wmtail_k inner x' k
  end.
Lemma wmtail_k_eq : forall inner x k, wmtail inner x ++ k = wmtail_k inner x k.
Proof.
  intro inner. induction x as [|p x IH]; intro k; [reflexivity|].
  cbn [wmtail flat_map wmtail_k]. unfold wmem. norm. rewrite <- (IH k). reflexivity.
Qed.

Lemma obj_put_append : forall k v acc,
  Forall (fun q => key_cmp k (fst q) = Gt) acc -> obj_put k v acc = acc ++ [(k, v)].
Proof.
  intros k v acc H. induction H as [|[k' v'] r Hq H IH]; [reflexivity|].
  cbn [obj_put app]. cbn [fst] in Hq. rewrite Hq. rewrite IH. reflexivity.
Qed.

Lemma members_rt : forall kk inner ind rest d x,
  Forall (fun p => RT (snd p)) x ->
  forallb (fun p => forallb printable (fst p) && wfb kk (snd p)) x = true ->
  N.of_nat kk + d <= MAX_DEPTH ->
  forall p acc pre fuel,
    RT (snd p) -> wfb kk (snd p) = true -> all_ws pre = true ->
    sortedb (p :: x) = true ->
    Forall (fun q => Forall (fun p' => key_cmp (fst p') (fst q) = Gt) (p :: x)) acc ->
    fuel_ok (pre ++ 34 :: escape_str (fst p) ++ 34 :: 58 :: 32 :: W inner (snd p) ++
             wmtail_k inner x (10 :: spaces ind ++ 125 :: rest)) 2 fuel ->
    parse_members fuel d (pre ++ 34 :: escape_str (fst p) ++ 34 :: 58 :: 32 :: W inner (snd p) ++
                          wmtail_k inner x (10 :: spaces ind ++ 125 :: rest)) acc =
    POk (JObj (acc ++ cm p :: map cm x)) rest.
Proof.
  intros kk inner ind rest d x HF. induction HF as [|p2 x' Hp2 HF IH];
    intros Hwf Hd p acc pre fuel Hp Hwp Hpre Hsort Hacc Hfuel; unfold fuel_ok in Hfuel.
  - destruct fuel as [|f]; [lia|]. rewrite pm_step.
    assert ((MAX_DEPTH <? d) = false) as Ed by (apply N.ltb_ge; lia). rewrite Ed.
    rewrite trim_ws_app by exact Hpre. rewrite trim_nonws by reflexivity.
    cbn [N.eqb Pos.eqb negb]. rewrite parse_str_escape. cbn [rev app].
    rewrite trim_nonws by reflexivity. cbn [N.eqb Pos.eqb negb].
    change (32 :: W inner (snd p) ++ wmtail_k inner [] (10 :: spaces ind ++ 125 :: rest))
      with ([32] ++ W inner (snd p) ++ wmtail_k inner [] (10 :: spaces ind ++ 125 :: rest)).
    rewrite trim_ws_app by reflexivity.
    destruct (write_head kk (snd p) inner Hwp) as [c [r0 [Ew [Hws _]]]].
    cbn [wmtail_k] in *. rewrite Ew in *. cbn [app]. rewrite trim_nonws by exact Hws.
    change (c :: r0 ++ 10 :: spaces ind ++ 125 :: rest) with ((c :: r0) ++ 10 :: spaces ind ++ 125 :: rest).
    rewrite <- Ew.
    rewrite (Hp kk d inner (10 :: spaces ind ++ 125 :: rest) f Hwp Hd).
    + change (10 :: spaces ind ++ 125 :: rest) with ((10 :: spaces ind) ++ 125 :: rest).
      rewrite trim_ws_app by apply all_ws_nl_spaces. rewrite trim_nonws by reflexivity.
      cbn [N.eqb Pos.eqb]. rewrite Hput.
      * reflexivity.
      * eapply Forall_impl; [|exact Hacc]. intros q Hq. inversion Hq; subst. assumption.
    + cbn [follow]. left. reflexivity.
    + unfold fuel_ok. rewrite Ew. lens. lia.
  - cbn [forallb] in Hwf. apply andb_true_iff in Hwf. destruct Hwf as [Hw2 Hwx].
    apply andb_true_iff in Hw2. destruct Hw2 as [Hk2 Hw2].
    destruct fuel as [|f]; [lia|]. rewrite pm_step.
    assert ((MAX_DEPTH <? d) = false) as Ed by (apply N.ltb_ge; lia). rewrite Ed.
    rewrite trim_ws_app by exact Hpre. rewrite trim_nonws by reflexivity.
    cbn [N.eqb Pos.eqb negb]. rewrite parse_str_escape. cbn [rev app].
    rewrite trim_nonws by reflexivity. cbn [N.eqb Pos.eqb negb].
    cbn [wmtail_k] in *.
    set (tail := 44 :: 10 :: spaces inner ++ 34 :: escape_str (fst p2) ++ 34 :: 58 :: 32 ::
                 W inner (snd p2) ++ wmtail_k inner x' (10 :: spaces ind ++ 125 :: rest)) in *.
    change (32 :: W inner (snd p) ++ tail) with ([32] ++ W inner (snd p) ++ tail).
    rewrite trim_ws_app by reflexivity.
    destruct (write_head kk (snd p) inner Hwp) as [c [r0 [Ew [Hws _]]]].
    rewrite Ew in *. cbn [app]. rewrite trim_nonws by exact Hws.
    change (c :: r0 ++ tail) with ((c :: r0) ++ tail). rewrite <- Ew.
    rewrite (Hp kk d inner tail f Hwp Hd).
    + unfold tail at 1. rewrite trim_nonws by reflexivity. cbn [N.eqb Pos.eqb].
      assert (Hput1 : put d (fst p) (canon (snd p)) acc = acc ++ [cm p]).
      { apply Hput. eapply Forall_impl; [|exact Hacc]. intros q Hq. inversion Hq; subst. assumption. }
      rewrite Hput1.
      cbn [sortedb] in Hsort. apply andb_true_iff in Hsort. destruct Hsort as [Hgt Hsort].
      change (10 :: spaces inner ++ 34 :: escape_str (fst p2) ++ 34 :: 58 :: 32 ::
              W inner (snd p2) ++ wmtail_k inner x' (10 :: spaces ind ++ 125 :: rest))
        with ((10 :: spaces inner) ++ 34 :: escape_str (fst p2) ++ 34 :: 58 :: 32 ::
              W inner (snd p2) ++ wmtail_k inner x' (10 :: spaces ind ++ 125 :: rest)).
      rewrite (IH Hwx Hd p2 (acc ++ [cm p]) (10 :: spaces inner) f Hp2 Hw2 (all_ws_nl_spaces inner) Hsort).
      * rewrite <- app_assoc. reflexivity.
      * apply Forall_app. split.
        -- eapply Forall_impl; [|exact Hacc]. intros q Hq. inversion Hq; subst. assumption.
        -- constructor; [|constructor]. cbn [cm fst].
           apply Forall_forall. intros p' Hin.
           rewrite forallb_forall in Hgt. specialize (Hgt p' Hin). unfold key_gt in Hgt.
           destruct (key_cmp (fst p') (fst p)); try discriminate. reflexivity.
      * unfold fuel_ok. unfold tail in Hfuel. lens. lia.
    + unfold tail. cbn [follow]. right. left. reflexivity.
    + unfold fuel_ok. rewrite Ew. unfold tail in *. lens. lia.
Qed.

End WithPut.
