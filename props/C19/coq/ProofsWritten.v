(* C19: every tree inside the round-trip guard has a canonical form with sorted keys, so the handler
   machine fed with the lexer's calls for the written text builds it *)
From Coq Require Import List NArith ZArith Bool Lia.
From C19 Require Import Gen Model RTNum RTStr RTDefs RTMain RTFinal ProofsHandler ProofsHandlerObj ProofsLexEvents.
Import ListNotations.
Local Open Scope N_scope.

Lemma sortedb_canon : forall m, sortedb (map (fun p => (fst p, canon (snd p))) m) = sortedb m.
Proof.
  induction m as [|p r IH]; [reflexivity|].
  cbn [map sortedb fst]. rewrite IH. f_equal.
  clear IH. induction r as [|q r IH]; [reflexivity|]. cbn [map forallb]. rewrite IH. reflexivity.
Qed.

Lemma canon_nat_leaf : forall n, sorted_tree (canon_nat n) = true.
Proof. intro n. unfold canon_nat. destruct (4294967295 <? n); reflexivity. Qed.
Lemma canon_int_leaf : forall z, sorted_tree (canon_int z) = true.
Proof.
  intro z. unfold canon_int. destruct z; try apply canon_nat_leaf.
  destruct ((_ <? _)%Z || (_ <? _)%Z); reflexivity.
Qed.

Lemma sorted_canon : forall v k, wfb k v = true -> sorted_tree (canon v) = true.
Proof.
  apply (jv_ind2 (fun v => forall k, wfb k v = true -> sorted_tree (canon v) = true));
    try (intros; reflexivity).
  - intros. apply canon_nat_leaf.
  - intros. apply canon_int_leaf.
  - intros. apply canon_nat_leaf.
  - intros. apply canon_int_leaf.
  - intros l HF k H. cbn [wfb] in H. destruct k as [|k']; [discriminate|].
    cbn [canon sorted_tree]. induction HF as [|x l Hx HF IH]; [reflexivity|].
    cbn [forallb] in H. apply andb_true_iff in H. destruct H as [H1 H2].
    cbn [map forallb]. rewrite (Hx k' H1), (IH H2). reflexivity.
  - intros m HF k H. cbn [wfb] in H. destruct k as [|k']; [discriminate|].
    apply andb_true_iff in H. destruct H as [H Hs].
    cbn [canon sorted_tree]. rewrite sortedb_canon, Hs, andb_true_r.
    induction HF as [|p m Hp HF IH]; [reflexivity|].
    cbn [forallb] in H. apply andb_true_iff in H. destruct H as [H1 H2].
    apply andb_true_iff in H1. destruct H1 as [_ H1].
    cbn [sortedb] in Hs. apply andb_true_iff in Hs. destruct Hs as [_ Hs].
    cbn [map forallb snd]. rewrite (Hp k' H1), (IH H2 Hs). reflexivity.
Qed.

Lemma written_handler_builds : forall v, wfb (N.to_nat MAX_DEPTH) v = true ->
  exists es, lex_events (write cx_parsed 0 v) = POk es [] /\
             h_run (h_step h_init EBegin) es =
             {| h_err := 0; h_root := Some (canon v); h_key := []; h_stack := [] |}.
Proof.
  intros v H. exists (events_of (canon v)). split; [exact (proj2 (lex_events_written v H))|].
  exact (proj1 (handler_builds_o (canon v) (sorted_canon v _ H))).
Qed.
