(* C19: the node kind ParseNumber gives to an integer text, at every 32/64-bit boundary; and the
   independence of the operations of a patch document *)
From Coq Require Import List NArith ZArith Bool Lia.
From OlaBase Require Import Bytes.
From C19 Require Import Gen Model Spec ProofsPtr ProofsPatch ProofsParse RTNum RTStr RTDefs RTMain RTFinal ProofsPatchDoc.
Import ListNotations.
Local Open Scope Z_scope.

Lemma integer_kinds : forall (z : Z) (rest : list N), follow rest ->
  (0 <= z <= 4294967295 -> parse_number (dec_Z z ++ rest) = POk (JUInt (Z.to_N z)) rest) /\
  (4294967296 <= z < 18446744073709551616 -> parse_number (dec_Z z ++ rest) = POk (JUInt64 (Z.to_N z)) rest) /\
  (-2147483648 <= z < 0 -> parse_number (dec_Z z ++ rest) = POk (JInt z) rest) /\
  (-9223372036854775808 <= z < -2147483648 -> parse_number (dec_Z z ++ rest) = POk (JInt64 z) rest).
Proof.
  intros z rest Hf.
  assert (H : -9223372036854775808 <= z < 18446744073709551616 ->
              parse_number (dec_Z z ++ rest) = POk (canon_int z) rest) by (intro; apply num_rt_Z; assumption).
  repeat split; intro Hr; rewrite H by lia; f_equal; unfold canon_int, canon_nat.
  - destruct z as [|p|p]; try lia.
    + reflexivity.
    + assert ((4294967295 <? Z.to_N (Z.pos p))%N = false) as E by (apply N.ltb_ge; lia). rewrite E. reflexivity.
  - destruct z as [|p|p]; try lia.
    assert ((4294967295 <? Z.to_N (Z.pos p))%N = true) as E by (apply N.ltb_lt; lia). rewrite E. reflexivity.
  - destruct z as [|p|p]; try lia.
    assert ((Z.neg p <? -2147483648) || (2147483647 <? Z.neg p) = false) as E.
    { apply orb_false_iff. split; apply Z.ltb_ge; lia. }
    rewrite E. reflexivity.
  - destruct z as [|p|p]; try lia.
    assert ((Z.neg p <? -2147483648) = true) as E by (apply Z.ltb_lt; lia). rewrite E. reflexivity.
Qed.

(* ---- operations of a patch document are parsed independently ---- *)
Lemma elems_ops_single : forall e, elems_ops [e] = match elem_op e with inl o => inl [o] | inr c => inr c end.
Proof. intro e. cbn [elems_ops]. destruct (elem_op e); reflexivity. Qed.

Lemma elems_ops_independent : forall l ops,
  elems_ops l = inl ops <-> Forall2 (fun e o => elems_ops [e] = inl [o]) l ops.
Proof.
  induction l as [|e r IH]; intro ops; split; intro H.
  - cbn in H. inversion H. constructor.
  - inversion H. reflexivity.
  - cbn [elems_ops] in H. destruct (elem_op e) as [o|c] eqn:Ee; [|discriminate].
    destruct (elems_ops r) as [os|c] eqn:Er; [|discriminate]. inversion H; subst.
    constructor; [rewrite elems_ops_single, Ee; reflexivity|]. apply IH. reflexivity.
  - inversion H as [|? o ? os He Hr]; subst. rewrite elems_ops_single in He.
    cbn [elems_ops]. destruct (elem_op e) as [o'|c]; [|discriminate]. inversion He; subst.
    apply (proj2 (IH os)) in Hr. rewrite Hr. reflexivity.
Qed.

Lemma elems_ops_app : forall a b oa ob,
  elems_ops a = inl oa -> elems_ops b = inl ob -> elems_ops (a ++ b) = inl (oa ++ ob).
Proof.
  intros a b oa ob Ha Hb. apply elems_ops_independent.
  apply Forall2_app; apply elems_ops_independent; assumption.
Qed.

Lemma patchdoc_ops_independent : forall (elems : list jv) (ops : list pop),
  patch_of_tree (JArr elems) = PPOk ops <->
  Forall2 (fun e o => patch_of_tree (JArr [e]) = PPOk [o]) elems ops.
Proof.
  intros elems ops. cbn [patch_of_tree]. split.
  - intro H. destruct (elems_ops elems) as [os|c] eqn:E; [|discriminate]. inversion H; subst.
    apply elems_ops_independent in E. eapply Forall2_imp; [|exact E].
    intros e o He. cbn beta in He. rewrite He. reflexivity.
  - intro H. assert (elems_ops elems = inl ops) as E.
    { apply elems_ops_independent. eapply Forall2_imp; [|exact H].
      intros e o He. cbn beta in He. destruct (elems_ops [e]) as [os|c]; [|discriminate]. inversion He. reflexivity. }
    rewrite E. reflexivity.
Qed.
