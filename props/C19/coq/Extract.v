From Coq Require Extraction.
From Coq Require Import ExtrOcamlBasic.
From OlaBase Require Import Bytes.
From C19 Require Import Gen Model Spec RTDefs.
Extraction Language OCaml.
Extraction "model.ml" io_witness N.div_eucl ptr_parse ptr_to_string is_prefix_of toks_eqb escape unescape
  parse_text parse_seq write cx_parsed cx_api jv_eqb lookup apply_op set_apply data_apply
  rfc_patch rfc_op quirk_kind quirk_step quirk_free tok_index rfc_index MAX_DEPTH wfb canon compare_numbers num_eq_cpp num_lt_cpp patch_parse_text patch_apply_text h_init h_step h_tree lexer_error_text patch_error_text handler_error_text.
