(* C19: specification of JSON Pointer evaluation (RFC 6901 s.4) and of the JSON Patch operations
   (RFC 6902 s.4) on the value tree, written from the RFC text, independently of JsonPatch.cpp:
   plain recursion along the reference tokens, strict array indices, '-' only for add. *)
From Coq Require Import List NArith ZArith Bool.
From C19 Require Import Gen Model.
Import ListNotations.
Local Open Scope N_scope.

(* RFC 6901 s.4: array-index = %x30 / ( %x31-39 *(%x30-39) ).  The library indexes arrays with a
   uint32_t; indices of 2^32 and above cannot denote an element and are rejected (stated limit). *)
Fixpoint dec_value (l : list N) (acc : N) : N :=
  match l with [] => acc | c :: r => dec_value r (10 * acc + (c - 48)) end.
Definition rfc_index (t : tok) : option N :=
  match t with
  | [] => None
  | [c] => if is_digit c then Some (c - 48) else None
  | c :: r => if (49 <=? c) && (c <=? 57) && forallb is_digit r
              then (if dec_value t 0 <? 4294967296 then Some (dec_value t 0) else None)
              else None
  end.

(* RFC 6901 s.4 evaluation *)
Fixpoint rfc_get (v : jv) (path : list tok) : option jv :=
  match path with
  | [] => Some v
  | t :: r =>
    match v with
    | JObj m => match obj_get t m with Some c => rfc_get c r | None => None end
    | JArr l => match rfc_index t with
                | Some i => match nth_N l i with Some c => rfc_get c r | None => None end
                | None => None
                end
    | _ => None
    end
  end.

(* replace the child named t of container v by c' (t is known to resolve) *)
Definition rfc_put_child (v : jv) (t : tok) (c' : jv) : option jv :=
  match v with
  | JObj m => Some (JObj (obj_set t c' m))
  | JArr l => match rfc_index t with Some i => Some (JArr (set_nth (N.to_nat i) c' l)) | None => None end
  | _ => None
  end.

(* RFC 6902 4.1 add: object member is added or replaced; array: insert before index i <= length,
   '-' appends *)
Fixpoint rfc_add (v : jv) (path : list tok) (x : jv) : option jv :=
  match path with
  | [] => Some x
  | [t] =>
    match v with
    | JObj m => Some (JObj (obj_put t x m))
    | JArr l => if leqb t DASH then Some (JArr (l ++ [x]))
                else match rfc_index t with
                     | Some i => if i <=? N.of_nat (length l) then Some (JArr (ins_nth (N.to_nat i) x l)) else None
                     | None => None
                     end
    | _ => None
    end
  | t :: r =>
    match rfc_get v [t] with
    | Some c => match rfc_add c r x with Some c' => rfc_put_child v t c' | None => None end
    | None => None
    end
  end.

(* 4.2 remove: the target location MUST exist *)
Fixpoint rfc_remove (v : jv) (path : list tok) : option jv :=
  match path with
  | [] => None                                (* whole-document removal handled at [rfc_op] *)
  | [t] =>
    match v with
    | JObj m => match obj_get t m with Some _ => Some (JObj (obj_del t m)) | None => None end
    | JArr l => match rfc_index t with
                | Some i => if i <? N.of_nat (length l) then Some (JArr (del_nth (N.to_nat i) l)) else None
                | None => None
                end
    | _ => None
    end
  | t :: r =>
    match rfc_get v [t] with
    | Some c => match rfc_remove c r with Some c' => rfc_put_child v t c' | None => None end
    | None => None
    end
  end.

(* 4.3 replace: the target location MUST exist *)
Fixpoint rfc_replace (v : jv) (path : list tok) (x : jv) : option jv :=
  match path with
  | [] => Some x
  | [t] =>
    match v with
    | JObj m => match obj_get t m with Some _ => Some (JObj (obj_set t x m)) | None => None end
    | JArr l => match rfc_index t with
                | Some i => if i <? N.of_nat (length l) then Some (JArr (set_nth (N.to_nat i) x l)) else None
                | None => None
                end
    | _ => None
    end
  | t :: r =>
    match rfc_get v [t] with
    | Some c => match rfc_replace c r x with Some c' => rfc_put_child v t c' | None => None end
    | None => None
    end
  end.

Fixpoint proper_prefix (a b : list tok) : bool :=
  match a, b with
  | [], _ :: _ => true
  | x :: a', y :: b' => leqb x y && proper_prefix a' b'
  | _, _ => false
  end.

(* One operation on a document.  [None] as a document is the library's "no value" state: only
   add/replace of the whole document apply to it; removing "" yields it.
   move (4.4) = remove at from, then add the removed value at path; from must not be a proper
   prefix of path.  When from = path the operation has no effect but from must exist.
   copy (4.5) = add of the value at from.  test (4.6) = equality (numbers by value). *)
Definition rfc_op (o : pop) (d : doc) : option doc :=
  match o, d with
  | PAdd (Some []) x, _ => Some (Some x)
  | PAdd (Some p) x, Some v => option_map Some (rfc_add v p x)
  | PRemove (Some []), Some _ => Some None
  | PRemove (Some p), Some v => option_map Some (rfc_remove v p)
  | PReplace (Some []) x, Some _ => Some (Some x)
  | PReplace (Some p) x, Some v => option_map Some (rfc_replace v p x)
  | PMove (Some from) (Some to), Some v =>
      match rfc_get v from with
      | None => None
      | Some src =>
        if toks_eqb from to then Some d
        else if proper_prefix from to then None
        else match rfc_remove v from with
             | Some v' => option_map Some (rfc_add v' to src)
             | None => None
             end
      end
  | PCopy (Some from) (Some to), Some v =>
      match rfc_get v from with
      | None => None
      | Some src => option_map Some (rfc_add v to src)
      end
  | PTest (Some p) x, Some v =>
      match rfc_get v p with
      | Some t => if jv_eqb x t then Some d else None
      | None => None
      end
  | _, _ => None
  end.

(* RFC 6902 s.5: operations are applied in order; the first failure aborts the whole patch and
   the document is left as it was. *)
Fixpoint rfc_seq (ops : list pop) (d : doc) : option doc :=
  match ops with
  | [] => Some d
  | o :: r => match rfc_op o d with Some d' => rfc_seq r d' | None => None end
  end.
Definition rfc_patch (ops : list pop) (d : doc) : bool * doc :=
  match rfc_seq ops d with Some d' => (true, d') | None => (false, d) end.

(* ---- the places where the library deliberately departs from the RFC (its unit tests in
   common/web/PatchTest.cpp require the behaviour, so it is recorded as a finding, not fixed) ---- *)
Definition parent_of (v : jv) (p : list tok) : option jv := lookup v (removelast p).
(* Q1: remove/replace of "-" in a non-empty array act on the last element (RFC: error) *)
Definition dash_quirk (v : jv) (p : list tok) : bool :=
  match p with
  | [] => false
  | _ => match parent_of v p with
         | Some (JArr (_ :: _)) => leqb (last p []) DASH
         | _ => false
         end
  end.
(* Q2: add at index = length of the array fails (RFC: appends) *)
Definition addlen_quirk (v : jv) (p : list tok) : bool :=
  match p with
  | [] => false
  | _ => match parent_of v p with
         | Some (JArr l) => match rfc_index (last p []) with
                            | Some i => i =? N.of_nat (length l)
                            | None => false
                            end
         | _ => false
         end
  end.
(* Q3: move with from = path succeeds although from does not exist / there is no document; copy with
   from = path does nothing (RFC: from must exist and the value is added, i.e. duplicated in an array);
   Q4: "remove" and "replace" of the whole document are accepted when there is no document *)
Definition quirk_kind (o : pop) (d : doc) : N :=
  match o, d with
  | PAdd (Some p) _, Some v => if addlen_quirk v p then 2 else 0
  | PRemove (Some []), None => 3
  | PReplace (Some []) _, None => 3
  | PRemove (Some p), Some v => if dash_quirk v p then 1 else 0
  | PReplace (Some p) _, Some v => if dash_quirk v p then 1 else 0
  | PMove (Some from) (Some to), Some v =>
      if toks_eqb from to then (match rfc_get v from with None => 3 | Some _ => 0 end)
      else if is_prefix_of from to then 0
      else match lookup v from with
           | None => 0
           | Some _ => match take_action ARemove v from with
                       | Some v' => if addlen_quirk v' to then 2 else 0
                       | None => 0
                       end
           end
  | PMove (Some from) (Some to), None => if toks_eqb from to then 3 else 0
  | PCopy (Some from) (Some to), Some v =>
      if toks_eqb from to then (match from with [] => 0 | _ => 3 end)
      else match lookup v from with
           | None => 0
           | Some _ => if addlen_quirk v to then 2 else 0
           end
  | PCopy (Some from) (Some to), None => if toks_eqb from to then 3 else 0
  | _, _ => 0
  end.
Definition quirk_step (o : pop) (d : doc) : bool := negb (quirk_kind o d =? 0).
(* the one place where a recorded departure can coincide with the RFC result: copy with from = path
   (non-root) that resolves - the library returns success without evaluating; for a member of an
   object in canonical form the RFC's add replaces the value by itself *)
Definition copy_coincidence (o : pop) (d : doc) : bool :=
  match o, d with
  | PCopy (Some from) (Some to), Some v =>
      toks_eqb from to && match rfc_get v from with Some _ => true | None => false end
  | _, _ => false
  end.

(* no step of the run of [ops] on [d] lands on one of the recorded departures *)
Fixpoint quirk_free (ops : list pop) (d : doc) : bool :=
  match ops with
  | [] => true
  | o :: r => negb (quirk_step o d) &&
              match apply_op o d with Some d' => quirk_free r d' | None => true end
  end.
