(* REGENERATED from the repository headers on every run. Do not edit.  *)
From Coq Require Import NArith.
Local Open Scope N_scope.
Definition MAX_DEPTH : N := 256.
