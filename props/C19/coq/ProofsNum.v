(* C19: equality and ordering of integer nodes = equality and ordering of the integers they denote *)
From Coq Require Import List NArith ZArith Bool Lia.
From OlaBase Require Import Bytes.
From C19 Require Import Gen Model.
Import ListNotations.
Local Open Scope Z_scope.

(* an integer node whose value is in the range of its C++ type *)
Definition int_node (v : jv) : bool :=
  match v with
  | JUInt n => (n <? 4294967296)%N
  | JInt z => (-2147483648 <=? z) && (z <? 2147483648)
  | JUInt64 n => (n <? 18446744073709551616)%N
  | JInt64 z => (-9223372036854775808 <=? z) && (z <? 9223372036854775808)
  | _ => false
  end.

Lemma int_node_val : forall v, int_node v = true -> exists z, num_val v = Some z.
Proof. destruct v; try discriminate; intros _; eexists; reflexivity. Qed.

Lemma three_spec : forall a b, three a b = match a ?= b with Lt => -1 | Eq => 0 | Gt => 1 end.
Proof.
  intros a b. unfold three. destruct (a <? b) eqn:E1; [apply Z.ltb_lt in E1|apply Z.ltb_ge in E1].
  - rewrite (proj2 (Z.compare_lt_iff a b) E1). reflexivity.
  - destruct (b <? a) eqn:E2; [apply Z.ltb_lt in E2|apply Z.ltb_ge in E2].
    + rewrite (proj2 (Z.compare_gt_iff a b) E2). reflexivity.
    + assert (a = b) by lia. subst. rewrite Z.compare_refl. reflexivity.
Qed.

Ltac ranges :=
  repeat match goal with
  | H : (_ && _) = true |- _ => apply andb_true_iff in H; destruct H
  | H : (_ <=? _) = true |- _ => apply Z.leb_le in H
  | H : (_ <? _) = true |- _ => apply Z.ltb_lt in H
  | H : (_ <? _)%N = true |- _ => apply N.ltb_lt in H
  end.

(* CompareNumbers computes the three-way comparison of the denoted integers, for all 16 pairs *)
Lemma compare_numbers_spec : forall a b za zb,
  int_node a = true -> int_node b = true -> num_val a = Some za -> num_val b = Some zb ->
  compare_numbers a b = Some (three za zb).
Proof.
  intros a b za zb Ha Hb Va Vb.
  destruct a; try discriminate; destruct b; try discriminate;
    cbn [int_node num_val] in *; inversion Va; inversion Vb; subst; ranges;
    cbn [compare_numbers]; unfold cast_u32, cast_u64, cast_i64;
    repeat match goal with
    | |- context[(?y <? 0)] => let E := fresh in destruct (y <? 0) eqn:E; [apply Z.ltb_lt in E|apply Z.ltb_ge in E]
    end;
    try (rewrite ?Z.mod_small by lia; f_equal; try (f_equal; lia); fail);
    f_equal; unfold three;
    repeat match goal with
    | |- context[(?x <? ?y)] => let E := fresh in destruct (x <? y) eqn:E; [apply Z.ltb_lt in E|apply Z.ltb_ge in E]
    end; try reflexivity; try lia.
Qed.

Lemma num_eq_cpp_spec : forall a b za zb,
  int_node a = true -> int_node b = true -> num_val a = Some za -> num_val b = Some zb ->
  (num_eq_cpp a b = true <-> za = zb) /\ (num_lt_cpp a b = true <-> za < zb) /\
  num_eq_cpp a b = jv_eqb a b.
Proof.
  intros a b za zb Ha Hb Va Vb. unfold num_eq_cpp, num_lt_cpp.
  rewrite (compare_numbers_spec b a zb za Hb Ha Vb Va). rewrite three_spec.
  assert (Hj : jv_eqb a b = Z.eqb za zb).
  { destruct a; try discriminate; destruct b; try discriminate; cbn [num_val] in *;
      inversion Va; inversion Vb; subst; reflexivity. }
  rewrite Hj.
  destruct (Z.compare_spec zb za) as [E|E|E].
  - subst. rewrite Z.eqb_refl. cbn. repeat split; auto; try lia; discriminate.
  - assert ((za =? zb) = false) as H by (apply Z.eqb_neq; lia). rewrite H.
    cbn. repeat split; auto; try lia; discriminate.
  - assert ((za =? zb) = false) as H by (apply Z.eqb_neq; lia). rewrite H.
    cbn. repeat split; auto; try lia; discriminate.
Qed.
