(* C19: property theorems (statements in full; proofs in Proofs*.v). *)
From Coq Require Import List NArith ZArith Bool.
From C19 Require Import Gen Model Spec ProofsPtr ProofsPatch ProofsPatchExact ProofsParse ProofsNum ProofsEq RTNum ProofsDouble RTStr RTDefs RTMain RTFinal RTDouble ProofsHandler ProofsHandlerObj ProofsLexEvents ProofsWritten ProofsPatchDoc ProofsKinds.
Import ListNotations.
Local Open Scope N_scope.

(* Parsing ANY byte list terminates without crashing: JsonParser::Parse (model parse_text, run with
   the recursion budget parse_fuel = 2*length+2 and the nesting limit Gen.MAX_DEPTH) returns an
   error or a value; it never exhausts the budget (PFuel) and never enters a ParseArray/ParseObject
   frame with more than MAX_DEPTH containers open (PDeep, the stack-depth hazard). *)
Theorem c19_total :
  forall text : list N,
    ((exists e, parse_text text = PErr e) \/ (exists v, parse_text text = POk v [])) /\
    parse_text text <> PFuel /\ parse_text text <> PDeep.
Proof. intro text. split; [exact (parse_text_total put_std text) | exact (parse_text_no_hazard put_std text)]. Qed.
Print Assumptions c19_total.

(* The budget/depth invariant behind it, for the three mutually recursive lexer functions at any
   nesting level d <= MAX_DEPTH: no hazard, and success consumes input. *)
Theorem c19_total_inner :
  forall (fuel : nat) (d : N) (l : list N) (acc : list jv) (accm : list (list N * jv)),
    d <= MAX_DEPTH -> (2 * length l + 2 <= fuel)%nat ->
    good (parse_value fuel d l) (length l) /\
    good (parse_elems fuel d l acc) (length l) /\
    good (parse_members fuel d l accm) (length l).
Proof.
  intros fuel d l acc accm Hd Hf. destruct (parse_total_aux put_std fuel) as [Hv [He Hm]].
  repeat split; try apply Hv; try apply He; try apply Hm; auto; Lia.lia.
Qed.
Print Assumptions c19_total_inner.

(* Equality and ordering of integer nodes are equality and ordering of the integers they denote,
   for every one of the 16 pairs of node kinds (JsonUInt, JsonInt, JsonUInt64, JsonInt64) and every
   value in the range of its C++ type: Model.compare_numbers follows Json.cpp's sixteen
   CompareNumbers specialisations with their static_casts as machine conversions; operator==
   (num_eq_cpp, and the value-based jv_eqb used by the patch "test" operation and by tree equality)
   holds iff the two integers are the same, operator< iff the first is smaller. *)
Theorem c19_int_equality :
  forall (a b : jv) (za zb : Z),
    int_node a = true -> int_node b = true -> num_val a = Some za -> num_val b = Some zb ->
    compare_numbers a b = Some (three za zb) /\
    (num_eq_cpp a b = true <-> za = zb) /\
    (num_lt_cpp a b = true <-> (za < zb)%Z) /\
    (jv_eqb a b = true <-> za = zb).
Proof.
  intros a b za zb Ha Hb Va Vb.
  destruct (num_eq_cpp_spec a b za zb Ha Hb Va Vb) as [H1 [H2 H3]].
  split; [exact (compare_numbers_spec a b za zb Ha Hb Va Vb)|].
  split; [exact H1|]. split; [exact H2|]. rewrite <- H3. exact H1.
Qed.
Print Assumptions c19_int_equality.
Example c19_uint64_max_is_not_minus_one :
  jv_eqb (JUInt64 18446744073709551615) (JInt64 (-1)) = false /\
  num_eq_cpp (JInt (-1)) (JUInt64 18446744073709551615) = false /\
  num_lt_cpp (JInt64 (-9223372036854775808)) (JUInt64 9223372036854775808) = true.
Proof. vm_compute. repeat split. Qed.

(* Value-tree equality (JsonValue::operator==, used by tree comparison and by the patch "test"
   operation) is structural: two arrays are equal iff they have the same length and equal elements
   position by position; two objects are equal iff they have the same member NAMES (in std::map order)
   and equal values name by name; an array, an object and a leaf are never equal to one another.
   With c19_int_equality for the integer leaves this fixes equality completely (doubles excepted). *)
Theorem c19_tree_equality :
  (forall a b : list jv,
     jv_eqb (JArr a) (JArr b) = true <-> Forall2 (fun x y => jv_eqb x y = true) a b) /\
  (forall a b : list (list N * jv),
     jv_eqb (JObj a) (JObj b) = true <->
     Forall2 (fun p q => fst p = fst q /\ jv_eqb (snd p) (snd q) = true) a b) /\
  (forall a b : list (list N * jv), jv_eqb (JObj a) (JObj b) = true -> map fst a = map fst b) /\
  (forall (a : list jv) (m : list (list N * jv)) (v : jv),
     jv_eqb (JArr a) (JObj m) = false /\ jv_eqb (JObj m) (JArr a) = false /\
     (is_container v = false -> jv_eqb (JArr a) v = false /\ jv_eqb v (JArr a) = false /\
                                 jv_eqb (JObj m) v = false /\ jv_eqb v (JObj m) = false)).
Proof.
  split; [exact jv_eqb_arr|]. split; [exact jv_eqb_obj|]. split; [exact jv_eqb_obj_keys|exact jv_eqb_kinds].
Qed.
Print Assumptions c19_tree_equality.
Example c19_member_names_matter :
  jv_eqb (JObj [([109;97;120], JUInt 10); ([109;105;110], JUInt 1)])
         (JObj [([99;101;105;108;105;110;103], JUInt 10); ([102;108;111;111;114], JUInt 1)]) = false /\
  jv_eqb (JArr [JUInt 1; JUInt 2]) (JArr [JUInt 2; JUInt 1]) = false /\
  jv_eqb (JArr [JArr [JUInt 1]; JUInt 2]) (JArr [JUInt 1; JArr [JUInt 2]]) = false.
Proof. vm_compute. repeat split. Qed.

(* The machine the real JsonParser implements (Model.h_step: m_root, m_key, the container stacks, with
   containers linked into their parent when opened - compared with the C++ on arbitrary event
   sequences by the "ev" cases) agrees with the direct tree construction used by parse_text: fed with
   the handler calls of a value in the order JsonLexer issues them (ProofsHandler.events_of: open,
   members/elements left to right with ObjectKey before each member value, close), starting from a
   fresh parser after Begin(), it ends with no error, empty stacks, empty m_key and m_root = that
   value - for EVERY value whose objects have strictly increasing keys (std::map order; every tree
   inside the c19_roundtrip guard, every document whose members are written in key order).
   Documents with unsorted or duplicate member names are not covered by this theorem (there the
   machine's replace-on-insert is modelled by obj_put in parse_text, tied by correspondence only). *)
Theorem c19_handler_agrees :
  forall v : jv,
    sorted_tree v = true ->
    h_run (h_step h_init EBegin) (events_of v) =
      {| h_err := 0; h_root := Some v; h_key := []; h_stack := [] |} /\
    h_tree (h_run (h_step h_init EBegin) (events_of v)) = Some v.
Proof. exact handler_builds_o. Qed.
Print Assumptions c19_handler_agrees.

(* ... and in any context a value can arrive in (inside an open array, as a member value after
   ObjectKey with a key greater than the members already there, or as the root): the events of v have
   the same effect on the machine as the single call AddValue(v). *)
Theorem c19_handler_agrees_in_context :
  forall (v : jv) (s : hstate),
    sorted_tree v = true -> ctx s -> h_run s (events_of v) = h_step s (EValue v).
Proof. intros v s H1 H2. exact (events_build_o v H1 s H2). Qed.
Print Assumptions c19_handler_agrees_in_context.
Example c19_handler_example :
  let v := JObj [([97], JArr [JUInt 1; JObj []]); ([98], JObj [([120], JNull)])] in
  sorted_tree v = true /\ h_tree (h_run (h_step h_init EBegin) (events_of v)) = Some v.
Proof. vm_compute. split; reflexivity. Qed.

(* The lexer model emitting the handler calls itself (ProofsLexEvents.lex_events: the same
   recursive descent as parse_value_g, returning the JsonParserInterface calls between Begin() and
   End() instead of a tree).  For EVERY text: if the text parses, the calls the lexer makes are
   exactly events_of the document-order tree (members in the order and multiplicity of the text). *)
Theorem c19_lexer_events :
  forall (text : list N) (v : jv) (rest : list N),
    parse_text_g put_raw text = POk v rest -> lex_events text = POk (events_of v) [].
Proof. exact lex_events_raw. Qed.
Print Assumptions c19_lexer_events.

(* Hence c19_handler_agrees is about the event sequence the lexer really produces: for a document
   whose members are already in std::map order without duplicates (its document-order tree is the tree
   parse_text gives), the lexer's calls are the events of the parsed value, and the handler machine
   fed with them builds that value. *)
Theorem c19_lexer_events_sorted :
  forall (text : list N) (v : jv) (r1 r2 : list N),
    parse_text text = POk v r1 -> parse_text_g put_raw text = POk v r2 ->
    lex_events text = POk (events_of v) [] /\
    (sorted_tree v = true -> h_tree (h_run (h_step h_init EBegin) (events_of v)) = Some v).
Proof. exact lex_events_sorted. Qed.
Print Assumptions c19_lexer_events_sorted.

(* Every text JsonWriter produces for a tree inside the round-trip guard is such a document. *)
Theorem c19_lexer_events_written :
  forall v : jv, wfb (N.to_nat MAX_DEPTH) v = true ->
    parse_text (write cx_parsed 0 v) = POk (canon v) [] /\
    lex_events (write cx_parsed 0 v) = POk (events_of (canon v)) [].
Proof. exact lex_events_written. Qed.
Print Assumptions c19_lexer_events_written.
Example c19_lexer_events_example :
  (* {"a": [1, {}], "b": null} *)
  lex_events [123;34;97;34;58;32;91;49;44;32;123;125;93;44;32;34;98;34;58;32;110;117;108;108;125] =
  POk [EOpenObj; EKey [97]; EOpenArr; EValue (JUInt 1); EOpenObj; ECloseObj; ECloseArr;
       EKey [98]; EValue JNull; ECloseObj] [].
Proof. vm_compute. reflexivity. Qed.

(* Unconditionally, for every writer output: for every tree v inside the c19_roundtrip guard, the
   handler machine of JsonParser, started with Begin() and fed with the calls the lexer makes for the
   text JsonWriter writes for v, ends with no error, empty stacks, empty m_key and m_root = canon v
   (the canonical form has strictly increasing member names: ProofsWritten.sorted_canon). *)
Theorem c19_written_handler_builds :
  forall v : jv, wfb (N.to_nat MAX_DEPTH) v = true ->
    exists es, lex_events (write cx_parsed 0 v) = POk es [] /\
               h_run (h_step h_init EBegin) es =
               {| h_err := 0; h_root := Some (canon v); h_key := []; h_stack := [] |}.
Proof. exact written_handler_builds. Qed.
Print Assumptions c19_written_handler_builds.

(* Doubles in equality.  The MODEL compares two JsonDouble leaves by their stored representation
   and never equates a double with a non-double (the C++ also returns false for double vs integer,
   Equals(const JsonDouble&) defaults to false).  The C++ compares the values AsDouble computed:
   equal representations give equal doubles EXCEPT when the value is NaN (0 x 10^e with e >= 309,
   e.g. "0e400" == "0e400" is false in the library), and different representations can denote the
   same double ("1.0" / "1.00").  So jv_eqb on doubles is outside the faithful part of the model:
   c19_tree_equality / c19_int_equality are about double-free leaves, generated comparisons use
   identical texts with finite values or clearly different values only. *)
Theorem c19_double_equality_model :
  (forall n1 f1 l1 r1 e1 n2 f2 l2 r2 e2,
     jv_eqb (JDbl n1 f1 l1 r1 e1) (JDbl n2 f2 l2 r2 e2) = true <->
     n1 = n2 /\ f1 = f2 /\ l1 = l2 /\ r1 = r2 /\ e1 = e2) /\
  (forall n f l r e v, match v with JDbl _ _ _ _ _ => False | _ => True end ->
     jv_eqb (JDbl n f l r e) v = false /\ jv_eqb v (JDbl n f l r e) = false).
Proof. split; [exact jv_eqb_dbl|exact jv_eqb_dbl_other]. Qed.
Print Assumptions c19_double_equality_model.

(* The message texts and JSON Patch keywords the model and the correspondence use are REGENERATED on
   every run from the repository sources (Gen.v: SetError literals of JsonLexer.cpp in source order,
   m_error literals of JsonParser.cpp, the k... constants and SetError literals of
   JsonPatchParser.cpp); this pins them to the texts the check was written against, so a changed
   message or keyword in the code breaks a named obligation instead of passing unnoticed. *)
Theorem c19_text_consts :
  lexer_error_text 1 = [78; 111; 32; 74; 83; 79; 78; 32; 100; 97; 116; 97; 32; 102; 111; 117; 110; 100]   (* No JSON data found *) /\
  lexer_error_text 2 = [85; 110; 116; 101; 114; 109; 105; 110; 97; 116; 101; 100; 32; 115; 116; 114; 105; 110; 103]   (* Unterminated string *) /\
  lexer_error_text 3 = [73; 110; 118; 97; 108; 105; 100; 32; 115; 116; 114; 105; 110; 103; 32; 101; 115; 99; 97; 112; 101; 32; 115; 101; 113; 117; 101; 110; 99; 101]   (* Invalid string escape sequence *) /\
  lexer_error_text 4 = [85; 110; 116; 101; 114; 109; 105; 110; 97; 116; 101; 100; 32; 97; 114; 114; 97; 121]   (* Unterminated array *) /\
  lexer_error_text 5 = [69; 120; 112; 101; 99; 116; 101; 100; 32; 101; 105; 116; 104; 101; 114; 32; 44; 32; 111; 114; 32; 93; 32; 97; 102; 116; 101; 114; 32; 97; 110; 32; 97; 114; 114; 97; 121; 32; 101; 108; 101; 109; 101; 110; 116]   (* Expected either , or ] after an array element *) /\
  lexer_error_text 6 = [85; 110; 116; 101; 114; 109; 105; 110; 97; 116; 101; 100; 32; 111; 98; 106; 101; 99; 116]   (* Unterminated object *) /\
  lexer_error_text 7 = [69; 120; 112; 101; 99; 116; 101; 100; 32; 107; 101; 121; 32; 102; 111; 114; 32; 111; 98; 106; 101; 99; 116]   (* Expected key for object *) /\
  lexer_error_text 8 = [77; 105; 115; 115; 105; 110; 103; 32; 58; 32; 97; 102; 116; 101; 114; 32; 107; 101; 121]   (* Missing : after key *) /\
  lexer_error_text 9 = [73; 110; 99; 111; 114; 114; 101; 99; 116; 32; 99; 104; 97; 114; 97; 99; 116; 101; 114; 32; 97; 102; 116; 101; 114; 32; 107; 101; 121; 44; 32; 115; 104; 111; 117; 108; 100; 32; 98; 101; 32; 58]   (* Incorrect character after key, should be : *) /\
  lexer_error_text 10 = [69; 120; 112; 101; 99; 116; 101; 100; 32; 101; 105; 116; 104; 101; 114; 32; 44; 32; 111; 114; 32; 125; 32; 97; 102; 116; 101; 114; 32; 97; 110; 32; 111; 98; 106; 101; 99; 116; 32; 118; 97; 108; 117; 101]   (* Expected either , or } after an object value *) /\
  lexer_error_text 11 = [73; 110; 118; 97; 108; 105; 100; 32; 74; 83; 79; 78; 32; 118; 97; 108; 117; 101]   (* Invalid JSON value *) /\
  lexer_error_text 12 = [77; 97; 120; 105; 109; 117; 109; 32; 110; 101; 115; 116; 105; 110; 103; 32; 100; 101; 112; 116; 104; 32; 101; 120; 99; 101; 101; 100; 101; 100]   (* Maximum nesting depth exceeded *) /\
  lexer_error_text 0 = [] /\
  patch_error_text 1 = [65; 32; 74; 83; 79; 78; 32; 80; 97; 116; 99; 104; 32; 100; 111; 99; 117; 109; 101; 110; 116; 32; 109; 117; 115; 116; 32; 98; 101; 32; 97; 110; 32; 97; 114; 114; 97; 121]   (* A JSON Patch document must be an array *) /\
  patch_error_text 2 = [69; 108; 101; 109; 101; 110; 116; 115; 32; 119; 105; 116; 104; 105; 110; 32; 97; 32; 74; 83; 79; 78; 32; 80; 97; 116; 99; 104; 32; 97; 114; 114; 97; 121; 32; 109; 117; 115; 116; 32; 98; 101; 32; 111; 98; 106; 101; 99; 116; 115]   (* Elements within a JSON Patch array must be objects *) /\
  patch_error_text 3 = [77; 105; 115; 115; 105; 110; 103; 32; 112; 97; 116; 104; 32; 115; 112; 101; 99; 105; 102; 105; 101; 114]   (* Missing path specifier *) /\
  patch_error_text 4 = [77; 105; 115; 115; 105; 110; 103; 32; 111; 114; 32; 105; 110; 118; 97; 108; 105; 100; 32; 118; 97; 108; 117; 101]   (* Missing or invalid value *) /\
  patch_error_text 5 = [77; 105; 115; 115; 105; 110; 103; 32; 102; 114; 111; 109; 32; 115; 112; 101; 99; 105; 102; 105; 101; 114]   (* Missing from specifier *) /\
  patch_error_text 6 = [73; 110; 118; 97; 108; 105; 100; 32; 111; 114; 32; 109; 105; 115; 115; 105; 110; 103; 32; 39; 111; 112; 39]   (* Invalid or missing 'op' *) /\
  handler_error_text 1 = [73; 110; 116; 101; 114; 110; 97; 108; 32; 101; 114; 114; 111; 114]   (* Internal error *) /\
  K_OP = [111; 112]   (* "op" *) /\
  K_PATH = [112; 97; 116; 104]   (* "path" *) /\
  K_FROM = [102; 114; 111; 109]   (* "from" *) /\
  K_VALUE = [118; 97; 108; 117; 101]   (* "value" *) /\
  S_ADD = [97; 100; 100]   (* "add" *) /\
  S_REMOVE = [114; 101; 109; 111; 118; 101]   (* "remove" *) /\
  S_REPLACE = [114; 101; 112; 108; 97; 99; 101]   (* "replace" *) /\
  S_MOVE = [109; 111; 118; 101]   (* "move" *) /\
  S_COPY = [99; 111; 112; 121]   (* "copy" *) /\
  S_TEST = [116; 101; 115; 116]   (* "test" *).
Proof. vm_compute. repeat split. Qed.
Print Assumptions c19_text_consts.

(* The parser model is a function of the text alone: parsing a text after any history of other
   texts (valid, failing at top level, failing inside open containers) gives what parsing it
   alone gives.  Trivial in the model; that the long-lived C++ JsonParser object behaves the same
   (Begin() resets the handler stacks) is validated by the correspondence run's "seq" cases. *)
Theorem c19_parse_stateless :
  forall (history : list (list N)) (text : list N),
    parse_seq (history ++ [text]) = parse_seq history ++ [parse_text text].
Proof. intros history text. unfold parse_seq. rewrite map_app. reflexivity. Qed.
Print Assumptions c19_parse_stateless.

(* Totality for numbers, doubles included.  A text that starts with '-' or a digit is handled by
   ParseNumber alone: (1) it costs ONE unit of the recursion budget whatever digits follow (the
   three ExtractDigits loops are structural recursion over the characters, so the work is bounded
   by the length of the text and is independent of the VALUE of the mantissa or exponent);
   (2) it never hits a hazard and, when it succeeds, has consumed at least one character;
   (3) a JsonDouble leaf it produces stores DoubleRepresentation exactly as the code does, after
   the uint64 wrap of full/fractional/exponent digits and the int64 -> int32 truncation of the
   exponent: full, fractional < 2^64, leading_fractional_zeros < 2^32, -2^31 <= exponent < 2^31.
   JsonDouble::AsDouble (floating point, pow) is NOT modelled: that it does no work proportional
   to the exponent is checked by the correspondence run's 4 s per-case watchdog only. *)
Theorem c19_total_double :
  forall (f : nat) (d c : N) (r : list N),
    c = 45 \/ is_digit c = true ->
    parse_value (S f) d (c :: r) = parse_number (c :: r) /\
    good (parse_number (c :: r)) (length (c :: r)) /\
    (forall v rest, parse_number (c :: r) = POk v rest ->
       match v with
       | JDbl _ full lz frac ex =>
           full < 18446744073709551616 /\ lz < 4294967296 /\ frac < 18446744073709551616 /\
           (-2147483648 <= ex < 2147483648)%Z
       | _ => True
       end).
Proof. exact (total_double put_std). Qed.
Print Assumptions c19_total_double.
Example c19_double_huge_exponent :
  parse_text [50; 53; 101; 49; 50; 51; 52; 53; 54; 55; 56; 57; 48; 49; 50; 51; 52; 53] =
  POk (JDbl false 25 0 0 (-2045911175)%Z) [].     (* 25e123456789012345: exponent mod 2^32 as int32 *)
Proof. vm_compute. reflexivity. Qed.

(* The node kind ParseNumber gives to an integer text (the decimal text of z, in any context a value
   can be followed by), exactly, at every 32/64-bit boundary:
     0 .. 2^32-1          JsonUInt   (a non-negative integer is never a JsonInt)
     2^32 .. 2^64-1       JsonUInt64
     -2^31 .. -1          JsonInt
     -2^63 .. -2^31-1     JsonInt64  (a negative integer is never unsigned)
   Outside [-2^63, 2^64) the lexer's 64-bit arithmetic wraps (Examples below). *)
Theorem c19_integer_kinds :
  forall (z : Z) (rest : list N), follow rest ->
    (0 <= z <= 4294967295 -> parse_number (dec_Z z ++ rest) = POk (JUInt (Z.to_N z)) rest)%Z /\
    (4294967296 <= z < 18446744073709551616 ->
       parse_number (dec_Z z ++ rest) = POk (JUInt64 (Z.to_N z)) rest)%Z /\
    (-2147483648 <= z < 0 -> parse_number (dec_Z z ++ rest) = POk (JInt z) rest)%Z /\
    (-9223372036854775808 <= z < -2147483648 -> parse_number (dec_Z z ++ rest) = POk (JInt64 z) rest)%Z.
Proof. exact integer_kinds. Qed.
Print Assumptions c19_integer_kinds.
Example c19_integer_kind_boundaries :
  parse_text (dec_Z 2147483647) = POk (JUInt 2147483647) [] /\
  parse_text (dec_Z 4294967295) = POk (JUInt 4294967295) [] /\
  parse_text (dec_Z 4294967296) = POk (JUInt64 4294967296) [] /\
  parse_text (dec_Z 18446744073709551615) = POk (JUInt64 18446744073709551615) [] /\
  parse_text (dec_Z (-2147483648)) = POk (JInt (-2147483648)) [] /\
  parse_text (dec_Z (-2147483649)) = POk (JInt64 (-2147483649)) [] /\
  parse_text (dec_Z (-4294967295)) = POk (JInt64 (-4294967295)) [] /\
  parse_text (dec_Z (-9223372036854775808)) = POk (JInt64 (-9223372036854775808)) [] /\
  parse_text [45; 48] = POk (JInt 0) [] /\                                   (* "-0" *)
  parse_text (dec_Z 18446744073709551616) = POk (JUInt 0) [] /\             (* 2^64 wraps to 0 *)
  parse_text (dec_Z (-9223372036854775809)) = POk (JInt64 9223372036854775807) [].   (* wraps *)
Proof. vm_compute. repeat split. Qed.

(* Numbers at text level, doubles included, without any floating point: whatever ParseNumber makes
   of ANY text it accepts - an integer node, or a JsonDouble keeping sign / integer part / leading
   fractional zeros / fraction / int32 exponent exactly as DoubleRepresentation stores them - is
   written by JsonWriter (JsonDouble::ToString = AsString(rep)) to a text that parses again, in any
   context a value can be followed by, to a value whose text is the same:
   write o parse o write = write.  The single excluded corner (RTDouble.value_corner) is a double
   "-N" with N > 2^63 and neither fraction nor exponent, e.g. from "-18446744073709551615.0": its
   text "-18446744073709551615" is read by the integer path, whose int64 negation wraps
   (c19_number_text_corner_refuted). *)
Theorem c19_number_text_roundtrip :
  forall (t : list N) (v : jv) (r0 rest : list N),
    parse_number t = POk v r0 -> follow rest -> value_corner v = false ->
    exists v', parse_number (write cx_parsed 0 v ++ rest) = POk v' rest /\
               write cx_parsed 0 v' = write cx_parsed 0 v.
Proof. exact number_text_rt. Qed.
Print Assumptions c19_number_text_roundtrip.

(* The same stated on the representation: every DoubleRepresentation in the ranges of its fields. *)
Theorem c19_double_text_roundtrip :
  forall (neg : bool) (full lz frac : N) (ex : Z) (rest : list N),
    full < 18446744073709551616 -> lz < 4294967296 -> frac < 18446744073709551616 ->
    (-2147483648 <= ex < 2147483648)%Z -> follow rest ->
    neg_wrap_corner neg full frac ex = false ->
    exists v', parse_number (dbl_string neg full lz frac ex ++ rest) = POk v' rest /\
               write cx_parsed 0 v' = dbl_string neg full lz frac ex.
Proof. exact dbl_rt. Qed.
Print Assumptions c19_double_text_roundtrip.

Theorem c19_number_text_corner_refuted :
  exists v v', parse_number [45;49;56;52;52;54;55;52;52;48;55;51;55;48;57;53;53;49;54;49;53;46;48] = POk v [] /\
               value_corner v = true /\
               parse_number (write cx_parsed 0 v) = POk v' [] /\
               write cx_parsed 0 v' <> write cx_parsed 0 v.
Proof. exact neg_wrap_refuted. Qed.
Print Assumptions c19_number_text_corner_refuted.

(* Write-then-parse is the identity.  For EVERY value tree v accepted by the guard RTDefs.wfb
   (printable-ASCII strings and keys (32..126); JUInt < 2^32, JInt in [-2^31, 2^31), JUInt64 < 2^64,
   JInt64 in [-2^63, 2^63); booleans, null; arrays; objects whose keys are strictly increasing in
   std::string order (unique, sorted, as std::map keeps them); no doubles; nesting depth <= MAX_DEPTH),
   written by JsonWriter with every JsonArray's IsComplexType() flag in its canonical state
   (flag = "has an array/object element", Model.cx_parsed; the other states are the known finding
   C19-array-complex-flag, see c19_roundtrip_flag_refuted):
     - JsonParser::Parse of the text succeeds and gives RTDefs.canon v, which is v with every integer
       leaf re-classified by its value (the same tree otherwise),
     - that tree is equal to v under JsonValue::operator== (numeric leaves compared by value),
     - and its own serialisation is the same text. *)
Theorem c19_roundtrip :
  forall v : jv,
    wfb (N.to_nat MAX_DEPTH) v = true ->
    parse_text (write cx_parsed 0 v) = POk (canon v) [] /\
    jv_eqb v (canon v) = true /\
    write cx_parsed 0 (canon v) = write cx_parsed 0 v.
Proof. exact (roundtrip put_std put_std_ok). Qed.
Print Assumptions c19_roundtrip.

(* The same inside any context: at any nesting level d and indentation, followed by anything the
   writer can put after a value, with any sufficient recursion budget. *)
Theorem c19_roundtrip_inner :
  forall (v : jv) (k : nat) (d : N) (ind : nat) (rest : list N) (fuel : nat),
    wfb k v = true -> N.of_nat k + d <= MAX_DEPTH -> follow rest ->
    (2 * length (write cx_parsed ind v ++ rest) + 1 <= fuel)%nat ->
    parse_value fuel d (write cx_parsed ind v ++ rest) = POk (canon v) rest.
Proof. intros v k d ind rest fuel H1 H2 H3 H4. exact (rt_all put_std put_std_ok v k d ind rest fuel H1 H2 H3 H4). Qed.
Print Assumptions c19_roundtrip_inner.

(* With a non-canonical IsComplexType() flag (here: an array appended through Append(JsonValue* ),
   Model.cx_api) the last clause fails: known finding C19-array-complex-flag. *)
Theorem c19_roundtrip_flag_refuted :
  exists v v', wfb (N.to_nat MAX_DEPTH) v = true /\
               parse_text (write cx_api 0 v) = POk v' [] /\ jv_eqb v v' = true /\
               write cx_parsed 0 v' <> write cx_api 0 v.
Proof.
  exists (JArr [JArr [JUInt 1]]), (JArr [JArr [JUInt 1]]).
  split; [vm_compute; reflexivity|]. split; [vm_compute; reflexivity|].
  split; [vm_compute; reflexivity|]. vm_compute. discriminate.
Qed.
Print Assumptions c19_roundtrip_flag_refuted.

(* The guard is satisfiable by trees that exercise every clause: all four integer classes at their
   boundaries, strings with every escaped character, nested containers, sorted keys with '/' and '~'. *)
Example c19_roundtrip_guard_sat :
  let v := JObj [([47; 126], JArr [JUInt 4294967295; JInt (-2147483648); JUInt64 18446744073709551615;
                                  JInt64 (-9223372036854775808); JInt 7; JInt64 5000000000]);
                 ([97], JStr [34; 92; 47; 32; 126]);
                 ([97; 98], JArr [JObj []; JArr []; JBool true; JNull])] in
  wfb (N.to_nat MAX_DEPTH) v = true /\
  canon v = JObj [([47; 126], JArr [JUInt 4294967295; JInt (-2147483648); JUInt64 18446744073709551615;
                                    JInt64 (-9223372036854775808); JUInt 7; JUInt64 5000000000]);
                  ([97], JStr [34; 92; 47; 32; 126]);
                  ([97; 98], JArr [JObj []; JArr []; JBool true; JNull])].
Proof. vm_compute. split; reflexivity. Qed.

(* ---- JsonPatchParser: from the TEXT of a JSON Patch document to the operations applied ---- *)
(* A well-formed patch document yields exactly its operation list: for every list of operations
   (ProofsPatchDoc.dop: add/remove/replace/move/copy/test with printable path strings - valid or
   not - and values inside the round-trip guard, nesting <= MAX_DEPTH-2), JsonPatchParser::Parse of
   the document as JsonWriter writes it succeeds with the list [op_of]: same order, pointers parsed
   from the path strings, values as the parser classifies them. *)
Theorem c19_patchdoc_wellformed :
  forall ops : list dop,
    forallb (dop_ok (N.to_nat MAX_DEPTH - 2)) ops = true ->
    patch_parse_text (write cx_parsed 0 (patch_doc ops)) = PPOk (map op_of ops).
Proof. exact patchdoc_wellformed. Qed.
Print Assumptions c19_patchdoc_wellformed.

(* A malformed document is rejected: whenever Parse accepts ANY text, the text is JSON whose
   top-level value is an array, every element is an object that (after its members are processed
   in document order, later duplicates overriding) has a string "path", a recognised "op" and the
   "value"/"from" that op requires, and the accepted list is built from exactly those. *)
Theorem c19_patchdoc_accept_only_wellformed :
  forall (text : list N) (ops : list pop),
    patch_parse_text text = PPOk ops ->
    exists elems rest, parse_text_g put_patch text = POk (JArr elems) rest /\
                       Forall2 elem_wellformed elems ops.
Proof. exact patchdoc_accept_inv. Qed.
Print Assumptions c19_patchdoc_accept_only_wellformed.

(* The operations of a patch document are parsed independently (m_op, m_path, m_from, m_value are
   reset for every element): a document is accepted with the list ops iff every element, taken as a
   one-element document on its own, is accepted with the corresponding single operation - no member
   of one operation object (e.g. a "value") can influence another. *)
Theorem c19_patchdoc_ops_independent :
  forall (elems : list jv) (ops : list pop),
    patch_of_tree (JArr elems) = PPOk ops <->
    Forall2 (fun e o => patch_of_tree (JArr [e]) = PPOk [o]) elems ops.
Proof. exact patchdoc_ops_independent. Qed.
Print Assumptions c19_patchdoc_ops_independent.
Example c19_patchdoc_no_value_leak :
  (* [{"op":"test","path":"/a","value":1}, {"op":"add","path":"/b"}]: the add has no value of its own *)
  patch_of_tree (JArr [JObj [(K_OP, JStr S_TEST); (K_PATH, JStr [47;97]); (K_VALUE, JUInt 1)];
                       JObj [(K_OP, JStr S_ADD); (K_PATH, JStr [47;98])]]) = PPBad 4.
Proof. reflexivity. Qed.

(* Parsing a patch text is total, and applying a patch given as text is atomic: if the text is
   rejected, or any operation fails, the target document is unchanged; if it is accepted the result
   is JsonData::Apply of the parsed list (hence c19_patch_atomic / c19_patch_rfc_partial apply). *)
Theorem c19_patchdoc_atomic :
  forall (text : list N) (d : doc),
    patch_parse_text text <> PPHaz /\
    (fst (patch_apply_text text d) = false -> snd (patch_apply_text text d) = d) /\
    (forall ops, patch_parse_text text = PPOk ops -> patch_apply_text text d = data_apply ops d) /\
    ((forall ops, patch_parse_text text <> PPOk ops) -> patch_apply_text text d = (false, d)).
Proof. intros text d. split; [apply patch_parse_total|apply patch_apply_text_atomic]. Qed.
Print Assumptions c19_patchdoc_atomic.

(* Totality of the lexer for ANY way of storing object members (JsonParser's and JsonPatchParser's). *)
Theorem c19_total_any_handler :
  forall (put : N -> list N -> jv -> list (list N * jv) -> list (list N * jv)) (text : list N),
    ((exists e, parse_text_g put text = PErr e) \/ (exists v, parse_text_g put text = POk v [])) /\
    parse_text_g put text <> PFuel /\ parse_text_g put text <> PDeep.
Proof. intros put text. split; [exact (parse_text_total put text) | exact (parse_text_no_hazard put text)]. Qed.
Print Assumptions c19_total_any_handler.

Example c19_patchdoc_example :
  (* [{"op":"move","from":"/a~1b","path":"/c/-"},{"op":"test","path":"","value":[1,-1]}] in any member order *)
  let ops := [DMove [47;97;126;49;98] [47;99;47;45]; DTest [] (JArr [JInt 1; JInt (-1)])] in
  forallb (dop_ok (N.to_nat MAX_DEPTH - 2)) ops = true /\
  map op_of ops = [PMove (Some [[97;47;98]]) (Some [[99];[45]]); PTest (Some []) (JArr [JUInt 1; JInt (-1)])].
Proof. vm_compute. split; reflexivity. Qed.
Example c19_patchdoc_duplicate_and_order :
  (* {"value":1,"op":"remove","op":"add","path":"/x"}: the later "op" wins, members in any order *)
  elem_op (JObj [(K_VALUE, JUInt 1); (K_OP, JStr S_REMOVE); (K_OP, JStr S_ADD); (K_PATH, JStr [47;120])])
  = inl (PAdd (Some [[120]]) (JUInt 1)).
Proof. reflexivity. Qed.

(* ---- pointer clause: the corner cases as explicit instances ---- *)
Example c19_pointer_corner_cases :
  ptr_parse (ptr_to_string []) = Some [] /\                              (* "" : the whole document *)
  ptr_to_string [[]] = [47] /\ ptr_parse [47] = Some [[]] /\             (* "/" : one empty token *)
  ptr_to_string [[97]; []] = [47;97;47] /\ ptr_parse [47;97;47] = Some [[97]; []] /\  (* "/a/" : trailing empty token *)
  ptr_parse [47;47] = Some [[]; []] /\                                    (* "//" *)
  ptr_to_string [[126]; [47]; [126;49]; [126;48;49]] = [47;126;48;47;126;49;47;126;48;49;47;126;48;48;49] /\
  ptr_parse [47;126;48;47;126;49;47;126;48;49;47;126;48;48;49] = Some [[126]; [47]; [126;49]; [126;48;49]] /\
  ptr_parse [97] = None.                                                   (* no leading '/' *)
Proof. vm_compute. repeat split. Qed.

(* JSON Pointers round-trip through their string form, for EVERY token sequence (tokens are
   arbitrary byte strings, including '~', '/', "~0", "~1", empty tokens). *)
Theorem c19_pointer_roundtrip :
  forall toks : list (list N), ptr_parse (ptr_to_string toks) = Some toks.
Proof. exact ptr_roundtrip. Qed.
Print Assumptions c19_pointer_roundtrip.

(* ... hence two pointers with the same string form have the same tokens. *)
Theorem c19_pointer_string_injective :
  forall a b : list (list N), ptr_to_string a = ptr_to_string b -> a = b.
Proof. exact ptr_to_string_inj. Qed.
Print Assumptions c19_pointer_string_injective.

(* JsonPointer::IsPrefixOf is exactly the proper-prefix relation on token lists. *)
Theorem c19_pointer_prefix :
  forall a b : list (list N),
    is_prefix_of a b = true <-> exists t, t <> [] /\ b = a ++ t.
Proof. exact is_prefix_of_spec. Qed.
Print Assumptions c19_pointer_prefix.

(* Array index tokens are exactly RFC 6901's array-index (no signs, blanks, leading zeros or
   trailing characters), with the library's 32-bit limit. *)
Theorem c19_index_strict : forall t : list N, tok_index t = rfc_index t.
Proof. exact tok_index_rfc. Qed.
Print Assumptions c19_index_strict.

(* Pointer evaluation (JsonValue::LookupElement) is RFC 6901 evaluation. *)
Theorem c19_lookup_rfc : forall (p : list (list N)) (v : jv), lookup v p = rfc_get v p.
Proof. exact lookup_rfc. Qed.
Print Assumptions c19_lookup_rfc.

(* JsonData::Apply is atomic: it fails exactly when some operation of the set fails, and then
   the document is unchanged; when it succeeds the document is the result of all operations. *)
Theorem c19_patch_atomic :
  forall (ops : list pop) (d : doc),
    (fst (data_apply ops d) = false -> snd (data_apply ops d) = d) /\
    (fst (data_apply ops d) = true -> set_apply ops d = Some (snd (data_apply ops d))) /\
    (fst (data_apply ops d) = false <-> set_apply ops d = None).
Proof. exact data_apply_atomic. Qed.
Print Assumptions c19_patch_atomic.

(* RFC 6902 conformance of every patch program whose run does not land on one of the four
   recorded departures (Spec.quirk_kind: remove/replace of '-' in a non-empty array; add at
   index = length; from = path identities / operations on the absent document): success flag
   and resulting document equal those of the independent specification Spec.rfc_patch, which
   also leaves the document unchanged on failure. *)
Theorem c19_patch_rfc_partial :
  forall (ops : list pop) (d : doc),
    quirk_free ops d = true -> data_apply ops d = rfc_patch ops d.
Proof. exact patch_rfc_partial. Qed.
Print Assumptions c19_patch_rfc_partial.

(* The guard is EXACT, step by step: an operation gives the RFC 6902 result if and only if it is not
   one of the recorded departures (Spec.quirk_kind = 0) - so any other departure of the code from the
   RFC would break c19_patch_rfc_partial, and every flagged step really differs.  The only exception
   is the documented coincidence of a copy with from = path that resolves (Spec.copy_coincidence:
   the library succeeds without evaluating; the RFC result can be the same document). *)
Theorem c19_patch_guard_exact :
  forall (o : pop) (d : doc),
    copy_coincidence o d = false ->
    (apply_op o d = rfc_op o d <-> quirk_kind o d = 0).
Proof. exact quirk_exact. Qed.
Print Assumptions c19_patch_guard_exact.

(* ... and that corner as an exact side condition: the identity copy of a location that resolves
   conforms exactly when RFC 6902's add of the value onto its own location is the identity - true for
   a member of an object (the value replaces itself), false for an array element (it is duplicated). *)
Theorem c19_patch_copy_identity_exact :
  forall (from to : list (list N)) (v src : jv),
    toks_eqb from to = true -> rfc_get v from = Some src ->
    (apply_op (PCopy (Some from) (Some to)) (Some v) = rfc_op (PCopy (Some from) (Some to)) (Some v)
     <-> rfc_add v to src = Some v).
Proof. exact copy_identity_exact. Qed.
Print Assumptions c19_patch_copy_identity_exact.
Example c19_copy_identity_object_conforms :
  let v := JObj [([97], JUInt 1); ([98], JArr [JUInt 2])] in rfc_add v [[98]] (JArr [JUInt 2]) = Some v.
Proof. reflexivity. Qed.
Example c19_copy_identity_array_departs :
  let v := JArr [JUInt 1; JUInt 2] in rfc_add v [[49]] (JUInt 2) = Some (JArr [JUInt 1; JUInt 2; JUInt 2]).
Proof. reflexivity. Qed.

(* Without the guard the statement is false (known finding C19-patch-dash-last-element). *)
Theorem c19_patch_rfc_refuted : exists ops d, data_apply ops d <> rfc_patch ops d.
Proof. exact patch_rfc_refuted. Qed.
Print Assumptions c19_patch_rfc_refuted.

(* The guard is satisfiable by state-changing programs: the move inside one array that the
   unfixed code got wrong, and a move out of a key containing '/'. *)
Example c19_move_in_array :
  let d := Some (JArr [JUInt 1; JUInt 2; JUInt 3]) in
  let ops := [PMove (Some [[50]]) (Some [[48]])] in
  quirk_free ops d = true /\ data_apply ops d = (true, Some (JArr [JUInt 3; JUInt 1; JUInt 2])).
Proof. vm_compute. split; reflexivity. Qed.
Example c19_copy_from_slash_key :
  let d := Some (JObj [([97; 47; 98], JUInt 1)]) in
  let ops := [PCopy (ptr_parse [47; 97; 126; 49; 98]) (ptr_parse [47; 99])] in
  quirk_free ops d = true /\
  data_apply ops d = (true, Some (JObj [([97; 47; 98], JUInt 1); ([99], JUInt 1)])).
Proof. vm_compute. split; reflexivity. Qed.
Example c19_pointer_tilde_zero : ptr_parse (ptr_to_string [[126; 48]]) = Some [[126; 48]].
Proof. reflexivity. Qed.
