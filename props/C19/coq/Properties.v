(* C19: property theorems (statements in full; proofs in Proofs*.v). *)
From Coq Require Import List NArith ZArith Bool.
From C19 Require Import Gen Model Spec ProofsPtr ProofsPatch.
Import ListNotations.
Local Open Scope N_scope.

(* JSON Pointers round-trip through their string form, for EVERY token sequence (tokens are
   arbitrary byte strings, including '~', '/', "~0", "~1", empty tokens). *)
Theorem c19_pointer_roundtrip :
  forall toks : list (list N), ptr_parse (ptr_to_string toks) = Some toks.
Proof. exact ptr_roundtrip. Qed.
Print Assumptions c19_pointer_roundtrip.

(* ... hence two pointers with the same string form have the same tokens. *)
Theorem c19_pointer_string_injective :
  forall a b : list (list N), ptr_to_string a = ptr_to_string b -> a = b.
Proof. exact ptr_to_string_inj. Qed.
Print Assumptions c19_pointer_string_injective.

(* JsonPointer::IsPrefixOf is exactly the proper-prefix relation on token lists. *)
Theorem c19_pointer_prefix :
  forall a b : list (list N),
    is_prefix_of a b = true <-> exists t, t <> [] /\ b = a ++ t.
Proof. exact is_prefix_of_spec. Qed.
Print Assumptions c19_pointer_prefix.

(* Array index tokens are exactly RFC 6901's array-index (no signs, blanks, leading zeros or
   trailing characters), with the library's 32-bit limit. *)
Theorem c19_index_strict : forall t : list N, tok_index t = rfc_index t.
Proof. exact tok_index_rfc. Qed.
Print Assumptions c19_index_strict.

(* Pointer evaluation (JsonValue::LookupElement) is RFC 6901 evaluation. *)
Theorem c19_lookup_rfc : forall (p : list (list N)) (v : jv), lookup v p = rfc_get v p.
Proof. exact lookup_rfc. Qed.
Print Assumptions c19_lookup_rfc.

(* JsonData::Apply is atomic: it fails exactly when some operation of the set fails, and then
   the document is unchanged; when it succeeds the document is the result of all operations. *)
Theorem c19_patch_atomic :
  forall (ops : list pop) (d : doc),
    (fst (data_apply ops d) = false -> snd (data_apply ops d) = d) /\
    (fst (data_apply ops d) = true -> set_apply ops d = Some (snd (data_apply ops d))) /\
    (fst (data_apply ops d) = false <-> set_apply ops d = None).
Proof. exact data_apply_atomic. Qed.
Print Assumptions c19_patch_atomic.

(* RFC 6902 conformance of every patch program whose run does not land on one of the four
   recorded departures (Spec.quirk_kind: remove/replace of '-' in a non-empty array; add at
   index = length; from = path identities / operations on the absent document): success flag
   and resulting document equal those of the independent specification Spec.rfc_patch, which
   also leaves the document unchanged on failure. *)
Theorem c19_patch_rfc_partial :
  forall (ops : list pop) (d : doc),
    quirk_free ops d = true -> data_apply ops d = rfc_patch ops d.
Proof. exact patch_rfc_partial. Qed.
Print Assumptions c19_patch_rfc_partial.

(* Without the guard the statement is false (known finding C19-patch-dash-last-element). *)
Theorem c19_patch_rfc_refuted : exists ops d, data_apply ops d <> rfc_patch ops d.
Proof. exact patch_rfc_refuted. Qed.
Print Assumptions c19_patch_rfc_refuted.

(* The guard is satisfiable by state-changing programs: the move inside one array that the
   unfixed code got wrong, and a move out of a key containing '/'. *)
Example c19_move_in_array :
  let d := Some (JArr [JUInt 1; JUInt 2; JUInt 3]) in
  let ops := [PMove (Some [[50]]) (Some [[48]])] in
  quirk_free ops d = true /\ data_apply ops d = (true, Some (JArr [JUInt 3; JUInt 1; JUInt 2])).
Proof. vm_compute. split; reflexivity. Qed.
Example c19_copy_from_slash_key :
  let d := Some (JObj [([97; 47; 98], JUInt 1)]) in
  let ops := [PCopy (ptr_parse [47; 97; 126; 49; 98]) (ptr_parse [47; 99])] in
  quirk_free ops d = true /\
  data_apply ops d = (true, Some (JObj [([97; 47; 98], JUInt 1); ([99], JUInt 1)])).
Proof. vm_compute. split; reflexivity. Qed.
Example c19_pointer_tilde_zero : ptr_parse (ptr_to_string [[126; 48]]) = Some [[126; 48]].
Proof. reflexivity. Qed.
