(* C19 round trip, part 1: decimal output of the writer read back by ParseNumber *)
From Coq Require Import List NArith ZArith Bool Lia.
From OlaBase Require Import Bytes.
From C19 Require Import Gen Model Spec ProofsPatch ProofsParse.
Import ListNotations.
Local Open Scope N_scope.

(* what may follow a value in the writer's output *)
Definition follow (rest : list N) : Prop :=
  match rest with
  | [] => True
  | c :: _ => is_ws c = true \/ c = 44 \/ c = 93 \/ c = 125
  end.

Lemma is_ws_cases : forall c, is_ws c = true -> c = 32 \/ c = 9 \/ c = 13 \/ c = 10.
Proof.
  intros c H. unfold is_ws in H. repeat (apply orb_true_iff in H; destruct H as [H|H]);
    apply N.eqb_eq in H; auto.
Qed.

Lemma follow_facts : forall rest, follow rest ->
  is_digit (hd0 rest) = false /\ (hd0 rest =? 46) = false /\
  (hd0 rest =? 101) = false /\ (hd0 rest =? 69) = false.
Proof.
  intros rest H. destruct rest as [|c r]; [repeat split; reflexivity|].
  simpl in H. cbn [hd0].
  destruct H as [H|[H|[H|H]]]; [apply is_ws_cases in H; destruct H as [H|[H|[H|H]]]| | |];
    subst c; repeat split; reflexivity.
Qed.

Lemma dec_value_app : forall a b acc, dec_value (a ++ b) acc = dec_value b (dec_value a acc).
Proof. induction a as [|c r IH]; intros b acc; simpl; [reflexivity|apply IH]. Qed.

Lemma pos_size_lt : forall p, N.pos p < 2 ^ N.of_nat (Pos.size_nat p).
Proof.
  induction p as [p IH|p IH|]; cbn [Pos.size_nat].
  - rewrite Nat2N.inj_succ, N.pow_succ_r'. lia.
  - rewrite Nat2N.inj_succ, N.pow_succ_r'. lia.
  - reflexivity.
Qed.

Lemma lt_pow10_size : forall n, n < 10 ^ N.of_nat (S (N.size_nat n)).
Proof.
  intro n. rewrite Nat2N.inj_succ, N.pow_succ_r'.
  assert (n < 2 ^ N.of_nat (N.size_nat n) \/ n = 0) as [H|H].
  { destruct n as [|p]; [right; reflexivity|left; apply pos_size_lt]. }
  - assert (2 ^ N.of_nat (N.size_nat n) <= 10 ^ N.of_nat (N.size_nat n)) by (apply N.pow_le_mono_l; lia).
    lia.
  - subst n. simpl. lia.
Qed.

Lemma dec_aux_S : forall f n acc,
  dec_aux (S f) n acc = if n / 10 =? 0 then (48 + n mod 10) :: acc
                        else dec_aux f (n / 10) ((48 + n mod 10) :: acc).
Proof. reflexivity. Qed.

(* dec_aux with enough fuel prints the decimal digits, most significant first, no leading zero *)
Lemma dec_aux_spec : forall f n acc, n < 10 ^ N.of_nat (S f) ->
  exists ds, dec_aux (S f) n acc = ds ++ acc /\ forallb is_digit ds = true /\
             dec_value ds 0 = n /\ ds <> [] /\
             (n <> 0 -> 49 <= hd0 ds) /\ (n = 0 -> ds = [48]).
Proof.
  induction f as [|f IH]; intros n acc Hn.
  - (* one digit *)
    change (10 ^ N.of_nat 1) with 10 in Hn.
    rewrite dec_aux_S. assert (n / 10 = 0) as Hd by (apply N.div_small; lia). rewrite Hd. cbn [N.eqb].
    rewrite N.mod_small by lia.
    exists [48 + n]. repeat split.
    + cbn [forallb is_digit]. rewrite andb_true_r. apply andb_true_iff. split; apply N.leb_le; lia.
    + cbn [dec_value]. lia.
    + discriminate.
    + intro. cbn [hd0]. lia.
    + intro; subst n. reflexivity.
  - rewrite dec_aux_S. destruct (n / 10 =? 0) eqn:Ed.
    + apply N.eqb_eq in Ed. assert (n < 10).
      { destruct (N.lt_ge_cases n 10) as [H|H]; [assumption|].
        assert (1 <= n / 10) by (apply N.div_le_lower_bound; lia). lia. }
      rewrite N.mod_small by lia.
      exists [48 + n]. repeat split.
      * cbn [forallb is_digit]. rewrite andb_true_r. apply andb_true_iff. split; apply N.leb_le; lia.
      * cbn [dec_value]. lia.
      * discriminate.
      * intro. cbn [hd0]. lia.
      * intro; subst n. reflexivity.
    + apply N.eqb_neq in Ed.
      assert (Hq : n / 10 < 10 ^ N.of_nat (S f)).
      { apply N.div_lt_upper_bound; [lia|]. rewrite (Nat2N.inj_succ (S f)), N.pow_succ_r' in Hn. exact Hn. }
      destruct (IH (n / 10) ((48 + n mod 10) :: acc) Hq) as [ds [E [Hdig [Hval [Hne [Hhd _]]]]]].
      exists (ds ++ [48 + n mod 10]). repeat split.
      * rewrite E. rewrite <- app_assoc. reflexivity.
      * rewrite forallb_app, Hdig. cbn [forallb is_digit andb].
        pose proof (N.mod_upper_bound n 10 ltac:(lia)) as Hm.
        rewrite andb_true_r. apply andb_true_iff. split; apply N.leb_le; clear - Hm; lia.
      * rewrite dec_value_app, Hval. cbn [dec_value].
        pose proof (N.div_mod n 10 ltac:(lia)) as Hdm. clear - Hdm. lia.
      * destruct ds; discriminate.
      * intros _. destruct ds as [|c r]; [congruence|]. cbn [app hd0]. specialize (Hhd Ed). exact Hhd.
      * intro; subst n. exfalso. apply Ed. reflexivity.
Qed.

Lemma dec_N_spec : forall n,
  exists ds, dec_N n = ds /\ forallb is_digit ds = true /\ dec_value ds 0 = n /\ ds <> [] /\
             (n <> 0 -> 49 <= hd0 ds) /\ (n = 0 -> ds = [48]).
Proof.
  intro n. unfold dec_N.
  destruct (dec_aux_spec (N.size_nat n) n [] (lt_pow10_size n)) as [ds [E H]].
  exists ds. rewrite E, app_nil_r. split; [reflexivity|exact H].
Qed.

(* ExtractDigits reads back a digit string that does not overflow 64 bits *)
Lemma ext_digits_app : forall ds rest acc st z,
  forallb is_digit ds = true -> is_digit (hd0 rest) = false ->
  dec_value ds acc < 18446744073709551616 ->
  exists z', ext_digits (ds ++ rest) acc st z = (dec_value ds acc, z', rest).
Proof.
  induction ds as [|d ds IH]; intros rest acc st z Hd Hr Hv.
  - cbn [app dec_value]. destruct rest as [|c r]; [eexists; reflexivity|].
    cbn [hd0] in Hr. cbn [ext_digits]. rewrite Hr. eexists; reflexivity.
  - cbn [forallb] in Hd. apply andb_true_iff in Hd. destruct Hd as [Hd1 Hd2].
    cbn [app ext_digits dec_value] in *. rewrite Hd1.
    pose proof (dec_value_ge ds (10 * acc + (d - 48))) as Hge.
    assert (1 <= 10 ^ N.of_nat (length ds)) by (pose proof (N.pow_nonzero 10 (N.of_nat (length ds)) ltac:(lia)); lia).
    assert (Hsm : 10 * acc + (d - 48) < 18446744073709551616) by nia.
    assert (Hu : u64 (u64 (acc * 10) + (d - 48)) = 10 * acc + (d - 48)).
    { unfold u64. rewrite (N.mod_small (acc * 10)) by lia. rewrite N.mod_small by lia. lia. }
    rewrite Hu. apply IH; assumption.
Qed.

Section WithPut.
Variable put : N -> list N -> jv -> list (list N * jv) -> list (list N * jv).
Local Notation parse_value := (parse_value_g put).
Local Notation parse_elems := (parse_elems_g put).
Local Notation parse_members := (parse_members_g put).
Local Notation parse_text_fuel := (parse_text_fuel_g put).
Local Notation parse_text := (parse_text_g put).

(* ParseTrimmedInput dispatches a text starting with a digit or '-' to ParseNumber *)
Lemma parse_value_number : forall f d c r, c = 45 \/ is_digit c = true ->
  parse_value (S f) d (c :: r) = parse_number (c :: r).
Proof.
  intros f d c r Hc. rewrite pv_step.
  assert (c <> 34 /\ c <> 116 /\ c <> 102 /\ c <> 110) as [H1 [H2 [H3 H4]]].
  { destruct Hc as [Hc|Hc]; [subst c; repeat split; discriminate|].
    unfold is_digit in Hc. apply andb_true_iff in Hc. destruct Hc as [Ha Hb].
    apply N.leb_le in Ha, Hb. repeat split; lia. }
  apply N.eqb_neq in H1. rewrite H1.
  cbn [starts_with].
  assert ((116 =? c) = false) as E1 by (apply N.eqb_neq; congruence).
  assert ((102 =? c) = false) as E2 by (apply N.eqb_neq; congruence).
  assert ((110 =? c) = false) as E3 by (apply N.eqb_neq; congruence).
  rewrite E1, E2, E3. cbn [andb].
  assert ((c =? 45) || is_digit c = true) as E4.
  { destruct Hc as [Hc|Hc]; [subst c; reflexivity|rewrite Hc; apply orb_true_r]. }
  rewrite E4. reflexivity.
Qed.

End WithPut.

(* the classification the parser gives to an integer value *)
Definition canon_nat (n : N) : jv := if 4294967295 <? n then JUInt64 n else JUInt n.
Definition canon_int (z : Z) : jv :=
  match z with
  | Zneg _ => if ((z <? -2147483648) || (2147483647 <? z))%Z then JInt64 z else JInt z
  | _ => canon_nat (Z.to_N z)
  end.

Lemma digit_not_45 : forall c, is_digit c = true -> (c =? 45) = false.
Proof.
  intros c H. unfold is_digit in H. apply andb_true_iff in H. destruct H as [Ha Hb].
  apply N.leb_le in Ha. apply N.eqb_neq. lia.
Qed.

Lemma num_rt_N : forall n rest, n < 18446744073709551616 -> follow rest ->
  parse_number (dec_N n ++ rest) = POk (canon_nat n) rest.
Proof.
  intros n rest Hn Hf.
  destruct (follow_facts rest Hf) as [F1 [F2 [F3 F4]]].
  destruct (dec_N_spec n) as [ds [E [Hdig [Hval [Hne [Hhd Hz]]]]]]. rewrite E. clear E.
  destruct ds as [|c ds0]; [congruence|].
  assert (Hc : is_digit c = true) by (cbn [forallb] in Hdig; apply andb_true_iff in Hdig; tauto).
  unfold parse_number. cbn [app hd0]. rewrite (digit_not_45 c Hc). cbn [andb].
  rewrite Hc. cbn [negb].
  destruct (N.eq_dec n 0) as [H0|H0].
  - specialize (Hz H0). inversion Hz; subst c ds0. cbn [N.eqb Pos.eqb app].
    rewrite F2. rewrite F3, F4. cbn [orb]. subst n. reflexivity.
  - specialize (Hhd H0). cbn [hd0] in Hhd.
    assert ((c =? 48) = false) as E48 by (apply N.eqb_neq; lia). rewrite E48.
    destruct (ext_digits_app (c :: ds0) rest 0 true 0 Hdig F1 ltac:(rewrite Hval; exact Hn)) as [z' Ee].
    cbn [app] in Ee. rewrite Ee. rewrite Hval.
    rewrite F2. rewrite F3, F4. cbn [orb]. unfold canon_nat. destruct (4294967295 <? n); reflexivity.
Qed.

Lemma num_rt_neg : forall p rest, N.pos p <= 9223372036854775808 -> follow rest ->
  parse_number (45 :: dec_N (N.pos p) ++ rest) = POk (canon_int (Z.neg p)) rest.
Proof.
  intros p rest Hp Hf.
  destruct (follow_facts rest Hf) as [F1 [F2 [F3 F4]]].
  destruct (dec_N_spec (N.pos p)) as [ds [E [Hdig [Hval [Hne [Hhd Hz]]]]]]. rewrite E. clear E.
  destruct ds as [|c ds0]; [congruence|].
  assert (Hc : is_digit c = true) by (cbn [forallb] in Hdig; apply andb_true_iff in Hdig; tauto).
  unfold parse_number. cbn [app hd0 tl N.eqb Pos.eqb andb].
  rewrite Hc. cbn [negb].
  specialize (Hhd ltac:(discriminate)). cbn [hd0] in Hhd.
  assert ((c =? 48) = false) as E48 by (apply N.eqb_neq; lia). rewrite E48.
  destruct (ext_digits_app (c :: ds0) rest 0 true 0 Hdig F1 ltac:(rewrite Hval; lia)) as [z' Ee].
  cbn [app] in Ee. rewrite Ee. rewrite Hval.
  rewrite F2. rewrite F3, F4. cbn [orb].
  assert (Hv : i64_of_u64 (u64 (18446744073709551616 - N.pos p)) = Z.neg p).
  { unfold u64. rewrite N.mod_small by lia. unfold i64_of_u64.
    assert ((18446744073709551616 - N.pos p <? 9223372036854775808) = false) as El
      by (apply N.ltb_ge; lia).
    rewrite El. lia. }
  rewrite Hv. unfold canon_int.
  destruct ((Z.neg p <? -2147483648)%Z || (2147483647 <? Z.neg p)%Z); reflexivity.
Qed.

Lemma num_rt_Z : forall z rest, (-9223372036854775808 <= z < 18446744073709551616)%Z -> follow rest ->
  parse_number (dec_Z z ++ rest) = POk (canon_int z) rest.
Proof.
  intros z rest Hz Hf. destruct z as [|p|p].
  - apply (num_rt_N 0 rest); [lia|assumption].
  - cbn [dec_Z canon_int]. apply num_rt_N; [|assumption]. lia.
  - cbn [dec_Z app]. apply num_rt_neg; [lia|assumption].
Qed.

(* first character of the decimal form *)
Lemma dec_Z_head : forall z, exists c r, dec_Z z = c :: r /\ (c = 45 \/ is_digit c = true).
Proof.
  intro z. destruct z as [|p|p]; cbn [dec_Z].
  - destruct (dec_N_spec (Z.to_N 0)) as [ds [E [Hdig [_ [Hne _]]]]]. rewrite E.
    destruct ds as [|c r]; [congruence|]. exists c, r. split; [reflexivity|right].
    cbn [forallb] in Hdig. apply andb_true_iff in Hdig. tauto.
  - destruct (dec_N_spec (Z.to_N (Z.pos p))) as [ds [E [Hdig [_ [Hne _]]]]]. rewrite E.
    destruct ds as [|c r]; [congruence|]. exists c, r. split; [reflexivity|right].
    cbn [forallb] in Hdig. apply andb_true_iff in Hdig. tauto.
  - eexists. eexists. split; [reflexivity|left; reflexivity].
Qed.
Lemma dec_N_head : forall n, exists c r, dec_N n = c :: r /\ is_digit c = true.
Proof.
  intro n. destruct (dec_N_spec n) as [ds [E [Hdig [_ [Hne _]]]]]. rewrite E.
  destruct ds as [|c r]; [congruence|]. exists c, r. split; [reflexivity|].
  cbn [forallb] in Hdig. apply andb_true_iff in Hdig. tauto.
Qed.
Lemma dec_N_digits : forall n, forallb is_digit (dec_N n) = true.
Proof. intro n. destruct (dec_N_spec n) as [ds [E [Hdig _]]]. rewrite E. exact Hdig. Qed.
