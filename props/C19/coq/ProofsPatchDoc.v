(* C19: from the text of a JSON Patch document to the operation list (JsonPatchParser) *)
From Coq Require Import List NArith ZArith Bool Lia.
From OlaBase Require Import Bytes.
From C19 Require Import Gen Model Spec ProofsPtr ProofsPatch ProofsParse RTNum RTStr RTDefs RTMain RTFinal.
Import ListNotations.
Local Open Scope N_scope.

(* a patch document as RFC 6902 s.3/4 describes it: an array of objects with "op", "path" and,
   per operation, "value" or "from"; paths are kept as the strings that appear in the document *)
Inductive dop :=
| DAdd (path : list N) (v : jv) | DRemove (path : list N) | DReplace (path : list N) (v : jv)
| DMove (from path : list N) | DCopy (from path : list N) | DTest (path : list N) (v : jv).

(* its serialisable form; members in std::map order: "from" < "op" < "path" < "value" *)
Definition dop_to_jv (o : dop) : jv :=
  match o with
  | DAdd p v => JObj [(K_OP, JStr S_ADD); (K_PATH, JStr p); (K_VALUE, v)]
  | DRemove p => JObj [(K_OP, JStr S_REMOVE); (K_PATH, JStr p)]
  | DReplace p v => JObj [(K_OP, JStr S_REPLACE); (K_PATH, JStr p); (K_VALUE, v)]
  | DMove f p => JObj [(K_FROM, JStr f); (K_OP, JStr S_MOVE); (K_PATH, JStr p)]
  | DCopy f p => JObj [(K_FROM, JStr f); (K_OP, JStr S_COPY); (K_PATH, JStr p)]
  | DTest p v => JObj [(K_OP, JStr S_TEST); (K_PATH, JStr p); (K_VALUE, v)]
  end.
Definition patch_doc (ops : list dop) : jv := JArr (map dop_to_jv ops).

(* the operation the library must build from it (values as the parser classifies them) *)
Definition op_of (o : dop) : pop :=
  match o with
  | DAdd p v => PAdd (ptr_parse p) (canon v)
  | DRemove p => PRemove (ptr_parse p)
  | DReplace p v => PReplace (ptr_parse p) (canon v)
  | DMove f p => PMove (ptr_parse f) (ptr_parse p)
  | DCopy f p => PCopy (ptr_parse f) (ptr_parse p)
  | DTest p v => PTest (ptr_parse p) (canon v)
  end.

(* guard: printable path strings, values inside the round-trip guard with nesting <= k *)
Definition dop_ok (k : nat) (o : dop) : bool :=
  match o with
  | DAdd p v | DReplace p v | DTest p v => forallb printable p && wfb k v
  | DRemove p => forallb printable p
  | DMove f p | DCopy f p => forallb printable f && forallb printable p
  end.

Lemma dop_wfb : forall k o, dop_ok k o = true -> wfb (S k) (dop_to_jv o) = true.
Proof.
  intros k o H. destruct o; cbn [dop_ok] in H; cbn [dop_to_jv wfb forallb fst snd];
    repeat (apply andb_true_iff in H; destruct H as [? H]);
    repeat match goal with Hx : _ = true |- _ => rewrite Hx; clear Hx end; reflexivity.
Qed.

Lemma elem_op_dop : forall o, elem_op (canon (dop_to_jv o)) = inl (op_of o).
Proof. destruct o; try reflexivity; cbn [dop_to_jv canon map fst snd op_of]; destruct (canon v); reflexivity. Qed.

Lemma elems_ops_doc : forall ops, elems_ops (map canon (map dop_to_jv ops)) = inl (map op_of ops).
Proof.
  induction ops as [|o r IH]; [reflexivity|].
  cbn [map elems_ops]. rewrite elem_op_dop, IH. reflexivity.
Qed.

(* a well-formed patch document, written by JsonWriter, yields exactly its operation list *)
Lemma patchdoc_wellformed : forall ops,
  forallb (dop_ok (N.to_nat MAX_DEPTH - 2)) ops = true ->
  patch_parse_text (write cx_parsed 0 (patch_doc ops)) = PPOk (map op_of ops).
Proof.
  intros ops H. unfold patch_parse_text.
  assert (Hk : N.to_nat MAX_DEPTH = S (S (N.to_nat MAX_DEPTH - 2))) by (unfold MAX_DEPTH; lia).
  assert (Hwf : wfb (N.to_nat MAX_DEPTH) (patch_doc ops) = true).
  { rewrite Hk. unfold patch_doc. cbn [wfb]. rewrite forallb_forall. intros e He.
    apply in_map_iff in He. destruct He as [o [Eo Ho]]. subst e. apply dop_wfb.
    rewrite forallb_forall in H. apply H. exact Ho. }
  destruct (roundtrip put_patch put_patch_ok (patch_doc ops) Hwf) as [Hp _]. rewrite Hp.
  unfold patch_doc. cbn [canon patch_of_tree]. rewrite elems_ops_doc. reflexivity.
Qed.

(* ---- acceptance implies well-formedness ---- *)
Lemma elems_ops_inv : forall l ops, elems_ops l = inl ops -> Forall2 (fun e o => elem_op e = inl o) l ops.
Proof.
  induction l as [|e r IH]; intros ops H; cbn [elems_ops] in H.
  - inversion H. constructor.
  - destruct (elem_op e) as [o|c] eqn:Ee; [|discriminate].
    destruct (elems_ops r) as [os|c]; [|discriminate]. inversion H; subst. constructor; [exact Ee|apply IH; reflexivity].
Qed.

(* what an accepted element must look like *)
Definition elem_wellformed (e : jv) (o : pop) : Prop :=
  exists members path,
    e = JObj members /\
    let st := fold_left member_step members ps_init in
    ps_path st = Some path /\
    ((ps_op st = S_ADD /\ exists v, ps_value st = Some v /\ o = PAdd (ptr_parse path) v) \/
     (ps_op st = S_REMOVE /\ o = PRemove (ptr_parse path)) \/
     (ps_op st = S_REPLACE /\ exists v, ps_value st = Some v /\ o = PReplace (ptr_parse path) v) \/
     (ps_op st = S_MOVE /\ exists f, ps_from st = Some f /\ o = PMove (ptr_parse f) (ptr_parse path)) \/
     (ps_op st = S_COPY /\ exists f, ps_from st = Some f /\ o = PCopy (ptr_parse f) (ptr_parse path)) \/
     (ps_op st = S_TEST /\ exists v, ps_value st = Some v /\ o = PTest (ptr_parse path) v)).

Lemma elem_op_inv : forall e o, elem_op e = inl o -> elem_wellformed e o.
Proof.
  intros e o H. destruct e; try discriminate. cbn [elem_op] in H.
  exists m. unfold handle_patch in H.
  destruct (ps_path (fold_left member_step m ps_init)) as [path|] eqn:Ep; [|discriminate].
  exists path. split; [reflexivity|]. cbv zeta. rewrite Ep. split; [reflexivity|].
  destruct (leqb (ps_op (fold_left member_step m ps_init)) S_ADD) eqn:E1.
  { apply leqb_eq in E1. left. split; [exact E1|].
    destruct (ps_value (fold_left member_step m ps_init)); [|discriminate]. inversion H. eauto. }
  destruct (leqb (ps_op (fold_left member_step m ps_init)) S_REMOVE) eqn:E2.
  { apply leqb_eq in E2. right. left. split; [exact E2|]. inversion H. reflexivity. }
  destruct (leqb (ps_op (fold_left member_step m ps_init)) S_REPLACE) eqn:E3.
  { apply leqb_eq in E3. right. right. left. split; [exact E3|].
    destruct (ps_value (fold_left member_step m ps_init)); [|discriminate]. inversion H. eauto. }
  destruct (leqb (ps_op (fold_left member_step m ps_init)) S_MOVE) eqn:E4.
  { apply leqb_eq in E4. right. right. right. left. split; [exact E4|].
    destruct (ps_from (fold_left member_step m ps_init)); [|discriminate]. inversion H. eauto. }
  destruct (leqb (ps_op (fold_left member_step m ps_init)) S_COPY) eqn:E5.
  { apply leqb_eq in E5. right. right. right. right. left. split; [exact E5|].
    destruct (ps_from (fold_left member_step m ps_init)); [|discriminate]. inversion H. eauto. }
  destruct (leqb (ps_op (fold_left member_step m ps_init)) S_TEST) eqn:E6; [|discriminate].
  apply leqb_eq in E6. right. right. right. right. right. split; [exact E6|].
  destruct (ps_value (fold_left member_step m ps_init)); [|discriminate]. inversion H. eauto.
Qed.

Lemma Forall2_imp : forall (A B : Type) (P Q : A -> B -> Prop), (forall a b, P a b -> Q a b) ->
  forall l l', Forall2 P l l' -> Forall2 Q l l'.
Proof. intros A B P Q H l l' HF. induction HF; constructor; auto. Qed.

Lemma patchdoc_accept_inv : forall text ops, patch_parse_text text = PPOk ops ->
  exists elems rest, parse_text_g put_patch text = POk (JArr elems) rest /\ Forall2 elem_wellformed elems ops.
Proof.
  intros text ops H. unfold patch_parse_text in H.
  destruct (parse_text_g put_patch text) as [v rest|e| |]; try discriminate.
  destruct v; try discriminate. cbn [patch_of_tree] in H.
  destruct (elems_ops l) as [os|c] eqn:El; [|discriminate]. inversion H; subst.
  exists l, rest. split; [reflexivity|].
  apply elems_ops_inv in El. eapply Forall2_imp; [|exact El]. intros a b0 Hab. apply elem_op_inv. exact Hab.
Qed.

(* ---- rejection leaves the target alone; acceptance is JsonData::Apply ---- *)
Lemma patch_apply_text_atomic : forall text d,
  (fst (patch_apply_text text d) = false -> snd (patch_apply_text text d) = d) /\
  (forall ops, patch_parse_text text = PPOk ops -> patch_apply_text text d = data_apply ops d) /\
  ((forall ops, patch_parse_text text <> PPOk ops) -> patch_apply_text text d = (false, d)).
Proof.
  intros text d. unfold patch_apply_text. repeat split.
  - destruct (patch_parse_text text); try reflexivity. apply data_apply_atomic.
  - intros ops H. rewrite H. reflexivity.
  - intro H. destruct (patch_parse_text text); try reflexivity. exfalso. apply (H ops). reflexivity.
Qed.

Lemma patch_parse_total : forall text, patch_parse_text text <> PPHaz.
Proof.
  intro text. unfold patch_parse_text.
  destruct (parse_text_total put_patch text) as [[e H]|[v H]]; rewrite H; [discriminate|].
  unfold patch_of_tree. destruct v; try discriminate. destruct (elems_ops l); discriminate.
Qed.
