From Coq Require Import List NArith ZArith Bool Lia.
From C19 Require Import Gen Model.
Import ListNotations.
Local Open Scope N_scope.

Lemma leqb_eq : forall a b, leqb a b = true <-> a = b.
Proof.
  induction a as [|x a IH]; destruct b as [|y b]; simpl; split; intro H; try discriminate; auto.
  - apply andb_true_iff in H. destruct H as [H1 H2]. apply N.eqb_eq in H1. apply IH in H2. congruence.
  - inversion H; subst. apply andb_true_iff. split; [apply N.eqb_refl | apply IH; reflexivity].
Qed.
Lemma leqb_refl : forall a, leqb a a = true.
Proof. intro a. apply leqb_eq. reflexivity. Qed.

Lemma toks_eqb_eq : forall a b, toks_eqb a b = true <-> a = b.
Proof.
  induction a as [|x a IH]; destruct b as [|y b]; simpl; split; intro H; try discriminate; auto.
  - apply andb_true_iff in H. destruct H as [H1 H2]. apply leqb_eq in H1. apply IH in H2. congruence.
  - inversion H; subst. apply andb_true_iff. split; [apply leqb_refl | apply IH; reflexivity].
Qed.

(* ---- escape / unescape ---- *)
Fixpoint esc0 (t : tok) : list N :=
  match t with
  | [] => []
  | c :: r => if c =? 126 then 126 :: 48 :: esc0 r else c :: esc0 r
  end.

Lemma unesc1_skip : forall a l, a <> 126 -> unesc1 (a :: l) = a :: unesc1 l.
Proof.
  intros a l Ha. destruct l as [|b r]; simpl; [reflexivity|].
  apply N.eqb_neq in Ha. rewrite Ha. reflexivity.
Qed.
Lemma unesc0_skip : forall a l, a <> 126 -> unesc0 (a :: l) = a :: unesc0 l.
Proof.
  intros a l Ha. destruct l as [|b r]; simpl; [reflexivity|].
  apply N.eqb_neq in Ha. rewrite Ha. reflexivity.
Qed.

Lemma unesc1_escape : forall t, unesc1 (escape t) = esc0 t.
Proof.
  induction t as [|c r IH]; [reflexivity|].
  cbn [escape esc0]. destruct (c =? 126) eqn:E1.
  - change (unesc1 (126 :: 48 :: escape r)) with
      (if (126 =? 126) && (48 =? 49) then 47 :: unesc1 (escape r) else 126 :: unesc1 (48 :: escape r)).
    cbn [N.eqb Pos.eqb andb]. rewrite unesc1_skip by discriminate. rewrite IH. reflexivity.
  - destruct (c =? 47) eqn:E2.
    + change (unesc1 (126 :: 49 :: escape r)) with
        (if (126 =? 126) && (49 =? 49) then 47 :: unesc1 (escape r) else 126 :: unesc1 (49 :: escape r)).
      cbn [N.eqb Pos.eqb andb]. rewrite IH. apply N.eqb_eq in E2. subst c. reflexivity.
    + rewrite unesc1_skip by (apply N.eqb_neq; exact E1). rewrite IH. reflexivity.
Qed.

Lemma unesc0_esc0 : forall t, unesc0 (esc0 t) = t.
Proof.
  induction t as [|c r IH]; [reflexivity|].
  cbn [esc0]. destruct (c =? 126) eqn:E1.
  - change (unesc0 (126 :: 48 :: esc0 r)) with
      (if (126 =? 126) && (48 =? 48) then 126 :: unesc0 (esc0 r) else 126 :: unesc0 (48 :: esc0 r)).
    cbn [N.eqb Pos.eqb andb]. rewrite IH. apply N.eqb_eq in E1. subst c. reflexivity.
  - rewrite unesc0_skip by (apply N.eqb_neq; exact E1). rewrite IH. reflexivity.
Qed.

Lemma unescape_escape : forall t, unescape (escape t) = t.
Proof. intro t. unfold unescape. rewrite unesc1_escape. apply unesc0_esc0. Qed.

(* ---- split ---- *)
Lemma split_on_nonempty : forall l, split_on l <> [].
Proof.
  induction l as [|c r IH]; simpl; [discriminate|].
  destruct (c =? 47); [discriminate|]. destruct (split_on r); [congruence|discriminate].
Qed.

Lemma split_escape_end : forall t, split_on (escape t) = [escape t].
Proof.
  induction t as [|c r IH]; [reflexivity|].
  cbn [escape]. destruct (c =? 126) eqn:E1.
  - cbn [split_on]. cbn [N.eqb Pos.eqb]. rewrite IH. reflexivity.
  - destruct (c =? 47) eqn:E2.
    + cbn [split_on]. cbn [N.eqb Pos.eqb]. rewrite IH. reflexivity.
    + cbn [split_on]. rewrite E2. rewrite IH. reflexivity.
Qed.

Lemma split_escape_cons : forall t rest,
  split_on (escape t ++ 47 :: rest) = escape t :: split_on rest.
Proof.
  induction t as [|c r IH]; intro rest.
  - reflexivity.
  - cbn [escape]. destruct (c =? 126) eqn:E1.
    + cbn [app split_on]. cbn [N.eqb Pos.eqb]. rewrite IH. reflexivity.
    + destruct (c =? 47) eqn:E2.
      * cbn [app split_on]. cbn [N.eqb Pos.eqb]. rewrite IH. reflexivity.
      * cbn [app split_on]. rewrite E2. rewrite IH. reflexivity.
Qed.

Lemma split_to_string : forall t toks,
  split_on (escape t ++ ptr_to_string toks) = map escape (t :: toks).
Proof.
  intros t toks. revert t. induction toks as [|u r IH]; intro t.
  - cbn [ptr_to_string flat_map map]. rewrite app_nil_r. apply split_escape_end.
  - cbn [ptr_to_string flat_map]. cbn [app]. rewrite split_escape_cons.
    change (flat_map (fun t0 => 47 :: escape t0) r) with (ptr_to_string r).
    rewrite IH. reflexivity.
Qed.

Lemma ptr_roundtrip : forall toks, ptr_parse (ptr_to_string toks) = Some toks.
Proof.
  destruct toks as [|t r]; [reflexivity|].
  cbn [ptr_to_string flat_map app ptr_parse]. cbn [N.eqb Pos.eqb].
  change (flat_map (fun t0 => 47 :: escape t0) r) with (ptr_to_string r).
  rewrite split_to_string. rewrite map_map. f_equal.
  rewrite <- (map_id (t :: r)) at 2. apply map_ext. intro a. apply unescape_escape.
Qed.

(* the string form determines the tokens *)
Lemma ptr_to_string_inj : forall a b, ptr_to_string a = ptr_to_string b -> a = b.
Proof.
  intros a b H. assert (Some a = Some b) as E.
  { rewrite <- (ptr_roundtrip a), <- (ptr_roundtrip b), H. reflexivity. }
  congruence.
Qed.

(* ---- IsPrefixOf ---- *)
Lemma is_prefix_of_spec : forall a b,
  is_prefix_of a b = true <-> exists t, t <> [] /\ b = a ++ t.
Proof.
  induction a as [|x a IH]; intro b.
  - destruct b as [|y b]; simpl; split.
    + discriminate.
    + intros [t [Ht E]]. subst t. congruence.
    + intros _. exists (y :: b). split; [discriminate|reflexivity].
    + reflexivity.
  - destruct b as [|y b]; simpl.
    + split; [discriminate|]. intros [t [_ E]]. discriminate.
    + destruct (leqb x y) eqn:E.
      * apply leqb_eq in E. subst y. rewrite IH. split.
        -- intros [t [Ht Eb]]. exists t. split; [assumption|]. congruence.
        -- intros [t [Ht Eb]]. exists t. split; [assumption|]. congruence.
      * split; [discriminate|]. intros [t [_ Eb]]. inversion Eb; subst.
        rewrite leqb_refl in E. discriminate.
Qed.
