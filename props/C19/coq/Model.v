(* C19: executable model of common/web (JsonPointer, JsonLexer+JsonParser, JsonWriter, JsonPatch,
   JsonData::Apply) as of the tree with fixes 01-04 applied.  Bytes are N, strings are list N. *)
From Coq Require Import List NArith ZArith Bool.
From C19 Require Import Gen.
Import ListNotations.
Local Open Scope N_scope.

(* ------------------------------------------------------------------ JsonPointer.cpp *)
Definition tok := list N.

(* JsonPointer::EscapeString *)
Fixpoint escape (t : tok) : list N :=
  match t with
  | [] => []
  | c :: r => if c =? 126 then 126 :: 48 :: escape r
              else if c =? 47 then 126 :: 49 :: escape r
              else c :: escape r
  end.

(* JsonPointer::UnEscapeString, first loop: find("~1", pos); token[pos]='/'; erase(pos+1,1); pos++ *)
Fixpoint unesc1 (l : list N) : list N :=
  match l with
  | a :: ((b :: r) as t) => if (a =? 126) && (b =? 49) then 47 :: unesc1 r else a :: unesc1 t
  | _ => l
  end.
(* second loop: "~0" -> '~' *)
Fixpoint unesc0 (l : list N) : list N :=
  match l with
  | a :: ((b :: r) as t) => if (a =? 126) && (b =? 48) then 126 :: unesc0 r else a :: unesc0 t
  | _ => l
  end.
Definition unescape (l : list N) : tok := unesc0 (unesc1 l).

(* ola::StringSplit(input, &tokens, "/") *)
Fixpoint split_on (l : list N) : list (list N) :=
  match l with
  | [] => [[]]
  | c :: r => if c =? 47 then [] :: split_on r
              else match split_on r with h :: t => (c :: h) :: t | [] => [[c]] end
  end.

(* JsonPointer(const string &path): None = m_is_valid false *)
Definition ptr_parse (path : list N) : option (list tok) :=
  match path with
  | [] => Some []
  | c :: r => if c =? 47 then Some (map unescape (split_on r)) else None
  end.

(* JsonPointer::ToString *)
Definition ptr_to_string (toks : list tok) : list N :=
  flat_map (fun t => 47 :: escape t) toks.

Fixpoint leqb (a b : list N) : bool :=
  match a, b with
  | [], [] => true
  | x :: a', y :: b' => (x =? y) && leqb a' b'
  | _, _ => false
  end.

(* JsonPointer::IsPrefixOf (both valid) *)
Fixpoint is_prefix_of (a b : list tok) : bool :=
  match a, b with
  | _, [] => false
  | [], _ :: _ => true
  | x :: a', y :: b' => if leqb x y then is_prefix_of a' b' else false
  end.

Fixpoint toks_eqb (a b : list tok) : bool :=
  match a, b with
  | [], [] => true
  | x :: a', y :: b' => leqb x y && toks_eqb a' b'
  | _, _ => false
  end.

(* ------------------------------------------------------------------ Json.h value tree *)
Inductive jv :=
| JStr (s : list N)
| JUInt (n : N) | JInt (z : Z) | JUInt64 (n : N) | JInt64 (z : Z)
| JDbl (neg : bool) (full lz frac : N) (ex : Z)     (* DoubleRepresentation, opaque leaf *)
| JBool (b : bool) | JNull
| JArr (l : list jv)
| JObj (m : list (list N * jv)).                       (* std::map<string, JsonValue*>: sorted *)

(* std::string operator< : lexicographic on unsigned bytes *)
Fixpoint key_cmp (a b : list N) : comparison :=
  match a, b with
  | [], [] => Eq
  | [], _ :: _ => Lt
  | _ :: _, [] => Gt
  | x :: a', y :: b' => match x ?= y with Eq => key_cmp a' b' | c => c end
  end.

(* STLReplaceAndDelete on the sorted map *)
Fixpoint obj_put (k : list N) (v : jv) (m : list (list N * jv)) : list (list N * jv) :=
  match m with
  | [] => [(k, v)]
  | (k', v') :: r => match key_cmp k k' with
                     | Lt => (k, v) :: m
                     | Eq => (k, v) :: r
                     | Gt => (k', v') :: obj_put k v r
                     end
  end.
Fixpoint obj_get (k : list N) (m : list (list N * jv)) : option jv :=
  match m with
  | [] => None
  | (k', v') :: r => if leqb k k' then Some v' else obj_get k r
  end.
Fixpoint obj_del (k : list N) (m : list (list N * jv)) : list (list N * jv) :=
  match m with
  | [] => []
  | (k', v') :: r => if leqb k k' then r else (k', v') :: obj_del k r
  end.
(* replace the value of an existing key, keeping its position *)
Fixpoint obj_set (k : list N) (v : jv) (m : list (list N * jv)) : list (list N * jv) :=
  match m with
  | [] => []
  | (k', v') :: r => if leqb k k' then (k', v) :: r else (k', v') :: obj_set k v r
  end.

Fixpoint set_nth (i : nat) (v : jv) (l : list jv) : list jv :=
  match l, i with
  | [], _ => []
  | _ :: r, O => v :: r
  | x :: r, S j => x :: set_nth j v r
  end.
Fixpoint ins_nth (i : nat) (v : jv) (l : list jv) : list jv :=
  match i, l with
  | O, _ => v :: l
  | S j, x :: r => x :: ins_nth j v r
  | S _, [] => [v]
  end.
Fixpoint del_nth (i : nat) (l : list jv) : list jv :=
  match l, i with
  | [], _ => []
  | _ :: r, O => r
  | x :: r, S j => x :: del_nth j r
  end.

(* JsonValue::operator== : numbers compare by value across the four integer classes
   (CompareNumbers); doubles are NOT modelled (representation compared, see prop.py). *)
Definition num_val (v : jv) : option Z :=
  match v with
  | JUInt n | JUInt64 n => Some (Z.of_N n)
  | JInt z | JInt64 z => Some z
  | _ => None
  end.
Fixpoint jv_eqb (a b : jv) {struct a} : bool :=
  match a, b with
  | JStr s, JStr t => leqb s t
  | JBool x, JBool y => Bool.eqb x y
  | JNull, JNull => true
  | JDbl n1 f1 l1 r1 e1, JDbl n2 f2 l2 r2 e2 =>
      Bool.eqb n1 n2 && (f1 =? f2) && (l1 =? l2) && (r1 =? r2) && Z.eqb e1 e2
  | JArr l1, JArr l2 =>
      (fix go (x : list jv) (y : list jv) {struct x} : bool :=
         match x, y with
         | [], [] => true
         | p :: x', q :: y' => jv_eqb p q && go x' y'
         | _, _ => false
         end) l1 l2
  | JObj m1, JObj m2 =>
      (fix go (x : list (list N * jv)) (y : list (list N * jv)) {struct x} : bool :=
         match x, y with
         | [], [] => true
         | (k1, p) :: x', (k2, q) :: y' => leqb k1 k2 && jv_eqb p q && go x' y'
         | _, _ => false
         end) m1 m2
  | _, _ => match num_val a, num_val b with
            | Some x, Some y => Z.eqb x y
            | _, _ => false
            end
  end.

(* Json.cpp CompareNumbers<T1,T2>: the sixteen integer specialisations as written, with the
   static_casts as machine conversions.  Result -1 / 0 / 1; None when an operand is not an integer
   node.  JsonX::Equals(other) is CompareNumbers(m_value, other.Value()) == 0 and a == b calls
   b.Equals(a); a < b is b.Compare(a) == 1. *)
Definition cast_u32 (z : Z) : Z := (z mod 4294967296)%Z.
Definition cast_u64 (z : Z) : Z := (z mod 18446744073709551616)%Z.
Definition cast_i64 (z : Z) : Z :=
  ((z + 9223372036854775808) mod 18446744073709551616 - 9223372036854775808)%Z.
Definition three (a b : Z) : Z := if (a <? b)%Z then (-1)%Z else if (b <? a)%Z then 1%Z else 0%Z.
Definition compare_numbers (a b : jv) : option Z :=
  match a, b with
  | JUInt x, JUInt y => Some (three (Z.of_N x) (Z.of_N y))
  | JUInt x, JInt y => Some (if (y <? 0)%Z then 1%Z else three (Z.of_N x) (cast_u32 y))
  | JUInt x, JUInt64 y => Some (three (cast_u64 (Z.of_N x)) (Z.of_N y))
  | JUInt x, JInt64 y => Some (if (y <? 0)%Z then 1%Z else three (cast_i64 (Z.of_N x)) y)
  | JInt x, JUInt y => Some (if (x <? 0)%Z then (-1)%Z else three (cast_u32 x) (Z.of_N y))
  | JInt x, JInt y => Some (three x y)
  | JInt x, JUInt64 y => Some (if (x <? 0)%Z then (-1)%Z else three (cast_u64 x) (Z.of_N y))
  | JInt x, JInt64 y => Some (three (cast_i64 x) y)
  | JUInt64 x, JUInt y => Some (three (Z.of_N x) (cast_u64 (Z.of_N y)))
  | JUInt64 x, JInt y => Some (if (y <? 0)%Z then 1%Z else three (Z.of_N x) (cast_u64 y))
  | JUInt64 x, JUInt64 y => Some (three (Z.of_N x) (Z.of_N y))
  | JUInt64 x, JInt64 y => Some (if (y <? 0)%Z then 1%Z else three (Z.of_N x) (cast_u64 y))
  | JInt64 x, JUInt y => Some (if (x <? 0)%Z then (-1)%Z else three x (cast_i64 (Z.of_N y)))
  | JInt64 x, JInt y => Some (three x (cast_i64 y))
  | JInt64 x, JUInt64 y => Some (if (x <? 0)%Z then (-1)%Z else three (cast_u64 x) (Z.of_N y))
  | JInt64 x, JInt64 y => Some (three x y)
  | _, _ => None
  end.
(* operator== and operator< between two integer nodes, through the double dispatch *)
Definition num_eq_cpp (a b : jv) : bool :=
  match compare_numbers b a with Some c => Z.eqb c 0 | None => false end.
Definition num_lt_cpp (a b : jv) : bool :=
  match compare_numbers b a with Some c => Z.eqb c 1 | None => false end.

(* ------------------------------------------------------------------ JsonLexer.cpp + JsonParser.cpp *)
Definition u64 (x : N) : N := x mod 18446744073709551616.
Definition u32 (x : N) : N := x mod 4294967296.
Definition i32_of_u32 (x : N) : Z :=
  if x <? 2147483648 then Z.of_N x else (Z.of_N x - 4294967296)%Z.
Definition i64_of_u64 (x : N) : Z :=
  if x <? 9223372036854775808 then Z.of_N x else (Z.of_N x - 18446744073709551616)%Z.

Inductive pres (A : Type) :=
| POk (a : A) (rest : list N)
| PErr (code : N)
| PFuel                                    (* hazard: recursion budget exhausted; proved unreachable *)
| PDeep.                                   (* hazard: ParseArray/ParseObject frame entered with more than
                                              MAX_DEPTH containers open (stack depth); proved unreachable *)
Arguments POk {A} _ _.
Arguments PErr {A} _.
Arguments PFuel {A}.
Arguments PDeep {A}.

(* error codes <-> messages (driver.ml prints the text):
   0 "" | 1 No JSON data found | 2 Unterminated string | 3 Invalid string escape sequence |
   4 Unterminated array | 5 Expected either , or ] after an array element | 6 Unterminated object |
   7 Expected key for object | 8 Missing : after key | 9 Incorrect character after key, should be : |
   10 Expected either , or } after an object value | 11 Invalid JSON value | 12 Maximum nesting depth exceeded *)

Definition is_ws (c : N) : bool := (c =? 32) || (c =? 9) || (c =? 13) || (c =? 10).
Fixpoint trim (l : list N) : list N :=
  match l with c :: r => if is_ws c then trim r else l | [] => [] end.
Definition is_digit (c : N) : bool := (48 <=? c) && (c <=? 57).

(* JsonLexer::Parse copies with strncpy: the text ends at the first NUL *)
Fixpoint cstr (l : list N) : list N :=
  match l with c :: r => if c =? 0 then [] else c :: cstr r | [] => [] end.

Definition unescape_char (e : N) : option N :=
  if (e =? 34) || (e =? 92) || (e =? 47) then Some e
  else if e =? 98 then Some 8 else if e =? 102 then Some 12 else if e =? 110 then Some 10
  else if e =? 114 then Some 13 else if e =? 116 then Some 9
  else if e =? 117 then Some 0        (* \u: pushes NUL, the hex digits stay literal *)
  else None.

(* linear-time reverse (Coq's List.rev is quadratic when extracted) *)
Definition lrev {A : Type} (l : list A) : list A := rev_append l [].

(* ParseString; starts after the opening quote; acc is reversed *)
Fixpoint parse_str (l : list N) (acc : list N) : pres (list N) :=
  match l with
  | [] => PErr 2
  | c :: r =>
      if c =? 34 then POk (lrev acc) r
      else if c =? 92 then
        match r with
        | [] => PErr 3
        | e :: r' => match unescape_char e with
                     | Some x => parse_str r' (x :: acc)
                     | None => PErr 3
                     end
        end
      else parse_str r (c :: acc)
  end.

(* ExtractDigits: value (uint64 wrap), leading zero count (unsigned int), rest *)
Fixpoint ext_digits (l : list N) (acc : N) (at_start : bool) (zeros : N) : N * N * list N :=
  match l with
  | c :: r => if is_digit c
              then ext_digits r (u64 (u64 (acc * 10) + (c - 48)))
                              (at_start && (c =? 48))
                              (if at_start && (c =? 48) then u32 (zeros + 1) else zeros)
              else (acc, zeros, l)
  | [] => (acc, zeros, l)
  end.

Definition hd0 (l : list N) : N := match l with c :: _ => c | [] => 0 end.

(* ParseNumber *)
Definition parse_number (l : list N) : pres jv :=
  let neg := hd0 l =? 45 in
  let l1 := if neg then tl l else l in
  if neg && (match l1 with [] => true | _ => false end) then PErr 0 else
  match l1 with
  | [] => PErr 0
  | c :: r1 =>
    if negb (is_digit c) then PErr 0 else
    let '(full, l2) := if c =? 48 then (0, r1)
                       else let '(v, _, r) := ext_digits l1 0 true 0 in (v, r) in
    let '(has_frac, frac, lz, l3) :=
        if hd0 l2 =? 46 then let '(v, z, r) := ext_digits (tl l2) 0 true 0 in (true, v, z, r)
        else (false, 0, 0, l2) in
    let mk_int (rest : list N) :=
        if neg then
          let value := i64_of_u64 (u64 (18446744073709551616 - full)) in
          if ((value <? -2147483648) || (2147483647 <? value))%Z
          then POk (JInt64 value) rest else POk (JInt value) rest
        else if 4294967295 <? full then POk (JUInt64 full) rest else POk (JUInt full) rest in
    if (hd0 l3 =? 101) || (hd0 l3 =? 69) then
      let l4 := tl l3 in
      let nege := hd0 l4 =? 45 in
      let l5 := if nege || (hd0 l4 =? 43) then tl l4 else l4 in
      match l5 with
      | [] => PErr 0
      | d :: _ =>
        if negb (is_digit d) then PErr 0 else
        let '(e, _, l6) := ext_digits l5 0 true 0 in
        (* int64_t signed_exponent = (neg ? -1 : 1) * exponent, then stored in an int32_t field *)
        let se := i32_of_u32 (u32 (if nege then u64 (18446744073709551616 - e) else e)) in
        POk (JDbl neg full lz frac se) l6
      end
    else if has_frac then POk (JDbl neg full lz frac 0%Z) l3
    else mk_int l3
  end.

Fixpoint starts_with (p l : list N) : bool :=
  match p, l with
  | [], _ => true
  | x :: p', y :: l' => (x =? y) && starts_with p' l'
  | _ :: _, [] => false
  end.
Fixpoint drop (n : nat) (l : list N) : list N :=
  match n, l with O, _ => l | S k, _ :: r => drop k r | S _, [] => [] end.

(* ParseTrimmedInput / ParseArray / ParseObject.  [depth] = containers currently open.
   The handler calls of JsonParser (OpenArray/AddValue/...) are folded into direct tree
   construction; duplicate keys replace (STLReplaceAndDelete). *)
(* The lexer is written once, over the way an object frame stores a member: [put depth key value
   members].  JsonParser stores through STLReplaceAndDelete in a std::map at every depth (put_std);
   JsonPatchParser handles the members of the objects directly inside the top-level array itself,
   in document order, duplicates included (put_patch, depth 2), and hands everything deeper to a
   JsonParser. *)
Section Lexer.
Variable put : N -> list N -> jv -> list (list N * jv) -> list (list N * jv).

Fixpoint parse_value_g (fuel : nat) (depth : N) (l : list N) {struct fuel} : pres jv :=
  match fuel with O => PFuel | S f =>
  match l with
  | [] => PErr 11
  | c :: r =>
    if c =? 34 then
      match parse_str r [] with POk s rest => POk (JStr s) rest | PErr e => PErr e | PFuel => PFuel | PDeep => PDeep end
    else if starts_with [116;114;117;101] l then POk (JBool true) (drop 4 l)
    else if starts_with [102;97;108;115;101] l then POk (JBool false) (drop 5 l)
    else if starts_with [110;117;108;108] l then POk JNull (drop 4 l)
    else if (c =? 45) || is_digit c then parse_number l
    else if c =? 91 then
      if MAX_DEPTH <=? depth then PErr 12 else
      let l1 := trim r in
      match l1 with
      | [] => PErr 4
      | c1 :: r1 => if c1 =? 93 then POk (JArr []) r1 else parse_elems_g f (depth + 1) l1 []
      end
    else if c =? 123 then
      if MAX_DEPTH <=? depth then PErr 12 else
      let l1 := trim r in
      match l1 with
      | [] => PErr 6
      | c1 :: r1 => if c1 =? 125 then POk (JObj []) r1 else parse_members_g f (depth + 1) l1 []
      end
    else PErr 11
  end end
with parse_elems_g (fuel : nat) (depth : N) (l : list N) (acc : list jv) {struct fuel} : pres jv :=
  match fuel with O => PFuel | S f =>
  if MAX_DEPTH <? depth then PDeep else
  match trim l with
  | [] => PErr 4
  | l1 =>
    match parse_value_g f depth l1 with
    | PFuel => PFuel
    | PDeep => PDeep
    | PErr e => PErr e
    | POk v r1 =>
      match trim r1 with
      | [] => PErr 4
      | c2 :: r2 => if c2 =? 93 then POk (JArr (lrev (v :: acc))) r2
                    else if c2 =? 44 then parse_elems_g f depth r2 (v :: acc)
                    else PErr 5
      end
    end
  end end
with parse_members_g (fuel : nat) (depth : N) (l : list N) (acc : list (list N * jv)) {struct fuel} : pres jv :=
  match fuel with O => PFuel | S f =>
  if MAX_DEPTH <? depth then PDeep else
  match trim l with
  | [] => PErr 6
  | c :: r =>
    if negb (c =? 34) then PErr 7 else
    match parse_str r [] with
    | PFuel => PFuel
    | PDeep => PDeep
    | PErr e => PErr e
    | POk key r1 =>
      match trim r1 with
      | [] => PErr 8
      | c2 :: r2 =>
        if negb (c2 =? 58) then PErr 9 else
        match trim r2 with
        | [] => PErr 6
        | l3 =>
          match parse_value_g f depth l3 with
          | PFuel => PFuel
          | PDeep => PDeep
          | PErr e => PErr e
          | POk v r4 =>
            match trim r4 with
            | [] => PErr 6
            | c5 :: r5 => if c5 =? 125 then POk (JObj (put depth key v acc)) r5
                          else if c5 =? 44 then parse_members_g f depth r5 (put depth key v acc)
                          else PErr 10
            end
          end
        end
      end
    end
  end end.

Definition parse_fuel (l : list N) : nat := 2 * length l + 2.

(* ParseRaw + JsonParser::Parse *)
Definition parse_text_fuel_g (fuel : nat) (text : list N) : pres jv :=
  let l := trim (cstr text) in
  match l with
  | [] => PErr 1
  | _ => match parse_value_g fuel 0 l with
         | PFuel => PFuel
         | PDeep => PDeep
         | PErr e => PErr e
         | POk v rest => match trim rest with [] => POk v [] | _ => PErr 0 end
         end
  end.
Definition parse_text_g (text : list N) : pres jv := parse_text_fuel_g (parse_fuel (cstr text)) text.

End Lexer.

Definition put_std (depth : N) := obj_put.
Definition put_patch (depth : N) (k : list N) (v : jv) (m : list (list N * jv)) : list (list N * jv) :=
  if depth =? 2 then m ++ [(k, v)] else obj_put k v m.

Definition parse_value := parse_value_g put_std.
Definition parse_elems := parse_elems_g put_std.
Definition parse_members := parse_members_g put_std.
Definition parse_text_fuel := parse_text_fuel_g put_std.
Definition parse_text := parse_text_g put_std.

(* A JsonParser object used for a sequence of texts: Begin() resets all of its state, so every
   result depends on its own text only (that the C++ object really is stateless between calls is
   validated by the harness' long-lived-parser path, not proved). *)
Definition parse_seq (texts : list (list N)) : list (pres jv) := map parse_text texts.

(* ------------------------------------------------------------------ JsonWriter.cpp *)
Fixpoint dec_aux (fuel : nat) (n : N) (acc : list N) : list N :=
  match fuel with
  | O => acc
  | S f => let acc' := (48 + n mod 10) :: acc in
           if n / 10 =? 0 then acc' else dec_aux f (n / 10) acc'
  end.
Definition dec_N (n : N) : list N := dec_aux (S (N.size_nat n)) n [].
Definition dec_Z (z : Z) : list N :=
  match z with Zneg p => 45 :: dec_N (Npos p) | _ => dec_N (Z.to_N z) end.

Definition hexd (x : N) : N := if x <? 10 then 48 + x else 87 + x.
(* ola::EncodeString: !isprint -> \xHH *)
Fixpoint encode_str (s : list N) : list N :=
  match s with
  | [] => []
  | c :: r => if (32 <=? c) && (c <=? 126) then c :: encode_str r
              else 92 :: 120 :: hexd ((c / 16) mod 16) :: hexd (c mod 16) :: encode_str r
  end.
(* ola::Escape *)
Fixpoint escape_str (s : list N) : list N :=
  match s with
  | [] => []
  | c :: r =>
    (if (c =? 34) || (c =? 92) || (c =? 47) then [92; c]
     else if c =? 8 then [92; 98] else if c =? 12 then [92; 102] else if c =? 10 then [92; 110]
     else if c =? 13 then [92; 114] else if c =? 9 then [92; 116] else [c]) ++ escape_str r
  end.
Fixpoint spaces (n : nat) : list N := match n with O => [] | S k => 32 :: spaces k end.

(* JsonDouble::AsString(rep) *)
Definition dbl_string (neg : bool) (full lz frac : N) (ex : Z) : list N :=
  if (full =? 0) && (frac =? 0) then [48] else
  (if neg then [45] else []) ++ dec_N full ++
  (if frac =? 0 then [] else 46 :: repeat 48 (N.to_nat lz) ++ dec_N frac) ++
  (if Z.eqb ex 0 then [] else 101 :: dec_Z ex).

(* [cx l] = JsonArray::IsComplexType(), a flag the library maintains on the side:
   cx_parsed for trees made by JsonParser (AppendArray/AppendObject set it),
   cx_api for trees made with Append(JsonObject* ) / Append(JsonValue* ). *)
Definition is_container (v : jv) : bool := match v with JArr _ | JObj _ => true | _ => false end.
Definition cx_parsed (l : list jv) : bool := existsb is_container l.
Definition cx_api (l : list jv) : bool :=
  existsb (fun v => match v with JObj (_ :: _) => true | _ => false end) l.

Fixpoint write (cx : list jv -> bool) (ind : nat) (v : jv) {struct v} : list N :=
  match v with
  | JStr s => 34 :: escape_str (encode_str s) ++ [34]
  | JUInt n | JUInt64 n => dec_N n
  | JInt z | JInt64 z => dec_Z z
  | JDbl neg full lz frac ex => dbl_string neg full lz frac ex
  | JBool b => if b then [116;114;117;101] else [102;97;108;115;101]
  | JNull => [110;117;108;108]
  | JArr l =>
      let c := cx l in
      let inner := if c then S (S ind) else ind in
      let sep := if c then 44 :: 10 :: spaces inner else [44; 32] in
      91 :: (if c then 10 :: spaces inner else []) ++
      (fix wl (x : list jv) (first : bool) {struct x} : list N :=
         match x with
         | [] => []
         | e :: x' => (if first then [] else sep) ++ write cx inner e ++ wl x' false
         end) l true ++
      (if c then 10 :: spaces ind else []) ++ [93]
  | JObj m =>
      match m with
      | [] => [123; 125]
      | _ =>
        let inner := S (S ind) in
        123 :: 10 ::
        (fix wm (x : list (list N * jv)) (first : bool) {struct x} : list N :=
           match x with
           | [] => []
           | (k, e) :: x' => (if first then [] else [44; 10]) ++ spaces inner ++
                             34 :: escape_str k ++ [34; 58; 32] ++ write cx inner e ++ wm x' false
           end) m true ++
        10 :: spaces ind ++ [125]
      end
  end.

(* ------------------------------------------------------------------ Json.cpp lookup, JsonPatch.cpp *)
(* JsonPointer::TokenToIndex (fix 04).  At most 10 digits, so the uint64 accumulator cannot wrap. *)
Fixpoint digits_val (l : list N) (acc : N) : option N :=
  match l with
  | [] => Some acc
  | c :: r => if is_digit c then digits_val r (10 * acc + (c - 48)) else None
  end.
Definition tok_index (t : tok) : option N :=
  match t with
  | [] => None
  | c :: r =>
    if (10 <? N.of_nat (length t)) then None
    else if (c =? 48) && negb (match r with [] => true | _ => false end) then None
    else match digits_val t 0 with
         | Some v => if 4294967295 <? v then None else Some v
         | None => None
         end
  end.

(* m_values[index] guarded by index < m_values.size() *)
Definition nth_N (l : list jv) (i : N) : option jv :=
  if i <? N.of_nat (length l) then nth_error l (N.to_nat i) else None.

(* JsonValue::LookupElement *)
Fixpoint lookup (v : jv) (path : list tok) {struct path} : option jv :=
  match path with
  | [] => Some v
  | t :: r =>
    match v with
    | JObj m => match obj_get t m with Some c => lookup c r | None => None end
    | JArr l => match tok_index t with
                | Some i => match nth_N l i with Some c => lookup c r | None => None end
                | None => None
                end
    | _ => None
    end
  end.

(* the in-place mutation through the pointer returned by LookupElement, as a functional update *)
Fixpoint modify (v : jv) (path : list tok) (f : jv -> option jv) {struct path} : option jv :=
  match path with
  | [] => f v
  | t :: r =>
    match v with
    | JObj m => match obj_get t m with
                | Some c => match modify c r f with
                            | Some c' => Some (JObj (obj_set t c' m))
                            | None => None
                            end
                | None => None
                end
    | JArr l => match tok_index t with
                | Some i => match nth_N l i with
                            | Some c => match modify c r f with
                                        | Some c' => Some (JArr (set_nth (N.to_nat i) c' l))
                                        | None => None
                                        end
                            | None => None
                            end
                | None => None
                end
    | _ => None
    end
  end.

Inductive action := AAdd (x : jv) | ARemove | AReplace (x : jv).
Definition DASH : tok := [45].

(* ObjectOrArrayAction::TakeActionOn after GetParent: Object / ArrayIndex / ArrayLast *)
Definition act_on (a : action) (key : tok) (parent : jv) : option jv :=
  match parent with
  | JObj m =>
    match a with
    | AAdd x => Some (JObj (obj_put key x m))
    | ARemove => match obj_get key m with Some _ => Some (JObj (obj_del key m)) | None => None end
    | AReplace x => match obj_get key m with Some _ => Some (JObj (obj_set key x m)) | None => None end
    end
  | JArr l =>
    if leqb key DASH then
      match a with
      | AAdd x => Some (JArr (l ++ [x]))
      | ARemove => match l with [] => None | _ => Some (JArr (removelast l)) end
      | AReplace x => match l with [] => None | _ => Some (JArr (set_nth (length l - 1) x l)) end
      end
    else match tok_index key with
         | None => None
         | Some i =>
           if i <? N.of_nat (length l) then
             match a with
             | AAdd x => Some (JArr (ins_nth (N.to_nat i) x l))
             | ARemove => Some (JArr (del_nth (N.to_nat i) l))
             | AReplace x => Some (JArr (set_nth (N.to_nat i) x l))
             end
           else None
         end
  | _ => None
  end.

Definition take_action (a : action) (root : jv) (target : list tok) : option jv :=
  modify root (removelast target) (act_on a (last target [])).

Definition ptr := option (list tok).          (* None: !IsValid() *)
Inductive pop :=
| PAdd (p : ptr) (x : jv) | PRemove (p : ptr) | PReplace (p : ptr) (x : jv)
| PMove (from to : ptr) | PCopy (from to : ptr) | PTest (p : ptr) (x : jv).

Definition doc := option jv.                  (* JsonData may hold no value (NULL) *)

(* AddOp(target, root, value_to_clone); result None = returned false *)
Definition add_op (target : list tok) (root : doc) (x : jv) : option doc :=
  match target with
  | [] => Some (Some x)
  | _ => match root with
         | None => None
         | Some r => match take_action (AAdd x) r target with Some r' => Some (Some r') | None => None end
         end
  end.

Definition apply_op (o : pop) (root : doc) : option doc :=
  match o with
  | PAdd None _ | PRemove None | PReplace None _ | PTest None _ => None
  | PMove None _ | PMove _ None | PCopy None _ | PCopy _ None => None
  | PAdd (Some p) x => add_op p root x
  | PRemove (Some p) =>
      match p with
      | [] => Some None
      | _ => match root with
             | None => None
             | Some r => match take_action ARemove r p with Some r' => Some (Some r') | None => None end
             end
      end
  | PReplace (Some p) x =>
      match p with
      | [] => Some (Some x)
      | _ => match root with
             | None => None
             | Some r => match take_action (AReplace x) r p with Some r' => Some (Some r') | None => None end
             end
      end
  | PMove (Some from) (Some to) =>
      if toks_eqb from to then Some root
      else if is_prefix_of from to then None
      else match root with
           | None => None
           | Some r =>
             match lookup r from with
             | None => None
             | Some src =>
               match take_action ARemove r from with
               | None => None
               | Some r' => add_op to (Some r') src
               end
             end
           end
  | PCopy (Some from) (Some to) =>
      if toks_eqb from to then Some root
      else match root with
           | None => None
           | Some r => match lookup r from with
                       | None => None
                       | Some src => add_op to root src
                       end
           end
  | PTest (Some p) x =>
      match root with
      | None => None
      | Some r => match lookup r p with
                  | Some t => if jv_eqb x t then Some root else None
                  | None => None
                  end
      end
  end.

(* JsonPatchSet::Apply *)
Fixpoint set_apply (ops : list pop) (d : doc) : option doc :=
  match ops with
  | [] => Some d
  | o :: r => match apply_op o d with Some d' => set_apply r d' | None => None end
  end.

(* JsonData::Apply: clone, apply, commit or discard (no schema) *)
Definition data_apply (ops : list pop) (d : doc) : bool * doc :=
  match set_apply ops d with Some d' => (true, d') | None => (false, d) end.

(* ------------------------------------------------------------------ JsonPatchParser.cpp *)
(* The handler is driven by the lexer's events; what it sees is (i) the top-level value, (ii) for
   every element of the top-level array whether it is an object, (iii) for an object element its
   members in document order, duplicates included (parse with put_patch), each value being a
   string / other scalar / container built by the embedded JsonParser. *)
Definition K_OP : list N := PP_kOpKey.   (* regenerated from JsonPatchParser.cpp *)
Definition K_PATH : list N := PP_kPathKey.   (* regenerated from JsonPatchParser.cpp *)
Definition K_FROM : list N := PP_kFromKey.   (* regenerated from JsonPatchParser.cpp *)
Definition K_VALUE : list N := PP_kValueKey.   (* regenerated from JsonPatchParser.cpp *)
Definition S_ADD : list N := PP_kAddOp.   (* regenerated from JsonPatchParser.cpp *)
Definition S_REMOVE : list N := PP_kRemoveOp.   (* regenerated from JsonPatchParser.cpp *)
Definition S_REPLACE : list N := PP_kReplaceOp.   (* regenerated from JsonPatchParser.cpp *)
Definition S_MOVE : list N := PP_kMoveOp.   (* regenerated from JsonPatchParser.cpp *)
Definition S_COPY : list N := PP_kCopyOp.   (* regenerated from JsonPatchParser.cpp *)
Definition S_TEST : list N := PP_kTestOp.   (* regenerated from JsonPatchParser.cpp *)

(* m_op, m_path, m_from, m_value; reset by OpenObject in state PATCH_LIST *)
Record pstate := { ps_op : list N; ps_path : option (list N); ps_from : option (list N); ps_value : option jv }.
Definition ps_init : pstate := {| ps_op := []; ps_path := None; ps_from := None; ps_value := None |}.

(* one member of a patch object: String() -> HandlePatchString; Number/Bool/Null keep only "value";
   OpenArray/OpenObject switch to state VALUE and the finished container is claimed only for "value" *)
Definition member_step (st : pstate) (kv : list N * jv) : pstate :=
  let (k, v) := kv in
  match v with
  | JStr s =>
      if leqb k K_OP then {| ps_op := s; ps_path := ps_path st; ps_from := ps_from st; ps_value := ps_value st |}
      else if leqb k K_FROM then {| ps_op := ps_op st; ps_path := ps_path st; ps_from := Some s; ps_value := ps_value st |}
      else if leqb k K_PATH then {| ps_op := ps_op st; ps_path := Some s; ps_from := ps_from st; ps_value := ps_value st |}
      else if leqb k K_VALUE then {| ps_op := ps_op st; ps_path := ps_path st; ps_from := ps_from st; ps_value := Some v |}
      else st
  | _ =>
      if leqb k K_VALUE then {| ps_op := ps_op st; ps_path := ps_path st; ps_from := ps_from st; ps_value := Some v |}
      else st
  end.

(* error codes: 1 kPatchListError | 2 kPatchElementError | 3 kMissingPath | 4 kMissingValue |
   5 kMissingFrom | 6 "Invalid or missing 'op'" *)
(* HandlePatch, at CloseObject *)
Definition handle_patch (st : pstate) : pop + N :=
  match ps_path st with
  | None => inr 3
  | Some path =>
    if leqb (ps_op st) S_ADD then
      match ps_value st with None => inr 4 | Some v => inl (PAdd (ptr_parse path) v) end
    else if leqb (ps_op st) S_REMOVE then inl (PRemove (ptr_parse path))
    else if leqb (ps_op st) S_REPLACE then
      match ps_value st with None => inr 4 | Some v => inl (PReplace (ptr_parse path) v) end
    else if leqb (ps_op st) S_MOVE then
      match ps_from st with None => inr 5 | Some from => inl (PMove (ptr_parse from) (ptr_parse path)) end
    else if leqb (ps_op st) S_COPY then
      match ps_from st with None => inr 5 | Some from => inl (PCopy (ptr_parse from) (ptr_parse path)) end
    else if leqb (ps_op st) S_TEST then
      match ps_value st with None => inr 4 | Some v => inl (PTest (ptr_parse path) v) end
    else inr 6
  end.

(* an element of the patch array *)
Definition elem_op (e : jv) : pop + N :=
  match e with
  | JObj members => handle_patch (fold_left member_step members ps_init)
  | _ => inr 2
  end.
(* SetError keeps the first error *)
Fixpoint elems_ops (l : list jv) : list pop + N :=
  match l with
  | [] => inl []
  | e :: r => match elem_op e with
              | inr c => inr c
              | inl o => match elems_ops r with inl os => inl (o :: os) | inr c => inr c end
              end
  end.

Inductive ppres :=
| PPOk (ops : list pop)      (* Parse returned true: the patch set holds these operations *)
| PPBad (code : N)           (* the text is JSON but not a patch document *)
| PPLex (e : N)              (* the text is not JSON *)
| PPHaz.                     (* lexer hazard; unreachable *)

Definition patch_of_tree (v : jv) : ppres :=
  match v with
  | JArr elems => match elems_ops elems with inl ops => PPOk ops | inr c => PPBad c end
  | _ => PPBad 1
  end.

(* JsonPatchParser::Parse *)
Definition patch_parse_text (text : list N) : ppres :=
  match parse_text_g put_patch text with
  | POk v _ => patch_of_tree v
  | PErr e => PPLex e
  | _ => PPHaz
  end.

(* the caller's pattern (HTTP handler, tests): parse the patch text; only a successfully parsed
   set is handed to JsonData::Apply *)
Definition patch_apply_text (text : list N) (d : doc) : bool * doc :=
  match patch_parse_text text with
  | PPOk ops => data_apply ops d
  | _ => (false, d)
  end.

(* ------------------------------------------------------------------ JsonParser.cpp as a handler *)
(* JsonParserInterface is public: the handler can be driven by ANY event sequence, not only the
   well-nested ones the lexer produces.  State of JsonParser: m_error, m_root, m_key and the three
   stacks; the array/object stacks always hold the open containers of the container stack in the
   same order, so one stack of frames models them.  Containers are linked into their parent when
   they are opened; [h_plug] rebuilds the tree m_root points to. *)
Inductive hevent :=
| EBegin | EEnd | EValue (v : jv)            (* String / Number / Bool / Null *)
| EOpenArr | ECloseArr | EOpenObj | EKey (k : list N) | ECloseObj | ESetError.
Inductive hattach := AtRoot | AtArr | AtObj (k : list N).
Inductive hframe := FArr (items : list jv) | FObj (members : list (list N * jv)).
Record hstate := { h_err : N;                       (* 0 "" | 1 "Internal error" | 2 set by SetError *)
                   h_root : option jv;              (* m_root when no container is open *)
                   h_key : list N;
                   h_stack : list (hframe * hattach) }.
Definition h_init : hstate := {| h_err := 0; h_root := None; h_key := []; h_stack := [] |}.

Definition frame_value (f : hframe) : jv := match f with FArr l => JArr l | FObj m => JObj m end.
(* link the value of a closed (or still open) child into its parent frame *)
Definition attach_to (parent : hframe) (a : hattach) (child : jv) : hframe :=
  match parent, a with
  | FArr l, _ => FArr (l ++ [child])
  | FObj m, AtObj k => FObj (obj_put k child m)
  | FObj m, _ => FObj m
  end.
Fixpoint h_plug (child : jv) (a : hattach) (stack : list (hframe * hattach)) : jv :=
  match stack with
  | [] => child
  | (f, a') :: r => h_plug (frame_value (attach_to f a child)) a' r
  end.
(* what m_root.get() points to *)
Definition h_tree (s : hstate) : option jv :=
  match h_stack s with
  | [] => h_root s
  | (f, a) :: r => Some (h_plug (frame_value f) a r)
  end.

(* CloseArray / CloseObject with a matching open container: pop it (it is already linked) *)
Definition h_close (s : hstate) (child : jv) (a : hattach) (r : list (hframe * hattach)) : hstate :=
  match r with
  | [] => {| h_err := h_err s; h_root := Some child; h_key := h_key s; h_stack := [] |}
  | (pf, pa) :: r' =>
      {| h_err := h_err s; h_root := h_root s; h_key := h_key s; h_stack := (attach_to pf a child, pa) :: r' |}
  end.

Definition h_step (s : hstate) (e : hevent) : hstate :=
  match e with
  | EBegin => h_init
  | EEnd => {| h_err := h_err s; h_root := h_tree s; h_key := h_key s; h_stack := [] |}
  | ESetError => {| h_err := 2; h_root := h_root s; h_key := h_key s; h_stack := h_stack s |}
  | EKey k => {| h_err := h_err s; h_root := h_root s; h_key := k; h_stack := h_stack s |}
  | EValue v =>
      match h_stack s with
      | (FArr l, a) :: r =>
          {| h_err := h_err s; h_root := h_root s; h_key := h_key s; h_stack := (FArr (l ++ [v]), a) :: r |}
      | (FObj m, a) :: r =>
          {| h_err := h_err s; h_root := h_root s; h_key := []; h_stack := (FObj (obj_put (h_key s) v m), a) :: r |}
      | [] => match h_root s with
              | None => {| h_err := h_err s; h_root := Some v; h_key := h_key s; h_stack := [] |}
              | Some _ => {| h_err := 1; h_root := h_root s; h_key := h_key s; h_stack := [] |}
              end
      end
  | EOpenArr | EOpenObj =>
      let fresh := match e with EOpenArr => FArr [] | _ => FObj [] end in
      match h_stack s with
      | [] => {| h_err := h_err s; h_root := None; h_key := h_key s; h_stack := [(fresh, AtRoot)] |}
      | (FArr l, a) :: r =>
          {| h_err := h_err s; h_root := h_root s; h_key := h_key s; h_stack := (fresh, AtArr) :: (FArr l, a) :: r |}
      | (FObj m, a) :: r =>      (* AddArray / AddObject (m_key): replaces a member of that name now *)
          {| h_err := h_err s; h_root := h_root s; h_key := [];
             h_stack := (fresh, AtObj (h_key s)) :: (FObj (obj_del (h_key s) m), a) :: r |}
      end
  | ECloseArr =>
      match h_stack s with
      | (FArr l, a) :: r => h_close s (JArr l) a r
      | _ => {| h_err := 1; h_root := h_root s; h_key := h_key s; h_stack := h_stack s |}
      end
  | ECloseObj =>
      match h_stack s with
      | (FObj m, a) :: r => h_close s (JObj m) a r
      | _ => {| h_err := 1; h_root := h_root s; h_key := h_key s; h_stack := h_stack s |}
      end
  end.

(* ------------------------------------------------------------------ message texts (regenerated, Gen.v) *)
(* PErr code -> the text passed to SetError in JsonLexer.cpp (LEXER_ERRORS is in source order) *)
Definition lexer_error_text (code : N) : list N :=
  let at_ (i : nat) := nth i LEXER_ERRORS [] in
  match code with
  | 1 => at_ 11%nat | 2 => at_ 0%nat | 3 => at_ 1%nat | 4 => at_ 2%nat | 5 => at_ 3%nat | 6 => at_ 4%nat
  | 7 => at_ 5%nat | 8 => at_ 6%nat | 9 => at_ 7%nat | 10 => at_ 8%nat | 11 => at_ 10%nat | 12 => at_ 9%nat
  | _ => []
  end.
(* PPBad code -> JsonPatchParser's message *)
Definition patch_error_text (code : N) : list N :=
  match code with
  | 1 => PP_kPatchListError | 2 => PP_kPatchElementError | 3 => PP_kMissingPath
  | 4 => PP_kMissingValue | 5 => PP_kMissingFrom | 6 => nth 1 PATCHPARSER_ERRORS []
  | _ => []
  end.
(* h_err -> JsonParser's m_error *)
Definition handler_error_text (code : N) : list N :=
  match code with 1 => nth 0 PARSER_ERRORS [] | 2 => [120] | _ => [] end.
