(* C19: what "parsing terminates" means for doubles.  The lexer's number path (ParseNumber with its
   three ExtractDigits loops) is plain structural recursion over the text: it needs one unit of the
   recursion budget whatever the digits say, and the JsonDouble leaf it produces stores the five
   fields of DoubleRepresentation after the uint64 / int64 -> int32 wraps of the code.  Nothing in
   the model iterates over the VALUE of the exponent. *)
From Coq Require Import List NArith ZArith Bool Lia.
From OlaBase Require Import Bytes.
From C19 Require Import Gen Model ProofsParse RTNum.
Import ListNotations.
Local Open Scope N_scope.

Lemma u64_lt : forall x, u64 x < 18446744073709551616.
Proof. intro x. unfold u64. apply N.mod_upper_bound. discriminate. Qed.
Lemma u32_lt : forall x, u32 x < 4294967296.
Proof. intro x. unfold u32. apply N.mod_upper_bound. discriminate. Qed.
Lemma i32_range : forall x, (-2147483648 <= i32_of_u32 (u32 x) < 2147483648)%Z.
Proof.
  intro x. pose proof (u32_lt x) as H. unfold i32_of_u32.
  destruct (u32 x <? 2147483648) eqn:E; [apply N.ltb_lt in E|apply N.ltb_ge in E]; lia.
Qed.

Lemma ext_digits_bounds : forall l acc st z v z' r,
  acc < 18446744073709551616 -> z < 4294967296 ->
  ext_digits l acc st z = (v, z', r) -> v < 18446744073709551616 /\ z' < 4294967296.
Proof.
  induction l as [|c l IH]; intros acc st z v z' r Ha Hz H; cbn [ext_digits] in H.
  - inversion H; subst. auto.
  - destruct (is_digit c).
    + eapply IH; [| |exact H]; [apply u64_lt|].
      destruct (st && (c =? 48)); [apply u32_lt|exact Hz].
    + inversion H; subst. auto.
Qed.

Definition dbl_fields_ok (v : jv) : Prop :=
  match v with
  | JDbl _ full lz frac ex =>
      full < 18446744073709551616 /\ lz < 4294967296 /\ frac < 18446744073709551616 /\
      (-2147483648 <= ex < 2147483648)%Z
  | _ => True
  end.

Ltac edb :=
  match goal with
  | H : context[ext_digits ?x 0 true 0] |- _ =>
      let E := fresh "E" in
      destruct (ext_digits x 0 true 0) as [[? ?] ?] eqn:E;
      apply ext_digits_bounds in E; [|reflexivity|reflexivity]
  end.

Lemma parse_number_dbl : forall l v rest, parse_number l = POk v rest -> dbl_fields_ok v.
Proof.
  intros l v rest H. unfold parse_number in H.
  repeat (first
    [ edb
    | match type of H with context[if ?c then _ else _] => destruct c end
    | match type of H with context[match ?x with [] => _ | _ :: _ => _ end] => destruct x end ]);
  try discriminate; inversion H; subst; cbn [dbl_fields_ok]; try exact I;
  repeat split; try apply i32_range; try lia; try tauto.
Qed.

Section WithPut.
Variable put : N -> list N -> jv -> list (list N * jv) -> list (list N * jv).
Local Notation parse_value := (parse_value_g put).
Local Notation parse_elems := (parse_elems_g put).
Local Notation parse_members := (parse_members_g put).
Local Notation parse_text_fuel := (parse_text_fuel_g put).
Local Notation parse_text := (parse_text_g put).

(* the three clauses together *)
Lemma total_double : forall (f : nat) (d c : N) (r : list N),
  c = 45 \/ is_digit c = true ->
  parse_value (S f) d (c :: r) = parse_number (c :: r) /\
  good (parse_number (c :: r)) (length (c :: r)) /\
  (forall v rest, parse_number (c :: r) = POk v rest -> dbl_fields_ok v).
Proof.
  intros f d c r Hc. split; [apply parse_value_number; exact Hc|].
  split; [apply parse_number_good|]. intros v rest H. exact (parse_number_dbl _ _ _ H).
Qed.

End WithPut.
