(* C19 round trip, part 3: the guard, the parser's canonical form, writer equations *)
From Coq Require Import List NArith ZArith Bool Lia.
From OlaBase Require Import Bytes.
From C19 Require Import Gen Model Spec ProofsPtr RTNum RTStr.
Import ListNotations.
Local Open Scope N_scope.

(* ---- the guard of c19_roundtrip ---- *)
(* keys strictly increasing in std::string order: every later key compares greater *)
Definition key_gt (k : list N) (p : list N * jv) : bool :=
  match key_cmp (fst p) k with Gt => true | _ => false end.
Fixpoint sortedb (m : list (list N * jv)) : bool :=
  match m with
  | [] => true
  | p :: r => forallb (key_gt (fst p)) r && sortedb r
  end.

(* [wfb k v]: v is built from the library's types with printable-ASCII strings and keys, integers in
   the range of their class, no doubles, objects with unique sorted keys, nesting depth <= k *)
Fixpoint wfb (k : nat) (v : jv) {struct v} : bool :=
  match v with
  | JStr s => forallb printable s
  | JUInt n => n <? 4294967296
  | JInt z => ((-2147483648 <=? z) && (z <? 2147483648))%Z
  | JUInt64 n => n <? 18446744073709551616
  | JInt64 z => ((-9223372036854775808 <=? z) && (z <? 9223372036854775808))%Z
  | JDbl _ _ _ _ _ => false
  | JBool _ => true
  | JNull => true
  | JArr l => match k with O => false | S k' => forallb (wfb k') l end
  | JObj m => match k with
              | O => false
              | S k' => forallb (fun p => forallb printable (fst p) && wfb k' (snd p)) m && sortedb m
              end
  end.

(* what JsonParser makes of the written text: same tree, integers re-classified by value *)
Fixpoint canon (v : jv) : jv :=
  match v with
  | JUInt n => canon_nat n
  | JUInt64 n => canon_nat n
  | JInt z => canon_int z
  | JInt64 z => canon_int z
  | JArr l => JArr (map canon l)
  | JObj m => JObj (map (fun p => (fst p, canon (snd p))) m)
  | _ => v
  end.

(* ---- induction over the tree ---- *)
Lemma jv_ind2 : forall P : jv -> Prop,
  (forall s, P (JStr s)) -> (forall n, P (JUInt n)) -> (forall z, P (JInt z)) ->
  (forall n, P (JUInt64 n)) -> (forall z, P (JInt64 z)) ->
  (forall a b c d e, P (JDbl a b c d e)) -> (forall b, P (JBool b)) -> P JNull ->
  (forall l, Forall P l -> P (JArr l)) ->
  (forall m, Forall (fun p => P (snd p)) m -> P (JObj m)) ->
  forall v, P v.
Proof.
  intros P Hs Hu Hi Hu6 Hi6 Hd Hb Hn Ha Ho.
  refine (fix IH (v : jv) : P v :=
    match v with
    | JStr s => Hs s | JUInt n => Hu n | JInt z => Hi z | JUInt64 n => Hu6 n | JInt64 z => Hi6 z
    | JDbl a b c d e => Hd a b c d e | JBool b => Hb b | JNull => Hn
    | JArr l => Ha l ((fix go (l : list jv) : Forall P l :=
                         match l with [] => Forall_nil _ | x :: r => Forall_cons x (IH x) (go r) end) l)
    | JObj m => Ho m ((fix go (m : list (list N * jv)) : Forall (fun p => P (snd p)) m :=
                         match m with
                         | [] => Forall_nil _
                         | p :: r => Forall_cons p (IH (snd p)) (go r)
                         end) m)
    end).
Qed.

Ltac norm := cbn [app]; repeat (rewrite <- app_assoc; cbn [app]).

(* ---- the writer on containers, as plain list functions ---- *)
Notation W := (write cx_parsed).

Definition wtail (inner : nat) (sep : list N) (x : list jv) : list N :=
  flat_map (fun e => sep ++ W inner e) x.

Lemma wl_eq : forall inner sep x,
  (fix wl (x : list jv) (first : bool) {struct x} : list N :=
     match x with
     | [] => []
     | e :: x' => (if first then [] else sep) ++ write cx_parsed inner e ++ wl x' false
     end) x false = wtail inner sep x.
Proof.
  intros inner sep. induction x as [|e x IH]; [reflexivity|].
  cbn [wtail flat_map]. rewrite <- app_assoc. f_equal. f_equal. exact IH.
Qed.

Definition arr_inner (ind : nat) (l : list jv) : nat := if cx_parsed l then S (S ind) else ind.
Definition arr_pad (ind : nat) (l : list jv) : list N :=     (* after '[' and after each ',' *)
  if cx_parsed l then 10 :: spaces (S (S ind)) else [].
Definition arr_sep (ind : nat) (l : list jv) : list N :=
  if cx_parsed l then 44 :: 10 :: spaces (S (S ind)) else [44; 32].
Definition arr_close (ind : nat) (l : list jv) : list N :=
  if cx_parsed l then 10 :: spaces ind else [].

Lemma write_arr : forall ind l,
  W ind (JArr l) =
  91 :: arr_pad ind l ++
  match l with [] => [] | e :: x => W (arr_inner ind l) e ++ wtail (arr_inner ind l) (arr_sep ind l) x end ++
  arr_close ind l ++ [93].
Proof.
  intros ind l. unfold arr_pad, arr_inner, arr_sep, arr_close. cbn [write].
  destruct l as [|e x].
  - reflexivity.
  - set (c := cx_parsed (e :: x)). cbn [app].
    destruct c; cbn [app]; rewrite wl_eq; reflexivity.
Qed.

Definition wmem (inner : nat) (p : list N * jv) : list N :=
  spaces inner ++ 34 :: escape_str (fst p) ++ [34; 58; 32] ++ W inner (snd p).
Definition wmtail (inner : nat) (x : list (list N * jv)) : list N :=
  flat_map (fun p => [44; 10] ++ wmem inner p) x.

Lemma wm_eq : forall inner x,
  (fix wm (x : list (list N * jv)) (first : bool) {struct x} : list N :=
     match x with
     | [] => []
     | (k, e) :: x' => (if first then [] else [44; 10]) ++ spaces inner ++
                       34 :: escape_str k ++ [34; 58; 32] ++ write cx_parsed inner e ++ wm x' false
     end) x false = wmtail inner x.
Proof.
  intro inner. induction x as [|[k e] x IH]; [reflexivity|].
  rewrite IH. cbn [wmtail flat_map]. unfold wmem. cbn [fst snd]. norm. reflexivity.
Qed.

Lemma write_obj : forall ind m,
  W ind (JObj m) =
  match m with
  | [] => [123; 125]
  | p :: x => 123 :: 10 :: (wmem (S (S ind)) p ++ wmtail (S (S ind)) x) ++ 10 :: spaces ind ++ [125]
  end.
Proof.
  intros ind m. cbn [write]. destruct m as [|[k e] x]; [reflexivity|].
  cbn [app]. rewrite wm_eq. unfold wmem. cbn [fst snd]. norm. reflexivity.
Qed.
