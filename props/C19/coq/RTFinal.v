(* C19 round trip, part 5: the induction over the tree and the top-level statement *)
From Coq Require Import List NArith ZArith Bool Lia.
From OlaBase Require Import Bytes.
From C19 Require Import Gen Model Spec ProofsPtr RTNum RTStr RTDefs RTMain.
Import ListNotations.
Local Open Scope N_scope.

Notation W := (write cx_parsed).

Definition arr_pad2 (ind : nat) (l : list jv) : list N :=
  if cx_parsed l then 10 :: spaces (S (S ind)) else [32].
Lemma arr_sep_eq : forall ind l, arr_sep ind l = 44 :: arr_pad2 ind l.
Proof. intros. unfold arr_sep, arr_pad2. destruct (cx_parsed l); reflexivity. Qed.
Lemma all_ws_arr_pad : forall ind l, all_ws (arr_pad ind l) = true.
Proof. intros. unfold arr_pad. destruct (cx_parsed l); [apply all_ws_nl_spaces|reflexivity]. Qed.
Lemma all_ws_arr_pad2 : forall ind l, all_ws (arr_pad2 ind l) = true.
Proof. intros. unfold arr_pad2. destruct (cx_parsed l); [apply all_ws_nl_spaces|reflexivity]. Qed.
Lemma all_ws_arr_close : forall ind l, all_ws (arr_close ind l) = true.
Proof. intros. unfold arr_close. destruct (cx_parsed l); [apply all_ws_nl_spaces|reflexivity]. Qed.

Lemma fuel_pos : forall txt fuel, fuel_ok txt 1 fuel -> exists f, fuel = S f.
Proof. intros txt fuel H. unfold fuel_ok in H. destruct fuel as [|f]; [lia|]. exists f. reflexivity. Qed.

Section WithPut.
Variable put : N -> list N -> jv -> list (list N * jv) -> list (list N * jv).
Local Notation parse_value := (parse_value_g put).
Local Notation parse_elems := (parse_elems_g put).
Local Notation parse_members := (parse_members_g put).
Local Notation parse_text_fuel := (parse_text_fuel_g put).
Local Notation parse_text := (parse_text_g put).

Hypothesis Hput : forall d k v acc,
  Forall (fun q => key_cmp k (fst q) = Gt) acc -> put d k v acc = acc ++ [(k, v)].

Local Notation RT := (RTMain.RT put).

Lemma rt_number : forall f d txt rest (v : jv),
  (exists c r, txt = c :: r /\ (c = 45 \/ is_digit c = true)) ->
  parse_number (txt ++ rest) = POk v rest ->
  parse_value (S f) d (txt ++ rest) = POk v rest.
Proof.
  intros f d txt rest v [c [r [E Hc]]] H. subst txt. cbn [app] in *.
  rewrite parse_value_number by exact Hc. exact H.
Qed.

Lemma rt_all : forall v, RT v.
Proof.
  apply jv_ind2; unfold RTMain.RT.
  - (* string *)
    intros s k d ind rest fuel Hwf Hd Hf Hfuel. cbn [wfb] in Hwf.
    destruct (fuel_pos _ _ Hfuel) as [f ->].
    cbn [write canon]. rewrite encode_printable by exact Hwf. norm.
    rewrite pv_str, parse_str_escape. reflexivity.
  - (* uint *)
    intros n k d ind rest fuel Hwf Hd Hf Hfuel. cbn [wfb] in Hwf. apply N.ltb_lt in Hwf.
    destruct (fuel_pos _ _ Hfuel) as [f ->]. cbn [write canon].
    apply rt_number.
    + destruct (dec_N_head n) as [c [r [E Hc]]]. exists c, r. auto.
    + apply num_rt_N; [lia|exact Hf].
  - (* int *)
    intros z k d ind rest fuel Hwf Hd Hf Hfuel. cbn [wfb] in Hwf.
    apply andb_true_iff in Hwf. destruct Hwf as [Ha Hb]. apply Z.leb_le in Ha. apply Z.ltb_lt in Hb.
    destruct (fuel_pos _ _ Hfuel) as [f ->]. cbn [write canon].
    apply rt_number; [apply dec_Z_head|]. apply num_rt_Z; [lia|exact Hf].
  - (* uint64 *)
    intros n k d ind rest fuel Hwf Hd Hf Hfuel. cbn [wfb] in Hwf. apply N.ltb_lt in Hwf.
    destruct (fuel_pos _ _ Hfuel) as [f ->]. cbn [write canon].
    apply rt_number.
    + destruct (dec_N_head n) as [c [r [E Hc]]]. exists c, r. auto.
    + apply num_rt_N; [lia|exact Hf].
  - (* int64 *)
    intros z k d ind rest fuel Hwf Hd Hf Hfuel. cbn [wfb] in Hwf.
    apply andb_true_iff in Hwf. destruct Hwf as [Ha Hb]. apply Z.leb_le in Ha. apply Z.ltb_lt in Hb.
    destruct (fuel_pos _ _ Hfuel) as [f ->]. cbn [write canon].
    apply rt_number; [apply dec_Z_head|]. apply num_rt_Z; [lia|exact Hf].
  - (* double: excluded by the guard *)
    intros a b c d0 e k d ind rest fuel Hwf. discriminate.
  - (* bool *)
    intros b k d ind rest fuel Hwf Hd Hf Hfuel.
    destruct (fuel_pos _ _ Hfuel) as [f ->]. destruct b; reflexivity.
  - (* null *)
    intros k d ind rest fuel Hwf Hd Hf Hfuel.
    destruct (fuel_pos _ _ Hfuel) as [f ->]. reflexivity.
  - (* array *)
    intros l HF k d ind rest fuel Hwf Hd Hf Hfuel. cbn [wfb] in Hwf.
    destruct k as [|k']; [discriminate|].
    destruct (fuel_pos _ _ Hfuel) as [f ->].
    assert ((MAX_DEPTH <=? d) = false) as Ed by (apply N.leb_gt; lia).
    rewrite write_arr in *. cbn [canon].
    destruct l as [|e x].
    + unfold arr_pad, arr_close. cbn [cx_parsed existsb app]. rewrite pv_arr, Ed.
      rewrite trim_nonws by reflexivity. reflexivity.
    + inversion HF as [|? ? He HFx]; subst.
      cbn [forallb] in Hwf. apply andb_true_iff in Hwf. destruct Hwf as [Hwe Hwx].
      set (inner := arr_inner ind (e :: x)) in *.
      rewrite arr_sep_eq in *.
      revert Hfuel. norm. rewrite wtail_k_eq. intro Hfuel.
      rewrite pv_arr, Ed.
      destruct (write_head k' e inner Hwe) as [c [r0 [Ew [Hws [H93 _]]]]].
      assert (Et : trim (arr_pad ind (e :: x) ++ W inner e ++
                         wtail_k inner (arr_pad2 ind (e :: x)) x (arr_close ind (e :: x) ++ 93 :: rest)) =
                   [] ++ W inner e ++
                   wtail_k inner (arr_pad2 ind (e :: x)) x (arr_close ind (e :: x) ++ 93 :: rest)).
      { rewrite trim_ws_app by apply all_ws_arr_pad. rewrite Ew. cbn [app]. apply trim_nonws. exact Hws. }
      rewrite Et. rewrite Ew at 1. cbn [app].
      apply N.eqb_neq in H93. rewrite H93.
      refine (elems_rt put Hput k' inner (arr_pad2 ind (e :: x)) (arr_close ind (e :: x)) rest (d + 1) x HFx Hwx
                 ltac:(lia) (all_ws_arr_pad2 _ _) (all_ws_arr_close _ _) e [] [] f He Hwe eq_refl _).
      unfold fuel_ok in *. lens. lia.
  - (* object *)
    intros m HF k d ind rest fuel Hwf Hd Hf Hfuel. cbn [wfb] in Hwf.
    destruct k as [|k']; [discriminate|].
    destruct (fuel_pos _ _ Hfuel) as [f ->].
    assert ((MAX_DEPTH <=? d) = false) as Ed by (apply N.leb_gt; lia).
    rewrite write_obj in *. cbn [canon].
    destruct m as [|p x].
    + cbn [app map]. rewrite pv_obj, Ed. rewrite trim_nonws by reflexivity. reflexivity.
    + inversion HF as [|? ? Hp HFx]; subst.
      apply andb_true_iff in Hwf. destruct Hwf as [Hwf Hsort].
      cbn [forallb] in Hwf. apply andb_true_iff in Hwf. destruct Hwf as [Hwp Hwx].
      apply andb_true_iff in Hwp. destruct Hwp as [Hkp Hwp].
      set (inner := S (S ind)) in *.
      revert Hfuel. unfold wmem. norm. rewrite wmtail_k_eq. intro Hfuel.
      rewrite pv_obj, Ed.
      assert (Et : trim (10 :: spaces inner ++ 34 :: escape_str (fst p) ++ 34 :: 58 :: 32 ::
                         W inner (snd p) ++ wmtail_k inner x (10 :: spaces ind ++ 125 :: rest)) =
                   [] ++ 34 :: escape_str (fst p) ++ 34 :: 58 :: 32 ::
                   W inner (snd p) ++ wmtail_k inner x (10 :: spaces ind ++ 125 :: rest)).
      { change (10 :: spaces inner ++ 34 :: escape_str (fst p) ++ 34 :: 58 :: 32 ::
                W inner (snd p) ++ wmtail_k inner x (10 :: spaces ind ++ 125 :: rest))
          with ((10 :: spaces inner) ++ 34 :: escape_str (fst p) ++ 34 :: 58 :: 32 ::
                W inner (snd p) ++ wmtail_k inner x (10 :: spaces ind ++ 125 :: rest)).
        rewrite trim_ws_app by apply all_ws_nl_spaces. apply trim_nonws. reflexivity. }
      rewrite Et. cbn [app N.eqb Pos.eqb].
      refine (members_rt put Hput k' inner ind rest (d + 1) x HFx Hwx ltac:(lia) p [] [] f Hp Hwp eq_refl Hsort
                 (Forall_nil _) _).
      unfold fuel_ok in *. lens. lia.
Qed.

End WithPut.

(* ---- the re-parsed tree is equal (operator==) and writes to the same text ---- *)
Lemma canon_is_container : forall v, is_container (canon v) = is_container v.
Proof.
  destruct v; try reflexivity; cbn [canon]; unfold canon_int, canon_nat.
  - destruct (4294967295 <? n); reflexivity.
  - destruct z; try (destruct (4294967295 <? _); reflexivity).
    destruct ((_ <? _)%Z || (_ <? _)%Z); reflexivity.
  - destruct (4294967295 <? n); reflexivity.
  - destruct z; try (destruct (4294967295 <? _); reflexivity).
    destruct ((_ <? _)%Z || (_ <? _)%Z); reflexivity.
Qed.
Lemma cx_parsed_canon : forall l, cx_parsed (map canon l) = cx_parsed l.
Proof.
  induction l as [|e x IH]; [reflexivity|].
  cbn [map cx_parsed existsb] in *. rewrite canon_is_container. unfold cx_parsed in IH. rewrite IH. reflexivity.
Qed.

Lemma write_canon_nat : forall n ind, W ind (canon_nat n) = dec_N n.
Proof. intros. unfold canon_nat. destruct (4294967295 <? n); reflexivity. Qed.
Lemma write_canon_int : forall z ind, W ind (canon_int z) = dec_Z z.
Proof.
  intros. unfold canon_int. destruct z; try apply write_canon_nat.
  destruct ((_ <? _)%Z || (_ <? _)%Z); reflexivity.
Qed.

Lemma wtail_canon : forall inner sep x,
  Forall (fun e => forall ind, W ind (canon e) = W ind e) x ->
  wtail inner sep (map canon x) = wtail inner sep x.
Proof.
  intros inner sep x HF. unfold wtail. induction HF as [|e x He HF IH]; [reflexivity|].
  cbn [map flat_map]. rewrite He, IH. reflexivity.
Qed.
Lemma wmtail_canon : forall inner x,
  Forall (fun p => forall ind, W ind (canon (snd p)) = W ind (snd p)) x ->
  wmtail inner (map (fun p => (fst p, canon (snd p))) x) = wmtail inner x.
Proof.
  intros inner x HF. unfold wmtail. induction HF as [|p x Hp HF IH]; [reflexivity|].
  cbn [map flat_map]. unfold wmem at 1 3. cbn [fst snd]. rewrite Hp, IH. reflexivity.
Qed.

Lemma write_canon : forall v ind, W ind (canon v) = W ind v.
Proof.
  apply (jv_ind2 (fun v => forall ind, W ind (canon v) = W ind v)); try reflexivity.
  - intros. cbn [canon]. apply write_canon_nat.
  - intros. cbn [canon]. apply write_canon_int.
  - intros. cbn [canon]. apply write_canon_nat.
  - intros. cbn [canon]. apply write_canon_int.
  - intros l HF ind. cbn [canon]. rewrite !write_arr.
    unfold arr_pad, arr_inner, arr_sep, arr_close. rewrite cx_parsed_canon.
    f_equal. f_equal. f_equal.
    destruct HF as [|e x He HF]; [reflexivity|].
    cbn [map]. rewrite He. f_equal. apply wtail_canon. exact HF.
  - intros m HF ind. cbn [canon]. rewrite !write_obj.
    destruct HF as [|p x Hp HF]; [reflexivity|].
    cbn [map]. f_equal. f_equal. f_equal. f_equal.
    + unfold wmem. cbn [fst snd]. rewrite Hp. reflexivity.
    + apply wmtail_canon. exact HF.
Qed.

Lemma jv_eqb_canon_nat : forall n, (jv_eqb (JUInt n) (canon_nat n) = true) /\ (jv_eqb (JUInt64 n) (canon_nat n) = true).
Proof. intro n. unfold canon_nat. destruct (4294967295 <? n); cbn; rewrite Z.eqb_refl; auto. Qed.
Lemma jv_eqb_canon_int : forall z, (jv_eqb (JInt z) (canon_int z) = true) /\ (jv_eqb (JInt64 z) (canon_int z) = true).
Proof.
  intro z. unfold canon_int, canon_nat. destruct z.
  - cbn. auto.
  - destruct (4294967295 <? _); cbn; rewrite Pos.eqb_refl; auto.
  - destruct ((_ <? _)%Z || (_ <? _)%Z); cbn; rewrite Pos.eqb_refl; auto.
Qed.

Lemma jv_eqb_canon : forall v, jv_eqb v (canon v) = true.
Proof.
  apply jv_ind2.
  - intro s. cbn. apply leqb_refl.
  - intro n. apply jv_eqb_canon_nat.
  - intro z. apply jv_eqb_canon_int.
  - intro n. apply jv_eqb_canon_nat.
  - intro z. apply jv_eqb_canon_int.
  - intros a b c d e. cbn. rewrite Bool.eqb_reflx, !N.eqb_refl, Z.eqb_refl. reflexivity.
  - intro b. cbn. apply Bool.eqb_reflx.
  - reflexivity.
  - intros l HF. cbn [canon jv_eqb]. induction HF as [|e x He HF IH]; [reflexivity|].
    cbn [map]. rewrite He. cbn [andb]. exact IH.
  - intros m HF. cbn [canon jv_eqb]. induction HF as [|p x Hp HF IH]; [reflexivity|].
    cbn [map]. destruct p as [k e]. cbn [fst snd] in *. rewrite leqb_refl, Hp. cbn [andb]. exact IH.
Qed.

(* ---- the writer's text contains no NUL ---- *)
Lemma nonul_dec_Z : forall z, nonul (dec_Z z) = true.
Proof.
  intro z. destruct z; cbn [dec_Z]; try (apply nonul_digits; apply dec_N_digits).
  cbn [nonul forallb]. cbn [N.eqb negb andb]. apply nonul_digits. apply dec_N_digits.
Qed.

Lemma nonul_cons : forall c l, (c =? 0) = false -> nonul (c :: l) = nonul l.
Proof. intros c l H. cbn [nonul forallb]. rewrite H. reflexivity. Qed.

Lemma nonul_wtail : forall kk inner sep x,
  nonul sep = true ->
  Forall (fun e => forall k ind, wfb k e = true -> nonul (W ind e) = true) x ->
  forallb (wfb kk) x = true -> nonul (wtail inner sep x) = true.
Proof.
  intros kk inner sep x Hsep HF. unfold wtail. induction HF as [|e x He HF IH]; intro Hw; [reflexivity|].
  cbn [forallb] in Hw. apply andb_true_iff in Hw. destruct Hw as [Hwe Hwx].
  cbn [flat_map]. rewrite !nonul_app, Hsep, (He kk inner Hwe), (IH Hwx). reflexivity.
Qed.

Lemma nonul_wmem : forall kk inner q,
  forallb printable (fst q) = true -> wfb kk (snd q) = true ->
  (forall k ind, wfb k (snd q) = true -> nonul (W ind (snd q)) = true) ->
  nonul (wmem inner q) = true.
Proof.
  intros kk inner q Hk Hw Hv. unfold wmem. rewrite nonul_app, nonul_spaces. cbn [andb].
  rewrite nonul_cons by reflexivity. rewrite !nonul_app, (nonul_escape _ Hk), (Hv kk inner Hw). reflexivity.
Qed.

Lemma nonul_wmtail : forall kk inner x,
  Forall (fun p => forall k ind, wfb k (snd p) = true -> nonul (W ind (snd p)) = true) x ->
  forallb (fun p => forallb printable (fst p) && wfb kk (snd p)) x = true ->
  nonul (wmtail inner x) = true.
Proof.
  intros kk inner x HF. unfold wmtail. induction HF as [|p x Hp HF IH]; intro Hw; [reflexivity|].
  cbn [forallb] in Hw. apply andb_true_iff in Hw. destruct Hw as [Hwp Hwx].
  apply andb_true_iff in Hwp. destruct Hwp as [Hkp Hwp].
  cbn [flat_map]. rewrite !nonul_app, (nonul_wmem kk inner p Hkp Hwp Hp), (IH Hwx). reflexivity.
Qed.

Lemma nonul_write : forall v k ind, wfb k v = true -> nonul (W ind v) = true.
Proof.
  apply (jv_ind2 (fun v => forall k ind, wfb k v = true -> nonul (W ind v) = true)).
  - intros s k ind H. cbn [wfb] in H. cbn [write]. rewrite encode_printable by exact H.
    rewrite nonul_cons by reflexivity. rewrite nonul_app, nonul_escape by exact H. reflexivity.
  - intros. cbn [write]. apply nonul_digits. apply dec_N_digits.
  - intros. cbn [write]. apply nonul_dec_Z.
  - intros. cbn [write]. apply nonul_digits. apply dec_N_digits.
  - intros. cbn [write]. apply nonul_dec_Z.
  - intros; discriminate.
  - intros b k ind _. destruct b; reflexivity.
  - reflexivity.
  - intros l HF k ind H. cbn [wfb] in H. destruct k as [|k']; [discriminate|].
    rewrite write_arr. rewrite nonul_cons by reflexivity. rewrite !nonul_app.
    assert (Hpad : forall (b : bool) n, nonul (if b then 10 :: spaces n else []) = true).
    { intros b n. destruct b; [|reflexivity]. rewrite nonul_cons by reflexivity. apply nonul_spaces. }
    unfold arr_pad, arr_close. rewrite !Hpad. cbn [andb]. rewrite andb_true_r.
    assert (Hsep : nonul (arr_sep ind l) = true).
    { unfold arr_sep. destruct (cx_parsed l); [|reflexivity].
      rewrite !nonul_cons by reflexivity. apply nonul_spaces. }
    destruct HF as [|e x He HF]; [reflexivity|].
    cbn [forallb] in H. apply andb_true_iff in H. destruct H as [Hwe Hwx].
    rewrite nonul_app, (He k' _ Hwe). cbn [andb].
    apply (nonul_wtail k'); assumption.
  - intros m HF k ind H. cbn [wfb] in H. destruct k as [|k']; [discriminate|].
    apply andb_true_iff in H. destruct H as [H _].
    rewrite write_obj. destruct HF as [|p x Hp HF]; [reflexivity|].
    cbn [forallb] in H. apply andb_true_iff in H. destruct H as [Hwp Hwx].
    apply andb_true_iff in Hwp. destruct Hwp as [Hkp Hwp].
    rewrite !nonul_cons by reflexivity. rewrite !nonul_app.
    rewrite (nonul_wmem k' _ p Hkp Hwp Hp), (nonul_wmtail k' _ x HF Hwx). cbn [andb].
    rewrite nonul_cons by reflexivity. rewrite nonul_app, nonul_spaces. reflexivity.
Qed.

(* ---- JsonParser::Parse (JsonWriter::AsString v) ---- *)
Section WithPut.
Variable put : N -> list N -> jv -> list (list N * jv) -> list (list N * jv).
Local Notation parse_value := (parse_value_g put).
Local Notation parse_elems := (parse_elems_g put).
Local Notation parse_members := (parse_members_g put).
Local Notation parse_text_fuel := (parse_text_fuel_g put).
Local Notation parse_text := (parse_text_g put).

Hypothesis Hput : forall d k v acc,
  Forall (fun q => key_cmp k (fst q) = Gt) acc -> put d k v acc = acc ++ [(k, v)].


Lemma roundtrip : forall v, wfb (N.to_nat MAX_DEPTH) v = true ->
  parse_text (W 0 v) = POk (canon v) [] /\
  jv_eqb v (canon v) = true /\
  W 0 (canon v) = W 0 v.
Proof.
  intros v Hwf. split; [|split; [apply jv_eqb_canon|apply write_canon]].
  unfold parse_text_g, parse_text_fuel_g.
  rewrite (cstr_nonul (W 0 v)) by (eapply nonul_write; exact Hwf).
  destruct (write_head _ v 0 Hwf) as [c [r [Ew [Hws _]]]].
  assert (Et : trim (W 0 v) = W 0 v) by (rewrite Ew; apply trim_nonws; exact Hws).
  rewrite Et. rewrite Ew at 1.
  pose proof (rt_all put Hput v (N.to_nat MAX_DEPTH) 0 0%nat [] (parse_fuel (W 0 v)) Hwf) as H.
  rewrite app_nil_r in H. rewrite H.
  - reflexivity.
  - rewrite N2Nat.id. lia.
  - exact I.
  - unfold fuel_ok, parse_fuel. lia.
Qed.

End WithPut.

(* the two member-store functions used by the library satisfy the hypothesis *)
Lemma put_std_ok : forall d k v acc,
  Forall (fun q => key_cmp k (fst q) = Gt) acc -> put_std d k v acc = acc ++ [(k, v)].
Proof. intros d k v acc H. unfold put_std. apply obj_put_append. exact H. Qed.
Lemma put_patch_ok : forall d k v acc,
  Forall (fun q => key_cmp k (fst q) = Gt) acc -> put_patch d k v acc = acc ++ [(k, v)].
Proof.
  intros d k v acc H. unfold put_patch. destruct (d =? 2); [reflexivity|]. apply obj_put_append. exact H.
Qed.
