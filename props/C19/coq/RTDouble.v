(* C19: text-level round trip of numbers: what ParseNumber keeps of a number (DoubleRepresentation or
   an integer) is written by JsonWriter to a text that parses to a value with the same text *)
From Coq Require Import List NArith ZArith Bool Lia.
From OlaBase Require Import Bytes.
From C19 Require Import Gen Model Spec ProofsPatch ProofsParse ProofsNum RTNum ProofsDouble RTStr RTDefs RTMain RTFinal.
Import ListNotations.
Local Open Scope N_scope.

(* ParseNumber after the sign and the integer part have been read (copied from Model.parse_number) *)
Definition num_stage2 (neg : bool) (full : N) (l2 : list N) : pres jv :=
  let '(has_frac, frac, lz, l3) :=
      if hd0 l2 =? 46 then let '(v, z, r) := ext_digits (tl l2) 0 true 0 in (true, v, z, r)
      else (false, 0, 0, l2) in
  let mk_int (rest : list N) :=
      if neg then
        let value := i64_of_u64 (u64 (18446744073709551616 - full)) in
        if ((value <? -2147483648) || (2147483647 <? value))%Z
        then POk (JInt64 value) rest else POk (JInt value) rest
      else if 4294967295 <? full then POk (JUInt64 full) rest else POk (JUInt full) rest in
  if (hd0 l3 =? 101) || (hd0 l3 =? 69) then
    let l4 := tl l3 in
    let nege := hd0 l4 =? 45 in
    let l5 := if nege || (hd0 l4 =? 43) then tl l4 else l4 in
    match l5 with
    | [] => PErr 0
    | d :: _ =>
      if negb (is_digit d) then PErr 0 else
      let '(e, _, l6) := ext_digits l5 0 true 0 in
      let se := i32_of_u32 (u32 (if nege then u64 (18446744073709551616 - e) else e)) in
      POk (JDbl neg full lz frac se) l6
    end
  else if has_frac then POk (JDbl neg full lz frac 0%Z) l3
  else mk_int l3.

Lemma stage1 : forall (neg : bool) full rest2,
  full < 18446744073709551616 -> is_digit (hd0 rest2) = false ->
  parse_number ((if neg then [45] else []) ++ dec_N full ++ rest2) = num_stage2 neg full rest2.
Proof.
  intros neg full rest2 Hn F1.
  destruct (dec_N_spec full) as [ds [E [Hdig [Hval [Hne [Hhd Hz]]]]]]. rewrite E. clear E.
  destruct ds as [|c ds0]; [congruence|].
  assert (Hc : is_digit c = true) by (cbn [forallb] in Hdig; apply andb_true_iff in Hdig; tauto).
  unfold parse_number.
  assert (Hstep : forall l1, l1 = (c :: ds0) ++ rest2 ->
     match l1 with
     | [] => PErr 0
     | c :: r1 =>
         if negb (is_digit c) then PErr 0 else
         let '(full0, l2) := if c =? 48 then (0, r1) else let '(v, _, r) := ext_digits l1 0 true 0 in (v, r) in
         num_stage2 neg full0 l2
     end = num_stage2 neg full rest2).
  { intros l1 ->. cbn [app]. rewrite Hc. cbn [negb].
    destruct (N.eq_dec full 0) as [H0|H0].
    - specialize (Hz H0). inversion Hz; subst c ds0. cbn [N.eqb Pos.eqb app]. subst full. reflexivity.
    - specialize (Hhd H0). cbn [hd0] in Hhd.
      assert ((c =? 48) = false) as E48 by (apply N.eqb_neq; lia). rewrite E48.
      destruct (ext_digits_app (c :: ds0) rest2 0 true 0 Hdig F1 ltac:(rewrite Hval; exact Hn)) as [z' Ee].
      cbn [app] in Ee. rewrite Ee. rewrite Hval. reflexivity. }
  destruct neg.
  - cbn [app hd0 tl N.eqb Pos.eqb andb]. exact (Hstep _ eq_refl).
  - cbn [app hd0]. rewrite (digit_not_45 c Hc). cbn [andb]. exact (Hstep _ eq_refl).
Qed.

(* leading zeros of the fraction, then its digits *)
Lemma ext_zeros : forall k z rest', z + N.of_nat k < 4294967296 ->
  ext_digits (repeat 48 k ++ rest') 0 true z = ext_digits rest' 0 true (z + N.of_nat k).
Proof.
  induction k as [|k IH]; intros z rest' H.
  - cbn [repeat app]. rewrite N.add_0_r. reflexivity.
  - cbn [repeat app ext_digits]. change (is_digit 48) with true. cbn iota.
    change (u64 (u64 (0 * 10) + (48 - 48))) with 0. cbn [andb N.eqb Pos.eqb].
    rewrite Nat2N.inj_succ in H.
    assert (u32 (z + 1) = z + 1) as Hu by (unfold u32; apply N.mod_small; lia). rewrite Hu.
    rewrite IH by lia. f_equal. lia.
Qed.

Lemma ext_digits_nostart : forall ds rest acc z,
  forallb is_digit ds = true -> is_digit (hd0 rest) = false ->
  dec_value ds acc < 18446744073709551616 ->
  ext_digits (ds ++ rest) acc false z = (dec_value ds acc, z, rest).
Proof.
  induction ds as [|d ds IH]; intros rest acc z Hd Hr Hv.
  - cbn [app dec_value]. destruct rest as [|c r]; [reflexivity|].
    cbn [hd0] in Hr. cbn [ext_digits]. rewrite Hr. reflexivity.
  - cbn [forallb] in Hd. apply andb_true_iff in Hd. destruct Hd as [Hd1 Hd2].
    cbn [app ext_digits dec_value] in *. rewrite Hd1. cbn [andb].
    pose proof (dec_value_ge ds (10 * acc + (d - 48))) as Hge.
    assert (1 <= 10 ^ N.of_nat (length ds)) by (pose proof (N.pow_nonzero 10 (N.of_nat (length ds)) ltac:(lia)); lia).
    assert (Hsm : 10 * acc + (d - 48) < 18446744073709551616) by nia.
    assert (Hu : u64 (u64 (acc * 10) + (d - 48)) = 10 * acc + (d - 48)).
    { unfold u64. rewrite (N.mod_small (acc * 10)) by lia. rewrite N.mod_small by lia. lia. }
    rewrite Hu. apply IH; assumption.
Qed.

Lemma ext_fraction : forall lz frac tail,
  lz < 4294967296 -> frac < 18446744073709551616 -> frac <> 0 -> is_digit (hd0 tail) = false ->
  ext_digits (repeat 48 (N.to_nat lz) ++ dec_N frac ++ tail) 0 true 0 = (frac, lz, tail).
Proof.
  intros lz frac tail Hlz Hfr Hnz Ht.
  rewrite ext_zeros by (rewrite N2Nat.id; lia). rewrite N2Nat.id, N.add_0_l.
  destruct (dec_N_spec frac) as [ds [E [Hdig [Hval [Hne [Hhd _]]]]]]. rewrite E.
  destruct ds as [|c ds0]; [congruence|]. specialize (Hhd Hnz). cbn [hd0] in Hhd.
  cbn [forallb] in Hdig. apply andb_true_iff in Hdig. destruct Hdig as [Hc Hd0].
  cbn [app ext_digits]. rewrite Hc.
  assert ((c =? 48) = false) as E48 by (apply N.eqb_neq; lia). rewrite E48. cbn [andb].
  cbn [dec_value] in Hval.
  assert (Hu : u64 (u64 (0 * 10) + (c - 48)) = 10 * 0 + (c - 48)).
  { unfold u64. cbn [N.mul]. rewrite (N.mod_small 0) by lia.
    unfold is_digit in Hc. apply andb_true_iff in Hc. destruct Hc as [Ha Hb]. apply N.leb_le in Ha, Hb.
    rewrite N.mod_small by lia. lia. }
  rewrite Hu. rewrite ext_digits_nostart; [rewrite Hval; reflexivity|exact Hd0|exact Ht|rewrite Hval; exact Hfr].
Qed.

(* the exponent as JsonDouble::AsString prints it ("e" << int32) read back *)
Lemma exponent_rt : forall (neg : bool) full lz frac (ex : Z) rest,
  (-2147483648 <= ex < 2147483648)%Z -> ex <> 0%Z -> follow rest ->
  let l3 := 101 :: dec_Z ex ++ rest in
  (let l4 := tl l3 in
   let nege := hd0 l4 =? 45 in
   let l5 := if nege || (hd0 l4 =? 43) then tl l4 else l4 in
   match l5 with
   | [] => PErr 0
   | d :: _ =>
     if negb (is_digit d) then PErr 0 else
     let '(e, _, l6) := ext_digits l5 0 true 0 in
     let se := i32_of_u32 (u32 (if nege then u64 (18446744073709551616 - e) else e)) in
     POk (JDbl neg full lz frac se) l6
   end) = POk (JDbl neg full lz frac ex) rest.
Proof.
  intros neg full lz frac ex rest Hex Hnz Hf.
  destruct (follow_facts rest Hf) as [F1 _].
  cbv zeta. cbn [tl].
  destruct ex as [|p|p]; [congruence| |].
  - (* positive *)
    cbn [dec_Z].
    destruct (dec_N_spec (Z.to_N (Z.pos p))) as [ds [E [Hdig [Hval [Hne _]]]]]. rewrite E.
    destruct ds as [|c ds0]; [congruence|].
    assert (Hc : is_digit c = true) by (cbn [forallb] in Hdig; apply andb_true_iff in Hdig; tauto).
    cbn [app hd0]. rewrite (digit_not_45 c Hc).
    assert ((c =? 43) = false) as E43.
    { unfold is_digit in Hc. apply andb_true_iff in Hc. destruct Hc as [Ha _]. apply N.leb_le in Ha.
      apply N.eqb_neq. lia. }
    rewrite E43. cbn [orb]. rewrite Hc. cbn [negb].
    destruct (ext_digits_app (c :: ds0) rest 0 true 0 Hdig F1 ltac:(rewrite Hval; lia)) as [z' Ee].
    cbn [app] in Ee. rewrite Ee, Hval.
    assert (i32_of_u32 (u32 (Z.to_N (Z.pos p))) = Z.pos p) as Hs.
    { unfold u32. rewrite N.mod_small by lia. unfold i32_of_u32.
      assert ((Z.to_N (Z.pos p) <? 2147483648) = true) as El by (apply N.ltb_lt; lia). rewrite El. lia. }
    rewrite Hs. reflexivity.
  - (* negative *)
    cbn [dec_Z app hd0 N.eqb Pos.eqb orb tl].
    destruct (dec_N_spec (N.pos p)) as [ds [E [Hdig [Hval [Hne _]]]]]. rewrite E.
    destruct ds as [|c ds0]; [congruence|].
    assert (Hc : is_digit c = true) by (cbn [forallb] in Hdig; apply andb_true_iff in Hdig; tauto).
    cbn [app]. rewrite Hc. cbn [negb].
    destruct (ext_digits_app (c :: ds0) rest 0 true 0 Hdig F1 ltac:(rewrite Hval; lia)) as [z' Ee].
    cbn [app] in Ee. rewrite Ee, Hval.
    assert (i32_of_u32 (u32 (u64 (18446744073709551616 - N.pos p))) = Z.neg p) as Hs.
    { unfold u64. rewrite N.mod_small by lia. unfold u32.
      assert ((18446744073709551616 - N.pos p) mod 4294967296 = 4294967296 - N.pos p) as Hm.
      { symmetry. apply (N.mod_unique _ _ 4294967295); lia. }
      rewrite Hm. unfold i32_of_u32.
      assert ((4294967296 - N.pos p <? 2147483648) = false) as El by (apply N.ltb_ge; lia). rewrite El. lia. }
    rewrite Hs. reflexivity.
Qed.

(* the one corner where the lexer's int64 arithmetic wraps: a written "-N" with N > 2^63 and neither
   fraction nor exponent is read back as the positive integer 2^64 - N *)
Definition neg_wrap_corner (neg : bool) (full frac : N) (ex : Z) : bool :=
  neg && (frac =? 0) && Z.eqb ex 0 && (9223372036854775808 <? full).

Lemma neg_value : forall p, N.pos p <= 9223372036854775808 ->
  i64_of_u64 (u64 (18446744073709551616 - N.pos p)) = Z.neg p.
Proof.
  intros p Hp. unfold u64. rewrite N.mod_small by lia. unfold i64_of_u64.
  assert ((18446744073709551616 - N.pos p <? 9223372036854775808) = false) as El by (apply N.ltb_ge; lia).
  rewrite El. lia.
Qed.

Lemma dbl_rt : forall (neg : bool) full lz frac (ex : Z) rest,
  full < 18446744073709551616 -> lz < 4294967296 -> frac < 18446744073709551616 ->
  (-2147483648 <= ex < 2147483648)%Z -> follow rest ->
  neg_wrap_corner neg full frac ex = false ->
  exists v', parse_number (dbl_string neg full lz frac ex ++ rest) = POk v' rest /\
             write cx_parsed 0 v' = dbl_string neg full lz frac ex.
Proof.
  intros neg full lz frac ex rest Hfull Hlz Hfrac Hex Hf Hcorner.
  destruct (follow_facts rest Hf) as [F1 [F2 [F3 F4]]].
  unfold dbl_string. destruct ((full =? 0) && (frac =? 0)) eqn:Ez.
  - exists (canon_nat 0). change [48] with (dec_N 0). split; [apply num_rt_N; [lia|exact Hf]|reflexivity].
  - destruct (frac =? 0) eqn:Efr.
    + (* no fraction *)
      apply N.eqb_eq in Efr. subst frac.
      assert (full <> 0) as Hfn.
      { intro; subst full. discriminate. }
      destruct (Z.eqb ex 0) eqn:Eex.
      * (* an integer text *)
        apply Z.eqb_eq in Eex. subst ex. rewrite !app_nil_r.
        destruct neg.
        -- cbn [app]. destruct full as [|p]; [congruence|].
           unfold neg_wrap_corner in Hcorner. cbn [andb N.eqb Z.eqb] in Hcorner. apply N.ltb_ge in Hcorner.
           exists (canon_int (Z.neg p)). split; [apply num_rt_neg; assumption|].
           rewrite write_canon_int. reflexivity.
        -- cbn [app]. exists (canon_nat full). split; [apply num_rt_N; assumption|apply write_canon_nat].
      * (* integer part and exponent *)
        apply Z.eqb_neq in Eex. cbn [app]. try rewrite app_nil_l.
        exists (JDbl neg full 0 0 ex). split.
        -- rewrite <- !app_assoc. rewrite stage1 by (assumption || reflexivity).
           unfold num_stage2. cbn [app hd0 N.eqb Pos.eqb orb].
           exact (exponent_rt neg full 0 0 ex rest Hex Eex Hf).
        -- cbn [write]. unfold dbl_string.
           assert ((full =? 0) = false) as Hf0 by (apply N.eqb_neq; exact Hfn). rewrite Hf0. cbn [andb N.eqb].
           assert ((ex =? 0)%Z = false) as E0 by (apply Z.eqb_neq; exact Eex). rewrite E0. reflexivity.
    + (* with a fraction *)
      apply N.eqb_neq in Efr.
      destruct (Z.eqb ex 0) eqn:Eex.
      * apply Z.eqb_eq in Eex. subst ex. rewrite app_nil_r.
        exists (JDbl neg full lz frac 0). split.
        -- rewrite <- !app_assoc. cbn [app]. rewrite <- !app_assoc.
           rewrite stage1 by (assumption || reflexivity).
           unfold num_stage2. cbn [hd0 tl N.eqb Pos.eqb].
           rewrite (ext_fraction lz frac rest Hlz Hfrac Efr F1).
           rewrite F3, F4. cbn [orb]. reflexivity.
        -- cbn [write]. unfold dbl_string.
           assert ((frac =? 0) = false) as E1 by (apply N.eqb_neq; exact Efr). rewrite E1, andb_false_r.
           cbn [Z.eqb]. rewrite app_nil_r. reflexivity.
      * apply Z.eqb_neq in Eex.
        exists (JDbl neg full lz frac ex). split.
        -- rewrite <- !app_assoc. cbn [app]. rewrite <- !app_assoc. cbn [app].
           rewrite stage1 by (assumption || reflexivity).
           unfold num_stage2. cbn [hd0 tl N.eqb Pos.eqb].
           rewrite (ext_fraction lz frac (101 :: dec_Z ex ++ rest) Hlz Hfrac Efr eq_refl).
           cbn [hd0 N.eqb Pos.eqb orb].
           exact (exponent_rt neg full lz frac ex rest Hex Eex Hf).
        -- cbn [write]. unfold dbl_string.
           assert ((frac =? 0) = false) as E1 by (apply N.eqb_neq; exact Efr). rewrite E1, andb_false_r.
           assert ((ex =? 0)%Z = false) as E0 by (apply Z.eqb_neq; exact Eex). rewrite E0. reflexivity.
Qed.

(* ---- every value ParseNumber can produce ---- *)
Lemma i64_range : forall x, (-9223372036854775808 <= i64_of_u64 (u64 x) < 9223372036854775808)%Z.
Proof.
  intro x. pose proof (u64_lt x) as H. unfold i64_of_u64.
  destruct (u64 x <? 9223372036854775808) eqn:E; [apply N.ltb_lt in E|apply N.ltb_ge in E]; lia.
Qed.

Definition number_value (v : jv) : Prop :=
  match v with
  | JDbl _ _ _ _ _ => dbl_fields_ok v
  | JUInt _ | JInt _ | JUInt64 _ | JInt64 _ => int_node v = true
  | _ => False
  end.

Ltac edb2 :=
  match goal with
  | H : context[ext_digits ?x 0 true 0] |- _ =>
      let E := fresh "E" in
      destruct (ext_digits x 0 true 0) as [[? ?] ?] eqn:E;
      apply ext_digits_bounds in E; [|reflexivity|reflexivity]
  end.

Lemma parse_number_value : forall l v rest, parse_number l = POk v rest -> number_value v.
Proof.
  intros l v rest H. unfold parse_number in H.
  repeat (first
    [ edb2
    | match type of H with context[if ?c then _ else _] => destruct c eqn:? end
    | match type of H with context[match ?x with [] => _ | _ :: _ => _ end] => destruct x eqn:? end ]);
  try discriminate; match type of H with POk ?a _ = POk _ _ => replace v with a by congruence end;
  unfold number_value, dbl_fields_ok, int_node; cbv beta iota;
  try (repeat split; try apply i32_range; try lia; tauto);
  repeat match goal with
  | Hx : (_ || _) = false |- _ => apply orb_false_iff in Hx; destruct Hx
  | Hx : (_ <? _)%Z = false |- _ => apply Z.ltb_ge in Hx
  | Hx : (_ <? _) = false |- _ => apply N.ltb_ge in Hx
  | Hx : (_ <? _) = true |- _ => apply N.ltb_lt in Hx
  end;
  try (apply N.ltb_lt; lia);
  try (apply andb_true_iff; split; [apply Z.leb_le|apply Z.ltb_lt];
       match goal with |- context[i64_of_u64 (u64 ?x)] => pose proof (i64_range x) end; lia).
Qed.

(* ---- write o parse o write = write, for every number text the lexer accepts ---- *)
Definition value_corner (v : jv) : bool :=
  match v with JDbl neg full _ frac ex => neg_wrap_corner neg full frac ex | _ => false end.

Lemma number_text_rt : forall t v r0 rest,
  parse_number t = POk v r0 -> follow rest -> value_corner v = false ->
  exists v', parse_number (write cx_parsed 0 v ++ rest) = POk v' rest /\
             write cx_parsed 0 v' = write cx_parsed 0 v.
Proof.
  intros t v r0 rest H Hf Hc. pose proof (parse_number_value t v r0 H) as Hv.
  destruct v; cbn [number_value] in Hv; try contradiction.
  - cbn [int_node] in Hv. apply N.ltb_lt in Hv. cbn [write].
    exists (canon_nat n). split; [apply num_rt_N; [lia|exact Hf]|apply write_canon_nat].
  - cbn [int_node] in Hv. apply andb_true_iff in Hv. destruct Hv as [Ha Hb].
    apply Z.leb_le in Ha. apply Z.ltb_lt in Hb. cbn [write].
    exists (canon_int z). split; [apply num_rt_Z; [lia|exact Hf]|apply write_canon_int].
  - cbn [int_node] in Hv. apply N.ltb_lt in Hv. cbn [write].
    exists (canon_nat n). split; [apply num_rt_N; [lia|exact Hf]|apply write_canon_nat].
  - cbn [int_node] in Hv. apply andb_true_iff in Hv. destruct Hv as [Ha Hb].
    apply Z.leb_le in Ha. apply Z.ltb_lt in Hb. cbn [write].
    exists (canon_int z). split; [apply num_rt_Z; [lia|exact Hf]|apply write_canon_int].
  - cbn [dbl_fields_ok] in Hv. destruct Hv as [H1 [H2 [H3 H4]]]. cbn [write value_corner] in *.
    apply dbl_rt; assumption.
Qed.

(* the excluded corner is real *)
Lemma neg_wrap_refuted :
  exists v v', parse_number [45;49;56;52;52;54;55;52;52;48;55;51;55;48;57;53;53;49;54;49;53;46;48] = POk v [] /\
               value_corner v = true /\
               parse_number (write cx_parsed 0 v) = POk v' [] /\
               write cx_parsed 0 v' <> write cx_parsed 0 v.
Proof.
  eexists. eexists. split; [vm_compute; reflexivity|]. split; [vm_compute; reflexivity|].
  split; [vm_compute; reflexivity|]. vm_compute. discriminate.
Qed.
