(* C19: handler stack machine vs direct construction, objects included: for values whose objects have
   strictly increasing keys (std::map order, RTDefs.sortedb) the events of the value build the value. *)
From Coq Require Import List NArith ZArith Bool Lia.
From C19 Require Import Gen Model ProofsPtr RTDefs RTMain ProofsHandler.
Import ListNotations.
Local Open Scope N_scope.

Fixpoint sorted_tree (v : jv) : bool :=
  match v with
  | JArr l => forallb sorted_tree l
  | JObj m => forallb (fun p => sorted_tree (snd p)) m && sortedb m
  | _ => true
  end.

Lemma key_cmp_refl : forall k, key_cmp k k = Eq.
Proof. induction k as [|c r IH]; [reflexivity|]. cbn [key_cmp]. rewrite N.compare_refl. exact IH. Qed.

Lemma obj_del_absent : forall k m, Forall (fun q => key_cmp k (fst q) = Gt) m -> obj_del k m = m.
Proof.
  intros k m H. induction H as [|[k' v'] r Hq H IH]; [reflexivity|].
  cbn [obj_del]. cbn [fst] in Hq.
  destruct (leqb k k') eqn:E.
  - apply leqb_eq in E. subst k'. rewrite key_cmp_refl in Hq. discriminate.
  - rewrite IH. reflexivity.
Qed.

(* where a value may arrive; m_key is empty except between ObjectKey and the member's value *)
Definition ctx (s : hstate) : Prop :=
  match h_stack s with
  | [] => h_root s = None /\ h_key s = []
  | (FArr _, _) :: _ => h_key s = []
  | (FObj m, _) :: _ => Forall (fun q => key_cmp (h_key s) (fst q) = Gt) m
  end.

Definition EVO (v : jv) : Prop :=
  sorted_tree v = true -> forall s, ctx s -> h_run s (events_of v) = h_step s (EValue v).

Lemma children_run_o : forall l, Forall EVO l -> forallb sorted_tree l = true ->
  forall e ro items a r,
    h_run {| h_err := e; h_root := ro; h_key := []; h_stack := (FArr items, a) :: r |} (flat_map events_of l) =
    {| h_err := e; h_root := ro; h_key := []; h_stack := (FArr (items ++ l), a) :: r |}.
Proof.
  intros l HF. induction HF as [|x l Hx HF IH]; intros Hn e ro items a r.
  - cbn [flat_map h_run fold_left]. rewrite app_nil_r. reflexivity.
  - cbn [forallb] in Hn. apply andb_true_iff in Hn. destruct Hn as [Hnx Hnl].
    cbn [flat_map]. rewrite h_run_app. rewrite (Hx Hnx) by reflexivity.
    cbn [h_step h_stack h_err h_root h_key]. rewrite (IH Hnl). rewrite <- app_assoc. reflexivity.
Qed.

Lemma members_run : forall m, Forall (fun p => EVO (snd p)) m ->
  forallb (fun p => sorted_tree (snd p)) m = true -> sortedb m = true ->
  forall e ro acc a r,
    Forall (fun q => Forall (fun p => key_cmp (fst p) (fst q) = Gt) m) acc ->
    h_run {| h_err := e; h_root := ro; h_key := []; h_stack := (FObj acc, a) :: r |}
          (flat_map (fun p => EKey (fst p) :: events_of (snd p)) m) =
    {| h_err := e; h_root := ro; h_key := []; h_stack := (FObj (acc ++ m), a) :: r |}.
Proof.
  intros m HF. induction HF as [|[k x] m Hx HF IH]; intros Hn Hs e ro acc a r Hacc.
  - cbn [flat_map h_run fold_left]. rewrite app_nil_r. reflexivity.
  - cbn [forallb snd] in Hn. apply andb_true_iff in Hn. destruct Hn as [Hnx Hnm].
    cbn [sortedb fst] in Hs. apply andb_true_iff in Hs. destruct Hs as [Hgt Hsm].
    cbn [flat_map fst snd]. cbn [app]. cbn [h_run fold_left].
    fold (h_run (h_step {| h_err := e; h_root := ro; h_key := []; h_stack := (FObj acc, a) :: r |} (EKey k))
                (events_of x ++ flat_map (fun p => EKey (fst p) :: events_of (snd p)) m)).
    cbn [h_step h_err h_root h_key h_stack]. rewrite h_run_app.
    assert (Hk : Forall (fun q => key_cmp k (fst q) = Gt) acc).
    { eapply Forall_impl; [|exact Hacc]. intros q Hq. inversion Hq; subst. assumption. }
    cbn [snd] in Hx. rewrite (Hx Hnx) by exact Hk.
    cbn [h_step h_stack h_err h_root h_key]. rewrite (obj_put_append k x acc Hk).
    rewrite (IH Hnm Hsm).
    + rewrite <- app_assoc. reflexivity.
    + apply Forall_app. split.
      * eapply Forall_impl; [|exact Hacc]. intros q Hq. inversion Hq; subst. assumption.
      * constructor; [|constructor]. cbn [fst]. apply Forall_forall. intros p Hin.
        rewrite forallb_forall in Hgt. specialize (Hgt p Hin). unfold key_gt in Hgt.
        destruct (key_cmp (fst p) k); try discriminate. reflexivity.
Qed.

Lemma events_build_o : forall v, EVO v.
Proof.
  apply jv_ind2; unfold EVO; try (intros; reflexivity).
  - (* array *)
    intros l HF Hn s Hs. cbn [sorted_tree] in Hn.
    change (events_of (JArr l)) with (EOpenArr :: flat_map events_of l ++ [ECloseArr]).
    destruct s as [e ro k st]. unfold ctx in Hs. cbn [h_stack h_root h_key] in Hs.
    cbn [h_run fold_left].
    fold (h_run (h_step {| h_err := e; h_root := ro; h_key := k; h_stack := st |} EOpenArr)
                (flat_map events_of l ++ [ECloseArr])).
    destruct st as [|[f a] r].
    + destruct Hs as [-> ->]. cbn [h_step h_stack h_err h_root h_key]. rewrite h_run_app.
      rewrite (children_run_o l HF Hn). reflexivity.
    + destruct f as [items|m].
      * subst k. cbn [h_step h_stack h_err h_root h_key]. rewrite h_run_app.
        rewrite (children_run_o l HF Hn). reflexivity.
      * cbn [h_step h_stack h_err h_root h_key]. rewrite h_run_app.
        rewrite (children_run_o l HF Hn). cbn [h_run fold_left h_step h_stack h_close h_err h_root h_key attach_to].
        rewrite (obj_del_absent k m Hs). reflexivity.
  - (* object *)
    intros m HF Hn s Hs. cbn [sorted_tree] in Hn. apply andb_true_iff in Hn. destruct Hn as [Hnm Hsm].
    change (events_of (JObj m)) with
      (EOpenObj :: flat_map (fun p => EKey (fst p) :: events_of (snd p)) m ++ [ECloseObj]).
    destruct s as [e ro k st]. unfold ctx in Hs. cbn [h_stack h_root h_key] in Hs.
    cbn [h_run fold_left].
    fold (h_run (h_step {| h_err := e; h_root := ro; h_key := k; h_stack := st |} EOpenObj)
                (flat_map (fun p => EKey (fst p) :: events_of (snd p)) m ++ [ECloseObj])).
    destruct st as [|[f a] r].
    + destruct Hs as [-> ->]. cbn [h_step h_stack h_err h_root h_key]. rewrite h_run_app.
      rewrite (members_run m HF Hnm Hsm) by constructor. reflexivity.
    + destruct f as [items|pm].
      * subst k. cbn [h_step h_stack h_err h_root h_key]. rewrite h_run_app.
        rewrite (members_run m HF Hnm Hsm) by constructor. reflexivity.
      * cbn [h_step h_stack h_err h_root h_key]. rewrite h_run_app.
        rewrite (members_run m HF Hnm Hsm) by constructor.
        cbn [app h_run fold_left h_step h_stack h_close h_err h_root h_key attach_to].
        rewrite (obj_del_absent k pm Hs). reflexivity.
Qed.

Lemma handler_builds_o : forall v, sorted_tree v = true ->
  h_run (h_step h_init EBegin) (events_of v) =
  {| h_err := 0; h_root := Some v; h_key := []; h_stack := [] |} /\
  h_tree (h_run (h_step h_init EBegin) (events_of v)) = Some v.
Proof.
  intros v Hn. assert (H : h_run (h_step h_init EBegin) (events_of v) = h_step h_init (EValue v)).
  { apply events_build_o; [exact Hn|]. split; reflexivity. }
  rewrite H. split; reflexivity.
Qed.
