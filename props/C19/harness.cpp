// C19 correspondence harness: the real JsonPointer / JsonParser / JsonWriter / JsonPatch / JsonData.
#include <pthread.h>
#include <sys/resource.h>
#include <memory>
#include <string>
#include <vector>
#include "ola/Logging.h"
#include "ola/web/Json.h"
#include "ola/web/JsonData.h"
#include "ola/web/JsonLexer.h"
#include "ola/web/JsonParser.h"
#include "ola/web/JsonPatch.h"
#include "ola/web/JsonPatchParser.h"
#include "ola/web/JsonPointer.h"
#include "ola/web/JsonWriter.h"
#include "vh.h"

using namespace ola::web;  // NOLINT
using std::string;
using std::vector;

static string S(const string &h) {
  vector<uint8_t> b = vh::unhex(h);
  return string(b.begin(), b.end());
}
static string H(const string &s) { return vh::hex(s); }

// canonical structural print of a value (types of the integer leaves included)
class Show : public JsonValueConstVisitorInterface, public JsonObjectPropertyVisitor {
 public:
  std::ostringstream o;
  void Visit(const JsonString &v) { o << "s" << H(v.Value()); }
  void Visit(const JsonBool &v) { o << (v.Value() ? "t" : "f"); }
  void Visit(const JsonNull &) { o << "n"; }
  void Visit(const JsonRawValue &v) { o << "R" << H(v.Value()); }
  void Visit(const JsonUInt &v) { o << "u" << v.Value(); }
  void Visit(const JsonUInt64 &v) { o << "U" << v.Value(); }
  void Visit(const JsonInt &v) { o << "i" << v.Value(); }
  void Visit(const JsonInt64 &v) { o << "I" << v.Value(); }
  void Visit(const JsonDouble &v) { o << "D" << H(v.ToString()); }
  void Visit(const JsonArray &v) {
    o << "a" << v.Size();
    for (unsigned int i = 0; i < v.Size(); i++) { o << ","; v.ElementAt(i)->Accept(this); }
  }
  void Visit(const JsonObject &v) {
    o << "o" << v.Size();
    v.VisitProperties(this);
  }
  void VisitProperty(const string &k, const JsonValue &v) {
    o << "," << H(k) << ",";
    v.Accept(this);
  }
};
static string show(const JsonValue *v) {
  if (!v) return "null";
  Show s;
  v->Accept(&s);
  return s.o.str();
}

// build a value with the typed API the way a caller would (Append / AddValue)
static JsonValue *build(const vector<string> &t, size_t *pos) {
  const string &x = t[(*pos)++];
  char c = x[0];
  string r = x.substr(1);
  switch (c) {
    case 's': return new JsonString(S(r));
    case 'u': return new JsonUInt(static_cast<uint32_t>(vh::num(r)));
    case 'i': return new JsonInt(static_cast<int32_t>(vh::snum(r)));
    case 'U': return new JsonUInt64(static_cast<uint64_t>(vh::num(r)));
    case 'I': return new JsonInt64(static_cast<int64_t>(vh::snum(r)));
    case 't': return new JsonBool(true);
    case 'f': return new JsonBool(false);
    case 'n': return new JsonNull();
    case 'D': {                            // whatever JsonParser makes of this (number) text
      string err;
      JsonValue *v = JsonParser::Parse(S(r), &err);
      return v ? v : new JsonNull();
    }
    case 'a': {
      JsonArray *a = new JsonArray();
      unsigned n = vh::num(r);
      for (unsigned i = 0; i < n; i++) {
        JsonValue *ch = build(t, pos);
        JsonObject *ob = ObjectCast(ch);
        if (ob) a->Append(ob); else a->Append(ch);
      }
      return a;
    }
    case 'o': {
      JsonObject *o = new JsonObject();
      unsigned n = vh::num(r);
      for (unsigned i = 0; i < n; i++) {
        string k = S(t[(*pos)++]);
        o->AddValue(k, build(t, pos));
      }
      return o;
    }
  }
  return new JsonNull();
}
static JsonValue *build_s(const string &enc) {
  if (enc == "null") return NULL;
  vector<string> t = vh::split(enc, ',');
  size_t pos = 0;
  return build(t, &pos);
}

static string toks_s(const JsonPointer &p) {
  string o;
  for (unsigned i = 0; i + 1 < p.TokenCount(); i++) {
    if (i) o += ",";
    o += H(p.TokenAt(i));
  }
  return o.empty() ? "." : o;
}

static string parse_result(const string &text, bool print_tree) {
  string err;
  std::auto_ptr<JsonValue> v(JsonParser::Parse(text, &err));
  if (!v.get()) return "ok=0;err=" + H(err);
  string w = JsonWriter::AsString(*v);
  string err2;
  std::auto_ptr<JsonValue> v2(JsonParser::Parse(w, &err2));
  bool rt = v2.get() && *v2 == *v && *v == *v2 && show(v2.get()) == show(v.get()) &&
            JsonWriter::AsString(*v2) == w;
  string out = "ok=1";
  if (print_tree) out += ";tree=" + show(v.get()) + ";w=" + H(w);
  else out += ";wl=" + vh::str(w.size());
  return out + ";rt=" + (rt ? "1" : "0");
}

// a document of exactly n bytes: s = one string, a = the writer's form of an array of integers,
// w = "[1" + blanks + "]"
static string sized_doc(const string &kind, size_t n) {
  if (kind == "s") return n < 2 ? string(n, '"') : "\"" + string(n - 2, 'a') + "\"";
  if (kind == "w") return n < 3 ? string(n, '[') : "[1" + string(n - 3, ' ') + "]";
  if (n < 3) return string(n, '[');
  size_t k = (n - 3) / 3, rem = (n - 3) % 3;
  string t = "[";
  for (size_t i = 0; i < k; i++) t += "7, ";
  return t + string(1 + rem, '7') + "]";
}

// what JsonParser::Parse does, on a given (possibly long-lived) parser object
static string parse_with(JsonParser *parser, const string &text) {
  if (JsonLexer::Parse(text, parser)) {
    std::auto_ptr<JsonValue> v(parser->ClaimRoot());
    return "ok:" + show(v.get());
  }
  return "err:" + H(parser->GetError());
}

// A handler that parses ANOTHER text from inside its k-th callback (overlapping parses).
class NestingParser : public JsonParser {
 public:
  NestingParser(unsigned fire_at, const string &inner)
      : m_count(0), m_fire_at(fire_at), m_inner(inner), m_fired(false) {}
  void String(const string &v) { Hook(); JsonParser::String(v); }
  void Number(uint32_t v) { Hook(); JsonParser::Number(v); }
  void Number(int32_t v) { Hook(); JsonParser::Number(v); }
  void Number(uint64_t v) { Hook(); JsonParser::Number(v); }
  void Number(int64_t v) { Hook(); JsonParser::Number(v); }
  void Number(const JsonDouble::DoubleRepresentation &v) { Hook(); JsonParser::Number(v); }
  void Number(double v) { Hook(); JsonParser::Number(v); }
  void Bool(bool v) { Hook(); JsonParser::Bool(v); }
  void Null() { Hook(); JsonParser::Null(); }
  void OpenArray() { Hook(); JsonParser::OpenArray(); }
  void CloseArray() { Hook(); JsonParser::CloseArray(); }
  void OpenObject() { Hook(); JsonParser::OpenObject(); }
  void ObjectKey(const string &k) { Hook(); JsonParser::ObjectKey(k); }
  void CloseObject() { Hook(); JsonParser::CloseObject(); }
  bool fired() const { return m_fired; }
  const string &inner_result() const { return m_inner_result; }
 private:
  void Hook() {
    if (++m_count == m_fire_at) {
      m_fired = true;
      JsonParser fresh;
      m_inner_result = parse_with(&fresh, m_inner);
    }
  }
  unsigned m_count, m_fire_at;
  string m_inner;
  bool m_fired;
  string m_inner_result;
};

// threads parsing different texts at the same time
struct ThreadJob { string text; string expected; unsigned rounds; bool ok; };
static void *thread_main(void *arg) {
  ThreadJob *job = static_cast<ThreadJob*>(arg);
  job->ok = true;
  for (unsigned i = 0; i < job->rounds; i++) {
    JsonParser parser;
    if (parse_with(&parser, job->text) != job->expected) job->ok = false;
  }
  return NULL;
}

static JsonPatchOp *mk_op(const string &s) {
  vector<string> f = vh::split(s, ':');
  const string &k = f[0];
  if (k == "add") return new JsonPatchAddOp(JsonPointer(S(f[1])), build_s(f[2]));
  if (k == "rem") return new JsonPatchRemoveOp(JsonPointer(S(f[1])));
  if (k == "rep") return new JsonPatchReplaceOp(JsonPointer(S(f[1])), build_s(f[2]));
  if (k == "mov") return new JsonPatchMoveOp(JsonPointer(S(f[1])), JsonPointer(S(f[2])));
  if (k == "cpy") return new JsonPatchCopyOp(JsonPointer(S(f[1])), JsonPointer(S(f[2])));
  return new JsonPatchTestOp(JsonPointer(S(f[1])), build_s(f[2]));
}

// Lexing/parsing/writing a text of at most 64 KiB takes milliseconds; a short watchdog turns any
// work that is not proportional to the input (e.g. a loop over a number's exponent VALUE inside
// JsonDouble, which the model keeps opaque) into crash=HANG quickly.
static const unsigned kParseWatchdogSeconds = 4;

static string handle(const string &p) {
  vector<string> a = vh::split(p);
  const string &op = a[0];
  if (op == "parse" || op == "deep" || op == "tree" || op == "len" || op == "seq" || op == "pdoc" || op == "ev" || op == "nest" || op == "thr") alarm(kParseWatchdogSeconds);
  if (op == "ptr") {                      // pointer from its string form
    JsonPointer ptr(S(a[1]));
    if (!ptr.IsValid()) return "valid=0";
    string str = ptr.ToString();
    JsonPointer back(str);
    return "valid=1;toks=" + toks_s(ptr) + ";str=" + H(str) + ";rt=" +
           ((back.IsValid() && back == ptr && toks_s(back) == toks_s(ptr)) ? "1" : "0");
  }
  if (op == "ptrt" || op == "pre") {       // pointer from tokens (Push)
    JsonPointer p1, p2;
    if (a[1] != ".") { vector<string> t = vh::split(a[1], ','); for (size_t i = 0; i < t.size(); i++) p1.Push(S(t[i])); }
    if (op == "pre") {
      if (a[2] != ".") { vector<string> t = vh::split(a[2], ','); for (size_t i = 0; i < t.size(); i++) p2.Push(S(t[i])); }
      return string("pre=") + (p1.IsPrefixOf(p2) ? "1" : "0") + ";eq=" + (p1 == p2 ? "1" : "0");
    }
    string str = p1.ToString();
    JsonPointer back(str);
    return "str=" + H(str) + ";valid=" + (back.IsValid() ? "1" : "0") + ";back=" + toks_s(back) +
           ";rt=" + ((back.IsValid() && back == p1) ? "1" : "0");
  }
  if (op == "parse") return parse_result(S(a[1]), true);
  if (op == "deep") {                      // nesting ladder: kind, depth, closed?
    unsigned n = vh::num(a[2]);
    bool close = a[3] == "1";
    string t;
    if (a[1] == "a") { t = string(n, '['); if (close) t += string(n, ']'); }
    else if (a[1] == "o") {
      for (unsigned i = 0; i < n; i++) t += "{\"a\":";
      t += "1";
      if (close) t += string(n, '}');
    } else {
      for (unsigned i = 0; i < n; i++) t += (i & 1) ? "{\"k\": " : "[1, ";
      t += "null";
      if (close) for (unsigned i = n; i > 0; i--) t += ((i - 1) & 1) ? "}" : "]";
    }
    return parse_result(t, false);
  }
  if (op == "nest") {                      // parse <inner> from inside the k-th callback of parsing <outer>
    string outer = S(a[2]), inner = S(a[3]);
    JsonParser seq;
    string inner_alone = parse_with(&seq, inner);
    NestingParser nesting(vh::num(a[1]), inner);
    string r = parse_with(&nesting, outer);
    bool inner_ok = !nesting.fired() || nesting.inner_result() == inner_alone;
    return "outer=" + r + ";inner=" + inner_alone + ";innerok=" + (inner_ok ? "1" : "0");
  }
  if (op == "thr") {                       // N threads, each parsing its own text repeatedly
    vector<string> texts = vh::split(a[1], ',');
    vector<ThreadJob> jobs(texts.size());
    std::ostringstream o;
    for (size_t i = 0; i < texts.size(); i++) {
      JsonParser seq;
      jobs[i].text = S(texts[i]);
      jobs[i].expected = parse_with(&seq, jobs[i].text);
      jobs[i].rounds = 40;
      jobs[i].ok = false;
      o << "p" << i << "=" << jobs[i].expected << ";";
    }
    vector<pthread_t> ids(texts.size());
    for (size_t i = 0; i < jobs.size(); i++) pthread_create(&ids[i], NULL, thread_main, &jobs[i]);
    bool all = true;
    for (size_t i = 0; i < jobs.size(); i++) { pthread_join(ids[i], NULL); all = all && jobs[i].ok; }
    o << "mt=" << (all ? "1" : "0");
    return o.str();
  }
  if (op == "ev") {                        // the JsonParserInterface driven directly, any event order
    vector<string> ev = vh::split(a[1], ',');
    JsonParser parser;
    std::ostringstream o;
    for (size_t i = 0; i < ev.size(); i++) {
      const string &e = ev[i];
      string r = e.substr(1);
      switch (e[0]) {
        case 'B': parser.Begin(); break;
        case 'E': parser.End(); break;
        case 's': parser.String(S(r)); break;
        case 'u': parser.Number(static_cast<uint32_t>(vh::num(r))); break;
        case 'i': parser.Number(static_cast<int32_t>(vh::snum(r))); break;
        case 'U': parser.Number(static_cast<uint64_t>(vh::num(r))); break;
        case 'I': parser.Number(static_cast<int64_t>(vh::snum(r))); break;
        case 't': parser.Bool(true); break;
        case 'f': parser.Bool(false); break;
        case 'n': parser.Null(); break;
        case '[': parser.OpenArray(); break;
        case ']': parser.CloseArray(); break;
        case '{': parser.OpenObject(); break;
        case 'k': parser.ObjectKey(S(r)); break;
        case '}': parser.CloseObject(); break;
        case 'X': parser.SetError("x"); break;
      }
      o << "r" << i << "=" << show(parser.GetRoot()) << ";";
    }
    o << "herr=" << H(parser.GetError());
    std::auto_ptr<JsonValue> claimed(parser.ClaimRoot());
    o << ";claim=" << show(claimed.get());
    return o.str();
  }
  if (op == "pdoc") {                      // patch given as TEXT: JsonPatchParser, then JsonData::Apply
    string text = S(a[2]);
    JsonPatchSet set;
    string err;
    bool ok = JsonPatchParser::Parse(text, &set, &err);
    JsonData d(build_s(a[1]));
    if (!ok) {
      string lexerr;
      std::auto_ptr<JsonValue> lexed(JsonParser::Parse(text, &lexerr));
      return "pp=0;perr=" + (lexed.get() ? H(err) : string("lex")) + ";all=0;dall=" + show(d.Value());
    }
    bool applied = d.Apply(set);
    return string("pp=1;all=") + (applied ? "1" : "0") + ";dall=" + show(d.Value());
  }
  if (op == "cmp") {                       // operator== / != / < / <= / > / >= between two values
    std::auto_ptr<JsonValue> x(build_s(a[1])), y(build_s(a[2]));
    string o = string("eq=") + (*x == *y ? "1" : "0") + ";qe=" + (*y == *x ? "1" : "0") +
               ";ne=" + (*x != *y ? "1" : "0");
    const JsonNumber *nx = dynamic_cast<const JsonNumber*>(x.get());
    const JsonNumber *ny = dynamic_cast<const JsonNumber*>(y.get());
    if (nx && ny && !dynamic_cast<const JsonDouble*>(nx) && !dynamic_cast<const JsonDouble*>(ny)) {
      o += string(";lt=") + (*nx < *ny ? "1" : "0") + ";le=" + (*nx <= *ny ? "1" : "0") +
           ";gt=" + (*nx > *ny ? "1" : "0") + ";ge=" + (*nx >= *ny ? "1" : "0");
    }
    return o;
  }
  if (op == "len") return parse_result(sized_doc(a[1], vh::num(a[2])), false);
  if (op == "seq") {                       // ONE JsonParser object for a whole sequence of texts
    vector<string> texts = vh::split(a[1], ',');
    JsonParser reused;
    std::ostringstream o;
    bool same = true;
    for (size_t i = 0; i < texts.size(); i++) {
      string t = S(texts[i]);
      string r = parse_with(&reused, t);
      JsonParser fresh;
      same = same && (r == parse_with(&fresh, t));
      o << "p" << i << "=" << r << ";";
    }
    o << "fresh=" << (same ? "1" : "0");
    return o.str();
  }
  if (op == "tree") {                      // API-built value: write, parse back, compare
    std::auto_ptr<JsonValue> v(build_s(a[1]));
    string w = JsonWriter::AsString(*v);
    string err;
    std::auto_ptr<JsonValue> v2(JsonParser::Parse(w, &err));
    if (!v2.get()) return "w=" + H(w) + ";ok=0";
    bool eq = *v2 == *v && *v == *v2;
    string w2 = JsonWriter::AsString(*v2);
    return "w=" + H(w) + ";ok=1;eq=" + (eq ? "1" : "0") + ";back=" + show(v2.get()) +
           ";same=" + (w2 == w ? "1" : "0");
  }
  if (op == "patch") {                     // doc, ops: one at a time (trace) and as one set
    vector<string> ops = vh::split(a[2], ';');
    std::ostringstream o;
    {
      JsonData d(build_s(a[1]));
      for (size_t i = 0; i < ops.size(); i++) {
        JsonPatchSet set;
        set.AddOp(mk_op(ops[i]));
        bool ok = d.Apply(set);
        o << "r" << i << "=" << (ok ? "1" : "0") << ";d" << i << "=" << show(d.Value()) << ";";
      }
    }
    JsonData d(build_s(a[1]));
    JsonPatchSet set;
    for (size_t i = 0; i < ops.size(); i++) set.AddOp(mk_op(ops[i]));
    bool ok = d.Apply(set);
    o << "all=" << (ok ? "1" : "0") << ";dall=" << show(d.Value());
    return o.str();
  }
  return "bad-op";
}

int main(int argc, char **argv) {
  ola::InitLogging(ola::OLA_LOG_NONE, ola::OLA_LOG_NULL);
  return vh::run(argc, argv, handle, 30);
}
