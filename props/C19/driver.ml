(* C19 model driver *)
let s_of_hex h = bytes_of_hex h
let rec show (v : jv) : string =
  match v with
  | JStr s -> "s" ^ hex_of_bytes s
  | JUInt n -> "u" ^ string_of_n n
  | JUInt64 n -> "U" ^ string_of_n n
  | JInt z -> "i" ^ string_of_z z
  | JInt64 z -> "I" ^ string_of_z z
  | JDbl (ng, fu, lz, fr, ex) -> "D" ^ hex_of_bytes (write cx_parsed O v)
  | JBool b -> if b then "t" else "f"
  | JNull -> "n"
  | JArr l -> "a" ^ string_of_int (List.length l) ^ String.concat "" (List.map (fun x -> "," ^ show x) l)
  | JObj m -> "o" ^ string_of_int (List.length m) ^
              String.concat "" (List.map (fun (k, x) -> "," ^ hex_of_bytes k ^ "," ^ show x) m)
and string_of_z (z : z) : string =
  match z with Z0 -> "0" | Zpos p -> string_of_n (Npos p) | Zneg p -> "-" ^ string_of_n (Npos p)
let show_doc (d : jv option) = match d with None -> "null" | Some v -> show v

let z_of_string (s : string) : z =
  if String.length s > 0 && s.[0] = '-' then
    (match n_of_string (String.sub s 1 (String.length s - 1)) with N0 -> Z0 | Npos p -> Zneg p)
  else (match n_of_string s with N0 -> Z0 | Npos p -> Zpos p)

(* the same typed-API construction as the harness: AddValue for members (sorted map, replace) *)
let rec obj_put_ml k v m = match m with
  | [] -> [(k, v)]
  | (k', v') :: r -> let c = compare_keys k k' in
                     if c < 0 then (k, v) :: m else if c = 0 then (k, v) :: r else (k', v') :: obj_put_ml k v r
and compare_keys a b = match a, b with
  | [], [] -> 0 | [], _ -> -1 | _, [] -> 1
  | x :: a', y :: b' -> let c = compare (int_of_n x) (int_of_n y) in if c <> 0 then c else compare_keys a' b'
let build_s (enc : string) : jv option =
  if enc = "null" then None else begin
    let t = Array.of_list (String.split_on_char ',' enc) in
    let pos = ref 0 in
    let rec build () : jv =
      let x = t.(!pos) in incr pos;
      let r = String.sub x 1 (String.length x - 1) in
      match x.[0] with
      | 's' -> JStr (s_of_hex r)
      | 'u' -> JUInt (n_of_string r) | 'U' -> JUInt64 (n_of_string r)
      | 'i' -> JInt (z_of_string r) | 'I' -> JInt64 (z_of_string r)
      | 't' -> JBool true | 'f' -> JBool false | 'n' -> JNull
      | 'D' -> (match parse_text (s_of_hex r) with POk (v, _) -> v | _ -> JNull)
      | 'a' -> let n = ios r in
               let l = ref [] in
               for _ = 1 to n do l := build () :: !l done; JArr (List.rev !l)
      | 'o' -> let n = ios r in
               let m = ref [] in
               for _ = 1 to n do
                 let k = s_of_hex t.(!pos) in incr pos;
                 let v = build () in m := obj_put_ml k v !m
               done; JObj !m
      | _ -> JNull in
    Some (build ()) end
let getv o = match o with Some v -> v | None -> JNull

let toks_s (l : n list list) = if l = [] then "." else String.concat "," (List.map hex_of_bytes l)
let toks_p (s : string) : n list list =
  if s = "." then [] else List.map s_of_hex (String.split_on_char ',' s)

let string_of_bytes (l : n list) : string = String.concat "" (List.map (fun c -> String.make 1 (Char.chr (int_of_n c land 255))) l)
let hex_of_string (s : string) =
  if s = "" then "-" else String.concat "" (List.map (fun c -> Printf.sprintf "%02x" (Char.code c)) (List.init (String.length s) (String.get s)))
let bytes_of_string (s : string) : n list = List.init (String.length s) (fun i -> n_of_int (Char.code s.[i]))

let depth_k = lazy (nat_of_int (int_of_n mAX_DEPTH))
(* instance check of c19_roundtrip: inside the guard, parse (write v) must be canon v and re-write to the same text *)
let rt_instance (v : jv) (w : n list) : string =
  if wfb (Lazy.force depth_k) v && write cx_parsed O v = w then
    (match parse_text w with
     | POk (v2, []) when v2 = canon v && write cx_parsed O v2 = w && jv_eqb v v2 -> ";wf=1"
     | _ -> ";wf=1;chk=RT-FAIL")
  else ""

let parse_result (text : n list) (print_tree : bool) : string =
  match parse_text text with
  | PFuel -> "ok=FUEL;class=parse:fuel"
  | PDeep -> "ok=DEEP;class=parse:deep-hazard"
  | PErr e -> "ok=0;err=" ^ hex_of_string (string_of_bytes (lexer_error_text e)) ^ ";class=parse:err" ^ string_of_int (int_of_n e)
  | POk (v, _) ->
    let w = write cx_parsed O v in
    let rt = match parse_text w with
      | POk (v2, _) -> show v2 = show v && write cx_parsed O v2 = w
      | _ -> false in
    let kind = match v with JArr _ -> "arr" | JObj _ -> "obj" | JStr _ -> "str" | JDbl _ -> "dbl"
                          | JBool _ | JNull -> "lit" | _ -> "int" in
    "ok=1" ^ (if print_tree then ";tree=" ^ show v ^ ";w=" ^ hex_of_bytes w
              else ";wl=" ^ string_of_int (List.length w)) ^
    let inst = rt_instance v w in
    ";rt=" ^ bool01 rt ^ (if inst = ";wf=1" then "" else if inst = "" then "" else ";chk=RT-FAIL") ^
    ";class=parse:ok-" ^ kind ^ (if rt then "" else "-nort") ^ (if inst = "" then "" else "-wf")

let sized_doc (kind : string) (n : int) : string =
  if kind = "s" then (if n < 2 then String.make n '"' else "\"" ^ String.make (n - 2) 'a' ^ "\"")
  else if kind = "w" then (if n < 3 then String.make n '[' else "[1" ^ String.make (n - 3) ' ' ^ "]")
  else if n < 3 then String.make n '['
  else begin
    let k = (n - 3) / 3 and rem = (n - 3) mod 3 in
    let b = Buffer.create (n + 4) in
    Buffer.add_char b '[';
    for _ = 1 to k do Buffer.add_string b "7, " done;
    Buffer.add_string b (String.make (1 + rem) '7'); Buffer.add_char b ']';
    Buffer.contents b end

let mk_op (s : string) : pop =
  match String.split_on_char ':' s with
  | ["add"; p; v] -> PAdd (ptr_parse (s_of_hex p), getv (build_s v))
  | ["rem"; p] -> PRemove (ptr_parse (s_of_hex p))
  | ["rep"; p; v] -> PReplace (ptr_parse (s_of_hex p), getv (build_s v))
  | ["mov"; f; t] -> PMove (ptr_parse (s_of_hex f), ptr_parse (s_of_hex t))
  | ["cpy"; f; t] -> PCopy (ptr_parse (s_of_hex f), ptr_parse (s_of_hex t))
  | ["tst"; p; v] -> PTest (ptr_parse (s_of_hex p), getv (build_s v))
  | _ -> failwith "bad op"

let known_ids = [| ""; "C19-patch-dash-last-element"; "C19-patch-add-at-length"; "C19-patch-identity-or-no-document" |]

let handle (p : string) : string =
  match split p with
  | ["ptr"; h] ->
    (match ptr_parse (s_of_hex h) with
     | None -> "valid=0;class=ptr:invalid"
     | Some toks ->
       let str = ptr_to_string toks in
       let rt = (match ptr_parse str with Some t2 -> t2 = toks | None -> false) in
       "valid=1;toks=" ^ toks_s toks ^ ";str=" ^ hex_of_bytes str ^ ";rt=" ^ bool01 rt ^
       ";class=ptr:string-" ^ string_of_int (min 4 (List.length toks)) ^ "tok")
  | ["ptrt"; t] ->
    let toks = toks_p t in
    let str = ptr_to_string toks in
    (match ptr_parse str with
     | None -> "str=" ^ hex_of_bytes str ^ ";valid=0;back=.;rt=0;class=ptr:tokens"
     | Some b -> "str=" ^ hex_of_bytes str ^ ";valid=1;back=" ^ toks_s b ^ ";rt=" ^ bool01 (b = toks) ^
                 ";class=ptr:tokens-" ^ string_of_int (min 4 (List.length toks)))
  | ["pre"; a; b] ->
    let a = toks_p a and b = toks_p b in
    let r = is_prefix_of a b in
    "pre=" ^ bool01 r ^ ";eq=" ^ bool01 (toks_eqb a b) ^ ";class=ptr:prefix-" ^ bool01 r
  | ["parse"; h] -> parse_result (s_of_hex h) true
  | ["deep"; k; n; c] ->
    let n = ios n and close = c = "1" in
    let b = Buffer.create 1024 in
    (match k with
     | "a" -> Buffer.add_string b (String.make n '['); if close then Buffer.add_string b (String.make n ']')
     | "o" -> for _ = 1 to n do Buffer.add_string b "{\"a\":" done; Buffer.add_string b "1";
              if close then Buffer.add_string b (String.make n '}')
     | _ -> for i = 0 to n - 1 do Buffer.add_string b (if i land 1 = 1 then "{\"k\": " else "[1, ") done;
            Buffer.add_string b "null";
            if close then for i = n downto 1 do Buffer.add_string b (if (i - 1) land 1 = 1 then "}" else "]") done);
    let r = parse_result (bytes_of_string (Buffer.contents b)) false in
    r ^ "-deep" ^ (if n > int_of_n mAX_DEPTH then "-over" else if n = int_of_n mAX_DEPTH then "-at" else "-under")
  | ["nest"; _; outer; inner] ->
    let res r = match r with
      | POk (v, _) -> "ok:" ^ show v
      | PErr e -> "err:" ^ hex_of_string (string_of_bytes (lexer_error_text e))
      | PFuel -> "FUEL" | PDeep -> "DEEP" in
    let ro = parse_text (s_of_hex outer) and ri = parse_text (s_of_hex inner) in
    "outer=" ^ res ro ^ ";inner=" ^ res ri ^ ";innerok=1;class=nest:" ^
    (match ro with POk _ -> "outer-ok" | _ -> "outer-err") ^ (match ri with POk _ -> "-inner-ok" | _ -> "-inner-err")
  | ["thr"; ts] ->
    let texts = List.map s_of_hex (String.split_on_char ',' ts) in
    let b = Buffer.create 256 in
    List.iteri (fun i r ->
      Buffer.add_string b (Printf.sprintf "p%d=%s;" i
        (match r with
         | POk (v, _) -> "ok:" ^ show v
         | PErr e -> "err:" ^ hex_of_string (string_of_bytes (lexer_error_text e))
         | PFuel -> "FUEL" | PDeep -> "DEEP"))) (parse_seq texts);
    Buffer.add_string b (Printf.sprintf "mt=1;class=thr:%dthreads" (List.length texts));
    Buffer.contents b
  | ["ev"; es] ->
    let ev_of (e : string) : hevent =
      let r = String.sub e 1 (String.length e - 1) in
      match e.[0] with
      | 'B' -> EBegin | 'E' -> EEnd | 's' -> EValue (JStr (s_of_hex r))
      | 'u' -> EValue (JUInt (n_of_string r)) | 'i' -> EValue (JInt (z_of_string r))
      | 'U' -> EValue (JUInt64 (n_of_string r)) | 'I' -> EValue (JInt64 (z_of_string r))
      | 't' -> EValue (JBool true) | 'f' -> EValue (JBool false) | 'n' -> EValue JNull
      | '[' -> EOpenArr | ']' -> ECloseArr | '{' -> EOpenObj | 'k' -> EKey (s_of_hex r) | '}' -> ECloseObj
      | _ -> ESetError in
    let b = Buffer.create 256 in
    let st = ref h_init in
    List.iteri (fun i e ->
      st := h_step !st (ev_of e);
      Buffer.add_string b (Printf.sprintf "r%d=%s;" i (show_doc (h_tree !st)))) (String.split_on_char ',' es);
    let err = int_of_n !st.h_err in
    Buffer.add_string b ("herr=" ^ hex_of_string (string_of_bytes (handler_error_text !st.h_err)));
    Buffer.add_string b (";claim=" ^ (if err = 0 then show_doc (h_tree !st) else "null"));
    Buffer.add_string b (Printf.sprintf ";class=ev:%s-depth%d" (if err = 0 then "noerr" else "err" ^ string_of_int err)
                           (min 3 (List.length !st.h_stack)));
    Buffer.contents b
  | ["pdoc"; d; t] ->
    let d0 = build_s d in
    let text = s_of_hex t in
    (match patch_parse_text text with
     | PPOk ops ->
       let (ok, d') = patch_apply_text text d0 in
       let qf = quirk_free ops d0 in
       let (rok, rd) = rfc_patch ops d0 in
       "pp=1;all=" ^ bool01 ok ^ ";dall=" ^ show_doc d' ^
       (if qf && (rok <> ok || rd <> d') then ";chk=RFC-MISMATCH" else "") ^
       (if not qf then begin
          let rec first ops d = match ops with
            | [] -> 0
            | o :: r -> let k = int_of_n (quirk_kind o d) in
                        if k <> 0 then k else (match apply_op o d with Some d' -> first r d' | None -> 0) in
          ";known=" ^ known_ids.(first ops d0) end else "") ^
       Printf.sprintf ";class=pdoc:accepted-%dops-%s" (min 4 (List.length ops)) (if ok then "applied" else "failed")
     | PPBad c ->
       let (_, d') = patch_apply_text text d0 in
       "pp=0;perr=" ^ hex_of_string (string_of_bytes (patch_error_text c)) ^ ";all=0;dall=" ^ show_doc d' ^ ";class=pdoc:bad" ^ string_of_int (int_of_n c)
     | PPLex _ -> "pp=0;perr=lex;all=0;dall=" ^ show_doc d0 ^ ";class=pdoc:lexerr"
     | PPHaz -> "pp=HAZARD;class=pdoc:hazard")
  | ["cmp"; x; y] ->
    let x = getv (build_s x) and y = getv (build_s y) in
    let is_int v = match v with JUInt _ | JInt _ | JUInt64 _ | JInt64 _ -> true | _ -> false in
    let kind v = match v with JUInt _ -> "u" | JInt _ -> "i" | JUInt64 _ -> "U" | JInt64 _ -> "I" | JDbl _ -> "D"
                            | JArr _ -> "a" | JObj _ -> "o" | _ -> "x" in
    if is_int x && is_int y then begin
      (* the branch-for-branch CompareNumbers model; must agree with the value-based jv_eqb *)
      let eq = num_eq_cpp x y and qe = num_eq_cpp y x and lt = num_lt_cpp x y in
      let chk = if eq <> jv_eqb x y || qe <> jv_eqb y x then ";chk=EQ-MISMATCH" else "" in
      Printf.sprintf "eq=%s;qe=%s;ne=%s;lt=%s;le=%s;gt=%s;ge=%s%s;class=cmp:%s%s-%s" (bool01 eq) (bool01 qe)
        (bool01 (not eq)) (bool01 lt) (bool01 (eq || lt)) (bool01 (not (eq || lt))) (bool01 (not lt)) chk
        (kind x) (kind y) (if eq then "eq" else if lt then "lt" else "gt")
    end else begin
      let eq = jv_eqb x y and qe = jv_eqb y x in
      Printf.sprintf "eq=%s;qe=%s;ne=%s;class=cmp:%s%s-%s" (bool01 eq) (bool01 qe) (bool01 (not eq))
        (kind x) (kind y) (if eq then "eq" else "ne")
    end
  | ["len"; kind; n] ->
    let n = ios n in
    let r = parse_result (bytes_of_string (sized_doc kind n)) false in
    let is_pow2pm1 = List.exists (fun k -> abs (n - (1 lsl k)) <= 1) [5; 6; 7; 8; 9; 10; 11; 12; 13; 14; 15; 16] in
    r ^ "-len" ^ kind ^ (if is_pow2pm1 then "-pow2" else "")
  | ["seq"; ts] ->
    let texts = List.map s_of_hex (String.split_on_char ',' ts) in
    let rs = parse_seq texts in
    let b = Buffer.create 256 in
    let nok = ref 0 and nerr = ref 0 in
    List.iteri (fun i r ->
      Buffer.add_string b (Printf.sprintf "p%d=%s;" i
        (match r with
         | POk (v, _) -> incr nok; "ok:" ^ show v
         | PErr e -> incr nerr; "err:" ^ hex_of_string (string_of_bytes (lexer_error_text e))
         | PFuel -> "FUEL" | PDeep -> "DEEP"))) rs;
    Buffer.add_string b "fresh=1";
    Buffer.add_string b (Printf.sprintf ";class=seq:%dok-%derr" (min !nok 4) (min !nerr 4));
    Buffer.contents b
  | ["tree"; enc] ->
    let v = getv (build_s enc) in
    let w = write cx_api O v in
    (match parse_text w with
     | POk (v2, _) ->
       let eq = jv_eqb v2 v && jv_eqb v v2 in
       let same = write cx_parsed O v2 = w in
       "w=" ^ hex_of_bytes w ^ ";ok=1;eq=" ^ bool01 eq ^ ";back=" ^ show v2 ^ ";same=" ^ bool01 same ^
       let inst = rt_instance v w in
       (if inst = ";wf=1;chk=RT-FAIL" then ";chk=RT-FAIL" else "") ^
       (if same then "" else ";known=C19-array-complex-flag") ^
       ";class=tree:" ^ (if eq then "eq" else "NEQ") ^ (if same then "-same" else "-difftext") ^
       (if inst = "" then "" else "-wf")
     | _ -> "w=" ^ hex_of_bytes w ^ ";ok=0;class=tree:unparsable")
  | ["patch"; d; ops] ->
    let d0 = build_s d in
    let ops = List.map mk_op (String.split_on_char ';' ops) in
    let b = Buffer.create 256 in
    let cur = ref d0 in
    let nok = ref 0 in
    List.iteri (fun i o ->
      let (ok, d') = data_apply [o] !cur in
      if ok then incr nok;
      cur := d';
      Buffer.add_string b (Printf.sprintf "r%d=%s;d%d=%s;" i (bool01 ok) i (show_doc d'))) ops;
    let (ok, dall) = data_apply ops d0 in
    Buffer.add_string b ("all=" ^ bool01 ok ^ ";dall=" ^ show_doc dall);
    (* instance check of c19_patch_rfc_partial / c19_patch_atomic on this run *)
    let qf = quirk_free ops d0 in
    let (rok, rd) = rfc_patch ops d0 in
    if qf && (rok <> ok || rd <> dall) then Buffer.add_string b ";chk=RFC-MISMATCH";
    if (not ok) && dall <> d0 then Buffer.add_string b ";chk=NOT-ATOMIC";
    if not qf then begin
      (* which recorded departure is hit first *)
      let rec first ops d = match ops with
        | [] -> 0
        | o :: r -> let k = int_of_n (quirk_kind o d) in
                    if k <> 0 then k else (match apply_op o d with Some d' -> first r d' | None -> 0) in
      Buffer.add_string b (";known=" ^ known_ids.(first ops d0))
    end;
    Buffer.add_string b (Printf.sprintf ";class=patch:%s-%dof%d%s" (if ok then "applied" else "failed")
                           !nok (List.length ops) (if qf then "" else "-quirk"));
    Buffer.contents b
  | _ -> "bad-op"
let () = vh_run handle
