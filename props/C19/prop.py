ID = 'C19'
GROUPS = ['common']
CXX_SOURCES = []
PROC_TIMEOUT = 900
COQ_TIMEOUT = 1500

def _bytes(t):
    return '[' + '; '.join(str(b) for b in t.encode('latin-1')) + ']'

def gen_consts(v):
    """Gen.v = numeric constants (compiled against the headers) + the message / keyword texts of the
    lexer, JsonParser and JsonPatchParser extracted from the repository sources."""
    import os, re
    tmp = os.path.join(v.BUILD, ID, 'Gen_num.v')
    err = v.gen_consts_cpp(ID, ['ola/web/JsonLexer.h'], [('MAX_DEPTH', 'ola::web::JsonLexer::MAX_DEPTH')], tmp)
    if err:
        return err
    def src(rel):
        return open(v.repo_path(rel), encoding='latin-1').read()
    def uniq(l):
        out = []
        for x in l:
            if x not in out: out.append(x)
        return out
    lex = uniq(re.findall(r'SetError\(\s*"([^"]*)"\s*\)', src('common/web/JsonLexer.cpp')))
    pp = src('common/web/JsonPatchParser.cpp')
    consts = re.findall(r'const char JsonPatchParser::(k\w+)\[\]\s*=\s*"([^"]*)"', pp)
    pplit = uniq(re.findall(r'SetError\(\s*"([^"]*)"\s*\)', pp))
    internal = uniq([x for x in re.findall(r'm_error = "([^"]*)"', src('common/web/JsonParser.cpp')) if x])
    out = open(tmp).read()
    out += 'From Coq Require Import List.\nImport ListNotations.\n'
    out += '(* texts extracted from common/web/JsonLexer.cpp, JsonParser.cpp, JsonPatchParser.cpp *)\n'
    out += 'Definition LEXER_ERRORS : list (list N) := [%s].\n' % '; '.join(_bytes(t) for t in lex)
    out += 'Definition PARSER_ERRORS : list (list N) := [%s].\n' % '; '.join(_bytes(t) for t in internal)
    out += 'Definition PATCHPARSER_ERRORS : list (list N) := [%s].\n' % '; '.join(_bytes(t) for t in pplit)
    for name, text in consts:
        out += 'Definition PP_%s : list N := %s.\n' % (name, _bytes(text))
    gen = os.path.join(v.VERIF, 'props', ID, 'coq', 'Gen.v')
    old = open(gen).read() if os.path.exists(gen) else None
    if out != old:
        with open(gen, 'w') as f:
            f.write(out)
    return None

SPEC_KEYS = (['valid', 'toks', 'str', 'rt', 'back', 'pre', 'eq', 'ok', 'tree', 'w', 'same', 'all', 'dall', 'chk', 'fresh', 'qe', 'ne', 'lt', 'le', 'gt', 'ge', 'pp', 'perr', 'herr', 'claim', 'outer', 'inner', 'innerok', 'mt']
             + ['p%d' % i for i in range(16)]
             + ['r%d' % i for i in range(16)] + ['d%d' % i for i in range(16)])
INTERNAL_KEYS = []          # 'err' (message text) and 'wl' are compared but are not property-determined

RULE = ('pointer token lists over {~ / 0 1 a "" ~0 ~1 ~01 ...} (all lists up to length 2, random to 5) and '
        'pointer strings; documents = generated trees rendered with random whitespace, number/escape boundary '
        'texts (2^31, 2^32, 2^63, 2^64 +-1, leading zeros, lone signs, every escape), doubles with 1-20 digit exponents of '
        'both signs / int32- and uint64-wrap exponents / long digit strings / leading fractional zeros under a 4 s '
        'per-case watchdog, an exact-length sweep (every document size 1..4200 and 2^k-1..2^k+1 up to 65537), sequences of '
        'operator==/!=/</<=/>/>= on every pair of integer node kinds at 0, +-1, 2^31, 2^32, 2^63, 2^64 boundaries and their '
        '2^32/2^63/2^64 aliases in both orders (bare, inside containers, in patch test ops), sequences of '
        'trees differing only in member names / element order / nesting shape compared with == and as patch test values, '
        'overlapping parses (a second text parsed from inside the k-th handler callback; 2-4 threads parsing different texts '
        '40 times each, results must equal the sequential ones), the JsonParser handler interface driven directly by arbitrary, also ill-nested, event sequences (root compared after every event), '
        'JSON Patch documents as TEXT through JsonPatchParser (well-formed, member order shuffled, duplicate/missing/wrongly '
        'typed members, unknown ops, non-object elements, non-array documents, truncations) applied to generated targets, sequences of '
        'texts through ONE long-lived JsonParser (failing inside open containers at every depth, then valid), mutated documents, random '
        'bytes, NUL, nesting ladders around MAX_DEPTH and up to 64 KiB; API-built trees to depth 8; patch programs '
        'of 1-8 ops on generated documents with paths aimed at existing members, indices len-1/len/len+1, "-", '
        'non-canonical indices and keys containing / and ~.  non-trivial = pointer valid / text accepted / tree '
        'round-trips / patch applied and changed the document; distinct = distinct model output line')
ASSUMPTIONS = ['operator new does not fail', 'thread-safety of JsonParser::Parse and re-entrancy from handler callbacks are checked by test only (nest/thr cases), the model being a pure function of the text', 'C locale (isprint/isdigit)', 'JsonData without a schema validator',
               'patch operations carry a value (the NULL-value constructors of add/replace/test are not driven)']
TRUSTED = ['modelled rather than verified: JsonPointer.cpp (all), JsonLexer.cpp (all), JsonParser.cpp (for texts: handler '
           'stacks folded into direct tree construction; the handler stack machine itself is modelled separately as h_step and '
           'compared on arbitrary event sequences, its agreement with the direct construction is proved for values with strictly increasing member names (c19_handler_agrees), the event sequence being the one an event-emitting copy of the lexer model produces (c19_lexer_events); not proved for documents with unsorted/duplicate names), JsonWriter.cpp + StringUtils Escape/EncodeString, '
           'JsonDouble::AsString, Json.cpp LookupElement*/InsertElementAt/RemoveElementAt/ReplaceElementAt/'
           'operator== for non-double values, JsonPatch.cpp (all ops), JsonData::Apply; '
           'JsonPatchParser.cpp (handler as a function of the parsed document with document-order members); NOT modelled: JsonDouble::AsDouble (floating point/pow; its termination in time independent of the exponent value '
           'is evidenced only by the 4 s per-case watchdog on generated exponents of 1-20 digits incl. the int32 extremes), '
           'JsonSchema, PointerTracker, double arithmetic (comparisons '
           'with doubles), JsonSections; MAX_DEPTH regenerated from JsonLexer.h']

def hx(b):
    if isinstance(b, str):
        b = b.encode('latin-1')
    return ''.join('%02x' % c for c in b) if b else '-'

TOKS = ['', '~', '/', '0', '1', 'a', '~0', '~1', '~01', '~00', '~10', '~~', '//', '~/', '/~', 'a/b', 'm~n',
        '~0~1', '~1~0', '~2', '-', '01', ' ', '\x00', '\xff~']

def toks_s(ts):
    return ','.join(hx(t) for t in ts) if ts else '.'

def esc(t):
    return t.replace('~', '~0').replace('/', '~1')

def ptr_str(ts):
    return ''.join('/' + esc(t) for t in ts)

# ---------------------------------------------------------------- trees
I_BOUNDS = [0, 1, 9, 10, 2**31 - 1, 2**31, 2**31 + 1, 2**32 - 1, 2**32, 2**32 + 1, 2**63 - 1, 2**63, 2**63 + 1,
            2**64 - 1, -1, -2**31, -2**31 + 1, -2**31 - 1, -2**63, -2**63 + 1, -2**32, 1234567890123]
PRINTABLE = ''.join(chr(c) for c in range(32, 127))

def rand_str(rng, printable=True):
    n = rng.choice([0, 1, 1, 2, 3, 5, 8])
    alpha = PRINTABLE if printable else PRINTABLE + '\n\t\x01\x7f\x80\xff\b\f\r'
    s = ''.join(rng.choice(alpha) for _ in range(n))
    if rng.random() < 0.3:
        s += rng.choice(['"', '\\', '/', '\\"', '~', ' ', '\\n', 'x"y'])
    return s

def int_leaf(rng, v=None):
    if v is None:
        v = rng.choice(I_BOUNDS + [rng.randrange(-100, 100), rng.randrange(-2**63, 2**64)])
    # typed like the library: any class that can hold the value
    cands = []
    if 0 <= v < 2**32: cands.append('u')
    if -2**31 <= v < 2**31: cands.append('i')
    if 0 <= v < 2**64: cands.append('U')
    if -2**63 <= v < 2**63: cands.append('I')
    return '%s%d' % (rng.choice(cands), v)

def rand_tree(rng, depth, keys=None, printable=True, small=False):
    """returns the flat prefix encoding (list of tokens)"""
    r = rng.random()
    if depth <= 0 or r < 0.45:
        k = rng.choice(['s', 'int', 'int', 't', 'f', 'n'])
        if k == 's': return ['s' + hx(rand_str(rng, printable))]
        if k == 'int':
            if small and rng.random() < 0.75: return [int_leaf(rng, rng.randrange(0, 5))]
            return [int_leaf(rng, rng.choice(CMP_VALUES) if small else None)]
        return [k]
    if r < 0.72:
        n = rng.choice([0, 1, 2, 3, 4] if not small else [0, 1, 2, 3])
        out = ['a%d' % n]
        for _ in range(n):
            out += rand_tree(rng, depth - 1, keys, printable, small)
        return out
    n = rng.choice([0, 1, 2, 3])
    ks = []
    for _ in range(n):
        ks.append(rng.choice(keys) if keys else rand_str(rng, True))
    out = ['o%d' % n]
    for k in ks:
        out += [hx(k)] + rand_tree(rng, depth - 1, keys, printable, small)
    return out

def tree_to_py(tokens):
    pos = [0]
    def go():
        x = tokens[pos[0]]; pos[0] += 1
        c, r = x[0], x[1:]
        if c == 's': return ('s', bytes.fromhex(r) if r != '-' else b'')
        if c in 'uiUI': return ('i', int(r))
        if c in 'tfn': return (c,)
        if c == 'a': return ('a', [go() for _ in range(int(r))])
        n = int(r); m = {}
        for _ in range(n):
            k = tokens[pos[0]]; pos[0] += 1
            k = bytes.fromhex(k) if k != '-' else b''
            m[k] = go()
        return ('o', m)
    return go()

def json_str(b):
    out = '"'
    for c in b:
        ch = chr(c)
        if ch == '"': out += '\\"'
        elif ch == '\\': out += '\\\\'
        elif ch == '\n': out += '\\n'
        elif ch == '\t': out += '\\t'
        elif c < 32 or c > 126: out += '\\u%04x' % c
        else: out += ch
    return out + '"'

def render(rng, t):
    ws = lambda: rng.choice(['', '', '', ' ', '\n', '\t', '\r\n  '])
    k = t[0]
    if k == 's': return json_str(t[1])
    if k == 'i': return str(t[1])
    if k == 't': return 'true'
    if k == 'f': return 'false'
    if k == 'n': return 'null'
    if k == 'a': return '[' + ws() + (ws() + ',' + ws()).join(render(rng, x) for x in t[1]) + ws() + ']'
    return '{' + ws() + (ws() + ',' + ws()).join(json_str(kk) + ws() + ':' + ws() + render(rng, v)
                                                    for kk, v in t[1].items()) + ws() + '}'

NUM_TEXTS = ['0', '-0', '1', '-1', '00', '01', '-01', '-', '+1', '--1', '1.', '1.5', '1.50', '0.05', '1.000', '.5', '1e5',
             '1E5', '1e+5', '1e-5', '1e', '1e+', '1e-', '1ex', '0e0', '0.0', '0.0e7', '-0.0', '1.5e-3', '2.e3',
             '2147483647', '2147483648', '-2147483648', '-2147483649', '4294967295', '4294967296',
             '9223372036854775807', '9223372036854775808', '-9223372036854775808', '-9223372036854775809',
             '18446744073709551615', '18446744073709551616', '18446744073709551617', '-18446744073709551615',
             '-18446744073709551616', '99999999999999999999999', '1e18446744073709551616', '1e-9223372036854775809',
             '1.00000000000000000000000001', '0.' + '0' * 40 + '1', '123abc', '1 2', '1,2', '1]', 'tru', 'truee',
             'nulll', 'falsey', 'true false', ' \t\r\n true \n', '']
STR_TEXTS = ['""', '"a"', '"\\""', '"\\\\"', '"\\/"', '"\\b\\f\\n\\r\\t"', '"\\u0041"', '"\\u"', '"\\x41"', '"\\a"', '"\\',
             '"abc', '"a\\', '"a\\"', '"/"', '"~"', '"a\nb"', '"\x7f"', '"\xc3\xa9"', '"a"b', "'a'"]
DOC_TEXTS = ['[]', '{}', '[', '{', ']', '}', '[,]', '[1,]', '[1 2]', '[1,,2]', '{"a"}', '{"a":}', '{"a":1,}', '{a:1}',
             '{"a" 1}', '{"a":1 "b":2}', '{"a":1,"a":2}', '{"b":1,"a":2}', '{"a":[1],"a":{}}', '{"a":{"x":1},"a":[2]}',
             '[[]]', '[{}]', '[[],[]]', '{"a":[]}', '{"a":{}}', '[[1,2],[3]]', '[{"a":1}]', '[1,[2,[3,[4]]]]',
             '{"":1}', '{"a/b":1,"m~n":2}', '{"\\n":1}', '[1]x', '[1] ,', ' [ 1 , 2 ] ', '{"a":"\\u0000b"}',
             '[1,\x002]', '\x00[1]', '[tru]', '[nul]', '[-]', '[1.]', '[1e]', '{"k":-}', '{"k":1e}']

# doubles: the lexer's number path with fraction/exponent; JsonDouble must not do work proportional
# to the exponent's value (int32 field after the uint64/int64 wrap)
DBL_FIXED = ['-0', '-0.0', '0e0', '1e400', '1e-400', '-1e400', '1E+400', '25e123456789012345', '0.1e-123456789012345678',
             '1e2147483647', '1e-2147483647', '1e2147483648', '1e-2147483648', '1e-2147483649', '1e4294967295',
             '1e4294967296', '1e4294967297', '7e2000000000', '7e-2000000000', '1e18446744073709551615',
             '1e-18446744073709551615', '1e18446744073709551616', '1e99999999999999999999', '0.' + '0' * 30 + '1',
             '0.' + '0' * 400 + '1', '1.' + '0' * 50, '1.' + '9' * 40, '9' * 40 + '.5', '1' + '0' * 30 + 'e-30',
             '-18446744073709551615.0', '-9223372036854775809.0', '-9223372036854775808.0', '-9223372036854775808.0e0',
             '5.000e0', '0.000', '0.0001e4', '12.0340', '1.5E3', '00.5', '1.e5', '1.5e', '1.5e+', '-.5', '1.2.3', '1e5e5', '1e5.5']

def rand_double_text(rng):
    s = '-' if rng.random() < 0.3 else ''
    nd = rng.choice([1, 1, 2, 5, 19, 20, 21, 30])
    s += rng.choice(['0', str(rng.randrange(1, 10)) + ''.join(rng.choice('0123456789') for _ in range(nd - 1))])
    r = rng.random()
    if r < 0.7:
        s += '.' + '0' * rng.choice([0, 0, 1, 3, 12, 40]) + ''.join(rng.choice('0123456789')
                                                                       for _ in range(rng.choice([0, 1, 2, 6, 19, 20, 25])))
    if r > 0.3:
        ed = rng.randrange(1, 21)
        s += rng.choice('eE') + rng.choice(['', '+', '-', '-']) + rng.choice(['', '0', '00']) + \
            str(rng.randrange(1, 10)) + ''.join(rng.choice('0123456789') for _ in range(ed - 1))
    return s

def wrap_text(rng, t):
    k = rng.randrange(5)
    if k == 0: return t
    if k == 1: return '[' + t + ']'
    if k == 2: return '{"gain": ' + t + '}'
    if k == 3: return '[1, ' + t + ', {"x": [' + t + ']}]'
    return ' [\n  ' + t + ' ,"s"]\n'

def mutate(rng, s):
    b = bytearray(s.encode('latin-1'))
    for _ in range(rng.choice([1, 1, 2, 3])):
        if not b: break
        k = rng.random()
        i = rng.randrange(len(b))
        if k < 0.3: b[i] = rng.choice(b'[]{}",:\\ntf-0e. \x00~/')
        elif k < 0.5: del b[i]
        elif k < 0.7: b.insert(i, rng.choice(b'[]{}",:\\0 -'))
        elif k < 0.85: b = b[:i]
        else: b[i] = rng.randrange(256)
    return bytes(b)

# ---------------------------------------------------------------- patch documents as text
def gen_pdoc(rng):
    """a JSON Patch document text (mostly well-formed, then damaged) + a target document"""
    docenc = rand_tree(rng, rng.choice([1, 2, 3]), keys=PKEYS, small=True)
    doc = tree_to_py(docenc)
    elems = []
    for _ in range(rng.choice([0, 1, 1, 2, 3, 5])):
        k = rng.choice(['add', 'remove', 'replace', 'move', 'copy', 'test'])
        m = [('op', json_str(k.encode()))]
        m.append(('path', json_str(rand_ptr_text(rng, doc).encode('latin-1'))))
        if k in ('add', 'replace', 'test'):
            m.append(('value', render(rng, tree_to_py(rand_tree(rng, rng.choice([0, 1, 2]), keys=PKEYS, small=True)))))
        if k in ('move', 'copy'):
            m.append(('from', json_str(rand_ptr_text(rng, doc).encode('latin-1'))))
        # damage / variation
        for _ in range(rng.choice([0, 0, 0, 1, 1, 2])):
            r = rng.randrange(12)
            if r == 0 and m: del m[rng.randrange(len(m))]                                  # missing member
            elif r == 1: m.append(('op', json_str(rng.choice([b'add', b'remove', b'Add', b'', b'delete', b'test']))))  # duplicate op
            elif r == 2: m.insert(0, ('op', rng.choice(['5', 'null', 'true', '["add"]', '{"op": "add"}'])))   # op of a wrong type first
            elif r == 3: m.append(('op', rng.choice(['5', 'null', '[]'])))                  # ... or last (ignored)
            elif r == 4: m.append(('path', rng.choice(['7', 'null', '["/a"]', '{}'])))      # path of a wrong type (ignored)
            elif r == 5: m.append(('value', rng.choice(['1', '"s"', 'null', '[1, {"a": 2}]', '{"a": 1, "a": 2}', '1.5'])))
            elif r == 6: m.append((rng.choice(['extra', 'Op', 'PATH', '']), rng.choice(['1', '"x"', '[1, [2]]', '{"op": "remove"}'])))
            elif r == 7: m.append(('from', rng.choice(['"/a"', '""', '3', '"x"'])))
            elif r == 8: m = [(k2, v2) for k2, v2 in m if k2 != 'path']                     # missing path
            elif r == 9: m.append(('path', json_str(rand_ptr_text(rng, doc).encode('latin-1'))))  # duplicate path (last wins)
            else: rng.shuffle(m)
        if rng.random() < 0.6: rng.shuffle(m)
        ws = lambda: rng.choice(['', '', ' ', '\n  '])
        elems.append('{' + ws() + (',' + ws()).join(json_str(k2.encode()) + ':' + ws() + v2 for k2, v2 in m) + ws() + '}')
    r = rng.random()
    if r < 0.08: elems.insert(rng.randrange(len(elems) + 1), rng.choice(['1', '"add"', 'null', '[]', '[{"op": "remove", "path": "/a"}]', 'true']))
    text = '[' + ', '.join(elems) + ']'
    if r > 0.92:
        text = rng.choice(['{"op": "remove", "path": "/a"}', '1', '"x"', 'null', '', '[', text[:-1], text[:len(text) // 2], text + ']', text + ' x'])
    return 'pdoc %s %s' % (','.join(docenc), hx(text.encode('latin-1')))

# ---------------------------------------------------------------- numeric comparison
CMP_VALUES = sorted(set([0, 1, -1, 2, -2, 2**31 - 1, 2**31, 2**31 + 1, -2**31, -2**31 + 1, -2**31 - 1, 2**32 - 1, 2**32,
                         2**32 + 1, -2**32, -2**32 + 1, 2**63 - 1, 2**63, 2**63 + 1, -2**63, -2**63 + 1, 2**64 - 1, 2**64 - 2,
                         2**64 - 2**31, 2**64 - 2**32, 2**64 - 2**63 + 1, 123456789, -123456789]))
CLASSES = [('u', 0, 2**32), ('i', -2**31, 2**31), ('U', 0, 2**64), ('I', -2**63, 2**63)]

def int_leaves(v):
    return ['%s%d' % (c, v) for c, lo, hi in CLASSES if lo <= v < hi]

def aliases(v):
    """values that a wrong cast would confuse with v"""
    return [w for w in (v + 2**64, v - 2**64, v + 2**32, v - 2**32, v + 2**63, v - 2**63, -v, v + 1, v - 1)
            if -2**63 <= w < 2**64]

DBL_CMP = ['1.5', '2.5', '-1.5', '1e3', '5.0', '0.5', '18446744073709551615.0', '-1.0', '1e400']

def gen_cmp(rng, quick):
    pairs = []
    for v in CMP_VALUES:
        for w in [v] + aliases(v):
            pairs.append((v, w))
    for v, w in pairs:
        for x in int_leaves(v):
            for y in int_leaves(w):
                if quick and v != w and rng.random() < 0.5: continue
                yield x, y
    for _ in range(300 if quick else 20000):
        v = rng.choice(CMP_VALUES + [rng.randrange(-2**63, 2**64)])
        w = rng.choice([v] + aliases(v) + [rng.choice(CMP_VALUES)])
        xs, ys = int_leaves(v), int_leaves(w)
        if xs and ys: yield rng.choice(xs), rng.choice(ys)
    # inside containers (tree equality), other kinds, doubles (same text or clearly different values)
    for _ in range(150 if quick else 5000):
        v = rng.choice(CMP_VALUES); w = rng.choice([v] + aliases(v))
        xs, ys = int_leaves(v), int_leaves(w)
        if not xs or not ys: continue
        x, y = rng.choice(xs), rng.choice(ys)
        k = rng.randrange(4)
        if k == 0: yield 'a2,u1,' + x, 'a2,i1,' + y
        elif k == 1: yield 'o1,6b,' + x, 'o1,6b,' + y
        elif k == 2: yield 'a1,o1,6b,a1,' + x, 'a1,o1,6b,a1,' + y
        else: yield 'a2,%s,%s' % (x, y), 'a2,%s,%s' % (y, x)
    others = ['s31', 's-', 't', 'f', 'n', 'a0', 'o0', 'u1', 'i0', 'a1,u1', 'o1,61,u1']
    for x in others:
        for y in others: yield x, y
    for t in DBL_CMP:
        yield 'D' + hx(t), 'D' + hx(t)
        for u in DBL_CMP:
            if u != t: yield 'D' + hx(t), 'D' + hx(u)
        for y in ['u1', 'i-1', 'U18446744073709551615', 'u5', 'I5', 's31', 'n']:
            yield 'D' + hx(t), y
            yield y, 'D' + hx(t)

# ---------------------------------------------------------------- structural equality
def struct_variant(rng, t):
    """a tree that differs from t only in member names / element order / nesting shape (or not at all)"""
    import copy
    t = copy.deepcopy(t)
    nodes = []
    def walk(x):
        nodes.append(x)
        if x[0] == 'a':
            for y in x[1]: walk(y)
        elif x[0] == 'o':
            for y in x[1].values(): walk(y)
    walk(t)
    kind = rng.choice(['same', 'rename', 'rename', 'swap', 'wrap', 'unwrap', 'obj2arr', 'dropkey', 'addelem'])
    objs = [x for x in nodes if x[0] == 'o' and x[1]]
    arrs = [x for x in nodes if x[0] == 'a' and len(x[1]) >= 1]
    if kind == 'rename' and objs:
        o = rng.choice(objs); k = rng.choice(list(o[1].keys()))
        nk = rng.choice([k + b'x', b'z' + k, k[:-1], k.upper(), b'ceiling', b'']) 
        items = [(nk if kk == k else kk, vv) for kk, vv in o[1].items()]
        o[1].clear(); o[1].update(items)
    elif kind == 'swap' and [x for x in arrs if len(x[1]) >= 2]:
        a = rng.choice([x for x in arrs if len(x[1]) >= 2]); i, j = rng.sample(range(len(a[1])), 2)
        a[1][i], a[1][j] = a[1][j], a[1][i]
    elif kind == 'wrap' and arrs:
        a = rng.choice(arrs); i = rng.randrange(len(a[1])); a[1][i] = ('a', [a[1][i]])
    elif kind == 'unwrap' and arrs:
        a = rng.choice(arrs); i = rng.randrange(len(a[1]))
        if a[1][i][0] == 'a' and len(a[1][i][1]) == 1: a[1][i] = a[1][i][1][0]
        else: a[1][i:i + 1] = [a[1][i], a[1][i]][:rng.choice([1, 2])]
    elif kind == 'obj2arr' and objs:
        o = rng.choice(objs); vals = list(o[1].values())
        # same leaves, other shape: the object becomes the array of its values
        idx = next(i for i, x in enumerate(nodes) if x is o)
        if idx == 0: return ('a', vals)
        for x in nodes:
            if x[0] == 'a':
                for i, y in enumerate(x[1]):
                    if y is o: x[1][i] = ('a', vals)
            elif x[0] == 'o':
                for kk, y in list(x[1].items()):
                    if y is o: x[1][kk] = ('a', vals)
    elif kind == 'dropkey' and objs:
        o = rng.choice(objs); del o[1][rng.choice(list(o[1].keys()))]
    elif kind == 'addelem' and arrs:
        rng.choice(arrs)[1].append(('n',))
    return t

def gen_struct(rng, quick):
    for _ in range(500 if quick else 20000):
        t = tree_to_py(rand_tree(rng, rng.choice([1, 2, 2, 3, 4]), keys=rng.choice([PKEYS, None]), small=True))
        if t[0] not in 'ao': t = ('o', {b'max': t, b'min': ('i', 1)})
        u = struct_variant(rng, t)
        x, y = ','.join(enc_py(rng, t)), ','.join(enc_py(rng, u))
        r = rng.random()
        if r < 0.55: yield 'cmp %s %s' % (x, y)
        elif r < 0.7: yield 'cmp %s %s' % (y, x)
        else:     # as the value of a patch test followed by an operation that always applies
            yield 'patch %s tst:-:%s;rep:-:n' % (x, y)
    yield 'cmp o2,6d6178,u10,6d696e,u1 o2,6365696c696e67,u10,666c6f6f72,u1'
    yield 'patch o2,6d6178,u10,6d696e,u1 tst:-:o2,6365696c696e67,u10,666c6f6f72,u1;rep:-:n'

# ---------------------------------------------------------------- patches
PKEYS = ['a', 'b', 'c', 'a/b', 'm~n', '', '-', '0', '1', '01']

def paths_of(t, prefix=()):
    """all resolvable token paths of a python tree"""
    out = [prefix]
    if t[0] == 'a':
        for i, x in enumerate(t[1]):
            out += paths_of(x, prefix + (str(i),))
    elif t[0] == 'o':
        for k, x in t[1].items():
            out += paths_of(x, prefix + (k.decode('latin-1'),))
    return out

def node_at(t, path):
    for tok in path:
        if t[0] == 'a': t = t[1][int(tok)]
        else: t = t[1][tok.encode('latin-1')]
    return t

def rand_path(rng, doc):
    """a path aimed at the boundaries: existing node, or parent + interesting last token"""
    ps = paths_of(doc)
    p = rng.choice(ps)
    r = rng.random()
    if r < 0.35:
        return list(p)
    node = node_at(doc, p)
    if node[0] == 'a':
        n = len(node[1])
        last = rng.choice(['-', '-', str(n), str(n), str(n + 1), str(max(0, n - 1)), '0', '00', '01', '+1', '1x', ' 1',
                           '-1', '1 ', '4294967295', '4294967296', '4294967297', '18446744073709551617',
                           '-18446744073709551615', '99999999999', 'a', ''])
    elif node[0] == 'o':
        last = rng.choice(PKEYS + list(k.decode('latin-1') for k in node[1].keys()) * 2 + ['zz'])
    else:
        last = rng.choice(['a', '0', '-', ''])
    p = list(p) + [last]
    if rng.random() < 0.1:
        p += [rng.choice(['a', '0', '-'])]
    return p

def rand_ptr_text(rng, doc):
    p = rand_path(rng, doc)
    s = ptr_str(p)
    r = rng.random()
    if r < 0.03: return 'x' + s                      # invalid pointer
    if r < 0.05 and s: return s[1:]
    return s

def gen_patch(rng, nops=None):
    docenc = rand_tree(rng, rng.choice([1, 2, 3]), keys=PKEYS, small=True)
    if rng.random() < 0.04:
        doc_s = 'null'; doc = ('n',)
    else:
        doc_s = ','.join(docenc); doc = tree_to_py(docenc)
    ops = []
    for _ in range(nops or rng.randrange(1, 9)):
        k = rng.choice(['add', 'add', 'rem', 'rem', 'rep', 'mov', 'mov', 'mov', 'cpy', 'cpy', 'tst'])
        if k in ('add', 'rep', 'tst'):
            if k == 'tst' and rng.random() < 0.6:
                p = rng.choice(paths_of(doc)); v = None
                try:
                    node = node_at(doc, p)
                    if node[0] == 'i' and rng.random() < 0.5:      # a value a wrong cast would confuse with it
                        node = ('i', rng.choice(aliases(node[1]) or [node[1]]))
                    v = enc_py(rng, node)
                except Exception:
                    v = None
                if v is None: v = rand_tree(rng, 1, keys=PKEYS, small=True)
                ops.append('%s:%s:%s' % (k, hx(ptr_str(p)), ','.join(v)))
            else:
                ops.append('%s:%s:%s' % (k, hx(rand_ptr_text(rng, doc)), ','.join(rand_tree(rng, 1, keys=PKEYS, small=True))))
        elif k == 'rem':
            ops.append('rem:%s' % hx(rand_ptr_text(rng, doc)))
        else:
            f = rand_ptr_text(rng, doc)
            t = f if rng.random() < 0.06 else rand_ptr_text(rng, doc)
            if rng.random() < 0.08: t = f + '/a'
            ops.append('%s:%s:%s' % (k, hx(f), hx(t)))
    return 'patch %s %s' % (doc_s, ';'.join(ops))

def enc_py(rng, t):
    k = t[0]
    if k == 's': return ['s' + hx(t[1])]
    if k == 'i': return [int_leaf(rng, t[1])]
    if k in 'tfn': return [k]
    if k == 'a':
        out = ['a%d' % len(t[1])]
        for x in t[1]: out += enc_py(rng, x)
        return out
    out = ['o%d' % len(t[1])]
    for kk, x in t[1].items(): out += [hx(kk)] + enc_py(rng, x)
    return out

# ---------------------------------------------------------------- cases
def gen_cases(rng, tier):
    quick = tier == 'quick'
    # pointers: every token list up to length 2 over TOKS, random longer ones
    yield 'ptrt .'
    for a in TOKS:
        yield 'ptrt ' + toks_s([a])
    for a in TOKS[:18]:
        for b in TOKS[:18]:
            yield 'ptrt ' + toks_s([a, b])
    for _ in range(400 if quick else 20000):
        ts = [rng.choice(TOKS) if rng.random() < 0.7 else ''.join(rng.choice('~/01a') for _ in range(rng.randrange(5)))
              for _ in range(rng.randrange(0, 6))]
        yield 'ptrt ' + toks_s(ts)
    for _ in range(400 if quick else 20000):
        s = ''.join(rng.choice('//~~01ab') for _ in range(rng.randrange(0, 9)))
        if rng.random() < 0.8 and s: s = '/' + s
        yield 'ptr ' + hx(s)
    for _ in range(300 if quick else 10000):
        a = [rng.choice(TOKS[:8]) for _ in range(rng.randrange(0, 4))]
        r = rng.random()
        if r < 0.4: b = a + [rng.choice(TOKS[:8]) for _ in range(rng.randrange(0, 3))]
        elif r < 0.6: b = a[:rng.randrange(0, len(a) + 1)]
        else: b = [rng.choice(TOKS[:8]) for _ in range(rng.randrange(0, 4))]
        yield 'pre %s %s' % (toks_s(a), toks_s(b))
    # parser: boundary texts, bare and inside containers
    for t in NUM_TEXTS + STR_TEXTS + DOC_TEXTS:
        yield 'parse ' + hx(t)
    for t in NUM_TEXTS + STR_TEXTS:
        yield 'parse ' + hx('[' + t + ']')
        yield 'parse ' + hx('{"k": ' + t + ' }')
        yield 'parse ' + hx('[0,' + t + ',1]')
    for t in DBL_FIXED:
        yield 'parse ' + hx(t)
        yield 'parse ' + hx('[' + t + ']')
        yield 'parse ' + hx('{"gain": ' + t + '}')
    for _ in range(300 if quick else 20000):
        yield 'parse ' + hx(wrap_text(rng, rand_double_text(rng)))
    for _ in range(500 if quick else 30000):
        doc = render(rng, tree_to_py(rand_tree(rng, rng.choice([1, 2, 3, 4, 6, 8]), printable=rng.random() < 0.8)))
        yield 'parse ' + hx(doc.encode('latin-1'))
        if rng.random() < 0.8:
            yield 'parse ' + hx(mutate(rng, doc))
    for _ in range(150 if quick else 5000):
        n = rng.choice([1, 2, 3, 8, 30, 200])
        yield 'parse ' + hx(bytes(rng.choice(b'[]{}",:\\ntfu-+0123456789eE. \t\n\x00ab') if rng.random() < 0.8
                                  else rng.randrange(256) for _ in range(n)))
    # nesting ladders around the depth limit and up to 64 KiB
    depths = [1, 2, 100, 254, 255, 256, 257, 258, 300, 1000]
    big = [5000, 13000] if quick else [5000, 13000, 20000, 30000, 65535]
    for kind in 'aom':
        for n in depths + big:
            if kind != 'a' and n > 13000: continue
            for close in (0, 1):
                yield 'deep %s %d %d' % (kind, n, close)
    # exact-length sweep: documents of every size (buffer-size boundaries inside the lexer)
    kinds = 'saw'
    for n in range(1, 4201):
        if quick and not (1000 <= n <= 1050):
            yield 'len %s %d' % (kinds[n % 3], n)
        else:
            for k in kinds: yield 'len %s %d' % (k, n)
    for e in range(5, 17):
        for n in ((1 << e) - 1, 1 << e, (1 << e) + 1):
            for k in kinds: yield 'len %s %d' % (k, n)
    # one long-lived JsonParser object for a sequence of texts
    OPEN_FAIL = ['[1, 2', '[', '{"k": [1, {"x": ', '{"a": 1, ', '[[[[', '[1, [2, {"q": "unterminated', '{"k": tru', '[1 2',
                 '{"a" 1}', '[1, ]', '{"k": [1, 2}', '[' * 256 + ']' * 10, '[' * 257, '[{"a": [' * 40, '["\\q"]']
    TOP_FAIL = ['', 'tru', '1 2', '-', '"abc', ']', 'x', '1e']
    VALID = ['[3]', '{"k": 1}', '1', '"s"', 'null', '[]', '{}', '[[1, 2], {"a": [true, null]}]', '{"a": {"b": {"c": [1]}}}',
             '[' * 200 + ']' * 200]
    for _ in range(250 if quick else 8000):
        ts = []
        for _ in range(rng.randrange(2, 9)):
            r = rng.random()
            if r < 0.4: t = rng.choice(OPEN_FAIL)
            elif r < 0.5: t = rng.choice(TOP_FAIL)
            elif r < 0.6:
                d = rng.choice([1, 2, 3, 5, 17, 100, 255, 256])
                t = ''.join(rng.choice(['[', '{"k": ', '[1, ']) for _ in range(d)).replace('{"k": ', '{"k": ')
            elif r < 0.9: t = rng.choice(VALID)
            else: t = render(rng, tree_to_py(rand_tree(rng, 3)))
            ts.append(t)
        yield 'seq ' + ','.join(hx(t.encode('latin-1')) for t in ts)
    for a in OPEN_FAIL:
        for b in VALID[:4]:
            yield 'seq %s,%s,%s' % (hx(a), hx(b), hx(a))
    # equality / ordering of numeric nodes at the 32/64-bit boundaries, every pair of kinds, both orders
    for x, y in gen_cmp(rng, quick):
        yield 'cmp %s %s' % (x, y)
    # the JsonParser handler interface driven directly with arbitrary (also ill-nested) event sequences
    EVK = ['6b', '61', '-', '6b32']
    def rand_events():
        ev = []
        depth = []
        if rng.random() < 0.7: ev.append('B')
        for _ in range(rng.randrange(1, 14)):
            r = rng.random()
            if r < 0.30:
                ev.append(rng.choice(['u1', 'i-1', 'U18446744073709551615', 'I-5', 's61', 's-', 't', 'f', 'n']))
            elif r < 0.45: ev.append('['); depth.append('[')
            elif r < 0.58: ev.append('{'); depth.append('{')
            elif r < 0.72: ev.append('k' + rng.choice(EVK))
            elif r < 0.88:
                if depth and rng.random() < 0.75:
                    ev.append(']' if depth.pop() == '[' else '}')       # matching close
                else:
                    ev.append(rng.choice([']', '}']))                   # possibly mismatched / unbalanced
            elif r < 0.93: ev.append('E'); depth = []
            elif r < 0.97: ev.append('B'); depth = []
            else: ev.append('X')
        return ev[:15]
    for _ in range(600 if quick else 30000):
        yield 'ev ' + ','.join(rand_events())
    for fixed in ['u1,u2', '[,],u1', '[,},]', '{,],}', '],}', '{,k6b,[,k61,u1,],k6b,{,},}', '[,[,E,u1,[,]', 'B,[,u1,B,u2',
                  '{,k6b,u1,k6b,[,u2,],k6b,{,}', '[,{,k61,[,{,E', '{,u1,u2,}', 'E,E,u1,E', '[,X,],B,[,]', 'k61,u1,{,}']:
        yield 'ev ' + fixed
    # patch documents given as text through JsonPatchParser
    for _ in range(900 if quick else 40000):
        yield gen_pdoc(rng)
    # equality of trees that differ only in member names / element order / nesting shape
    for c in gen_struct(rng, quick):
        yield c
    # overlapping parses: another text parsed from inside a handler callback; several threads at once
    NEST_TEXTS = ['[1, 2, 3]', '{"a": [1, {"b": "x"}], "c": "ssss"}', '"just a string"', '[[[["deep"]]]]', '[1, 2', '{"k": tru',
                  '7', '{"long": "' + 'y' * 300 + '"}', '[' + ', '.join(str(i) for i in range(100)) + ']', 'null', '',
                  '["' + 'z' * 2000 + '"]']
    for _ in range(200 if quick else 6000):
        o = rng.choice(NEST_TEXTS) if rng.random() < 0.7 else render(rng, tree_to_py(rand_tree(rng, 3)))
        i = rng.choice(NEST_TEXTS) if rng.random() < 0.7 else render(rng, tree_to_py(rand_tree(rng, 3)))
        yield 'nest %d %s %s' % (rng.randrange(1, 7), hx(o.encode('latin-1')), hx(i.encode('latin-1')))
    for _ in range(40 if quick else 600):
        n = rng.choice([2, 3, 4, 4])
        ts = [rng.choice(NEST_TEXTS) if rng.random() < 0.6 else render(rng, tree_to_py(rand_tree(rng, 3))) for _ in range(n)]
        yield 'thr ' + ','.join(hx(t.encode('latin-1')) for t in ts)
    # API-built trees
    for _ in range(500 if quick else 30000):
        pr = rng.random() < 0.9
        yield 'tree ' + ','.join(rand_tree(rng, rng.choice([0, 1, 2, 3, 4, 6, 8]), printable=pr))
    for v in I_BOUNDS:
        yield 'tree ' + int_leaf(rng, v)
        yield 'tree a2,%s,%s' % (int_leaf(rng, v), int_leaf(rng, v))
    # patches
    for _ in range(1500 if quick else 80000):
        yield gen_patch(rng)

def nontrivial(payload, md):
    op = payload.split(' ', 1)[0]
    if op in ('ptr', 'ptrt'): return md.get('valid') == '1' and md.get('rt') == '1'
    if op == 'pre': return md.get('pre') == '1'
    if op == 'nest': return md.get('outer', '').startswith('ok:')
    if op == 'thr': return md.get('mt') == '1' and any(v.startswith('ok:') for k, v in md.items() if k[0] == 'p')
    if op == 'ev': return md.get('claim', 'null') != 'null'
    if op == 'pdoc': return md.get('pp') == '1' and md.get('all') == '1'
    if op == 'cmp': return md.get('eq') == '1' or md.get('lt') == '1'
    if op in ('parse', 'deep', 'len'): return md.get('ok') == '1'
    if op == 'seq': return any(v.startswith('ok:') for k, v in md.items() if k[0] == 'p') and any(v.startswith('err:') for k, v in md.items() if k[0] == 'p')
    if op == 'tree': return md.get('ok') == '1' and md.get('eq') == '1'
    if op == 'patch':
        doc = payload.split(' ')[1]
        return md.get('all') == '1' and md.get('dall') != doc
    return False

LEVEL_TEXT = ('Coq theorems over an executable model of common/web, for all inputs: the parser is total (c19_total: '
              'never exhausts its recursion budget 2*length+2, never has more than MAX_DEPTH containers open, returns '
              'an error or a value; c19_total_double: the number path costs one budget unit whatever the digits and '
              'stores the wrapped DoubleRepresentation fields - AsDouble itself is watchdog-checked only); write-then-parse is the identity on every guarded value tree (c19_roundtrip: '
              'printable-ASCII strings/keys, 32/64-bit integers, booleans, null, arrays, objects with sorted unique '
              'keys, depth <= MAX_DEPTH, canonical IsComplexType flags: parsed tree equal by operator== and re-written '
              'to the same text); JSON Pointers round-trip for every token sequence and IsPrefixOf/index/evaluation '
              'equal RFC 6901; JsonData::Apply is atomic; a patch program avoiding four recorded, unit-test-enshrined '
              'departures gives exactly the result of an independent RFC 6902 specification (c19_patch_rfc_partial; '
              'c19_patch_rfc_refuted and c19_roundtrip_flag_refuted carry the witnesses of the known findings).')
LEVEL_NOTE = ('Trusted: Coq kernel, extraction (ExtrOcamlBasic), OCaml/C++ glue, generator coverage; model = code is '
              'validated by differential testing against an ASan/UBSan build of the working tree, not proved. '
              'Doubles are an opaque leaf (no arithmetic); JsonPatchParser is not modelled; std::map is modelled '
              'as a sorted association list.')
TECHNIQUE = 'Coq proof on hand-written executable model + extracted-model/implementation differential correspondence'
DESIGN_REF = 'DESIGN.md §4 C19'
