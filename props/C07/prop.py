ID = 'C07'
GROUPS = ['common', 'acn']
CXX_SOURCES = ['plugins/shownet/ShowNetNode.cpp', 'plugins/artnet/ArtNetNode.cpp',
               'plugins/sandnet/SandNetNode.cpp', 'plugins/espnet/EspNetNode.cpp',
               'plugins/espnet/RunLengthDecoder.cpp', 'plugins/pathport/PathportNode.cpp']
WRAP = ['sendto', 'recvfrom']
COQ_TIMEOUT = 1200


def gen_consts(v):
    import os
    sn = 'ola::plugin::shownet::'
    an = 'ola::plugin::artnet::'
    sa = 'ola::plugin::sandnet::'
    es = 'ola::plugin::espnet::'
    pp = 'ola::plugin::pathport::'
    ac = 'ola::acn::'
    ents = [
        ('DMX_UNIVERSE_SIZE', 'ola::DMX_UNIVERSE_SIZE'),
        ('REPEAT_FLAG', 'ola::dmx::RunLengthEncoder::REPEAT_FLAG'),
        # ShowNet
        ('SN_PACKET_SIZE', 'sizeof(%sshownet_packet)' % sn),
        ('SN_HEADER_SIZE', 'sizeof(%sshownet_packet) - sizeof(((%sshownet_packet*)0)->data)' % (sn, sn)),
        ('SN_UNION_SIZE', 'sizeof(((%sshownet_packet*)0)->data)' % sn),
        ('SN_COMPRESSED_SIZE', 'sizeof(%sshownet_compressed_dmx)' % sn),
        ('SN_COMPRESSED_DATA_LENGTH', '%sSHOWNET_COMPRESSED_DATA_LENGTH' % sn),
        ('SN_PTR_SIZE', 'sizeof(const %sshownet_compressed_dmx*)' % sn),
        ('SN_OFF_netSlot', 'offsetof(%sshownet_compressed_dmx, netSlot)' % sn),
        ('SN_OFF_slotSize', 'offsetof(%sshownet_compressed_dmx, slotSize)' % sn),
        ('SN_OFF_indexBlock', 'offsetof(%sshownet_compressed_dmx, indexBlock)' % sn),
        ('SN_OFF_name', 'offsetof(%sshownet_compressed_dmx, name)' % sn),
        ('SN_OFF_data', 'offsetof(%sshownet_compressed_dmx, data)' % sn),
        ('SN_NAME_LENGTH', '%sSHOWNET_NAME_LENGTH' % sn),
        ('SN_MAGIC_INDEX_OFFSET', '%sShowNetNode::MAGIC_INDEX_OFFSET' % sn),
        ('SN_MAX_UNIVERSES', '%sShowNetNode::SHOWNET_MAX_UNIVERSES' % sn),
        ('SN_COMPRESSED_DMX_PACKET', '%sCOMPRESSED_DMX_PACKET' % sn),
        # Art-Net
        ('AN_HEADER_SIZE', 'sizeof(%sartnet_packet) - sizeof(((%sartnet_packet*)0)->data)' % (an, an)),
        ('AN_DMX_HEADER_SIZE', 'sizeof(%sartnet_dmx_t) - ola::DMX_UNIVERSE_SIZE' % an),
        ('AN_OP_DMX', '%sARTNET_DMX' % an),
        ('AN_VERSION', '%sArtNetNodeImpl::ARTNET_VERSION' % an),
        ('AN_MAX_PORTS', '%sARTNET_MAX_PORTS' % an),
        ('AN_OFF_version', 'offsetof(%sartnet_dmx_t, version)' % an),
        ('AN_OFF_sequence', 'offsetof(%sartnet_dmx_t, sequence)' % an),
        ('AN_OFF_physical', 'offsetof(%sartnet_dmx_t, physical)' % an),
        ('AN_OFF_universe', 'offsetof(%sartnet_dmx_t, universe)' % an),
        ('AN_OFF_net', 'offsetof(%sartnet_dmx_t, net)' % an),
        ('AN_OFF_length', 'offsetof(%sartnet_dmx_t, length)' % an),
        ('AN_OFF_data', 'offsetof(%sartnet_dmx_t, data)' % an),
        # SandNet
        ('SA_OP_DMX', '%sSANDNET_DMX' % sa),
        ('SA_OPCODE_SIZE', 'sizeof(((%ssandnet_packet*)0)->opcode)' % sa),
        ('SA_DMX_HEADER_SIZE', 'sizeof(%ssandnet_dmx) - ola::DMX_UNIVERSE_SIZE' % sa),
        ('SA_MAX_PORTS', 'SANDNET_MAX_PORTS'),
        # ESP Net
        ('ES_DMX_HEAD', '%sESPNET_DMX' % es),
        ('ES_DATA_SIZE', 'sizeof(%sespnet_data_t)' % es),
        ('ES_DATA_HEADER_SIZE', 'sizeof(%sespnet_data_t) - ola::DMX_UNIVERSE_SIZE' % es),
        ('ES_DATA_RAW', '%sEspNetNode::DATA_RAW' % es),
        ('ES_DATA_PAIRS', '%sEspNetNode::DATA_PAIRS' % es),
        ('ES_DATA_RLE', '%sEspNetNode::DATA_RLE' % es),
        ('ES_START_CODE', '%sEspNetNode::START_CODE' % es),
        # Pathport
        ('PP_HEADER_SIZE', 'sizeof(%spathport_packet_header)' % pp),
        ('PP_PDU_HEADER_SIZE', 'sizeof(%spathport_pdu_header)' % pp),
        ('PP_PDU_DATA_SIZE', 'sizeof(%spathport_pdu_data)' % pp),
        ('PP_PROTOCOL', '%sPathportNode::PATHPORT_PROTOCOL' % pp),
        ('PP_MAJOR_VERSION', '%sPathportNode::MAJOR_VERSION' % pp),
        ('PP_MINOR_VERSION', '%sPathportNode::MINOR_VERSION' % pp),
        ('PP_DATA_GROUP', '%sPathportNode::PATHPORT_DATA_GROUP' % pp),
        ('PP_ID_BROADCAST', '%sPathportNode::PATHPORT_ID_BROADCAST' % pp),
        ('PP_STATUS_GROUP', '%sPathportNode::PATHPORT_STATUS_GROUP' % pp),
        ('PP_CONFIG_GROUP', '%sPathportNode::PATHPORT_CONFIG_GROUP' % pp),
        ('PP_MAX_UNIVERSES', '%sPathportNode::MAX_UNIVERSES' % pp),
        ('PP_DATA', '%sPATHPORT_DATA' % pp),
        ('PP_XDMX_DATA_FLAT', '%sPathportNode::XDMX_DATA_FLAT' % pp),
        # E1.31 / ACN
        ('ACN_MAX_DATAGRAM_SIZE', '%sPreamblePacker::MAX_DATAGRAM_SIZE' % ac),
        ('ACN_TWOB_LENGTH_LIMIT', '%sPDU::TWOB_LENGTH_LIMIT' % ac),
        ('ACN_VFLAG', '%sVFLAG_MASK' % ac), ('ACN_HFLAG', '%sHFLAG_MASK' % ac),
        ('ACN_DFLAG', '%sDFLAG_MASK' % ac), ('ACN_LFLAG', '%sLFLAG_MASK' % ac),
        ('ACN_LENGTH_MASK', '%sBaseInflator::LENGTH_MASK' % ac),
        ('ACN_CID_LENGTH', '%sCID::CID_LENGTH' % ac),
        ('VECTOR_ROOT_E131', '%sVECTOR_ROOT_E131' % ac),
        ('VECTOR_ROOT_E131_REV2', '%sVECTOR_ROOT_E131_REV2' % ac),
        ('VECTOR_E131_DATA', '%sVECTOR_E131_DATA' % ac),
        ('DMP_SET_PROPERTY_VECTOR', '%sDMP_SET_PROPERTY_VECTOR' % ac),
        ('E131_HEADER_SIZE', 'sizeof(%sE131Header::e131_pdu_header)' % ac),
        ('E131_REV2_HEADER_SIZE', 'sizeof(%sE131Rev2Header::e131_rev2_pdu_header)' % ac),
        ('E131_SOURCE_NAME_LEN', '%sE131Header::SOURCE_NAME_LEN' % ac),
        ('E131_REV2_SOURCE_NAME_LEN', '%sE131Rev2Header::REV2_SOURCE_NAME_LEN' % ac),
        ('E131_OFF_priority', 'offsetof(%sE131Header::e131_pdu_header, priority)' % ac),
        ('E131_OFF_sequence', 'offsetof(%sE131Header::e131_pdu_header, sequence)' % ac),
        ('E131_OFF_options', 'offsetof(%sE131Header::e131_pdu_header, options)' % ac),
        ('E131_OFF_universe', 'offsetof(%sE131Header::e131_pdu_header, universe)' % ac),
        ('E131R2_OFF_priority', 'offsetof(%sE131Rev2Header::e131_rev2_pdu_header, priority)' % ac),
        ('E131R2_OFF_sequence', 'offsetof(%sE131Rev2Header::e131_rev2_pdu_header, sequence)' % ac),
        ('E131R2_OFF_universe', 'offsetof(%sE131Rev2Header::e131_rev2_pdu_header, universe)' % ac),
        ('E131_PREVIEW_DATA_MASK', '%sE131Header::PREVIEW_DATA_MASK' % ac),
        ('E131_STREAM_TERMINATED_MASK', '%sE131Header::STREAM_TERMINATED_MASK' % ac),
        ('E131_MAX_PRIORITY', '%sDMPE131Inflator::MAX_E131_PRIORITY' % ac),
        ('E131_MAX_MERGE_SOURCES', '%sDMPE131Inflator::MAX_MERGE_SOURCES' % ac),
        ('DMP_HEADER_SIZE', '%sDMPHeader::DMP_HEADER_SIZE' % ac),
        ('DMP_TWO_BYTES', '%sTWO_BYTES' % ac), ('DMP_RANGE_EQUAL', '%sRANGE_EQUAL' % ac),
        ('DMP_NON_RANGE', '%sNON_RANGE' % ac), ('DMP_RES_BYTES', '%sRES_BYTES' % ac),
    ]
    return v.gen_consts_cpp(ID, ['ola/Constants.h', 'ola/dmx/RunLengthEncoder.h',
                                 'plugins/shownet/ShowNetNode.h', 'plugins/artnet/ArtNetNode.h',
                                 'plugins/artnet/ArtNetPackets.h', 'plugins/sandnet/SandNetNode.h',
                                 'plugins/espnet/EspNetNode.h', 'plugins/pathport/PathportNode.h',
                                 'ola/acn/ACNVectors.h', 'ola/acn/ACNFlags.h', 'ola/acn/CID.h',
                                 'libs/acn/PreamblePacker.h', 'libs/acn/PDU.h', 'libs/acn/BaseInflator.h',
                                 'libs/acn/E131Header.h', 'libs/acn/DMPE131Inflator.h',
                                 'libs/acn/DMPHeader.h', 'libs/acn/DMPAddress.h'],
                            ents, os.path.join(v.VERIF, 'props', ID, 'coq', 'Gen.v'))
