ID = 'C07'
GROUPS = ['common', 'acn']
CXX_SOURCES = ['plugins/shownet/ShowNetNode.cpp', 'plugins/artnet/ArtNetNode.cpp',
               'plugins/sandnet/SandNetNode.cpp', 'plugins/espnet/EspNetNode.cpp',
               'plugins/espnet/RunLengthDecoder.cpp', 'plugins/pathport/PathportNode.cpp']
WRAP = ['sendto', 'recvfrom', 'clock_gettime']
COQ_TIMEOUT = 1200


def gen_consts(v):
    import os
    sn = 'ola::plugin::shownet::'
    an = 'ola::plugin::artnet::'
    sa = 'ola::plugin::sandnet::'
    es = 'ola::plugin::espnet::'
    pp = 'ola::plugin::pathport::'
    ac = 'ola::acn::'
    ents = [
        ('DMX_UNIVERSE_SIZE', 'ola::DMX_UNIVERSE_SIZE'),
        ('REPEAT_FLAG', 'ola::dmx::RunLengthEncoder::REPEAT_FLAG'),
        # ShowNet
        ('SN_PACKET_SIZE', 'sizeof(%sshownet_packet)' % sn),
        ('SN_HEADER_SIZE', 'sizeof(%sshownet_packet) - sizeof(((%sshownet_packet*)0)->data)' % (sn, sn)),
        ('SN_UNION_SIZE', 'sizeof(((%sshownet_packet*)0)->data)' % sn),
        ('SN_COMPRESSED_SIZE', 'sizeof(%sshownet_compressed_dmx)' % sn),
        ('SN_COMPRESSED_DATA_LENGTH', '%sSHOWNET_COMPRESSED_DATA_LENGTH' % sn),
        ('SN_PTR_SIZE', 'sizeof(const %sshownet_compressed_dmx*)' % sn),
        ('SN_OFF_netSlot', 'offsetof(%sshownet_compressed_dmx, netSlot)' % sn),
        ('SN_OFF_slotSize', 'offsetof(%sshownet_compressed_dmx, slotSize)' % sn),
        ('SN_OFF_indexBlock', 'offsetof(%sshownet_compressed_dmx, indexBlock)' % sn),
        ('SN_OFF_name', 'offsetof(%sshownet_compressed_dmx, name)' % sn),
        ('SN_OFF_data', 'offsetof(%sshownet_compressed_dmx, data)' % sn),
        ('SN_NAME_LENGTH', '%sSHOWNET_NAME_LENGTH' % sn),
        ('SN_MAGIC_INDEX_OFFSET', '%sShowNetNode::MAGIC_INDEX_OFFSET' % sn),
        ('SN_MAX_UNIVERSES', '%sShowNetNode::SHOWNET_MAX_UNIVERSES' % sn),
        ('SN_COMPRESSED_DMX_PACKET', '%sCOMPRESSED_DMX_PACKET' % sn),
        # Art-Net
        ('AN_HEADER_SIZE', 'sizeof(%sartnet_packet) - sizeof(((%sartnet_packet*)0)->data)' % (an, an)),
        ('AN_DMX_HEADER_SIZE', 'sizeof(%sartnet_dmx_t) - ola::DMX_UNIVERSE_SIZE' % an),
        ('AN_OP_DMX', '%sARTNET_DMX' % an),
        ('AN_VERSION', '%sArtNetNodeImpl::ARTNET_VERSION' % an),
        ('AN_MAX_PORTS', '%sARTNET_MAX_PORTS' % an),
        ('AN_NODE_TIMEOUT', '%sArtNetNodeImpl::NODE_TIMEOUT' % an),
        ('AN_MERGE_TIMEOUT', '%sArtNetNodeImpl::MERGE_TIMEOUT' % an),
        ('AN_MAX_MERGE_SOURCES', '%sArtNetNodeImpl::MAX_MERGE_SOURCES' % an),
        ('AN_OFF_version', 'offsetof(%sartnet_dmx_t, version)' % an),
        ('AN_OFF_sequence', 'offsetof(%sartnet_dmx_t, sequence)' % an),
        ('AN_OFF_physical', 'offsetof(%sartnet_dmx_t, physical)' % an),
        ('AN_OFF_universe', 'offsetof(%sartnet_dmx_t, universe)' % an),
        ('AN_OFF_net', 'offsetof(%sartnet_dmx_t, net)' % an),
        ('AN_OFF_length', 'offsetof(%sartnet_dmx_t, length)' % an),
        ('AN_OFF_data', 'offsetof(%sartnet_dmx_t, data)' % an),
        # SandNet
        ('SA_OP_DMX', '%sSANDNET_DMX' % sa),
        ('SA_OPCODE_SIZE', 'sizeof(((%ssandnet_packet*)0)->opcode)' % sa),
        ('SA_DMX_HEADER_SIZE', 'sizeof(%ssandnet_dmx) - ola::DMX_UNIVERSE_SIZE' % sa),
        ('SA_MAX_PORTS', 'SANDNET_MAX_PORTS'),
        ('SA_OP_COMPRESSED_DMX', '%sSANDNET_COMPRESSED_DMX' % sa),
        ('SA_COMPRESSED_HEADER_SIZE', 'sizeof(%ssandnet_compressed_dmx) - ola::DMX_UNIVERSE_SIZE' % sa),
        # ESP Net
        ('ES_DMX_HEAD', '%sESPNET_DMX' % es),
        ('ES_DATA_SIZE', 'sizeof(%sespnet_data_t)' % es),
        ('ES_DATA_HEADER_SIZE', 'sizeof(%sespnet_data_t) - ola::DMX_UNIVERSE_SIZE' % es),
        ('ES_DATA_RAW', '%sEspNetNode::DATA_RAW' % es),
        ('ES_DATA_PAIRS', '%sEspNetNode::DATA_PAIRS' % es),
        ('ES_DATA_RLE', '%sEspNetNode::DATA_RLE' % es),
        ('ES_START_CODE', '%sEspNetNode::START_CODE' % es),
        ('ES_RLE_ESCAPE', '%sRunLengthDecoder::ESCAPE_VALUE' % es),
        ('ES_RLE_REPEAT', '%sRunLengthDecoder::REPEAT_VALUE' % es),
        # Pathport
        ('PP_HEADER_SIZE', 'sizeof(%spathport_packet_header)' % pp),
        ('PP_PDU_HEADER_SIZE', 'sizeof(%spathport_pdu_header)' % pp),
        ('PP_PDU_DATA_SIZE', 'sizeof(%spathport_pdu_data)' % pp),
        ('PP_PROTOCOL', '%sPathportNode::PATHPORT_PROTOCOL' % pp),
        ('PP_MAJOR_VERSION', '%sPathportNode::MAJOR_VERSION' % pp),
        ('PP_MINOR_VERSION', '%sPathportNode::MINOR_VERSION' % pp),
        ('PP_DATA_GROUP', '%sPathportNode::PATHPORT_DATA_GROUP' % pp),
        ('PP_ID_BROADCAST', '%sPathportNode::PATHPORT_ID_BROADCAST' % pp),
        ('PP_STATUS_GROUP', '%sPathportNode::PATHPORT_STATUS_GROUP' % pp),
        ('PP_CONFIG_GROUP', '%sPathportNode::PATHPORT_CONFIG_GROUP' % pp),
        ('PP_MAX_UNIVERSES', '%sPathportNode::MAX_UNIVERSES' % pp),
        ('PP_DATA', '%sPATHPORT_DATA' % pp),
        ('PP_XDMX_DATA_FLAT', '%sPathportNode::XDMX_DATA_FLAT' % pp),
        # E1.31 / ACN
        ('ACN_MAX_DATAGRAM_SIZE', '%sPreamblePacker::MAX_DATAGRAM_SIZE' % ac),
        ('ACN_TWOB_LENGTH_LIMIT', '%sPDU::TWOB_LENGTH_LIMIT' % ac),
        ('ACN_VFLAG', '%sVFLAG_MASK' % ac), ('ACN_HFLAG', '%sHFLAG_MASK' % ac),
        ('ACN_DFLAG', '%sDFLAG_MASK' % ac), ('ACN_LFLAG', '%sLFLAG_MASK' % ac),
        ('ACN_LENGTH_MASK', '%sBaseInflator::LENGTH_MASK' % ac),
        ('ACN_CID_LENGTH', '%sCID::CID_LENGTH' % ac),
        ('VECTOR_ROOT_E131', '%sVECTOR_ROOT_E131' % ac),
        ('VECTOR_ROOT_E131_REV2', '%sVECTOR_ROOT_E131_REV2' % ac),
        ('VECTOR_E131_DATA', '%sVECTOR_E131_DATA' % ac),
        ('DMP_SET_PROPERTY_VECTOR', '%sDMP_SET_PROPERTY_VECTOR' % ac),
        ('E131_HEADER_SIZE', 'sizeof(%sE131Header::e131_pdu_header)' % ac),
        ('E131_REV2_HEADER_SIZE', 'sizeof(%sE131Rev2Header::e131_rev2_pdu_header)' % ac),
        ('E131_SOURCE_NAME_LEN', '%sE131Header::SOURCE_NAME_LEN' % ac),
        ('E131_REV2_SOURCE_NAME_LEN', '%sE131Rev2Header::REV2_SOURCE_NAME_LEN' % ac),
        ('E131_OFF_priority', 'offsetof(%sE131Header::e131_pdu_header, priority)' % ac),
        ('E131_OFF_sequence', 'offsetof(%sE131Header::e131_pdu_header, sequence)' % ac),
        ('E131_OFF_options', 'offsetof(%sE131Header::e131_pdu_header, options)' % ac),
        ('E131_OFF_universe', 'offsetof(%sE131Header::e131_pdu_header, universe)' % ac),
        ('E131R2_OFF_priority', 'offsetof(%sE131Rev2Header::e131_rev2_pdu_header, priority)' % ac),
        ('E131R2_OFF_sequence', 'offsetof(%sE131Rev2Header::e131_rev2_pdu_header, sequence)' % ac),
        ('E131R2_OFF_universe', 'offsetof(%sE131Rev2Header::e131_rev2_pdu_header, universe)' % ac),
        ('E131_PREVIEW_DATA_MASK', '%sE131Header::PREVIEW_DATA_MASK' % ac),
        ('E131_STREAM_TERMINATED_MASK', '%sE131Header::STREAM_TERMINATED_MASK' % ac),
        ('E131_MAX_PRIORITY', '%sDMPE131Inflator::MAX_E131_PRIORITY' % ac),
        ('E131_MAX_MERGE_SOURCES', '%sDMPE131Inflator::MAX_MERGE_SOURCES' % ac),
        ('E131_SEQ_DIFF_NEG', '-%sDMPE131Inflator::SEQUENCE_DIFF_THRESHOLD' % ac),
        ('DMP_HEADER_SIZE', '%sDMPHeader::DMP_HEADER_SIZE' % ac),
        ('DMP_VIRTUAL_MASK', '%sDMPHeader::VIRTUAL_MASK' % ac), ('DMP_RELATIVE_MASK', '%sDMPHeader::RELATIVE_MASK' % ac),
        ('DMP_TYPE_MASK', '%sDMPHeader::TYPE_MASK' % ac), ('DMP_SIZE_MASK', '%sDMPHeader::SIZE_MASK' % ac),
        ('DMP_TWO_BYTES', '%sTWO_BYTES' % ac), ('DMP_RANGE_EQUAL', '%sRANGE_EQUAL' % ac),
        ('DMP_NON_RANGE', '%sNON_RANGE' % ac), ('DMP_RES_BYTES', '%sRES_BYTES' % ac),
    ]
    return v.gen_consts_cpp(ID, ['ola/Constants.h', 'ola/dmx/RunLengthEncoder.h',
                                 'plugins/shownet/ShowNetNode.h', 'plugins/artnet/ArtNetNode.h',
                                 'plugins/artnet/ArtNetPackets.h', 'plugins/sandnet/SandNetNode.h',
                                 'plugins/espnet/EspNetNode.h', 'plugins/espnet/RunLengthDecoder.h', 'plugins/pathport/PathportNode.h',
                                 'ola/acn/ACNVectors.h', 'ola/acn/ACNFlags.h', 'ola/acn/CID.h',
                                 'libs/acn/PreamblePacker.h', 'libs/acn/PDU.h', 'libs/acn/BaseInflator.h',
                                 'libs/acn/E131Header.h', 'libs/acn/DMPE131Inflator.h',
                                 'libs/acn/DMPHeader.h', 'libs/acn/DMPAddress.h'],
                            ents, os.path.join(v.VERIF, 'props', ID, 'coq', 'Gen.v'))


RULE = ('frames of every length 0-512 x {random, all-equal, ramp, alternating, no-triple stretches, runs of exactly '
        '2/3/126/127/128/129/254/255, literal tails of 125-131 after a run, frames whose RLE length equals their slot '
        'count} x encoder capacities {0..20, encoded length -2..+2, 512, 1310}; decoder on every truncation of valid '
        'encodings + random bytes x start channels around 0/511/512 x receiver buffer {unallocated, short, full}; '
        'per protocol (ShowNet, SandNet, ESP Net, Pathport, Art-Net, E1.31 rev 3 and rev 2) real-node send->receive '
        'over the address space (universe/net/sub-net/port, priorities, sequence numbers incl. wrap, source names), '
        'same and different receiver address; empty frames through every protocol; SandNet compressed datagrams built '
        'from the real encoder output (whole and cut); E1.31 stream lifecycles on one receiver (n in 1..300 frames incl. 19/20/21 '
        'and sequence wrap, TerminateStream, m frames of a new stream, receiver buffer compared after every frame) and one sender streaming N in {2..512} universes round-robin for 3+ '
        'rounds to a receiver with handlers on a sample of them (both revisions), E1.31 streams with per-frame priority '
        'changes; Art-Net receivers with 2-4 output ports on the same or mixed addresses; Art-Net two-node histories on a '
        'virtual clock (>= 120 s, ArtPoll/ArtPollReply exchanged at intervals below and above the 31 s age-out, unicast '
        'and always-broadcast senders); long-lived sender AND receiver node objects per protocol with scripts over four universes, repeated / identical '
        'frames and public setters between sends (names, StartStream, port re-configuration); Art-Net ports with two or '
        'three senders, joins and silences across the 10 s merge timeout, HTP and LTP; E1.31 receivers with two or three sender CIDs on a virtual clock (vanishing without terminate and expiring, take-over at lower / higher priority, a sender idling at blackout, terminate and restart); ESP Net DATA_RLE datagrams from a reference encoder (values 0xFD/0xFE as literals, pairs, runs of every chunk length) and arbitrary bytes through the real RunLengthDecoder; every public E1.31 send entry point on one stream (SendDMXWithSequenceOffset with offsets -128..127, per-call priority, preview, SendStreamTerminated, SetSourceName, StartStream) interleaved with regular sends, checked against the E1.31 sequence-window rules; Art-Net SendTimeCode between ArtDmx sends; transmit DmxBuffers carry history (an earlier, longer frame left in the '
        '512-byte block; explicit dirty-block cases for Encode and ShowNet with short frames); Art-Net sender and receiver '
        'as separate nodes with 0/1/4 input ports and the address setters called in every order before/after Start(); '
        'non-trivial = complete encode / whole decode / datagram handled; '
        'distinct = distinct model output line')
ASSUMPTIONS = ['frames have at most 512 slots (DmxBuffer invariant)',
               'UDP delivery is the identity on datagrams (sendto/recvfrom interposed at link time)',
               'little-endian x86-64 host (HostToLittleEndian is the identity)',
               'encoded input to Decode shorter than 2^24 bytes (destination_index is an int in the C++)',
               'receivers have one registered handler / output port and no other source tracked yet '
               '(source arbitration and merging are C08)',
               'time for DMPE131Inflator (its own ola::Clock) is advanced through an interposed clock_gettime (real monotonic '
               'clock plus an offset); the 2.5 s expiry interval is typed in the model (defined in a .cpp file) and pinned by '
               'cases with gaps of 2.4 s and 2.7 s',
               'operator new does not fail']
TRUSTED = ['modelled rather than verified: RunLengthEncoder::Encode/Decode, DmxBuffer::Set/SetRange/SetRangeToValue/'
           'Get(channel), ShowNetNode::BuildCompressedPacket/HandlePacket/HandleCompressedPacket (size check as '
           'intended, see C06), SandNetNode::SendUncompressedDMX/SocketReady/HandleDMX/HandleCompressedDMX, EspNetNode::SendEspData/'
           'SocketReady/HandleData(raw), PathportNode::SendDMX/SocketReady/HandleDmxData, ArtNetNodeImpl::SendDMX/'
           'HandlePacket/HandleDataPacket (all output ports)/UpdatePortFromSource(first source), HandleReplyPacket + '
           'SendDMX subscribed-node ageing (one remote node, whole seconds), E131Node::SendDMXWithSequenceOffset + '
           'PDU/RootPDU/E131PDU/DMPPDU Pack + PreamblePacker, IncomingUDPTransport::Receive + BaseInflator walk + '
           'Root/E131/E131Rev2/DMP header decoders + DMPE131Inflator::HandlePDUData/TrackSourceIfRequired (one sender CID: '
           'first source, sequence window, termination), E131Node::TerminateStream/SendStreamTerminated; '
           'wire constants and struct offsets regenerated into Gen.v',
           'E1.31 receive model covers datagrams with one PDU per block (what OLA sends); blocks with several PDUs and '
           'Art-Net opcodes other than ArtDmx are reported as unmodelled, never fed by the generator',
           'ESP Net RunLengthDecoder::Decode and EspNetNode::HandleData(DATA_RLE) are modelled; the encoder of that format is a '
           'reference encoder written for the check (OLA has none), tied to a C++ copy in the harness by the compared `enc` key',
           'not modelled: ESP Net pairs data type (unsupported by OLA), ShowNet uncompressed packets (neither sent nor '
           'handled by OLA), KiNET (send only, received datagrams are discarded)']
SPEC_KEYS = ['lossless', 'clean', 'spec', 'handled', 'ret']
PROC_TIMEOUT = 1800
INTERNAL_KEYS = []
LEVEL_TEXT = ('Coq theorems, for all frames of 1-512 slots and all addresses, about executable models of the send and '
              'receive code of every DMX-over-network protocol OLA both sends and receives: c07_P_roundtrip for ShowNet '
              '(RLE path and raw-when-lengths-collide), SandNet, ESP Net, Pathport, Art-Net (even-length padding) and '
              'E1.31 revisions 3 and 2: receive(build f) = the property\'s expected buffer over any old receiver '
              'buffer; c07_e131_stream_roundtrip: with a receiver that keeps its sequence/priority tracking state, every '
              'frame of a stream of any length and of a stream restarted after TerminateStream is delivered; '
              'c07_e131_stream_priorities (priority changing per frame), c07_artnet_ports (every output port registered on '
              'the address is updated), c07_artnet_unicast_delivery (subscribed-node table: no frame is suppressed while '
              'the receiver replies within the 31 s age-out); c07_e131_any_history (BOTH revisions: any interleaving of '
              'sends over any universes, per-send priority, frames of 0-512 slots), c07_shownet_history / '
              'c07_pathport_history / c07_partial_slotwise (after any sequence of partial frames each slot holds the last '
              'frame that covered it, other slots untouched), c07_addressing (a datagram reaches the handler of its own '
              'address and no other), c07_sandnet_compressed_receive, c07_empty_frames; '
              'c07_artnet_remaining_sender (two merge slots, LTP/HTP: once the other sender is silent beyond the 10 s merge '
              'timeout the remaining sender\'s frame is reproduced exactly), c07_e131_sender_script (SetSourceName / '
              'StartStream between sends never disturb a stream), c07_shownet_sender_history (one sender, any universes, '
              'identical frames, renames); c07_e131_sender_script_offsets (scripts mixing sends, offset sends -1..-20, SetSourceName/StartStream: every regular frame delivered) and c07_e131_offset_ahead; c07_espnet_rle_lossless (ESP Net run-length format: decode of a reference encoding gives the frame back for every frame, 0xFD/0xFE in runs and literals included); c07_e131_remaining_sender (several sender CIDs: once every other sender has expired the live sender\'s frame is reproduced exactly, whatever priority the vanished senders left behind); c07_e131_multi_universe: for any interleaving of sends over any universes by one sender each handler sees '
              'exactly the frames of its own universe (rev 3 proved; rev 2 multi-universe correspondence-tested); plus RunLengthEncoder lossless / bounded / false-iff-truncated / count bytes in 1..127 for all '
              'frames and capacities.  The models are tied to the C++ (real node objects, ASan/UBSan, datagram bytes '
              'compared) by a differential correspondence check; receivers are modelled with one handler and no '
              'previously tracked source.')
LEVEL_NOTE = ('Trusted: Coq kernel, extraction (ExtrOcamlBasic), OCaml/C++ glue incl. the sendto/recvfrom interposers, '
              'generator coverage of the correspondence; model = code is validated by differential testing, not proved; '
              'ShowNet receive size check modelled as intended; E1.31 receive model restricted to one PDU per block; '
              'IP/UDP delivery assumed to be the identity on datagrams.')
TECHNIQUE = 'Coq proof on hand-written executable model + extracted-model/implementation differential correspondence'
DESIGN_REF = 'DESIGN.md §4 C07'


def hx(bs):
    return ''.join('%02x' % b for b in bs) if bs else '-'


def py_enc(f):
    """generator-side reference of the (fixed) encoder, unbounded capacity; only used to aim capacities"""
    n = len(f)
    g = lambda j: f[j] if j < n else 0
    i, out = 0, []
    while i < n:
        j = i + 1
        while j < n and f[i] == g(j) and j - i < 127:
            j += 1
        if j - i > 2:
            out += [0x80 | (j - i), f[i]]
            i = j
        else:
            lim = (n - 2) & 0xffffffff
            j = i + 1
            while j < lim and j - i < 127:
                if g(j) == g(j + 1) == g(j + 2):
                    break
                j += 1
            if j >= lim:
                j = n
            if j - i > 127:
                j = i + 127
            out += [j - i] + f[i:j]
            i = j
    return out


def notriple(rng, n, pairs=True):
    """n slots without three equal in a row (pairs allowed when asked)"""
    out = []
    while len(out) < n:
        v = rng.randrange(256)
        if out and v == out[-1] and (not pairs or (len(out) > 1 and out[-2] == v)):
            continue
        out.append(v)
    # never let the stretch start/continue a run with its neighbours: caller separates with distinct values
    return out


def run(v, k):
    return [v] * k


def frames(rng, quick):
    """yield (kind, frame) aimed at the encoder's case splits"""
    lens = ([0, 1, 2, 3, 4, 5, 126, 127, 128, 129, 130, 131, 253, 254, 255, 256, 257, 258, 381, 382, 383, 384,
             508, 509, 510, 511, 512] + [rng.randrange(513) for _ in range(12 if quick else 120)])
    if not quick:
        lens = list(range(0, 513))
    for n in lens:
        yield 'random', [rng.randrange(256) for _ in range(n)]
        yield 'equal', run(rng.randrange(256), n)
        yield 'ramp', [(i * 7 + 3) & 255 for i in range(n)]
        yield 'alt', [(17 if i & 1 else 200) for i in range(n)]
        yield 'notriple', notriple(rng, n)
        yield 'few', [rng.choice([0, 0, 0, 255, 7]) for _ in range(n)]
    for k in (2, 3, 4, 126, 127, 128, 129, 130, 253, 254, 255, 256, 381, 382):
        for pre in (0, 1, 2, 5):
            for post in (0, 1, 2, 3, 126, 127, 128, 129):
                a = notriple(rng, pre, False)
                b = notriple(rng, post, False)
                v = rng.choice([x for x in range(256) if (not a or a[-1] != x) and (not b or b[0] != x)])
                fr = a + run(v, k) + b
                if len(fr) <= 512:
                    yield 'run%d' % k, fr
    for t in (1, 2, 3, 125, 126, 127, 128, 129, 130, 131, 253, 254, 255, 256, 257, 258):
        for prek in (0, 3, 5, 127, 130):
            b = notriple(rng, t)
            v = rng.choice([x for x in range(256) if x != b[0]])
            yield 'tail%d' % t, (run(v, prek) + b)[:512]
            # the same with a pair at the very end / start
            if t >= 2:
                b2 = list(b); b2[-1] = b2[-2]
                if t < 3 or b2[-3] != b2[-1]:
                    yield 'tail%dp' % t, (run(v, prek) + b2)[:512]
    # frames whose encoded length equals their slot count (ShowNet raw/RLE ambiguity)
    yield 'collide', [5, 5, 5, 7]
    for _ in range(20 if quick else 300):
        t = rng.choice([1, 2, 5, 50, 120, 126])
        b = notriple(rng, t, False)
        v = rng.choice([x for x in range(256) if x != b[0] and x != b[-1]])
        fr = rng.choice([run(v, 3) + b, b + run(v, 3)])
        yield 'collide', fr
    for _ in range(10 if quick else 100):
        # run of 4 (saves two bytes) + a literal stretch that needs two segments (costs two)
        t = rng.choice([128, 129, 130, 200, 254])
        b = notriple(rng, t, False)
        v = rng.choice([x for x in range(256) if x != b[0]])
        yield 'collide2', run(v, 4) + b


def olds(rng, n):
    return rng.choice(['none', 'none', hx([rng.randrange(1, 256) for _ in range(512)]),
                       hx([rng.randrange(1, 256) for _ in range(rng.choice([1, 3, 10, max(1, n - 1), n or 1, min(512, n + 1)]))]),
                       hx([rng.randrange(1, 256) for _ in range(rng.randrange(1, 513))])])


def gen_cases(rng, tier):
    quick = tier == 'quick'
    fl = list(frames(rng, quick))
    # ---- encoder: capacities
    for kind, f in fl:
        e = len(py_enc(f))
        caps = {e - 2, e - 1, e, e + 1, e + 2, 512, 1310}
        if quick:
            caps |= set(rng.sample(range(0, 21), 3)) | {rng.randrange(0, e + 1)}
        else:
            caps |= set(range(0, 21)) | {rng.randrange(0, e + 1) for _ in range(4)}
        for c in sorted(x for x in caps if x >= 0):
            yield 'enc %d %s' % (c, hx(f))
    # ---- encoder / ShowNet sender on a DmxBuffer with history: the 512-byte block still holds an earlier,
    #      longer frame beyond the current length (Get() beyond the frame must read as 0)
    def dirties(f):
        v = f[-1] if f else 0
        yield [(v + 1 + k * 37) & 255 for k in range(512)]                 # no three equal neighbours
        yield notriple(rng, 512)
        yield [v] * 512                                                     # continues the frame's last value
        yield f + [v, v] + notriple(rng, rng.randrange(1, 200))            # would extend a run past the end
        yield f + notriple(rng, rng.choice([1, 2, 3, 130]))                # just a little longer
        yield [0] * 512
    shorts = [[rng.randrange(256) for _ in range(n)] for n in (1, 1, 2, 2, 3, 3, 4, 5, 10, 126, 127, 128, 129, 300)]
    shorts += [[9], [0], [5, 5], [5, 5, 5], [1, 2, 2], [3, 3, 1], [7] * 4 + [1, 2]]
    if not quick:
        shorts += [[rng.choice([0, 7, 255]) for _ in range(rng.randrange(1, 40))] for _ in range(200)]
    for f in shorts:
        e = len(py_enc(f))
        for dty in dirties(f):
            dty = dty[:512]
            for c in sorted({1310, e, e + 1, max(0, e - 1), 2, 3}):
                yield 'encd %d %s %s' % (c, hx(dty), hx(f))
            u = rng.randrange(8)
            yield 'snd %d %d %s %d %s %s %s' % (u, u, 'none', rng.randrange(65536), '-', hx(dty), hx(f))
    for i, (kind, f) in enumerate(fl):
        if f and (not quick or i % 4 == 0):
            u = rng.randrange(8)
            yield 'snd %d %d %s %d %s %s %s' % (u, u, olds(rng, len(f)), rng.randrange(65536), '-',
                                                 hx(next(dirties(f))), hx(f))
    # ---- decoder: truncations of valid encodings, random bytes, start channels, receiver states
    starts = [0, 0, 0, 1, 100, 385, 500, 510, 511, 512, 513, 600]
    sub = fl if not quick else rng.sample(fl, min(len(fl), 250))
    for kind, f in sub:
        e = py_enc(f)
        cuts = {len(e)} | {rng.randrange(0, len(e) + 1) for _ in range(3)} | {max(0, len(e) - 1)}
        for c in sorted(cuts):
            yield 'dec %d %s %s' % (rng.choice(starts), olds(rng, len(f)), hx(e[:c]))
    for _ in range(800 if quick else 20000):
        n = rng.choice([0, 1, 2, 3, 5, 20, 100, rng.randrange(1, 300)])
        bs = [rng.choice([rng.randrange(256), 0x80, 0x81, 0x7f, 0xff, 0, 1, 2]) for _ in range(n)]
        yield 'dec %d %s %s' % (rng.choice(starts), olds(rng, n), hx(bs))
    # ---- protocols
    names = ['-', hx(b'ola'), hx(b'foobarbaz'), hx(b'a-very-long-name')]
    for kind, f in fl:
        if not f:
            continue
        reps = 1 if quick else 2
        for _ in range(reps):
            u = rng.randrange(8)
            hu = u if rng.random() < 0.9 else rng.randrange(8)
            yield 'sn %d %d %s %d %s %s' % (u, hu, olds(rng, len(f)), rng.choice([0, 1, 255, 256, 65535, rng.randrange(65536)]),
                                            rng.choice(names), hx(f))
    psub = fl if not quick else rng.sample(fl, min(len(fl), 260))
    for kind, f in psub:
        if not f:
            continue
        g, u = rng.choice([0, 1, 255, rng.randrange(256)]), rng.choice([0, 1, 255, rng.randrange(256)])
        hg, hu = (g, u) if rng.random() < 0.85 else (rng.choice([g, (g + 1) & 255]), rng.choice([u, (u + 1) & 255]))
        yield 'sa %d %d %d %d %d %s %s' % (g, u, rng.randrange(2), hg, hu, olds(rng, len(f)), hx(f))
        u = rng.choice([0, 1, 255, rng.randrange(256)])
        hu = u if rng.random() < 0.85 else (u + rng.choice([1, 255])) & 255
        yield 'es %d %d %s %s' % (u, hu, olds(rng, len(f)), hx(f))
        u = rng.choice([0, 1, 126, 127, rng.randrange(128)])
        hu = u if rng.random() < 0.85 else (u + rng.choice([1, 127])) % 128
        yield 'pp %d %d %s %d %d %s' % (u, hu, olds(rng, len(f)), rng.choice([0, 1, 0x28000fff, 0xffffffff, rng.randrange(1 << 32)]),
                                        rng.choice([0, 1, 65535, rng.randrange(65536)]), hx(f))
        # Art-Net: net / sub-net / universe / port, receiver on the same or another universe
        net, sub, uni = rng.choice([0, 1, 127, 128, rng.randrange(128)]), rng.randrange(16), rng.randrange(16)
        huni = uni if rng.random() < 0.85 else (uni + 1) % 16
        yield 'an %d %d %d %d %d %s %d %s' % (net, sub, uni, rng.randrange(4), huni, olds(rng, len(f)),
                                              rng.choice([0, 0, 1, 2, 255, 256]), hx(f))
        # Art-Net, separate sender / receiver nodes, receiver with 0/1/4 input ports, configuration calls in
        # every order, before or after Start(), any output port
        net, sub, uni = rng.choice([0, 1, 127, rng.randrange(128)]), rng.choice([0, 1, 15, rng.randrange(16)]), rng.randrange(16)
        huni = uni if rng.random() < 0.9 else (uni + 1) % 16
        yield 'an2 %d %d %d %d %d %d %d %s %d %s' % (rng.choice([0, 0, 1, 4]), rng.randrange(48), net, sub, uni,
                                                     rng.randrange(4), huni, olds(rng, len(f)), rng.choice([0, 0, 1, 255]), hx(f))
        # E1.31, both revisions
        for rev2 in (0, 1):
            u = rng.choice([1, 2, 255, 256, 63999, 65534, rng.randrange(1, 65535), rng.randrange(1, 65535)])
            if rng.random() < 0.03:
                u = rng.choice([0, 65535])
            hu = u if rng.random() < 0.85 else (u % 65534) + 1
            yield 'e1 %d %d %d %s %d %d %d %s %s' % (rev2, u, hu, olds(rng, len(f)), rng.choice([0, 0, 1, 2, 255, 256]),
                                                     rng.choice([100, 100, 100, 0, 1, 199, 200, 201, 255]),
                                                     1 if rng.random() < 0.1 else 0,
                                                     rng.choice(['-', hx(b'OLA Server'), hx(b'x' * 31), hx(b'y' * 32), hx(b'z' * 70)]), hx(f))
    # ---- E1.31 stream lifecycle on ONE receiver: n frames, TerminateStream, m frames of a new stream
    ns = [1, 2, 3, 19, 20, 21, 22, 30, 255, 256, 257] if quick else list(range(1, 40)) + [127, 128, 129, 254, 255, 256, 257, 300]
    ms = [1, 2, 19, 20, 21, 25] if quick else [1, 2, 3, 19, 20, 21, 22, 30, 260]
    for n in ns:
        for m in (rng.sample(ms, 2) if quick else ms):
            fa = [rng.randrange(256) for _ in range(rng.choice([1, 2, 5, 24, 512]))]
            fb = [rng.randrange(256) for _ in range(rng.choice([1, 3, 5, 24, 511]))]
            yield 'e1s %d %d %d %s %d %s' % (rng.choice([1, 2, 63999, rng.randrange(1, 65535)]),
                                             rng.choice([100, 100, 0, 1, 200]), n, hx(fa), m, hx(fb))
    # ---- E1.31: ONE sender streaming N universes round-robin, receiver handlers on a sample of them
    big = [2, 20, 236, 237, 240, 255, 256, 257, 512]
    for rev2 in (0, 1):
        for N in ([2, 20, 256, rng.choice([237, 240, 255, 512]), rng.choice([236, 257])] if quick else big + [3, 128, 300]):
            idx = sorted(set([0, N - 1, rng.randrange(N), rng.randrange(N)]))
            base = [rng.randrange(256) for _ in range(rng.choice([1, 2, 5, 24]) if N > 20 else rng.choice([1, 2, 24, 512]))]
            yield 'e1m %d %d %d %d %d %s %s' % (rev2, rng.choice([1, 1000, 65534 - N]), N, 3 if quick else rng.choice([3, 4]),
                                                rng.choice([100, 100, 0, 200]), ','.join(map(str, idx)), hx(base))
    # ---- Art-Net receivers with 2-4 output ports on the same / mixed addresses
    for _ in range(40 if quick else 600):
        uni = rng.randrange(16)
        hs = [rng.choice([uni, uni, uni, (uni + 1) % 16, rng.randrange(16), 'x']) for _ in range(4)]
        f = [rng.randrange(256) for _ in range(rng.choice([1, 2, 5, 24, 511, 512]))]
        yield 'an3 %d %d %d %d %s %d %s' % (rng.randrange(128), rng.randrange(16), uni, rng.randrange(4),
                                            ','.join(map(str, hs)), rng.choice([0, 1, 255]), hx(f))
    for hs in ('3,3,x,x', 'x,3,3,3', '3,3,3,3', '4,3,4,3', 'x,x,x,3'):
        yield 'an3 1 2 3 0 %s 0 %s' % (hs, hx([9, 8, 7]))
    # ---- Art-Net long-running histories on a virtual clock: polls / replies exchanged, a frame every `step`
    #      seconds for >= 120 s, unicast (default) and always-broadcast senders
    for bc in (0, 0, 1):
        for step, every in ((4, 2), (4, 7), (7, 4), (10, 3), (15, 2), (3, 10), (5, 6), (10, 4), (4, 0)):
            steps = (130 // step) + rng.randrange(3)
            f = [rng.randrange(256) for _ in range(rng.choice([1, 2, 5, 24] if quick else [1, 2, 24, 511, 512]))]
            yield 'anu %d %d %d %d %d %d %d %s' % (bc, rng.randrange(128), rng.randrange(16), rng.randrange(16),
                                                   step, steps, every, hx(f))
    # ---- E1.31 streams whose priority changes from frame to frame (same CID), both revisions
    plists = ['150,120,60', '200,0', '0,200,0', '100,100,99,99,100', '60,120,150,150,1', '1,0,0,1',
              '200,199,198,197,196,195', '100,50,100,50,100']
    for rev2 in (0, 1):
        for pl in plists + [','.join(str(rng.choice([0, 1, 99, 100, 101, 199, 200])) for _ in range(rng.randrange(2, 30)))
                            for _ in range(6 if quick else 200)]:
            f = [rng.randrange(256) for _ in range(rng.choice([1, 2, 5, 24, 512]))]
            yield 'e1p %d %d %s %s' % (rev2, rng.choice([1, 7, 63999, rng.randrange(1, 65535)]), pl, hx(f))
    # ---- SandNet compressed DMX (receive path only; the datagram is built from the real encoder's output)
    sub = [f for k, f in fl if 0 < len(f) <= 400]
    for f in (rng.sample(sub, 60) if quick else sub):
        g, u = rng.randrange(256), rng.randrange(256)
        hg, hu = (g, u) if rng.random() < 0.9 else ((g + 1) & 255, u)
        e = len(py_enc(f))
        cut = -1 if rng.random() < 0.7 else rng.randrange(0, e + 1)
        yield 'sac %d %d %d %d %s %d %s' % (g, u, hg, hu, olds(rng, len(f)), cut, hx(f))
    # ---- empty frames through every protocol
    yield 'sn 1 1 none 0 - -'
    yield 'sa 1 2 0 1 2 none -'
    yield 'es 3 3 0102 -'
    yield 'pp 4 4 0102 7 1 -'
    yield 'an 1 2 3 0 3 none 0 -'
    yield 'e1 0 5 5 0102 0 100 0 - -'
    yield 'e1 1 5 5 0102 0 100 0 - -'
    # ---- long-lived sender and receiver nodes: histories over four universes with repeated / identical frames
    #      and configuration calls (name setters, StartStream, port re-configuration ...) between the sends
    for proto in ('sn', 'sa', 'es', 'pp', 'an', 'e1', 'e2'):
        for _ in range(6 if quick else 60):
            npool = rng.choice([1, 2, 3])
            pool = [[rng.randrange(256) for _ in range(rng.choice([1, 2, 5, 24, 511, 512]))] for _ in range(npool)]
            toks = []
            n = rng.choice([6, 12, 30]) if quick else rng.choice([6, 12, 30, 300])
            for i in range(n):
                r = rng.random()
                slot = rng.randrange(4) if rng.random() < 0.7 else rng.randrange(2)
                if r < 0.12:
                    toks.append('n%d%d' % (slot, rng.randrange(3)))
                elif r < 0.2:
                    toks.append('x%d' % slot)
                else:
                    toks.append('s%d%d' % (slot, rng.randrange(npool)))
            yield 'hist %s %s %s' % (proto, '/'.join(hx(f) for f in pool), ','.join(toks))
        # the same frame to every universe in turn, and a rename in the middle of a long stream
        yield 'hist %s %s %s' % (proto, hx([7, 7, 7, 9]), 's00,s10,s20,s30,s00,s10')
        for k in (1, 5, 20, 21, 260):
            yield 'hist %s %s %s' % (proto, hx([1, 2, 3]) + '/' + hx([4, 5]),
                                     ','.join(['s0%d' % (i & 1) for i in range(k)] + ['n01', 'x0'] + ['s0%d' % (i & 1) for i in range(3)]))
    # ---- Art-Net receiver port with several senders: a second / third sender joins, one goes silent across
    #      the merge timeout (waits are multiples of 3 s so that a gap is never exactly the 10 s timeout)
    for ltp in (0, 1):
        yield 'anm %d %s %s' % (ltp, hx([200, 200, 200, 200]) + '/' + hx([1, 2, 3, 4]),
                                'a0,w3,b1,w3,b1,w3,b1,w6,b1,w3,b1')
        yield 'anm %d %s %s' % (ltp, hx([9, 0, 9, 0, 9]) + '/' + hx([0, 7]), 'b0,w3,a1,w12,a1,w3,a1,b0,w24,b0')
        for _ in range(8 if quick else 150):
            npool = rng.choice([2, 3])
            pool = [[rng.randrange(256) for _ in range(rng.choice([1, 2, 5, 24, 511, 512]))] for _ in range(npool)]
            toks = []
            for i in range(rng.choice([8, 16, 30])):
                r = rng.random()
                if r < 0.35:
                    toks.append('w%d' % rng.choice([3, 3, 6, 12, 24]))
                else:
                    toks.append('%s%d' % (rng.choice('aabbc'), rng.randrange(npool)))
            yield 'anm %d %s %s' % (ltp, '/'.join(hx(f) for f in pool), ','.join(toks))
    # ---- E1.31 receiver with two or three sender CIDs over (virtual) time: a sender vanishes without terminate
    #      and expires, another takes over at a lower / higher / equal priority; a sender idles at blackout while
    #      another one sends; terminate + restart.  Waits are multiples of 300 ms (never exactly the 2.5 s expiry).
    zero4, hi, lo = hx([0, 0, 0, 0]), hx([200, 200, 200, 200]), hx([10, 20, 30, 40])
    for rev2 in (0, 1):
        yield 'e1c %d %s %s' % (rev2, hi + '/' + lo, 'pa150,a0,w300,a0,w2700,pb100,b1,w300,b1,w300,b1')
        yield 'e1c %d %s %s' % (rev2, hi + '/' + lo + '/' + zero4, 'b2,w300,a0,w300,b2,w300,a1,w300,b2,a1,w300,a0')
        yield 'e1c %d %s %s' % (rev2, hi + '/' + lo, 'a0,w2400,pb50,b1,w300,b1,w2400,b1,w300,b1')
        yield 'e1c %d %s %s' % (rev2, hi + '/' + lo, 'pa200,a0,ta,pb1,b1,w300,b1,a0,w300,b1')
        for _ in range(10 if quick else 200):
            pool = [hx([rng.randrange(256) for _ in range(rng.choice([1, 4, 24, 512]))]) for _ in range(2)] + \
                   [hx([0] * rng.choice([1, 4, 24]))]
            toks = []
            for i in range(rng.choice([8, 16, 30])):
                r = rng.random()
                if r < 0.3:
                    toks.append('w%d' % rng.choice([300, 300, 600, 2400, 2700, 3300]))
                elif r < 0.4:
                    toks.append('p%s%d' % (rng.choice('abc'), rng.choice([0, 50, 100, 100, 150, 200])))
                elif r < 0.47:
                    toks.append('t%s' % rng.choice('ab'))
                else:
                    toks.append('%s%d' % (rng.choice('aabbc'), rng.randrange(3)))
            yield 'e1c %d %s %s' % (rev2, '/'.join(pool), ','.join(toks))
    # ---- ESP Net run-length coded data (received only): frames through a reference encoder of the format,
    #      aimed at the escape / repeat bytes 0xFD 0xFE as literals, pairs and runs of every chunking length
    def esp_frames():
        for v in (0, 7, 252, 253, 254, 255):
            for n in (1, 2, 3, 4, 254, 255, 256, 257, 400):
                yield [v] * n
                yield [1] + [v] * n + [2]
            yield [v] * 510; yield [v] * 511; yield [v] * 512
        yield [253, 254, 253, 254]; yield [254, 3, 7]; yield [253, 253, 253, 9]; yield [9, 254, 254, 254, 253]
        for _ in range(40 if quick else 600):
            n = rng.choice([1, 2, 5, 24, 100, 300])
            yield [rng.choice([0, 1, 252, 253, 253, 254, 254, 255, rng.randrange(256)]) for _ in range(n)]
        for _ in range(10 if quick else 100):
            f = []
            while len(f) < rng.choice([50, 300, 512]):
                f += [rng.choice([253, 254, 0, rng.randrange(256)])] * rng.choice([1, 1, 2, 3, 5, 40, 260])
            yield f[:512]
    for f in esp_frames():
        u = rng.randrange(256)
        hu = u if rng.random() < 0.92 else (u + 1) & 255
        yield 'esr %d %d %s %s' % (u, hu, olds(rng, len(f)), hx(f))
    for _ in range(300 if quick else 6000):
        n = rng.choice([0, 1, 2, 3, 5, 20, 100, rng.randrange(1, 600)])
        bs = [rng.choice([0xFD, 0xFE, 0xFE, 0, 1, 3, 255, rng.randrange(256)]) for _ in range(n)]
        yield 'esd %s %s' % (olds(rng, n), hx(bs))
    # ---- E1.31: every public send entry point on one stream, interleaved with regular sends
    for rev2 in (0, 1):
        pool2 = hx([1, 2, 3]) + '/' + hx([9, 8])
        for off in (-30, -21, -20, -19, -5, -1, 0, 1, 5, 19, 20, 21, 100, 127, -128):
            yield 'e1x %d %s %s' % (rev2, pool2, ','.join(['s0', 's1', 's0', 'o1_%d' % off] + ['s%d' % (i & 1) for i in range(24)]))
            yield 'e1x %d %s %s' % (rev2, pool2, ','.join(['s%d' % (i & 1) for i in range(rng.choice([1, 30, 250, 260]))]
                                                           + ['o0_%d' % off, 's1', 's0', 's1', 's0', 's1', 's0']))
        yield 'e1x %d %s %s' % (rev2, pool2, 'o0_-5,s1,s0,s1')
        yield 'e1x %d %s %s' % (rev2, pool2, 's0,s1,z,s0,s1,v0,s1,p0_200,s1,p1_0,s0,n,x,s1')
        for _ in range(10 if quick else 200):
            toks = []
            for i in range(rng.choice([8, 20, 40])):
                r = rng.random()
                if r < 0.6: toks.append('s%d' % rng.randrange(2))
                elif r < 0.72: toks.append('o%d_%d' % (rng.randrange(2), rng.choice([-25, -20, -19, -5, -1, 0, 1, 5, 30])))
                elif r < 0.8: toks.append('p%d_%d' % (rng.randrange(2), rng.choice([0, 1, 100, 150, 200])))
                elif r < 0.86: toks.append('v%d' % rng.randrange(2))
                elif r < 0.92: toks.append('z')
                else: toks.append(rng.choice(['n', 'x']))
            yield 'e1x %d %s %s' % (rev2, pool2, ','.join(toks))
    if not quick:
        # all addresses of the small address spaces
        f = [1, 2, 3, 3, 3, 9]
        for u in range(8):
            for hu in range(8):
                yield 'sn %d %d none 7 %s %s' % (u, hu, names[1], hx(f))
        for u in range(128):
            yield 'pp %d %d none 5 9 %s' % (u, u, hx(f))
        for u in range(256):
            yield 'es %d %d none %s' % (u, u, hx(f))
            yield 'sa %d %d 0 %d %d none %s' % (u, 255 - u, u, 255 - u, hx(f))
        for net in (0, 5, 127):
            for sub in range(16):
                for uni in range(16):
                    yield 'an %d %d %d %d %d none 0 %s' % (net, sub, uni, (sub + uni) % 4, uni, hx(f))
        for net in range(128):
            yield 'an %d 3 4 1 4 none 1 %s' % (net, hx(f + [7]))
        for ipc in (0, 1, 4):
            for sub in range(16):
                for uni in range(16):
                    yield 'an2 %d %d %d %d %d %d %d none 0 %s' % (ipc, (sub * 16 + uni + ipc) % 48, (sub * 8 + uni) % 128,
                                                                   sub, uni, uni % 4, uni, hx(f))
            for order in range(48):
                yield 'an2 %d %d 5 9 3 1 3 none 0 %s' % (ipc, order, hx(f))
        for u in list(range(1, 300)) + list(range(65000, 65535)) + [rng.randrange(1, 65535) for _ in range(500)]:
            yield 'e1 %d %d %d none 0 100 0 %s %s' % (u & 1, u, u, hx(b'OLA'), hx(f))


def nontrivial(payload, md):
    op = payload.split(' ', 1)[0]
    if op == 'enc':
        return md.get('ret') == '1' and md.get('size') not in (None, '0')
    if op == 'dec':
        return md.get('dret') == '1' and md.get('dbuf') not in (None, 'none')
    if op in ('e1s', 'e1m', 'an3', 'anu', 'e1p', 'sac', 'hist', 'anm', 'e1c', 'esr', 'e1x'):
        return md.get('spec') == '1'
    if op == 'esd':
        return md.get('dbuf') not in (None, 'none', '-')
    return md.get('handled') == '1'
