(* C07 — Art-Net receivers with several ports on one address, Art-Net unicast delivery while the
   receiver keeps replying, E1.31 streams with changing priority. *)
From OlaBase Require Import Bytes.
From C07 Require Import Gen Model ModelNet2 ModelStream ModelMulti ModelHist ListLemmas
     NetProofs NetProofs2 StreamProofs.
Local Open Scope N_scope.

(* ------------------------------------------------------------------ several output ports *)
Lemma artnet_ports seq phys addr net f (ports : list (N * buf)) :
  1 <= len f -> len f <= 512 -> addr < 256 -> net < 256 ->
  exists p, artnet_build seq phys addr net f = Some p /\
            artnet_handle_ports p net ports =
              map (fun pb => if addr =? fst pb then R2 (RHandled (expect_artnet f)) else R2 RDropped) ports.
Proof.
  intros H1 H2 Ha Hn.
  destruct (artnet_roundtrip seq phys addr net f None H1 H2 Ha Hn) as (p & B & _).
  exists p. split; [exact B|]. unfold artnet_handle_ports. apply map_ext. intros [pa b]. cbn [fst snd].
  destruct (artnet_roundtrip_gen seq phys addr net pa f b H1 H2 Ha Hn) as (p' & B' & R).
  rewrite B in B'. inversion B'; subst p'. exact R.
Qed.

(* ------------------------------------------------------------------ unicast delivery *)
Lemma an_run_ok (bcast : bool) phys addr net : addr < 256 -> net < 256 ->
  forall evs last seq b, replies_cover last evs ->
  an_run bcast phys addr net evs (last, seq) b = an_expect evs.
Proof.
  intros Ha Hn. induction evs as [|ev r IH]; intros last seq b C; [reflexivity|].
  destruct ev as [t|t f]; cbn [replies_cover] in C.
  - cbn [an_run an_tx_step an_expect]. f_equal. apply IH. exact C.
  - destruct C as (Cl & H1 & H2 & C).
    destruct (artnet_roundtrip seq phys addr net f b H1 H2 Ha Hn) as (p & B & R).
    cbn [an_run an_expect]. unfold an_tx_step.
    destruct bcast.
    + rewrite B, R. f_equal. apply IH. exact C.
    + destruct last as [l|]; [|contradiction].
      destruct (N.ltb_spec (l + AN_NODE_TIMEOUT) t) as [X|_]; [lia|].
      rewrite B, R. f_equal. apply IH. exact C.
Qed.

(* ------------------------------------------------------------------ priority per frame *)
Lemma send_all_p_ok cid name u ip : 1 <= u -> u <= 65534 ->
  forall fs, Forall (fun pf => fst pf <= 200 /\ 1 <= len (snd pf) /\ len (snd pf) <= 512) fs ->
  forall t st, inv t st ->
  exists t' st', send_all_p cid name u ip fs t st = (map (fun pf => (true, Some (snd pf))) fs, t', st')
                 /\ inv t' st'.
Proof.
  intros U1 U2. induction 1 as [|[prio f] r (Hp & H1 & H2) _ IH]; intros t st I.
  - exists t, st. split; [reflexivity|exact I].
  - cbn [fst snd] in *.
    destruct (step_data cid name prio u ip U1 U2 Hp t st f H1 H2 I) as (p & t1 & st1 & T & D & B & I1).
    destruct (IH t1 st1 I1) as (t2 & st2 & S & I2).
    exists t2, st2. split; [|exact I2]. cbn [send_all_p map snd]. rewrite T, D, S, B. reflexivity.
Qed.

Lemma stream_priorities cid name u ip tprio fs1 fs2 old : 1 <= u -> u <= 65534 -> tprio <= 200 ->
  Forall (fun pf => fst pf <= 200 /\ 1 <= len (snd pf) /\ len (snd pf) <= 512) fs1 ->
  Forall (fun pf => fst pf <= 200 /\ 1 <= len (snd pf) /\ len (snd pf) <= 512) fs2 ->
  exists t1 s1 pk t3 s3,
    send_all_p cid name u ip fs1 None (fresh_rx old) = (map (fun pf => (true, Some (snd pf))) fs1, t1, s1) /\
    tx_terminate cid name tprio u t1 = (pk, None) /\
    send_all_p cid name u ip fs2 None (deliver_all u ip pk s1)
      = (map (fun pf => (true, Some (snd pf))) fs2, t3, s3).
Proof.
  intros U1 U2 Ht F1 F2.
  destruct (send_all_p_ok cid name u ip U1 U2 fs1 F1 None (fresh_rx old) eq_refl) as (t1 & s1 & S1 & I1).
  destruct (terminate_ok cid name tprio u ip U1 U2 Ht t1 s1 I1) as (pk & T & I2).
  destruct (send_all_p_ok cid name u ip U1 U2 fs2 F2 None (deliver_all u ip pk s1) I2) as (t3 & s3 & S3 & _).
  exists t1, s1, pk, t3, s3. repeat split; assumption.
Qed.
