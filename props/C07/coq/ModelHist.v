(* C07 — histories: Art-Net receivers with several output ports, Art-Net unicast transmission with
   the subscribed-node table (ArtNetNodeImpl::HandleReplyPacket / SendDMX), E1.31 streams whose
   priority changes from frame to frame. *)
From OlaBase Require Import Bytes.
From C07 Require Import Gen Model ModelNet2 ModelStream ModelMulti.
Local Open Scope N_scope.

(* ------------------------------------------------------------------ Art-Net: several output ports *)
(* HandleDataPacket loops over all output ports; every enabled port with a handler whose universe
   address matches gets its own UpdatePortFromSource, independent of the others *)
Definition artnet_handle_ports (p : list N) (net : N) (ports : list (N * buf)) : list rres2 :=
  map (fun pb => artnet_handle p net (fst pb) (snd pb)) ports.

(* ------------------------------------------------------------------ Art-Net: unicast transmission *)
Inductive an_ev :=
| AReply (t : N)                   (* an ArtPollReply of the receiving node arrives at time t (seconds) *)
| ASend (t : N) (f : list N).      (* SendDMX at time t *)

(* sender state for one input port and one remote node: when it was last heard (None: not in
   subscribed_nodes), and the port's sequence number *)
Definition an_txs := (option N * N)%type.

(* always_broadcast: every frame goes out.  Otherwise (fewer subscribers than the broadcast
   threshold): nodes not heard of for more than NODE_TIMEOUT seconds are erased; with no node left
   the frame is suppressed (SendDMX still returns true) and the sequence number is not advanced *)
Definition an_tx_step (bcast : bool) (phys addr net : N) (st : an_txs) (ev : an_ev)
  : an_txs * option (list N) :=
  let '(tbl, seq) := st in
  match ev with
  | AReply t => ((Some t, seq), None)
  | ASend t f =>
    if bcast then ((tbl, u8 (seq + 1)), artnet_build seq phys addr net f)
    else match tbl with
         | None => ((None, seq), None)
         | Some last =>
           if last + AN_NODE_TIMEOUT <? t then ((None, seq), None)
           else ((Some last, u8 (seq + 1)), artnet_build seq phys addr net f)
         end
  end.

(* run a history; observation per event: None for a reply, Some (delivered?, receiver buffer) for a send *)
Fixpoint an_run (bcast : bool) (phys addr net : N) (evs : list an_ev) (st : an_txs) (b : buf)
  : list (option (bool * buf)) :=
  match evs with
  | [] => []
  | ev :: r =>
    let '(st', p) := an_tx_step bcast phys addr net st ev in
    match ev with
    | AReply _ => None :: an_run bcast phys addr net r st' b
    | ASend _ _ =>
      match p with
      | None => Some (false, b) :: an_run bcast phys addr net r st' b
      | Some p =>
        match artnet_handle p net addr b with
        | R2 (RHandled b') => Some (true, b') :: an_run bcast phys addr net r st' b'
        | _ => Some (false, b) :: an_run bcast phys addr net r st' b
        end
      end
    end
  end.

(* the receiver keeps answering: every send happens at most NODE_TIMEOUT seconds after the latest reply *)
Fixpoint replies_cover (last : option N) (evs : list an_ev) : Prop :=
  match evs with
  | [] => True
  | AReply t :: r => replies_cover (Some t) r
  | ASend t f :: r =>
    match last with Some l => t <= l + AN_NODE_TIMEOUT | None => False end /\
    1 <= len f /\ len f <= 512 /\ replies_cover last r
  end.

Fixpoint an_expect (evs : list an_ev) : list (option (bool * buf)) :=
  match evs with
  | [] => []
  | AReply _ :: r => None :: an_expect r
  | ASend _ f :: r => Some (true, expect_artnet f) :: an_expect r
  end.

(* ------------------------------------------------------------------ E1.31: priority per frame *)
Fixpoint send_all_p (cid name : list N) (u : N) (ip : bool) (fs : list (N * list N)) (t : txs) (st : rxs)
  : list (bool * buf) * txs * rxs :=
  match fs with
  | [] => ([], t, st)
  | (prio, f) :: r =>
    let '(p, t') := tx_send cid name prio u t f in
    let '(st', ran) := match p with Some p => deliver u ip st p | None => (st, false) end in
    let '(o, t'', st'') := send_all_p cid name u ip r t' st' in
    ((ran, rx_buf st') :: o, t'', st'')
  end.
