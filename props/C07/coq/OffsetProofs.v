(* C07 — E1.31: a send with a sequence offset does not disturb the stream. *)
From OlaBase Require Import Bytes.
From C07 Require Import Gen Model ModelNet2 ModelStream ModelMulti ModelExt ListLemmas NetProofs StreamProofs.
Local Open Scope N_scope.

(* SendDMXWithSequenceOffset: the packet carries sequence + offset (mod 256); the stream's own
   sequence number advances only when the offset is 0 (off is the offset as an 8-bit two's complement) *)
Definition tx_send_offset (rev2 : bool) (cid name : list N) (priority universe off : N) (t : txs) (f : list N)
  : option (list N) * txs :=
  let s := match t with Some s => s | None => 0 end in
  match e131_build_opt rev2 cid name priority (u8 (s + off)) universe 0 f with
  | Some p => (Some p, Some (if off mod 256 =? 0 then u8 (s + 1) else s))
  | None => (None, Some s)
  end.

Lemma offset_window s k : s < 256 -> 1 <= k -> k <= 20 ->
  (i8 (u8 (s + (256 - k)) + 256 - u8 (s + 255)) <=? 0)%Z &&
  (- Z.of_N E131_SEQ_DIFF_NEG <? i8 (u8 (s + (256 - k)) + 256 - u8 (s + 255)))%Z = true.
Proof.
  intros Hs H1 H2.
  assert (E := upto (fun s => forallb (fun k =>
      (i8 (u8 (s + (256 - k)) + 256 - u8 (s + 255)) <=? 0)%Z &&
      (- Z.of_N E131_SEQ_DIFF_NEG <? i8 (u8 (s + (256 - k)) + 256 - u8 (s + 255)))%Z)
      (map N.of_nat (seq 1 20))) 256 eq_refl s Hs).
  cbv beta in E. rewrite forallb_forall in E. apply E.
  apply in_map_iff. exists (N.to_nat k). split; [lia|]. apply in_seq. lia.
Qed.

(* a frame sent 1..20 behind the stream (offset -1 .. -20) is ignored by a receiver that follows the
   stream, and leaves its state as it was *)
Lemma negative_offset_ignored prio s k f st sb :
  s < 256 -> 1 <= k -> k <= 20 -> rx_src st = Some (u8 (s + 255), sb) ->
  track_tail prio (u8 (s + (256 - k))) false f st = Some (st, false).
Proof.
  intros Hs H1 H2 Hr. unfold track_tail. rewrite Hr, (offset_window s k Hs H1 H2). reflexivity.
Qed.

Lemma offset_keeps_sequence rev2 cid name prio u off s f :
  off mod 256 <> 0 ->
  snd (tx_send_offset rev2 cid name prio u off (Some s) f) = Some s.
Proof.
  intros H. unfold tx_send_offset. destruct (e131_build_opt _ _ _ _ _ _ _ _); cbn [snd]; [|reflexivity].
  destruct (N.eqb_spec (off mod 256) 0); [contradiction|reflexivity].
Qed.
