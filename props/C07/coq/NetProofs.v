(* C07 — send -> receive round trips of the packet models (SandNet, ESP Net, Pathport, ShowNet). *)
From OlaBase Require Import Bytes.
From C07 Require Import Gen Model ListLemmas RleProofs RleMore.
Local Open Scope N_scope.

Lemma slice_app_exact (h d r : list N) : slice (h ++ d ++ r) (len h) (len d) = d.
Proof. unfold slice. rewrite drop_app_exact. apply take_app_exact. Qed.

Lemma slice_app_exact0 (h d : list N) : slice (h ++ d) (len h) (len d) = d.
Proof. rewrite <- (app_nil_r d) at 1. apply slice_app_exact. Qed.

Lemma rd_app_off (a b : list N) k o : o = len a + k -> rd (a ++ b) o = rd b k.
Proof. intros ->. rewrite rd_app_r by lia. f_equal. lia. Qed.

Lemma le16_join x : x < 65536 -> x mod 256 + 256 * ((x / 256) mod 256) = x.
Proof. intros H. rewrite (N.mod_small (x / 256)) by (apply N.div_lt_upper_bound; lia).
  rewrite N.add_comm. symmetry. apply N.div_mod. lia. Qed.

Lemma be16_join x : x < 65536 -> 256 * ((x / 256) mod 256) + x mod 256 = x.
Proof. intros H. rewrite N.add_comm. apply le16_join. exact H. Qed.

(* ------------------------------------------------------------------ SandNet *)
Lemma sandnet_roundtrip_gen g u hg hu port f old :
  1 <= len f -> len f <= 512 -> g < 256 -> u < 256 ->
  sandnet_handle (sandnet_build g u port f) hg hu old =
    if (g =? hg) && (u =? hu) then RHandled (expect_full f) else RDropped.
Proof.
  intros H1 H2 Hg Hu.
  assert (E : sandnet_build g u port f = [3; 0; u8 g; u8 u; u8 port] ++ f).
  { unfold sandnet_build. rewrite take_all by (unfold DMX_UNIVERSE_SIZE; lia). reflexivity. }
  rewrite E. set (h := [3; 0; u8 g; u8 u; u8 port]).
  assert (Lh : len h = 5) by reflexivity.
  unfold sandnet_handle. rewrite len_app, Lh.
  change SA_OPCODE_SIZE with 2. change SA_DMX_HEADER_SIZE with 3. change SA_OP_DMX with 768.
  destruct (N.ltb_spec (5 + len f) 2) as [X|_]; [lia|].
  replace (rd16be (h ++ f) 0) with (Some 768) by reflexivity.
  change (768 =? 768) with true. cbn [negb].
  destruct (N.leb_spec (5 + len f - 2) 3) as [X|_]; [lia|].
  replace (rd (h ++ f) 2) with (Some (u8 g)) by reflexivity.
  replace (rd (h ++ f) (2 + 1)) with (Some (u8 u)) by reflexivity.
  rewrite !u8_id by lia.
  destruct ((g =? hg) && (u =? hu)); cbn [negb]; [|reflexivity].
  replace (5 + len f - 2 - 3) with (len f) by lia.
  change (2 + 3) with (len h). rewrite slice_app_exact0.
  unfold buf_set, expect_full. rewrite take_all by (unfold DMX_UNIVERSE_SIZE; lia). reflexivity.
Qed.

Lemma sandnet_roundtrip g u port f old :
  1 <= len f -> len f <= 512 -> g < 256 -> u < 256 ->
  sandnet_handle (sandnet_build g u port f) g u old = RHandled (expect_full f).
Proof.
  intros. rewrite sandnet_roundtrip_gen by assumption. rewrite !N.eqb_refl. reflexivity.
Qed.

(* ------------------------------------------------------------------ ESP Net *)
Lemma espnet_roundtrip_gen u hu f old :
  len f <= 512 -> u < 256 ->
  espnet_handle (espnet_build u f) hu old = if u =? hu then RHandled (expect_full f) else RDropped.
Proof.
  intros H2 Hu.
  set (h := [69; 83; 68; 68; u8 u; 0; 1; (len f / 256) mod 256; len f mod 256]).
  assert (E : espnet_build u f = h ++ f ++ zeros (512 - len f)).
  { unfold espnet_build. rewrite take_all by (unfold DMX_UNIVERSE_SIZE; lia).
    rewrite u16_id by lia. reflexivity. }
  rewrite E. assert (Lh : len h = 9) by reflexivity.
  assert (Lp : len (h ++ f ++ zeros (512 - len f)) = 521)
    by (rewrite !len_app, Lh, len_zeros; lia).
  unfold espnet_handle. rewrite Lp.
  change ES_DMX_HEAD with 1163084868. change ES_DATA_HEADER_SIZE with 9. change ES_DATA_RAW with 1.
  change (521 <? 4) with false. cbv iota.
  replace (rd32be (h ++ f ++ zeros (512 - len f)) 0) with (Some 1163084868) by reflexivity.
  change (1163084868 =? 1163084868) with true. cbn [negb]. change (521 <? 9) with false. cbv iota.
  replace (rd (h ++ f ++ zeros (512 - len f)) 4) with (Some (u8 u)) by reflexivity.
  replace (rd (h ++ f ++ zeros (512 - len f)) 6) with (Some 1) by reflexivity.
  replace (rd16be (h ++ f ++ zeros (512 - len f)) 7)
    with (Some (256 * ((len f / 256) mod 256) + len f mod 256)) by reflexivity.
  rewrite be16_join by lia. rewrite u8_id by lia.
  destruct (u =? hu); cbn [negb]; [|reflexivity].
  change (521 - 9) with 512. rewrite N.min_r by lia. change (1 =? 1) with true. cbv iota.
  change 9 with (len h). rewrite slice_app_exact.
  unfold buf_set, expect_full. rewrite take_all by (unfold DMX_UNIVERSE_SIZE; lia). reflexivity.
Qed.

Lemma espnet_roundtrip u f old :
  1 <= len f -> len f <= 512 -> u < 256 ->
  espnet_handle (espnet_build u f) u old = RHandled (expect_full f).
Proof.
  intros. rewrite espnet_roundtrip_gen by assumption. rewrite N.eqb_refl. reflexivity.
Qed.

(* ------------------------------------------------------------------ Pathport *)
Lemma upto (P : N -> bool) k :
  forallb P (map N.of_nat (seq 0 k)) = true -> forall m, m < N.of_nat k -> P m = true.
Proof.
  intros H m Hm. rewrite forallb_forall in H. apply H.
  apply in_map_iff. exists (N.to_nat m). split; [lia|]. apply in_seq. lia.
Qed.

Lemma pad4 n : n <= 512 -> n <= N.land (n + 3) 4294967292 /\ N.land (n + 3) 4294967292 <= n + 3.
Proof.
  intros H.
  assert (E := upto (fun n => (n <=? N.land (n + 3) 4294967292) && (N.land (n + 3) 4294967292 <=? n + 3))
                    513 eq_refl n ltac:(lia)).
  cbv beta in E. apply andb_prop in E as [A B]. split; lia.
Qed.

Lemma pathport_roundtrip_gen dev seq u hu f old :
  1 <= len f -> len f <= 512 -> u <= 127 ->
  pathport_handle (pathport_build dev seq u f) dev hu old =
    if u =? hu then RHandled (expect_overlay 0 f old) else RDropped.
Proof.
  intros H1 H2 Hu.
  destruct (pad4 (len f) H2) as [P1 P2]. set (padded := N.land (len f + 3) 4294967292) in *.
  set (h := [237; 1; 2; 0] ++ be16 (u16 seq) ++ [0; 0; 0; 0; 0; 0] ++ be32 (u32 dev)
            ++ [239; 255; 237; 1; 1; 0] ++ be16 (u16 (padded + 8))
            ++ [1; 1; (len f / 256) mod 256; len f mod 256; 0; 0;
                ((512 * u) / 256) mod 256; (512 * u) mod 256]).
  assert (E : pathport_build dev seq u f = h ++ f ++ zeros (padded - len f)).
  { unfold pathport_build. fold padded. rewrite (u16_id (len f)) by lia.
    change DMX_UNIVERSE_SIZE with 512. rewrite (u16_id (512 * u)) by lia. reflexivity. }
  rewrite E. set (t := f ++ zeros (padded - len f)).
  assert (Lh : len h = 32) by reflexivity.
  assert (Lt : len t = padded) by (unfold t; rewrite len_app, len_zeros; lia).
  unfold pathport_handle. rewrite len_app, Lh, Lt.
  change PP_HEADER_SIZE with 20. change PP_PDU_HEADER_SIZE with 4. change PP_PDU_DATA_SIZE with 8.
  change PP_PROTOCOL with 60673. change PP_MAJOR_VERSION with 2. change PP_MINOR_VERSION with 0.
  change PP_DATA_GROUP with 4026526977. change PP_DATA with 256. change PP_XDMX_DATA_FLAT with 257.
  change PP_DATA_OFF with 32.
  destruct (N.ltb_spec (32 + padded) 20) as [X|_]; [lia|].
  replace (rd16be (h ++ t) 0) with (Some 60673) by reflexivity.
  replace (rd (h ++ t) 2) with (Some 2) by reflexivity.
  replace (rd (h ++ t) 3) with (Some 0) by reflexivity.
  replace (rd32be (h ++ t) 16) with (Some 4026526977) by reflexivity.
  change (60673 =? 60673) with true. change (2 =? 2) with true. change (0 =? 0) with true.
  cbn [andb negb]. change (4026526977 =? 4026526977) with true. rewrite !orb_true_r. cbn [negb].
  destruct (N.ltb_spec (32 + padded - 20) 4) as [X|_]; [lia|].
  replace (rd16be (h ++ t) 20) with (Some 256) by reflexivity.
  change (256 =? 256) with true. cbn [negb].
  destruct (N.ltb_spec (32 + padded - 20 - 4) 8) as [X|_]; [lia|].
  replace (rd16be (h ++ t) (20 + 4)) with (Some 257) by reflexivity.
  replace (rd16be (h ++ t) (20 + 4 + 2))
    with (Some (256 * ((len f / 256) mod 256) + len f mod 256)) by reflexivity.
  replace (rd (h ++ t) (20 + 4 + 5)) with (Some 0) by reflexivity.
  replace (rd16be (h ++ t) (20 + 4 + 6))
    with (Some (256 * (((512 * u) / 256) mod 256) + (512 * u) mod 256)) by reflexivity.
  rewrite !be16_join by lia.
  change (257 =? 257) with true. change (0 =? 0) with true. cbn [negb].
  replace (32 + padded - 20 - 4 - 8) with padded by lia. rewrite u16_id by lia.
  rewrite N.min_l by lia.
  change 32 with (len h). rewrite drop_app_exact, Lt.
  destruct (N.ltb_spec padded (len f)) as [X|_]; [lia|].
  change DMX_UNIVERSE_SIZE with 512.
  replace ((512 * u) mod 512) with 0 by (rewrite N.mul_comm, N.mod_mul; lia).
  replace ((512 * u) / 512) with u by (rewrite N.mul_comm, N.div_mul; lia).
  change (S (N.to_nat PP_MAX_UNIVERSES) + 1)%nat with (S (S 127)).
  generalize 127%nat. intros fuel. cbn [pp_loop]. change PP_MAX_UNIVERSES with 127. change DMX_UNIVERSE_SIZE with 512.
  destruct (N.ltb_spec 0 (len f)) as [_|X]; [|lia].
  destruct (N.leb_spec u 127) as [_|X]; [|lia]. cbn [andb].
  rewrite N.sub_0_r, N.min_l by lia. rewrite N.sub_diag.
  destruct (u =? hu); change (0 <? 0) with false; cbn [andb]; [|reflexivity].
  unfold t. rewrite take_app_exact.
  rewrite set_range_overlay by (change DMX_UNIVERSE_SIZE with 512; lia). cbn [fst].
  unfold expect_overlay, overlay. reflexivity.
Qed.

Lemma pathport_roundtrip dev seq u f old :
  1 <= len f -> len f <= 512 -> u <= 127 ->
  pathport_handle (pathport_build dev seq u f) dev u old = RHandled (expect_overlay 0 f old).
Proof.
  intros. rewrite pathport_roundtrip_gen by assumption. rewrite N.eqb_refl. reflexivity.
Qed.

(* ------------------------------------------------------------------ ShowNet *)
Lemma len_fixed n s : len (fixed n s) = n.
Proof. unfold fixed. rewrite len_app, len_take, len_zeros. lia. Qed.

Lemma rd16le_at (A B : list N) k a b o : o = len A + k ->
  rd B k = Some a -> rd B (k + 1) = Some b -> rd16le (A ++ B) o = Some (a + 256 * b).
Proof.
  intros -> Ha Hb. unfold rd16le.
  rewrite (rd_app_off A B k) by reflexivity. rewrite (rd_app_off A B (k + 1)) by lia.
  rewrite Ha, Hb. reflexivity.
Qed.

Lemma shownet_roundtrip_gen ip name seq u hu f old :
  1 <= len f -> len f <= 512 -> u < 8 ->
  exists p, shownet_build ip name seq u f = Some p /\
            shownet_handle p hu old = if u =? hu then RHandled (expect_overlay 0 f old) else RDropped.
Proof.
  intros H1 H2 Hu.
  destruct (rle_encode_complete f 1310 H1 H2) as (bytes & He & Hb2 & Hb3); try lia.
  unfold shownet_build. change SN_UNION_SIZE with 1310. rewrite He.
  set (E := len bytes) in *.
  set (data := if E =? len f then f else bytes).
  assert (Ld : len data = E) by (unfold data; destruct (N.eqb_spec E (len f)); [lia|reflexivity]).
  eexists. split; [reflexivity|].
  change SN_COMPRESSED_DMX_PACKET with 32911. change DMX_UNIVERSE_SIZE with 512.
  change SN_MAGIC_INDEX_OFFSET with 11. change SN_NAME_LENGTH with 9.
  rewrite (u16_id (u * 512 + 1)), (u16_id (len f)), (u16_id 11), (u16_id (11 + E)) by lia.
  set (A := be16 32911 ++ fixed 4 ip).
  set (ns := u * 512 + 1). set (ib1 := 11 + E).
  set (B := [ns mod 256; (ns / 256) mod 256; 0; 0; 0; 0; 0; 0;
             len f mod 256; (len f / 256) mod 256; 0; 0; 0; 0; 0; 0;
             11; 0; ib1 mod 256; (ib1 / 256) mod 256; 0; 0; 0; 0; 0; 0]
            ++ be16 (u16 seq) ++ [0; 0; 0; 0] ++ fixed 9 name ++ data).
  assert (EP : be16 32911 ++ fixed 4 ip ++ le16 ns ++ zeros 6 ++ le16 (len f) ++ zeros 6
               ++ le16 11 ++ le16 ib1 ++ zeros 6 ++ be16 (u16 seq) ++ zeros 4 ++ fixed 9 name ++ data
               = A ++ B).
  { unfold A, B. rewrite <- !app_assoc. reflexivity. }
  rewrite EP. clear EP.
  assert (LA : len A = 6) by (unfold A; rewrite len_app, len_fixed; reflexivity).
  set (H41 := [ns mod 256; (ns / 256) mod 256; 0; 0; 0; 0; 0; 0;
             len f mod 256; (len f / 256) mod 256; 0; 0; 0; 0; 0; 0;
             11; 0; ib1 mod 256; (ib1 / 256) mod 256; 0; 0; 0; 0; 0; 0]
            ++ be16 (u16 seq) ++ [0; 0; 0; 0] ++ fixed 9 name).
  assert (EB : B = H41 ++ data) by (unfold B, H41; rewrite <- !app_assoc; reflexivity).
  assert (LH : len H41 = 41).
  { unfold H41. rewrite !len_app, len_fixed. reflexivity. }
  assert (LB : len B = 41 + E) by (rewrite EB, len_app, LH, Ld; reflexivity).
  unfold shownet_handle. rewrite len_app, LA, LB.
  change SN_HEADER_SIZE with 6. change SN_COMPRESSED_DMX_PACKET with 32911.
  change SN_OFF_indexBlock with 16. change SN_OFF_netSlot with 0. change SN_OFF_slotSize with 8.
  change SN_OFF_data with 41. change SN_MAGIC_INDEX_OFFSET with 11. change SN_DATA with 47.
  change DMX_UNIVERSE_SIZE with 512.
  destruct (N.leb_spec (6 + (41 + E)) 6) as [X|_]; [lia|].
  replace (rd16be (A ++ B) 0) with (Some 32911) by reflexivity.
  change (32911 =? 32911) with true. cbn [negb].
  rewrite (rd16le_at A B 16 11 0) by (try reflexivity; rewrite LA; reflexivity).
  rewrite (rd16le_at A B 0 (ns mod 256) ((ns / 256) mod 256)) by (try reflexivity; rewrite LA; reflexivity).
  rewrite (rd16le_at A B 18 (ib1 mod 256) ((ib1 / 256) mod 256)) by (try reflexivity; rewrite LA; reflexivity).
  rewrite (rd16le_at A B 8 (len f mod 256) ((len f / 256) mod 256)) by (try reflexivity; rewrite LA; reflexivity).
  rewrite !le16_join by (unfold ns, ib1; lia).
  change (11 + 256 * 0) with 11. change (11 <? 11) with false. cbv iota.
  destruct (N.ltb_spec ib1 (11 + 1)) as [X|_]; [unfold ib1 in X; lia|].
  destruct (N.eqb_spec ns 0) as [X|_]; [unfold ns in X; lia|]. cbn [orb].
  replace (ib1 - 11) with E by (unfold ib1; lia). change (11 - 11) with 0.
  replace (6 + (41 + E) - 6) with (41 + E) by lia.
  destruct (N.ltb_spec (41 + E) 41) as [X|_]; [lia|].
  destruct (N.ltb_spec (41 + E - 41) (0 + E)) as [X|_]; [lia|].
  destruct (N.eqb_spec (len f) 0) as [X|_]; [lia|].
  replace (ns - 1) with (u * 512) by (unfold ns; lia).
  rewrite N.mod_mul, N.div_mul by lia.
  destruct (u =? hu); cbn [negb]; [|reflexivity].
  assert (SL : slice (A ++ B) (47 + 0) E = data).
  { rewrite EB, app_assoc. rewrite <- Ld.
    replace (47 + 0) with (len (A ++ H41)) by (rewrite len_app, LA, LH; reflexivity).
    apply slice_app_exact0. }
  rewrite SL, Ld, N.eqb_refl. cbn [negb].
  unfold data. destruct (N.eqb_spec (len f) E) as [X|X].
  - rewrite <- X, N.eqb_refl. cbn [negb].
    rewrite set_range_overlay by (change DMX_UNIVERSE_SIZE with 512; lia). cbn [fst]. reflexivity.
  - destruct (N.eqb_spec E (len f)) as [Y|_]; [lia|]. cbn [negb].
    rewrite (rle_lossless f 1310 bytes E 0 old) by (try lia; exact He). reflexivity.
Qed.

Lemma shownet_roundtrip ip name seq u f old :
  1 <= len f -> len f <= 512 -> u < 8 ->
  exists p, shownet_build ip name seq u f = Some p /\
            shownet_handle p u old = RHandled (expect_overlay 0 f old).
Proof.
  intros H1 H2 Hu. destruct (shownet_roundtrip_gen ip name seq u u f old H1 H2 Hu) as (p & B & R).
  exists p. split; [exact B|]. rewrite R, N.eqb_refl. reflexivity.
Qed.
