(* C07 — executable models, part 2: Art-Net (ArtNetNodeImpl::SendDMX / HandlePacket /
   HandleDataPacket / UpdatePortFromSource for a node with one enabled output port and no other
   source yet) and E1.31, both revisions (E131Node::SendDMXWithSequenceOffset, E131PDU / DMPPDU /
   RootPDU / PDU::Pack, PreamblePacker::Pack; IncomingUDPTransport::Receive, BaseInflator::
   {InflatePDUBlock, DecodeLength, DecodeVector, InflatePDU}, Root/E131/E131Rev2/DMP header decoders,
   DMPE131Inflator::{HandlePDUData, TrackSourceIfRequired} for a universe with one handler and no
   source tracked yet).  The E1.31 receive model follows the C++ for datagrams holding ONE PDU per
   block (what OLA sends); a block with further PDUs gives RUnmodelled. *)
From OlaBase Require Import Bytes.
From C07 Require Import Gen Model.
Local Open Scope N_scope.

Inductive rres2 :=
| R2 (r : rres)
| RUnmodelled.      (* input outside what this model covers (never produced by the senders) *)

(* ------------------------------------------------------------------ Art-Net *)
Definition AN_ID : list N := [65; 114; 116; 45; 78; 101; 116; 0].   (* "Art-Net\0" *)

(* SendDMX on an enabled input port: seq = port->sequence_number, physical = port id,
   addr = port->PortAddress() (sub-net << 4 | universe), net = m_net_address *)
Definition artnet_build (seq physical addr net : N) (f : list N) : option (list N) :=
  if len f =? 0 then None     (* "Not sending 0 length packet" *)
  else
    let d := take DMX_UNIVERSE_SIZE f in
    let d' := if (len d) mod 2 =? 0 then d else d ++ [0] in
    let L := len d' in
    Some (AN_ID ++ le16 AN_OP_DMX ++ be16 AN_VERSION
          ++ [u8 seq; u8 physical; u8 addr; u8 net] ++ [(L / 256) mod 256; L mod 256] ++ d').

(* HandlePacket + HandleDataPacket + UpdatePortFromSource; the node's net address is `net`, its only
   enabled output port has universe address `pa`, a DMX handler and no tracked source *)
Definition artnet_handle (p : list N) (net pa : N) (b : buf) : rres2 :=
  if len p <=? AN_HEADER_SIZE then R2 RDropped
  else match rd16le p 8 with
  | None => R2 ROob
  | Some op =>
    if negb (op =? AN_OP_DMX) then RUnmodelled
    else
      let psz := len p - AN_HEADER_SIZE in
      if psz <? AN_DMX_HEADER_SIZE + 2 then R2 RDropped
      else
        match rd16be p (AN_HEADER_SIZE + AN_OFF_version), rd p (AN_HEADER_SIZE + AN_OFF_net),
              rd p (AN_HEADER_SIZE + AN_OFF_universe),
              rd p (AN_HEADER_SIZE + AN_OFF_length), rd p (AN_HEADER_SIZE + AN_OFF_length + 1) with
        | Some v, Some n, Some uni, Some l0, Some l1 =>
          if negb (v =? AN_VERSION) then R2 RDropped
          else if negb (n =? net) then R2 RDropped
          else
            let data_size := u16 (N.min (l0 * 256 + l1) (psz - AN_DMX_HEADER_SIZE)) in
            if uni =? pa then
              let d := slice p (AN_HEADER_SIZE + AN_OFF_data) data_size in
              if len d =? data_size then R2 (RHandled (buf_set d)) else R2 ROob
            else R2 RDropped
        | _, _, _, _, _ => R2 ROob
        end
  end.

(* ------------------------------------------------------------------ E1.31 send *)
Definition ACN_HEADER : list N :=
  [0; 16; 0; 0; 65; 83; 67; 45; 69; 49; 46; 49; 55; 0; 0; 0].   (* sizes + "ASC-E1.17\0\0\0" *)

(* PDU::Pack for size <= TWOB_LENGTH_LIMIT without the forced length flag: V, H and D flags set *)
Definition pdu_pack (vector_bytes hdr data : list N) : list N :=
  let size := 2 + len vector_bytes + len hdr + len data in
  [N.lor (N.lor (N.lor ((size / 256) mod 16) ACN_VFLAG) ACN_HFLAG) ACN_DFLAG; size mod 256]
  ++ vector_bytes ++ hdr ++ data.

Definition DMP_ADDR_HEADER : N := 128 + 16 * DMP_RANGE_EQUAL + DMP_TWO_BYTES.   (* virtual, range, 2-byte *)

Definition e131_build (rev2 : bool) (cid name : list N) (priority seq universe : N) (preview : bool)
           (f : list N) : option (list N) :=
  if (universe =? 0) || (universe =? 65535) then None    (* E131Sender::UniverseIP *)
  else
    let d := take DMX_UNIVERSE_SIZE f in
    let dmp_data := if rev2 then d else 0 :: d in
    let dmp := pdu_pack [DMP_SET_PROPERTY_VECTOR] [DMP_ADDR_HEADER]
                        (be16 0 ++ be16 1 ++ be16 (u16 (len dmp_data)) ++ dmp_data) in
    let hdr := if rev2
               then fixed E131_REV2_SOURCE_NAME_LEN name ++ [u8 priority; u8 seq] ++ be16 (u16 universe)
               else fixed E131_SOURCE_NAME_LEN name
                    ++ [u8 priority; 0; 0; u8 seq; if preview then E131_PREVIEW_DATA_MASK else 0]
                    ++ be16 (u16 universe) in
    let e131 := pdu_pack (be32 VECTOR_E131_DATA) hdr dmp in
    let root := pdu_pack (be32 (if rev2 then VECTOR_ROOT_E131_REV2 else VECTOR_ROOT_E131))
                         (fixed ACN_CID_LENGTH cid) e131 in
    Some (ACN_HEADER ++ root).

(* ------------------------------------------------------------------ E1.31 receive *)
Inductive pres :=
| PDrop                 (* nothing delivered from this block *)
| PUnmod                (* more than one PDU in the block *)
| PGot (vector : N) (hdr payload : list N).

Fixpoint be_val (l : list N) : N :=
  match l with [] => 0 | x :: r => x * 256 ^ (len r) + be_val r end.

(* BaseInflator::InflatePDUBlock / DecodeLength / DecodeVector / InflatePDU on a block `d` right
   after ResetPDUFields (no vector or header to inherit), for an inflator with vector size vsize
   whose DecodeHeader needs hsize bytes *)
Definition pdu_one (d : list N) (vsize hsize : N) : pres :=
  if len d =? 0 then PDrop
  else match rd d 0 with
  | None => PDrop
  | Some fl =>
    let lflag := negb (N.land fl ACN_LFLAG =? 0) in
    let bu := if lflag then 3 else 2 in
    if len d <? bu then PDrop
    else
      let plen := be_val (N.land fl ACN_LENGTH_MASK :: slice d 1 (bu - 1)) in
      if plen <? bu then PDrop
      else if len d <? plen then PDrop            (* offset + pdu_length > length: PDU skipped *)
      else if plen <? len d then PUnmod           (* another PDU follows *)
      else
        let body := drop bu d in
        if N.land fl ACN_VFLAG =? 0 then PDrop    (* no vector to inherit *)
        else if len body <? vsize then PDrop
        else if N.land fl ACN_HFLAG =? 0 then PDrop   (* no header to inherit *)
        else
          let rest := drop vsize body in
          if len rest <? hsize then PDrop
          else PGot (be_val (take vsize body)) (take hsize rest) (drop hsize rest)
  end.

(* DMPE131Inflator::HandlePDUData for a universe handler without tracked sources; hu = the
   universe with the handler, ignore_preview = Options::ignore_preview *)
Definition dmp_e131_handle (rev2 : bool) (vector : N) (e131hdr dmphdr data : list N)
           (hu : N) (ignore_preview : bool) (b : buf) : rres :=
  if negb (vector =? DMP_SET_PROPERTY_VECTOR) then RDropped
  else
    let o_pri := if rev2 then E131R2_OFF_priority else E131_OFF_priority in
    let o_uni := if rev2 then E131R2_OFF_universe else E131_OFF_universe in
    match rd e131hdr o_pri, rd16be e131hdr o_uni, rd dmphdr 0 with
    | Some priority, Some universe, Some dh =>
      let options := if rev2 then 0 else match rd e131hdr E131_OFF_options with Some o => o | None => 0 end in
      let preview := negb (N.land options E131_PREVIEW_DATA_MASK =? 0) in
      let terminated := negb (N.land options E131_STREAM_TERMINATED_MASK =? 0) in
      if preview && ignore_preview then RDropped
      else if negb (universe =? hu) then RDropped
      else if (N.land dh 128 =? 0) || negb (N.land dh 64 =? 0)
              || negb (N.land dh 3 =? DMP_TWO_BYTES) || negb ((N.land dh 48) / 16 =? DMP_RANGE_EQUAL)
      then RDropped
      else if E131_MAX_PRIORITY <? priority then RDropped
      else if len data <? 6 then RDropped         (* DecodeAddress *)
      else
        match rd16be data 0, rd16be data 2, rd16be data 4 with
        | Some start, Some incr, Some number =>
          if negb (incr =? 1) then RDropped
          else
            let length_remaining := len data - 6 in
            let start_code : option N :=
              if rev2 then Some start
              else if (0 <? length_remaining) && (0 <? number) then rd data 6 else None in
            let nonzero := match start_code with Some 0 => false | _ => true end in
            if nonzero && negb terminated then RDropped
            else if terminated then RDropped      (* new source + terminated: not tracked *)
            else
              let channels := N.min length_remaining number in
              RHandled (buf_set (if rev2 then slice data 6 channels
                                 else slice data 7 (channels - 1)))
        | _, _, _ => ROob
        end
    | _, _, _ => ROob
    end.

Definition e131_handle (p : list N) (hu : N) (ignore_preview : bool) (b : buf) : rres2 :=
  if len p <? 16 then R2 RDropped
  else if negb (forallb (fun xy => fst xy =? snd xy) (combine (take 16 p) ACN_HEADER)) then R2 RDropped
  else
    match pdu_one (drop 16 p) 4 ACN_CID_LENGTH with
    | PDrop => R2 RDropped
    | PUnmod => RUnmodelled
    | PGot rv _cid rdata =>
      let rev2 := rv =? VECTOR_ROOT_E131_REV2 in
      if negb ((rv =? VECTOR_ROOT_E131) || rev2) then R2 RDropped
      else
        match pdu_one rdata 4 (if rev2 then E131_REV2_HEADER_SIZE else E131_HEADER_SIZE) with
        | PDrop => R2 RDropped
        | PUnmod => RUnmodelled
        | PGot ev ehdr edata =>
          if negb (ev =? VECTOR_E131_DATA) then
            (if rev2 then R2 RDropped else RUnmodelled)   (* discovery inflator *)
          else
            match pdu_one edata 1 DMP_HEADER_SIZE with
            | PDrop => R2 RDropped
            | PUnmod => RUnmodelled
            | PGot dv dhdr ddata => R2 (dmp_e131_handle rev2 dv ehdr dhdr ddata hu ignore_preview b)
            end
        end
    end.
