(* C07 — E1.31 stream lifecycle: every frame of a stream, and of a stream restarted after
   TerminateStream, is delivered to a receiver that keeps its tracking state. *)
From OlaBase Require Import Bytes.
From C07 Require Import Gen Model ModelNet2 ModelStream ListLemmas NetProofs NetProofs2.
Local Open Scope N_scope.

(* the part of dmp_track after the packet checks, for a packet with start code 0 *)
Definition track_tail (priority seq : N) (terminated : bool) (frame : list N) (st : rxs)
  : option (rxs * bool) :=
  match rx_src st with
  | None =>
    if terminated || (priority <? 0) then Some ({| rx_src := None; rx_active := 0; rx_buf := rx_buf st |}, false)
    else Some ({| rx_src := Some (seq, buf_set frame);
                  rx_active := if 0 <? priority then priority else 0;
                  rx_buf := buf_set frame |}, true)
  | Some (last, sb0) =>
    if (i8 (seq + 256 - last) <=? 0)%Z && (- Z.of_N E131_SEQ_DIFF_NEG <? i8 (seq + 256 - last))%Z
    then Some (st, false)
    else if terminated then Some ({| rx_src := None; rx_active := 0; rx_buf := buf_reset (rx_buf st) |}, false)
    else Some ({| rx_src := Some (seq, buf_set frame); rx_active := priority; rx_buf := buf_set frame |}, true)
  end.

Lemma dmp_track_eq (ehdr d : list N) (pu hu : N) (ip : bool) (st : rxs) (priority seq : N) (terminated : bool) :
  rd ehdr E131_OFF_priority = Some priority -> rd ehdr E131_OFF_sequence = Some seq ->
  rd16be ehdr E131_OFF_universe = Some pu ->
  rd ehdr E131_OFF_options = Some (if terminated then E131_STREAM_TERMINATED_MASK else 0) ->
  priority <= 200 -> len d <= 512 ->
  dmp_track false DMP_SET_PROPERTY_VECTOR ehdr [DMP_ADDR_HEADER]
    (be16 0 ++ be16 1 ++ be16 (u16 (len (0 :: d))) ++ 0 :: d) hu ip st
  = if pu =? hu then track_tail priority seq terminated d st else Some (st, false).
Proof.
  intros Hp Hs Hu Ho Hpri H2. unfold dmp_track.
  rewrite N.eqb_refl. cbn [negb]. cbv iota. rewrite Hp, Hs, Hu, Ho.
  change (rd [DMP_ADDR_HEADER] 0) with (Some 161).
  assert (Opt : (N.land (if terminated then E131_STREAM_TERMINATED_MASK else 0) E131_PREVIEW_DATA_MASK =? 0) = true)
    by (destruct terminated; reflexivity).
  assert (Opt2 : negb (N.land (if terminated then E131_STREAM_TERMINATED_MASK else 0) E131_STREAM_TERMINATED_MASK =? 0) = terminated)
    by (destruct terminated; reflexivity).
  rewrite Opt, Opt2. cbn [negb andb].
  destruct (N.eqb_spec pu hu) as [_|_]; cbn [negb]; [|reflexivity].
  change ((N.land 161 128 =? 0) || negb (N.land 161 64 =? 0) || negb (N.land 161 3 =? DMP_TWO_BYTES)
          || negb (N.land 161 48 / 16 =? DMP_RANGE_EQUAL)) with false. cbv iota.
  change E131_MAX_PRIORITY with 200.
  destruct (N.ltb_spec 200 priority) as [X|_]; [lia|].
  set (cnt := len (0 :: d)).
  assert (Hc : cnt = 1 + len d) by (unfold cnt; apply len_cons).
  rewrite u16_id by lia.
  set (h6 := [0; 0; 0; 1; (cnt / 256) mod 256; cnt mod 256]).
  change (be16 0 ++ be16 1 ++ be16 cnt ++ 0 :: d) with (h6 ++ 0 :: d).
  assert (L6 : len h6 = 6) by reflexivity.
  rewrite len_app, L6. fold cnt.
  destruct (N.ltb_spec (6 + cnt) 6) as [X|_]; [lia|].
  replace (rd16be (h6 ++ 0 :: d) 0) with (Some 0) by reflexivity.
  replace (rd16be (h6 ++ 0 :: d) 2) with (Some 1) by reflexivity.
  replace (rd16be (h6 ++ 0 :: d) 4) with (Some (256 * ((cnt / 256) mod 256) + cnt mod 256)) by reflexivity.
  rewrite be16_join by lia. change (1 =? 1) with true. cbn [negb].
  replace (6 + cnt - 6) with cnt by lia. rewrite N.min_id.
  destruct (N.ltb_spec 0 cnt) as [_|X]; [|lia]. cbn [andb].
  replace (rd (h6 ++ 0 :: d) 6) with (Some 0) by reflexivity. cbn [negb andb]. cbv iota.
  replace (cnt - 1) with (len d) by lia.
  assert (SL : slice (h6 ++ 0 :: d) 7 (len d) = d).
  { change (h6 ++ 0 :: d) with ((h6 ++ [0]) ++ d).
    change 7 with (len (h6 ++ [0])). apply slice_app_exact0. }
  rewrite SL. unfold track_tail. destruct (rx_src st) as [[last sb0]|]; reflexivity.
Qed.

Lemma e131_rx_build_gen (cid name : list N) (priority seq universe hu : N) (terminated : bool) (d : list N)
      (ip : bool) (st : rxs) :
  1 <= universe -> universe <= 65534 -> priority <= 200 -> seq < 256 -> len d <= 512 ->
  exists p, e131_build_opt false cid name priority seq universe
              (if terminated then E131_STREAM_TERMINATED_MASK else 0) d = Some p /\
            e131_rx p hu ip st =
              if universe =? hu then
                match track_tail priority seq terminated d st with
                | Some (st', ran) => SOk st' ran | None => SOob end
              else SOk st false.
Proof.
  intros U1 U2 Hp Hs H2. unfold e131_build_opt.
  destruct (N.eqb_spec universe 0) as [X|_]; [lia|].
  destruct (N.eqb_spec universe 65535) as [X|_]; [lia|]. cbn [orb].
  rewrite take_all by (unfold DMX_UNIVERSE_SIZE; lia).
  rewrite (u8_id priority), (u8_id seq), (u16_id universe) by lia.
  set (opt := if terminated then E131_STREAM_TERMINATED_MASK else 0).
  set (ddata := be16 0 ++ be16 1 ++ be16 (u16 (len (0 :: d))) ++ 0 :: d).
  assert (Ldd : len ddata = 7 + len d)
    by (unfold ddata, be16; cbn [app]; rewrite !len_cons; lia).
  set (hdr := fixed E131_SOURCE_NAME_LEN name ++ [priority; 0; 0; seq; opt] ++ be16 universe).
  assert (Lh : len hdr = E131_HEADER_SIZE)
    by (unfold hdr; rewrite !len_app, len_fixed; reflexivity).
  assert (Lh' : len hdr = 71) by exact Lh.
  set (dmp := pdu_pack [DMP_SET_PROPERTY_VECTOR] [DMP_ADDR_HEADER] ddata).
  assert (Ldmp : len dmp = 4 + len ddata).
  { unfold dmp. rewrite len_pdu_pack; rewrite !len_cons, len_nil; lia. }
  set (e131 := pdu_pack (be32 VECTOR_E131_DATA) hdr dmp).
  assert (Le : len e131 = 6 + len hdr + len dmp).
  { unfold e131. rewrite len_pdu_pack; change (len (be32 VECTOR_E131_DATA)) with 4; lia. }
  eexists. split; [reflexivity|].
  set (root := pdu_pack (be32 VECTOR_ROOT_E131) (fixed ACN_CID_LENGTH cid) e131).
  unfold e131_rx. rewrite len_app. change (len ACN_HEADER) with 16.
  destruct (N.ltb_spec (16 + len root) 16) as [X|_]; [lia|].
  rewrite (take_app_exact ACN_HEADER root : take 16 (ACN_HEADER ++ root) = ACN_HEADER).
  rewrite (drop_app_exact ACN_HEADER root : drop 16 (ACN_HEADER ++ root) = root).
  change (forallb (fun xy => fst xy =? snd xy) (combine ACN_HEADER ACN_HEADER)) with true. cbn [negb].
  assert (Lbe : forall x, len (be32 x) = 4) by reflexivity.
  unfold root. rewrite pdu_one_pack;
    [| apply Lbe | apply len_fixed | rewrite Lbe, len_fixed; change ACN_CID_LENGTH with 16; lia].
  cbv beta iota zeta.
  replace (be_val (be32 VECTOR_ROOT_E131)) with VECTOR_ROOT_E131 by reflexivity.
  change (VECTOR_ROOT_E131 =? VECTOR_ROOT_E131_REV2) with false.
  change (VECTOR_ROOT_E131 =? VECTOR_ROOT_E131) with true. cbn [orb negb]. cbv iota.
  unfold e131. rewrite pdu_one_pack; [| apply Lbe | exact Lh | rewrite Lbe; lia].
  replace (be_val (be32 VECTOR_E131_DATA)) with VECTOR_E131_DATA by reflexivity.
  rewrite N.eqb_refl. cbn [negb].
  unfold dmp. rewrite pdu_one_pack; [| reflexivity | reflexivity | rewrite !len_cons, len_nil; lia].
  replace (be_val [DMP_SET_PROPERTY_VECTOR]) with DMP_SET_PROPERTY_VECTOR by reflexivity.
  unfold ddata.
  rewrite (dmp_track_eq hdr d universe hu ip st priority seq terminated); try assumption; try reflexivity.
  - destruct (universe =? hu); reflexivity.
  - unfold hdr. rewrite (rd_app_off _ _ 0) by (rewrite len_fixed; reflexivity). reflexivity.
  - unfold hdr. rewrite (rd_app_off _ _ 3) by (rewrite len_fixed; reflexivity). reflexivity.
  - unfold hdr.
    rewrite (rd16be_at _ _ 5 ((universe / 256) mod 256) (universe mod 256))
      by (try reflexivity; rewrite len_fixed; reflexivity).
    rewrite be16_join by lia. reflexivity.
  - unfold hdr. rewrite (rd_app_off _ _ 4) by (rewrite len_fixed; reflexivity). reflexivity.
Qed.

Lemma e131_rx_build (cid name : list N) (priority seq universe : N) (terminated : bool) (d : list N)
      (ip : bool) (st : rxs) :
  1 <= universe -> universe <= 65534 -> priority <= 200 -> seq < 256 -> len d <= 512 ->
  exists p, e131_build_opt false cid name priority seq universe
              (if terminated then E131_STREAM_TERMINATED_MASK else 0) d = Some p /\
            e131_rx p universe ip st =
              match track_tail priority seq terminated d st with
              | Some (st', ran) => SOk st' ran | None => SOob end.
Proof.
  intros U1 U2 Hp Hs H2.
  destruct (e131_rx_build_gen cid name priority seq universe universe terminated d ip st U1 U2 Hp Hs H2)
    as (p & B & R).
  exists p. split; [exact B|]. rewrite R, N.eqb_refl. reflexivity.
Qed.

(* ------------------------------------------------------------------ lifecycle *)
Definition inv (t : txs) (st : rxs) : Prop :=
  match t with
  | None => rx_src st = None
  | Some s => s < 256 /\ exists sb, rx_src st = Some (u8 (s + 255), sb)
  end.

Lemma seq_next s : s < 256 ->
  i8 (s + 256 - u8 (s + 255)) = 1%Z /\ u8 (u8 (s + 1) + 255) = s /\ u8 (s + 1) < 256.
Proof.
  intros H.
  assert (E := upto (fun s => (i8 (s + 256 - u8 (s + 255)) =? 1)%Z && (u8 (u8 (s + 1) + 255) =? s)
                              && (u8 (s + 1) <? 256)) 256 eq_refl s H).
  cbv beta in E. apply andb_prop in E as [E E3]. apply andb_prop in E as [E1 E2].
  repeat split; lia.
Qed.

Lemma buf_set_small f : len f <= 512 -> buf_set f = Some f.
Proof. intros H. unfold buf_set. rewrite take_all by (unfold DMX_UNIVERSE_SIZE; lia). reflexivity. Qed.

Section Stream.
Variables (cid name : list N) (prio u : N) (ip : bool).
Hypothesis (U1 : 1 <= u) (U2 : u <= 65534) (Hp : prio <= 200).

Lemma step_data t st f : 1 <= len f -> len f <= 512 -> inv t st ->
  exists p t' st', tx_send cid name prio u t f = (Some p, t') /\
                   deliver u ip st p = (st', true) /\ rx_buf st' = Some f /\ inv t' st'.
Proof.
  intros H1 H2 I. unfold tx_send.
  set (s := match t with Some s => s | None => 0 end).
  assert (Hs : s < 256) by (unfold s; destruct t as [s0|]; [destruct I; assumption|lia]).
  destruct (e131_rx_build cid name prio s u false f ip st U1 U2 Hp Hs H2) as (p & B & R).
  cbv iota in B. rewrite B. exists p, (Some (u8 (s + 1))). unfold deliver. rewrite R.
  destruct (seq_next s Hs) as (D & S2 & S3).
  unfold track_tail. destruct t as [s0|].
  - destruct I as (_ & sb & Hsrc). change s with s0 in *. rewrite Hsrc, D.
    change ((1 <=? 0)%Z && (- Z.of_N E131_SEQ_DIFF_NEG <? 1)%Z) with false. cbv iota.
    eexists. split; [reflexivity|]. split; [reflexivity|]. cbn [rx_buf rx_src].
    split; [apply buf_set_small; exact H2|]. split; [exact S3|].
    exists (buf_set f). rewrite S2. reflexivity.
  - cbn in I. rewrite I. destruct (N.ltb_spec prio 0) as [X|_]; [lia|]. cbn [orb].
    eexists. split; [reflexivity|]. split; [reflexivity|]. cbn [rx_buf rx_src].
    split; [apply buf_set_small; exact H2|]. split; [exact S3|].
    exists (buf_set f). change s with 0. reflexivity.
Qed.

Lemma send_all_ok fs : Forall (fun f => 1 <= len f /\ len f <= 512) fs -> forall t st, inv t st ->
  exists t' st', send_all cid name prio u ip fs t st = (map (fun f => (true, Some f)) fs, t', st')
                 /\ inv t' st'.
Proof.
  induction 1 as [|f r [H1 H2] _ IH]; intros t st I.
  - exists t, st. split; [reflexivity|exact I].
  - destruct (step_data t st f H1 H2 I) as (p & t1 & st1 & T & D & B & I1).
    destruct (IH t1 st1 I1) as (t2 & st2 & S & I2).
    exists t2, st2. split; [|exact I2]. cbn [send_all map]. rewrite T, D, S, B. reflexivity.
Qed.

Lemma step_term s st : s < 256 -> (rx_src st = None \/ exists sb, rx_src st = Some (u8 (s + 255), sb)) ->
  exists p, e131_build_opt false cid name prio s u E131_STREAM_TERMINATED_MASK [] = Some p /\
            rx_src (fst (deliver u ip st p)) = None.
Proof.
  intros Hs Hsrc.
  destruct (e131_rx_build cid name prio s u true [] ip st U1 U2 Hp Hs) as (p & B & R); [cbn; lia|].
  cbv iota in B. exists p. split; [exact B|]. unfold deliver. rewrite R. unfold track_tail.
  destruct Hsrc as [E|(sb & E)]; rewrite E.
  - reflexivity.
  - destruct (seq_next s Hs) as (D & _). rewrite D.
    change ((1 <=? 0)%Z && (- Z.of_N E131_SEQ_DIFF_NEG <? 1)%Z) with false. reflexivity.
Qed.

Lemma terminate_ok t st : inv t st ->
  exists pk, tx_terminate cid name prio u t = (pk, None) /\ inv None (deliver_all u ip pk st).
Proof.
  intros I. unfold tx_terminate.
  assert (G : forall s1 s2 s3, s1 < 256 -> s2 < 256 -> s3 < 256 ->
            (rx_src st = None \/ exists sb, rx_src st = Some (u8 (s1 + 255), sb)) ->
            exists p1 p2 p3,
              e131_build_opt false cid name prio s1 u E131_STREAM_TERMINATED_MASK [] = Some p1 /\
              e131_build_opt false cid name prio s2 u E131_STREAM_TERMINATED_MASK [] = Some p2 /\
              e131_build_opt false cid name prio s3 u E131_STREAM_TERMINATED_MASK [] = Some p3 /\
              rx_src (deliver_all u ip [p1; p2; p3] st) = None).
  { intros s1 s2 s3 A1 A2 A3 Hsrc.
    destruct (step_term s1 st A1 Hsrc) as (p1 & B1 & R1).
    destruct (step_term s2 (fst (deliver u ip st p1)) A2 (or_introl R1)) as (p2 & B2 & R2).
    destruct (step_term s3 (fst (deliver u ip (fst (deliver u ip st p1)) p2)) A3 (or_introl R2))
      as (p3 & B3 & R3).
    exists p1, p2, p3. repeat split; try assumption. }
  destruct t as [s|].
  - destruct I as (Hs & Hsrc).
    destruct (seq_next s Hs) as (_ & _ & S1). destruct (seq_next (u8 (s + 1)) S1) as (_ & _ & S2).
    assert (S2' : u8 (s + 2) < 256) by apply u8_lt.
    destruct (G s (u8 (s + 1)) (u8 (s + 2)) Hs S1 S2' (or_intror Hsrc)) as (p1 & p2 & p3 & B1 & B2 & B3 & R).
    rewrite B1, B2, B3. exists [p1; p2; p3]. split; [reflexivity|exact R].
  - cbn in I.
    destruct (G 0 0 0 ltac:(lia) ltac:(lia) ltac:(lia) (or_introl I)) as (p1 & p2 & p3 & B1 & B2 & B3 & R).
    rewrite B1. rewrite B1 in B2, B3. inversion B2; inversion B3; subst p2 p3.
    exists [p1; p1; p1]. split; [reflexivity|exact R].
Qed.

Lemma stream_roundtrip fs1 fs2 old :
  Forall (fun f => 1 <= len f /\ len f <= 512) fs1 ->
  Forall (fun f => 1 <= len f /\ len f <= 512) fs2 ->
  exists t1 s1 pk t3 s3,
    send_all cid name prio u ip fs1 None (fresh_rx old) = (map (fun f => (true, Some f)) fs1, t1, s1) /\
    tx_terminate cid name prio u t1 = (pk, None) /\
    send_all cid name prio u ip fs2 None (deliver_all u ip pk s1)
      = (map (fun f => (true, Some f)) fs2, t3, s3).
Proof.
  intros F1 F2.
  destruct (send_all_ok fs1 F1 None (fresh_rx old) eq_refl) as (t1 & s1 & S1 & I1).
  destruct (terminate_ok t1 s1 I1) as (pk & T & I2).
  destruct (send_all_ok fs2 F2 None (deliver_all u ip pk s1) I2) as (t3 & s3 & S3 & _).
  exists t1, s1, pk, t3, s3. repeat split; assumption.
Qed.
End Stream.
