(* C07 — more about Encode: the stream it writes is a sequence of well-formed segments whose count
   bytes are REPEAT_FLAG + m or m with m in 1..127, and with enough room it always completes. *)
From OlaBase Require Import Bytes.
From C07 Require Import Gen Model ListLemmas RleProofs.
Local Open Scope N_scope.

(* a sequence of whole segments: count byte m (1..127) followed by m literal slots, or count byte
   128 + m (1..127) followed by the value to repeat *)
Inductive wf_stream : list N -> Prop :=
| wf_nil : wf_stream []
| wf_lit m xs rest : 1 <= m <= 127 -> len xs = m -> wf_stream rest -> wf_stream (m :: xs ++ rest)
| wf_rep m v rest : 1 <= m <= 127 -> wf_stream rest -> wf_stream (128 + m :: v :: rest).

Lemma rep_byte m : m < 128 -> u8 (N.lor 128 m) = 128 + m.
Proof.
  intros H. assert (E := below128 (fun m => u8 (N.lor 128 m) =? 128 + m) eq_refl m H).
  cbv beta in E. lia.
Qed.

Lemma enc_more f n cap : n = len f -> n <= 512 -> cap < 4294967296 ->
  forall fuel i di,
  i <= n -> di <= 2 * i -> (N.to_nat (n - i) < fuel)%nat ->
  exists bytes ret sz,
    enc_loop INNER_FUEL f n cap i di fuel = EOk bytes ret sz /\ wf_stream bytes /\
    (2 * n + 2 <= cap -> ret = true /\ (i < n -> 2 <= len bytes)).
Proof.
  intros Hn Hn512 Hcap. induction fuel as [|fuel IH]; intros i di Hi Hdi Hf; [lia|].
  cbn [enc_loop].
  destruct ((i <? n) && (di <? cap)) eqn:Ec.
  2:{ exists [], (negb (i <? n)), di. split; [reflexivity|]. split; [constructor|].
      intros Hbig. destruct (N.ltb_spec i n) as [X|X]; cbn [negb].
      - cbn [andb] in Ec. apply N.ltb_ge in Ec. lia.
      - split; [reflexivity|lia]. }
  apply andb_prop in Ec as [Ei Ed]. apply N.ltb_lt in Ei, Ed.
  destruct (run_end_spec f n i Ei Hn INNER_FUEL (i + 1)) as (j & R & J1 & J2 & J3 & J4); try lia.
  { intros x Hx. f_equal. lia. }
  { unfold INNER_FUEL. lia. }
  rewrite R. rewrite (usub32_ge cap di) by lia.
  destruct (N.ltb_spec 2 (j - i)) as [E2|E2].
  - destruct (N.ltb_spec 1 (cap - di)) as [E3|E3].
    + destruct (N.leb_spec (di + 2) cap) as [_|E4]; [|lia].
      destruct (IH j (di + 2)) as (bytes & ret & sz & He & Hw & Hbig); try lia.
      rewrite He. cbn [prepend]. eexists _, ret, sz. split; [reflexivity|].
      change REPEAT_FLAG with 128. rewrite rep_byte by lia. cbn [app].
      split; [apply wf_rep; [lia|exact Hw]|].
      intros B. destruct (Hbig B) as [Hr _]. split; [exact Hr|]. intros _. rewrite !len_cons. lia.
    + exists [], false, di. split; [reflexivity|]. split; [constructor|]. intros B. lia.
  - destruct (lit_end_spec f n (usub32 n 2) i Hn INNER_FUEL (i + 1)) as (j0 & L & K1 & K2); try lia.
    { unfold INNER_FUEL. lia. }
    rewrite L. cbv zeta.
    set (j1 := if usub32 n 2 <=? j0 then n else j0).
    assert (K3 : i < j1 /\ j1 <= n) by (unfold j1; destruct (usub32 n 2 <=? j0); lia).
    set (jj := if 127 <? j1 - i then i + 127 else j1).
    assert (K4 : i < jj /\ jj <= n /\ jj - i <= 127)
      by (unfold jj; destruct (N.ltb_spec 127 (j1 - i)); lia).
    destruct K4 as (K4 & K5 & K6).
    assert (U : u32 (di + jj - i) = di + jj - i) by (apply u32_id; lia).
    rewrite U.
    destruct (N.ltb_spec (di + jj - i) cap) as [E3|E3].
    + destruct (N.leb_spec (di + 1 + (jj - i)) cap) as [_|E4]; [|lia].
      destruct (N.leb_spec jj n) as [_|E5]; [|lia]. cbn [andb].
      rewrite u8_id by lia.
      destruct (IH jj (di + 1 + (jj - i))) as (bytes & ret & sz & He & Hw & Hbig); try lia.
      rewrite He. cbn [prepend]. eexists _, ret, sz. split; [reflexivity|]. cbn [app].
      split; [apply wf_lit; [lia|apply len_slice; lia|exact Hw]|].
      intros B. destruct (Hbig B) as [Hr _]. split; [exact Hr|]. intros _.
      rewrite len_cons, len_app, len_slice by lia. lia.
    + destruct (N.ltb_spec 1 (cap - di)) as [E4|E4].
      * rewrite (usub32_ge (cap - di) 1) by lia.
        set (l := cap - di - 1).
        destruct (N.leb_spec (di + 1 + l) cap) as [_|E5]; [|lia].
        destruct (N.leb_spec (i + l) n) as [_|E6]; [|lia]. cbn [andb].
        rewrite u8_id by lia.
        eexists _, false, _. split; [reflexivity|].
        split; [|intros B; lia].
        rewrite <- (app_nil_r (slice f i l)). apply wf_lit; [lia|apply len_slice; lia|constructor].
      * exists [], false, di. split; [reflexivity|]. split; [constructor|]. intros B. lia.
Qed.

Lemma rle_encode_wf f cap bytes ret sz : len f <= 512 -> cap < 4294967296 ->
  rle_encode f cap = EOk bytes ret sz -> wf_stream bytes.
Proof.
  intros Hf Hcap He. unfold rle_encode in He.
  destruct (enc_more f (len f) cap eq_refl Hf Hcap (S (N.to_nat (len f))) 0 0)
    as (b' & r' & s' & He' & Hw & _); try lia.
  rewrite He in He'. inversion He'; subst. exact Hw.
Qed.

Lemma rle_encode_complete f cap : 1 <= len f -> len f <= 512 -> cap < 4294967296 ->
  2 * len f + 2 <= cap ->
  exists bytes, rle_encode f cap = EOk bytes true (len bytes) /\ 2 <= len bytes /\ len bytes <= cap.
Proof.
  intros H1 Hf Hcap Hbig.
  destruct (rle_encode_spec f cap Hf Hcap) as (bytes & ret & k & He & Hl & _).
  unfold rle_encode in He.
  destruct (enc_more f (len f) cap eq_refl Hf Hcap (S (N.to_nat (len f))) 0 0)
    as (b' & r' & s' & He' & _ & HB); try lia.
  rewrite He in He'. inversion He'; subst b' r' s'.
  destruct (HB Hbig) as [-> Hn]. exists bytes. unfold rle_encode. split; [exact He|]. split; [apply Hn; lia|exact Hl].
Qed.
