(* C07 — Art-Net output port with its two merge-source slots (ArtNetNodeImpl::UpdatePortFromSource):
   source tracking by sender address, MERGE_TIMEOUT expiry, LTP / HTP merge.  What the merged value
   is while two senders are live belongs to C08; C07 needs: once the other sender has been silent
   for longer than the timeout, the remaining sender's frame is reproduced exactly. *)
From OlaBase Require Import Bytes.
From C07 Require Import Gen Model ModelNet2.
Local Open Scope N_scope.

Record msrc := { m_addr : N; m_ts : N; m_data : list N }.      (* sender address, last heard (s), its frame *)
Definition mslots := (option msrc * option msrc)%type.         (* MAX_MERGE_SOURCES = 2 *)

(* DmxBuffer::HTPMerge *)
Fixpoint htp (a b : list N) : list N :=
  match a, b with
  | [], _ => b
  | _, [] => a
  | x :: a', y :: b' => N.max x y :: htp a' b'
  end.

(* the scan over the slots: a slot of another sender not heard of for more than MERGE_TIMEOUT is freed *)
Definition expire (addr now : N) (o : option msrc) : option msrc :=
  match o with
  | None => None
  | Some x => if m_addr x =? addr then Some x
              else if m_ts x + AN_MERGE_TIMEOUT <? now then None else Some x
  end.

Definition is_own (addr : N) (o : option msrc) : bool :=
  match o with Some x => m_addr x =? addr | None => false end.

(* returns the slots and the new port buffer (None: "Max merge sources reached", packet ignored) *)
Definition an_update (ltp : bool) (s : mslots) (addr now : N) (d : list N) : mslots * option (list N) :=
  let s0 := expire addr now (fst s) in
  let s1 := expire addr now (snd s) in
  let new := Some {| m_addr := addr; m_ts := now; m_data := d |} in
  let placed : option mslots :=
    if is_own addr s0 then Some (new, s1)
    else if is_own addr s1 then Some (s0, new)
    else match s0, s1 with
         | None, _ => Some (new, s1)
         | Some _, None => Some (s0, new)
         | Some _, Some _ => None
         end in
  match placed with
  | None => ((s0, s1), None)
  | Some (t0, t1) =>
    let merged := if ltp then d
                  else match t0, t1 with
                       | Some a, Some b => htp (m_data a) (m_data b)
                       | Some a, None => m_data a
                       | None, Some b => m_data b
                       | None, None => d
                       end in
    ((t0, t1), Some merged)
  end.

(* every slot is free, ours, or belongs to a sender that has been silent for longer than the timeout *)
Definition others_stale (s : mslots) (addr now : N) : Prop :=
  forall x, (fst s = Some x \/ snd s = Some x) -> m_addr x = addr \/ m_ts x + AN_MERGE_TIMEOUT < now.

(* slots are well formed when the two slots do not hold the same sender *)
Definition wf_slots (s : mslots) : Prop :=
  forall a b, fst s = Some a -> snd s = Some b -> m_addr a <> m_addr b.
