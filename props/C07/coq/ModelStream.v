(* C07 — E1.31 stream lifecycle: a receiver that keeps its source-tracking state across datagrams
   (DMPE131Inflator::HandlePDUData + TrackSourceIfRequired for one handler and packets of ONE
   sender CID, so at most one tracked source; sources of other CIDs and their expiry are C08) and the
   sender's per-universe stream state (E131Node::SendDMX / TerminateStream / SendStreamTerminated). *)
From OlaBase Require Import Bytes.
From C07 Require Import Gen Model ModelNet2.
Local Open Scope N_scope.

(* ------------------------------------------------------------------ sender *)
(* like ModelNet2.e131_build with an explicit options byte (revision 3 framing only carries it) *)
Definition e131_build_opt (rev2 : bool) (cid name : list N) (priority seq universe options : N)
           (f : list N) : option (list N) :=
  if (universe =? 0) || (universe =? 65535) then None
  else
    let d := take DMX_UNIVERSE_SIZE f in
    let dmp_data := if rev2 then d else 0 :: d in
    let dmp := pdu_pack [DMP_SET_PROPERTY_VECTOR] [DMP_ADDR_HEADER]
                        (be16 0 ++ be16 1 ++ be16 (u16 (len dmp_data)) ++ dmp_data) in
    let hdr := if rev2
               then fixed E131_REV2_SOURCE_NAME_LEN name ++ [u8 priority; u8 seq] ++ be16 (u16 universe)
               else fixed E131_SOURCE_NAME_LEN name ++ [u8 priority; 0; 0; u8 seq; options]
                    ++ be16 (u16 universe) in
    let e131 := pdu_pack (be32 VECTOR_E131_DATA) hdr dmp in
    let root := pdu_pack (be32 (if rev2 then VECTOR_ROOT_E131_REV2 else VECTOR_ROOT_E131))
                         (fixed ACN_CID_LENGTH cid) e131 in
    Some (ACN_HEADER ++ root).

(* m_tx_universes entry of one universe: None = no stream, Some s = next sequence number *)
Definition txs := option N.

(* SendDMX: creates the settings when absent, sends with the current sequence, increments it *)
Definition tx_send (cid name : list N) (priority universe : N) (t : txs) (f : list N)
  : option (list N) * txs :=
  let s := match t with Some s => s | None => 0 end in
  match e131_build_opt false cid name priority s universe 0 f with
  | Some p => (Some p, Some (u8 (s + 1)))
  | None => (None, Some s)
  end.

(* TerminateStream: three SendStreamTerminated (start code only, terminated option, the stream's
   sequence numbers), then the settings are removed *)
Definition tx_terminate (cid name : list N) (priority universe : N) (t : txs)
  : list (list N) * txs :=
  let mk s := match e131_build_opt false cid name priority s universe E131_STREAM_TERMINATED_MASK []
              with Some p => [p] | None => [] end in
  match t with
  | Some s => (mk s ++ mk (u8 (s + 1)) ++ mk (u8 (s + 2)), None)
  | None => (mk 0 ++ mk 0 ++ mk 0, None)
  end.

(* ------------------------------------------------------------------ receiver *)
Record rxs := { rx_src : option (N * buf);   (* tracked source of the sender's CID: last sequence, its buffer *)
                rx_active : N;               (* active_priority *)
                rx_buf : buf }.              (* the handler's DmxBuffer *)

Definition i8 (x : N) : Z := let y := x mod 256 in if y <? 128 then Z.of_N y else (Z.of_N y - 256)%Z.

(* DmxBuffer::Reset *)
Definition buf_reset (b : buf) : buf := match b with None => None | Some _ => Some [] end.

(* HandlePDUData with TrackSourceIfRequired; returns the new state and whether the closure ran *)
Definition dmp_track (rev2 : bool) (vector : N) (e131hdr dmphdr data : list N)
           (hu : N) (ignore_preview : bool) (st : rxs) : option (rxs * bool) :=   (* None: read out of range *)
  let ignore := Some (st, false) in
  if negb (vector =? DMP_SET_PROPERTY_VECTOR) then ignore
  else
    let o_pri := if rev2 then E131R2_OFF_priority else E131_OFF_priority in
    let o_seq := if rev2 then E131R2_OFF_sequence else E131_OFF_sequence in
    let o_uni := if rev2 then E131R2_OFF_universe else E131_OFF_universe in
    match rd e131hdr o_pri, rd e131hdr o_seq, rd16be e131hdr o_uni, rd dmphdr 0 with
    | Some priority, Some seq, Some universe, Some dh =>
      let options := if rev2 then 0 else match rd e131hdr E131_OFF_options with Some o => o | None => 0 end in
      let preview := negb (N.land options E131_PREVIEW_DATA_MASK =? 0) in
      let terminated := negb (N.land options E131_STREAM_TERMINATED_MASK =? 0) in
      if preview && ignore_preview then ignore
      else if negb (universe =? hu) then ignore
      else if (N.land dh 128 =? 0) || negb (N.land dh 64 =? 0)
              || negb (N.land dh 3 =? DMP_TWO_BYTES) || negb ((N.land dh 48) / 16 =? DMP_RANGE_EQUAL)
      then ignore
      else if E131_MAX_PRIORITY <? priority then ignore
      else if len data <? 6 then ignore
      else
        match rd16be data 0, rd16be data 2, rd16be data 4 with
        | Some start, Some incr, Some number =>
          if negb (incr =? 1) then ignore
          else
            let length_remaining := len data - 6 in
            let start_code : option N :=
              if rev2 then Some start
              else if (0 <? length_remaining) && (0 <? number) then rd data 6 else None in
            let sc0 := match start_code with Some 0 => true | _ => false end in
            if negb sc0 && negb terminated then ignore
            else
              let channels := N.min length_remaining number in
              let frame := if rev2 then slice data 6 channels else slice data 7 (channels - 1) in
              (* TrackSourceIfRequired *)
              let active0 := match rx_src st with None => 0 | Some _ => rx_active st end in
              match rx_src st with
              | None =>
                if terminated || (priority <? active0) then Some ({| rx_src := None; rx_active := active0; rx_buf := rx_buf st |}, false)
                else
                  let active := if active0 <? priority then priority else active0 in
                  let sb : buf := if sc0 then buf_set frame else None in
                  let hb := match sb with Some l => Some l | None => rx_buf st end in
                  Some ({| rx_src := Some (seq, sb); rx_active := active; rx_buf := hb |}, true)
              | Some (last, sb0) =>
                let diff := i8 (seq + 256 - last) in
                if (diff <=? 0)%Z && (- Z.of_N E131_SEQ_DIFF_NEG <? diff)%Z
                then Some (st, false)                          (* old packet *)
                else if terminated then
                  (* source erased, no sources left: handler buffer Reset(), closure not run *)
                  Some ({| rx_src := None; rx_active := 0; rx_buf := buf_reset (rx_buf st) |}, false)
                else
                  let active := priority in    (* single source: lowered or raised to the packet's priority *)
                  let sb : buf := if sc0 then buf_set frame else sb0 in
                  let hb := match sb with Some l => Some l | None => rx_buf st end in
                  Some ({| rx_src := Some (seq, sb); rx_active := active; rx_buf := hb |}, true)
              end
        | _, _, _ => None
        end
    | _, _, _, _ => None
    end.

Inductive sres :=
| SOk (st : rxs) (ran : bool)
| SOob
| SUnmodelled.

(* IncomingUDPTransport::Receive ... DMPE131Inflator, as ModelNet2.e131_handle but with state *)
Definition e131_rx (p : list N) (hu : N) (ignore_preview : bool) (st : rxs) : sres :=
  if len p <? 16 then SOk st false
  else if negb (forallb (fun xy => fst xy =? snd xy) (combine (take 16 p) ACN_HEADER)) then SOk st false
  else
    match pdu_one (drop 16 p) 4 ACN_CID_LENGTH with
    | PDrop => SOk st false
    | PUnmod => SUnmodelled
    | PGot rv _cid rdata =>
      let rev2 := rv =? VECTOR_ROOT_E131_REV2 in
      if negb ((rv =? VECTOR_ROOT_E131) || rev2) then SOk st false
      else
        match pdu_one rdata 4 (if rev2 then E131_REV2_HEADER_SIZE else E131_HEADER_SIZE) with
        | PDrop => SOk st false
        | PUnmod => SUnmodelled
        | PGot ev ehdr edata =>
          if negb (ev =? VECTOR_E131_DATA) then (if rev2 then SOk st false else SUnmodelled)
          else
            match pdu_one edata 1 DMP_HEADER_SIZE with
            | PDrop => SOk st false
            | PUnmod => SUnmodelled
            | PGot dv dhdr ddata =>
              match dmp_track rev2 dv ehdr dhdr ddata hu ignore_preview st with
              | Some (st', ran) => SOk st' ran
              | None => SOob
              end
            end
        end
    end.

(* ------------------------------------------------------------------ histories *)
Definition deliver (u : N) (ip : bool) (st : rxs) (p : list N) : rxs * bool :=
  match e131_rx p u ip st with SOk st' ran => (st', ran) | _ => (st, false) end.

(* send the frames one after the other, delivering each datagram as it is sent; observations:
   (closure ran, handler buffer) after every frame *)
Fixpoint send_all (cid name : list N) (prio u : N) (ip : bool) (fs : list (list N)) (t : txs) (st : rxs)
  : list (bool * buf) * txs * rxs :=
  match fs with
  | [] => ([], t, st)
  | f :: r =>
    let '(p, t') := tx_send cid name prio u t f in
    let '(st', ran) := match p with Some p => deliver u ip st p | None => (st, false) end in
    let '(o, t'', st'') := send_all cid name prio u ip r t' st' in
    ((ran, rx_buf st') :: o, t'', st'')
  end.

Definition deliver_all (u : N) (ip : bool) (pk : list (list N)) (st : rxs) : rxs :=
  fold_left (fun s p => fst (deliver u ip s p)) pk st.

(* a receiver that has not heard from the sender yet; its handler buffer holds anything *)
Definition fresh_rx (old : buf) : rxs := {| rx_src := None; rx_active := 0; rx_buf := old |}.
