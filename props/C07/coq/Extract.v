From Coq Require Extraction.
From Coq Require Import ExtrOcamlBasic.
From OlaBase Require Import Bytes.
From C07 Require Import Gen Model ModelNet2 ModelStream ModelMulti ModelHist ModelExt ModelMerge ModelSrc ModelEsp.
Extraction Language OCaml.
Extraction "model.ml" io_witness N.div_eucl rle_encode rle_decode
  shownet_build shownet_handle sandnet_build sandnet_handle espnet_build espnet_handle
  pathport_build pathport_handle expect_full expect_artnet expect_overlay len
  artnet_build artnet_handle e131_build e131_handle tx_send tx_terminate e131_rx tx_send_map tx_send_r an_tx_step sandnet_handle_compressed tx_touch an_update e131_packet e131_track esp_encode esp_decode espnet_build_rle espnet_handle_rle e131_build_opt tx_lookup tx_update.
