(* C07 — one sender, any interleaving of sends over any universes: what a handler sees depends only
   on the sends to its own universe, and all of those are delivered. *)
From OlaBase Require Import Bytes.
From C07 Require Import Gen Model ModelNet2 ModelStream ModelMulti ListLemmas NetProofs NetProofs2 StreamProofs.
Local Open Scope N_scope.

Lemma lookup_update_same u v m : tx_lookup u (tx_update u v m) = Some v.
Proof.
  induction m as [|[k w] r IH]; cbn [tx_update tx_lookup].
  - rewrite N.eqb_refl. reflexivity.
  - destruct (N.eqb_spec k u) as [E|E]; cbn [tx_lookup].
    + rewrite E, N.eqb_refl. reflexivity.
    + destruct (N.eqb_spec k u); [contradiction|]. exact IH.
Qed.

Lemma lookup_update_other u h v m : u <> h -> tx_lookup h (tx_update u v m) = tx_lookup h m.
Proof.
  intros Hne. induction m as [|[k w] r IH]; cbn [tx_update tx_lookup].
  - destruct (N.eqb_spec u h); [contradiction|]. reflexivity.
  - destruct (N.eqb_spec k u) as [E|E]; cbn [tx_lookup].
    + subst k. destruct (N.eqb_spec u h); [contradiction|]. reflexivity.
    + destruct (N.eqb_spec k h); [reflexivity|exact IH].
Qed.

Definition wf_map (m : txmap) : Prop := forall u s, tx_lookup u m = Some s -> s < 256.

Lemma wf_update u v m : v < 256 -> wf_map m -> wf_map (tx_update u v m).
Proof.
  intros Hv W h s. destruct (N.eq_dec u h) as [->|Hne].
  - rewrite lookup_update_same. intros E; inversion E; subst; exact Hv.
  - rewrite lookup_update_other by exact Hne. apply W.
Qed.

Section Multi.
Variables (cid name : list N) (prio hu : N) (ip : bool).
Hypothesis (Hp : prio <= 200).

Definition ok_op (op : N * list N) : Prop :=
  1 <= fst op /\ fst op <= 65534 /\ 1 <= len (snd op) /\ len (snd op) <= 512.

Lemma send_multi_ok ops : Forall ok_op ops -> forall m st,
  wf_map m -> inv (tx_lookup hu m) st ->
  exists m' st', send_multi false cid name prio hu ip ops m st
                   = (expect_multi hu ops (rx_buf st), m', st').
Proof.
  induction 1 as [|[u f] r (U1 & U2 & H1 & H2) _ IH]; intros m st W I.
  - exists m, st. reflexivity.
  - cbn [fst snd] in *. cbn [send_multi expect_multi]. unfold tx_send_map.
    destruct (N.eqb_spec u hu) as [E|E].
    + subst u.
      destruct (step_data cid name prio hu ip U1 U2 Hp (tx_lookup hu m) st f H1 H2 I)
        as (p & t' & st' & T & D & B & I').
      change (tx_send_r false cid name prio hu (tx_lookup hu m) f)
        with (tx_send cid name prio hu (tx_lookup hu m) f). rewrite T.
      assert (exists v, t' = Some v /\ v < 256) as (v & -> & Hv).
      { unfold tx_send in T. destruct (e131_build_opt _ _ _ _ _ _ _ _); inversion T.
        eexists. split; [reflexivity|apply u8_lt]. }
      rewrite D.
      destruct (IH (tx_update hu v m) st') as (m2 & st2 & S).
      * apply wf_update; assumption.
      * rewrite lookup_update_same. exact I'.
      * rewrite S, B. exists m2, st2. reflexivity.
    + set (t := tx_lookup u m).
      set (s := match t with Some s => s | None => 0 end).
      assert (Hs : s < 256) by (unfold s, t; destruct (tx_lookup u m) eqn:L; [apply (W u); exact L|lia]).
      destruct (e131_rx_build_gen cid name prio s u hu false f ip st U1 U2 Hp Hs H2) as (p & Bd & R).
      cbv iota in Bd. unfold tx_send_r. fold s. rewrite Bd.
      unfold deliver. rewrite R. destruct (N.eqb_spec u hu) as [X|_]; [contradiction|].
      destruct (IH (tx_update u (u8 (s + 1)) m) st) as (m2 & st2 & S).
      * apply wf_update; [apply u8_lt|exact W].
      * rewrite lookup_update_other by exact E. exact I.
      * rewrite S. exists m2, st2. reflexivity.
Qed.

Lemma multi_universe ops old : Forall ok_op ops ->
  exists m' st', send_multi false cid name prio hu ip ops [] (fresh_rx old)
                   = (expect_multi hu ops old, m', st').
Proof.
  intros F. apply (send_multi_ok ops F [] (fresh_rx old)).
  - intros u s L. discriminate L.
  - reflexivity.
Qed.
End Multi.
