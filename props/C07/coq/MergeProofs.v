(* C07 — Art-Net merge slots: the remaining sender is reproduced exactly; E1.31 sender scripts with
   settings calls; ShowNet sender histories over several universes. *)
From OlaBase Require Import Bytes.
From C07 Require Import Gen Model ModelNet2 ModelStream ModelMulti ModelHist ModelExt ModelMerge ListLemmas
     RleProofs RleMore NetProofs NetProofs2 StreamProofs MultiProofs StreamProofs2 ExtProofs2.
Local Open Scope N_scope.

(* ------------------------------------------------------------------ Art-Net merge slots *)
Lemma an_update_remaining ltp s addr now d :
  wf_slots s -> others_stale s addr now ->
  exists s', an_update ltp s addr now d = (s', Some d).
Proof.
  intros W O. destruct s as [[a|] [b|]]; unfold an_update, expire, is_own; cbn [fst snd].
  - assert (Ha := O a (or_introl eq_refl)). assert (Hb := O b (or_intror eq_refl)).
    assert (Hw := W a b eq_refl eq_refl). cbn [fst snd] in *.
    destruct (N.eqb_spec (m_addr a) addr) as [Ea|Ea].
    + destruct (N.eqb_spec (m_addr b) addr) as [Eb|Eb]; [congruence|].
      destruct Hb as [Hb|Hb]; [contradiction|].
      destruct (N.ltb_spec (m_ts b + AN_MERGE_TIMEOUT) now) as [_|X]; [|lia].
      cbn [m_addr]. rewrite Ea, N.eqb_refl. destruct ltp; eexists; reflexivity.
    + destruct Ha as [Ha|Ha]; [contradiction|].
      destruct (N.ltb_spec (m_ts a + AN_MERGE_TIMEOUT) now) as [_|X]; [|lia].
      destruct (N.eqb_spec (m_addr b) addr) as [Eb|Eb].
      * cbn [m_addr]. rewrite Eb, N.eqb_refl. destruct ltp; eexists; reflexivity.
      * destruct Hb as [Hb|Hb]; [contradiction|].
        destruct (N.ltb_spec (m_ts b + AN_MERGE_TIMEOUT) now) as [_|X]; [|lia].
        destruct ltp; eexists; reflexivity.
  - assert (Ha := O a (or_introl eq_refl)). cbn [fst snd] in *.
    destruct (N.eqb_spec (m_addr a) addr) as [Ea|Ea].
    + cbn [m_addr]. rewrite Ea, N.eqb_refl. destruct ltp; eexists; reflexivity.
    + destruct Ha as [Ha|Ha]; [contradiction|].
      destruct (N.ltb_spec (m_ts a + AN_MERGE_TIMEOUT) now) as [_|X]; [|lia].
      destruct ltp; eexists; reflexivity.
  - assert (Hb := O b (or_intror eq_refl)). cbn [fst snd] in *.
    destruct (N.eqb_spec (m_addr b) addr) as [Eb|Eb].
    + cbn [m_addr]. rewrite Eb, N.eqb_refl. destruct ltp; eexists; reflexivity.
    + destruct Hb as [Hb|Hb]; [contradiction|].
      destruct (N.ltb_spec (m_ts b + AN_MERGE_TIMEOUT) now) as [_|X]; [|lia].
      destruct ltp; eexists; reflexivity.
  - destruct ltp; eexists; reflexivity.
Qed.

(* the slots never hold one sender twice, from an empty port onwards *)
Lemma an_update_wf ltp s addr now d : wf_slots s -> wf_slots (fst (an_update ltp s addr now d)).
Proof.
  intros W. destruct s as [[a|] [b|]]; unfold an_update, expire, is_own, wf_slots in *; cbn [fst snd] in *.
  - specialize (W a b eq_refl eq_refl).
    destruct (N.eqb_spec (m_addr a) addr) as [Ea|Ea]; destruct (N.eqb_spec (m_addr b) addr) as [Eb|Eb];
      try congruence;
      repeat match goal with |- context [?x <? ?y] => destruct (N.ltb_spec x y) end;
      cbn [m_addr fst snd]; try rewrite N.eqb_refl;
      repeat match goal with |- context [?x =? ?y] => destruct (N.eqb_spec x y) end;
      cbn [fst snd]; intros x y Hx Hy; inversion Hx; inversion Hy; subst; cbn [m_addr]; congruence.
  - destruct (N.eqb_spec (m_addr a) addr) as [Ea|Ea];
      repeat match goal with |- context [?x <? ?y] => destruct (N.ltb_spec x y) end;
      cbn [m_addr fst snd]; try rewrite N.eqb_refl;
      repeat match goal with |- context [?x =? ?y] => destruct (N.eqb_spec x y) end;
      cbn [fst snd]; intros x y Hx Hy; inversion Hx; inversion Hy; subst; cbn [m_addr]; congruence.
  - destruct (N.eqb_spec (m_addr b) addr) as [Eb|Eb];
      repeat match goal with |- context [?x <? ?y] => destruct (N.ltb_spec x y) end;
      cbn [m_addr fst snd]; try rewrite N.eqb_refl;
      repeat match goal with |- context [?x =? ?y] => destruct (N.eqb_spec x y) end;
      cbn [fst snd]; intros x y Hx Hy; inversion Hx; inversion Hy; subst; cbn [m_addr]; congruence.
  - intros x y Hx Hy. inversion Hy.
Qed.

(* ------------------------------------------------------------------ E1.31 sender scripts *)
Definition inv2 (t : txs) (st : rxs) : Prop :=
  match rx_src st with
  | None => True
  | Some (last, _) => exists s, t = Some s /\ s < 256 /\ last = u8 (s + 255)
  end.

Lemma track_ok2 prio s f t st :
  inv2 t st -> s = match t with Some s => s | None => 0 end -> s < 256 -> len f <= 512 ->
  exists st', track_tail prio s false f st = Some (st', true) /\ rx_buf st' = Some f /\
              inv2 (Some (u8 (s + 1))) st'.
Proof.
  intros I Es Hs H2. destruct (seq_next s Hs) as (D & S2 & S3).
  unfold track_tail. unfold inv2 in I. destruct (rx_src st) as [[last sb]|] eqn:E.
  - destruct I as (s0 & -> & _ & ->). subst s. rewrite D.
    change ((1 <=? 0)%Z && (- Z.of_N E131_SEQ_DIFF_NEG <? 1)%Z) with false. cbv iota.
    eexists. split; [reflexivity|]. cbn [rx_buf].
    split; [apply buf_set_small; exact H2|]. unfold inv2. cbn [rx_src].
    exists (u8 (s0 + 1)). rewrite S2. repeat split. exact S3.
  - destruct (N.ltb_spec prio 0) as [X|_]; [lia|]. cbn [orb].
    eexists. split; [reflexivity|]. cbn [rx_buf].
    split; [apply buf_set_small; exact H2|]. unfold inv2. cbn [rx_src].
    exists (u8 (s + 1)). rewrite S2. repeat split. exact S3.
Qed.

Definition ok_sop (op : sop) : Prop :=
  match op with
  | SSend u prio f => 1 <= u /\ u <= 65534 /\ prio <= 200 /\ len f <= 512
  | STouch _ => True
  end.

Lemma send_script_ok rev2 cid name hu ip ops : Forall ok_sop ops -> forall m st,
  wf_map m -> inv2 (tx_lookup hu m) st ->
  exists m' st', send_script rev2 cid name hu ip ops m st = (expect_script hu ops (rx_buf st), m', st').
Proof.
  induction 1 as [|op r Hop _ IH]; intros m st W I.
  - exists m, st. reflexivity.
  - destruct op as [u prio f|u]; cbn [send_script expect_script].
    + destruct Hop as (U1 & U2 & Hp & H2). unfold tx_send_map.
      set (t := tx_lookup u m). set (s := match t with Some s => s | None => 0 end).
      assert (Hs : s < 256) by (unfold s, t; destruct (tx_lookup u m) eqn:L; [apply (W u); exact L|lia]).
      destruct (step_any rev2 cid name hu ip prio u t f st U1 U2 Hp H2 Hs) as (p & T & R). fold s in T, R.
      rewrite T. unfold deliver. rewrite R.
      destruct (N.eqb_spec u hu) as [E|E].
      * subst u. destruct (track_ok2 prio s f t st I eq_refl Hs H2) as (st' & K & B & I').
        rewrite K.
        destruct (IH (tx_update hu (u8 (s + 1)) m) st') as (m2 & st2 & S).
        -- apply wf_update; [apply u8_lt|exact W].
        -- rewrite lookup_update_same. exact I'.
        -- rewrite S, B. exists m2, st2. reflexivity.
      * destruct (IH (tx_update u (u8 (s + 1)) m) st) as (m2 & st2 & S).
        -- apply wf_update; [apply u8_lt|exact W].
        -- rewrite lookup_update_other by exact E. exact I.
        -- rewrite S. exists m2, st2. reflexivity.
    + destruct (IH (tx_touch u m) st) as (m2 & st2 & S).
      * unfold tx_touch. destruct (tx_lookup u m); [exact W|apply wf_update; [lia|exact W]].
      * unfold tx_touch. destruct (tx_lookup u m) eqn:L; [exact I|].
        destruct (N.eq_dec u hu) as [->|Hne].
        -- rewrite lookup_update_same. unfold inv2 in *. rewrite L in I.
           destruct (rx_src st) as [[last sb]|]; [|exact Logic.I].
           destruct I as (s0 & X & _). discriminate X.
        -- rewrite lookup_update_other by exact Hne. exact I.
      * rewrite S. exists m2, st2. reflexivity.
Qed.

(* ------------------------------------------------------------------ ShowNet sender history *)
(* one sender node: packet counter counts every datagram; name and universe vary per send *)
Fixpoint shownet_send_hist (ip : list N) (hu : N) (ops : list (N * list N * list N)) (seq : N) (b : buf)
  : list (bool * buf) :=
  match ops with
  | [] => []
  | (u, name, f) :: r =>
    match shownet_build ip name seq u f with
    | Some p =>
      match shownet_handle p hu b with
      | RHandled b' => (true, b') :: shownet_send_hist ip hu r (u16 (seq + 1)) b'
      | _ => (false, b) :: shownet_send_hist ip hu r (u16 (seq + 1)) b
      end
    | None => (false, b) :: shownet_send_hist ip hu r seq b
    end
  end.

Fixpoint shownet_expect_hist (hu : N) (ops : list (N * list N * list N)) (b : buf) : list (bool * buf) :=
  match ops with
  | [] => []
  | (u, _, f) :: r =>
    if u =? hu then (true, expect_overlay 0 f b) :: shownet_expect_hist hu r (expect_overlay 0 f b)
    else (false, b) :: shownet_expect_hist hu r b
  end.

Lemma shownet_send_hist_ok ip hu ops :
  Forall (fun op => let '(u, _, f) := op in u < 8 /\ 1 <= len f /\ len f <= 512) ops ->
  forall seq b, shownet_send_hist ip hu ops seq b = shownet_expect_hist hu ops b.
Proof.
  induction 1 as [|[[u name] f] r (Hu & H1 & H2) _ IH]; intros seq b; [reflexivity|].
  cbn [shownet_send_hist shownet_expect_hist].
  destruct (shownet_roundtrip_gen ip name seq u hu f b H1 H2 Hu) as (p & B & R).
  rewrite B, R. destruct (u =? hu); f_equal; apply IH.
Qed.
