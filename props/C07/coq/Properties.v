(* C07 — run-length compression is lossless and bounded (theorems), for the model of
   RunLengthEncoder::Encode / Decode and DmxBuffer::SetRange / SetRangeToValue after fixes/01, 02.
   Only theorem statements here; proofs are in RleProofs.v.  A frame is a list of slots (len <= 512,
   the DmxBuffer invariant), `cap` is the value of *data_size on entry (any unsigned int), a receiver
   buffer is None (nothing allocated yet: the C++ blacks out 512 slots on first write) or Some slots.
   The per-protocol send->receive round trips (ShowNet, SandNet, ESP Net, Pathport) are NOT theorems:
   they are checked by the correspondence harness against the models and expect_* of Model.v. *)
From OlaBase Require Import Bytes.
From C07 Require Import Gen Model ListLemmas RleProofs.
Local Open Scope N_scope.

(* the constants the statements below spell out as literals *)
Theorem c07_consts : (DMX_UNIVERSE_SIZE, REPEAT_FLAG) = (512, 128).
Proof. reflexivity. Qed.
Print Assumptions c07_consts.

(* Bounded: for every frame and every capacity Encode terminates (no OutOfFuel), never writes outside
   data[0, cap) and never reads outside the frame (no Oob), sets *data_size to the number of bytes
   written, which is at most cap; the bytes written always decode (with the real Decode loop, into a
   new buffer, returning true and without any out-of-range read) to the first k slots of the frame
   followed by the zeros of the new buffer, and Encode returns true exactly when k is the whole
   frame, i.e. false iff slots were left out. *)
Theorem c07_rle_bounded : forall f cap,
  len f <= 512 -> cap < 2^32 ->
  exists bytes ret k,
    rle_encode f cap = EOk bytes ret (len bytes) /\ len bytes <= cap /\
    k <= len f /\ (ret = true <-> k = len f) /\
    exists b', rle_decode 0 bytes None = DOk b' true /\
               materialise b' = take k f ++ zeros (512 - k).
Proof. exact rle_bounded. Qed.
Print Assumptions c07_rle_bounded.

(* Lossless: whenever Encode reports success, Decode of exactly the bytes it wrote, at any start
   channel and into any receiver buffer that admits the write (start <= current length, frame fits
   below slot 512), returns true and leaves the frame at [start, start + len f) with every other
   slot of the receiver untouched (512 zeros when the receiver had no data yet). *)
Theorem c07_rle_lossless : forall f cap bytes sz start b,
  1 <= len f -> len f <= 512 -> cap < 2^32 ->
  start + len f <= 512 -> start <= len (materialise b) ->
  rle_encode f cap = EOk bytes true sz ->
  rle_decode start bytes b =
    DOk (Some (take start (materialise b) ++ f ++ drop (start + len f) (materialise b))) true.
Proof. exact rle_lossless. Qed.
Print Assumptions c07_rle_lossless.

(* The same for truncated output: what was written is still a prefix of the frame, over any
   receiver buffer (so a receiver of a truncated ShowNet block never sees wrong values). *)
Theorem c07_rle_prefix : forall f cap,
  len f <= 512 -> cap < 2^32 ->
  exists bytes ret k,
    rle_encode f cap = EOk bytes ret (len bytes) /\ len bytes <= cap /\
    k <= len f /\ (ret = true <-> k = len f) /\
    forall start b, start + len f <= 512 -> start <= len (materialise b) ->
      exists b', rle_decode start bytes b = DOk b' true /\
                 materialise b' = take start (materialise b) ++ take k f
                                  ++ drop (start + len (take k f)) (materialise b) /\
                 (b' = None -> b = None /\ k = 0).
Proof. exact rle_encode_spec. Qed.
Print Assumptions c07_rle_prefix.

(* ---- non-vacuity and the pre-fix failures as concrete evaluations of the (fixed) model *)
Definition ramp (n : nat) : list N := map (fun i => N.of_nat ((i * 7 + 3) mod 256)) (seq 0 n).
(* 128 distinct slots: the unfixed encoder emitted the count byte 0x80 here *)
Example ex_128 :
  match rle_encode (ramp 128) 1310 with
  | EOk bytes true sz => sz = 130 /\ rd bytes 0 = Some 127 /\ rd bytes 128 = Some 1 /\
                         rle_decode 0 bytes None = DOk (Some (ramp 128 ++ zeros 384)) true
  | _ => False end.
Proof. vm_compute. repeat split; reflexivity. Qed.
(* capacity exhausted mid-frame: reported, nothing beyond the capacity *)
Example ex_trunc : rle_encode [1; 2; 2; 3; 0; 0; 0; 1; 3; 3; 3; 1; 2] 6 = EOk [4; 1; 2; 2; 3] false 5.
Proof. vm_compute. reflexivity. Qed.
(* a truncated final segment is refused, not read *)
Example ex_dec_trunc : rle_decode 0 [5; 1; 2] None = DOk None false /\
                       rle_decode 0 [0x83] (Some [9]) = DOk (Some [9]) false.
Proof. vm_compute. split; reflexivity. Qed.
(* ShowNet: a frame whose encoding is as long as the frame is sent raw and received intact *)
Example ex_shownet_collide :
  match shownet_build [10; 0; 0; 1] [] 0 2 [5; 5; 5; 7] with
  | Some p => shownet_handle p 2 None = RHandled (expect_overlay 0 [5; 5; 5; 7] None) /\ len p = 51
  | None => False end.
Proof. vm_compute. split; reflexivity. Qed.
