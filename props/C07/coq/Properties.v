(* C07 — run-length compression is lossless and bounded (theorems), for the model of
   RunLengthEncoder::Encode / Decode and DmxBuffer::SetRange / SetRangeToValue after fixes/01, 02.
   Only theorem statements here; proofs are in RleProofs.v.  A frame is a list of slots (len <= 512,
   the DmxBuffer invariant), `cap` is the value of *data_size on entry (any unsigned int), a receiver
   buffer is None (nothing allocated yet: the C++ blacks out 512 slots on first write) or Some slots.
   The per-protocol send->receive round trips are theorems about the packet models of Model.v
   (sender's datagram = what the node passes to sendto; receiver = node with one registered handler). *)
From OlaBase Require Import Bytes.
From C07 Require Import Gen Model ModelNet2 ModelStream ModelMulti ModelHist ModelExt ModelMerge ModelSrc ModelEsp ListLemmas RleProofs RleMore NetProofs NetProofs2 StreamProofs MultiProofs HistProofs ExtProofs StreamProofs2 ExtProofs2 MergeProofs SrcProofs EspProofs OffsetProofs ScriptProofs.
Local Open Scope N_scope.

(* the constants the statements below spell out as literals *)
Theorem c07_consts : (DMX_UNIVERSE_SIZE, REPEAT_FLAG) = (512, 128).
Proof. reflexivity. Qed.
Print Assumptions c07_consts.

(* Bounded: for every frame and every capacity Encode terminates (no OutOfFuel), never writes outside
   data[0, cap) and never reads outside the frame (no Oob), sets *data_size to the number of bytes
   written, which is at most cap; the bytes written always decode (with the real Decode loop, into a
   new buffer, returning true and without any out-of-range read) to the first k slots of the frame
   followed by the zeros of the new buffer, and Encode returns true exactly when k is the whole
   frame, i.e. false iff slots were left out. *)
Theorem c07_rle_bounded : forall f cap,
  len f <= 512 -> cap < 2^32 ->
  exists bytes ret k,
    rle_encode f cap = EOk bytes ret (len bytes) /\ len bytes <= cap /\
    k <= len f /\ (ret = true <-> k = len f) /\
    exists b', rle_decode 0 bytes None = DOk b' true /\
               materialise b' = take k f ++ zeros (512 - k).
Proof. exact rle_bounded. Qed.
Print Assumptions c07_rle_bounded.

(* Lossless: whenever Encode reports success, Decode of exactly the bytes it wrote, at any start
   channel and into any receiver buffer that admits the write (start <= current length, frame fits
   below slot 512), returns true and leaves the frame at [start, start + len f) with every other
   slot of the receiver untouched (512 zeros when the receiver had no data yet). *)
Theorem c07_rle_lossless : forall f cap bytes sz start b,
  1 <= len f -> len f <= 512 -> cap < 2^32 ->
  start + len f <= 512 -> start <= len (materialise b) ->
  rle_encode f cap = EOk bytes true sz ->
  rle_decode start bytes b =
    DOk (Some (take start (materialise b) ++ f ++ drop (start + len f) (materialise b))) true.
Proof. exact rle_lossless. Qed.
Print Assumptions c07_rle_lossless.

(* The same for truncated output: what was written is still a prefix of the frame, over any
   receiver buffer (so a receiver of a truncated ShowNet block never sees wrong values). *)
Theorem c07_rle_prefix : forall f cap,
  len f <= 512 -> cap < 2^32 ->
  exists bytes ret k,
    rle_encode f cap = EOk bytes ret (len bytes) /\ len bytes <= cap /\
    k <= len f /\ (ret = true <-> k = len f) /\
    forall start b, start + len f <= 512 -> start <= len (materialise b) ->
      exists b', rle_decode start bytes b = DOk b' true /\
                 materialise b' = take start (materialise b) ++ take k f
                                  ++ drop (start + len (take k f)) (materialise b) /\
                 (b' = None -> b = None /\ k = 0).
Proof. exact rle_encode_spec. Qed.
Print Assumptions c07_rle_prefix.

(* Every count byte Encode emits is m or REPEAT_FLAG + m with m in 1..127: what it writes is always a
   sequence of whole segments (count m followed by m literal slots, or count 128 + m followed by the
   value), for every frame and capacity, also when truncated. *)
Theorem c07_rle_count_bytes : forall f cap bytes ret sz,
  len f <= 512 -> cap < 2^32 ->
  rle_encode f cap = EOk bytes ret sz -> wf_stream bytes.
Proof. exact rle_encode_wf. Qed.
Print Assumptions c07_rle_count_bytes.

(* ShowNet (partial-universe protocol): for every frame of 1-512 slots, every universe 0..7, any
   sender ip / node name / packet counter and any previous receiver buffer, BuildCompressedPacket
   yields a datagram, and HandlePacket of that datagram on a node listening on the same universe
   leaves the frame at slots [0, len f) with all remaining slots untouched (512 zeros when the
   receiver had no data).  Covers the RLE path and the raw-when-lengths-collide rule (fixes/03). *)
Theorem c07_shownet_roundtrip : forall ip name seq u f old,
  1 <= len f -> len f <= 512 -> u < 8 ->
  exists p, shownet_build ip name seq u f = Some p /\
            shownet_handle p u old =
              RHandled (Some (f ++ drop (len f) (materialise old))).
Proof. exact shownet_roundtrip. Qed.
Print Assumptions c07_shownet_roundtrip.

(* SandNet (uncompressed): every frame of 1-512 slots, every group/universe 0..255, any port id:
   the receiver's buffer becomes exactly the frame. *)
Theorem c07_sandnet_roundtrip : forall g u port f old,
  1 <= len f -> len f <= 512 -> g < 256 -> u < 256 ->
  sandnet_handle (sandnet_build g u port f) g u old = RHandled (Some f).
Proof. exact sandnet_roundtrip. Qed.
Print Assumptions c07_sandnet_roundtrip.

(* ESP Net (raw data packets, the only kind OLA sends): every frame, every universe 0..255. *)
Theorem c07_espnet_roundtrip : forall u f old,
  1 <= len f -> len f <= 512 -> u < 256 ->
  espnet_handle (espnet_build u f) u old = RHandled (Some f).
Proof. exact espnet_roundtrip. Qed.
Print Assumptions c07_espnet_roundtrip.

(* Pathport (partial-universe protocol): every frame, every universe 0..127, any device id and
   sequence number: frame at slots [0, len f), remaining slots untouched. *)
Theorem c07_pathport_roundtrip : forall dev seq u f old,
  1 <= len f -> len f <= 512 -> u <= 127 ->
  pathport_handle (pathport_build dev seq u f) dev u old =
    RHandled (Some (f ++ drop (len f) (materialise old))).
Proof. exact pathport_roundtrip. Qed.
Print Assumptions c07_pathport_roundtrip.

(* Art-Net: every frame of 1-512 slots, every 8-bit port address (sub-net << 4 | universe), every
   net 0..127, any sequence number and physical port: SendDMX yields a datagram and HandlePacket of
   it on a node with the same net whose output port has the same port address (no other source
   tracked) gives the frame, followed by one zero when the slot count is odd. *)
Theorem c07_artnet_roundtrip : forall seq phys addr net f old,
  1 <= len f -> len f <= 512 -> addr < 256 -> net < 128 ->
  exists p, artnet_build seq phys addr net f = Some p /\
            artnet_handle p net addr old =
              R2 (RHandled (Some (if len f mod 2 =? 0 then f else f ++ [0]))).
Proof. intros. apply artnet_roundtrip; try assumption. lia. Qed.
Print Assumptions c07_artnet_roundtrip.

(* E1.31, both revisions (rev2 = true: draft 0.2 framing): every frame of 1-512 slots, every
   universe 1..65534, every priority 0..200, any CID, source name and sequence number, non-preview
   data: the datagram built by SendDMX (PreamblePacker + Root/E131/DMP PDUs) taken through
   IncomingUDPTransport and the inflator chain to DMPE131Inflator of a node with a handler for that
   universe (no source tracked yet, either ignore_preview setting) leaves exactly the frame. *)
Theorem c07_e131_roundtrip : forall rev2 cid name priority seq universe f ignore_preview old,
  1 <= len f -> len f <= 512 -> 1 <= universe -> universe <= 65534 -> priority <= 200 ->
  exists p, e131_build rev2 cid name priority seq universe false f = Some p /\
            e131_handle p universe ignore_preview old = R2 (RHandled (Some f)).
Proof. exact e131_roundtrip. Qed.
Print Assumptions c07_e131_roundtrip.

(* E1.31 stream lifecycle (revision 3 framing, the only one with a stream-terminated option), with a
   receiver that keeps its source-tracking state (sequence numbers, active priority) over the whole
   history: for every universe 1..65534, priority 0..200, CID and source name, any receiver buffer to
   start with, ANY number of frames fs1 (each 1-512 slots; sequence numbers wrap at 256) followed by
   TerminateStream (three terminate packets carrying the stream's next sequence numbers) followed by
   any frames fs2 of a restarted stream (sequence numbers from 0 again): every single frame, of both
   streams, runs the handler and leaves exactly that frame in the receiver's buffer. *)
Theorem c07_e131_stream_roundtrip : forall cid name prio u ip fs1 fs2 old,
  1 <= u -> u <= 65534 -> prio <= 200 ->
  Forall (fun f => 1 <= len f /\ len f <= 512) fs1 ->
  Forall (fun f => 1 <= len f /\ len f <= 512) fs2 ->
  exists t1 s1 pk t3 s3,
    send_all cid name prio u ip fs1 None (fresh_rx old) = (map (fun f => (true, Some f)) fs1, t1, s1) /\
    tx_terminate cid name prio u t1 = (pk, None) /\
    send_all cid name prio u ip fs2 None (deliver_all u ip pk s1)
      = (map (fun f => (true, Some f)) fs2, t3, s3).
Proof. intros. apply stream_roundtrip; assumption. Qed.
Print Assumptions c07_e131_stream_roundtrip.

(* E1.31, one sender streaming any number of universes (revision 3 framing): the sender keeps one
   sequence number per universe (map universe -> next sequence, as E131Node::m_tx_universes), the
   receiver tracks per universe.  For ANY interleaving `ops` of sends (universe 1..65534, frame of
   1-512 slots) by one sender, what the handler of universe hu observes after every datagram is
   exactly: for a send to hu, the handler ran and its buffer is that frame; for a send to another
   universe, the handler did not run and its buffer is unchanged.  Hence every frame of every
   universe is delivered, however many universes the node refreshes in between. *)
Theorem c07_e131_multi_universe : forall cid name prio hu ip ops old,
  prio <= 200 ->
  Forall (fun op => 1 <= fst op /\ fst op <= 65534 /\ 1 <= len (snd op) /\ len (snd op) <= 512) ops ->
  exists m' st', send_multi false cid name prio hu ip ops [] (fresh_rx old)
                   = (expect_multi hu ops old, m', st').
Proof. intros. apply multi_universe; assumption. Qed.
Print Assumptions c07_e131_multi_universe.

(* Art-Net receiver with any number of output ports, on the same or on different port addresses, each
   with its own buffer: the ArtDmx datagram for (net, addr) updates EVERY port registered on that
   address with the (even-padded) frame and leaves every other port alone. *)
Theorem c07_artnet_ports : forall seq phys addr net f (ports : list (N * buf)),
  1 <= len f -> len f <= 512 -> addr < 256 -> net < 128 ->
  exists p, artnet_build seq phys addr net f = Some p /\
            artnet_handle_ports p net ports =
              map (fun pb => if addr =? fst pb
                             then R2 (RHandled (Some (if len f mod 2 =? 0 then f else f ++ [0])))
                             else R2 RDropped) ports.
Proof. intros. apply artnet_ports; try assumption. lia. Qed.
Print Assumptions c07_artnet_ports.

(* Art-Net transmission over time (seconds), unicast mode with the subscribed-node table or
   always-broadcast: in any history of ArtPollReply arrivals and SendDMX calls in which every send
   happens at most NODE_TIMEOUT (31) seconds after the latest reply of the receiving node, every
   SendDMX produces a datagram for that node and the receiver ends up with the frame: the node is
   never aged out while it keeps replying. *)
Theorem c07_artnet_unicast_delivery : forall bcast phys addr net evs seq old,
  addr < 256 -> net < 128 -> replies_cover None evs ->
  an_run bcast phys addr net evs (None, seq) old = an_expect evs.
Proof. intros. apply an_run_ok; try assumption. lia. Qed.
Print Assumptions c07_artnet_unicast_delivery.

(* E1.31 stream lifecycle with a priority that changes from frame to frame (any values 0..200, up or
   down, same sender): every frame of the stream, and of a stream restarted after TerminateStream
   (sent with any priority tprio), is delivered. *)
Theorem c07_e131_stream_priorities : forall cid name u ip tprio fs1 fs2 old,
  1 <= u -> u <= 65534 -> tprio <= 200 ->
  Forall (fun pf => fst pf <= 200 /\ 1 <= len (snd pf) /\ len (snd pf) <= 512) fs1 ->
  Forall (fun pf => fst pf <= 200 /\ 1 <= len (snd pf) /\ len (snd pf) <= 512) fs2 ->
  exists t1 s1 pk t3 s3,
    send_all_p cid name u ip fs1 None (fresh_rx old) = (map (fun pf => (true, Some (snd pf))) fs1, t1, s1) /\
    tx_terminate cid name tprio u t1 = (pk, None) /\
    send_all_p cid name u ip fs2 None (deliver_all u ip pk s1)
      = (map (fun pf => (true, Some (snd pf))) fs2, t3, s3).
Proof. exact stream_priorities. Qed.
Print Assumptions c07_e131_stream_priorities.

(* ===== extension round ===== *)
(* further regenerated constants that the models spell as literals *)
Theorem c07_consts2 :
  (DMP_VIRTUAL_MASK, DMP_RELATIVE_MASK, DMP_TYPE_MASK, DMP_SIZE_MASK, DMP_ADDR_HEADER) = (128, 64, 48, 3, 161) /\
  (SA_OP_DMX, SA_OP_COMPRESSED_DMX, SA_COMPRESSED_HEADER_SIZE, AN_NODE_TIMEOUT, E131_SEQ_DIFF_NEG,
   E131_MAX_PRIORITY) = (768, 2560, 10, 31, 20, 200) /\
  (ACN_VFLAG, ACN_HFLAG, ACN_DFLAG, ACN_LFLAG, ACN_LENGTH_MASK) = (64, 32, 16, 128, 15).
Proof. repeat split; reflexivity. Qed.
Print Assumptions c07_consts2.

(* Partial-universe protocols, history level: after ANY sequence of frames (each 1-512 slots, any
   packet counters) sent to one universe and delivered in order, the receiver's buffer is the frames
   written one after the other at offset 0 over what was there ... *)
Theorem c07_shownet_history : forall ip name u fs b,
  u < 8 -> Forall (fun sf => 1 <= len (snd sf) /\ len (snd sf) <= 512) fs ->
  shownet_history ip name u fs b = Some (overlay_all fs b).
Proof. intros. apply shownet_history_ok; assumption. Qed.
Print Assumptions c07_shownet_history.

Theorem c07_pathport_history : forall dev u fs b,
  u <= 127 -> Forall (fun sf => 1 <= len (snd sf) /\ len (snd sf) <= 512) fs ->
  pathport_history dev u fs b = Some (overlay_all fs b).
Proof. intros. apply pathport_history_ok; assumption. Qed.
Print Assumptions c07_pathport_history.

(* ... which slot by slot means: slot i holds the value of the LAST frame of the history that was
   long enough to cover it, and its old value (0 for a receiver that had no data) if no frame
   reached it: shorter later frames leave the remaining slots untouched. *)
Theorem c07_partial_slotwise : forall fs b i,
  get (materialise (overlay_all fs b)) i =
  match last_cover i fs None with Some v => v | None => get (materialise b) i end.
Proof. exact overlay_all_slot. Qed.
Print Assumptions c07_partial_slotwise.

(* E1.31, BOTH framing revisions, most general sender history: one sender, any interleaving of sends
   over any universes 1..65534, each send with its own priority 0..200 and a frame of 0-512 slots;
   the handler of universe hu observes exactly the frames sent to hu (handler ran, buffer = frame,
   also for an empty frame) and is untouched by everything else.  Subsumes c07_e131_multi_universe
   and the data part of c07_e131_stream_priorities, and extends them to revision 2. *)
Theorem c07_e131_any_history : forall rev2 cid name hu ip ops old,
  Forall (fun op : hop => let '(u, prio, f) := op in
            1 <= u /\ u <= 65534 /\ prio <= 200 /\ len f <= 512) ops ->
  exists m' st', send_hist rev2 cid name hu ip ops [] (fresh_rx old) = (expect_hist hu ops old, m', st').
Proof. intros. apply any_history; assumption. Qed.
Print Assumptions c07_e131_any_history.

(* SandNet compressed DMX (a packet type OLA receives but never sends): a datagram carrying the
   output of the run-length encoder for a frame (any capacity that holds it) is decoded to the frame
   over the receiver's previous contents, whatever the eight header bytes after group/universe are. *)
Theorem c07_sandnet_compressed_receive : forall g u hdr8 f cap old,
  1 <= len f -> len f <= 512 -> g < 256 -> u < 256 -> len hdr8 = 8 ->
  cap < 2^32 -> 2 * len f + 2 <= cap ->
  exists bytes, rle_encode f cap = EOk bytes true (len bytes) /\
    sandnet_handle_compressed (be16 SA_OP_COMPRESSED_DMX ++ [g; u] ++ hdr8 ++ bytes) g u old
      = CHandled (Some (f ++ drop (len f) (materialise old))).
Proof. exact sandnet_compressed_rx. Qed.
Print Assumptions c07_sandnet_compressed_receive.

(* Addressing: a datagram reaches the handler of its own address and no other, for every pair of
   sender address and handler address (ShowNet, SandNet, ESP Net, Pathport; Art-Net: c07_artnet_ports,
   E1.31: c07_e131_any_history). *)
Theorem c07_addressing : forall ip name seq dev g u hg hu port f old,
  1 <= len f -> len f <= 512 ->
  (u < 8 -> exists p, shownet_build ip name seq u f = Some p /\
              shownet_handle p hu old = if u =? hu then RHandled (expect_overlay 0 f old) else RDropped) /\
  (g < 256 -> u < 256 ->
     sandnet_handle (sandnet_build g u port f) hg hu old =
       if (g =? hg) && (u =? hu) then RHandled (Some f) else RDropped) /\
  (u < 256 -> espnet_handle (espnet_build u f) hu old = if u =? hu then RHandled (Some f) else RDropped) /\
  (u <= 127 -> pathport_handle (pathport_build dev seq u f) dev hu old =
                 if u =? hu then RHandled (expect_overlay 0 f old) else RDropped).
Proof.
  intros. repeat split; intros.
  - apply shownet_roundtrip_gen; assumption.
  - apply sandnet_roundtrip_gen; assumption.
  - apply espnet_roundtrip_gen; assumption.
  - apply pathport_roundtrip_gen; assumption.
Qed.
Print Assumptions c07_addressing.

(* Empty frames: Art-Net does not send them; ESP Net delivers them as an empty buffer (E1.31: see
   c07_e131_any_history; ShowNet, SandNet and Pathport receivers ignore a datagram without slots:
   correspondence-tested). *)
Theorem c07_empty_frames : forall seq phys addr net u old,
  artnet_build seq phys addr net [] = None /\
  (u < 256 -> espnet_handle (espnet_build u []) u old = RHandled (Some [])).
Proof.
  intros. split; [reflexivity|]. intros Hu.
  rewrite (espnet_roundtrip_gen u u [] old) by (cbn; lia || exact Hu). rewrite N.eqb_refl. reflexivity.
Qed.
Print Assumptions c07_empty_frames.

(* ===== wave 5 ===== *)
(* Art-Net output port with its two merge-source slots, LTP or HTP merging: whenever every other
   tracked sender has been silent for longer than MERGE_TIMEOUT (10 s) - or there is none - the
   frame of the sender that is still transmitting is what the port's buffer holds afterwards, exactly,
   whichever slot that sender occupies.  The slots never hold one sender twice (invariant from the
   empty port onwards). *)
Theorem c07_artnet_remaining_sender : forall ltp s addr now d,
  wf_slots s -> others_stale s addr now ->
  exists s', an_update ltp s addr now d = (s', Some d).
Proof. exact an_update_remaining. Qed.
Print Assumptions c07_artnet_remaining_sender.

Theorem c07_artnet_slots_wf : forall ltp s addr now d,
  wf_slots (None, None) /\ (wf_slots s -> wf_slots (fst (an_update ltp s addr now d))).
Proof.
  intros. split; [intros a b H; discriminate H|apply an_update_wf].
Qed.
Print Assumptions c07_artnet_slots_wf.

(* E1.31, both revisions: a long-lived sender whose history mixes sends (any universe, priority, frame
   of 0-512 slots) with SetSourceName / StartStream calls on any universe at any point: the calls never
   disturb a running stream (the per-universe sequence continues), so the handler of hu still observes
   exactly the frames sent to hu. *)
Theorem c07_e131_sender_script : forall rev2 cid name hu ip ops old,
  Forall (fun op => match op with
                    | SSend u prio f => 1 <= u /\ u <= 65534 /\ prio <= 200 /\ len f <= 512
                    | STouch _ => True end) ops ->
  exists m' st', send_script rev2 cid name hu ip ops [] (fresh_rx old) = (expect_script hu ops old, m', st').
Proof.
  intros. apply send_script_ok; try assumption.
  - intros u s L. discriminate L.
  - exact I.
Qed.
Print Assumptions c07_e131_sender_script.

(* ShowNet, one long-lived sender: any sequence of sends, each to any universe 0..7 with any node name
   (SetName between sends) and any frame - identical frames to different universes included; the
   packet counter counts every datagram.  The handler of universe hu sees exactly the sends addressed
   to hu, each written at offset 0 over its previous contents. *)
Theorem c07_shownet_sender_history : forall ip hu ops seq b,
  Forall (fun op : N * list N * list N => let '(u, _, f) := op in u < 8 /\ 1 <= len f /\ len f <= 512) ops ->
  shownet_send_hist ip hu ops seq b = shownet_expect_hist hu ops b.
Proof. intros. apply shownet_send_hist_ok. assumption. Qed.
Print Assumptions c07_shownet_sender_history.

(* ===== wave 6 ===== *)
(* E1.31 receiver with any number of tracked sender CIDs on a universe (expiry, priority arbitration,
   sequence window, HTP merge): for a data packet (start code 0, not a terminate) of sender c arriving
   at a time when every OTHER tracked sender has been silent for longer than the expiry interval
   (2.5 s) - whatever priorities they had - and c's own sequence number is not in the "old" window,
   the handler runs and its buffer is exactly c's frame: the active priority left behind by vanished
   senders does not lock c out, and nothing of their data is merged in. *)
Theorem c07_e131_remaining_sender : forall st now p,
  k_term p = false -> k_sc0 p = true ->
  NoDup (map e_cid (r_srcs st)) ->
  (forall s, In s (r_srcs st) -> e_cid s <> k_cid p -> e_ts s + E131_EXPIRY_MS < now) ->
  (forall s, In s (r_srcs st) -> e_cid s = k_cid p -> seq_old (k_seq p) (e_seq s) = false) ->
  exists st', e131_track st now p = (st', true) /\ r_hbuf st' = Some (take 512 (k_frame p)).
Proof. exact e131_remaining_sender. Qed.
Print Assumptions c07_e131_remaining_sender.

(* the hypothesis on the source list is an invariant of the receiver from its empty state onwards *)
Theorem c07_e131_sources_nodup : forall st now p,
  NoDup (map e_cid (@nil esrc)) /\
  (NoDup (map e_cid (r_srcs st)) -> NoDup (map e_cid (r_srcs (fst (e131_track st now p))))).
Proof. intros. split; [constructor|apply e131_track_nodup]. Qed.
Print Assumptions c07_e131_sources_nodup.

(* ===== wave 7 ===== *)
(* ESP Net run-length format (plugins/espnet/RunLengthDecoder.cpp; repeat block 0xFE count value,
   escape 0xFD value, literals).  OLA only decodes it; esp_encode is a reference encoder of the format
   (maximal runs; runs of 3..512 as one to three repeat blocks of at most 255, shorter runs and single
   slots as literals, the bytes 0xFD / 0xFE escaped when literal and NOT escaped as the value of a
   repeat block).  For EVERY frame of 0-512 slots - values 0xFD and 0xFE in runs and as literals
   included - decoding the encoding terminates and gives the frame back: over an allocated receiver
   buffer exactly the frame (Decode resets it first), over a new one the frame followed by the
   blackout zeros. *)
Theorem c07_espnet_rle_lossless : forall f b,
  len f <= 512 ->
  exists b', esp_decode (esp_encode f) b = Some b' /\
             materialise b' = f ++ drop (len f) (materialise (buf_reset0 b)) /\
             (f <> [] -> b' <> None).
Proof. exact esp_lossless. Qed.
Print Assumptions c07_espnet_rle_lossless.

(* ... and the same through EspNetNode::HandleData for a DATA_RLE datagram that holds the encoding *)
Theorem c07_espnet_rle_roundtrip : forall u f old,
  u < 256 -> len f <= 512 -> len (esp_encode f) <= 512 ->
  exists b', espnet_handle_rle (espnet_build_rle u (esp_encode f)) u old = E2Handled b' /\
             materialise b' = f ++ drop (len f) (materialise (buf_reset0 old)) /\ (f <> [] -> b' <> None).
Proof. exact espnet_rle_roundtrip. Qed.
Print Assumptions c07_espnet_rle_roundtrip.

Theorem c07_consts3 : (ES_RLE_ESCAPE, ES_RLE_REPEAT, ES_DATA_RLE, AN_MERGE_TIMEOUT, AN_MAX_MERGE_SOURCES,
                       E131_MAX_MERGE_SOURCES) = (253, 254, 4, 10, 2, 6).
Proof. reflexivity. Qed.
Print Assumptions c07_consts3.

(* ===== wave 8 ===== *)
(* E1.31 SendDMXWithSequenceOffset (tx_send_offset: the packet carries sequence + offset, the stream's
   own sequence advances only for offset 0): a send with a non-zero offset leaves the stream's next
   sequence number as it was, and a frame sent 1..20 behind the stream is ignored by a receiver that
   follows the stream without changing its tracking state - so, by c07_e131_sender_script, every
   regular frame sent afterwards is still delivered. *)
Theorem c07_e131_offset_send : forall rev2 cid name prio u off s k f st sb,
  (off mod 256 <> 0 -> snd (tx_send_offset rev2 cid name prio u off (Some s) f) = Some s) /\
  (s < 256 -> 1 <= k -> k <= 20 -> rx_src st = Some (u8 (s + 255), sb) ->
   track_tail prio (u8 (s + (256 - k))) false f st = Some (st, false)).
Proof.
  intros. split; [apply offset_keeps_sequence|apply negative_offset_ignored].
Qed.
Print Assumptions c07_e131_offset_send.

(* ===== proof round after wave 8 ===== *)
(* E1.31, both revisions, one long-lived sender: scripts that mix regular sends (any universe,
   priority 0..200, frame of 0-512 slots), SetSourceName / StartStream calls and sends with a sequence
   offset of -1 .. -20 (frames BEHIND the stream, to any universe): whatever happens to the offset
   frames themselves, every regular frame sent to hu runs the handler and leaves exactly that frame,
   and a regular frame to another universe does not run it.  The invariant carried through the script
   is that the receiver is at most 20 behind the stream's next sequence number. *)
Theorem c07_e131_sender_script_offsets : forall rev2 cid name hu ip ops old,
  Forall (fun op => match op with
                    | S2Send u prio f => 1 <= u /\ u <= 65534 /\ prio <= 200 /\ len f <= 512
                    | S2Touch _ => True
                    | S2Behind u prio k f => 1 <= u /\ u <= 65534 /\ prio <= 200 /\ len f <= 512 /\
                                             1 <= k /\ k <= 20
                    end) ops ->
  exists m' st', send_script2 rev2 cid name hu ip ops [] (fresh_rx old) = (expect_script2 hu ops, m', st').
Proof.
  intros. apply send_script2_ok; try assumption.
  - intros u s L. discriminate L.
  - exact I.
Qed.
Print Assumptions c07_e131_sender_script_offsets.

(* A frame sent k AHEAD of the stream (offset +k, 1 <= k <= 19) to a receiver that follows the stream:
   it is accepted and moves the receiver's sequence to s + k; the next k + 1 regular frames (sequence
   s .. s + k) are then stale - ignored, state unchanged - and the one after them is delivered again.
   (This is the unchanged code's behaviour of its test entry point, stated exactly.) *)
Theorem c07_e131_offset_ahead : forall prio s k f g st sb,
  s < 256 -> 1 <= k -> k <= 19 -> rx_src st = Some (u8 (s + 255), sb) ->
  exists st1,
    track_tail prio (u8 (s + k)) false f st = Some (st1, true) /\
    rx_src st1 = Some (u8 (s + k), buf_set f) /\
    (forall i, i <= k -> track_tail prio (u8 (s + i)) false g st1 = Some (st1, false)) /\
    exists st2, track_tail prio (u8 (s + (k + 1))) false g st1 = Some (st2, true) /\ rx_buf st2 = buf_set g.
Proof. exact offset_ahead. Qed.
Print Assumptions c07_e131_offset_ahead.

(* ---- non-vacuity and the pre-fix failures as concrete evaluations of the (fixed) model *)
Definition ramp (n : nat) : list N := map (fun i => N.of_nat ((i * 7 + 3) mod 256)) (seq 0 n).
(* 128 distinct slots: the unfixed encoder emitted the count byte 0x80 here *)
Example ex_128 :
  match rle_encode (ramp 128) 1310 with
  | EOk bytes true sz => sz = 130 /\ rd bytes 0 = Some 127 /\ rd bytes 128 = Some 1 /\
                         rle_decode 0 bytes None = DOk (Some (ramp 128 ++ zeros 384)) true
  | _ => False end.
Proof. vm_compute. repeat split; reflexivity. Qed.
(* capacity exhausted mid-frame: reported, nothing beyond the capacity *)
Example ex_trunc : rle_encode [1; 2; 2; 3; 0; 0; 0; 1; 3; 3; 3; 1; 2] 6 = EOk [4; 1; 2; 2; 3] false 5.
Proof. vm_compute. reflexivity. Qed.
(* a truncated final segment is refused, not read *)
Example ex_dec_trunc : rle_decode 0 [5; 1; 2] None = DOk None false /\
                       rle_decode 0 [0x83] (Some [9]) = DOk (Some [9]) false.
Proof. vm_compute. split; reflexivity. Qed.
(* ShowNet: a frame whose encoding is as long as the frame is sent raw and received intact *)
Example ex_shownet_collide :
  match shownet_build [10; 0; 0; 1] [] 0 2 [5; 5; 5; 7] with
  | Some p => shownet_handle p 2 None = RHandled (expect_overlay 0 [5; 5; 5; 7] None) /\ len p = 51
  | None => False end.
Proof. vm_compute. split; reflexivity. Qed.
Example ex_artnet_odd :
  match artnet_build 1 1 0x23 4 [0; 1; 2; 3; 4] with
  | Some p => p = [65;114;116;45;78;101;116;0; 0;80; 0;14; 1; 1; 0x23; 4; 0;6; 0;1;2;3;4;0] /\
              artnet_handle p 4 0x23 None = R2 (RHandled (Some [0;1;2;3;4;0]))
  | None => False end.
Proof. vm_compute. split; reflexivity. Qed.
Example ex_e131_len :
  match e131_build false (repeat 7 16) [79;76;65] 100 0 1 false (repeat 9 512) with
  | Some p => len p = 638 /\ e131_handle p 1 true None = R2 (RHandled (Some (repeat 9 512)))
  | None => False end.
Proof. vm_compute. split; reflexivity. Qed.
(* what the receiver does with terminate packets that carry a stale sequence number (sender settings
   removed too early): it keeps the source and drops the restarted stream's first frame *)
Example ex_stale_terminate :
  let cid := repeat 1 16 in
  match tx_send cid [] 100 7 None [9; 9] with
  | (Some p1, _) =>
    let s1 := fst (deliver 7 true (fresh_rx None) p1) in
    match e131_build_opt false cid [] 100 0 7 E131_STREAM_TERMINATED_MASK [] with
    | Some pt =>
      let s2 := fst (deliver 7 true s1 pt) in
      match tx_send cid [] 100 7 None [4; 5] with
      | (Some p2, _) => deliver 7 true s2 p2 = (s2, false) /\ rx_buf s2 = Some [9; 9]
      | _ => False end
    | None => False end
  | _ => False end.
Proof. vm_compute. split; reflexivity. Qed.
(* 256 universes refreshed round-robin: the second refresh of universe 1 is still delivered *)
Example ex_multi_256 :
  let ops := map (fun i => (N.of_nat (S (i mod 256)), [N.of_nat (i / 256); 7])) (seq 0 513) in
  match send_multi false (repeat 1 16) [] 100 1 true ops [] (fresh_rx None) with
  | (obs, _, _) => nth 256 obs (false, None) = (true, Some [1; 7]) /\
                   nth 512 obs (false, None) = (true, Some [2; 7]) /\
                   nth 300 obs (true, None) = (false, Some [1; 7])
  end.
Proof. vm_compute. repeat split; reflexivity. Qed.
(* a reply every 28 s keeps the node subscribed; without further replies the frame at t = 40 is suppressed *)
Example ex_unicast :
  replies_cover None [AReply 0; ASend 10 [1; 2]; AReply 28; ASend 50 [3; 4]; ASend 59 [5; 6]] /\
  an_run false 0 0x12 3 [AReply 0; ASend 10 [1; 2]; ASend 40 [3; 4]] (None, 0) None
    = [None; Some (true, Some [1; 2]); Some (false, Some [1; 2])].
Proof. split; [cbn [replies_cover len length]; unfold AN_NODE_TIMEOUT, len; cbn [length]; repeat split; lia|vm_compute; reflexivity]. Qed.
Example ex_partial_history :
  shownet_history [10;0;0;1] [] 2 [(0, [1;2;3;4;5]); (1, [9;9])] None = Some (Some ([9;9;3;4;5] ++ zeros 507)) /\
  last_cover 3 [(0, [1;2;3;4;5]); (1, [9;9])] None = Some 4.
Proof. vm_compute. split; reflexivity. Qed.
Example ex_hist_rev2 :
  match send_hist true (repeat 1 16) [] 5 true [(5, 100, [1; 2]); (6, 100, [7]); (5, 10, []); (5, 200, [3])] [] (fresh_rx None) with
  | (obs, _, _) => obs = [(true, Some [1; 2]); (false, Some [1; 2]); (true, Some []); (true, Some [3])]
  end.
Proof. vm_compute. reflexivity. Qed.
(* sender A (slot 0) goes silent, B keeps sending: after the timeout B's frame is reproduced exactly *)
Example ex_remaining_sender :
  let s1 := fst (an_update false (None, None) 2 0 [200; 200; 200; 200]) in
  let s2 := fst (an_update false s1 3 3 [1; 2; 3; 4]) in
  snd (an_update false s1 3 3 [1; 2; 3; 4]) = Some [200; 200; 200; 200] /\
  others_stale s2 3 15 /\ wf_slots s2 /\
  snd (an_update false s2 3 15 [1; 2; 3; 4]) = Some [1; 2; 3; 4].
Proof.
  cbv zeta. split; [vm_compute; reflexivity|]. split.
  - intros x [H|H]; vm_compute in H; inversion H; subst; vm_compute; [right; reflexivity|left; reflexivity].
  - split; [|vm_compute; reflexivity].
    intros a b Ha Hb. vm_compute in Ha, Hb. inversion Ha; inversion Hb; subst. vm_compute. discriminate.
Qed.
(* sender 1 streams at priority 150 and vanishes; 2.7 s later sender 2 at priority 100 is delivered *)
Example ex_e131_takeover :
  let pk c prio seq f := {| k_cid := c; k_prio := prio; k_seq := seq; k_term := false; k_sc0 := true; k_frame := f |} in
  let s0 := {| r_srcs := []; r_active := 0; r_hbuf := None |} in
  let s1 := fst (e131_track s0 0 (pk 1 150 0 [200; 200])) in
  e131_track s1 300 (pk 2 100 0 [1; 2]) = (s1, false) /\
  snd (e131_track s1 2701 (pk 2 100 0 [1; 2])) = true /\
  r_hbuf (fst (e131_track s1 2701 (pk 2 100 0 [1; 2]))) = Some [1; 2].
Proof. vm_compute. repeat split; reflexivity. Qed.
(* a run of the escape byte is a repeat block whose value byte is NOT escaped; literals are *)
Example ex_esp_rle :
  esp_encode [253; 253; 253; 9; 254; 254] = [254; 3; 253; 9; 253; 254; 253; 254] /\
  esp_decode [254; 3; 253; 9; 253; 254; 253; 254] (Some [1]) = Some (Some [253; 253; 253; 9; 254; 254]) /\
  esp_decode (esp_encode (repeat 254 512)) (Some []) = Some (Some (repeat 254 512)).
Proof. vm_compute. repeat split; reflexivity. Qed.
Example ex_script_offsets :
  match send_script2 false (repeat 1 16) [] 5 true
          [S2Send 5 100 [1]; S2Behind 5 100 5 [9]; S2Send 5 100 [2]; S2Touch 5; S2Behind 6 100 20 [9];
           S2Send 6 100 [7]; S2Send 5 100 [3]] [] (fresh_rx None) with
  | (obs, _, _) => obs = [Some (true, Some [1]); None; Some (true, Some [2]); None; None;
                          Some (false, None); Some (true, Some [3])]
  end.
Proof. vm_compute. reflexivity. Qed.
