(* C07 — the stream / multi-universe statements for E1.31 revision 2 framing (draft 0.2: no start
   code slot, no options byte, hence no terminate; sequence and priority handling are the same). *)
From OlaBase Require Import Bytes.
From C07 Require Import Gen Model ModelNet2 ModelStream ModelMulti ModelHist ListLemmas
     NetProofs NetProofs2 StreamProofs MultiProofs.
Local Open Scope N_scope.

Lemma dmp_track_eq_r2 (ehdr d : list N) (pu hu : N) (ip : bool) (st : rxs) (priority seq : N) :
  rd ehdr E131R2_OFF_priority = Some priority -> rd ehdr E131R2_OFF_sequence = Some seq ->
  rd16be ehdr E131R2_OFF_universe = Some pu ->
  priority <= 200 -> len d <= 512 ->
  dmp_track true DMP_SET_PROPERTY_VECTOR ehdr [DMP_ADDR_HEADER]
    (be16 0 ++ be16 1 ++ be16 (u16 (len d)) ++ d) hu ip st
  = if pu =? hu then track_tail priority seq false d st else Some (st, false).
Proof.
  intros Hp Hs Hu Hpri H2. unfold dmp_track.
  rewrite N.eqb_refl. cbn [negb]. cbv iota. rewrite Hp, Hs, Hu.
  change (rd [DMP_ADDR_HEADER] 0) with (Some 161).
  change (N.land 0 E131_PREVIEW_DATA_MASK =? 0) with true.
  change (N.land 0 E131_STREAM_TERMINATED_MASK =? 0) with true. cbn [negb andb].
  destruct (N.eqb_spec pu hu) as [_|_]; cbn [negb]; [|reflexivity].
  change ((N.land 161 128 =? 0) || negb (N.land 161 64 =? 0) || negb (N.land 161 3 =? DMP_TWO_BYTES)
          || negb (N.land 161 48 / 16 =? DMP_RANGE_EQUAL)) with false. cbv iota.
  change E131_MAX_PRIORITY with 200.
  destruct (N.ltb_spec 200 priority) as [X|_]; [lia|].
  set (cnt := len d).
  rewrite u16_id by (unfold cnt; lia).
  set (h6 := [0; 0; 0; 1; (cnt / 256) mod 256; cnt mod 256]).
  change (be16 0 ++ be16 1 ++ be16 cnt ++ d) with (h6 ++ d).
  assert (L6 : len h6 = 6) by reflexivity.
  rewrite len_app, L6. fold cnt.
  destruct (N.ltb_spec (6 + cnt) 6) as [X|_]; [lia|].
  replace (rd16be (h6 ++ d) 0) with (Some 0) by reflexivity.
  replace (rd16be (h6 ++ d) 2) with (Some 1) by reflexivity.
  replace (rd16be (h6 ++ d) 4) with (Some (256 * ((cnt / 256) mod 256) + cnt mod 256)) by reflexivity.
  rewrite be16_join by (unfold cnt; lia). change (1 =? 1) with true. cbn [negb andb]. cbv iota.
  replace (6 + cnt - 6) with cnt by lia. rewrite N.min_id.
  assert (SL : slice (h6 ++ d) 6 cnt = d) by (unfold cnt; change 6 with (len h6); apply slice_app_exact0).
  rewrite SL. unfold track_tail. destruct (rx_src st) as [[last sb0]|]; reflexivity.
Qed.

Lemma e131_rx_build_gen_r2 (cid name : list N) (priority seq universe hu options : N) (d : list N)
      (ip : bool) (st : rxs) :
  1 <= universe -> universe <= 65534 -> priority <= 200 -> seq < 256 -> len d <= 512 ->
  exists p, e131_build_opt true cid name priority seq universe options d = Some p /\
            e131_rx p hu ip st =
              if universe =? hu then
                match track_tail priority seq false d st with
                | Some (st', ran) => SOk st' ran | None => SOob end
              else SOk st false.
Proof.
  intros U1 U2 Hp Hs H2. unfold e131_build_opt.
  destruct (N.eqb_spec universe 0) as [X|_]; [lia|].
  destruct (N.eqb_spec universe 65535) as [X|_]; [lia|]. cbn [orb].
  rewrite take_all by (unfold DMX_UNIVERSE_SIZE; lia).
  rewrite (u8_id priority), (u8_id seq), (u16_id universe) by lia.
  set (ddata := be16 0 ++ be16 1 ++ be16 (u16 (len d)) ++ d).
  assert (Ldd : len ddata = 6 + len d)
    by (unfold ddata, be16; cbn [app]; rewrite !len_cons; lia).
  set (hdr := fixed E131_REV2_SOURCE_NAME_LEN name ++ [priority; seq] ++ be16 universe).
  assert (Lh : len hdr = E131_REV2_HEADER_SIZE)
    by (unfold hdr; rewrite !len_app, len_fixed; reflexivity).
  assert (Lh' : len hdr = 36) by exact Lh.
  set (dmp := pdu_pack [DMP_SET_PROPERTY_VECTOR] [DMP_ADDR_HEADER] ddata).
  assert (Ldmp : len dmp = 4 + len ddata).
  { unfold dmp. rewrite len_pdu_pack; rewrite !len_cons, len_nil; lia. }
  set (e131 := pdu_pack (be32 VECTOR_E131_DATA) hdr dmp).
  assert (Le : len e131 = 6 + len hdr + len dmp).
  { unfold e131. rewrite len_pdu_pack; change (len (be32 VECTOR_E131_DATA)) with 4; lia. }
  eexists. split; [reflexivity|].
  set (root := pdu_pack (be32 VECTOR_ROOT_E131_REV2) (fixed ACN_CID_LENGTH cid) e131).
  unfold e131_rx. rewrite len_app. change (len ACN_HEADER) with 16.
  destruct (N.ltb_spec (16 + len root) 16) as [X|_]; [lia|].
  rewrite (take_app_exact ACN_HEADER root : take 16 (ACN_HEADER ++ root) = ACN_HEADER).
  rewrite (drop_app_exact ACN_HEADER root : drop 16 (ACN_HEADER ++ root) = root).
  change (forallb (fun xy => fst xy =? snd xy) (combine ACN_HEADER ACN_HEADER)) with true. cbn [negb].
  assert (Lbe : forall x, len (be32 x) = 4) by reflexivity.
  unfold root. rewrite pdu_one_pack;
    [| apply Lbe | apply len_fixed | rewrite Lbe, len_fixed; change ACN_CID_LENGTH with 16; lia].
  cbv beta iota zeta.
  replace (be_val (be32 VECTOR_ROOT_E131_REV2)) with VECTOR_ROOT_E131_REV2 by reflexivity.
  change (VECTOR_ROOT_E131_REV2 =? VECTOR_ROOT_E131_REV2) with true.
  change (VECTOR_ROOT_E131_REV2 =? VECTOR_ROOT_E131) with false. cbn [orb negb]. cbv iota.
  unfold e131. rewrite pdu_one_pack; [| apply Lbe | exact Lh | rewrite Lbe; lia].
  replace (be_val (be32 VECTOR_E131_DATA)) with VECTOR_E131_DATA by reflexivity.
  rewrite N.eqb_refl. cbn [negb].
  unfold dmp. rewrite pdu_one_pack; [| reflexivity | reflexivity | rewrite !len_cons, len_nil; lia].
  replace (be_val [DMP_SET_PROPERTY_VECTOR]) with DMP_SET_PROPERTY_VECTOR by reflexivity.
  unfold ddata.
  rewrite (dmp_track_eq_r2 hdr d universe hu ip st priority seq); try assumption.
  - destruct (universe =? hu); reflexivity.
  - unfold hdr. rewrite (rd_app_off _ _ 0) by (rewrite len_fixed; reflexivity). reflexivity.
  - unfold hdr. rewrite (rd_app_off _ _ 1) by (rewrite len_fixed; reflexivity). reflexivity.
  - unfold hdr.
    rewrite (rd16be_at _ _ 2 ((universe / 256) mod 256) (universe mod 256))
      by (try reflexivity; rewrite len_fixed; reflexivity).
    rewrite be16_join by lia. reflexivity.
Qed.
