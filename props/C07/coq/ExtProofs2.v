(* C07 — extension: any E1.31 sender history in either revision; SandNet compressed receive. *)
From OlaBase Require Import Bytes.
From C07 Require Import Gen Model ModelNet2 ModelStream ModelMulti ModelHist ModelExt ListLemmas
     RleProofs RleMore NetProofs NetProofs2 StreamProofs MultiProofs StreamProofs2.
Local Open Scope N_scope.

Lemma track_ok prio s f t st :
  inv t st -> s = match t with Some s => s | None => 0 end -> s < 256 -> len f <= 512 ->
  exists st', track_tail prio s false f st = Some (st', true) /\ rx_buf st' = Some f /\
              inv (Some (u8 (s + 1))) st'.
Proof.
  intros I Es Hs H2. destruct (seq_next s Hs) as (D & S2 & S3).
  unfold track_tail. destruct t as [s0|].
  - subst s0. destruct I as (_ & sb & Hsrc). rewrite Hsrc, D.
    change ((1 <=? 0)%Z && (- Z.of_N E131_SEQ_DIFF_NEG <? 1)%Z) with false. cbv iota.
    eexists. split; [reflexivity|]. cbn [rx_buf rx_src].
    split; [apply buf_set_small; exact H2|]. split; [exact S3|].
    exists (buf_set f). rewrite S2. reflexivity.
  - cbn in I. rewrite I. destruct (N.ltb_spec prio 0) as [X|_]; [lia|]. cbn [orb].
    eexists. split; [reflexivity|]. cbn [rx_buf rx_src].
    split; [apply buf_set_small; exact H2|]. split; [exact S3|].
    exists (buf_set f). subst s. reflexivity.
Qed.

Section Hist.
Variables (rev2 : bool) (cid name : list N) (hu : N) (ip : bool).

Lemma step_any prio u t f st : 1 <= u -> u <= 65534 -> prio <= 200 -> len f <= 512 ->
  let s := match t with Some s => s | None => 0 end in
  s < 256 ->
  exists p, tx_send_r rev2 cid name prio u t f = (Some p, Some (u8 (s + 1))) /\
            e131_rx p hu ip st =
              if u =? hu then
                match track_tail prio s false f st with
                | Some (st', ran) => SOk st' ran | None => SOob end
              else SOk st false.
Proof.
  intros U1 U2 Hp H2 s Hs. unfold tx_send_r. fold s. destruct rev2.
  - destruct (e131_rx_build_gen_r2 cid name prio s u hu 0 f ip st U1 U2 Hp Hs H2) as (p & B & R).
    rewrite B. exists p. split; [reflexivity|exact R].
  - destruct (e131_rx_build_gen cid name prio s u hu false f ip st U1 U2 Hp Hs H2) as (p & B & R).
    cbv iota in B. rewrite B. exists p. split; [reflexivity|exact R].
Qed.

Definition ok_hop (op : hop) : Prop :=
  let '(u, prio, f) := op in 1 <= u /\ u <= 65534 /\ prio <= 200 /\ len f <= 512.

Lemma send_hist_ok ops : Forall ok_hop ops -> forall m st,
  wf_map m -> inv (tx_lookup hu m) st ->
  exists m' st', send_hist rev2 cid name hu ip ops m st = (expect_hist hu ops (rx_buf st), m', st').
Proof.
  induction 1 as [|[[u prio] f] r (U1 & U2 & Hp & H2) _ IH]; intros m st W I.
  - exists m, st. reflexivity.
  - cbn [send_hist expect_hist]. unfold tx_send_map.
    set (t := tx_lookup u m). set (s := match t with Some s => s | None => 0 end).
    assert (Hs : s < 256) by (unfold s, t; destruct (tx_lookup u m) eqn:L; [apply (W u); exact L|lia]).
    destruct (step_any prio u t f st U1 U2 Hp H2 Hs) as (p & T & R). fold s in T, R.
    rewrite T. unfold deliver. rewrite R.
    destruct (N.eqb_spec u hu) as [E|E].
    + subst u. destruct (track_ok prio s f t st I eq_refl Hs H2) as (st' & K & B & I').
      rewrite K.
      destruct (IH (tx_update hu (u8 (s + 1)) m) st') as (m2 & st2 & S).
      * apply wf_update; [apply u8_lt|exact W].
      * rewrite lookup_update_same. exact I'.
      * rewrite S, B. exists m2, st2. reflexivity.
    + destruct (IH (tx_update u (u8 (s + 1)) m) st) as (m2 & st2 & S).
      * apply wf_update; [apply u8_lt|exact W].
      * rewrite lookup_update_other by exact E. exact I.
      * rewrite S. exists m2, st2. reflexivity.
Qed.

Lemma any_history ops old : Forall ok_hop ops ->
  exists m' st', send_hist rev2 cid name hu ip ops [] (fresh_rx old) = (expect_hist hu ops old, m', st').
Proof.
  intros F. apply (send_hist_ok ops F [] (fresh_rx old)).
  - intros u s L. discriminate L.
  - reflexivity.
Qed.
End Hist.

(* ------------------------------------------------------------------ SandNet compressed *)
Lemma sandnet_compressed_rx g u (hdr8 : list N) f cap old :
  1 <= len f -> len f <= 512 -> g < 256 -> u < 256 -> len hdr8 = 8 ->
  cap < 4294967296 -> 2 * len f + 2 <= cap ->
  exists bytes, rle_encode f cap = EOk bytes true (len bytes) /\
    sandnet_handle_compressed (be16 SA_OP_COMPRESSED_DMX ++ [g; u] ++ hdr8 ++ bytes) g u old
      = CHandled (expect_overlay 0 f old).
Proof.
  intros H1 H2 Hg Hu H8 Hc Hbig.
  destruct (rle_encode_complete f cap H1 H2 Hc Hbig) as (bytes & He & Hb & _).
  exists bytes. split; [exact He|].
  set (h := be16 SA_OP_COMPRESSED_DMX ++ [g; u] ++ hdr8).
  assert (Lh : len h = 12) by (unfold h; rewrite !len_app, H8; reflexivity).
  replace (be16 SA_OP_COMPRESSED_DMX ++ [g; u] ++ hdr8 ++ bytes) with (h ++ bytes)
    by (unfold h; rewrite <- !app_assoc; reflexivity).
  unfold sandnet_handle_compressed. rewrite len_app, Lh.
  change SA_OPCODE_SIZE with 2. change SA_COMPRESSED_HEADER_SIZE with 10. change SA_OP_COMPRESSED_DMX with 2560.
  destruct (N.ltb_spec (12 + len bytes) 2) as [X|_]; [lia|].
  replace (rd16be (h ++ bytes) 0) with (Some 2560) by reflexivity.
  change (2560 =? 2560) with true. cbn [negb].
  destruct (N.leb_spec (12 + len bytes - 2) 10) as [X|_]; [lia|].
  replace (rd (h ++ bytes) 2) with (Some g) by reflexivity.
  replace (rd (h ++ bytes) (2 + 1)) with (Some u) by reflexivity.
  rewrite !N.eqb_refl. cbn [andb negb].
  change (2 + 10) with 12. rewrite <- Lh, drop_app_exact.
  rewrite (rle_lossless f cap bytes (len bytes) 0 old) by (try lia; exact He). reflexivity.
Qed.
