(* C07 — ESP Net run-length coded data (plugins/espnet/RunLengthDecoder.cpp, EspNetNode::HandleData
   DATA_RLE).  OLA only receives this format; a reference ENCODER of the format is defined here so
   that "decoding an encoded frame returns the original" can be stated and proved. *)
From OlaBase Require Import Bytes.
From C07 Require Import Gen Model.
Local Open Scope N_scope.

(* DmxBuffer::SetChannel: the same effect as SetRange with one byte *)
Definition set_channel (b : buf) (ch v : N) : buf := fst (set_range b ch [v]).
Definition buf_reset0 (b : buf) : buf := match b with None => None | Some _ => Some [] end.   (* Reset() *)

(* RunLengthDecoder::Decode after dst->Reset(): i = next slot, rest = the bytes from `value` on *)
Fixpoint esp_dec (fuel : nat) (i : N) (rest : list N) (b : buf) : option buf :=   (* None: out of fuel *)
  match fuel with
  | O => None
  | S k =>
    if i <? DMX_UNIVERSE_SIZE then
      match rest with
      | [] => Some b
      | c :: r =>
        if c =? ES_RLE_REPEAT then
          (* the count and the value have to be part of the data *)
          match r with
          | cnt :: v :: r2 => esp_dec k (i + cnt) r2 (fst (set_range_to_value b i v cnt))
          | _ => Some b
          end
        else if c =? ES_RLE_ESCAPE then
          match r with
          | v :: r2 => esp_dec k (i + 1) r2 (set_channel b i v)
          | [] => Some b
          end
        else esp_dec k (i + 1) r (set_channel b i c)
      end
    else Some b
  end.

Definition esp_decode (src : list N) (b : buf) : option buf :=
  esp_dec (S (length src)) 0 src (buf_reset0 b).

(* ------------------------------------------------------------------ reference encoder *)
(* maximal runs of equal slots, as (value, count) with count >= 1 *)
Fixpoint runs (f : list N) : list (N * N) :=
  match f with
  | [] => []
  | x :: r =>
    match runs r with
    | (y, n) :: t => if x =? y then (y, n + 1) :: t else (x, 1) :: (y, n) :: t
    | [] => [(x, 1)]
    end
  end.

Definition esp_lit (v : N) : list N :=
  if (v =? ES_RLE_ESCAPE) || (v =? ES_RLE_REPEAT) then [ES_RLE_ESCAPE; v] else [v].

(* a run of n (<= 765) equal slots: up to three repeat blocks of at most 255; short runs as literals *)
Definition esp_run (v n : N) : list N :=
  if n <? 3 then concat (repeat (esp_lit v) (N.to_nat n))
  else if n <=? 255 then [ES_RLE_REPEAT; n; v]
  else if n <=? 510 then [ES_RLE_REPEAT; 255; v; ES_RLE_REPEAT; n - 255; v]
  else [ES_RLE_REPEAT; 255; v; ES_RLE_REPEAT; 255; v; ES_RLE_REPEAT; n - 510; v].

Definition esp_encode (f : list N) : list N :=
  concat (map (fun vn => esp_run (fst vn) (snd vn)) (runs f)).

(* ------------------------------------------------------------------ EspNetNode::HandleData, DATA_RLE *)
Definition espnet_build_rle (universe : N) (enc : list N) : list N :=
  be32 ES_DMX_HEAD ++ [u8 universe; ES_START_CODE; ES_DATA_RLE] ++ be16 (u16 (len enc)) ++ enc.

Inductive eres2 := E2Handled (b : buf) | E2Dropped | E2Oob | E2Fuel.

Definition espnet_handle_rle (p : list N) (hu : N) (b : buf) : eres2 :=
  if len p <? 4 then E2Dropped
  else match rd32be p 0 with
  | None => E2Oob
  | Some head =>
    if negb (head =? ES_DMX_HEAD) then E2Dropped
    else if len p <? ES_DATA_HEADER_SIZE then E2Dropped
    else match rd p 4, rd p 6, rd16be p 7 with
    | Some u, Some ty, Some sz =>
      if negb (u =? hu) then E2Dropped
      else
        let data_size := N.min (len p - ES_DATA_HEADER_SIZE) sz in
        if ty =? ES_DATA_RLE then
          match esp_decode (slice p ES_DATA_HEADER_SIZE data_size) b with
          | Some b' => E2Handled b'
          | None => E2Fuel
          end
        else E2Dropped
    | _, _, _ => E2Oob
    end
  end.
