(* C07 — one E1.31 sender streaming several universes: m_tx_universes as a map universe -> next
   sequence number (E131Node::SendDMX looks the universe up, creating the entry with sequence 0), and
   a receiver node whose handlers are independent per universe (DMPE131Inflator::m_handlers; a
   datagram only touches the handler of the universe in its E1.31 header). *)
From OlaBase Require Import Bytes.
From C07 Require Import Gen Model ModelNet2 ModelStream.
Local Open Scope N_scope.

Definition txmap := list (N * N).     (* universe, next sequence; at most one entry per universe *)

Fixpoint tx_lookup (u : N) (m : txmap) : txs :=
  match m with
  | [] => None
  | (k, v) :: r => if k =? u then Some v else tx_lookup u r
  end.

Fixpoint tx_update (u v : N) (m : txmap) : txmap :=
  match m with
  | [] => [(u, v)]
  | (k, w) :: r => if k =? u then (k, v) :: r else (k, w) :: tx_update u v r
  end.

(* revision 2 framing has no options byte; otherwise as ModelStream.tx_send *)
Definition tx_send_r (rev2 : bool) (cid name : list N) (priority universe : N) (t : txs) (f : list N)
  : option (list N) * txs :=
  let s := match t with Some s => s | None => 0 end in
  match e131_build_opt rev2 cid name priority s universe 0 f with
  | Some p => (Some p, Some (u8 (s + 1)))
  | None => (None, Some s)
  end.

Definition tx_send_map (rev2 : bool) (cid name : list N) (priority : N) (m : txmap) (u : N) (f : list N)
  : option (list N) * txmap :=
  let '(p, t') := tx_send_r rev2 cid name priority u (tx_lookup u m) f in
  (p, match t' with Some s => tx_update u s m | None => m end).

(* a history of sends (universe, frame) by one sender; observed: the handler of universe hu after
   every datagram (closure ran for this datagram, handler buffer) *)
Fixpoint send_multi (rev2 : bool) (cid name : list N) (prio hu : N) (ip : bool)
         (ops : list (N * list N)) (m : txmap) (st : rxs) : list (bool * buf) * txmap * rxs :=
  match ops with
  | [] => ([], m, st)
  | (u, f) :: r =>
    let '(p, m') := tx_send_map rev2 cid name prio m u f in
    let '(st', ran) := match p with Some p => deliver hu ip st p | None => (st, false) end in
    let '(o, m'', st'') := send_multi rev2 cid name prio hu ip r m' st' in
    ((ran, rx_buf st') :: o, m'', st'')
  end.

(* what the property expects to be observed at the handler of universe hu *)
Fixpoint expect_multi (hu : N) (ops : list (N * list N)) (cur : buf) : list (bool * buf) :=
  match ops with
  | [] => []
  | (u, f) :: r =>
    if u =? hu then (true, Some f) :: expect_multi hu r (Some f)
    else (false, cur) :: expect_multi hu r cur
  end.
