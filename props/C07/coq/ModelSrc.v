(* C07 — E1.31 receiver with several sender CIDs on one universe: DMPE131Inflator::HandlePDUData +
   TrackSourceIfRequired with the full source list (expiry after EXPIRY_INTERVAL, priority
   arbitration, sequence window, termination, MAX_MERGE_SOURCES) and the HTP merge of the tracked
   sources.  Which value wins while several senders are live is C08's subject; C07 needs: whenever
   every other sender is out of the picture, the live sender's frame is reproduced exactly. *)
From OlaBase Require Import Bytes.
From C07 Require Import Gen Model ModelNet2 ModelStream ModelMerge.
Local Open Scope N_scope.

(* DMPE131Inflator::EXPIRY_INTERVAL (2500000 us) is defined in the .cpp file, not in a header, so it
   cannot be regenerated; typed here and pinned by correspondence cases with gaps of 2.4 s and 2.7 s *)
Definition E131_EXPIRY_MS : N := 2500.

Record esrc := { e_cid : N; e_seq : N; e_ts : N; e_buf : buf }.     (* e_ts: last heard, milliseconds *)
Record ers := { r_srcs : list esrc; r_active : N; r_hbuf : buf }.

(* the packet as far as source tracking is concerned *)
Record epkt := { k_cid : N; k_prio : N; k_seq : N; k_term : bool; k_sc0 : bool; k_frame : list N }.

Definition same_cid (c : N) (s : esrc) : bool := e_cid s =? c.

Definition seq_old (seq last : N) : bool :=
  (i8 (seq + 256 - last) <=? 0)%Z && (- Z.of_N E131_SEQ_DIFF_NEG <? i8 (seq + 256 - last))%Z.

Fixpoint replace_src (c : N) (n : esrc) (l : list esrc) : list esrc :=
  match l with
  | [] => []
  | s :: r => if same_cid c s then n :: r else s :: replace_src c n r
  end.

Definition remove_src (c : N) (l : list esrc) : list esrc := filter (fun s => negb (same_cid c s)) l.

Definition contents (b : buf) : list N := match b with Some l => l | None => [] end.

(* the switch over sources.size() at the end of HandlePDUData *)
Definition publish (srcs : list esrc) (hb : buf) : buf * bool :=
  match srcs with
  | [] => (buf_reset hb, false)
  | [s] => (match e_buf s with Some l => Some l | None => hb end, true)
  | _ => (Some (fold_left (fun acc s => htp acc (contents (e_buf s))) srcs []), true)
  end.

Definition e131_track (st : ers) (now : N) (p : epkt) : ers * bool :=
  let c := k_cid p in
  (* expire the sources of other CIDs *)
  let srcs1 := filter (fun s => same_cid c s || negb (e_ts s + E131_EXPIRY_MS <? now)) (r_srcs st) in
  let active1 := match srcs1 with [] => 0 | _ => r_active st end in
  let unchanged := ({| r_srcs := srcs1; r_active := active1; r_hbuf := r_hbuf st |}, false) in
  let finish srcs active :=
    let '(hb, ran) := publish srcs (r_hbuf st) in
    ({| r_srcs := srcs; r_active := active; r_hbuf := hb |}, ran) in
  let newbuf old := if k_sc0 p then buf_set (k_frame p) else old in
  match find (same_cid c) srcs1 with
  | None =>
    if k_term p || (k_prio p <? active1) then unchanged
    else
      let '(srcs2, active2) := if active1 <? k_prio p then ([], k_prio p) else (srcs1, active1) in
      if len srcs2 =? E131_MAX_MERGE_SOURCES
      then ({| r_srcs := srcs2; r_active := active2; r_hbuf := r_hbuf st |}, false)
      else finish (srcs2 ++ [{| e_cid := c; e_seq := k_seq p; e_ts := now; e_buf := newbuf None |}]) active2
  | Some s =>
    if seq_old (k_seq p) (e_seq s) then unchanged
    else if k_term p then
      let srcs2 := remove_src c srcs1 in
      finish srcs2 (match srcs2 with [] => 0 | _ => active1 end)
    else
      let s' := {| e_cid := c; e_seq := k_seq p; e_ts := now; e_buf := newbuf (e_buf s) |} in
      let s_nobuf := {| e_cid := c; e_seq := k_seq p; e_ts := now; e_buf := e_buf s |} in
      if k_prio p <? active1 then
        (if len srcs1 =? 1 then finish (replace_src c s' srcs1) (k_prio p)
         else finish (remove_src c srcs1) active1)
      else if active1 <? k_prio p then
        (if len srcs1 =? 1 then finish (replace_src c s' srcs1) (k_prio p)
         else finish [s'] (k_prio p))
      else finish (replace_src c s' srcs1) active1
  end.

(* ------------------------------------------------------------------ datagram -> tracking packet *)
Inductive pk_res := PkIgnore | PkOob | PkUnmod | PkGot (p : epkt).

(* the checks of HandlePDUData before TrackSourceIfRequired (as ModelStream.dmp_track) *)
Definition dmp_fields (rev2 : bool) (cid vector : N) (e131hdr dmphdr data : list N) (hu : N)
           (ignore_preview : bool) : pk_res :=
  if negb (vector =? DMP_SET_PROPERTY_VECTOR) then PkIgnore
  else
    let o_pri := if rev2 then E131R2_OFF_priority else E131_OFF_priority in
    let o_seq := if rev2 then E131R2_OFF_sequence else E131_OFF_sequence in
    let o_uni := if rev2 then E131R2_OFF_universe else E131_OFF_universe in
    match rd e131hdr o_pri, rd e131hdr o_seq, rd16be e131hdr o_uni, rd dmphdr 0 with
    | Some priority, Some seq, Some universe, Some dh =>
      let options := if rev2 then 0 else match rd e131hdr E131_OFF_options with Some o => o | None => 0 end in
      let preview := negb (N.land options E131_PREVIEW_DATA_MASK =? 0) in
      let terminated := negb (N.land options E131_STREAM_TERMINATED_MASK =? 0) in
      if preview && ignore_preview then PkIgnore
      else if negb (universe =? hu) then PkIgnore
      else if (N.land dh 128 =? 0) || negb (N.land dh 64 =? 0)
              || negb (N.land dh 3 =? DMP_TWO_BYTES) || negb ((N.land dh 48) / 16 =? DMP_RANGE_EQUAL)
      then PkIgnore
      else if E131_MAX_PRIORITY <? priority then PkIgnore
      else if len data <? 6 then PkIgnore
      else
        match rd16be data 0, rd16be data 2, rd16be data 4 with
        | Some start, Some incr, Some number =>
          if negb (incr =? 1) then PkIgnore
          else
            let length_remaining := len data - 6 in
            let start_code : option N :=
              if rev2 then Some start
              else if (0 <? length_remaining) && (0 <? number) then rd data 6 else None in
            let sc0 := match start_code with Some 0 => true | _ => false end in
            if negb sc0 && negb terminated then PkIgnore
            else
              let channels := N.min length_remaining number in
              let frame := if rev2 then slice data 6 channels else slice data 7 (channels - 1) in
              PkGot {| k_cid := cid; k_prio := priority; k_seq := seq; k_term := terminated;
                       k_sc0 := sc0; k_frame := frame |}
        | _, _, _ => PkOob
        end
    | _, _, _, _ => PkOob
    end.

Definition e131_packet (p : list N) (hu : N) (ignore_preview : bool) : pk_res :=
  if len p <? 16 then PkIgnore
  else if negb (forallb (fun xy => fst xy =? snd xy) (combine (take 16 p) ACN_HEADER)) then PkIgnore
  else
    match pdu_one (drop 16 p) 4 ACN_CID_LENGTH with
    | PDrop => PkIgnore
    | PUnmod => PkUnmod
    | PGot rv cid rdata =>
      let rev2 := rv =? VECTOR_ROOT_E131_REV2 in
      if negb ((rv =? VECTOR_ROOT_E131) || rev2) then PkIgnore
      else
        match pdu_one rdata 4 (if rev2 then E131_REV2_HEADER_SIZE else E131_HEADER_SIZE) with
        | PDrop => PkIgnore
        | PUnmod => PkUnmod
        | PGot ev ehdr edata =>
          if negb (ev =? VECTOR_E131_DATA) then (if rev2 then PkIgnore else PkUnmod)
          else
            match pdu_one edata 1 DMP_HEADER_SIZE with
            | PDrop => PkIgnore
            | PUnmod => PkUnmod
            | PGot dv dhdr ddata => dmp_fields rev2 (be_val cid) dv ehdr dhdr ddata hu ignore_preview
            end
        end
    end.
