(* C07 — ESP Net run-length format: decoding the reference encoding of a frame gives the frame. *)
From OlaBase Require Import Bytes.
From C07 Require Import Gen Model ModelEsp ListLemmas.
Local Open Scope N_scope.

Definition expand (gs : list (N * N)) : list N :=
  concat (map (fun vn => repeat (fst vn) (N.to_nat (snd vn))) gs).
Definition total (gs : list (N * N)) : N := fold_right (fun vn a => snd vn + a) 0 gs.

Lemma set_channel_overlay b i v : i < 512 -> i <= len (materialise b) ->
  set_channel b i v = Some (overlay (materialise b) i [v]).
Proof.
  intros H1 H2. unfold set_channel.
  rewrite set_range_overlay by (unfold DMX_UNIVERSE_SIZE; rewrite ?len_cons, ?len_nil; lia). reflexivity.
Qed.

Lemma step_plain k i c rest b : i < 512 -> c <> ES_RLE_REPEAT -> c <> ES_RLE_ESCAPE ->
  esp_dec (S k) i (c :: rest) b = esp_dec k (i + 1) rest (set_channel b i c).
Proof.
  intros Hi H1 H2. cbn [esp_dec]. unfold DMX_UNIVERSE_SIZE.
  destruct (N.ltb_spec i 512); [|lia].
  destruct (N.eqb_spec c ES_RLE_REPEAT); [contradiction|].
  destruct (N.eqb_spec c ES_RLE_ESCAPE); [contradiction|]. reflexivity.
Qed.

Lemma step_esc k i v rest b : i < 512 ->
  esp_dec (S k) i (ES_RLE_ESCAPE :: v :: rest) b = esp_dec k (i + 1) rest (set_channel b i v).
Proof.
  intros Hi. cbn [esp_dec]. unfold DMX_UNIVERSE_SIZE. destruct (N.ltb_spec i 512); [|lia]. reflexivity.
Qed.

Lemma step_rep k i cnt v rest b : i < 512 ->
  esp_dec (S k) i (ES_RLE_REPEAT :: cnt :: v :: rest) b =
  esp_dec k (i + cnt) rest (fst (set_range_to_value b i v cnt)).
Proof.
  intros Hi. cbn [esp_dec]. unfold DMX_UNIVERSE_SIZE. destruct (N.ltb_spec i 512); [|lia]. reflexivity.
Qed.

(* one literal slot *)
Lemma dec_lit v rest i b fuel : i < 512 -> i <= len (materialise b) ->
  (length (esp_lit v ++ rest) < fuel)%nat ->
  exists fuel', (length rest < fuel')%nat /\
    esp_dec fuel i (esp_lit v ++ rest) b = esp_dec fuel' (i + 1) rest (Some (overlay (materialise b) i [v])).
Proof.
  intros Hi Hb Hf. unfold esp_lit in *.
  destruct (N.eqb_spec v ES_RLE_ESCAPE) as [E1|E1]; [|destruct (N.eqb_spec v ES_RLE_REPEAT) as [E2|E2]];
    cbn [orb app] in *.
  - destruct fuel as [|k]; [cbn in Hf; lia|]. exists k. split; [cbn [length] in Hf; lia|].
    rewrite step_esc by exact Hi. rewrite set_channel_overlay by assumption. reflexivity.
  - destruct fuel as [|k]; [cbn in Hf; lia|]. exists k. split; [cbn [length] in Hf; lia|].
    rewrite step_esc by exact Hi. rewrite set_channel_overlay by assumption. reflexivity.
  - destruct fuel as [|k]; [cbn in Hf; lia|]. exists k. split; [cbn [length] in Hf; lia|].
    rewrite step_plain by assumption. rewrite set_channel_overlay by assumption. reflexivity.
Qed.

(* one repeat block *)
Lemma dec_rep v n rest i b fuel : i + n <= 512 -> 1 <= n -> i <= len (materialise b) ->
  (length (ES_RLE_REPEAT :: n :: v :: rest) < fuel)%nat ->
  exists fuel', (length rest < fuel')%nat /\
    esp_dec fuel i (ES_RLE_REPEAT :: n :: v :: rest) b =
    esp_dec fuel' (i + n) rest (Some (overlay (materialise b) i (repeat v (N.to_nat n)))).
Proof.
  intros Hi Hn Hb Hf. destruct fuel as [|k]; [cbn in Hf; lia|]. exists k.
  split; [cbn [length] in Hf; lia|]. rewrite step_rep by lia.
  rewrite set_range_to_value_overlay by (unfold DMX_UNIVERSE_SIZE; lia). reflexivity.
Qed.

Lemma len_overlay_ge l i xs : i <= len l -> i + len xs <= len (overlay l i xs).
Proof. intros H. rewrite len_overlay by exact H. lia. Qed.

Lemma repeat_len (v : N) n : len (repeat v (N.to_nat n)) = n.
Proof. rewrite len_repeat. lia. Qed.

Lemma repeat_split (v : N) a b : repeat v (N.to_nat a) ++ repeat v (N.to_nat b) = repeat v (N.to_nat (a + b)).
Proof. rewrite <- repeat_app. f_equal. lia. Qed.

(* a whole run *)
Lemma ov_len b i xs : i <= len (materialise b) ->
  i + len xs <= len (materialise (Some (overlay (materialise b) i xs))).
Proof. intros H. cbn [materialise]. apply len_overlay_ge. exact H. Qed.

Lemma overlay_chain l i xs ys k : i <= len l -> k = len xs ->
  overlay (overlay l i xs) (i + k) ys = overlay l i (xs ++ ys).
Proof. intros H ->. apply overlay_overlay. exact H. Qed.

Lemma dec_run v n rest i b fuel : 1 <= n -> i + n <= 512 -> i <= len (materialise b) ->
  (length (esp_run v n ++ rest) < fuel)%nat ->
  exists fuel', (length rest < fuel')%nat /\
    esp_dec fuel i (esp_run v n ++ rest) b =
    esp_dec fuel' (i + n) rest (Some (overlay (materialise b) i (repeat v (N.to_nat n)))).
Proof.
  intros Hn Hi Hb Hf. unfold esp_run in *.
  destruct (N.ltb_spec n 3) as [L3|L3].
  - assert (n = 1 \/ n = 2) as [->| ->] by lia.
    + change (N.to_nat 1) with 1%nat in *. cbn [repeat concat] in *. rewrite app_nil_r in *.
      apply dec_lit; try assumption; lia.
    + change (N.to_nat 2) with 2%nat in *. cbn [repeat concat] in *. rewrite app_nil_r, <- app_assoc in *.
      assert (A1 : i < 512) by lia.
      destruct (dec_lit v (esp_lit v ++ rest) i b fuel A1 Hb Hf) as (f1 & F1 & E1).
      rewrite E1.
      assert (A2 : i + 1 < 512) by lia.
      assert (B2 : i + 1 <= len (materialise (Some (overlay (materialise b) i [v]))))
        by (apply (ov_len b i [v]); exact Hb).
      destruct (dec_lit v rest (i + 1) (Some (overlay (materialise b) i [v])) f1 A2 B2 F1) as (f2 & F2 & E2).
      exists f2. split; [exact F2|]. rewrite E2. cbn [materialise].
      rewrite (overlay_chain _ i [v] [v] 1) by (exact Hb || reflexivity). replace (i + 1 + 1) with (i + 2) by lia. reflexivity.
  - destruct (N.leb_spec n 255) as [L255|L255].
    + apply dec_rep; assumption.
    + set (R255 := repeat v (N.to_nat 255)).
      assert (LR : len R255 = 255) by apply repeat_len.
      assert (A1 : i + 255 <= 512) by lia. assert (O1 : 1 <= 255) by lia.
      destruct (N.leb_spec n 510) as [L510|L510]; cbn [app] in *.
      * destruct (dec_rep v 255 (ES_RLE_REPEAT :: n - 255 :: v :: rest) i b fuel A1 O1 Hb Hf) as (f1 & F1 & E1).
        rewrite E1. fold R255.
        assert (A2 : i + 255 + (n - 255) <= 512) by lia. assert (O2 : 1 <= n - 255) by lia.
        assert (B2 : i + 255 <= len (materialise (Some (overlay (materialise b) i R255))))
          by (rewrite <- LR at 1; apply ov_len; exact Hb).
        destruct (dec_rep v (n - 255) rest (i + 255) (Some (overlay (materialise b) i R255)) f1 A2 O2 B2 F1)
          as (f2 & F2 & E2).
        exists f2. split; [exact F2|]. rewrite E2. cbn [materialise].
        rewrite (overlay_chain _ i R255 _ 255) by (exact Hb || (symmetry; exact LR)). unfold R255. rewrite repeat_split.
        replace (255 + (n - 255)) with n by lia. replace (i + 255 + (n - 255)) with (i + n) by lia. reflexivity.
      * destruct (dec_rep v 255 (ES_RLE_REPEAT :: 255 :: v :: ES_RLE_REPEAT :: n - 510 :: v :: rest) i b fuel
                    A1 O1 Hb Hf) as (f1 & F1 & E1).
        rewrite E1. fold R255.
        assert (A2 : i + 255 + 255 <= 512) by lia.
        assert (B2 : i + 255 <= len (materialise (Some (overlay (materialise b) i R255))))
          by (rewrite <- LR at 1; apply ov_len; exact Hb).
        destruct (dec_rep v 255 (ES_RLE_REPEAT :: n - 510 :: v :: rest) (i + 255)
                    (Some (overlay (materialise b) i R255)) f1 A2 O1 B2 F1) as (f2 & F2 & E2).
        rewrite E2. cbn [materialise]. fold R255.
        rewrite (overlay_chain _ i R255 _ 255) by (exact Hb || (symmetry; exact LR)).
        set (R510 := R255 ++ R255).
        assert (LR2 : len R510 = 510) by (unfold R510; rewrite len_app, LR; reflexivity).
        assert (A3 : i + 255 + 255 + (n - 510) <= 512) by lia. assert (O3 : 1 <= n - 510) by lia.
        assert (B3 : i + 255 + 255 <= len (materialise (Some (overlay (materialise b) i R510)))).
        { replace (i + 255 + 255) with (i + len R510) by (rewrite LR2; lia). apply ov_len. exact Hb. }
        destruct (dec_rep v (n - 510) rest (i + 255 + 255) (Some (overlay (materialise b) i R510)) f2 A3 O3 B3 F2)
          as (f3 & F3 & E3).
        exists f3. split; [exact F3|]. rewrite E3. cbn [materialise].
        replace (i + 255 + 255) with (i + 510) by lia.
        rewrite (overlay_chain _ i R510 _ 510) by (exact Hb || (symmetry; exact LR2)).
        unfold R510, R255. rewrite !repeat_split.
        replace (255 + 255 + (n - 510)) with n by lia. replace (i + 510 + (n - 510)) with (i + n) by lia.
        reflexivity.
Qed.

(* ------------------------------------------------------------------ a sequence of runs *)
Definition enc_groups (gs : list (N * N)) : list N :=
  concat (map (fun vn => esp_run (fst vn) (snd vn)) gs).

Lemma dec_groups gs : Forall (fun vn => 1 <= snd vn) gs -> forall i b fuel,
  i + total gs <= 512 -> i <= len (materialise b) ->
  (length (enc_groups gs) < fuel)%nat ->
  exists b', esp_dec fuel i (enc_groups gs) b = Some b' /\
             materialise b' = overlay (materialise b) i (expand gs) /\
             (b' = None -> b = None /\ gs = []).
Proof.
  induction 1 as [|[v n] r Hn _ IH]; intros i b fuel Ht Hb Hf.
  - exists b. unfold enc_groups, expand. cbn [map concat]. rewrite overlay_nil.
    destruct fuel as [|k]; [cbn in Hf; lia|]. cbn [esp_dec].
    destruct (i <? DMX_UNIVERSE_SIZE); auto.
  - cbn [snd fst] in *. unfold enc_groups in *. cbn [map concat total fold_right fst snd] in *.
    fold (total r) in Ht.
    destruct (dec_run v n (concat (map (fun vn => esp_run (fst vn) (snd vn)) r)) i b fuel) as (f1 & F1 & E1);
      try assumption; try lia.
    rewrite E1.
    destruct (IH (i + n) (Some (overlay (materialise b) i (repeat v (N.to_nat n)))) f1) as (b' & D & M & Nn).
    + lia.
    + pose proof (ov_len b i (repeat v (N.to_nat n)) Hb) as X. rewrite repeat_len in X. exact X.
    + exact F1.
    + exists b'. split; [exact D|]. split.
      * rewrite M. cbn [materialise]. unfold expand. cbn [map concat fst snd].
        rewrite (overlay_chain _ i (repeat v (N.to_nat n)) _ n) by (exact Hb || (symmetry; apply repeat_len)).
        reflexivity.
      * intros ->. destruct (Nn eq_refl) as [X _]. discriminate X.
Qed.

(* ------------------------------------------------------------------ runs of a frame *)
Lemma runs_spec f : expand (runs f) = f /\ Forall (fun vn => 1 <= snd vn) (runs f) /\ total (runs f) = len f.
Proof.
  induction f as [|x r (E & F & T)]; [repeat split; constructor|].
  cbn [runs]. destruct (runs r) as [|[y n] t] eqn:R.
  - unfold expand, total in *. cbn in E. subst r. repeat split.
    constructor; [cbn; lia|constructor].
  - destruct (N.eqb_spec x y) as [->|Ne].
    + unfold expand, total in *. cbn [map concat fst snd fold_right] in *. repeat split.
      * rewrite <- E. replace (N.to_nat (n + 1)) with (S (N.to_nat n)) by lia. reflexivity.
      * inversion F; subst. constructor; [cbn [snd] in *; lia|assumption].
      * rewrite len_cons, <- T. lia.
    + unfold expand, total in *. cbn [map concat fst snd fold_right] in *. repeat split.
      * rewrite <- E. reflexivity.
      * constructor; [cbn; lia|exact F].
      * rewrite len_cons, <- T. lia.
Qed.

Lemma esp_lossless f b : len f <= 512 ->
  exists b', esp_decode (esp_encode f) b = Some b' /\
             materialise b' = f ++ drop (len f) (materialise (buf_reset0 b)) /\
             (f <> [] -> b' <> None).
Proof.
  intros H. destruct (runs_spec f) as (E & F & T).
  unfold esp_decode, esp_encode. fold (enc_groups (runs f)).
  destruct (dec_groups (runs f) F 0 (buf_reset0 b) (S (length (enc_groups (runs f))))) as (b' & D & M & Nn).
  - rewrite T. lia.
  - lia.
  - lia.
  - exists b'. split; [exact D|]. split.
    + rewrite M, E. unfold overlay. rewrite take_0, N.add_0_l. reflexivity.
    + intros Hf Hb'. destruct (Nn Hb') as [_ X]. rewrite X in E. cbn in E. congruence.
Qed.

(* ------------------------------------------------------------------ through EspNetNode::HandleData *)
Lemma espnet_rle_roundtrip u f old : u < 256 -> len f <= 512 -> len (esp_encode f) <= 512 ->
  exists b', espnet_handle_rle (espnet_build_rle u (esp_encode f)) u old = E2Handled b' /\
             materialise b' = f ++ drop (len f) (materialise (buf_reset0 old)) /\ (f <> [] -> b' <> None).
Proof.
  intros Hu Hf He. set (enc := esp_encode f) in *.
  set (h := [69; 83; 68; 68; u8 u; 0; 4; (len enc / 256) mod 256; len enc mod 256]).
  assert (E : espnet_build_rle u enc = h ++ enc).
  { unfold espnet_build_rle. rewrite u16_id by lia. reflexivity. }
  rewrite E. assert (Lh : len h = 9) by reflexivity.
  unfold espnet_handle_rle. rewrite len_app, Lh.
  change ES_DMX_HEAD with 1163084868. change ES_DATA_HEADER_SIZE with 9. change ES_DATA_RLE with 4.
  destruct (N.ltb_spec (9 + len enc) 4) as [X|_]; [lia|].
  replace (rd32be (h ++ enc) 0) with (Some 1163084868) by reflexivity.
  change (1163084868 =? 1163084868) with true. cbn [negb].
  destruct (N.ltb_spec (9 + len enc) 9) as [X|_]; [lia|].
  replace (rd (h ++ enc) 4) with (Some (u8 u)) by reflexivity.
  replace (rd (h ++ enc) 6) with (Some 4) by reflexivity.
  replace (rd16be (h ++ enc) 7) with (Some (256 * ((len enc / 256) mod 256) + len enc mod 256)) by reflexivity.
  assert (BJ : 256 * ((len enc / 256) mod 256) + len enc mod 256 = len enc).
  { rewrite (N.mod_small (len enc / 256)) by (apply N.div_lt_upper_bound; lia).
    symmetry. apply N.div_mod. lia. }
  rewrite BJ. rewrite u8_id, N.eqb_refl by lia. cbn [negb].
  replace (9 + len enc - 9) with (len enc) by lia. rewrite N.min_id. change (4 =? 4) with true. cbv iota.
  assert (SL : slice (h ++ enc) 9 (len enc) = enc).
  { unfold slice. change 9 with (len h). rewrite drop_app_exact. apply take_all. lia. }
  rewrite SL. destruct (esp_lossless f old Hf) as (b' & D & M & Nn). fold enc in D. rewrite D.
  exists b'. repeat split; assumption.
Qed.
