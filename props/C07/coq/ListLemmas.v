(* C07 — list/arith lemmas about take/drop/slice/overlay and the DmxBuffer writers. *)
From OlaBase Require Import Bytes.
From C07 Require Import Gen Model.
Local Open Scope N_scope.

Lemma usub32_ge a b : b <= a -> a < 4294967296 -> usub32 a b = a - b.
Proof.
  intros Hb Ha. unfold usub32, u32. rewrite (N.mod_small b) by lia.
  replace (a + 4294967296 - b) with ((a - b) + 1 * 4294967296) by lia.
  rewrite N.mod_add by lia. apply N.mod_small; lia.
Qed.

Lemma skipn_skipn_nat {A} (a b : nat) (l : list A) : skipn a (skipn b l) = skipn (b + a) l.
Proof.
  revert l; induction b as [|b IH]; intros l; cbn [skipn Nat.add]; [reflexivity|].
  destruct l as [|x l]; [destruct a; reflexivity|]. apply IH.
Qed.

Lemma drop_drop {A} a b (l : list A) : drop a (drop b l) = drop (b + a) l.
Proof. unfold drop. rewrite skipn_skipn_nat. f_equal. lia. Qed.

Lemma len_take {A} n (l : list A) : len (take n l) = N.min n (len l).
Proof. unfold len, take. rewrite firstn_length. lia. Qed.

Lemma len_repeat {A} (v : A) k : len (repeat v k) = N.of_nat k.
Proof. unfold len. rewrite repeat_length. reflexivity. Qed.

Lemma len_zeros n : len (zeros n) = n.
Proof. unfold zeros. rewrite len_repeat. lia. Qed.

Lemma take_all {A} n (l : list A) : len l <= n -> take n l = l.
Proof. unfold take, len; intros. apply firstn_all2. lia. Qed.

Lemma take_0 {A} (l : list A) : take 0 l = [].
Proof. reflexivity. Qed.

Lemma drop_0 {A} (l : list A) : drop 0 l = l.
Proof. reflexivity. Qed.

Lemma take_app_len {A} (a b : list A) n : n = len a -> take n (a ++ b) = a.
Proof. intros ->. apply take_app_exact. Qed.

Lemma drop_app_len {A} (a b : list A) n : n = len a -> drop n (a ++ b) = b.
Proof. intros ->. apply drop_app_exact. Qed.

Lemma drop_app_ge {A} (a b : list A) n : len a <= n -> drop n (a ++ b) = drop (n - len a) b.
Proof.
  intros H. unfold drop, len in *. rewrite skipn_app.
  rewrite skipn_all2 by lia. cbn [app]. f_equal. lia.
Qed.

Lemma len_slice l off cnt : off + cnt <= len l -> len (slice l off cnt) = cnt.
Proof. intros H. unfold slice. rewrite len_take, drop_len. lia. Qed.

Lemma slice_0 l off : slice l off 0 = [].
Proof. reflexivity. Qed.

Lemma slice_app l off a b : slice l off (a + b) = slice l off a ++ slice l (off + a) b.
Proof.
  unfold slice. rewrite <- drop_drop.
  generalize (drop off l) as m. intros m. unfold take, drop.
  replace (N.to_nat (a + b)) with (N.to_nat a + N.to_nat b)%nat by lia.
  revert m. induction (N.to_nat a) as [|k IH]; intros m; cbn [Nat.add firstn skipn app]; [reflexivity|].
  destruct m as [|x m]; [rewrite firstn_nil; reflexivity|]. cbn [firstn skipn app]. f_equal. apply IH.
Qed.

Lemma slice_full l off : off <= len l -> slice l off (len l - off) = drop off l.
Proof. intros H. unfold slice. apply take_all. rewrite drop_len. lia. Qed.

(* slice inside pre ++ [c] ++ xs ++ rest *)
Lemma slice_mid (pre xs rest : list N) o c :
  o = len pre + 1 -> slice (pre ++ c :: xs ++ rest) o (len xs) = xs.
Proof.
  intros ->. unfold slice.
  replace (pre ++ c :: xs ++ rest) with ((pre ++ [c]) ++ xs ++ rest) by (rewrite <- app_assoc; reflexivity).
  rewrite drop_app_len by (rewrite len_app, len_cons, len_nil; lia).
  apply take_app_exact.
Qed.

Lemma nth_firstn_lt {A} (l : list A) k x d : (x < k)%nat -> nth x (firstn k l) d = nth x l d.
Proof.
  revert l x; induction k as [|k IH]; intros l x H; [lia|].
  destruct l as [|y l]; [reflexivity|]. destruct x as [|x]; [reflexivity|].
  cbn [firstn nth]. apply IH. lia.
Qed.

Lemma nth_skipn_add {A} (l : list A) i x d : nth x (skipn i l) d = nth (i + x) l d.
Proof.
  revert l; induction i as [|i IH]; intros l; [reflexivity|].
  destruct l as [|y l]; [destruct x; reflexivity|]. cbn [skipn Nat.add nth]. apply IH.
Qed.

Lemma get_nth_slice f i k x : (x < N.to_nat k)%nat ->
  nth x (slice f i k) 0 = get f (i + N.of_nat x).
Proof.
  intros Hx. unfold slice, take, drop, get.
  rewrite nth_firstn_lt by exact Hx. rewrite nth_skipn_add. f_equal. lia.
Qed.

Lemma slice_const f i k v : i + k <= len f ->
  (forall x, i <= x < i + k -> get f x = v) -> slice f i k = repeat v (N.to_nat k).
Proof.
  intros Hk Hv. apply (nth_ext _ _ 0 v).
  - pose proof (len_slice f i k Hk) as L. unfold len in L. rewrite repeat_length. lia.
  - intros x Hx. pose proof (len_slice f i k Hk) as L. unfold len in L.
    rewrite get_nth_slice by lia. rewrite nth_repeat. apply Hv. lia.
Qed.

(* ------------------------------------------------------------------ overlay *)
Definition overlay (l : list N) (d : N) (xs : list N) : list N :=
  take d l ++ xs ++ drop (d + len xs) l.

Lemma overlay_nil l d : overlay l d [] = l.
Proof. unfold overlay. cbn [app]. rewrite len_nil, N.add_0_r. apply take_drop. Qed.

Lemma len_overlay l d xs : d <= len l -> len (overlay l d xs) = N.max (len l) (d + len xs).
Proof. intros H. unfold overlay. rewrite !len_app, len_take, drop_len. lia. Qed.

Lemma overlay_overlay l d xs ys : d <= len l ->
  overlay (overlay l d xs) (d + len xs) ys = overlay l d (xs ++ ys).
Proof.
  intros H.
  assert (E : overlay l d xs = (take d l ++ xs) ++ drop (d + len xs) l)
    by (unfold overlay; apply app_assoc).
  assert (L : len (take d l ++ xs) = d + len xs) by (rewrite len_app, len_take; lia).
  unfold overlay at 1. rewrite E.
  rewrite take_app_len by lia.
  rewrite drop_app_ge by lia. rewrite L, drop_drop.
  unfold overlay. rewrite len_app, <- !app_assoc.
  do 3 f_equal. f_equal. lia.
Qed.

Lemma set_range_overlay b d xs : d + len xs <= DMX_UNIVERSE_SIZE -> d < DMX_UNIVERSE_SIZE ->
  d <= len (materialise b) ->
  set_range b d xs = (Some (overlay (materialise b) d xs), true).
Proof.
  intros H1 H2 H3. unfold set_range.
  destruct (N.leb_spec DMX_UNIVERSE_SIZE d); [lia|].
  destruct (N.ltb_spec (len (materialise b)) d); [lia|].
  rewrite N.min_l by lia. rewrite (take_all (len xs) xs) by lia. reflexivity.
Qed.

Lemma set_range_to_value_overlay b d v k : d + k <= DMX_UNIVERSE_SIZE -> d < DMX_UNIVERSE_SIZE ->
  d <= len (materialise b) ->
  set_range_to_value b d v k = (Some (overlay (materialise b) d (repeat v (N.to_nat k))), true).
Proof.
  intros H1 H2 H3. unfold set_range_to_value.
  destruct (N.leb_spec DMX_UNIVERSE_SIZE d); [lia|].
  destruct (N.ltb_spec (len (materialise b)) d); [lia|].
  rewrite N.min_l by lia. unfold overlay. rewrite len_repeat, N2Nat.id. reflexivity.
Qed.

Lemma len_materialise_none : len (materialise None) = DMX_UNIVERSE_SIZE.
Proof. cbn [materialise]. apply len_zeros. Qed.

(* finite facts about count bytes, by exhaustion over 0..127 *)
Lemma below128 (P : N -> bool) :
  forallb P (map N.of_nat (seq 0 128)) = true -> forall m, m < 128 -> P m = true.
Proof.
  intros H m Hm. rewrite forallb_forall in H. apply H.
  apply in_map_iff. exists (N.to_nat m). split; [lia|]. apply in_seq. lia.
Qed.

Lemma count_lit m : m < 128 -> N.land m 127 = m /\ N.land m 128 = 0.
Proof.
  intros H.
  assert (E := below128 (fun m => (N.land m 127 =? m) && (N.land m 128 =? 0)) eq_refl m H).
  cbv beta in E. apply andb_prop in E as [E1 E2]. split; lia.
Qed.

Lemma count_rep m : m < 128 ->
  N.land (u8 (N.lor 128 m)) 127 = m /\ N.land (u8 (N.lor 128 m)) 128 = 128 /\
  128 <= u8 (N.lor 128 m) < 256.
Proof.
  intros H.
  assert (E := below128 (fun m => (N.land (u8 (N.lor 128 m)) 127 =? m)
                                  && (N.land (u8 (N.lor 128 m)) 128 =? 128)
                                  && (128 <=? u8 (N.lor 128 m)) && (u8 (N.lor 128 m) <? 256)) eq_refl m H).
  cbv beta in E. apply andb_prop in E as [E E4]. apply andb_prop in E as [E E3].
  apply andb_prop in E as [E1 E2]. repeat split; lia.
Qed.
