(* C07 — E1.31 sender scripts that also contain sends with a negative sequence offset. *)
From OlaBase Require Import Bytes.
From C07 Require Import Gen Model ModelNet2 ModelStream ModelMulti ModelExt ListLemmas NetProofs
     StreamProofs MultiProofs StreamProofs2 ExtProofs2 MergeProofs OffsetProofs.
Local Open Scope N_scope.

Inductive sop2 :=
| S2Send (u prio : N) (f : list N)            (* SendDMX *)
| S2Touch (u : N)                             (* SetSourceName / StartStream *)
| S2Behind (u prio k : N) (f : list N).       (* SendDMXWithSequenceOffset(-k), 1 <= k <= 20 *)

(* the offset send on the settings map: creates the entry (sequence 0) when missing, never advances it *)
Definition tx_behind_map (rev2 : bool) (cid name : list N) (prio : N) (m : txmap) (u k : N) (f : list N)
  : option (list N) * txmap :=
  let '(p, t') := tx_send_offset rev2 cid name prio u (256 - k) (tx_lookup u m) f in
  (p, match t' with Some s => tx_update u s m | None => m end).

(* observations: for a regular send to hu (closure ran, handler buffer); for a regular send to another
   universe only whether the closure ran; nothing for the other operations *)
Fixpoint send_script2 (rev2 : bool) (cid name : list N) (hu : N) (ip : bool)
         (ops : list sop2) (m : txmap) (st : rxs) : list (option (bool * buf)) * txmap * rxs :=
  match ops with
  | [] => ([], m, st)
  | S2Touch u :: r =>
    let '(o, m', st') := send_script2 rev2 cid name hu ip r (tx_touch u m) st in (None :: o, m', st')
  | S2Behind u prio k f :: r =>
    let '(p, m') := tx_behind_map rev2 cid name prio m u k f in
    let st' := match p with Some p => fst (deliver hu ip st p) | None => st end in
    let '(o, m'', st'') := send_script2 rev2 cid name hu ip r m' st' in (None :: o, m'', st'')
  | S2Send u prio f :: r =>
    let '(p, m') := tx_send_map rev2 cid name prio m u f in
    let '(st', ran) := match p with Some p => deliver hu ip st p | None => (st, false) end in
    let '(o, m'', st'') := send_script2 rev2 cid name hu ip r m' st' in
    (Some (ran, if u =? hu then rx_buf st' else None) :: o, m'', st'')
  end.

Fixpoint expect_script2 (hu : N) (ops : list sop2) : list (option (bool * buf)) :=
  match ops with
  | [] => []
  | S2Send u _ f :: r => Some (if u =? hu then (true, Some f) else (false, None)) :: expect_script2 hu r
  | _ :: r => None :: expect_script2 hu r
  end.

Definition ok_sop2 (op : sop2) : Prop :=
  match op with
  | S2Send u prio f => 1 <= u /\ u <= 65534 /\ prio <= 200 /\ len f <= 512
  | S2Touch _ => True
  | S2Behind u prio k f => 1 <= u /\ u <= 65534 /\ prio <= 200 /\ len f <= 512 /\ 1 <= k /\ k <= 20
  end.

(* the receiver is at most 20 behind the stream: last = s - 1 - j with j < 20 *)
Definition inv3 (t : txs) (st : rxs) : Prop :=
  match rx_src st with
  | None => True
  | Some (last, _) => exists s j, t = Some s /\ s < 256 /\ j < 20 /\ last = u8 (s + 255 - j)
  end.

Lemma window_facts s j k : s < 256 -> j < 20 -> 1 <= k -> k <= 20 ->
  (0 <? i8 (s + 256 - u8 (s + 255 - j)))%Z = true /\
  (- Z.of_N E131_SEQ_DIFF_NEG <? i8 (u8 (s + (256 - k)) + 256 - u8 (s + 255 - j)))%Z = true /\
  u8 (u8 (s + 1) + 255 - 0) = s /\ u8 (s + (256 - k)) = u8 (s + 255 - (k - 1)).
Proof.
  intros Hs Hj H1 H2.
  assert (E := upto (fun s => forallb (fun j => forallb (fun k =>
      (0 <? i8 (s + 256 - u8 (s + 255 - j)))%Z &&
      (- Z.of_N E131_SEQ_DIFF_NEG <? i8 (u8 (s + (256 - k)) + 256 - u8 (s + 255 - j)))%Z &&
      (u8 (u8 (s + 1) + 255 - 0) =? s) && (u8 (s + (256 - k)) =? u8 (s + 255 - (k - 1))))
      (map N.of_nat (seq 1 20))) (map N.of_nat (seq 0 20))) 256 eq_refl s Hs).
  cbv beta in E. rewrite forallb_forall in E.
  assert (Ej := E j ltac:(apply in_map_iff; exists (N.to_nat j); split; [lia|apply in_seq; lia])).
  rewrite forallb_forall in Ej.
  assert (Ek := Ej k ltac:(apply in_map_iff; exists (N.to_nat k); split; [lia|apply in_seq; lia])).
  apply andb_prop in Ek as [Ek E4]. apply andb_prop in Ek as [Ek E3]. apply andb_prop in Ek as [E1 E2].
  repeat split; try assumption; lia.
Qed.

Lemma track_regular prio s f t st :
  inv3 t st -> s = match t with Some s => s | None => 0 end -> s < 256 -> len f <= 512 ->
  exists st', track_tail prio s false f st = Some (st', true) /\ rx_buf st' = Some f /\
              inv3 (Some (u8 (s + 1))) st'.
Proof.
  intros I Es Hs H2. unfold track_tail. unfold inv3 in I.
  destruct (window_facts s 0 1 Hs ltac:(lia) ltac:(lia) ltac:(lia)) as (_ & _ & S2 & _).
  assert (S3 : u8 (s + 1) < 256) by apply u8_lt.
  assert (New : forall last, inv3 (Some (u8 (s + 1)))
            {| rx_src := Some (s, buf_set f); rx_active := last; rx_buf := buf_set f |}).
  { intros a. unfold inv3. cbn [rx_src]. exists (u8 (s + 1)), 0. rewrite S2. repeat split; try exact S3; try reflexivity; lia. }
  destruct (rx_src st) as [[last sb]|] eqn:E.
  - destruct I as (s0 & j & -> & _ & Hj & ->). subst s.
    destruct (window_facts s0 j 1 Hs Hj ltac:(lia) ltac:(lia)) as (P & _).
    assert (Q : (i8 (s0 + 256 - u8 (s0 + 255 - j)) <=? 0)%Z = false) by lia.
    rewrite Q. cbn [andb]. eexists. split; [reflexivity|]. cbn [rx_buf].
    split; [apply buf_set_small; exact H2|apply New].
  - destruct (N.ltb_spec prio 0) as [X|_]; [lia|]. cbn [orb].
    eexists. split; [reflexivity|]. cbn [rx_buf]. split; [apply buf_set_small; exact H2|apply New].
Qed.

Lemma track_behind prio s k f st : s < 256 -> 1 <= k -> k <= 20 -> len f <= 512 ->
  inv3 (Some s) st ->
  exists st' ran, track_tail prio (u8 (s + (256 - k))) false f st = Some (st', ran) /\ inv3 (Some s) st'.
Proof.
  intros Hs H1 H2 Hf I. unfold track_tail. unfold inv3 in I.
  assert (New : forall a, inv3 (Some s)
            {| rx_src := Some (u8 (s + (256 - k)), buf_set f); rx_active := a; rx_buf := buf_set f |}).
  { intros a. unfold inv3. cbn [rx_src]. exists s, (k - 1).
    destruct (window_facts s 0 k Hs ltac:(lia) H1 H2) as (_ & _ & _ & Q). rewrite Q.
    repeat split; try exact Hs; try reflexivity; lia. }
  destruct (rx_src st) as [[last sb]|] eqn:E.
  - destruct I as (s0 & j & X & _ & Hj & ->). inversion X; subst s0.
    destruct (window_facts s j k Hs Hj H1 H2) as (_ & P & _).
    rewrite P, andb_true_r.
    destruct (i8 (u8 (s + (256 - k)) + 256 - u8 (s + 255 - j)) <=? 0)%Z.
    + exists st, false. split; [reflexivity|]. unfold inv3. rewrite E. exists s, j. repeat split; assumption.
    + eexists _, true. split; [reflexivity|apply New].
  - destruct (N.ltb_spec prio 0) as [X|_]; [lia|]. cbn [orb].
    eexists _, true. split; [reflexivity|apply New].
Qed.

Lemma send_script2_ok rev2 cid name hu ip ops : Forall ok_sop2 ops -> forall m st,
  wf_map m -> inv3 (tx_lookup hu m) st ->
  exists m' st', send_script2 rev2 cid name hu ip ops m st = (expect_script2 hu ops, m', st').
Proof.
  induction 1 as [|op r Hop _ IH]; intros m st W I.
  - exists m, st. reflexivity.
  - destruct op as [u prio f|u|u prio k f]; cbn [send_script2 expect_script2].
    + destruct Hop as (U1 & U2 & Hp & H2). unfold tx_send_map.
      set (t := tx_lookup u m). set (s := match t with Some s => s | None => 0 end).
      assert (Hs : s < 256) by (unfold s, t; destruct (tx_lookup u m) eqn:L; [apply (W u); exact L|lia]).
      destruct (step_any rev2 cid name hu ip prio u t f st U1 U2 Hp H2 Hs) as (p & T & R). fold s in T, R.
      rewrite T. unfold deliver. rewrite R.
      destruct (N.eqb_spec u hu) as [E|E].
      * subst u. destruct (track_regular prio s f t st I eq_refl Hs H2) as (st' & K & B & I').
        rewrite K.
        destruct (IH (tx_update hu (u8 (s + 1)) m) st') as (m2 & st2 & S).
        -- apply wf_update; [apply u8_lt|exact W].
        -- rewrite lookup_update_same. exact I'.
        -- rewrite S, B. exists m2, st2. reflexivity.
      * destruct (IH (tx_update u (u8 (s + 1)) m) st) as (m2 & st2 & S).
        -- apply wf_update; [apply u8_lt|exact W].
        -- rewrite lookup_update_other by exact E. exact I.
        -- rewrite S. exists m2, st2. reflexivity.
    + destruct (IH (tx_touch u m) st) as (m2 & st2 & S).
      * unfold tx_touch. destruct (tx_lookup u m); [exact W|apply wf_update; [lia|exact W]].
      * unfold tx_touch. destruct (tx_lookup u m) eqn:L; [exact I|].
        destruct (N.eq_dec u hu) as [->|Hne].
        -- rewrite lookup_update_same. unfold inv3 in *. rewrite L in I.
           destruct (rx_src st) as [[last sb]|]; [|exact Logic.I].
           destruct I as (s0 & j & X & _). discriminate X.
        -- rewrite lookup_update_other by exact Hne. exact I.
      * rewrite S. exists m2, st2. reflexivity.
    + destruct Hop as (U1 & U2 & Hp & H2 & K1 & K2). unfold tx_behind_map, tx_send_offset.
      set (t := tx_lookup u m). set (s := match t with Some s => s | None => 0 end).
      assert (Hs : s < 256) by (unfold s, t; destruct (tx_lookup u m) eqn:L; [apply (W u); exact L|lia]).
      assert (Hq : u8 (s + (256 - k)) < 256) by apply u8_lt.
      assert (Hoff : ((256 - k) mod 256 =? 0) = false)
        by (apply N.eqb_neq; rewrite N.mod_small by lia; lia).
      rewrite Hoff.
      assert (PK : exists p, e131_build_opt rev2 cid name prio (u8 (s + (256 - k))) u 0 f = Some p /\
                   e131_rx p hu ip st =
                     if u =? hu then match track_tail prio (u8 (s + (256 - k))) false f st with
                                     | Some (st', ran) => SOk st' ran | None => SOob end
                     else SOk st false).
      { destruct rev2.
        - exact (e131_rx_build_gen_r2 cid name prio _ u hu 0 f ip st U1 U2 Hp Hq H2).
        - destruct (e131_rx_build_gen cid name prio _ u hu false f ip st U1 U2 Hp Hq H2) as (p & B & R).
          cbv iota in B. exists p. split; assumption. }
      destruct PK as (p & B & R). rewrite B. unfold deliver. rewrite R.
      assert (W' : wf_map (tx_update u s m)) by (apply wf_update; assumption).
      destruct (N.eqb_spec u hu) as [E|E].
      * subst u.
        assert (I3 : inv3 (Some s) st).
        { unfold inv3 in *. destruct (rx_src st) as [[last sb]|]; [|exact Logic.I].
          destruct I as (s0 & j & X & A & Bj & C). fold t in X. unfold s. rewrite X.
          exists s0, j. repeat split; assumption. }
        destruct (track_behind prio s k f st Hs K1 K2 H2 I3) as (st' & ran & K & I').
        rewrite K. cbn [fst].
        destruct (IH (tx_update hu s m) st') as (m2 & st2 & S); [exact W'|rewrite lookup_update_same; exact I'|].
        rewrite S. exists m2, st2. reflexivity.
      * cbn [fst].
        destruct (IH (tx_update u s m) st) as (m2 & st2 & S);
          [exact W'|rewrite lookup_update_other by exact E; exact I|].
        rewrite S. exists m2, st2. reflexivity.
Qed.

(* ------------------------------------------------------------------ a frame sent ahead of the stream *)
Lemma ahead_facts s k i : s < 256 -> 1 <= k -> k <= 19 -> i <= k ->
  (i8 (u8 (s + k) + 256 - u8 (s + 255)) <=? 0)%Z = false /\
  ((i8 (u8 (s + i) + 256 - u8 (s + k)) <=? 0)%Z &&
   (- Z.of_N E131_SEQ_DIFF_NEG <? i8 (u8 (s + i) + 256 - u8 (s + k)))%Z) = true /\
  (i8 (u8 (s + (k + 1)) + 256 - u8 (s + k)) <=? 0)%Z = false.
Proof.
  intros Hs H1 H2 Hi.
  assert (E := upto (fun s => forallb (fun k => forallb (fun i =>
      (k <? i) ||
      (negb (i8 (u8 (s + k) + 256 - u8 (s + 255)) <=? 0)%Z &&
       ((i8 (u8 (s + i) + 256 - u8 (s + k)) <=? 0)%Z &&
        (- Z.of_N E131_SEQ_DIFF_NEG <? i8 (u8 (s + i) + 256 - u8 (s + k)))%Z) &&
       negb (i8 (u8 (s + (k + 1)) + 256 - u8 (s + k)) <=? 0)%Z))
      (map N.of_nat (seq 0 20))) (map N.of_nat (seq 1 19))) 256 eq_refl s Hs).
  cbv beta in E. rewrite forallb_forall in E.
  assert (Ek := E k ltac:(apply in_map_iff; exists (N.to_nat k); split; [lia|apply in_seq; lia])).
  rewrite forallb_forall in Ek.
  assert (Ei := Ek i ltac:(apply in_map_iff; exists (N.to_nat i); split; [lia|apply in_seq; lia])).
  destruct (N.ltb_spec k i) as [X|_]; [lia|]. cbn [orb] in Ei.
  apply andb_prop in Ei as [Ei E3]. apply andb_prop in Ei as [E1 E2].
  repeat split; [destruct (_ <=? 0)%Z; [discriminate E1|reflexivity] | exact E2
                | destruct (i8 (u8 (s + (k + 1)) + 256 - u8 (s + k)) <=? 0)%Z; [discriminate E3|reflexivity]].
Qed.

Lemma offset_ahead prio s k f g st sb :
  s < 256 -> 1 <= k -> k <= 19 -> rx_src st = Some (u8 (s + 255), sb) ->
  exists st1,
    (* the frame sent k ahead is accepted and moves the receiver's sequence to s + k *)
    track_tail prio (u8 (s + k)) false f st = Some (st1, true) /\
    rx_src st1 = Some (u8 (s + k), buf_set f) /\
    (* the next k + 1 regular frames (sequence s .. s + k) are stale and change nothing *)
    (forall i, i <= k -> track_tail prio (u8 (s + i)) false g st1 = Some (st1, false)) /\
    (* the one after them is delivered again *)
    exists st2, track_tail prio (u8 (s + (k + 1))) false g st1 = Some (st2, true) /\ rx_buf st2 = buf_set g.
Proof.
  intros Hs H1 H2 Hr.
  destruct (ahead_facts s k 0 Hs H1 H2 ltac:(lia)) as (A1 & _ & A3).
  eexists. split.
  - unfold track_tail. rewrite Hr, A1. cbn [andb]. reflexivity.
  - cbn [rx_src]. split; [reflexivity|]. split.
    + intros i Hi. destruct (ahead_facts s k i Hs H1 H2 Hi) as (_ & A2 & _).
      unfold track_tail. cbn [rx_src]. rewrite A2. reflexivity.
    + eexists. unfold track_tail. cbn [rx_src]. rewrite A3. cbn [andb]. split; reflexivity.
Qed.
